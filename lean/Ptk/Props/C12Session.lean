/-
  C12 — history independence: on one split object, every divide call answers what a fresh split
  would answer for the CURRENT child dimensions; nothing of the earlier requirements, sizes or
  available sizes survives.  (Proviso, as the code is: `align` / `padding` are not reassigned
  while the same children tuple stays cached; the model shows what happens otherwise.)
-/
import Ptk.Model.C12Session
import Ptk.Props.C12
namespace Ptk.C12

/-- the cache only ever holds the alignment and padding of the session -/
def CacheOK (al : Align) (pad : Dim) (c : Cache) : Prop :=
  ∀ key a p, c = some (key, a, p) → a = al ∧ p = pad

theorem lookup_eq {al : Align} {pad : Dim} {c : Cache} (hc : CacheOK al pad c) {call : Call}
    (ha : call.al = al) (hp : call.pad = pad) : lookup c call = (call.al, call.pad) := by
  unfold lookup
  rcases c with _ | ⟨key, a, p⟩
  · rfl
  · simp only
    split_ifs
    · obtain ⟨h1, h2⟩ := hc key a p rfl
      rw [h1, h2, ha, hp]
    · rfl

/-- **History independence**: if the attributes `align` / `padding` are the same in every call,
    the answers of a session on ONE object are, call by call, the answers of fresh splits for the
    current children and their current dimensions — whatever was divided before, at whatever
    available size. -/
theorem session_history_independent (fuel : Nat) (horizontal : Bool) (filler : Dim)
    (al : Align) (pad : Dim) :
    ∀ (calls : List Call) (c : Cache), CacheOK al pad c →
      (∀ call ∈ calls, call.al = al ∧ call.pad = pad) →
      runSession fuel horizontal filler c calls = calls.map (fresh fuel horizontal filler) := by
  intro calls
  induction calls with
  | nil => intro c _ _; rfl
  | cons call rest ih =>
    intro c hc hall
    obtain ⟨ha, hp⟩ := hall call List.mem_cons_self
    have hl := lookup_eq hc ha hp
    simp only [runSession, callSplit, List.map_cons, hl, fresh]
    congr 1
    apply ih
    · intro key a p h
      simp only [Option.some.injEq, Prod.mk.injEq] at h
      exact ⟨by rw [← h.2.1, ha], by rw [← h.2.2, hp]⟩
    · intro c' hc'; exact hall c' (List.mem_cons_of_mem _ hc')

/-- in particular the answer to the last call does not depend on the calls before it -/
theorem session_last_independent (fuel : Nat) (horizontal : Bool) (filler : Dim)
    (al : Align) (pad : Dim) (before1 before2 : List Call) (call : Call)
    (h1 : ∀ c ∈ before1 ++ [call], c.al = al ∧ c.pad = pad)
    (h2 : ∀ c ∈ before2 ++ [call], c.al = al ∧ c.pad = pad) :
    (runSession fuel horizontal filler none (before1 ++ [call])).getLast? =
    (runSession fuel horizontal filler none (before2 ++ [call])).getLast? := by
  have hn : CacheOK al pad none := by intro _ _ _ h; cases h
  rw [session_history_independent fuel horizontal filler al pad _ none hn h1,
      session_history_independent fuel horizontal filler al pad _ none hn h2]
  simp

/-- non-vacuity: the seeded witness — same object, same width 20, requirements change from
    (2..6, 1..) to (8..12, 1..5) to (15, 10): the answers follow the current requirements -/
example : runSession 400 false ⟨0, 0, Gen.C12.defaultMax, 1⟩ none
    [⟨[1, 2], .justify, ⟨0, 0, 0, 1⟩, [⟨2, 4, 6, 1⟩, ⟨1, 3, Gen.C12.defaultMax, 1⟩], 20, false⟩,
     ⟨[1, 2], .justify, ⟨0, 0, 0, 1⟩, [⟨8, 10, 12, 1⟩, ⟨1, 3, 5, 1⟩], 20, false⟩,
     ⟨[1, 2], .justify, ⟨0, 0, 0, 1⟩, [⟨15, 15, 15, 1⟩, ⟨10, 10, 10, 1⟩], 20, false⟩]
    = [.ok [6, 0, 14], .ok [12, 0, 5], .tooSmall] := by decide +kernel

/-- the proviso is needed, as the code is: reassigning `align` while the same children stay
    cached keeps the old `_all_children` (here: no filler is added for the new alignment) -/
example : runSession 100 false ⟨0, 0, Gen.C12.defaultMax, 1⟩ none
    [⟨[1], .justify, ⟨0, 0, 0, 1⟩, [⟨1, 1, 1, 1⟩], 5, false⟩,
     ⟨[1], .start, ⟨0, 0, 0, 1⟩, [⟨1, 1, 1, 1⟩], 5, false⟩]
    = [.ok [1], .ok [1]] ∧
    fresh 100 false ⟨0, 0, Gen.C12.defaultMax, 1⟩ ⟨[1], .start, ⟨0, 0, 0, 1⟩, [⟨1, 1, 1, 1⟩], 5, false⟩
    = .ok [1, 4] := by decide +kernel

end Ptk.C12
