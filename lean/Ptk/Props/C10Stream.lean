/-
  C10 part 4b — the terminal stream of a rendered frame: every control token in what the
  `Vt100_Output` model sends for `_output_screen_diff` is renderer-generated (or an explicitly
  marked zero-width escape); composed with `_copy_body`: for arbitrary hostile content without
  marked fragments, the control tokens of the stream are exactly those of the emitter pieces.
-/
import Ptk.Props.C10Diff
import Ptk.Props.C10Tok
import Ptk.Model.C10Gen
namespace Ptk.C10
open Ptk.Py

/-! ### emitter strings are complete control sequences -/

theorem tkRun_params (ds : CText) (hd : ∀ c ∈ ds, isParam c = true) (cur : CText) (out : List CText) :
    tkRun ⟨.csiParam, cur, out⟩ ds = ⟨.csiParam, ds.reverse ++ cur, out⟩ := by
  induction ds generalizing cur with
  | nil => rfl
  | cons c cs ih =>
    have hc := hd c (by simp)
    simp only [tkRun, List.foldl_cons, tkStep, hc, if_true] at *
    rw [ih (fun x hx => hd x (by simp [hx]))]
    simp

theorem decimal_params (n : Nat) : ∀ c ∈ decimal n, isParam c = true := by
  intro c hc
  simp only [decimal, List.mem_map] at hc
  obtain ⟨d, hd, rfl⟩ := hc
  have := Nat.isDigit_of_mem_toDigits (b := 10) (by decide) (by decide) hd
  simp only [Char.isDigit, Bool.and_eq_true, decide_eq_true_eq] at this
  simp only [isParam, Bool.and_eq_true, decide_eq_true_eq]
  have h1 : (48 : Nat) ≤ d.toNat := by have := this.1; exact this
  have h2 : d.toNat ≤ 57 := by have := this.2; exact this
  omega

theorem final_step {f : CP} (hf : isFinal f = true) (cur : CText) (out : List CText) :
    tkStep ⟨.csiParam, cur, out⟩ f = ⟨.ground, [], finishTok (f :: cur) out⟩ := by
  simp only [isFinal, Bool.and_eq_true, decide_eq_true_eq] at hf
  have h1 : isParam f = false := by simp [isParam]; omega
  have h2 : isInter f = false := by simp [isInter]; omega
  have h3 : isFinal f = true := by simp [isFinal]; omega
  simp [tkStep, h1, h2, h3]

/-- `ESC [ <decimal> <final>` is one complete control token -/
theorem csi_num (n : Nat) {f : CP} (hf : isFinal f = true) :
    Complete ([ESC, LBRACK] ++ decimal n ++ [f]) ∧
    ctrlTokens ([ESC, LBRACK] ++ decimal n ++ [f]) = [[ESC, LBRACK] ++ decimal n ++ [f]] := by
  have hrun : tkRun tk0 ([ESC, LBRACK] ++ decimal n ++ [f]) =
      ⟨.ground, [], [([ESC, LBRACK] ++ decimal n ++ [f])]⟩ := by
    rw [tkRun_append, tkRun_append]
    have h0 : tkRun tk0 [ESC, LBRACK] = ⟨.csiParam, [LBRACK, ESC], []⟩ := by decide
    rw [h0, tkRun_params _ (decimal_params n)]
    simp only [tkRun, List.foldl_cons, List.foldl_nil]
    rw [final_step hf]
    simp [finishTok]
  constructor
  · unfold Complete; rw [hrun]
  · unfold ctrlTokens; simp only [hrun]; rfl

def csiAmount (pre suf : CText) : Bool :=
  pre == [ESC, LBRACK] && (match suf with | [f] => isFinal f | _ => false)

/-- decidable well-formedness of the emitter strings -/
def emitOk (E : Emit) : Bool :=
  complete E.hide && complete E.show_ && complete E.reset && complete E.eraseDown &&
  complete E.eraseEol && complete E.disableWrap && complete E.enableWrap &&
  complete E.up1 && complete E.fwd1 && complete E.back1 &&
  csiAmount E.upPre E.upSuf && csiAmount E.fwdPre E.fwdSuf && csiAmount E.backPre E.backSuf

theorem amountSeq_complete {one pre suf : CText} (h1 : complete one = true) (h2 : csiAmount pre suf = true)
    (n : Nat) : Complete (amountSeq one pre suf n) := by
  match n with
  | 0 => simp only [amountSeq]; decide
  | 1 => simp only [amountSeq]; exact (complete_iff _).mp h1
  | n + 2 =>
    simp only [amountSeq]
    simp only [csiAmount, Bool.and_eq_true, beq_iff_eq] at h2
    obtain ⟨hp, hs⟩ := h2
    subst hp
    match suf, hs with
    | [f], hs => exact (csi_num (n + 2) hs).1

theorem complete_crlf (k : Nat) : Complete (repeatCrLf k) := by
  induction k with
  | zero => decide
  | succ k ih =>
    have : repeatCrLf (k + 1) = [CR, LF] ++ repeatCrLf k := rfl
    rw [this]
    exact complete_append (by decide) ih

theorem safeWrite_crlf (k : Nat) : safeWrite (repeatCrLf k) = repeatCrLf k := by
  induction k with
  | zero => rfl
  | succ k ih =>
    simp only [repeatCrLf, safeWrite, List.map_cons] at *
    rw [ih, show (if CR = ESC then QM else CR) = CR from by decide,
      show (if LF = ESC then QM else LF) = LF from by decide]

/-! ### every piece of a rendered frame is control-free content or a complete generated piece -/

def SegGood (sg : Seg) : Prop := (sg.1 = .content → Clean sg.2) ∧ (sg.1 ≠ .content → Complete sg.2)

theorem vtEv_good {E : Emit} {sgr : Nat → CText} (hE : emitOk E = true) (hs : ∀ a, Complete (sgr a))
    {scr : Screen} (hb : BufClean scr.buf) (hd : Clean scr.dflt.char)
    (hz : ∀ e ∈ scr.zwe, Complete e.2) (v : VtSt) {e : Ev} (he : EvOk scr e) :
    SegGood (vtEv E sgr v e).2 := by
  simp only [emitOk, Bool.and_eq_true] at hE
  obtain ⟨⟨⟨⟨⟨⟨⟨⟨⟨⟨⟨⟨e1, e2⟩, e3⟩, e4⟩, e5⟩, e6⟩, e7⟩, e8⟩, e9⟩, e10⟩, e11⟩, e12⟩, e13⟩ := hE
  have nc : ∀ {t : CText}, Complete t → SegGood (Origin.gen, t) :=
    fun h => ⟨fun h' => (by cases h'), fun _ => h⟩
  cases e with
  | cell t =>
    refine ⟨fun _ => ?_, fun h => absurd rfl h⟩
    apply safe_write_clean
    rcases he with h | ⟨pc, hpc, h⟩
    · rw [h]; exact hd
    · rw [h]; exact hb pc hpc
  | cr => exact ⟨fun h => (by cases h), fun _ => (show Complete (safeWrite [CR]) by decide)⟩
  | nl k => exact ⟨fun h => (by cases h), fun _ => (by simp only [vtEv, safeWrite_crlf]; exact complete_crlf k)⟩
  | raw t =>
    obtain ⟨z, hz', rfl⟩ := he
    exact ⟨fun h => (by cases h), fun _ => hz z hz'⟩
  | hideCursor =>
    simp only [vtEv]; split
    · exact nc (by decide)
    · exact nc ((complete_iff _).mp e1)
  | showCursor =>
    simp only [vtEv]; split
    · exact nc (by decide)
    · exact nc ((complete_iff _).mp e2)
  | resetAttrs => exact nc ((complete_iff _).mp e3)
  | setAttrs a => exact nc (hs a)
  | fwd n => exact nc (amountSeq_complete e9 e12 n)
  | back n => exact nc (amountSeq_complete e10 e13 n)
  | up n => exact nc (amountSeq_complete e8 e11 n)
  | eraseDown => exact nc ((complete_iff _).mp e4)
  | eraseEol => exact nc ((complete_iff _).mp e5)
  | disableWrap => exact nc ((complete_iff _).mp e6)
  | enableWrap => exact nc ((complete_iff _).mp e7)

theorem vtSegs_good {E : Emit} {sgr : Nat → CText} (hE : emitOk E = true) (hs : ∀ a, Complete (sgr a))
    {scr : Screen} (hb : BufClean scr.buf) (hd : Clean scr.dflt.char)
    (hz : ∀ e ∈ scr.zwe, Complete e.2) (evs : List Ev) (hev : ∀ e ∈ evs, EvOk scr e) (v : VtSt) :
    ∀ sg ∈ (vtSegs E sgr v evs).2, SegGood sg := by
  induction evs generalizing v with
  | nil => intro sg h; simp [vtSegs] at h
  | cons e es ih =>
    intro sg h
    simp only [vtSegs, List.mem_cons] at h
    rcases h with rfl | h
    · exact vtEv_good hE hs hb hd hz v (hev e (by simp))
    · exact ih (fun e' he' => hev e' (by simp [he'])) _ sg h

/-- **End-to-end stream theorem for one rendered frame.**  Take ANY new screen whose cells are
    control-free (which `_copy_body` guarantees for any content, `copyBody_clean`) and whose
    zero-width escapes are complete sequences, any previous screen, cursor, style state and
    flags.  In the text the real-`Vt100_Output` model sends to the terminal for
    `_output_screen_diff`:
    * every content piece is control-free, and
    * the control tokens of the whole stream are exactly — in order — the control tokens of the
      renderer-generated pieces and of the explicitly marked zero-width escapes. -/
theorem render_controls_generated {E : Emit} {sgr : Nat → CText} (hE : emitOk E = true)
    (hs : ∀ a, Complete (sgr a)) (cfg : DiffCfg) (d0 : Cell) (scr : Screen) (prev : Option Screen)
    (x0 y0 : Nat) (last : Option Text) (isDone fullScreen : Bool) (prevWidth : Nat) (v : VtSt)
    (hb : BufClean scr.buf) (hd : Clean scr.dflt.char) (hz : ∀ e ∈ scr.zwe, Complete e.2) :
    let segs := (vtSegs E sgr v (diff cfg d0 scr prev x0 y0 last isDone fullScreen prevWidth).evs.reverse).2
    (∀ sg ∈ segs, sg.1 = .content → Clean sg.2) ∧
    ctrlTokens (segsText segs) =
      (segs.filter (fun sg => sg.1 ≠ .content)).flatMap (fun sg => ctrlTokens sg.2) := by
  intro segs
  have hev : ∀ e ∈ (diff cfg d0 scr prev x0 y0 last isDone fullScreen prevWidth).evs.reverse, EvOk scr e := by
    intro e he
    exact diff_writes_only_cells cfg d0 scr prev x0 y0 last isDone fullScreen prevWidth e (List.mem_reverse.mp he)
  have hg := vtSegs_good hE hs hb hd hz _ hev v
  exact ⟨fun sg h => (hg sg h).1, stream_tokens segs (fun sg h => (hg sg h).1) (fun sg h => (hg sg h).2)⟩

/-- the emitter strings regenerated from the real `Vt100_Output` are complete control sequences -/
theorem gen_emit_ok : emitOk genEmit = true := by decide +kernel


/-- zero-width-escape pieces of the stream come only from `write_raw(zero_width_escapes_row[c])` calls -/
theorem vtSegs_zwe_origin (E : Emit) (sgr : Nat → CText) (evs : List Ev) (v : VtSt) :
    ∀ sg ∈ (vtSegs E sgr v evs).2, sg.1 = .zwe → Ev.raw sg.2 ∈ evs := by
  induction evs generalizing v with
  | nil => intro sg h; simp [vtSegs] at h
  | cons e es ih =>
    intro sg h hz
    simp only [vtSegs, List.mem_cons] at h
    rcases h with rfl | h
    · cases e <;> simp only [vtEv] at hz ⊢
      all_goals first
        | (simp at hz; done)
        | (split at hz <;> simp at hz; done)
        | simp
    · exact List.mem_cons_of_mem _ (ih _ sg h hz)

/-- **Capstone: hostile content, copied by `_copy_body` and rendered by `_output_screen_diff`
    through `Vt100_Output`.**  For ANY lines of fragments (any characters: ESC, C0, C1, 8-bit CSI,
    wide, zero-width …), any styles and any line-prefix callback, none of them marked
    `[ZeroWidthEscape]`; any window geometry, wrapping and scrolling; any previous screen,
    cursor, style state and flags; any table / width function satisfying the side conditions:
    * nothing is written raw except emitter strings (no zero-width-escape piece),
    * every content piece sent to the terminal is control-free,
    * the control tokens of the whole terminal stream are exactly, in order, the control tokens of
      the renderer's own emitter pieces. -/
theorem hostile_content_stream {E : Emit} {sgr : Nat → CText} (hE : emitOk E = true)
    (hs : ∀ a, Complete (sgr a)) (ccfg : CopyCfg) (ht : TableOk ccfg.m ccfg.wc)
    (hd : Clean ccfg.dflt.char) (lines : List (List Frag)) (vscroll vscroll2 : Nat)
    (hl : ∀ line ∈ lines, ∀ f ∈ line, isZwe f.1 = false)
    (hp : ∀ pre, ccfg.pre = some pre → ∀ ln wc, ∀ f ∈ pre ln wc, isZwe f.1 = false)
    (dcfg : DiffCfg) (d0 : Cell) (prev : Option Screen) (x0 y0 : Nat) (last : Option Text)
    (isDone fullScreen : Bool) (prevWidth : Nat) (v : VtSt)
    (height : Nat) (cursor : Nat × Nat) (showCursor : Bool) :
    let st := copyBody ccfg [] [] lines vscroll vscroll2
    let scr : Screen := { buf := st.buf, zwe := st.zwe, dflt := ccfg.dflt, height := height,
                          cursor := cursor, showCursor := showCursor }
    let segs := (vtSegs E sgr v (diff dcfg d0 scr prev x0 y0 last isDone fullScreen prevWidth).evs.reverse).2
    (∀ sg ∈ segs, sg.1 ≠ .zwe) ∧
    (∀ sg ∈ segs, sg.1 = .content → Clean sg.2) ∧
    ctrlTokens (segsText segs) =
      (segs.filter (fun sg => sg.1 ≠ .content)).flatMap (fun sg => ctrlTokens sg.2) := by
  intro st scr segs
  have hzwe : scr.zwe = [] := copyBody_zwe_unmarked ccfg [] [] lines vscroll vscroll2 hl hp
  have hb : BufClean scr.buf :=
    copyBody_clean ccfg ht hd [] [] (by intro pc h; simp at h) lines vscroll vscroll2
  have hz : ∀ e ∈ scr.zwe, Complete e.2 := by intro e he; rw [hzwe] at he; simp at he
  have hmain := render_controls_generated hE hs dcfg d0 scr prev x0 y0 last isDone fullScreen prevWidth v hb hd hz
  refine ⟨?_, hmain.1, hmain.2⟩
  intro sg hsg hz'
  have hraw := vtSegs_zwe_origin E sgr _ v sg hsg hz'
  have hok := diff_writes_only_cells dcfg d0 scr prev x0 y0 last isDone fullScreen prevWidth _
    (List.mem_reverse.mp hraw)
  obtain ⟨e, he, _⟩ := hok
  rw [hzwe] at he
  simp at he

/-! ### non-vacuity: the hostile example line of `Props/C10Copy.lean`, rendered -/

def exSgr : Nat → CText := fun _ => [ESC, 0x5b, 0x30, 0x3b, 0x33, 0x34, 0x6d]
def exDiffCfg : DiffCfg := { attrsOf := fun s => s.length, hasStyle := fun _ => false, width := 8, height := 4 }
def exScreen : Screen :=
  let st := copyBody exCfg [] [] [exLine] 0 0
  { buf := st.buf, zwe := st.zwe, dflt := exCfg.dflt, height := 2, cursor := (1, 0), showCursor := true }

example : emitOk genEmit = true ∧ (∀ a, Complete (exSgr a)) := ⟨gen_emit_ok, fun _ => (show Complete [ESC, 0x5b, 0x30, 0x3b, 0x33, 0x34, 0x6d] by decide)⟩

-- what reaches the terminal for "a ESC e U+0301 U+009B" + marked OSC + "z" (first render):
-- hide cursor, reset, autowrap off, CR-free home, erase, "a", SGR, "^[", "e"+accent, CR LF,
-- "<9b>", 4 × forward … the marked escape raw, "z", cursor moves, autowrap on, reset, show cursor
example :
    ctrlTokens (renderText genEmit exSgr none (diff exDiffCfg genD0 exScreen none 0 0 none false false 0)) =
      (((vtSegs genEmit exSgr none (diff exDiffCfg genD0 exScreen none 0 0 none false false 0).evs.reverse).2.filter
        (fun sg => sg.1 ≠ .content)).flatMap (fun sg => ctrlTokens sg.2)) := by
  decide +kernel

example :
    ((vtSegs genEmit exSgr none (diff exDiffCfg genD0 exScreen none 0 0 none false false 0).evs.reverse).2.filter
      (fun sg => sg.1 = .content)).map (·.2) =
      [[0x61], [0x5e, 0x5b], [0x65, 0x301], [0x301], [0x3c, 0x39, 0x62, 0x3e], [0x7a]] := by
  decide +kernel

end Ptk.C10
