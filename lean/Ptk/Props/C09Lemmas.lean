/-
  C09 — helper definitions and lemmas for the kill / yank theorems:
  well-formedness, `reinsert`, specifications of `Buffer.delete` / `delete_before_cursor`,
  consistency (`KillOK`) of every kill command of named_commands.py.
-/
import Ptk.Model.C09Vi
namespace Ptk.C09
open Ptk.Py

/-- well-formedness of a buffer: the cursor is inside the text -/
def WF (b : Buf) : Prop := b.cur ≤ b.text.length

/-- `x` put back into `t` at position `p` -/
def reinsert (t : Text) (p : Nat) (x : Text) : Text := t.take p ++ x ++ t.drop p

section helpers
variable {α : Type}
theorem take_append_drop_len (k : Nat) (l : List α) : l.take k ++ l.drop (l.take k).length = l := by
  rw [List.length_take]
  by_cases h : k ≤ l.length
  · rw [Nat.min_eq_left h]; exact List.take_append_drop k l
  · have h' : l.length ≤ k := by omega
    rw [Nat.min_eq_right h', List.take_of_length_le h']; simp

theorem reinsert_app (pre x rest : Text) : reinsert (pre ++ rest) pre.length x = pre ++ x ++ rest := by
  simp [reinsert]
end helpers

theorem before_append_after (b : Buf) : b.before ++ b.after = b.text := by
  simp [Buf.before, Buf.after]

theorem before_length (b : Buf) (h : WF b) : b.before.length = b.cur := by
  unfold WF at h; simp [Buf.before]; omega

theorem drop_add_after (b : Buf) (k : Nat) : b.text.drop (b.cur + k) = b.after.drop k := by
  simp [Buf.after, List.drop_drop]

/-- `Buffer.delete(count)` for every (also negative) count: the returned string is a prefix of the
    text after the cursor; putting it back at the (unchanged) cursor gives the old text. -/
theorem delete_spec (b : Buf) (h : WF b) (count : Int) :
    b.text = reinsert (delete b count).1.text (delete b count).1.cur (delete b count).2 ∧
    (delete b count).1.cur = b.cur ∧ WF (delete b count).1 ∧
    ∃ k, (delete b count).2 = b.after.take k := by
  have hl := before_length b h
  unfold delete
  split
  · refine ⟨?_, rfl, ?_, ⟨_, rfl⟩⟩
    · simp only [drop_add_after]
      conv => rhs; arg 2; rw [← hl]
      rw [reinsert_app, List.append_assoc, take_append_drop_len, before_append_after]
    · simp [WF, hl]
  · refine ⟨?_, rfl, h, ⟨0, by simp⟩⟩
    simp [reinsert]

/-- `Buffer.delete_before_cursor(count)`: the returned string is a suffix of the text before the
    cursor; putting it back at the new cursor gives the old text; the cursor moved left by its length. -/
theorem deleteBefore_spec (b : Buf) (h : WF b) (count : Nat) :
    b.text = reinsert (deleteBefore b count).1.text (deleteBefore b count).1.cur (deleteBefore b count).2 ∧
    (deleteBefore b count).1.cur + (deleteBefore b count).2.length = b.cur ∧ WF (deleteBefore b count).1 ∧
    (deleteBefore b count).2 = b.before.drop (b.cur - min count b.cur) := by
  unfold WF at h
  unfold deleteBefore
  split
  · simp only [Buf.before]
    have hlen : ((b.text.take b.cur).drop (b.cur - min count b.cur)).length = min count b.cur := by
      simp; omega
    refine ⟨?_, ?_, ?_, trivial⟩
    · rw [hlen]
      have : b.cur - min count b.cur = (b.text.take (b.cur - min count b.cur)).length := by simp; omega
      conv => rhs; arg 2; rw [this]
      rw [reinsert_app]
      have h3 : b.text.take (b.cur - min count b.cur) = (b.text.take b.cur).take (b.cur - min count b.cur) := by
        rw [List.take_take]; congr 1; omega
      rw [h3, List.take_append_drop, List.take_append_drop]
    · rw [hlen]; omega
    · simp [WF]; omega
  · refine ⟨by simp [reinsert], by simp, h, ?_⟩
    have : b.cur = 0 := by omega
    simp [Buf.before, this]
theorem reinsert_reinsert_fwd (t : Text) (c : Nat) (x y : Text) (h : c ≤ t.length) :
    reinsert (reinsert t c x) c y = reinsert t c (y ++ x) := by
  unfold reinsert
  have h1 : (t.take c).length = c := by simp; omega
  have e1 : (t.take c ++ x ++ t.drop c).take c = t.take c := by
    rw [List.append_assoc, List.take_append_of_le_length (by omega)]
    rw [List.take_take]; simp
  have e2 : (t.take c ++ x ++ t.drop c).drop c = x ++ t.drop c := by
    rw [List.append_assoc]
    conv => lhs; arg 1; rw [← h1]
    rw [List.drop_left]
  rw [e1, e2]; simp

theorem reinsert_reinsert_bwd (t : Text) (c : Nat) (x y : Text) (h : c ≤ t.length) :
    reinsert (reinsert t c x) (c + x.length) y = reinsert t c (x ++ y) := by
  unfold reinsert
  have h1 : (t.take c ++ x).length = c + x.length := by simp; omega
  have e1 : (t.take c ++ x ++ t.drop c).take (c + x.length) = t.take c ++ x := by
    conv => lhs; arg 1; rw [← h1]
    rw [List.take_left]
  have e2 : (t.take c ++ x ++ t.drop c).drop (c + x.length) = t.drop c := by
    conv => lhs; arg 1; rw [← h1]
    rw [List.drop_left]
  rw [e1, e2]; simp

theorem col0_char_before (b : Buf) (h : WF b) (hc : col b = 0) (hp : 0 < b.cur) :
    b.before.drop (b.cur - 1) = ['\n'] := by
  unfold WF at h
  unfold col lineBefore at hc
  simp only [List.length_reverse] at hc
  have hlen : b.before.length = b.cur := by simp [Buf.before]; omega
  rcases List.eq_nil_or_concat b.before with hnil | ⟨pre, x, hx⟩
  · rw [hnil] at hlen; simp at hlen; omega
  · rw [hx] at hc hlen ⊢
    simp [List.takeWhile_cons] at hc
    have : x = '\n' := by
      by_cases hx' : notNl x = true
      · simp [hx'] at hc
      · simp [notNl] at hx'; exact hx'
    subst this
    simp at hlen
    have : b.cur - 1 = pre.length := by omega
    rw [this]; simp
/-- what a kill command did to the buffer is consistent: the removed text put back at the new
    cursor gives the old text, and it was adjacent to the old cursor -/
def KillOK (b : Buf) (k : Kill) : Prop :=
  b.text = reinsert k.buf.text k.buf.cur k.removed ∧ WF k.buf ∧
  (k.buf.cur = b.cur ∨ k.buf.cur + k.removed.length = b.cur)

theorem ofDel_delete_ok (b : Buf) (h : WF b) (c : Int) (p : Bool) : KillOK b (Kill.ofDel (delete b c) p) := by
  obtain ⟨h1, h2, h3, _⟩ := delete_spec b h c
  exact ⟨h1, h3, Or.inl h2⟩

theorem ofDel_deleteBefore_ok (b : Buf) (h : WF b) (c : Nat) (p : Bool) :
    KillOK b (Kill.ofDel (deleteBefore b c) p) := by
  obtain ⟨h1, h2, h3, _⟩ := deleteBefore_spec b h c
  exact ⟨h1, h3, Or.inr h2⟩

theorem nothing_ok (b : Buf) (h : WF b) : KillOK b (Kill.nothing b) := by
  refine ⟨?_, h, Or.inl rfl⟩
  simp [Kill.nothing, reinsert]

theorem killLineK_ok (b : Buf) (h : WF b) (n : Int) : KillOK b (killLineK b n) := by
  unfold killLineK
  split
  · exact ofDel_deleteBefore_ok b h _ _
  · split
    · exact ofDel_delete_ok b h _ _
    · exact ofDel_delete_ok b h _ _

theorem killWordK_ok (rs : Char → Bool) (b : Buf) (h : WF b) (n : Int) : KillOK b (killWordK rs b n) := by
  unfold killWordK
  split
  · split
    · exact ofDel_delete_ok b h _ _
    · exact nothing_ok b h
  · exact nothing_ok b h

theorem ruboutK_ok (rs : Char → Bool) (b : Buf) (h : WF b) (n : Int) (W : Bool) :
    KillOK b (ruboutK rs b n W) := by
  unfold ruboutK
  simp only
  split
  · exact ofDel_deleteBefore_ok b h _ _
  · exact nothing_ok b h

theorem lineDiscardK_ok (b : Buf) (h : WF b) : KillOK b (lineDiscardK b) := by
  unfold lineDiscardK
  split
  · exact ofDel_deleteBefore_ok b h _ _
  · exact ofDel_deleteBefore_ok b h _ _

/-- the `Kill` a kill command performs on buffer `b` with numeric argument `n` -/
def killOf (rs : Char → Bool) (b : Buf) (n : Int) : Cmd → Option Kill
  | .killLine => some (killLineK b n)
  | .lineDiscard => some (lineDiscardK b)
  | .killWord => some (killWordK rs b n)
  | .wordRubout => some (ruboutK rs b n true)
  | .backKillWord => some (ruboutK rs b n false)
  | _ => none

/-- how the command combines the removed text with the top of the ring -/
def accOf (s : St) (arg : Arg) : Cmd → Acc
  | .killWord => if arg = .none ∧ s.prev = .killWord ∧ s.kwKilled = true then .fwd else .no
  | .wordRubout => if arg = .none ∧ s.prev = .rubout then .bwd else .no
  | .backKillWord => if arg = .none ∧ s.prev = .backKill then .bwd else .no
  | _ => .no

theorem killOf_ok (rs : Char → Bool) (b : Buf) (h : WF b) (n : Int) (cmd : Cmd) (k : Kill)
    (hk : killOf rs b n cmd = some k) : KillOK b k := by
  cases cmd <;> simp [killOf] at hk <;> subst hk
  · exact killLineK_ok b h n
  · exact lineDiscardK_ok b h
  · exact killWordK_ok rs b h n
  · exact ruboutK_ok rs b h n true
  · exact ruboutK_ok rs b h n false

theorem step_kill (rs : Char → Bool) (max : Nat) (s : St) (arg : Arg) (cmd : Cmd) (k : Kill)
    (hk : killOf rs s.buf arg.val cmd = some k) :
    (step rs max s arg cmd).buf = k.buf ∧
    (step rs max s arg cmd).ring = pushKill max s.ring k (accOf s arg cmd) := by
  cases cmd <;> simp [killOf] at hk <;> subst hk <;> simp [step, applyKill, accOf, and_assoc]

theorem cut_reinsert (t : Text) (lo hi : Nat) (h1 : lo ≤ hi) (h2 : lo ≤ t.length) :
    reinsert (t.take lo ++ t.drop hi) lo ((t.take hi).drop lo) = t := by
  have hl : (t.take lo).length = lo := by simp; omega
  unfold reinsert
  rw [List.take_left' hl, List.drop_left' hl]
  have e3 : t.take lo = (t.take hi).take lo := by rw [List.take_take]; congr 1; omega
  rw [e3, List.take_append_drop, List.take_append_drop]

theorem repeatText_length (t : Text) (n : Nat) : (repeatText t n).length = t.length * n := by
  induction n with
  | zero => simp [repeatText]
  | succ m ih => simp [repeatText, ih, Nat.mul_succ]; omega

end Ptk.C09
