/-
  C09 — helper definitions and lemmas for the kill / yank theorems:
  well-formedness, `reinsert`, specifications of `Buffer.delete` / `delete_before_cursor`,
  consistency (`KillOK`) of every kill command of named_commands.py.
-/
import Ptk.Model.C09Vi
namespace Ptk.C09
open Ptk.Py

/-- well-formedness of a buffer: the cursor is inside the text -/
def WF (b : Buf) : Prop := b.cur ≤ b.text.length

/-- `x` put back into `t` at position `p` -/
def reinsert (t : Text) (p : Nat) (x : Text) : Text := t.take p ++ x ++ t.drop p

section helpers
variable {α : Type}
theorem take_append_drop_len (k : Nat) (l : List α) : l.take k ++ l.drop (l.take k).length = l := by
  rw [List.length_take]
  by_cases h : k ≤ l.length
  · rw [Nat.min_eq_left h]; exact List.take_append_drop k l
  · have h' : l.length ≤ k := by omega
    rw [Nat.min_eq_right h', List.take_of_length_le h']; simp

theorem length_takeWhile_le' (p : α → Bool) (l : List α) : (l.takeWhile p).length ≤ l.length := by
  induction l with
  | nil => simp
  | cons x xs ih => rw [List.takeWhile_cons]; split <;> simp <;> omega

theorem reinsert_app (pre x rest : Text) : reinsert (pre ++ rest) pre.length x = pre ++ x ++ rest := by
  simp [reinsert]
end helpers

theorem before_append_after (b : Buf) : b.before ++ b.after = b.text := by
  simp [Buf.before, Buf.after]

theorem before_length (b : Buf) (h : WF b) : b.before.length = b.cur := by
  unfold WF at h; simp [Buf.before]; omega

theorem drop_add_after (b : Buf) (k : Nat) : b.text.drop (b.cur + k) = b.after.drop k := by
  simp [Buf.after, List.drop_drop]

/-- `Buffer.delete(count)` for every (also negative) count: the returned string is a prefix of the
    text after the cursor; putting it back at the (unchanged) cursor gives the old text. -/
theorem delete_spec (b : Buf) (h : WF b) (count : Int) :
    b.text = reinsert (delete b count).1.text (delete b count).1.cur (delete b count).2 ∧
    (delete b count).1.cur = b.cur ∧ WF (delete b count).1 ∧
    ∃ k, (delete b count).2 = b.after.take k := by
  have hl := before_length b h
  unfold delete
  split
  · refine ⟨?_, rfl, ?_, ⟨_, rfl⟩⟩
    · simp only [drop_add_after]
      conv => rhs; arg 2; rw [← hl]
      rw [reinsert_app, List.append_assoc, take_append_drop_len, before_append_after]
    · simp [WF, hl]
  · refine ⟨?_, rfl, h, ⟨0, by simp⟩⟩
    simp [reinsert]

/-- `Buffer.delete_before_cursor(count)`: the returned string is a suffix of the text before the
    cursor; putting it back at the new cursor gives the old text; the cursor moved left by its length. -/
theorem deleteBefore_spec (b : Buf) (h : WF b) (count : Nat) :
    b.text = reinsert (deleteBefore b count).1.text (deleteBefore b count).1.cur (deleteBefore b count).2 ∧
    (deleteBefore b count).1.cur + (deleteBefore b count).2.length = b.cur ∧ WF (deleteBefore b count).1 ∧
    (deleteBefore b count).2 = b.before.drop (b.cur - min count b.cur) := by
  unfold WF at h
  unfold deleteBefore
  split
  · simp only [Buf.before]
    have hlen : ((b.text.take b.cur).drop (b.cur - min count b.cur)).length = min count b.cur := by
      simp; omega
    refine ⟨?_, ?_, ?_, trivial⟩
    · rw [hlen]
      have : b.cur - min count b.cur = (b.text.take (b.cur - min count b.cur)).length := by simp; omega
      conv => rhs; arg 2; rw [this]
      rw [reinsert_app]
      have h3 : b.text.take (b.cur - min count b.cur) = (b.text.take b.cur).take (b.cur - min count b.cur) := by
        rw [List.take_take]; congr 1; omega
      rw [h3, List.take_append_drop, List.take_append_drop]
    · rw [hlen]; omega
    · simp [WF]; omega
  · refine ⟨by simp [reinsert], by simp, h, ?_⟩
    have : b.cur = 0 := by omega
    simp [Buf.before, this]
theorem reinsert_reinsert_fwd (t : Text) (c : Nat) (x y : Text) (h : c ≤ t.length) :
    reinsert (reinsert t c x) c y = reinsert t c (y ++ x) := by
  unfold reinsert
  have h1 : (t.take c).length = c := by simp; omega
  have e1 : (t.take c ++ x ++ t.drop c).take c = t.take c := by
    rw [List.append_assoc, List.take_append_of_le_length (by omega)]
    rw [List.take_take]; simp
  have e2 : (t.take c ++ x ++ t.drop c).drop c = x ++ t.drop c := by
    rw [List.append_assoc]
    conv => lhs; arg 1; rw [← h1]
    rw [List.drop_left]
  rw [e1, e2]; simp

theorem reinsert_reinsert_bwd (t : Text) (c : Nat) (x y : Text) (h : c ≤ t.length) :
    reinsert (reinsert t c x) (c + x.length) y = reinsert t c (x ++ y) := by
  unfold reinsert
  have h1 : (t.take c ++ x).length = c + x.length := by simp; omega
  have e1 : (t.take c ++ x ++ t.drop c).take (c + x.length) = t.take c ++ x := by
    conv => lhs; arg 1; rw [← h1]
    rw [List.take_left]
  have e2 : (t.take c ++ x ++ t.drop c).drop (c + x.length) = t.drop c := by
    conv => lhs; arg 1; rw [← h1]
    rw [List.drop_left]
  rw [e1, e2]; simp

theorem col0_char_before (b : Buf) (h : WF b) (hc : col b = 0) (hp : 0 < b.cur) :
    b.before.drop (b.cur - 1) = ['\n'] := by
  unfold WF at h
  unfold col lineBefore at hc
  simp only [List.length_reverse] at hc
  have hlen : b.before.length = b.cur := by simp [Buf.before]; omega
  rcases List.eq_nil_or_concat b.before with hnil | ⟨pre, x, hx⟩
  · rw [hnil] at hlen; simp at hlen; omega
  · rw [hx] at hc hlen ⊢
    simp [List.takeWhile_cons] at hc
    have : x = '\n' := by
      by_cases hx' : notNl x = true
      · simp [hx'] at hc
      · simp [notNl] at hx'; exact hx'
    subst this
    simp at hlen
    have : b.cur - 1 = pre.length := by omega
    rw [this]; simp
/-- what a kill command did to the buffer is consistent: the removed text put back at the new
    cursor gives the old text, and it was adjacent to the old cursor -/
def KillOK (b : Buf) (k : Kill) : Prop :=
  b.text = reinsert k.buf.text k.buf.cur k.removed ∧ WF k.buf ∧
  (k.buf.cur = b.cur ∨ k.buf.cur + k.removed.length = b.cur)

theorem ofDel_delete_ok (b : Buf) (h : WF b) (c : Int) (p : Bool) : KillOK b (Kill.ofDel (delete b c) p) := by
  obtain ⟨h1, h2, h3, _⟩ := delete_spec b h c
  exact ⟨h1, h3, Or.inl h2⟩

theorem ofDel_deleteBefore_ok (b : Buf) (h : WF b) (c : Nat) (p : Bool) :
    KillOK b (Kill.ofDel (deleteBefore b c) p) := by
  obtain ⟨h1, h2, h3, _⟩ := deleteBefore_spec b h c
  exact ⟨h1, h3, Or.inr h2⟩

theorem nothing_ok (b : Buf) (h : WF b) : KillOK b (Kill.nothing b) := by
  refine ⟨?_, h, Or.inl rfl⟩
  simp [Kill.nothing, reinsert]

theorem killLineK_ok (b : Buf) (h : WF b) (n : Int) : KillOK b (killLineK b n) := by
  unfold killLineK
  split
  · exact ofDel_deleteBefore_ok b h _ _
  · split
    · exact ofDel_delete_ok b h _ _
    · exact ofDel_delete_ok b h _ _

theorem killWordK_ok (rs : Char → Bool) (b : Buf) (h : WF b) (n : Int) : KillOK b (killWordK rs b n) := by
  unfold killWordK
  generalize Gen.C09.killWordNegFixed = fl
  cases findNextWordEnding rs b n with
  | none => exact nothing_ok b h
  | some pos =>
    simp only
    by_cases h0 : pos ≠ 0
    · rw [if_pos h0]
      by_cases h1 : fl = true ∧ pos < 0
      · rw [if_pos h1]; exact ofDel_deleteBefore_ok b h _ _
      · rw [if_neg h1]; exact ofDel_delete_ok b h _ _
    · rw [if_neg h0]; exact nothing_ok b h

theorem ruboutK_ok (rs : Char → Bool) (b : Buf) (h : WF b) (n : Int) (W : Bool) :
    KillOK b (ruboutK rs b n W) := by
  unfold ruboutK
  simp only
  split
  · exact ofDel_deleteBefore_ok b h _ _
  · exact nothing_ok b h

theorem lineDiscardK_ok (b : Buf) (h : WF b) : KillOK b (lineDiscardK b) := by
  unfold lineDiscardK
  split
  · exact ofDel_deleteBefore_ok b h _ _
  · exact ofDel_deleteBefore_ok b h _ _

/-- the `Kill` a kill command performs on buffer `b` with numeric argument `n` -/
def killOf (rs : Char → Bool) (b : Buf) (n : Int) : Cmd → Option Kill
  | .killLine => some (killLineK b n)
  | .lineDiscard => some (lineDiscardK b)
  | .killWord => some (killWordK rs b n)
  | .wordRubout => some (ruboutK rs b n true)
  | .backKillWord => some (ruboutK rs b n false)
  | _ => none

/-- how the command combines the removed text with the top of the ring -/
def accOf (s : St) (arg : Arg) : Cmd → Acc
  | .killWord => if arg = .none ∧ s.prev = .killWord ∧ s.kwKilled = true then .fwd else .no
  | .wordRubout => if arg = .none ∧ s.prev = .rubout then .bwd else .no
  | .backKillWord => if arg = .none ∧ s.prev = .backKill then .bwd else .no
  | _ => .no

theorem killOf_ok (rs : Char → Bool) (b : Buf) (h : WF b) (n : Int) (cmd : Cmd) (k : Kill)
    (hk : killOf rs b n cmd = some k) : KillOK b k := by
  cases cmd <;> simp [killOf] at hk <;> subst hk
  · exact killLineK_ok b h n
  · exact lineDiscardK_ok b h
  · exact killWordK_ok rs b h n
  · exact ruboutK_ok rs b h n true
  · exact ruboutK_ok rs b h n false

theorem step_kill (rs : Char → Bool) (max : Nat) (s : St) (arg : Arg) (cmd : Cmd) (k : Kill)
    (hk : killOf rs s.buf arg.val cmd = some k) :
    (step rs max s arg cmd).buf = k.buf ∧
    (step rs max s arg cmd).ring = pushKill max s.ring k (accOf s arg cmd) := by
  cases cmd <;> simp [killOf] at hk <;> subst hk <;> simp [step, applyKill, accOf, and_assoc]

theorem cut_reinsert (t : Text) (lo hi : Nat) (h1 : lo ≤ hi) (h2 : lo ≤ t.length) :
    reinsert (t.take lo ++ t.drop hi) lo ((t.take hi).drop lo) = t := by
  have hl : (t.take lo).length = lo := by simp; omega
  unfold reinsert
  rw [List.take_left' hl, List.drop_left' hl]
  have e3 : t.take lo = (t.take hi).take lo := by rw [List.take_take]; congr 1; omega
  rw [e3, List.take_append_drop, List.take_append_drop]

theorem repeatText_length (t : Text) (n : Nat) : (repeatText t n).length = t.length * n := by
  induction n with
  | zero => simp [repeatText]
  | succ m ih => simp [repeatText, ih, Nat.mul_succ]; omega

/-! ### paste with a non-positive count -/

/-- `paste_clipboard_data(count <= 0)` returns the document itself -/
theorem pasteRaw_nonpos (b : Buf) (d : Clip) (mode : PasteMode) (count : Int) (h : count ≤ 0) :
    pasteRaw b d mode count = (b.text, (b.cur : Int)) := by
  unfold pasteRaw; rw [if_pos h]

theorem rep_nonpos (t : Text) (count : Int) (h : count ≤ 0) : rep t count = [] := by
  have : count.toNat = 0 := by omega
  simp [rep, this, repeatText]

/-! ### `str.split(sep)` / `sep.join` -/

theorem splitOn_ne_nil (c : Char) (t : Text) : splitOn c t ≠ [] := by
  induction t with
  | nil => simp [splitOn]
  | cons x xs ih =>
    unfold splitOn
    split
    · simp
    · split <;> simp

theorem join_splitOn (c : Char) (t : Text) : join [c] (splitOn c t) = t := by
  induction t with
  | nil => simp [splitOn, join]
  | cons x xs ih =>
    unfold splitOn
    split
    · rename_i h
      cases hs : splitOn c xs with
      | nil => exact absurd hs (splitOn_ne_nil c xs)
      | cons l ls =>
        rw [hs] at ih
        simp [join, ih, h]
    · cases hs : splitOn c xs with
      | nil => exact absurd hs (splitOn_ne_nil c xs)
      | cons l ls =>
        rw [hs] at ih
        simp only
        cases ls with
        | nil => simp [join] at ih ⊢; exact ih
        | cons l2 ls2 => simp [join] at ih ⊢; exact ih

/-- `(a + sep + b).split(sep) = a.split(sep) + b.split(sep)` -/
theorem splitOn_cons (c x : Char) (xs : Text) :
    splitOn c (x :: xs) = if x = c then [] :: splitOn c xs
      else match splitOn c xs with
        | [] => [[x]]
        | l :: ls => (x :: l) :: ls := by
  rfl

theorem splitOn_append (c : Char) (a b : Text) :
    splitOn c (a ++ c :: b) = splitOn c a ++ splitOn c b := by
  induction a with
  | nil => simp [splitOn]
  | cons x xs ih =>
    simp only [List.cons_append]
    rw [splitOn_cons, splitOn_cons c x xs]
    split
    · simp [ih]
    · rw [ih]
      cases hs : splitOn c xs with
      | nil => exact absurd hs (splitOn_ne_nil c xs)
      | cons l ls => simp

theorem splitOn_no_sep (c : Char) (l : Text) (h : c ∉ l) : splitOn c l = [l] := by
  induction l with
  | nil => simp [splitOn]
  | cons x xs ih =>
    simp at h
    unfold splitOn
    rw [if_neg (fun e => h.1 e.symm), ih h.2]

theorem not_mem_of_mem_splitOn (c : Char) (t : Text) : ∀ l ∈ splitOn c t, c ∉ l := by
  induction t with
  | nil => simp [splitOn]
  | cons x xs ih =>
    unfold splitOn
    split
    · intro l hl; simp at hl; rcases hl with rfl | hl
      · simp
      · exact ih l hl
    · rename_i hx
      cases hs : splitOn c xs with
      | nil => exact absurd hs (splitOn_ne_nil c xs)
      | cons l0 ls =>
        rw [hs] at ih
        intro l hl; simp at hl; rcases hl with rfl | hl
        · have := ih l0 (by simp)
          simp; exact ⟨fun e => hx e.symm, this⟩
        · exact ih l (by simp [hl])

/-- `sep.join(ls).split(sep)` is the concatenation of the splits (for a non-empty list) -/
theorem splitOn_join (c : Char) (ls : List Text) (h : ls ≠ []) :
    splitOn c (join [c] ls) = ls.flatMap (splitOn c) := by
  induction ls with
  | nil => exact absurd rfl h
  | cons l rest ih =>
    cases rest with
    | nil => simp [join]
    | cons l2 rest2 =>
      simp only [join, List.append_assoc, List.singleton_append]
      rw [splitOn_append, ih (by simp)]
      simp

theorem flatMap_splitOn_lines (c : Char) (ls : List Text) (h : ∀ l ∈ ls, c ∉ l) :
    ls.flatMap (splitOn c) = ls := by
  induction ls with
  | nil => rfl
  | cons l rest ih =>
    simp only [List.flatMap_cons]
    rw [splitOn_no_sep c l (h l (by simp)), ih (fun l hl => h l (by simp [hl]))]
    rfl

/-- `"\n".join(A + B)` in terms of the joins of the two parts -/
theorem join_append (sep : Text) (A B : List Text) :
    join sep (A ++ B) = join sep A ++ (if A ≠ [] ∧ B ≠ [] then sep else []) ++ join sep B := by
  induction A with
  | nil => simp [join]
  | cons a rest ih =>
    cases rest with
    | nil =>
      cases B with
      | nil => simp [join]
      | cons b bs => simp [join]
    | cons a2 rest2 =>
      simp only [List.cons_append, join] at ih ⊢
      rw [ih]
      simp
/-! ### BLOCK paste -/

/-- one line of the buffer after a BLOCK paste: padded with spaces to the paste column, then
    the data line (`count` times) inserted at that column -/
def insAt (scol : Nat) (count : Int) (ln dl : Text) : Text :=
  (ljust ln scol).take scol ++ rep dl count ++ (ljust ln scol).drop scol

/-- the line list of the buffer extended by one empty line when the block reaches below it -/
theorem blockGo_spec (scol : Nat) (count : Int) : ∀ (ds : List Text) (idx : Nat) (lines : List Text),
    idx ≤ lines.length →
    (blockGo scol count ds idx lines).length = max lines.length (idx + ds.length) ∧
    (∀ j, j < idx → (blockGo scol count ds idx lines)[j]? = lines[j]?) ∧
    (∀ i, i < ds.length → (blockGo scol count ds idx lines)[idx + i]? =
        some (insAt scol count ((lines[idx + i]?).getD []) ((ds[i]?).getD []))) ∧
    (∀ j, idx + ds.length ≤ j → (blockGo scol count ds idx lines)[j]? = lines[j]?) := by
  intro ds
  induction ds with
  | nil =>
    intro idx lines h
    refine ⟨by simp [blockGo]; omega, fun _ _ => rfl, fun i hi => by simp at hi, fun _ _ => rfl⟩
  | cons dl rest ih =>
    intro idx lines h
    simp only [blockGo]
    generalize hl1 : (if idx ≥ lines.length then lines ++ [[]] else lines) = lines1
    have hlen1 : lines1.length = max lines.length (idx + 1) := by
      rw [← hl1]; split
      · simp only [List.length_append, List.length_singleton]; omega
      · omega
    have hget1 : ∀ j, j ≠ idx → lines1[j]? = lines[j]? := by
      intro j hj; rw [← hl1]; split
      · rename_i hge
        have : idx = lines.length := by omega
        rw [List.getElem?_append]
        split
        · rfl
        · rename_i hnlt
          have : j - lines.length ≠ 0 := by omega
          rw [List.getElem?_eq_none (by simp only [List.length_singleton]; omega), List.getElem?_eq_none (by omega)]
      · rfl
    have hgetidx : lines1[idx]? = some ((lines[idx]?).getD []) := by
      rw [← hl1]; split
      · rename_i hge
        have : idx = lines.length := by omega
        subst this
        simp
      · rename_i hlt
        have : idx < lines.length := by omega
        simp [List.getElem?_eq_getElem this]
    generalize hl2 : lines1.modify idx (fun ln => (ljust ln scol).take scol ++ rep dl count ++ (ljust ln scol).drop scol) = lines2
    have hlen2 : lines2.length = lines1.length := by rw [← hl2]; exact List.length_modify _ _ _
    have hget2 : ∀ j, j ≠ idx → lines2[j]? = lines1[j]? := by
      intro j hj; rw [← hl2, List.getElem?_modify]
      cases lines1[j]? with
      | none => rfl
      | some x =>
        have : ¬ (idx = j) := fun e => hj e.symm
        simp [this]
    have hget2idx : lines2[idx]? = some (insAt scol count ((lines[idx]?).getD []) dl) := by
      rw [← hl2, List.getElem?_modify, hgetidx]; simp [insAt]
    obtain ⟨i1, i2, i3, i4⟩ := ih (idx + 1) lines2 (by omega)
    refine ⟨?_, ?_, ?_, ?_⟩
    · rw [i1, hlen2, hlen1]; simp; omega
    · intro j hj
      rw [i2 j (by omega), hget2 j (by omega), hget1 j (by omega)]
    · intro i hi
      cases i with
      | zero =>
        simp only [Nat.add_zero, List.getElem?_cons_zero, Option.getD_some]
        rw [i2 idx (by omega)]; exact hget2idx
      | succ i' =>
        have := i3 i' (by simp at hi; omega)
        have e : idx + (i' + 1) = idx + 1 + i' := by omega
        rw [e, this]
        simp only [List.getElem?_cons_succ]
        rw [hget2 _ (by omega), hget1 _ (by omega)]
    · intro j hj
      simp at hj
      rw [i4 j (by omega), hget2 j (by omega), hget1 j (by omega)]

theorem splitOn_length (t : Text) : (splitOn '\n' t).length = (t.filter isNl).length + 1 := by
  induction t with
  | nil => simp [splitOn]
  | cons x xs ih =>
    rw [splitOn_cons]
    by_cases hx : x = '\n'
    · simp [hx, ih, isNl]
    · rw [if_neg hx]
      have : isNl x = false := by simp [isNl, hx]
      rw [List.filter_cons_of_neg (by simp [this])]
      cases hs : splitOn '\n' xs with
      | nil => exact absurd hs (splitOn_ne_nil _ _)
      | cons l ls => rw [hs] at ih; simpa using ih

theorem row_lt_lines (b : Buf) : row b < (splitOn '\n' b.text).length := by
  rw [splitOn_length]
  unfold row
  have : b.text = b.before ++ b.after := (before_append_after b).symm
  rw [this, List.filter_append, List.length_append]
  simp only [Buf.before, Buf.after]
  omega


/-! ### Vi helpers -/

/-- `Document.cut_selection` for a CHARACTERS selection in Vi mode (upper bound included) -/
theorem cutSelection_chars (t : Text) (cur orig : Nat) :
    cutSelection t cur orig .chars true =
      ({ text := t.take (min cur orig) ++ t.drop (max cur orig + 1), cur := min cur orig },
       { text := (t.take (max cur orig + 1)).drop (min cur orig), ty := .chars }) := by
  simp [cutSelection, selectionRanges, cutLoop, join]

theorem textObjectCut_chars (b : Buf) (orig : Nat) :
    textObjectCut b orig .chars =
      ({ text := b.text.take (min orig b.cur) ++ b.text.drop (max orig b.cur + 1), cur := min orig b.cur },
       { text := (b.text.take (max orig b.cur + 1)).drop (min orig b.cur), ty := .chars }) := by
  simp only [textObjectCut]
  rw [cutSelection_chars]
  have h1 : min (max orig b.cur) (min orig b.cur) = min orig b.cur := by omega
  have h2 : max (max orig b.cur) (min orig b.cur) = max orig b.cur := by omega
  rw [h1, h2]

theorem regGet_regSet_same (regs : List (Char × Clip)) (c : Char) (d : Clip) :
    regGet (regSet regs c d) c = some d := by
  simp [regGet, regSet]

theorem find_filter_other (ps : List (Char × Clip)) (c c' : Char) (h : c' ≠ c) :
    (ps.filter fun p => p.1 ≠ c).find? (fun p => p.1 = c') = ps.find? (fun p => p.1 = c') := by
  induction ps with
  | nil => rfl
  | cons p ps ih =>
    by_cases hp : p.1 = c
    · have hne : ¬ (p.1 = c') := fun e => h (e.symm.trans hp)
      rw [List.filter_cons_of_neg (by simpa using hp), List.find?_cons_of_neg (by simpa using hne)]
      exact ih
    · rw [List.filter_cons_of_pos (by simpa using hp)]
      by_cases hq : p.1 = c'
      · rw [List.find?_cons_of_pos (by simpa using hq), List.find?_cons_of_pos (by simpa using hq)]
      · rw [List.find?_cons_of_neg (by simpa using hq), List.find?_cons_of_neg (by simpa using hq)]
        exact ih

theorem regGet_regSet_other (regs : List (Char × Clip)) (c c' : Char) (d : Clip) (h : c' ≠ c) :
    regGet (regSet regs c d) c' = regGet regs c' := by
  unfold regGet regSet
  rw [List.find?_cons_of_neg (by simpa using fun e : c = c' => h e.symm), find_filter_other _ _ _ h]

theorem fixNav_text (b : Buf) : (fixNav b).text = b.text := by
  unfold fixNav; split <;> rfl

theorem fixNav_cur (b : Buf) : (fixNav b).cur = b.cur ∨ ((fixNav b).cur + 1 = b.cur ∧
    (b.text[b.cur]? = none ∨ b.text[b.cur]? = some '\n')) := by
  unfold fixNav
  split
  · rename_i h
    right
    obtain ⟨h1, h2⟩ := h
    have : lineAfter b = [] := by
      unfold lineAfter Buf.after
      rcases h1 with h1 | h1
      · have : b.text.length ≤ b.cur := by
          rw [List.getElem?_eq_none_iff] at h1; exact h1
        rw [List.drop_of_length_le this]; rfl
      · have : b.text.drop b.cur = '\n' :: b.text.drop (b.cur + 1) := by
          rw [List.getElem?_eq_some_iff] at h1
          obtain ⟨hlt, he⟩ := h1
          rw [← he]; exact List.drop_eq_getElem_cons hlt
        rw [this]; simp [notNl]
    rw [this] at h2
    simp [lineBefore] at h2
    have hc : 0 < b.cur := by
      apply Nat.pos_of_ne_zero
      intro h0
      simp [Buf.before, h0] at h2
    exact ⟨by simp; omega, h1⟩
  · left; rfl

theorem fixNav_wf (b : Buf) (h : WF b) : WF (fixNav b) := by
  unfold WF at *
  rw [fixNav_text]
  rcases fixNav_cur b with h1 | ⟨h1, _⟩ <;> omega

theorem take_sliceToLen (l : Text) (k : Nat) : l.take (sliceToLen l.length (k : Int)) = l.take k := by
  unfold sliceToLen
  have : ¬ ((k : Int) < 0) := by omega
  rw [if_neg this]
  simp only [Int.toNat_natCast]
  by_cases h : k ≤ l.length
  · rw [Nat.min_eq_left h]
  · rw [Nat.min_eq_right (by omega), List.take_of_length_le (Nat.le_refl _), List.take_of_length_le (by omega)]

/-- `Buffer.delete(k)` for a natural `k`: exactly the first `k` characters after the cursor go -/
theorem delete_nat (b : Buf) (h : WF b) (k : Nat) :
    (delete b (k : Int)).2 = b.after.take k ∧ (delete b (k : Int)).1.cur = b.cur ∧
    b.text = reinsert (delete b (k : Int)).1.text b.cur (b.after.take k) ∧ WF (delete b (k : Int)).1 := by
  obtain ⟨h1, h2, h3, _⟩ := delete_spec b h k
  have hd : (delete b (k : Int)).2 = b.after.take k := by
    unfold delete
    split
    · simp only; exact take_sliceToLen _ _
    · rename_i hlt
      unfold WF at h
      have : b.after = [] := by simp [Buf.after]; omega
      simp [this]
  refine ⟨hd, h2, ?_, h3⟩
  rw [← hd, ← h2]; exact h1


theorem delete_nat_text (b : Buf) (h : WF b) (k : Nat) :
    (delete b (k : Int)).1.text = b.before ++ b.after.drop k := by
  unfold delete
  split
  · simp only [take_sliceToLen, drop_add_after]
    congr 1
    rw [List.length_take]
    by_cases hk : k ≤ b.after.length
    · rw [Nat.min_eq_left hk]
    · rw [Nat.min_eq_right (by omega), List.drop_of_length_le (Nat.le_refl _), List.drop_of_length_le (by omega)]
  · unfold WF at h
    have : b.after = [] := by simp [Buf.after]; omega
    rw [this]; simp
    rw [← before_append_after b, this]; simp

/-- `Buffer.delete_before_cursor(k)` for `k ≤ cursor` -/
theorem deleteBefore_le (b : Buf) (h : WF b) (k : Nat) (hk : k ≤ b.cur) :
    (deleteBefore b k).2 = b.before.drop (b.cur - k) ∧ (deleteBefore b k).1.cur = b.cur - k ∧
    b.text = reinsert (deleteBefore b k).1.text (b.cur - k) (b.before.drop (b.cur - k)) := by
  obtain ⟨h1, h2, _, h4⟩ := deleteBefore_spec b h k
  have hm : min k b.cur = k := Nat.min_eq_left hk
  rw [hm] at h4
  have hlen : (deleteBefore b k).2.length = k := by
    rw [h4]; unfold WF at h; simp [Buf.before]; omega
  have hc : (deleteBefore b k).1.cur = b.cur - k := by omega
  refine ⟨h4, hc, ?_⟩
  rw [← h4, ← hc]; exact h1
/-! ### lines: joins, newline counts, rows -/

theorem join_cons_ne (sep : Text) (x : Text) (B : List Text) :
    join sep (x :: B) = x ++ (if B ≠ [] then sep else []) ++ join sep B := by
  cases B with
  | nil => simp [join]
  | cons b bs => simp [join]

/-- joining a list in which one element is itself a join of (non-empty) `M` is joining the flat list -/
theorem join_join_middle (sep : Text) (A M B : List Text) (hM : M ≠ []) :
    join sep (A ++ [join sep M] ++ B) = join sep (A ++ M ++ B) := by
  rw [List.append_assoc, List.append_assoc, join_append, join_append sep A (M ++ B), join_append sep M B]
  simp only [List.singleton_append, join_cons_ne]
  have h1 : (join sep M :: B ≠ []) = True := by simp
  have h2 : (M ++ B ≠ []) = True := by simp [hM]
  simp only [h1, h2, hM, ne_eq, not_false_eq_true, true_and, and_true, List.append_assoc]

theorem count_nl_join (A : List Text) (h : ∀ l ∈ A, '\n' ∉ l) :
    ((join ['\n'] A).filter isNl).length = A.length - 1 := by
  induction A with
  | nil => simp [join]
  | cons a rest ih =>
    have ha : a.filter isNl = [] := by
      rw [List.filter_eq_nil_iff]
      intro c hc hn
      simp [isNl] at hn
      subst hn
      exact h a (by simp) hc
    cases rest with
    | nil => simp [join, ha]
    | cons b bs =>
      simp only [join, List.filter_append, List.length_append, ha]
      have := ih (fun l hl => h l (by simp [hl]))
      simp only [List.length_cons] at this ⊢
      have e : (List.filter isNl ['\n']).length = 1 := by decide
      rw [this, e]; simp; omega

theorem lstripChar_spec' (c : Char) (l : Text) :
    ∃ k, k ≤ l.length ∧ lstripChar c l = l.drop k ∧ ∀ x ∈ l.take k, x = c := by
  induction l with
  | nil => exact ⟨0, by simp [lstripChar]⟩
  | cons x xs ih =>
    unfold lstripChar
    split
    · obtain ⟨k, hk0, hk, ha⟩ := ih
      refine ⟨k + 1, by simp; omega, by simpa using hk, ?_⟩
      intro y hy; simp at hy; rcases hy with rfl | hy
      · assumption
      · exact ha y hy
    · exact ⟨0, by simp⟩

theorem row_fixNav (b : Buf) (h : WF b) : row (fixNav b) = row b := by
  unfold fixNav
  split
  · rename_i hc
    obtain ⟨h1, h2⟩ := hc
    have hla : lineAfter b = [] := by
      unfold lineAfter Buf.after
      rcases h1 with h1 | h1
      · have : b.text.length ≤ b.cur := by
          rw [List.getElem?_eq_none_iff] at h1; exact h1
        rw [List.drop_of_length_le this]; rfl
      · have : b.text.drop b.cur = '\n' :: b.text.drop (b.cur + 1) := by
          rw [List.getElem?_eq_some_iff] at h1
          obtain ⟨hlt, he⟩ := h1
          rw [← he]; exact List.drop_eq_getElem_cons hlt
        rw [this]; simp [notNl]
    rw [hla] at h2
    simp only [List.append_nil, lineBefore, List.length_reverse] at h2
    -- the last character before the cursor is not a newline
    unfold WF at h
    have hlen : b.before.length = b.cur := by simp [Buf.before]; omega
    rcases List.eq_nil_or_concat b.before with hnil | ⟨pre, x, hx⟩
    · rw [hnil] at h2; simp at h2
    · rw [hx] at h2 hlen
      simp [List.takeWhile_cons] at h2
      have hxn : notNl x = true := by
        by_cases hx' : notNl x = true
        · exact hx'
        · simp [hx'] at h2
      simp at hlen
      have hpre : b.text.take (b.cur - 1) = pre := by
        have : b.text.take (b.cur - 1) = (b.before).take (b.cur - 1) := by
          simp only [Buf.before, List.take_take]; congr 1; omega
        rw [this, hx]
        have : b.cur - 1 = pre.length := by omega
        rw [this]; simp
      unfold row
      simp only [Buf.before] at hx ⊢
      rw [hpre, hx, List.concat_eq_append, List.filter_append]
      have : [x].filter isNl = [] := by
        simp [isNl]; simpa [notNl] using hxn
      rw [this]; simp
  · rfl

theorem filter_isNl_spaces (l : Text) (h : ∀ x ∈ l, x = ' ') : l.filter isNl = [] := by
  rw [List.filter_eq_nil_iff]
  intro c hc hn
  have := h c hc
  subst this
  simp [isNl] at hn

/-! ### line parts -/

theorem takeWhile_eq_take_length {α : Type} (p : α → Bool) (l : List α) :
    l.takeWhile p = l.take (l.takeWhile p).length := by
  induction l with
  | nil => simp
  | cons x xs ih =>
    rw [List.takeWhile_cons]
    split
    · simp only [List.length_cons, List.take_succ_cons]; rw [← ih]
    · simp

theorem lineBefore_eq_drop (b : Buf) :
    lineBefore b = b.before.drop (b.before.length - (lineBefore b).length) := by
  unfold lineBefore
  rw [List.length_reverse]
  conv => lhs; rw [takeWhile_eq_take_length]
  generalize (List.takeWhile notNl b.before.reverse).length = k
  rw [List.reverse_take]
  simp

theorem lineBefore_le (b : Buf) : (lineBefore b).length ≤ b.before.length := by
  unfold lineBefore
  rw [List.length_reverse]
  exact Nat.le_trans (length_takeWhile_le' _ _) (by simp)

end Ptk.C09
