/-
  Cross-model agreement, output cluster, pair (4): the ANSI parser of
  /repo/src/prompt_toolkit/formatted_text/ansi.py
      ANSI.__init__ / ANSI._parse_corot / ANSI._select_graphic_rendition /
      ANSI._create_style_string / ANSI.__pt_formatted_text__
  is modelled twice:
      C18  Ptk/Model/C18.lean      (namespace Ptk.C18; canonical for the parser state machine)
      C19  Ptk/Model/C19Ansi.lean  (namespace Ptk.C19; canonical for the SGR semantics)
  This module proves that the two models are the same function, for ALL inputs, modulo the
  explicit total translations `attrsTo`, `modeTo`, `fragTo`, `stTo` below and under the table
  relation `TablesAgree` (both models take the SGR code tables `_fg_colors`, `_bg_colors`,
  `_256_colors` as a parameter); `genTables_agree` discharges `TablesAgree` for the two tables
  regenerated from /repo (which list the same dicts in a different order).

  No disagreement was found: every theorem is an unconditional equality.
-/
import Ptk.Model.C18
import Ptk.Model.C19Ansi
import Ptk.Props.C18Tok
import Ptk.Gen.C18
import Ptk.Gen.C19
namespace Ptk.AgreeOut.Ansi
open Ptk Ptk.Py

/-! ### `f"{n:02x}"`: `C18.hex2` (via `Nat.toDigits 16`) = `C19.hex02` (via `toHexFuel`) -/

/-- the digit alphabets agree below 16: `C19.hexDigitChar` vs core `Nat.digitChar` -/
theorem hexDigitChar_eq_digitChar : ∀ d, d < 16 → C19.hexDigitChar d = Nat.digitChar d := by decide

/-- the common recursion of hexadecimal digits: `digits n = digits (n / 16) ++ [digit (n % 16)]` -/
theorem toDigits16_rec (n : Nat) (h : 16 ≤ n) :
    Nat.toDigits 16 n = Nat.toDigits 16 (n / 16) ++ [Nat.digitChar (n % 16)] := by
  have h1 := @Nat.toDigits_append_toDigits 16 (n / 16) (n % 16) (by omega) (by omega) (Nat.mod_lt _ (by omega))
  rw [Nat.toDigits_of_lt_base (Nat.mod_lt _ (by omega))] at h1
  rw [h1, Nat.div_add_mod]

/-- fuel-generalised: any fuel `f ≥ n` makes `C19.toHexFuel f n` the digits of `n` -/
theorem toHexFuel_eq_toDigits (f : Nat) : ∀ n, n ≤ f → C19.toHexFuel f n = Nat.toDigits 16 n := by
  induction f with
  | zero =>
    intro n hn
    have : n = 0 := by omega
    subst this; decide
  | succ f ih =>
    intro n hn
    unfold C19.toHexFuel
    by_cases h : n < 16
    · rw [if_pos h, Nat.toDigits_of_lt_base h, hexDigitChar_eq_digitChar n h]
    · rw [if_neg h, toDigits16_rec n (by omega), ih (n / 16) (by omega),
        hexDigitChar_eq_digitChar _ (Nat.mod_lt _ (by omega))]

/-- ansi.py `ANSI._select_graphic_rendition`, the format spec `f"{n:02x}"`:
    `Ptk.C18.hex2` = `Ptk.C19.hex02`, for every `n` (no bound). -/
theorem hex2_eq_hex02 (n : Nat) : C18.hex2 n = C19.hex02 n := by
  unfold C18.hex2 C19.hex02
  rw [toHexFuel_eq_toDigits n n (Nat.le_refl n)]

/-! ### translations between the two representations -/

/-- the nine style attributes of an `ANSI` instance (`_color` … `_hidden`):
    `Ptk.C18.Attrs` → `Ptk.C19.Sgr`, field by field -/
def attrsTo (a : C18.Attrs) : C19.Sgr :=
  { color := a.color, bgcolor := a.bgcolor, bold := a.bold, underline := a.underline,
    strike := a.strike, italic := a.italic, blink := a.blink, reverse := a.reverse,
    hidden := a.hidden }

/-- inverse of `attrsTo` -/
def attrsOf (s : C19.Sgr) : C18.Attrs :=
  { color := s.color, bgcolor := s.bgcolor, bold := s.bold, underline := s.underline,
    strike := s.strike, italic := s.italic, blink := s.blink, reverse := s.reverse,
    hidden := s.hidden }

theorem attrsOf_attrsTo (a : C18.Attrs) : attrsOf (attrsTo a) = a := rfl
theorem attrsTo_attrsOf (s : C19.Sgr) : attrsTo (attrsOf s) = s := rfl

/-- `attrsTo` is a bijection (`attrsOf` is its two-sided inverse) -/
theorem attrsTo_injective : Function.Injective attrsTo := fun a b h => by
  have := congrArg attrsOf h; simpa [attrsOf_attrsTo] using this

/-- the two models read the same dicts `_fg_colors`, `_bg_colors`, `_256_colors` of ansi.py:
    `Ptk.C18.lookup tbl k` (find?) and `Ptk.C19.lookup k tbl` (recursive) give the same value
    for every key -/
def TablesAgree (tb : C18.Tables) (T : C19.Tables) : Prop :=
  (∀ k, C18.lookup tb.fg k = C19.lookup k T.decFg) ∧
  (∀ k, C18.lookup tb.bg k = C19.lookup k T.decBg) ∧
  (∀ k, C18.lookup tb.c256 k = C19.lookup k T.dec256)

/-! ### `_select_graphic_rendition` -/

/-- `C18.sgrExt` on `38/48 ; 5 ; m …` -/
theorem sgrExt_256 (tb : C18.Tables) (a : C18.Attrs) (attr m : Nat) (r2 : List Nat) :
    C18.sgrExt tb a attr (5 :: m :: r2) =
      (if attr = 38 then { a with color := C18.lookup tb.c256 m }
       else { a with bgcolor := C18.lookup tb.c256 m }, r2) := by
  by_cases h : attr = 38 <;> simp [C18.sgrExt, C18.sgr256, C18.sgrTrue, h]

/-- `C18.sgrExt` on `38/48 ; 2 ; r ; g ; b …` -/
theorem sgrExt_true (tb : C18.Tables) (a : C18.Attrs) (attr r g b : Nat) (r3 : List Nat) :
    C18.sgrExt tb a attr (2 :: r :: g :: b :: r3) =
      (if attr = 38 then { a with color := some ('#' :: (C18.hex2 r ++ C18.hex2 g ++ C18.hex2 b)) }
       else { a with bgcolor := some ('#' :: (C18.hex2 r ++ C18.hex2 g ++ C18.hex2 b)) }, r3) := by
  by_cases h : attr = 38 <;> simp [C18.sgrExt, C18.sgr256, C18.sgrTrue, h]

/-- `C18.sgrExt` when neither sub-branch is taken: only `n` is popped -/
theorem sgrExt_other (tb : C18.Tables) (a : C18.Attrs) (attr n : Nat) (rest1 : List Nat)
    (h5 : ¬ (n = 5 ∧ rest1.length ≥ 1)) (h2 : ¬ (n = 2 ∧ rest1.length ≥ 3)) :
    C18.sgrExt tb a attr (n :: rest1) = (a, rest1) := by
  simp only [C18.sgrExt, C18.sgr256, if_neg h5, C18.sgrTrue, if_neg h2]

/-- one iteration of `C19.sgrLoop` as a non-recursive function -/
def sgrOne19 (T : C19.Tables) (st : C19.Sgr) (attr : Nat) (rest : List Nat) : C19.Sgr × List Nat :=
    match C19.lookup attr T.decFg with
    | some nm => ({ st with color := some nm }, rest)
    | none =>
    match C19.lookup attr T.decBg with
    | some nm => ({ st with bgcolor := some nm }, rest)
    | none =>
    if attr == 1 then ({ st with bold := true }, rest)
    else if attr == 3 then ({ st with italic := true }, rest)
    else if attr == 4 then ({ st with underline := true }, rest)
    else if attr == 5 then ({ st with blink := true }, rest)
    else if attr == 6 then ({ st with blink := true }, rest)
    else if attr == 7 then ({ st with reverse := true }, rest)
    else if attr == 8 then ({ st with hidden := true }, rest)
    else if attr == 9 then ({ st with strike := true }, rest)
    else if attr == 22 then ({ st with bold := false }, rest)
    else if attr == 23 then ({ st with italic := false }, rest)
    else if attr == 24 then ({ st with underline := false }, rest)
    else if attr == 25 then ({ st with blink := false }, rest)
    else if attr == 27 then ({ st with reverse := false }, rest)
    else if attr == 28 then ({ st with hidden := false }, rest)
    else if attr == 29 then ({ st with strike := false }, rest)
    else if attr == 0 then ({}, rest)
    else if (attr == 38 || attr == 48) && rest.length > 1 then
      match rest with
      | [] => (st, [])
      | n :: rest2 =>
        if n == 5 && rest2.length ≥ 1 then
          match rest2 with
          | [] => (st, [])
          | m :: rest3 =>
            if attr == 38 then ({ st with color := C19.lookup m T.dec256 }, rest3)
            else ({ st with bgcolor := C19.lookup m T.dec256 }, rest3)
        else if n == 2 && rest2.length ≥ 3 then
          match rest2 with
          | r :: g :: b :: rest5 =>
            let cs := '#' :: (C19.hex02 r ++ C19.hex02 g ++ C19.hex02 b)
            if attr == 38 then ({ st with color := some cs }, rest5)
            else ({ st with bgcolor := some cs }, rest5)
          | _ => (st, [])
        else (st, rest2)
    else (st, rest)

/-- `C19.sgrLoop` is the iteration of `sgrOne19` -/
theorem sgrLoop19_cons (T : C19.Tables) (st : C19.Sgr) (attr : Nat) (rest : List Nat) :
    C19.sgrLoop T st (attr :: rest) = C19.sgrLoop T (sgrOne19 T st attr rest).1 (sgrOne19 T st attr rest).2 := by
  conv => lhs; rw [C19.sgrLoop.eq_def]
  simp only []
  unfold sgrOne19
  cases hfg : C19.lookup attr T.decFg with
  | some nm => rfl
  | none =>
  cases hbg : C19.lookup attr T.decBg with
  | some nm => rfl
  | none =>
  simp only []
  by_cases h1 : (attr == 1) = true
  · simp only [if_pos h1]
  simp only [if_neg h1]
  by_cases h3 : (attr == 3) = true
  · simp only [if_pos h3]
  simp only [if_neg h3]
  by_cases h4 : (attr == 4) = true
  · simp only [if_pos h4]
  simp only [if_neg h4]
  by_cases h5 : (attr == 5) = true
  · simp only [if_pos h5]
  simp only [if_neg h5]
  by_cases h6 : (attr == 6) = true
  · simp only [if_pos h6]
  simp only [if_neg h6]
  by_cases h7 : (attr == 7) = true
  · simp only [if_pos h7]
  simp only [if_neg h7]
  by_cases h8 : (attr == 8) = true
  · simp only [if_pos h8]
  simp only [if_neg h8]
  by_cases h9 : (attr == 9) = true
  · simp only [if_pos h9]
  simp only [if_neg h9]
  by_cases h22 : (attr == 22) = true
  · simp only [if_pos h22]
  simp only [if_neg h22]
  by_cases h23 : (attr == 23) = true
  · simp only [if_pos h23]
  simp only [if_neg h23]
  by_cases h24 : (attr == 24) = true
  · simp only [if_pos h24]
  simp only [if_neg h24]
  by_cases h25 : (attr == 25) = true
  · simp only [if_pos h25]
  simp only [if_neg h25]
  by_cases h27 : (attr == 27) = true
  · simp only [if_pos h27]
  simp only [if_neg h27]
  by_cases h28 : (attr == 28) = true
  · simp only [if_pos h28]
  simp only [if_neg h28]
  by_cases h29 : (attr == 29) = true
  · simp only [if_pos h29]
  simp only [if_neg h29]
  by_cases h0 : (attr == 0) = true
  · simp only [if_pos h0]
  simp only [if_neg h0]
  by_cases hx : ((attr == 38 || attr == 48) && decide (rest.length > 1)) = true
  · simp only [if_pos hx]
    cases rest with
    | nil => simp only [C19.sgrLoop]
    | cons n rest2 =>
      simp only []
      by_cases hn5 : (n == 5 && decide (rest2.length ≥ 1)) = true
      · simp only [if_pos hn5]
        cases rest2 with
        | nil => simp only [C19.sgrLoop]
        | cons m rest3 =>
          simp only []
          by_cases h38 : (attr == 38) = true
          · simp only [if_pos h38]
          · simp only [if_neg h38]
      · simp only [if_neg hn5]
        by_cases hn2 : (n == 2 && decide (rest2.length ≥ 3)) = true
        · simp only [if_pos hn2]
          match rest2 with
          | [] => simp only [C19.sgrLoop]
          | [_] => simp only [C19.sgrLoop]
          | [_, _] => simp only [C19.sgrLoop]
          | r :: g :: b :: rest5 =>
            simp only []
            by_cases h38 : (attr == 38) = true
            · simp only [if_pos h38]
            · simp only [if_neg h38]
        · simp only [if_neg hn2]
  · simp only [if_neg hx]


/-- ansi.py `ANSI._select_graphic_rendition`, one iteration of `while attrs:`:
    `Ptk.C18.sgrOne` = one unfolding of `Ptk.C19.sgrLoop` (`sgrOne19`) -/
theorem sgrOne_agree {tb : C18.Tables} {T : C19.Tables} (hT : TablesAgree tb T)
    (a : C18.Attrs) (attr : Nat) (rest : List Nat) :
    sgrOne19 T (attrsTo a) attr rest
      = (attrsTo (C18.sgrOne tb a attr rest).1, (C18.sgrOne tb a attr rest).2) := by
  unfold sgrOne19 C18.sgrOne
  rw [← hT.1 attr, ← hT.2.1 attr]
  cases hfg : C18.lookup tb.fg attr with
  | some nm => rfl
  | none =>
  cases hbg : C18.lookup tb.bg attr with
  | some nm => rfl
  | none =>
  simp only []
  by_cases h1 : attr = 1
  · subst h1; rfl
  by_cases h3 : attr = 3
  · subst h3; rfl
  by_cases h4 : attr = 4
  · subst h4; rfl
  by_cases h5 : attr = 5
  · subst h5; rfl
  by_cases h6 : attr = 6
  · subst h6; rfl
  by_cases h7 : attr = 7
  · subst h7; rfl
  by_cases h8 : attr = 8
  · subst h8; rfl
  by_cases h9 : attr = 9
  · subst h9; rfl
  by_cases h22 : attr = 22
  · subst h22; rfl
  by_cases h23 : attr = 23
  · subst h23; rfl
  by_cases h24 : attr = 24
  · subst h24; rfl
  by_cases h25 : attr = 25
  · subst h25; rfl
  by_cases h27 : attr = 27
  · subst h27; rfl
  by_cases h28 : attr = 28
  · subst h28; rfl
  by_cases h29 : attr = 29
  · subst h29; rfl
  by_cases h0 : attr = 0
  · subst h0; rfl
  have hflag : C18.sgrFlag a attr = none := by
    unfold C18.sgrFlag
    split <;> first | rfl | omega
  have hb : ∀ k, ¬ attr = k → ¬ (attr == k) = true := fun k h => by simpa using h
  simp only [hflag, if_neg (hb _ h1), if_neg (hb _ h3), if_neg (hb _ h4), if_neg (hb _ h5), if_neg (hb _ h6),
    if_neg (hb _ h7), if_neg (hb _ h8), if_neg (hb _ h9), if_neg (hb _ h22), if_neg (hb _ h23), if_neg (hb _ h24),
    if_neg (hb _ h25), if_neg (hb _ h27), if_neg (hb _ h28), if_neg (hb _ h29), if_neg (hb _ h0)]
  by_cases hx : (attr = 38 ∨ attr = 48) ∧ rest.length > 1
  · have hx' : ((attr == 38 || attr == 48) && decide (rest.length > 1)) = true := by simpa using hx
    rw [if_pos hx, if_pos hx']
    match rest, hx with
    | n :: rest1, hx =>
      simp only []
      by_cases hn5 : n = 5 ∧ rest1.length ≥ 1
      · have hn5' : (n == 5 && decide (rest1.length ≥ 1)) = true := by simpa using hn5
        rw [if_pos hn5']
        match rest1, hn5 with
        | m :: r2, ⟨hn, _⟩ =>
          subst hn
          rw [sgrExt_256, hT.2.2 m]
          by_cases h38 : attr = 38
          · subst h38; rfl
          · have h38' : ¬ (attr == 38) = true := by simpa using h38
            simp only [if_neg h38, if_neg h38']; rfl
      · have hn5' : ¬ (n == 5 && decide (rest1.length ≥ 1)) = true := by simpa using hn5
        rw [if_neg hn5']
        by_cases hn2 : n = 2 ∧ rest1.length ≥ 3
        · have hn2' : (n == 2 && decide (rest1.length ≥ 3)) = true := by simpa using hn2
          rw [if_pos hn2']
          match rest1, hn2 with
          | r :: g :: b :: r3, ⟨hn, _⟩ =>
            subst hn
            rw [sgrExt_true, hex2_eq_hex02, hex2_eq_hex02, hex2_eq_hex02]
            by_cases h38 : attr = 38
            · subst h38; rfl
            · have h38' : ¬ (attr == 38) = true := by simpa using h38
              simp only [if_neg h38, if_neg h38']; rfl
        · have hn2' : ¬ (n == 2 && decide (rest1.length ≥ 3)) = true := by simpa using hn2
          rw [if_neg hn2', sgrExt_other tb a attr n rest1 hn5 hn2]
  · have hx' : ¬ ((attr == 38 || attr == 48) && decide (rest.length > 1)) = true := by simpa using hx
    rw [if_neg hx, if_neg hx']

/-- the 38/48 branch never lengthens the parameter list -/
theorem sgrExt_length (tb : C18.Tables) (a : C18.Attrs) (attr : Nat) (rest : List Nat) :
    (C18.sgrExt tb a attr rest).2.length ≤ rest.length := by
  match rest with
  | [] => simp [C18.sgrExt]
  | n :: rest1 =>
    by_cases h5 : n = 5 ∧ rest1.length ≥ 1
    · match rest1, h5 with
      | m :: r2, ⟨h, _⟩ => subst h; rw [sgrExt_256]; simp; omega
    · by_cases h2 : n = 2 ∧ rest1.length ≥ 3
      · match rest1, h2 with
        | r :: g :: b :: r3, ⟨h, _⟩ => subst h; rw [sgrExt_true]; simp; omega
      · rw [sgrExt_other tb a attr n rest1 h5 h2]; simp

/-- an iteration never lengthens the parameter list (so `fuel = length` suffices in C18) -/
theorem sgrOne_length (tb : C18.Tables) (a : C18.Attrs) (attr : Nat) (rest : List Nat) :
    (C18.sgrOne tb a attr rest).2.length ≤ rest.length := by
  unfold C18.sgrOne
  split; · simp
  split; · simp
  split; · simp
  split
  · exact sgrExt_length ..
  · simp

/-- ansi.py `ANSI._select_graphic_rendition`, the whole `while attrs:` loop:
    `Ptk.C18.sgrLoop` (with any fuel ≥ length) = `Ptk.C19.sgrLoop` (structural) -/
theorem sgrLoop_agree {tb : C18.Tables} {T : C19.Tables} (hT : TablesAgree tb T) :
    ∀ (fuel : Nat) (a : C18.Attrs) (l : List Nat), l.length ≤ fuel →
      attrsTo (C18.sgrLoop tb fuel a l) = C19.sgrLoop T (attrsTo a) l := by
  intro fuel
  induction fuel with
  | zero =>
    intro a l hl
    have : l = [] := List.eq_nil_of_length_eq_zero (by omega)
    subst this; simp [C18.sgrLoop, C19.sgrLoop]
  | succ fuel ih =>
    intro a l hl
    match l with
    | [] => simp [C18.sgrLoop, C19.sgrLoop]
    | attr :: rest =>
      rw [sgrLoop19_cons, sgrOne_agree hT]
      simp only [C18.sgrLoop]
      exact ih _ _ (by have := sgrOne_length tb a attr rest; simp at hl; omega)

/-- ansi.py `ANSI._select_graphic_rendition`: `Ptk.C18.sgr` = `Ptk.C19.selectGraphicRendition`,
    for all attribute states and all parameter lists -/
theorem sgr_agree {tb : C18.Tables} {T : C19.Tables} (hT : TablesAgree tb T)
    (a : C18.Attrs) (params : List Nat) :
    attrsTo (C18.sgr tb a params) = C19.selectGraphicRendition T (attrsTo a) params := by
  unfold C18.sgr C19.selectGraphicRendition
  cases params with
  | nil => exact sgrLoop_agree hT _ _ _ (Nat.le_refl _)
  | cons x xs => exact sgrLoop_agree hT _ _ _ (Nat.le_refl _)

/-! ### `_create_style_string` -/

/-- Python truthiness of `self._color`: `Ptk.C18.truthy` = `Ptk.C19.nonEmpty` -/
theorem truthy_eq_nonEmpty (o : Option Text) : C18.truthy o = C19.nonEmpty o := by
  match o with
  | none => rfl
  | some [] => rfl
  | some (_ :: _) => rfl

/-- ansi.py `ANSI._create_style_string`: `Ptk.C18.styleString` = `Ptk.C19.styleString` -/
theorem styleString_agree (a : C18.Attrs) : C18.styleString a = C19.styleString (attrsTo a) := by
  unfold C18.styleString C19.styleString
  simp only [truthy_eq_nonEmpty]
  rfl

/-! ### `_parse_corot` -/

/-- the suspension point of the coroutine: `Ptk.C18.Mode` → `Ptk.C19.Mode` (`zwAfter` ↦ `zwEnd`) -/
def modeTo : C18.Mode → C19.Mode
  | .ground => .ground
  | .zw e => .zw e
  | .zwAfter => .zwEnd
  | .esc => .esc
  | .csi cur ps => .csi cur ps

/-- inverse of `modeTo` -/
def modeOf : C19.Mode → C18.Mode
  | .ground => .ground
  | .zw e => .zw e
  | .zwEnd => .zwAfter
  | .esc => .esc
  | .csi cur ps => .csi cur ps

theorem modeOf_modeTo (m : C18.Mode) : modeOf (modeTo m) = m := by cases m <;> rfl
theorem modeTo_modeOf (m : C19.Mode) : modeTo (modeOf m) = m := by cases m <;> rfl

/-- a fragment: `Ptk.C18.Frag` → `(style, text)` (the handler is `none` on parser output, see
    `ansi_agree_inv`) -/
def fragTo (f : C18.Frag) : Text × Text := (f.style, f.text)

/-- right inverse of `fragTo` (no handler) -/
def fragOf (p : Text × Text) : C18.Frag := { style := p.1, text := p.2 }

theorem fragTo_fragOf (p : Text × Text) : fragTo (fragOf p) = p := rfl

/-- parser state: `Ptk.C18.St` (mode, attrs, local `style`) plus the output accumulated so far
    (`self._formatted_text`) → `Ptk.C19.PSt` -/
def stTo (s : C18.St) (out : List (Text × Text)) : C19.PSt :=
  { mode := modeTo s.mode, sgr := attrsTo s.attrs, style := s.style, out := out }

/-- `"0" <= char <= "9"`: `Ptk.C18.isAsciiDigit` (Char order) = `Ptk.C19.isAsciiDigit` (code points) -/
theorem isAsciiDigit_agree (c : Char) : C18.isAsciiDigit c = C19.isAsciiDigit c := by
  unfold C18.isAsciiDigit C19.isAsciiDigit
  simp only [Char.le_def]
  rfl

/-- `int(current or 0)` on the collected characters: `Ptk.C18.digitsToNat` = `Ptk.C19.parseDec` -/
theorem digitsToNat_eq_parseDec (t : Text) : C18.digitsToNat t = C19.parseDec t := by
  unfold C18.digitsToNat C19.parseDec
  have : (fun (n : Nat) (c : Char) => 10 * n + (c.toNat - '0'.toNat))
       = (fun (acc : Nat) (c : Char) => acc * 10 + (c.toNat - 48)) := by
    funext n c
    have : '0'.toNat = 48 := by decide
    rw [this, Nat.mul_comm]
  rw [this]

/-- ansi.py `ANSI._parse_corot`, from "Check for CSI" on: `Ptk.C18.dispatch` = `Ptk.C19.checkCsi` -/
theorem dispatch_agree (s : C18.St) (out : List (Text × Text)) (c : Char) :
    C19.checkCsi (stTo s out) c
      = stTo (C18.dispatch s c).1 (out ++ (C18.dispatch s c).2.map fragTo) := by
  unfold C19.checkCsi C18.dispatch
  by_cases h1 : c = C18.ESC
  · subst h1; simp [stTo, modeTo, C18.ESC]
  · by_cases h2 : c = C18.CSI8
    · subst h2; simp [stTo, modeTo, C18.CSI8, C18.ESC]
    · have h1' : ¬ (c == Char.ofNat 27) = true := by simpa [C18.ESC] using h1
      have h2' : ¬ (c == Char.ofNat 155) = true := by simpa [C18.CSI8] using h2
      rw [if_neg h1, if_neg h2, if_neg h1', if_neg h2']
      simp [stTo, modeTo, fragTo]

/-- ansi.py `ANSI._parse_corot`, one `parser.send(c)`: `Ptk.C18.step` = `Ptk.C19.pstep`
    (C18 returns the fragments appended by this character, C19 appends them to `out`) -/
theorem step_agree {tb : C18.Tables} {T : C19.Tables} (hT : TablesAgree tb T)
    (s : C18.St) (out : List (Text × Text)) (c : Char) :
    C19.pstep T (stTo s out) c
      = stTo (C18.step tb s c).1 (out ++ (C18.step tb s c).2.map fragTo) := by
  obtain ⟨mode, attrs, style⟩ := s
  cases mode with
  | ground =>
    by_cases h : c = C18.SOH
    · subst h; simp [C19.pstep, C18.step, stTo, modeTo, C18.SOH]
    · have h' : ¬ (c == Char.ofNat 1) = true := by simpa [C18.SOH] using h
      have := dispatch_agree ⟨.ground, attrs, style⟩ out c
      simp only [C19.pstep, C18.step, stTo, modeTo, if_neg h, if_neg h'] at this ⊢
      exact this
  | zw e =>
    simp only [C19.pstep, C18.step, stTo, modeTo]
    by_cases h : c = C18.STX
    · have h' : (c == Char.ofNat 2) = true := by simpa [C18.STX] using h
      rw [if_pos h, if_pos h']; rfl
    · have h' : ¬ (c == Char.ofNat 2) = true := by simpa [C18.STX] using h
      rw [if_neg h, if_neg h']; simp
  | zwAfter =>
    have := dispatch_agree ⟨.zwAfter, attrs, style⟩ out c
    simp only [C19.pstep, C18.step, stTo, modeTo] at this ⊢
    exact this
  | esc =>
    by_cases h : c = '['
    · subst h; simp [C19.pstep, C18.step, stTo, modeTo]
    · simp [C19.pstep, C18.step, stTo, modeTo, h]
  | csi cur ps =>
    simp only [C19.pstep, C18.step, stTo, modeTo, ← isAsciiDigit_agree, ← digitsToNat_eq_parseDec]
    by_cases hd : C18.isAsciiDigit c = true
    · simp [hd]
    · simp only [if_neg hd]
      by_cases h1 : c = ';'
      · subst h1; simp
      · by_cases h2 : c = 'm'
        · subst h2
          simp [← sgr_agree hT, ← styleString_agree]
        · by_cases h3 : c = 'C'
          · subst h3
            simp [fragTo]
          · simp [h1, h2, h3]

/-- ansi.py `ANSI.__init__`, the loop `for c in value: parser.send(c)`: `Ptk.C18.run` (recursion,
    outputs concatenated) = `List.foldl Ptk.C19.pstep` (accumulator), from every state -/
theorem run_agree {tb : C18.Tables} {T : C19.Tables} (hT : TablesAgree tb T) :
    ∀ (value : Text) (s : C18.St) (out : List (Text × Text)),
      value.foldl (C19.pstep T) (stTo s out)
        = stTo (C18.run tb s value).1 (out ++ (C18.run tb s value).2.map fragTo) := by
  intro value
  induction value with
  | nil => intro s out; simp [C18.run]
  | cons c cs ih =>
    intro s out
    rw [List.foldl_cons, step_agree hT, ih]
    simp [C18.run, List.append_assoc]

/-- ansi.py `ANSI(value).__pt_formatted_text__()`: `Ptk.C18.ansi` = `Ptk.C19.ansiFragments`, for all `value` -/
theorem ansi_agree {tb : C18.Tables} {T : C19.Tables} (hT : TablesAgree tb T) (value : Text) :
    (C18.ansi tb value).map fragTo = C19.ansiFragments T value := by
  unfold C18.ansi C19.ansiFragments
  have h0 : ({} : C19.PSt) = stTo {} [] := rfl
  rw [h0, run_agree hT]
  simp [stTo]


/-- the same agreement read from C19 to C18: nothing is lost by `fragTo`, because no fragment of
    `Ptk.C18.ansi` carries a handler (`C18.ansi_shape`) -/
theorem ansi_agree_inv {tb : C18.Tables} {T : C19.Tables} (hT : TablesAgree tb T) (value : Text) :
    C18.ansi tb value = (C19.ansiFragments T value).map fragOf := by
  rw [← ansi_agree hT, List.map_map]
  have : ∀ f ∈ C18.ansi tb value, (fragOf ∘ fragTo) f = f := by
    intro f hf
    have h := (C18.ansi_shape tb value f hf).1
    obtain ⟨st, tx, hd⟩ := f
    simp only at h; subst h; rfl
  rw [List.map_congr_left this, List.map_id']

/-! ### the regenerated tables -/

def keysBelow (tbl : List (Nat × Text)) (N : Nat) : Bool := tbl.all fun p => p.1 < N

def lookupsAgreeBelow (l1 l2 : List (Nat × Text)) (N : Nat) : Bool :=
  (List.range N).all fun k => C18.lookup l1 k == C19.lookup k l2

/-- no key ≥ N: `Ptk.C18.lookup` misses -/
theorem lookup18_none_of_keysBelow (tbl : List (Nat × Text)) (N k : Nat)
    (h : keysBelow tbl N = true) (hk : N ≤ k) : C18.lookup tbl k = none := by
  unfold C18.lookup
  rw [Option.map_eq_none_iff, List.find?_eq_none]
  intro p hp
  have := List.all_eq_true.mp h p hp
  simp at this ⊢; omega

/-- no key ≥ N: `Ptk.C19.lookup` misses -/
theorem lookup19_none_of_keysBelow (tbl : List (Nat × Text)) (N k : Nat)
    (h : keysBelow tbl N = true) (hk : N ≤ k) : C19.lookup k tbl = none := by
  induction tbl with
  | nil => rfl
  | cons p rest ih =>
    obtain ⟨k', v⟩ := p
    simp only [keysBelow, List.all_cons, Bool.and_eq_true, decide_eq_true_eq] at h
    have hne : ¬ (k' == k) = true := by simp; omega
    rw [C19.lookup, if_neg hne]
    exact ih (by simpa [keysBelow] using h.2)

/-- bridge: the three Bool checks give agreement of the lookups for EVERY key -/
theorem lookups_agree_of_checks (l1 l2 : List (Nat × Text)) (N : Nat)
    (h1 : keysBelow l1 N = true) (h2 : keysBelow l2 N = true)
    (h : lookupsAgreeBelow l1 l2 N = true) (k : Nat) : C18.lookup l1 k = C19.lookup k l2 := by
  by_cases hk : k < N
  · have := List.all_eq_true.mp h k (List.mem_range.mpr hk)
    simpa using this
  · rw [lookup18_none_of_keysBelow l1 N k h1 (by omega), lookup19_none_of_keysBelow l2 N k h2 (by omega)]

/-- `_fg_colors`, `_bg_colors`, `_256_colors` as regenerated from /repo for C18
    (`Ptk.C18.genTables` = `Gen.C18.fgColors/bgColors/colors256`) and for C19 (`Gen.C19.tables`:
    `decFg/decBg/dec256`, same dicts listed in a different order) agree on every key -/
theorem genTables_agree : TablesAgree C18.genTables Gen.C19.tables :=
  ⟨lookups_agree_of_checks _ _ 256 (by decide +kernel) (by decide +kernel) (by decide +kernel),
   lookups_agree_of_checks _ _ 256 (by decide +kernel) (by decide +kernel) (by decide +kernel),
   lookups_agree_of_checks _ _ 256 (by decide +kernel) (by decide +kernel) (by decide +kernel)⟩


/-- ansi.py `ANSI._select_graphic_rendition` on the tables of the current tree -/
theorem sgr_agree_gen (a : C18.Attrs) (params : List Nat) :
    attrsTo (C18.sgr C18.genTables a params)
      = C19.selectGraphicRendition Gen.C19.tables (attrsTo a) params :=
  sgr_agree genTables_agree a params

/-- ansi.py `ANSI(value).__pt_formatted_text__()` on the tables of the current tree -/
theorem ansi_agree_gen (value : Text) :
    (C18.ansi C18.genTables value).map fragTo = C19.ansiFragments Gen.C19.tables value :=
  ansi_agree genTables_agree value

/-- non-trivial instance: `ANSI("\x1b[1;38;5;9mA\x1b[2C\x01z\x02")` in both models -/
example :
    C19.ansiFragments Gen.C19.tables
        (Char.ofNat 27 :: "[1;38;5;9mA".toList ++ Char.ofNat 27 :: "[2C".toList ++ [Char.ofNat 1, 'z', Char.ofNat 2])
      = [("#ff0000 bold".toList, ['A']), ("#ff0000 bold".toList, [' ']), ("#ff0000 bold".toList, [' ']),
         ("[ZeroWidthEscape]".toList, ['z'])] := by decide +kernel

end Ptk.AgreeOut.Ansi
