/-
  Cross-model agreement, cluster "Buffer edit and state API" (src/prompt_toolkit/buffer.py):
  the working lines — `working_index` setter, `go_to_history`, `history_backward`, `history_forward`,
  `_set_history_search`, `_history_matches`.

  This module: the common projection `HQ = (working lines, working index, cursor, history_search_text,
  enable_history_search)` of `C05.Buf` and `C14.St` (and of `C01.HBuf`, which has no history search:
  `search = none`, `ehs = false`), the operations on `HQ`, and the proof that each model's operation
  commutes with its projection.  The pairwise statements are in `AgreeBufHist`.
-/
import Ptk.Props.AgreeBufBase
namespace Ptk.AgreeBuf
open Ptk.Py

structure HQ where
  work : List Text
  idx : Nat
  cur : Nat
  search : Option Text
  ehs : Bool
deriving DecidableEq, Repr

def HQ.text (q : HQ) : Text := q.work[q.idx]?.getD []
def HQ.w (q : HQ) : C01.WBuf := ⟨q.work, q.idx, q.cur⟩

/-- `C05.Buf` → `HQ` -/
def q05 (b : C05.Buf) : HQ := ⟨b.lines, b.idx, b.cur, b.hsearch, b.enableHS⟩
/-- `C14.St` → `HQ` -/
def q14 (s : C14.St) : HQ := ⟨s.work, s.idx, s.cur, s.search, s.ehs⟩
/-- `C01.HBuf` → `HQ` (no history search in C01) -/
def q01 (h : C01.HBuf) : HQ := ⟨h.work, h.idx, h.cur, none, false⟩

theorem q05_w (b : C05.Buf) : (q05 b).w = w05 b := rfl
theorem q14_w (s : C14.St) : (q14 s).w = w14 s := rfl
theorem q01_w (h : C01.HBuf) : (q01 h).w = w01 h := rfl

/-- `cursor_position = v` -/
def HQ.setCur (q : HQ) (v : Int) : HQ := { q with cur := min v.toNat q.text.length }
/-- `working_index = i` -/
def HQ.setIdx (q : HQ) (i : Nat) : HQ := if q.idx = i then q else { q with idx := i, cur := 0 }
/-- `_set_history_search` -/
def HQ.setSearch (q : HQ) : HQ :=
  if q.ehs then (if q.search.isNone then { q with search := some (q.text.take q.cur) } else q)
  else { q with search := none }
/-- `_history_matches(i)` -/
def HQ.matches (q : HQ) (i : Nat) : Bool :=
  match q.search with
  | none => true
  | some p => p.isPrefixOf (q.work[i]?.getD [])

/-- the loop of `history_backward`: `n` indices left, the next one is `n - 1` -/
def HQ.bwd (q : HQ) : Nat → Int → Bool → HQ × Bool
  | 0, _, found => (q, found)
  | n + 1, count, found =>
    let hit := q.matches n
    let q' := if hit then q.setIdx n else q
    let count' := if hit then count - 1 else count
    let found' := if hit then true else found
    if count' = 0 then (q', found') else HQ.bwd q' n count' found'

/-- the loop of `history_forward`: `fuel` indices left, starting at `i` -/
def HQ.fwd (q : HQ) : Nat → Nat → Int → Bool → HQ × Bool
  | 0, _, _, found => (q, found)
  | fuel + 1, i, count, found =>
    let hit := q.matches i
    let q' := if hit then q.setIdx i else q
    let count' := if hit then count - 1 else count
    let found' := if hit then true else found
    if count' = 0 then (q', found') else HQ.fwd q' fuel (i + 1) count' found'

/-- `history_backward(count)` -/
def HQ.back (q : HQ) (count : Int) : HQ :=
  let q0 := q.setSearch
  let r := q0.bwd q0.idx count false
  if r.2 then r.1.setCur r.1.text.length else r.1

/-- `history_forward(count)` -/
def HQ.forward (q : HQ) (count : Int) : HQ :=
  let q0 := q.setSearch
  let r := q0.fwd (q0.work.length - (q0.idx + 1)) (q0.idx + 1) count false
  if r.2 then
    let q2 := r.1.setCur 0
    q2.setCur ((q2.cur : Int) + ((q2.text.drop q2.cur).takeWhile C01.notNl).length)
  else r.1

/-- `go_to_history(i)` -/
def HQ.goTo (q : HQ) (i : Nat) : HQ :=
  if i < q.work.length then
    let q1 := q.setIdx i
    q1.setCur q1.text.length
  else q

/-! ### structural facts -/

@[simp] theorem HQ.setIdx_work (q : HQ) (i : Nat) : (q.setIdx i).work = q.work := by
  unfold HQ.setIdx; split <;> rfl
@[simp] theorem HQ.setIdx_search (q : HQ) (i : Nat) : (q.setIdx i).search = q.search := by
  unfold HQ.setIdx; split <;> rfl
@[simp] theorem HQ.setIdx_ehs (q : HQ) (i : Nat) : (q.setIdx i).ehs = q.ehs := by
  unfold HQ.setIdx; split <;> rfl
@[simp] theorem HQ.setIdx_idx (q : HQ) (i : Nat) : (q.setIdx i).idx = i := by
  unfold HQ.setIdx; split
  · next h => exact h
  · rfl

/-! ### C14 commutes with `q14` -/

theorem q14_text (s : C14.St) : (q14 s).text = s.text := by
  simp [HQ.text, q14, C14.St.text, List.getD_eq_getElem?_getD]

theorem q14_setCur (s : C14.St) (v : Int) : q14 (C14.setCursorPos s v) = (q14 s).setCur v := by
  simp only [HQ.setCur, q14_text]
  simp only [q14, c14_sc_work, c14_sc_idx, c14_sc_cur, c14_sc_search, c14_sc_ehs]

theorem q14_textChanged (s : C14.St) : q14 (C14.textChanged s) = q14 s := rfl

theorem q14_setIdx (s : C14.St) (i : Nat) : q14 (C14.setWorkingIndex s i) = (q14 s).setIdx i := by
  unfold C14.setWorkingIndex HQ.setIdx
  by_cases h : s.idx = i
  · simp [h, q14]
  · have h' : ¬ (q14 s).idx = i := h
    simp only [h, h', if_false, q14_textChanged, q14_setCur]
    simp [HQ.setCur, q14]

theorem q14_setSearch (s : C14.St) : q14 (C14.setHistorySearch s) = (q14 s).setSearch := by
  unfold C14.setHistorySearch HQ.setSearch
  have ht := q14_text s
  by_cases h1 : s.ehs = true
  · by_cases h2 : s.search.isNone = true
    · simp only [h1, h2, if_true, q14] at ht ⊢
      simp [ht]
    · simp [h1, h2, q14]
  · simp [h1, q14]

theorem q14_matches (s : C14.St) (i : Nat) : C14.historyMatches s i = (q14 s).matches i := by
  unfold C14.historyMatches HQ.matches
  simp only [q14]; cases s.search <;> simp [List.getD_eq_getElem?_getD]

theorem q14_bwd (s : C14.St) (n : Nat) (count : Int) (found : Bool) :
    q14 (C14.bwdGo s n count found).1 = ((q14 s).bwd n count found).1 ∧
    (C14.bwdGo s n count found).2 = ((q14 s).bwd n count found).2 := by
  induction n generalizing s count found with
  | zero => exact ⟨rfl, rfl⟩
  | succ n ih =>
    simp only [C14.bwdGo, HQ.bwd, q14_matches]
    by_cases hm : (q14 s).matches n = true
    · simp only [hm, if_true]
      by_cases hc : count - 1 = 0
      · simp [hc, q14_setIdx]
      · simp only [hc, if_false]
        have := ih (C14.setWorkingIndex s n) (count - 1) true
        rwa [q14_setIdx] at this
    · simp only [hm, if_false, Bool.false_eq_true]
      by_cases hc : count = 0
      · simp [hc]
      · simp only [hc, if_false]
        exact ih s count found

theorem q14_fwd (s : C14.St) (fuel i : Nat) (count : Int) (found : Bool) :
    q14 (C14.fwdGo s fuel i count found).1 = ((q14 s).fwd fuel i count found).1 ∧
    (C14.fwdGo s fuel i count found).2 = ((q14 s).fwd fuel i count found).2 := by
  induction fuel generalizing s i count found with
  | zero => exact ⟨rfl, rfl⟩
  | succ n ih =>
    simp only [C14.fwdGo, HQ.fwd, q14_matches]
    by_cases hm : (q14 s).matches i = true
    · simp only [hm, if_true]
      by_cases hc : count - 1 = 0
      · simp [hc, q14_setIdx]
      · simp only [hc, if_false]
        have := ih (C14.setWorkingIndex s i) (i + 1) (count - 1) true
        rwa [q14_setIdx] at this
    · simp only [hm, if_false, Bool.false_eq_true]
      by_cases hc : count = 0
      · simp [hc]
      · simp only [hc, if_false]
        exact ih s (i + 1) count found

theorem q14_back (s : C14.St) (count : Int) : q14 (C14.historyBackward s count) = (q14 s).back count := by
  simp only [C14.historyBackward, HQ.back]
  have h0 := q14_setSearch s
  have hb := q14_bwd (C14.setHistorySearch s) (C14.setHistorySearch s).idx count false
  have hidx : (C14.setHistorySearch s).idx = ((q14 s).setSearch).idx := by rw [← h0]; rfl
  rw [h0, hidx] at hb
  rw [hidx]
  generalize C14.bwdGo (C14.setHistorySearch s) ((q14 s).setSearch).idx count false = r at hb
  obtain ⟨s1, f⟩ := r
  simp only at hb ⊢
  rw [← hb.2, ← hb.1]
  cases f
  · rfl
  · simp only [if_true, q14_setCur, q14_text]

theorem q14_forward (s : C14.St) (count : Int) : q14 (C14.historyForward s count) = (q14 s).forward count := by
  simp only [C14.historyForward, HQ.forward]
  have h0 := q14_setSearch s
  have hidx : (C14.setHistorySearch s).idx = ((q14 s).setSearch).idx := by rw [← h0]; rfl
  have hwork : (C14.setHistorySearch s).work = ((q14 s).setSearch).work := by rw [← h0]; rfl
  have hb := q14_fwd (C14.setHistorySearch s) ((C14.setHistorySearch s).work.length - ((C14.setHistorySearch s).idx + 1))
    ((C14.setHistorySearch s).idx + 1) count false
  rw [h0, hidx, hwork] at hb
  rw [hidx, hwork]
  generalize C14.fwdGo (C14.setHistorySearch s) _ _ count false = r at hb
  obtain ⟨s1, f⟩ := r
  simp only at hb ⊢
  rw [← hb.2, ← hb.1]
  cases f
  · rfl
  · have notNl_14' : C14.notNl = C01.notNl := rfl
    simp only [if_true, q14_setCur, C14.lineAfter, notNl_14']
    rw [← q14_text, q14_setCur]
    have : (C14.setCursorPos s1 0).cur = ((q14 s1).setCur 0).cur := by rw [← q14_setCur]; rfl
    rw [this]

theorem q14_goTo (s : C14.St) (i : Nat) : q14 (C14.goToHistory s i) = (q14 s).goTo i := by
  simp only [C14.goToHistory, HQ.goTo]
  have : (q14 s).work.length = s.work.length := rfl
  rw [this]
  split
  · simp only [q14_setCur, q14_setIdx]
    rw [← q14_text, q14_setIdx]
  · rfl

/-! ### C05 commutes with `q05` (inside `working_index < len(_working_lines)`) -/

theorem q05_text (b : C05.Buf) : (q05 b).text = b.text := rfl

theorem q05_setCur (b : C05.Buf) (v : Int) : q05 (C05.setCursor b v) = (q05 b).setCur v := by
  simp only [HQ.setCur, q05_text]
  simp only [q05, c05_sc_lines, c05_sc_idx, c05_sc_cur, c05_sc_hs, c05_sc_ehs]

theorem q05_textChanged (b : C05.Buf) : q05 (C05.textChanged b) = q05 b := rfl

theorem q05_setIdx (b : C05.Buf) (i : Nat) (hi : i < b.lines.length) :
    q05 (C05.setWorkingIndex b i).1 = (q05 b).setIdx i ∧ (C05.setWorkingIndex b i).2 = .ok := by
  unfold C05.setWorkingIndex HQ.setIdx
  by_cases h : b.idx = i
  · simp [h, q05]
  · have h' : ¬ (q05 b).idx = i := h
    have h'' : (b.idx != i) = true := by simpa using h
    simp only [h'', h', hi, if_true, if_false, q05_textChanged, q05_setCur]
    simp [HQ.setCur, q05]

theorem isPrefixOfPy_eq (a b : Text) : isPrefixOf' a b = a.isPrefixOf b := by
  induction a generalizing b with
  | nil => cases b <;> simp [isPrefixOf']
  | cons x xs ih =>
    cases b with
    | nil => simp [isPrefixOf']
    | cons y ys => simp [isPrefixOf', List.isPrefixOf, ih]

theorem q05_setSearch (b : C05.Buf) : q05 (C05.setHistorySearch b) = (q05 b).setSearch := by
  unfold C05.setHistorySearch HQ.setSearch
  by_cases h1 : b.enableHS = true
  · by_cases h2 : b.hsearch.isNone = true
    · simp [h1, h2, q05, HQ.text, C05.Buf.before, C05.Buf.text]
    · simp [h1, h2, q05]
  · simp [h1, q05]

theorem q05_matches (b : C05.Buf) (i : Nat) : C05.historyMatches b i = (q05 b).matches i := by
  unfold C05.historyMatches HQ.matches
  simp only [q05]; cases b.hsearch <;> simp [isPrefixOfPy_eq]

theorem q05_bwd (b : C05.Buf) (n : Nat) (count : Int) (found : Bool) (hn : n ≤ b.lines.length) :
    q05 (C05.histLoop (List.range n).reverse count found b).1 = ((q05 b).bwd n count found).1 ∧
    (C05.histLoop (List.range n).reverse count found b).2.1 = ((q05 b).bwd n count found).2 ∧
    (C05.histLoop (List.range n).reverse count found b).2.2 = .ok := by
  induction n generalizing b count found with
  | zero => exact ⟨rfl, rfl, rfl⟩
  | succ n ih =>
    simp only [List.range_succ, List.reverse_append, List.reverse_cons, List.reverse_nil, List.nil_append,
      List.cons_append, C05.histLoop, HQ.bwd, q05_matches]
    by_cases hm : (q05 b).matches n = true
    · simp only [hm, if_true]
      obtain ⟨e1, e2⟩ := q05_setIdx b n (by omega)
      generalize C05.setWorkingIndex b n = r at e1 e2
      obtain ⟨b1, o⟩ := r
      simp only at e1 e2
      subst e2
      simp only
      by_cases hc : count - 1 = 0
      · simp [hc, e1]
      · have hc' : (count - 1 == 0) = false := by simpa using hc
        simp only [hc, hc', if_false, Bool.false_eq_true]
        have hl : n ≤ b1.lines.length := by
          have : b1.lines = b.lines := by
            have := congrArg HQ.work e1; simpa [q05] using this
          rw [this]; omega
        have := ih b1 (count - 1) true hl
        rwa [e1] at this
    · simp only [hm, if_false, Bool.false_eq_true]
      by_cases hc : count = 0
      · simp [hc]
      · have hc' : (count == 0) = false := by simpa using hc
        simp only [hc, hc', if_false, Bool.false_eq_true]
        exact ih b count found (by omega)

theorem range_map_succ (f k : Nat) :
    (List.range (f + 1)).map (· + k) = k :: (List.range f).map (· + (k + 1)) := by
  rw [List.range_succ_eq_map]
  simp [List.map_map, Function.comp_def, Nat.add_comm, Nat.add_left_comm]

theorem q05_fwd (b : C05.Buf) (fuel k : Nat) (count : Int) (found : Bool) (hn : k + fuel ≤ b.lines.length) :
    q05 (C05.histLoop ((List.range fuel).map (· + k)) count found b).1 = ((q05 b).fwd fuel k count found).1 ∧
    (C05.histLoop ((List.range fuel).map (· + k)) count found b).2.1 = ((q05 b).fwd fuel k count found).2 ∧
    (C05.histLoop ((List.range fuel).map (· + k)) count found b).2.2 = .ok := by
  induction fuel generalizing b k count found with
  | zero => exact ⟨rfl, rfl, rfl⟩
  | succ n ih =>
    rw [range_map_succ]
    simp only [C05.histLoop, HQ.fwd, q05_matches]
    by_cases hm : (q05 b).matches k = true
    · simp only [hm, if_true]
      obtain ⟨e1, e2⟩ := q05_setIdx b k (by omega)
      generalize C05.setWorkingIndex b k = r at e1 e2
      obtain ⟨b1, o⟩ := r
      simp only at e1 e2
      subst e2
      simp only
      by_cases hc : count - 1 = 0
      · simp [hc, e1]
      · have hc' : (count - 1 == 0) = false := by simpa using hc
        simp only [hc, hc', if_false, Bool.false_eq_true]
        have hl : (k + 1) + n ≤ b1.lines.length := by
          have : b1.lines = b.lines := by
            have := congrArg HQ.work e1; simpa [q05] using this
          rw [this]; omega
        have := ih b1 (k + 1) (count - 1) true hl
        rwa [e1] at this
    · simp only [hm, if_false, Bool.false_eq_true]
      by_cases hc : count = 0
      · simp [hc]
      · have hc' : (count == 0) = false := by simpa using hc
        simp only [hc, hc', if_false, Bool.false_eq_true]
        exact ih b (k + 1) count found (by omega)

theorem q05_back (b : C05.Buf) (count : Int) (hi : b.idx < b.lines.length) :
    q05 (C05.historyBackward b count).1 = (q05 b).back count ∧ (C05.historyBackward b count).2 = .ok := by
  simp only [C05.historyBackward, HQ.back]
  have h0 := q05_setSearch b
  have hidx : (C05.setHistorySearch b).idx = ((q05 b).setSearch).idx := by rw [← h0]; rfl
  have hlines : (C05.setHistorySearch b).lines = b.lines := by
    have := congrArg HQ.work h0
    simp only [q05] at this
    rw [this]; unfold HQ.setSearch; split
    · split <;> rfl
    · rfl
  have hidx' : (C05.setHistorySearch b).idx = b.idx := by
    rw [hidx]; unfold HQ.setSearch; split
    · split <;> rfl
    · rfl
  have hb := q05_bwd (C05.setHistorySearch b) (C05.setHistorySearch b).idx count false (by rw [hlines, hidx']; omega)
  rw [h0, hidx] at hb
  rw [hidx]
  generalize C05.histLoop (List.range ((q05 b).setSearch).idx).reverse count false (C05.setHistorySearch b) = r at hb
  obtain ⟨b1, f, o⟩ := r
  simp only at hb ⊢
  obtain ⟨e1, e2, e3⟩ := hb
  subst e3
  simp only
  rw [← e2, ← e1]
  cases f
  · exact ⟨rfl, rfl⟩
  · simp only [if_true, q05_setCur, q05_text, and_self]

theorem q05_forward (b : C05.Buf) (count : Int) (hi : b.idx < b.lines.length) :
    q05 (C05.historyForward b count).1 = (q05 b).forward count ∧ (C05.historyForward b count).2 = .ok := by
  simp only [C05.historyForward, HQ.forward]
  have h0 := q05_setSearch b
  have hidx : (C05.setHistorySearch b).idx = ((q05 b).setSearch).idx := by rw [← h0]; rfl
  have hlines' : (C05.setHistorySearch b).lines = ((q05 b).setSearch).work := by rw [← h0]; rfl
  have hlines : (C05.setHistorySearch b).lines = b.lines := by
    rw [hlines']; unfold HQ.setSearch; split
    · split <;> rfl
    · rfl
  have hidx' : (C05.setHistorySearch b).idx = b.idx := by
    rw [hidx]; unfold HQ.setSearch; split
    · split <;> rfl
    · rfl
  have hfun : (fun x => x + (C05.setHistorySearch b).idx + 1) = (fun x => x + ((C05.setHistorySearch b).idx + 1)) := by
    funext x; omega
  rw [hfun]
  have hb := q05_fwd (C05.setHistorySearch b) ((C05.setHistorySearch b).lines.length - ((C05.setHistorySearch b).idx + 1))
    ((C05.setHistorySearch b).idx + 1) count false (by rw [hlines, hidx']; omega)
  rw [h0, hidx, hlines'] at hb
  rw [hidx, hlines']
  generalize C05.histLoop _ count false (C05.setHistorySearch b) = r at hb
  obtain ⟨b1, f, o⟩ := r
  simp only at hb ⊢
  obtain ⟨e1, e2, e3⟩ := hb
  subst e3
  simp only
  rw [← e2, ← e1]
  cases f
  · exact ⟨rfl, rfl⟩
  · simp only [if_true, C05.moveCursor, q05_setCur, C05.firstLineLen, and_true]
    have hc0 : (C05.setCursor b1 0).cur = 0 := by rw [c05_sc_cur]; simp
    have hq0 : ((q05 b1).setCur 0).cur = 0 := by simp [HQ.setCur]
    rw [hc0, hq0, ← q05_text, q05_setCur]
    rfl

theorem q05_goTo (b : C05.Buf) (i : Nat) :
    q05 (C05.goToHistory b i).1 = (q05 b).goTo i ∧ (C05.goToHistory b i).2 = .ok := by
  simp only [C05.goToHistory, HQ.goTo]
  have : (q05 b).work.length = b.lines.length := rfl
  rw [this]
  split
  · next h =>
    obtain ⟨e1, e2⟩ := q05_setIdx b i h
    generalize C05.setWorkingIndex b i = r at e1 e2
    obtain ⟨b1, o⟩ := r
    simp only at e1 e2
    subst e2
    simp only [C05.andThen, q05_setCur, e1, and_true]
    rw [← q05_text, e1]
  · exact ⟨rfl, rfl⟩

/-! ### C01 (no history search) is the `search = none`, `ehs = false` instance -/

theorem q01_text (h : C01.HBuf) : (q01 h).text = h.text := rfl
theorem q01_setCur (h : C01.HBuf) (v : Int) : q01 (h.setCur v) = (q01 h).setCur v := rfl
theorem q01_setIdx (h : C01.HBuf) (i : Nat) : q01 (h.setIndex i) = (q01 h).setIdx i := by
  unfold C01.HBuf.setIndex HQ.setIdx
  by_cases hh : h.idx = i
  · have : (q01 h).idx = i := hh
    simp [hh, this]
  · simp [hh, q01]
theorem q01_goTo (h : C01.HBuf) (i : Nat) : q01 (h.goToHistory i) = (q01 h).goTo i := by
  simp only [C01.HBuf.goToHistory, HQ.goTo]
  have : (q01 h).work.length = h.work.length := rfl
  rw [this]
  split
  · rw [q01_setCur, q01_setIdx, ← q01_text, q01_setIdx]
  · rfl

theorem matches_none (q : HQ) (hs : q.search = none) (i : Nat) : q.matches i = true := by
  simp [HQ.matches, hs]

/-- with every entry matching, the backward loop ends at the index `C01.backLoop` computes -/
theorem bwd_none (q : HQ) (hs : q.search = none) (n : Nat) (count : Int) (found : Bool) :
    (q.bwd n count found).1.work = q.work ∧ (q.bwd n count found).1.search = none ∧
    (q.bwd n count found).1.ehs = q.ehs ∧
    (q.bwd n count found).1.idx = (C01.backLoop n q.idx count).1 ∧
    (q.bwd n count found).2 = (found || decide (0 < n)) ∧
    (n = 0 → (q.bwd n count found).1 = q) := by
  induction n generalizing q count found with
  | zero => simp [HQ.bwd, C01.backLoop, hs]
  | succ n ih =>
    simp only [HQ.bwd, matches_none q hs, if_true, C01.backLoop]
    by_cases hc : count - 1 = 0
    · simp [hc, hs]
    · simp only [hc, if_false]
      have := ih (q.setIdx n) (by simp [hs]) (count - 1) true
      simp only [HQ.setIdx_work, HQ.setIdx_ehs, HQ.setIdx_idx] at this
      obtain ⟨a1, a2, a3, a4, a5, _⟩ := this
      refine ⟨a1, a2, a3, a4, ?_, by omega⟩
      simp [a5]

/-- with every entry matching, the forward loop ends at the index `C01.fwdLoop` computes -/
theorem fwd_none (q : HQ) (hs : q.search = none) (fuel : Nat) (count : Int) (found : Bool) :
    (q.fwd fuel (q.idx + 1) count found).1.work = q.work ∧ (q.fwd fuel (q.idx + 1) count found).1.search = none ∧
    (q.fwd fuel (q.idx + 1) count found).1.ehs = q.ehs ∧
    (q.fwd fuel (q.idx + 1) count found).1.idx = C01.fwdLoop fuel q.idx count ∧
    (q.fwd fuel (q.idx + 1) count found).2 = (found || decide (0 < fuel)) ∧
    (fuel = 0 → (q.fwd fuel (q.idx + 1) count found).1 = q) := by
  induction fuel generalizing q count found with
  | zero => simp [HQ.fwd, C01.fwdLoop, hs]
  | succ n ih =>
    simp only [HQ.fwd, matches_none q hs, if_true, C01.fwdLoop]
    by_cases hc : count - 1 = 0
    · simp [hc, hs]
    · simp only [hc, if_false]
      have := ih (q.setIdx (q.idx + 1)) (by simp [hs]) (count - 1) true
      simp only [HQ.setIdx_work, HQ.setIdx_ehs, HQ.setIdx_idx] at this
      obtain ⟨a1, a2, a3, a4, a5, _⟩ := this
      refine ⟨a1, a2, a3, a4, ?_, by omega⟩
      simp [a5]

theorem HQ.ext_fields (q q' : HQ) (h1 : q.work = q'.work) (h2 : q.idx = q'.idx) (h3 : q.cur = q'.cur)
    (h4 : q.search = q'.search) (h5 : q.ehs = q'.ehs) : q = q' := by
  cases q; cases q'; simp_all

theorem setSearch_01 (h : C01.HBuf) : (q01 h).setSearch = q01 h := by
  simp [HQ.setSearch, q01]

theorem q01_back (h : C01.HBuf) (count : Int) : q01 (h.historyBackward count) = (q01 h).back count := by
  simp only [C01.HBuf.historyBackward, HQ.back, setSearch_01]
  obtain ⟨a1, a2, a3, a4, a5, a6⟩ := bwd_none (q01 h) rfl (q01 h).idx count false
  by_cases h0 : h.idx = 0
  · have h0' : (q01 h).idx = 0 := h0
    simp only [h0, if_true]
    rw [a5, h0']; simp only [Bool.false_or, Nat.lt_irrefl, decide_false, Bool.false_eq_true, if_false]
    rw [h0'] at a6
    exact (a6 rfl).symm
  · have h0' : 0 < (q01 h).idx := Nat.pos_of_ne_zero h0
    simp only [h0, if_false]
    rw [a5]; simp only [h0', decide_true, Bool.or_true, if_true]
    rw [q01_setCur, q01_setIdx, ← q01_text, q01_setIdx]
    apply HQ.ext_fields
    · simp [HQ.setCur, a1]
    · simp only [HQ.setCur, HQ.setIdx_idx, a4]; rfl
    · simp only [HQ.setCur, HQ.text, HQ.setIdx_idx, HQ.setIdx_work, a1, a4]
      rfl
    · simp only [HQ.setCur, HQ.setIdx_search]; rw [a2]; rfl
    · simp [HQ.setCur, a3]

theorem q01_forward (h : C01.HBuf) (count : Int) : q01 (h.historyForward count) = (q01 h).forward count := by
  simp only [C01.HBuf.historyForward, HQ.forward, setSearch_01]
  obtain ⟨a1, a2, a3, a4, a5, a6⟩ :=
    fwd_none (q01 h) rfl ((q01 h).work.length - ((q01 h).idx + 1)) count false
  have hw : (q01 h).work.length = h.work.length := rfl
  have hi : (q01 h).idx = h.idx := rfl
  by_cases h0 : h.idx + 1 < h.work.length
  · have h0' : 0 < (q01 h).work.length - ((q01 h).idx + 1) := by rw [hw, hi]; omega
    simp only [h0, if_true]
    rw [a5]; simp only [h0', decide_true, Bool.or_true, if_true]
    have key : (q01 (h.setIndex (C01.fwdLoop (h.work.length - (h.idx + 1)) h.idx count))).setCur 0 =
        ((q01 h).fwd ((q01 h).work.length - ((q01 h).idx + 1)) ((q01 h).idx + 1) count false).1.setCur 0 := by
      rw [q01_setIdx]
      apply HQ.ext_fields
      · simp [HQ.setCur, a1]
      · simp only [HQ.setCur, HQ.setIdx_idx, a4]; rfl
      · simp [HQ.setCur]
      · simp only [HQ.setCur, HQ.setIdx_search]; rw [a2]; rfl
      · simp [HQ.setCur, a3]
    rw [← key]
    rfl
  · have h0' : (q01 h).work.length - ((q01 h).idx + 1) = 0 := by rw [hw, hi]; omega
    simp only [h0, if_false]
    rw [a5, h0']; simp only [Bool.false_or, Nat.lt_irrefl, decide_false, Bool.false_eq_true, if_false]
    rw [h0'] at a6
    exact (a6 rfl).symm

end Ptk.AgreeBuf
