/-
  C06 — cell CONTENTS for screens with wide (two-column) characters, under the xterm rule
  "overwriting one half of a wide character blanks the other half" (implemented by `Term.fixLeft` /
  `Term.fixRight`): `diff_correct_wide`, `diff_done_wide`, `render_seq_wide`,
  `incremental_eq_scratch_wide`.  Cells are single characters of width 1 or 2; a wide character is
  followed by the empty continuation cell (as `Window._copy_body` writes them) and does not straddle
  the right edge.
-/
import Ptk.Props.C06Wide
namespace Ptk.C06
open Ptk.Py

variable (cw : Char → Nat)

/-! ### cell contents for screens with wide (two-column) characters -/

/-- a one-character cell of width `k` (`k = 1`: narrow, `k = 2`: wide) -/
def HeadK (k : Nat) (c : Cell) : Prop :=
  (∃ ch, c.txt = [ch] ∧ 32 ≤ ch.toNat ∧ ch.toNat ≠ 127 ∧ cw ch = k) ∧ c.width = k

/-- the empty cell the layout puts behind a wide character -/
def ContCell (c : Cell) : Prop := c.txt = [] ∧ c.width = 0

theorem fixRight_cells (t : Term) (y x : Nat) : ∀ y' x', (t.fixRight y x).cells y' x' =
    if y' = y ∧ x' = x ∧ x < t.w ∧ (t.cells y x).ch = [] then ⟨[' '], (t.cells y x).attrs⟩
    else t.cells y' x' := by
  intro y' x'
  unfold Term.fixRight
  by_cases hc : x < t.w ∧ (t.cells y x).ch = []
  · simp only [hc, and_self, if_true, Term.setCell, and_true]
  · simp only [hc, if_false]
    simp

/-- the cells after a glyph of width 1 or 2 was put at the cursor (autowrap off, the glyph fits, the
    cell under the cursor is not the right half of a wide character) -/
theorem putGlyph_cells (t : Term) (c : Char) (k : Nat) (hk : k = 1 ∨ k = 2) (hfit : t.col + k ≤ t.w)
    (haw : t.autowrap = false) (hleft : (t.cells t.row t.col).ch ≠ []) :
    ∀ y x, (t.putGlyph c k).cells y x =
      if y = t.row ∧ x = t.col then ⟨[c], t.sgr⟩
      else if y = t.row ∧ k = 2 ∧ x = t.col + 1 then ⟨[], t.sgr⟩
      else if y = t.row ∧ x = t.col + k ∧ t.col + k < t.w ∧ (t.cells t.row (t.col + k)).ch = [] then
        ⟨[' '], (t.cells t.row (t.col + k)).attrs⟩
      else t.cells y x := by
  have h1 : ¬ (t.w < t.col + k) := by omega
  have hl : t.fixLeft t.row t.col = t := by unfold Term.fixLeft; simp [hleft]
  have hfr := fixRight_cells t t.row (t.col + k)
  have s2 := fixRight_same t t.row (t.col + k)
  intro y x
  unfold Term.putGlyph
  simp only [h1, if_false, hl]
  generalize t.fixRight t.row (t.col + k) = t2 at *
  have haw2 : t2.autowrap = false := by rw [s2.autowrap, haw]
  rcases hk with rfl | rfl
  · have hp : (t2.setCell t2.row t2.col ⟨[c], t2.sgr⟩).putCont t2.row t2.col (1 - 1) =
        t2.setCell t2.row t2.col ⟨[c], t2.sgr⟩ := rfl
    rw [hp]
    have hres : ∀ T3 : Term, T3.cells = (t2.setCell t2.row t2.col ⟨[c], t2.sgr⟩).cells →
        T3.cells y x =
          if y = t.row ∧ x = t.col then ⟨[c], t.sgr⟩
          else if y = t.row ∧ (1 : Nat) = 2 ∧ x = t.col + 1 then ⟨[], t.sgr⟩
          else if y = t.row ∧ x = t.col + 1 ∧ t.col + 1 < t.w ∧ (t.cells t.row (t.col + 1)).ch = [] then
            ⟨[' '], (t.cells t.row (t.col + 1)).attrs⟩
          else t.cells y x := by
      intro T3 h3
      rw [h3]
      simp only [Term.setCell, s2.row, s2.col, s2.sgr, hfr]
      by_cases a : y = t.row ∧ x = t.col
      · simp [a]
      · have b : ¬ (y = t.row ∧ (1 : Nat) = 2 ∧ x = t.col + 1) := by omega
        simp only [a, b, if_false]
    split
    · exact hres _ rfl
    · simp only [Term.setCell, haw2, Bool.false_eq_true, if_false]
      exact hres _ rfl
  · have hp : (t2.setCell t2.row t2.col ⟨[c], t2.sgr⟩).putCont t2.row t2.col (2 - 1) =
        (t2.setCell t2.row t2.col ⟨[c], t2.sgr⟩).setCell t2.row (t2.col + 0 + 1) ⟨[], t2.sgr⟩ := rfl
    rw [hp]
    have hres : ∀ T3 : Term,
        T3.cells = ((t2.setCell t2.row t2.col ⟨[c], t2.sgr⟩).setCell t2.row (t2.col + 0 + 1) ⟨[], t2.sgr⟩).cells →
        T3.cells y x =
          if y = t.row ∧ x = t.col then ⟨[c], t.sgr⟩
          else if y = t.row ∧ (2 : Nat) = 2 ∧ x = t.col + 1 then ⟨[], t.sgr⟩
          else if y = t.row ∧ x = t.col + 2 ∧ t.col + 2 < t.w ∧ (t.cells t.row (t.col + 2)).ch = [] then
            ⟨[' '], (t.cells t.row (t.col + 2)).attrs⟩
          else t.cells y x := by
      intro T3 h3
      rw [h3]
      simp only [Term.setCell, s2.row, s2.col, s2.sgr, hfr, Nat.add_zero]
      by_cases a : y = t.row ∧ x = t.col
      · have a' : ¬ (y = t.row ∧ x = t.col + 1) := by omega
        simp [a]
      · by_cases b : y = t.row ∧ x = t.col + 1
        · simp [b]
        · simp [a, b]
    split
    · exact hres _ rfl
    · rw [if_neg (by simp [Term.setCell, haw2])]
      exact hres _ rfl

theorem cellOk_of_head (k : Nat) (hk : k = 1 ∨ k = 2) (c : Cell) (h : HeadK cw k c) : CellOk cw c := by
  obtain ⟨⟨ch, ht, h32, h127, hcw⟩, hw⟩ := h
  refine ⟨?_, ?_, by omega⟩
  · intro c' hc'; rw [ht] at hc'; simp at hc'; subst hc'; exact ⟨h32, h127⟩
  · simp [txtWidth, ht, hcw, hw]

/-- the cells written by one head cell -/
def headCells (a : Nat → Attrs) (y c k : Nat) (nc : Cell) (old : Nat → Nat → TCell) (w : Nat)
    (y' x' : Nat) : TCell :=
  if y' = y ∧ x' = c then ⟨nc.txt, a nc.style⟩
  else if y' = y ∧ k = 2 ∧ x' = c + 1 then ⟨[], a nc.style⟩
  else if y' = y ∧ x' = c + k ∧ c + k < w ∧ (old y (c + k)).ch = [] then ⟨[' '], (old y (c + k)).attrs⟩
  else old y' x'

theorem headCells_other (a : Nat → Attrs) (y c k : Nat) (nc : Cell) (old : Nat → Nat → TCell) (w y' x' : Nat)
    (h : y' ≠ y) : headCells a y c k nc old w y' x' = old y' x' := by
  simp [headCells, h]

theorem headCells_row (a : Nat → Attrs) (y c k : Nat) (nc : Cell) (old : Nat → Nat → TCell) (w x' : Nat) :
    headCells a y c k nc old w y x' =
      if x' = c then ⟨nc.txt, a nc.style⟩
      else if k = 2 ∧ x' = c + 1 then ⟨[], a nc.style⟩
      else if x' = c + k ∧ c + k < w ∧ (old y (c + k)).ch = [] then ⟨[' '], (old y (c + k)).attrs⟩
      else old y x' := by
  simp [headCells]

theorem write_head (e : Env) (T : Term) (c y k : Nat) (hk : k = 1 ∨ k = 2) (nc : Cell)
    (g : Geo e T ⟨c, y⟩) (hfit : c + k ≤ e.w) (hh : HeadK cw k nc)
    (hleft : (T.cells y c).ch ≠ []) (hs : T.sgr = e.attrsOf nc.style) :
    Good e (execCmd cw T (.write nc.txt)) ⟨c + k, y⟩ (some nc.style) ∧
    Frame T (execCmd cw T (.write nc.txt)) ∧
    (∀ y' x', (execCmd cw T (.write nc.txt)).cells y' x' =
      headCells e.attrsOf y c k nc T.cells e.w y' x') ∧
    (∀ p ∈ (execCmd cw T (.write nc.txt)).log, p ∈ T.log ∨ (p.1 = y ∧ c ≤ p.2 ∧ p.2 < c + k)) := by
  have ok := cellOk_of_head cw k hk nc hh
  have hwk : nc.width = k := hh.2
  obtain ⟨a1, a2, a3, a4⟩ := write_cell_geo cw e T c y nc g ok (by rw [hwk]; exact hfit)
  rw [hwk] at a1 a4
  refine ⟨⟨a1, by simp only [SgrOk]; rw [a3]; exact hs⟩, a2, ?_, a4⟩
  obtain ⟨⟨ch, ht, h32, h127, hcw⟩, _⟩ := hh
  have hcol : T.col = c := by rw [g.col]; have := g.wpos; simp; omega
  have hrow : T.row = y := g.row
  intro y' x'
  simp only [execCmd, ht, List.foldl_cons, List.foldl_nil]
  rw [putChar_printable cw T ch h32 h127]
  have hk0 : ¬ (k = 0) := by omega
  simp only [hcw, hk0, if_false]
  rw [putGlyph_cells T ch k hk (by rw [hcol, g.w]; exact hfit) g.aw (by rw [hrow, hcol]; exact hleft)]
  simp only [headCells, hrow, hcol, hs, g.w, ht]

theorem outputChar_head (e : Env) (T : Term) (c y k : Nat) (hk : k = 1 ∨ k = 2) (last : Option Nat)
    (nc : Cell) (g : Good e T ⟨c, y⟩ last) (hfit : c + k ≤ e.w) (hh : HeadK cw k nc)
    (hleft : (T.cells y c).ch ≠ []) :
    Good e (exec cw T (outputChar e last nc).1) ⟨c + k, y⟩ (outputChar e last nc).2 ∧
    Frame T (exec cw T (outputChar e last nc).1) ∧
    (∀ y' x', (exec cw T (outputChar e last nc).1).cells y' x' =
      headCells e.attrsOf y c k nc T.cells e.w y' x') ∧
    (∀ p ∈ (exec cw T (outputChar e last nc).1).log,
      p ∈ T.log ∨ (p.1 = y ∧ c ≤ p.2 ∧ p.2 < c + k)) := by
  unfold outputChar
  by_cases h1 : last = some nc.style
  · simp only [h1, if_true, exec_cons, exec_nil]
    have hs : T.sgr = e.attrsOf nc.style := by have := g.sgr; rw [h1] at this; exact this
    exact write_head cw e T c y k hk nc g.geo hfit hh hleft hs
  · simp only [h1, if_false]
    by_cases h2 : needAttrs e.rawOf last (e.rawOf nc.style) = true
    · simp only [h2, if_true, List.cons_append, List.nil_append, exec_cons, exec_nil]
      have g' : Geo e (execCmd cw T (.setAttrs (e.rawOf nc.style) e.depth (e.attrsOf nc.style))) ⟨c, y⟩ :=
        ⟨g.geo.w, g.geo.wpos, g.geo.row, g.geo.col, g.geo.rowlt, g.geo.aw⟩
      obtain ⟨a1, a2, a3, a4⟩ :=
        write_head cw e (execCmd cw T (.setAttrs (e.rawOf nc.style) e.depth (e.attrsOf nc.style))) c y k hk nc g' hfit hh hleft rfl
      exact ⟨a1, ⟨a2.h, a2.top, a2.scrolled, a2.oob, a2.visible⟩, a3, a4⟩
    · simp only [h2, Bool.false_eq_true, if_false, List.nil_append, exec_cons, exec_nil]
      have hs : T.sgr = e.attrsOf nc.style := by
        cases last with
        | none => simp [needAttrs] at h2
        | some s =>
          simp [needAttrs] at h2
          have := g.sgr
          simp only [SgrOk] at this
          rw [this]; simp only [Env.attrsOf, h2.2]
      exact write_head cw e T c y k hk nc g.geo hfit hh hleft hs

/-- structure of a row with wide characters: every cell is a narrow head, a wide head, or the empty
    continuation behind a wide head; wide heads are followed by a continuation, continuations are preceded
    by a wide head (`Window._copy_body` writes rows like this) -/
def WRow (row : List Cell) : Prop :=
  ∀ x, (HeadK cw 1 (cellAt row x) ∨ HeadK cw 2 (cellAt row x) ∨ ContCell (cellAt row x)) ∧
       (HeadK cw 2 (cellAt row x) → ContCell (cellAt row (x + 1))) ∧
       (ContCell (cellAt row x) → 0 < x ∧ HeadK cw 2 (cellAt row (x - 1)))

/-- what the terminal must show at column `x` of a row: the cell, or for a continuation the right half
    of the wide character (same attributes as its head) -/
def paint (a : Nat → Attrs) (row : List Cell) (x : Nat) : TCell :=
  if (cellAt row x).txt = [] then ⟨[], a (cellAt row (x - 1)).style⟩ else tcellOf a (cellAt row x)

theorem head_not_cont (k : Nat) (c : Cell) (h : HeadK cw k c) : ¬ ContCell c := by
  obtain ⟨⟨ch, ht, _⟩, _⟩ := h
  intro hc; rw [hc.1] at ht; cases ht

theorem head_width (k : Nat) (c : Cell) (h : HeadK cw k c) : c.width = k := h.2

theorem head12 (c : Cell) (h1 : HeadK cw 1 c) (h2 : HeadK cw 2 c) : False := by
  have := h1.2; have := h2.2; omega

theorem norm_ch (t : TCell) : t.norm.ch = t.ch := by
  unfold TCell.norm; split
  · rename_i h; rw [h.1]; rfl
  · rfl

theorem ch_of_norm_eq {a b : TCell} (h : a.norm = b.norm) : a.ch = b.ch := by
  rw [← norm_ch a, ← norm_ch b, h]

theorem paint_head (a : Nat → Attrs) (row : List Cell) (x k : Nat) (h : HeadK cw k (cellAt row x)) :
    paint a row x = tcellOf a (cellAt row x) := by
  obtain ⟨⟨ch, ht, _⟩, _⟩ := h
  simp [paint, ht]

theorem paint_cont (a : Nat → Attrs) (row : List Cell) (x : Nat) (h : ContCell (cellAt row x)) :
    paint a row x = ⟨[], a (cellAt row (x - 1)).style⟩ := by
  simp [paint, h.1]

/-- the kind of a head cell is determined by its text -/
theorem head_of_same_txt (k : Nat) (row : List Cell) (hw : WRow cw row) (x : Nat) (c : Cell)
    (hc : HeadK cw k c) (hk : k = 1 ∨ k = 2) (ht : (cellAt row x).txt = c.txt) : HeadK cw k (cellAt row x) := by
  obtain ⟨⟨ch, hct, h32, h127, hcw⟩, _⟩ := hc
  rcases (hw x).1 with h | h | h
  · have h' := h
    obtain ⟨⟨ch', ht', _, _, hcw'⟩, _⟩ := h
    rw [ht', hct] at ht; simp at ht; subst ht
    have : k = 1 := by omega
    subst this; exact h'
  · have h' := h
    obtain ⟨⟨ch', ht', _, _, hcw'⟩, _⟩ := h
    rw [ht', hct] at ht; simp at ht; subst ht
    have : k = 2 := by omega
    subst this; exact h'
  · rw [h.1, hct] at ht; cases ht

/-- after a head of width `k` the next stride position is not a continuation -/
theorem next_not_cont (row : List Cell) (hw : WRow cw row) (x k : Nat) (hk : k = 1 ∨ k = 2)
    (h : HeadK cw k (cellAt row x)) : ¬ ContCell (cellAt row (x + k)) := by
  intro hc
  obtain ⟨_, h2⟩ := (hw (x + k)).2.2 hc
  rcases hk with rfl | rfl
  · have : x + 1 - 1 = x := by omega
    rw [this] at h2; exact head12 cw _ h h2
  · have : x + 2 - 1 = x + 1 := by omega
    rw [this] at h2
    exact head_not_cont cw 2 _ h2 ((hw x).2.1 h)

/-- row `y` during the column loop, which has reached column `c`: the columns on the left show the new
    row, the columns on the right are as they were when the row was entered (`T0`), the cell at `c` is not
    the right half of a wide character (it was blanked when its left half was overwritten) -/
structure RowInv (e : Env) (T0 T : Term) (y : Nat) (newRow : List Cell) (c : Nat) : Prop where
  other : ∀ y' x', y' ≠ y → T.cells y' x' = T0.cells y' x'
  left : ∀ x, x < c → (T.cells y x).norm = (paint e.attrsOf newRow x).norm
  right : ∀ x, c < x → T.cells y x = T0.cells y x
  here : c < e.w → (T.cells y c).ch ≠ [] ∧ ((T0.cells y c).ch ≠ [] → T.cells y c = T0.cells y c)

theorem colLoopW_spec (e : Env) (s : Screen) (y : Nat) (newRow prevRow : List Cell) (n : Nat) (T0 : Term)
    (hn : n ≤ e.w) (hwn : WRow cw newRow) (hwp : WRow cw prevRow)
    (hsh0 : ∀ x, x < e.w → (T0.cells y x).norm = (paint e.attrsOf prevRow x).norm)
    (hend : ∀ c, c < n → c + (cellAt newRow c).width ≤ n) :
    ∀ (fuel c : Nat) (pos : Point) (last : Option Nat) (T : Term),
      n ≤ c + fuel → c ≤ n → ¬ ContCell (cellAt newRow c) → Good e T pos last → y < T.h →
      RowInv e T0 T y newRow c →
      Good e (exec cw T (colLoop e s y newRow prevRow n fuel c pos last).cmds)
        (colLoop e s y newRow prevRow n fuel c pos last).pos
        (colLoop e s y newRow prevRow n fuel c pos last).last ∧
      Frame T (exec cw T (colLoop e s y newRow prevRow n fuel c pos last).cmds) ∧
      RowInv e T0 (exec cw T (colLoop e s y newRow prevRow n fuel c pos last).cmds) y newRow n ∧
      (∀ p ∈ (exec cw T (colLoop e s y newRow prevRow n fuel c pos last).cmds).log,
        p ∈ T.log ∨ (p.1 = y ∧ p.2 < e.w)) := by
  intro fuel
  induction fuel with
  | zero =>
    intro c pos last T hf hcn _ g _ inv
    have : c = n := by omega
    subst this
    simp only [colLoop, exec_nil]
    exact ⟨g, Frame.refl T, inv, fun p hp => Or.inl hp⟩
  | succ fuel ih =>
    intro c pos last T hf hcn hnc g hy inv
    rw [colLoop]
    by_cases hc : c < n
    · -- the visited cell is a head of width k
      have hkind : ∃ k, (k = 1 ∨ k = 2) ∧ HeadK cw k (cellAt newRow c) := by
        rcases (hwn c).1 with h | h | h
        · exact ⟨1, Or.inl rfl, h⟩
        · exact ⟨2, Or.inr rfl, h⟩
        · exact absurd h hnc
      obtain ⟨k, hk, hh⟩ := hkind
      have hwk : (cellAt newRow c).width = k := hh.2
      have hcw : (if (cellAt newRow c).width = 0 then 1 else (cellAt newRow c).width) = k := by
        rw [hwk]; rcases hk with rfl | rfl <;> rfl
      have hck : c + k ≤ n := by have := hend c hc; rw [hwk] at this; exact this
      have hnext : ¬ ContCell (cellAt newRow (c + k)) := next_not_cont cw newRow hwn c k hk hh
      simp only [hc, if_true, hcw]
      by_cases hd : (cellAt newRow c).txt ≠ (cellAt prevRow c).txt ∨
          (cellAt newRow c).style ≠ (cellAt prevRow c).style
      · simp only [hd, if_true]
        obtain ⟨m1, m2, m3, m4⟩ := moveCursor_spec cw e T pos last ⟨c, y⟩ g hy
        generalize moveCursor e.w pos last ⟨c, y⟩ = m at *
        rw [exec_append, exec_append, exec_zwe, exec_append]
        have hleft : ((exec cw T m.1).cells y c).ch ≠ [] := by rw [m3]; exact (inv.here (by omega)).1
        obtain ⟨o1, o2, o3, o4⟩ :=
          outputChar_head cw e (exec cw T m.1) c y k hk m.2 (cellAt newRow c) m1 (by omega) hh hleft
        generalize outputChar e m.2 (cellAt newRow c) = o at *
        have hy3 : y < (exec cw (exec cw T m.1) o.1).h := by rw [o2.h, m2.h]; exact hy
        have kpos : 1 ≤ k := by omega
        -- the invariant at the next stride position
        have inv' : RowInv e T0 (exec cw (exec cw T m.1) o.1) y newRow (c + k) := by
          refine ⟨?_, ?_, ?_, ?_⟩
          · intro y' x' hy'
            rw [o3, headCells_other _ _ _ _ _ _ _ _ _ hy', m3]; exact inv.other y' x' hy'
          · intro x hx
            rw [o3, headCells_row]
            by_cases hxc : x = c
            · subst hxc
              simp only [if_true]
              rw [paint_head cw e.attrsOf newRow x k hh]; rfl
            · simp only [hxc, if_false]
              by_cases hx1 : k = 2 ∧ x = c + 1
              · obtain ⟨rfl, rfl⟩ := hx1
                simp only [and_self, if_true]
                have hcont := (hwn c).2.1 hh
                rw [paint_cont e.attrsOf newRow (c + 1) hcont]
                have : c + 1 - 1 = c := by omega
                rw [this]
              · simp only [hx1, if_false]
                have hlt : x < c := by
                  rcases hk with rfl | rfl
                  · omega
                  · have : x ≠ c + 1 := fun h => hx1 ⟨rfl, h⟩
                    omega
                have : ¬ (x = c + k ∧ c + k < e.w ∧ ((exec cw T m.1).cells y (c + k)).ch = []) := by
                  intro h; omega
                simp only [this, if_false]
                rw [m3]; exact inv.left x hlt
          · intro x hx
            rw [o3, headCells_row]
            have a1 : ¬ (x = c) := by omega
            have a2 : ¬ (k = 2 ∧ x = c + 1) := by omega
            have a3 : ¬ (x = c + k ∧ c + k < e.w ∧ ((exec cw T m.1).cells y (c + k)).ch = []) := by
              omega
            simp only [a1, a2, a3, if_false]
            rw [m3]; exact inv.right x (by omega)
          · intro hw
            rw [o3, headCells_row]
            have a1 : ¬ (c + k = c) := by omega
            have a2 : ¬ (k = 2 ∧ c + k = c + 1) := by omega
            simp only [a1, a2, if_false, true_and]
            have hr : (exec cw T m.1).cells y (c + k) = T0.cells y (c + k) := by
              rw [m3]; exact inv.right (c + k) (by omega)
            by_cases hdam : ((exec cw T m.1).cells y (c + k)).ch = []
            · simp only [hw, hdam, and_self, if_true]
              refine ⟨by simp, fun h0 => ?_⟩
              rw [hr] at hdam; exact absurd hdam h0
            · simp only [hdam, and_false, if_false]
              exact ⟨hdam, fun _ => hr⟩
        obtain ⟨r1, r2, r3, r4⟩ :=
          ih (c + k) ⟨c + k, y⟩ o.2 (exec cw (exec cw T m.1) o.1) (by omega) hck hnext o1 hy3 inv'
        refine ⟨r1, Frame.trans (Frame.trans m2 o2) r2, r3, ?_⟩
        intro p hp
        rcases r4 p hp with h | h
        · rcases o4 p h with h | h
          · left; rw [m4] at h; exact h
          · right; exact ⟨h.1, by omega⟩
        · right; exact h
      · simp only [hd, if_false]
        have heq : (cellAt newRow c).txt = (cellAt prevRow c).txt ∧
            (cellAt newRow c).style = (cellAt prevRow c).style := by
          simp only [not_or, Decidable.not_not] at hd; exact hd
        -- the previous row has the same head at `c`
        have hhp : HeadK cw k (cellAt prevRow c) :=
          head_of_same_txt cw k prevRow hwp c (cellAt newRow c) hh hk heq.1.symm
        have hcw' : c < e.w := by omega
        have hT0c : (T0.cells y c).ch ≠ [] := by
          have := ch_of_norm_eq (hsh0 c hcw')
          rw [this, paint_head cw e.attrsOf prevRow c k hhp]
          obtain ⟨⟨ch, ht, _⟩, _⟩ := hhp
          simp [tcellOf, ht]
        have inv' : RowInv e T0 T y newRow (c + k) := by
          refine ⟨inv.other, ?_, fun x hx => inv.right x (by omega), ?_⟩
          · intro x hx
            by_cases hxc : x = c
            · subst hxc
              rw [((inv.here hcw').2 hT0c), hsh0 x hcw', paint_head cw e.attrsOf prevRow x k hhp,
                paint_head cw e.attrsOf newRow x k hh]
              simp only [tcellOf, heq.1, heq.2]
            · by_cases hx1 : k = 2 ∧ x = c + 1
              · obtain ⟨rfl, rfl⟩ := hx1
                have hx1w : c + 1 < e.w := by omega
                rw [inv.right (c + 1) (by omega), hsh0 (c + 1) hx1w,
                  paint_cont e.attrsOf prevRow (c + 1) ((hwp c).2.1 hhp),
                  paint_cont e.attrsOf newRow (c + 1) ((hwn c).2.1 hh)]
                have : c + 1 - 1 = c := by omega
                rw [this, heq.2]
              · have hlt : x < c := by
                  rcases hk with rfl | rfl
                  · omega
                  · have : x ≠ c + 1 := fun h => hx1 ⟨rfl, h⟩
                    omega
                exact inv.left x hlt
          · intro hw
            have hr := inv.right (c + k) (by omega)
            have hnp : ¬ ContCell (cellAt prevRow (c + k)) := next_not_cont cw prevRow hwp c k hk hhp
            have hT0 : (T0.cells y (c + k)).ch ≠ [] := by
              have := ch_of_norm_eq (hsh0 (c + k) hw)
              rw [this]
              rcases (hwp (c + k)).1 with h | h | h
              · rw [paint_head cw e.attrsOf prevRow (c + k) 1 h]
                obtain ⟨⟨ch, ht, _⟩, _⟩ := h
                simp [tcellOf, ht]
              · rw [paint_head cw e.attrsOf prevRow (c + k) 2 h]
                obtain ⟨⟨ch, ht, _⟩, _⟩ := h
                simp [tcellOf, ht]
              · exact absurd h hnp
            rw [hr]
            exact ⟨hT0, fun _ => rfl⟩
        exact ih (c + k) pos last T (by omega) hck hnext g hy inv'
    · have : c = n := by omega
      subst this
      simp only [hc, if_false, exec_nil]
      exact ⟨g, Frame.refl T, inv, fun p hp => Or.inl hp⟩

theorem trimLen_ge (p : Cell → Bool) : ∀ (l : List Cell) (x : Nat) (h : x < l.length),
    p l[x] = true → x < trimLen p l := by
  intro l
  induction l with
  | nil => intro x h; simp at h
  | cons c cs ih =>
    intro x h hp
    simp only [trimLen]
    cases x with
    | zero =>
      simp only [List.getElem_cons_zero] at hp
      split <;> simp
    | succ x' =>
      simp only [List.getElem_cons_succ] at hp
      have := ih x' (by simpa using h) hp
      have h0 : trimLen p cs ≠ 0 := by omega
      simp only [h0, if_false]; omega

theorem not_cont_zero (row : List Cell) (hw : WRow cw row) : ¬ ContCell (cellAt row 0) := by
  intro h; have := ((hw 0).2.2 h).1; omega

theorem paint_ch_ne_nil (a : Nat → Attrs) (row : List Cell) (hw : WRow cw row) (x : Nat)
    (h : ¬ ContCell (cellAt row x)) : (paint a row x).ch ≠ [] := by
  rcases (hw x).1 with h1 | h1 | h1
  · rw [paint_head cw a row x 1 h1]; obtain ⟨⟨ch, ht, _⟩, _⟩ := h1; simp [tcellOf, ht]
  · rw [paint_head cw a row x 2 h1]; obtain ⟨⟨ch, ht, _⟩, _⟩ := h1; simp [tcellOf, ht]
  · exact absurd h1 h

/-- a cell that `get_max_column_index` does not count is a plain blank -/
theorem paint_not_counted (e : Env) (hdef : EnvOk e) (row : List Cell) (x : Nat)
    (h : Cell.counted e.rawOf (cellAt row x) = false) : (paint e.attrsOf row x).norm = TCell.blank := by
  have h' := h
  simp only [Cell.counted, Bool.or_eq_false_iff, bne_eq_false_iff_eq] at h'
  have : (cellAt row x).txt ≠ [] := by rw [h'.1]; simp
  simp only [paint, this, if_false]
  exact norm_of_not_counted_env e hdef _ h

/-- with no wide head straddling the right edge, every visited cell ends inside the compared part of the
    row (the continuation behind a wide head is counted by `get_max_column_index`) -/
theorem stride_end (e : Env) (row : List Cell) (hw : WRow cw row)
    (hns : ∀ c, c < e.w → HeadK cw 2 (cellAt row c) → c + 2 ≤ e.w) :
    ∀ c, c < lineLen e row → c + (cellAt row c).width ≤ lineLen e row := by
  intro c hc
  have hcw : c < e.w := by unfold lineLen at hc; omega
  rcases (hw c).1 with h | h | h
  · rw [h.2]; omega
  · rw [h.2]
    have hcont := (hw c).2.1 h
    have h2 := hns c hcw h
    -- the continuation is inside the list and counted
    have hin : c + 1 < row.length := by
      by_cases hl : c + 1 < row.length
      · exact hl
      · exfalso
        have : cellAt row (c + 1) = Cell.dflt := by unfold cellAt; exact getD_ge _ _ _ (by omega)
        rw [this] at hcont; simp [ContCell, Cell.dflt] at hcont
    have hcnt : Cell.counted e.rawOf (row[c + 1]) = true := by
      have : cellAt row (c + 1) = row[c + 1] := by unfold cellAt; exact getD_lt _ _ _ hin
      rw [this] at hcont
      simp [Cell.counted, hcont.1]
    have := trimLen_ge (Cell.counted e.rawOf) row (c + 1) hin hcnt
    unfold lineLen maxCol; omega
  · rw [h.2]; omega

theorem eraseFrom_eq_local (t : Term) (down : Bool) (h : (t.cells t.row t.col).ch ≠ []) :
    t.eraseFrom down =
      { t with cells := fun y x =>
          if (y = t.row ∧ t.col ≤ x) ∨ (down = true ∧ t.row < y) then erased t.sgr else t.cells y x } := by
  have hl : t.fixLeft t.row t.col = t := by unfold Term.fixLeft; simp [h]
  unfold Term.eraseFrom
  simp only [hl]

theorem rowStepW_spec (e : Env) (s prev : Screen) (y : Nat) (pos : Point) (last : Option Nat) (T : Term)
    (hdef : EnvOk e)
    (hwn : WRow cw (s.row y)) (hwp : WRow cw (prev.row y))
    (hns : ∀ c, c < e.w → HeadK cw 2 (cellAt (s.row y) c) → c + 2 ≤ e.w)
    (hsh : ∀ x, x < e.w → (T.cells y x).norm = (paint e.attrsOf (prev.row y) x).norm)
    (g : Good e T pos last) (hy : y < T.h) :
    Good e (exec cw T (rowStep e s prev y pos last).cmds) (rowStep e s prev y pos last).pos
      (rowStep e s prev y pos last).last ∧
    Frame T (exec cw T (rowStep e s prev y pos last).cmds) ∧
    (∀ x, x < e.w → ((exec cw T (rowStep e s prev y pos last).cmds).cells y x).norm =
      (paint e.attrsOf (s.row y) x).norm) ∧
    (∀ y' x', y' ≠ y → (exec cw T (rowStep e s prev y pos last).cmds).cells y' x' = T.cells y' x') ∧
    (∀ p ∈ (exec cw T (rowStep e s prev y pos last).cmds).log, p ∈ T.log ∨ (p.1 = y ∧ p.2 < e.w)) := by
  have hle := lineLen_le e (s.row y)
  have hwpos := g.geo.wpos
  have inv0 : RowInv e T T y (s.row y) 0 := by
    refine ⟨fun _ _ _ => rfl, fun x hx => by omega, fun _ _ => rfl, fun hw => ⟨?_, fun _ => rfl⟩⟩
    rw [ch_of_norm_eq (hsh 0 hw)]
    exact paint_ch_ne_nil cw e.attrsOf (prev.row y) hwp 0 (not_cont_zero cw _ hwp)
  obtain ⟨c1, c2, c3, c5⟩ :=
    colLoopW_spec cw e s y (s.row y) (prev.row y) (lineLen e (s.row y)) T hle hwn hwp hsh
      (stride_end cw e (s.row y) hwn hns) (lineLen e (s.row y)) 0 pos last T (by omega) (by omega)
      (not_cont_zero cw _ hwn) g hy inv0
  unfold rowStep
  simp only []
  generalize colLoop e s y (s.row y) (prev.row y) (lineLen e (s.row y)) (lineLen e (s.row y)) 0 pos last = r at *
  generalize hn : lineLen e (s.row y) = n at *
  -- cells of the new row that are not compared are plain blanks
  have hnewblank : ∀ x, n ≤ x → x < e.w → (paint e.attrsOf (s.row y) x).norm = TCell.blank := by
    intro x hx hxw
    apply paint_not_counted e hdef
    apply not_counted _ hdef.dflt
    rw [← hn] at hx; unfold lineLen at hx; omega
  by_cases ht : n < lineLen e (prev.row y)
  · simp only [ht, if_true]
    have hpl := lineLen_le e (prev.row y)
    have hy1 : y < (exec cw T r.cmds).h := by rw [c2.h]; exact hy
    obtain ⟨m1, m2, m3, m4⟩ := moveCursor_spec cw e (exec cw T r.cmds) r.pos r.last ⟨n, y⟩ c1 hy1
    generalize moveCursor e.w r.pos r.last ⟨n, y⟩ = m at *
    rw [exec_append, exec_append]
    generalize exec cw (exec cw T r.cmds) m.1 = T2 at *
    have hcol : T2.col = n := by rw [m1.geo.col]; simp; omega
    have hrow : T2.row = y := m1.geo.row
    have hch : (T2.cells y n).ch ≠ [] := by rw [m3]; exact (c3.here (by omega)).1
    have hex : exec cw T2 [.resetAttrs, .eraseEol] =
        { T2 with sgr := Attrs.dflt,
                  cells := fun y' x' => if y' = y ∧ n ≤ x' then TCell.blank else T2.cells y' x' } := by
      simp only [exec_cons, exec_nil, execCmd]
      rw [eraseFrom_eq_local _ _ (by simpa [hrow, hcol] using hch)]
      simp [erased_dflt, hrow, hcol]
    rw [hex]
    refine ⟨⟨⟨m1.geo.w, m1.geo.wpos, m1.geo.row, m1.geo.col, m1.geo.rowlt, m1.geo.aw⟩, rfl⟩,
      ⟨by simp [m2.h, c2.h], by simp [m2.top, c2.top], by simp [m2.scrolled, c2.scrolled],
       by simp [m2.oob, c2.oob], by simp [m2.visible, c2.visible]⟩, ?_, ?_, ?_⟩
    · intro x hx
      simp only [true_and]
      by_cases hxn : n ≤ x
      · simp only [hxn, if_true, blank_norm]
        exact (hnewblank x hxn hx).symm
      · simp only [hxn, if_false]
        rw [m3]; exact c3.left x (by omega)
    · intro y' x' hy'
      simp only [hy', false_and, if_false]
      rw [m3]; exact c3.other y' x' hy'
    · intro p hp
      simp only [m4] at hp
      exact c5 p hp
  · simp only [ht, if_false]
    refine ⟨c1, c2, ?_, c3.other, c5⟩
    intro x hx
    by_cases hxn : x < n
    · exact c3.left x hxn
    · -- the previous row is blank from `n` on
      have hprevblank : (paint e.attrsOf (prev.row y) x).norm = TCell.blank := by
        apply paint_not_counted e hdef
        apply not_counted _ hdef.dflt
        unfold lineLen at ht; omega
      rw [hnewblank x (by omega) hx, ← hprevblank, ← hsh x hx]
      by_cases hxe : x = n
      · subst hxe
        have h0 : (T.cells y x).ch ≠ [] := by
          rw [ch_of_norm_eq (hsh x hx)]
          have := congrArg TCell.ch hprevblank
          rw [norm_ch] at this
          rw [this]; simp [TCell.blank]
        rw [(c3.here hx).2 h0]
      · rw [c3.right x (by omega)]

/-- the owned rows of the terminal visibly show screen `s` (wide characters: left half = the character,
    right half = a continuation cell with the same attributes) -/
def ShowsW (e : Env) (T : Term) (s : Screen) : Prop :=
  ∀ y x, y < T.h → x < e.w → (T.cells y x).norm = (paint e.attrsOf (s.row y) x).norm

def WRows (s : Screen) : Prop := ∀ y, WRow cw (s.row y)

/-- no wide character straddles the right edge -/
def NoStraddle (e : Env) (s : Screen) : Prop :=
  ∀ y c, c < e.w → HeadK cw 2 (cellAt (s.row y) c) → c + 2 ≤ e.w

theorem rowLoopW_spec (e : Env) (s prev : Screen) (hdef : EnvOk e)
    (hwn : WRows cw s) (hwp : WRows cw prev) (hns : NoStraddle cw e s) :
    ∀ (k y0 : Nat) (pos : Point) (last : Option Nat) (T : Term),
      Good e T pos last → y0 + k ≤ T.h →
      (∀ y', y0 ≤ y' → y' < y0 + k → ∀ x, x < e.w →
        (T.cells y' x).norm = (paint e.attrsOf (prev.row y') x).norm) →
      Good e (exec cw T (rowLoop e s prev k y0 pos last).cmds) (rowLoop e s prev k y0 pos last).pos
        (rowLoop e s prev k y0 pos last).last ∧
      Frame T (exec cw T (rowLoop e s prev k y0 pos last).cmds) ∧
      (∀ y', y0 ≤ y' → y' < y0 + k → ∀ x, x < e.w →
        ((exec cw T (rowLoop e s prev k y0 pos last).cmds).cells y' x).norm =
          (paint e.attrsOf (s.row y') x).norm) ∧
      (∀ y' x', (y' < y0 ∨ y0 + k ≤ y') →
        (exec cw T (rowLoop e s prev k y0 pos last).cmds).cells y' x' = T.cells y' x') ∧
      (∀ p ∈ (exec cw T (rowLoop e s prev k y0 pos last).cmds).log,
        p ∈ T.log ∨ (y0 ≤ p.1 ∧ p.1 < y0 + k ∧ p.2 < e.w)) ∧
      (k = 0 → (rowLoop e s prev k y0 pos last).last = last) := by
  intro k
  induction k with
  | zero =>
    intro y0 pos last T g _ _
    simp only [rowLoop, exec_nil]
    exact ⟨g, Frame.refl T, fun y' h1 h2 => by omega, fun _ _ _ => trivial, fun p hp => Or.inl hp,
      fun _ => trivial⟩
  | succ k ih =>
    intro y0 pos last T g hk hsh
    rw [rowLoop]
    simp only []
    obtain ⟨a1, a2, a3, a4, a5⟩ :=
      rowStepW_spec cw e s prev y0 pos last T hdef (hwn y0) (hwp y0) (hns y0)
        (hsh y0 (by omega) (by omega)) g (by omega)
    generalize rowStep e s prev y0 pos last = a at *
    rw [exec_append]
    obtain ⟨b1, b2, b3, b4, b5, _⟩ := ih (y0 + 1) a.pos a.last (exec cw T a.cmds) a1 (by rw [a2.h]; omega)
      (fun y' h1 h2 x hx => by rw [a4 y' x (by omega)]; exact hsh y' (by omega) (by omega) x hx)
    refine ⟨b1, Frame.trans a2 b2, ?_, ?_, ?_, fun h => by omega⟩
    · intro y' h1 h2 x hx
      by_cases hy0 : y' = y0
      · subst hy0
        rw [b4 y' x (Or.inl (by omega))]; exact a3 x hx
      · exact b3 y' (by omega) (by omega) x hx
    · intro y' x' h
      rw [b4 y' x' (by omega), a4 y' x' (by omega)]
    · intro p hp
      rcases b5 p hp with h | h
      · rcases a5 p h with h | h
        · exact Or.inl h
        · exact Or.inr ⟨by omega, by omega, h.2⟩
      · exact Or.inr ⟨by omega, by omega, h.2.2⟩

theorem paint_nil (a : Nat → Attrs) (x : Nat) : paint a [] x = tcellOf a Cell.dflt := by
  simp [paint, cellAt, List.getD, Cell.dflt]

theorem wrow_nil (h1 : cw ' ' = 1) : WRow cw [] := by
  intro x
  have hd : ∀ z, cellAt [] z = Cell.dflt := by intro z; simp [cellAt, List.getD]
  have hh : HeadK cw 1 Cell.dflt := ⟨⟨' ', rfl, by decide, by decide, h1⟩, rfl⟩
  refine ⟨Or.inl (by rw [hd]; exact hh), ?_, ?_⟩
  · intro h; rw [hd] at h; exact absurd h.2 (by simp [Cell.dflt])
  · intro h; rw [hd] at h; exact absurd h.1 (by simp [Cell.dflt])

theorem showsW_empty_of_blank (e : Env) (T : Term) (hdef : EnvOk e)
    (h : ∀ y x, T.cells y x = TCell.blank) : ShowsW e T Screen.empty := by
  intro y x _ _
  rw [h y x, blank_norm]
  have : Screen.empty.row y = [] := by simp [Screen.row, Screen.empty, List.getD]
  rw [this, paint_nil]
  symm
  apply norm_of_not_counted_env e hdef
  have := hdef.dflt
  simp [Cell.counted, Cell.dflt, this]

/-- the row loop and the tail of the differ for screens with wide characters -/
theorem coreW (e : Env) (s pscr : Screen) (isDone : Bool) (T1 : Term) (p1 : Point) (l1 : Option Nat)
    (hdef : EnvOk e)
    (hwn : WRows cw s) (hwp : WRows cw pscr) (hns : NoStraddle cw e s)
    (wfs : WF s) (wfp : WF pscr)
    (g : Good e T1 p1 l1) (hsh : ShowsW e T1 pscr)
    (hfit : min (max s.height pscr.height) e.h ≤ T1.h) (hTh : T1.h ≤ e.h)
    (htgt : (if isDone then min s.height e.h else s.cursor.y) < T1.h)
    (hdone : isDone = true → pscr.height = 0 ∧ l1 = none) :
    (∀ y x, y < T1.h → x < e.w → (isDone = true → y < min s.height e.h) →
        ((exec cw T1 ((rowLoop e s pscr (min (max s.height pscr.height) e.h) 0 p1 l1).cmds ++
          (finish e s pscr isDone (rowLoop e s pscr (min (max s.height pscr.height) e.h) 0 p1 l1).pos
            (rowLoop e s pscr (min (max s.height pscr.height) e.h) 0 p1 l1).last).cmds)).cells y x).norm =
          (paint e.attrsOf (s.row y) x).norm) ∧
    (isDone = true → ∀ y x, min s.height e.h ≤ y →
        (exec cw T1 ((rowLoop e s pscr (min (max s.height pscr.height) e.h) 0 p1 l1).cmds ++
          (finish e s pscr isDone (rowLoop e s pscr (min (max s.height pscr.height) e.h) 0 p1 l1).pos
            (rowLoop e s pscr (min (max s.height pscr.height) e.h) 0 p1 l1).last).cmds)).cells y x =
          TCell.blank) ∧
    (exec cw T1 ((rowLoop e s pscr (min (max s.height pscr.height) e.h) 0 p1 l1).cmds ++
          (finish e s pscr isDone (rowLoop e s pscr (min (max s.height pscr.height) e.h) 0 p1 l1).pos
            (rowLoop e s pscr (min (max s.height pscr.height) e.h) 0 p1 l1).last).cmds)).row =
        (if isDone then min s.height e.h else s.cursor.y) ∧
    (exec cw T1 ((rowLoop e s pscr (min (max s.height pscr.height) e.h) 0 p1 l1).cmds ++
          (finish e s pscr isDone (rowLoop e s pscr (min (max s.height pscr.height) e.h) 0 p1 l1).pos
            (rowLoop e s pscr (min (max s.height pscr.height) e.h) 0 p1 l1).last).cmds)).col =
        min (if isDone then 0 else s.cursor.x) (e.w - 1) ∧
    (exec cw T1 ((rowLoop e s pscr (min (max s.height pscr.height) e.h) 0 p1 l1).cmds ++
          (finish e s pscr isDone (rowLoop e s pscr (min (max s.height pscr.height) e.h) 0 p1 l1).pos
            (rowLoop e s pscr (min (max s.height pscr.height) e.h) 0 p1 l1).last).cmds)).w = e.w ∧
    (exec cw T1 ((rowLoop e s pscr (min (max s.height pscr.height) e.h) 0 p1 l1).cmds ++
          (finish e s pscr isDone (rowLoop e s pscr (min (max s.height pscr.height) e.h) 0 p1 l1).pos
            (rowLoop e s pscr (min (max s.height pscr.height) e.h) 0 p1 l1).last).cmds)).sgr = Attrs.dflt ∧
    (exec cw T1 ((rowLoop e s pscr (min (max s.height pscr.height) e.h) 0 p1 l1).cmds ++
          (finish e s pscr isDone (rowLoop e s pscr (min (max s.height pscr.height) e.h) 0 p1 l1).pos
            (rowLoop e s pscr (min (max s.height pscr.height) e.h) 0 p1 l1).last).cmds)).autowrap =
        (isDone || !e.fullScreen) ∧
    (exec cw T1 ((rowLoop e s pscr (min (max s.height pscr.height) e.h) 0 p1 l1).cmds ++
          (finish e s pscr isDone (rowLoop e s pscr (min (max s.height pscr.height) e.h) 0 p1 l1).pos
            (rowLoop e s pscr (min (max s.height pscr.height) e.h) 0 p1 l1).last).cmds)).visible =
        (s.showCursor || T1.visible) ∧
    Same T1 (exec cw T1 ((rowLoop e s pscr (min (max s.height pscr.height) e.h) 0 p1 l1).cmds ++
          (finish e s pscr isDone (rowLoop e s pscr (min (max s.height pscr.height) e.h) 0 p1 l1).pos
            (rowLoop e s pscr (min (max s.height pscr.height) e.h) 0 p1 l1).last).cmds)) := by
  generalize hK : min (max s.height pscr.height) e.h = K at *
  obtain ⟨r1, r2, r3, r4, _, r6⟩ := rowLoopW_spec cw e s pscr hdef hwn hwp hns K 0 p1 l1 T1 g (by omega)
    (fun y' _ h2 x hx => hsh y' x (by omega) hx)
  generalize rowLoop e s pscr K 0 p1 l1 = r at *
  rw [exec_append]
  generalize hT2 : exec cw T1 r.cmds = T2 at *
  have hd2 : isDone = true → pscr.height = 0 ∧ (min s.height e.h = 0 → r.last = none) := by
    intro hd
    obtain ⟨h0, hl⟩ := hdone hd
    refine ⟨h0, fun hz => ?_⟩
    rw [r6 (by omega), hl]
  obtain ⟨f1, f2, f3, f4, f5, f6, f7, _, f9⟩ :=
    finish_spec cw e s pscr isDone r.pos r.last T2 r1 (by rw [r2.h]; omega) (by rw [r2.h]; exact htgt) hd2
  generalize exec cw T2 (finish e s pscr isDone r.pos r.last).cmds = T3 at *
  have hrows : ∀ y x, y < T1.h → x < e.w →
      (T2.cells y x).norm = (paint e.attrsOf (s.row y) x).norm := by
    intro y x hy hx
    by_cases hyK : y < K
    · exact r3 y (by omega) (by omega) x hx
    · rw [r4 y x (Or.inr (by omega))]
      have hs : s.row y = [] := row_nil_of_WF s wfs y (by omega)
      have hp : pscr.row y = [] := row_nil_of_WF pscr wfp y (by omega)
      rw [hsh y x hy hx, hs, hp]
  refine ⟨?_, ?_, f1, f2, f3, f4, f5, ?_, Same.trans r2.same f9⟩
  · intro y x hy hx hdy
    rw [f7]
    have : ¬ (isDone = true ∧ min s.height e.h ≤ y) := by
      rintro ⟨hd, hle⟩; have := hdy hd; omega
    simp only [this, if_false]
    exact hrows y x hy hx
  · intro hd y x hy
    rw [f7]; simp [hd, hy]
  · rw [f6, r2.visible]

/-- hypotheses of the wide-character theorems about one call of the differ -/
structure DiffOkW (e : Env) (s : Screen) (pos : Point) (prev : Option Screen) (last : Option Nat)
    (isDone : Bool) (pw : Nat) (T : Term) : Prop where
  space : cw ' ' = 1
  hdef : EnvOk e
  /-- every cell is one character, 1 or 2 columns wide, wide characters are followed by the empty
      continuation cell and do not straddle the right edge -/
  rows : WRows cw s
  fitw : NoStraddle cw e s
  wf : WF s
  pre : Pre e T pos last prev
  /-- on the incremental path the terminal shows the (well-formed) previous screen -/
  shown : ∀ ps, prev = some ps → (isDone || pw != e.w) = false → ShowsW e T ps ∧ WRows cw ps ∧ WF ps
  fit : min (max s.height (prevHeight prev)) e.h ≤ T.h
  trows : T.h ≤ e.h
  tgt : (if isDone then min s.height e.h else s.cursor.y) < T.h

theorem diff_masterW (e : Env) (s : Screen) (pos : Point) (prev : Option Screen) (last : Option Nat)
    (isDone : Bool) (pw : Nat) (T : Term) (ok : DiffOkW cw e s pos prev last isDone pw T) :
    (∀ y x, y < T.h → x < e.w → (isDone = true → y < min s.height e.h) →
        ((exec cw T (diff e s pos prev last isDone pw).cmds).cells y x).norm =
          (paint e.attrsOf (s.row y) x).norm) ∧
    (isDone = true → ∀ y x, min s.height e.h ≤ y →
        (exec cw T (diff e s pos prev last isDone pw).cmds).cells y x = TCell.blank) ∧
    (exec cw T (diff e s pos prev last isDone pw).cmds).row =
        (if isDone then min s.height e.h else s.cursor.y) ∧
    (exec cw T (diff e s pos prev last isDone pw).cmds).col =
        min (if isDone then 0 else s.cursor.x) (e.w - 1) ∧
    (exec cw T (diff e s pos prev last isDone pw).cmds).w = e.w ∧
    (exec cw T (diff e s pos prev last isDone pw).cmds).sgr = Attrs.dflt ∧
    (exec cw T (diff e s pos prev last isDone pw).cmds).autowrap = (isDone || !e.fullScreen) ∧
    (exec cw T (diff e s pos prev last isDone pw).cmds).visible = s.showCursor ∧
    Same T (exec cw T (diff e s pos prev last isDone pw).cmds) := by
  obtain ⟨h1, hdef, hwn, hns, wfs, pre, hprev, hfit, hTh, htgt⟩ := ok
  unfold diff
  simp only []
  rw [exec_append]
  by_cases hfull : (isDone || prev.isNone || pw != e.w) = true
  · obtain ⟨q1, q2, q3, q4, q5, q6, _, q8⟩ := preamble_full cw e T pos last prev isDone pw pre hfull
    generalize preamble e pos prev last isDone pw = p at *
    obtain ⟨⟨pc, pp, pl⟩, pscr⟩ := p
    simp only at q1 q2 q3 q4 q5 q6 q8 ⊢
    subst q1 q2 q3
    generalize exec cw T pc = T1 at *
    have hsh1 := showsW_empty_of_blank e T1 hdef q5
    have hE : Screen.empty.height = 0 := rfl
    have hwe : WRows cw Screen.empty := by
      intro y
      have : Screen.empty.row y = [] := by simp [Screen.row, Screen.empty, List.getD]
      rw [this]; exact wrow_nil cw h1
    obtain ⟨c1, c2, c3, c4, c5, c6, c7, c8, c10⟩ :=
      coreW cw e s Screen.empty isDone T1 ⟨0, 0⟩ none hdef hwn hwe hns wfs (by simp [WF, Screen.empty]) q4 hsh1
        (by rw [q8.h, hE]; omega) (by rw [q8.h]; exact hTh) (by rw [q8.h]; exact htgt)
        (fun _ => ⟨rfl, rfl⟩)
    refine ⟨?_, c2, c3, c4, c5, c6, c7, ?_, Same.trans q8 c10⟩
    · intro y x hy hx hd; exact c1 y x (by rw [q8.h]; exact hy) hx hd
    · rw [c8, q6]; simp
  · have hf : (isDone || prev.isNone || pw != e.w) = false := (Bool.not_eq_true _).mp hfull
    cases hp : prev with
    | none => simp [hp] at hf
    | some ps =>
      subst hp
      have hinc : (isDone || pw != e.w) = false := by simpa using hf
      obtain ⟨hsh, hwp, wfp⟩ := hprev ps rfl hinc
      have pre' : Pre e T pos last (some ps) := pre
      obtain ⟨q1, q2, q3, q4, q5, q6, _, q8⟩ := preamble_incr cw e T pos last ps isDone pw pre' hinc
      generalize preamble e pos (some ps) last isDone pw = p at *
      obtain ⟨⟨pc, pp, pl⟩, pscr⟩ := p
      simp only at q1 q2 q3 q4 q5 q6 q8 ⊢
      subst q1 q2 q3
      generalize exec cw T pc = T1 at *
      have hsh1 : ShowsW e T1 pscr := by
        intro y x hy hx; rw [q5]; exact hsh y x (by rw [← q8.h]; exact hy) hx
      have hD : isDone = false := by cases isDone <;> simp_all
      obtain ⟨c1, c2, c3, c4, c5, c6, c7, c8, c10⟩ :=
        coreW cw e s pscr isDone T1 pp pl hdef hwn hwp hns wfs wfp q4 hsh1
          (by rw [q8.h]; simpa [prevHeight] using hfit) (by rw [q8.h]; exact hTh)
          (by rw [q8.h]; exact htgt) (by intro h; rw [hD] at h; cases h)
      refine ⟨?_, c2, c3, c4, c5, c6, c7, ?_, Same.trans q8 c10⟩
      · intro y x hy hx hd; exact c1 y x (by rw [q8.h]; exact hy) hx hd
      · rw [c8, q6]; simp

/-- what a terminal looks like after a screen with wide characters has been rendered (not `done`) -/
structure RenderedW (e : Env) (T : Term) (s : Screen) : Prop where
  shows : ShowsW e T s
  row : T.row = s.cursor.y
  col : T.col = min s.cursor.x (e.w - 1)
  sgr : T.sgr = Attrs.dflt
  autowrap : T.autowrap = !e.fullScreen
  visible : T.visible = s.showCursor
  w : T.w = e.w

/-- **diff_correct_wide** — `diff_correct` for screens with wide (two-column) characters, under the xterm
    rule "overwriting one half of a wide character blanks the other half": if the terminal shows the previous
    screen, then after executing the differ's output it shows the new one (each wide character on its two
    columns), cursor on the screen's cursor, attributes reset, cursor visibility and autowrap as required. -/
theorem diff_correct_wide (e : Env) (s : Screen) (pos : Point) (prev : Option Screen) (last : Option Nat)
    (pw : Nat) (T : Term) (ok : DiffOkW cw e s pos prev last false pw T) :
    RenderedW e (exec cw T (diff e s pos prev last false pw).cmds) s := by
  obtain ⟨c1, _, c3, c4, c5, c6, c7, c8, c10⟩ := diff_masterW cw e s pos prev last false pw T ok
  refine ⟨?_, by simpa using c3, by simpa using c4, c6, by simpa using c7, c8, c5⟩
  intro y x hy hx
  rw [c10.h] at hy
  exact c1 y x hy hx (by intro h; cases h)

/-- **diff_done_wide** — the `done` render of a screen with wide characters -/
theorem diff_done_wide (e : Env) (s : Screen) (pos : Point) (prev : Option Screen) (last : Option Nat)
    (pw : Nat) (T : Term) (ok : DiffOkW cw e s pos prev last true pw T) :
    (∀ y x, y < min s.height e.h → x < e.w →
      ((exec cw T (diff e s pos prev last true pw).cmds).cells y x).norm =
        (paint e.attrsOf (s.row y) x).norm) ∧
    (∀ y x, min s.height e.h ≤ y →
      (exec cw T (diff e s pos prev last true pw).cmds).cells y x = TCell.blank) ∧
    (exec cw T (diff e s pos prev last true pw).cmds).row = min s.height e.h ∧
    (exec cw T (diff e s pos prev last true pw).cmds).col = 0 ∧
    (exec cw T (diff e s pos prev last true pw).cmds).sgr = Attrs.dflt ∧
    (exec cw T (diff e s pos prev last true pw).cmds).autowrap = true := by
  have ht := ok.tgt
  obtain ⟨c1, c2, c3, c4, _, c6, c7, _, _⟩ := diff_masterW cw e s pos prev last true pw T ok
  simp only [if_true] at ht c3 c4
  refine ⟨?_, c2 rfl, c3, by simpa using c4, c6, by simpa using c7⟩
  intro y x hy hx
  exact c1 y x (by omega) hx (fun _ => hy)

/-! non-vacuity -/

def headB (k : Nat) (c : Cell) : Bool :=
  match c.txt with
  | [ch] => decide (32 ≤ ch.toNat) && decide (ch.toNat ≠ 127) && decide (cw ch = k) && decide (c.width = k)
  | _ => false

theorem head_of_check (k : Nat) (c : Cell) (h : headB cw k c = true) : HeadK cw k c := by
  unfold headB at h
  split at h
  · rename_i ch ht
    simp only [Bool.and_eq_true, decide_eq_true_eq] at h
    exact ⟨⟨ch, ht, h.1.1.1, h.1.1.2, h.1.2⟩, h.2⟩
  · cases h

def contB (c : Cell) : Bool := decide (c.txt = []) && decide (c.width = 0)

theorem cont_iff_check (c : Cell) : contB c = true ↔ ContCell c := by
  simp [contB, ContCell]

/-- the three clauses of `WRow` at column `x`, decidably -/
def wrowAtB (row : List Cell) (x : Nat) : Bool :=
  (headB cw 1 (cellAt row x) || headB cw 2 (cellAt row x) || contB (cellAt row x)) &&
  (!(decide ((cellAt row x).width = 2)) || contB (cellAt row (x + 1))) &&
  (!(contB (cellAt row x)) || (decide (0 < x) && headB cw 2 (cellAt row (x - 1))))

theorem wrow_of_check (h1 : cw ' ' = 1) (row : List Cell)
    (h : (List.range row.length).all (wrowAtB cw row) = true) : WRow cw row := by
  intro x
  have hdf : HeadK cw 1 Cell.dflt := ⟨⟨' ', rfl, by decide, by decide, h1⟩, rfl⟩
  by_cases hx : x < row.length
  · have hc := List.all_eq_true.mp h x (List.mem_range.mpr hx)
    simp only [wrowAtB, Bool.and_eq_true, Bool.or_eq_true, Bool.not_eq_true', decide_eq_false_iff_not,
      decide_eq_true_eq] at hc
    obtain ⟨⟨a, b⟩, c⟩ := hc
    refine ⟨?_, ?_, ?_⟩
    · rcases a with (a | a) | a
      · exact Or.inl (head_of_check cw 1 _ a)
      · exact Or.inr (Or.inl (head_of_check cw 2 _ a))
      · exact Or.inr (Or.inr ((cont_iff_check _).mp a))
    · intro h2
      rcases b with b | b
      · exact absurd h2.2 b
      · exact (cont_iff_check _).mp b
    · intro hcn
      rcases c with c | c
      · have := (cont_iff_check _).mpr hcn; rw [this] at c; cases c
      · exact ⟨c.1, head_of_check cw 2 _ c.2⟩
  · have hd : cellAt row x = Cell.dflt := by unfold cellAt; exact getD_ge _ _ _ (by omega)
    have hd1 : cellAt row (x + 1) = Cell.dflt := by unfold cellAt; exact getD_ge _ _ _ (by omega)
    rw [hd]
    refine ⟨Or.inl hdf, ?_, ?_⟩
    · intro h2; exact absurd h2.2 (by simp [Cell.dflt])
    · intro hcn; exact absurd hcn.1 (by simp [Cell.dflt])

theorem wrows_of_check (h1 : cw ' ' = 1) (s : Screen)
    (h : s.rows.all (fun row => (List.range row.length).all (wrowAtB cw row)) = true) : WRows cw s := by
  intro y
  unfold Screen.row
  by_cases hy : y < s.rows.length
  · rw [getD_lt _ _ _ hy]
    exact wrow_of_check cw h1 _ (List.all_eq_true.mp h _ (List.getElem_mem hy))
  · rw [getD_ge _ _ _ (by omega)]
    exact wrow_nil cw h1

/-- wide characters only in columns `< w - 1`, checked on the listed cells -/
theorem nostraddle_of_check (e : Env) (s : Screen)
    (h : s.rows.all (fun row => (List.range row.length).all
      (fun c => !(decide ((cellAt row c).width = 2)) || decide (c + 2 ≤ e.w))) = true) :
    NoStraddle cw e s := by
  intro y c _ hh
  unfold Screen.row at hh
  by_cases hy : y < s.rows.length
  · rw [getD_lt _ _ _ hy] at hh
    by_cases hc : c < (s.rows[y]).length
    · have := List.all_eq_true.mp (List.all_eq_true.mp h _ (List.getElem_mem hy)) c (List.mem_range.mpr hc)
      simp only [Bool.or_eq_true, Bool.not_eq_true', decide_eq_false_iff_not, decide_eq_true_eq] at this
      rcases this with h | h
      · exact absurd hh.2 h
      · exact h
    · have hd : cellAt (s.rows[y]) c = Cell.dflt := by unfold cellAt; exact getD_ge _ _ _ (by omega)
      rw [hd] at hh; exact absurd hh.2 (by simp [Cell.dflt])
  · rw [getD_ge _ _ _ (by omega)] at hh
    have hd : cellAt [] c = Cell.dflt := by simp [cellAt, List.getD]
    rw [hd] at hh; exact absurd hh.2 (by simp [Cell.dflt])

/-- `a世b` and, after it, `世ab`: the wide character moves one column to the left, so one half of the
    old one is overwritten by a narrow character and the other half by the new wide character -/
def exW1 : Screen := ⟨[[⟨['a'], 0, 1⟩, ⟨['世'], 0, 2⟩, ⟨[], 0, 0⟩, ⟨['b'], 2, 1⟩]], [], 1, ⟨4, 0⟩, true⟩
def exW2 : Screen := ⟨[[⟨['世'], 0, 2⟩, ⟨[], 0, 0⟩, ⟨['a'], 0, 1⟩, ⟨['b'], 2, 1⟩]], [], 1, ⟨4, 0⟩, true⟩

theorem exEnvWOk : EnvOk exEnvW := ⟨rfl, (exEnvOk 0 8).enc⟩

theorem exW1_ok : DiffOkW cwx exEnvW exW1 ⟨0, 0⟩ none none false 0 exTW :=
  ⟨rfl, exEnvWOk, wrows_of_check cwx rfl _ (by decide), nostraddle_of_check cwx _ _ (by decide),
   by unfold WF; decide, ⟨rfl, by decide, rfl, rfl, by decide, (fun _ h => by cases h), rfl⟩,
   (fun ps h => by cases h), by decide, by decide, by decide⟩

/-- `diff_correct_wide` is not vacuous: first render of `exW1`, then the incremental render of `exW2` -/
example : RenderedW exEnvW
    (exec cwx (exec cwx exTW (diff exEnvW exW1 ⟨0, 0⟩ none none false 0).cmds)
      (diff exEnvW exW2 ⟨4, 0⟩ (some exW1) none false 6).cmds) exW2 := by
  have r1 := diff_correct_wide cwx exEnvW exW1 ⟨0, 0⟩ none none 0 exTW exW1_ok
  apply diff_correct_wide
  refine ⟨rfl, exEnvWOk, wrows_of_check cwx rfl _ (by decide), nostraddle_of_check cwx _ _ (by decide),
    by unfold WF; decide, ⟨r1.w, by decide, r1.row, by rw [r1.col]; decide, by rw [r1.row]; decide, ?_, r1.sgr⟩,
    ?_, by decide, by decide, by decide⟩
  · intro h; cases h
  · intro ps hps _
    cases hps
    exact ⟨r1.shows, wrows_of_check cwx rfl _ (by decide), by unfold WF; decide⟩

/-- … and the model computes the same: `世` on columns 0–1, `a` on column 2; the differ did not repaint
    (no erase-down) -/
example :
    (exec cwx (exec cwx exTW (diff exEnvW exW1 ⟨0, 0⟩ none none false 0).cmds)
      (diff exEnvW exW2 ⟨4, 0⟩ (some exW1) none false 6).cmds).cells 0 0 = ⟨['世'], Attrs.dflt⟩ ∧
    (exec cwx (exec cwx exTW (diff exEnvW exW1 ⟨0, 0⟩ none none false 0).cmds)
      (diff exEnvW exW2 ⟨4, 0⟩ (some exW1) none false 6).cmds).cells 0 1 = ⟨[], Attrs.dflt⟩ ∧
    (exec cwx (exec cwx exTW (diff exEnvW exW1 ⟨0, 0⟩ none none false 0).cmds)
      (diff exEnvW exW2 ⟨4, 0⟩ (some exW1) none false 6).cmds).cells 0 2 = ⟨['a'], Attrs.dflt⟩ ∧
    Cmd.eraseDown ∉ (diff exEnvW exW2 ⟨4, 0⟩ (some exW1) none false 6).cmds := by
  decide

/-! ### sequences of screens with wide characters -/

theorem fitRow_of_wrow (e : Env) (row : List Cell) (hw : WRow cw row)
    (hns : ∀ c, c < e.w → HeadK cw 2 (cellAt row c) → c + 2 ≤ e.w) :
    ∀ fuel c, ¬ ContCell (cellAt row c) → FitRow cw e.w row (lineLen e row) fuel c := by
  intro fuel
  induction fuel with
  | zero => intro c _; trivial
  | succ fuel ih =>
    intro c hnc hc
    have hend := stride_end cw e row hw hns c hc
    have hle := lineLen_le e row
    rcases (hw c).1 with h | h | h
    · exact ⟨cellOk_of_head cw 1 (Or.inl rfl) _ h, by omega,
        by rw [h.2]; exact ih (c + 1) (next_not_cont cw row hw c 1 (Or.inl rfl) h)⟩
    · exact ⟨cellOk_of_head cw 2 (Or.inr rfl) _ h, by omega,
        by rw [h.2]; exact ih (c + 2) (next_not_cont cw row hw c 2 (Or.inr rfl) h)⟩
    · exact absurd h hnc

theorem fitScreen_of_wrows (e : Env) (s : Screen) (hw : WRows cw s) (hns : NoStraddle cw e s) :
    FitScreen cw e s :=
  fun y => fitRow_of_wrow cw e (s.row y) (hw y) (hns y) _ 0 (not_cont_zero cw _ (hw y))

/-- per-operation side conditions: well-formed rows with wide characters -/
def OpOkWW (e : Env) (R : RState) (T : Term) : ROp → Prop
  | .render s _ _ _ _ => WRows cw s ∧ NoStraddle cw e s ∧ WF s ∧ s.cursor.x < e.w ∧ s.cursor.y < T.h ∧
      min (max s.height (prevHeight R.lastScreen)) e.h ≤ T.h
  | .finish s _ _ _ _ => WRows cw s ∧ NoStraddle cw e s ∧ WF s ∧ min s.height e.h < T.h ∧
      min (max s.height (prevHeight R.lastScreen)) e.h ≤ T.h
  | .erase _ => True
  | .clear => True

def RunOkWW (e : Env) : RState → Term → List ROp → Prop
  | _, _, [] => True
  | R, T, op :: ops => OpOkWW cw e R T op ∧ RunOkWW e (stepR cw e R T op).1 (stepR cw e R T op).2 ops

theorem opOkW_of_WW (e : Env) (R : RState) (T : Term) (op : ROp) (h : OpOkWW cw e R T op) :
    OpOkW cw e R T op := by
  cases op with
  | render s m k d sh => exact ⟨fitScreen_of_wrows cw (envFor e k d) s h.1 h.2.1, h.2.2.2.1, h.2.2.2.2.1, h.2.2.2.2.2⟩
  | finish s m k d sh => exact ⟨fitScreen_of_wrows cw (envFor e k d) s h.1 h.2.1, h.2.2.2.1, h.2.2.2.2⟩
  | erase la => trivial
  | clear => trivial

/-- the renderer invariant for screens with wide characters -/
structure RInvW (e : Env) (R : RState) (T : Term) : Prop where
  geo : RGeo e R T
  shown : ∀ ps, R.lastScreen = some ps → ∃ k d, R.styleKey = some k ∧ R.lastDepth = some d ∧
    ShowsW (envFor e k d) T ps ∧ WRows cw ps ∧ WF ps ∧ R.lastSize = some (e.h, e.w)

theorem stepR_invW (e : Env) (h1 : cw ' ' = 1) (hdef : ∀ k d, EnvOk (envFor e k d))
    (R : RState) (T : Term) (op : ROp) (inv : RInvW cw e R T) (ok : OpOkWW cw e R T op) :
    RInvW cw e (stepR cw e R T op).1 (stepR cw e R T op).2 ∧
    (stepR cw e R T op).2.scrolled = T.scrolled ∧ (stepR cw e R T op).2.oob = T.oob := by
  obtain ⟨g1, g2, g3⟩ := stepR_geo cw e R T op inv.geo (opOkW_of_WW cw e R T op ok)
  refine ⟨⟨g1, ?_⟩, g2, g3⟩
  cases op with
  | render s m k d sh =>
    obtain ⟨hwn, hns, wfs, hcx, hcy, hfit⟩ := ok
    have dok : DiffOkW cw (envFor e k d) s R.pos (R.prevFor (envFor e k d) k) R.lastStyle false R.prevWidth T := by
      refine ⟨h1, hdef k d, hwn, hns, wfs, pre_of_rgeo (envFor e k d) R T k (rgeo_env e R T k d inv.geo), ?_, ?_,
        (by have := inv.geo.tot; simp only [envFor_h]; omega), by simpa using hcy⟩
      · intro ps hps _
        obtain ⟨hl, hk, hd⟩ := prevFor_some (envFor e k d) R k ps hps
        obtain ⟨k', d', hk', hd', a, b, c, _⟩ := inv.shown ps hl
        rw [hk] at hk'; rw [hd] at hd'
        cases hk'; cases hd'
        exact ⟨a, b, c⟩
      · have := prevHeight_prevFor (envFor e k d) R k; simp only [envFor_h]; omega
    have rd := diff_correct_wide cw (envFor e k d) s R.pos (R.prevFor (envFor e k d) k) R.lastStyle R.prevWidth T dok
    obtain ⟨a, b, ha, hb, hc⟩ := render_cmds (envFor e k d) R s false m k sh
    have hT : (stepR cw e R T (.render s m k d sh)).2 =
        exec cw T (diff (envFor e k d) s R.pos (R.prevFor (envFor e k d) k) R.lastStyle false R.prevWidth).cmds := by
      simp only [stepR, hc, Bool.false_eq_true, if_false, List.append_nil]
      rw [exec_append, exec_inert cw T a ha, exec_append, exec_inert cw _ b hb]
    have hR : (stepR cw e R T (.render s m k d sh)).1 =
        R.rendered (envFor e k d) s m k sh (diff (envFor e k d) s R.pos (R.prevFor (envFor e k d) k) R.lastStyle false R.prevWidth) := by
      simp [stepR, RState.render]
    rw [hT, hR]
    intro ps hps
    simp only [RState.rendered, Option.some.injEq] at hps
    subst hps
    exact ⟨k, d, rfl, rfl, rd.shows, hwn, wfs, rfl⟩
  | finish s m k d sh =>
    have hR : (stepR cw e R T (.finish s m k d sh)).1 =
        ((R.rendered (envFor e k d) s m k sh (diff (envFor e k d) s R.pos (R.prevFor (envFor e k d) k) R.lastStyle true R.prevWidth)).reset
          false true).1 := by
      simp [stepR, RState.render]
    rw [hR]
    intro ps hps
    rw [(reset_state _ false true).2.1] at hps; cases hps
  | erase la =>
    have hR : (stepR cw e R T (.erase la)).1 = (R.reset false la).1 := rfl
    rw [hR]
    intro ps hps
    rw [(reset_state _ false la).2.1] at hps; cases hps
  | clear =>
    have hR : (stepR cw e R T .clear).1 = (R.reset false true).1 := rfl
    rw [hR]
    intro ps hps
    rw [(reset_state _ false true).2.1] at hps; cases hps

/-- **render_seq_wide** — `render_seq` for screens with wide characters: over any sequence of renders,
    done-renders, erases and clears the terminal shows `_last_screen` (wide characters on their two
    columns), the cursor is at `_cursor_pos`, attributes are reset; nothing scrolls and no cursor motion
    passes the margins. -/
theorem render_seq_wide (e : Env) (h1 : cw ' ' = 1) (hdef : ∀ k d, EnvOk (envFor e k d)) :
    ∀ (ops : List ROp) (R : RState) (T : Term), RInvW cw e R T → RunOkWW cw e R T ops →
      RInvW cw e (runR cw e R T ops).1 (runR cw e R T ops).2 ∧
      (runR cw e R T ops).2.scrolled = T.scrolled ∧ (runR cw e R T ops).2.oob = T.oob := by
  intro ops
  induction ops with
  | nil => intro R T inv _; exact ⟨inv, rfl, rfl⟩
  | cons op ops ih =>
    intro R T inv ok
    obtain ⟨s1, s2, s3⟩ := stepR_invW cw e h1 hdef R T op inv ok.1
    obtain ⟨i1, i2, i3⟩ := ih _ _ s1 ok.2
    exact ⟨i1, i2.trans s2, i3.trans s3⟩

theorem runOkWW_append (e : Env) : ∀ (a b : List ROp) (R : RState) (T : Term),
    RunOkWW cw e R T (a ++ b) →
      RunOkWW cw e R T a ∧ RunOkWW cw e (runR cw e R T a).1 (runR cw e R T a).2 b := by
  intro a
  induction a with
  | nil => intro b R T h; exact ⟨trivial, h⟩
  | cons op a ih =>
    intro b R T h
    obtain ⟨h1, h2⟩ := h
    obtain ⟨i1, i2⟩ := ih b _ _ h2
    exact ⟨⟨h1, i1⟩, i2⟩

/-- **incremental_eq_scratch_wide** — after any sequence of operations ending with a render of `s` (screens
    with wide characters), the owned rows are visibly identical to those of a terminal of the same geometry
    with arbitrary previous contents on which `s` is drawn from scratch. -/
theorem incremental_eq_scratch_wide (e : Env) (h1 : cw ' ' = 1) (hdef : ∀ k d, EnvOk (envFor e k d))
    (ops : List ROp) (R : RState) (T : Term) (s : Screen) (m : Bool) (k d sh : Nat)
    (inv : RInvW cw e R T) (ok : RunOkWW cw e R T (ops ++ [.render s m k d sh]))
    (junk : Nat → Nat → TCell) :
    ∀ y x, y < (runR cw e R T (ops ++ [.render s m k d sh])).2.h → x < e.w →
      ((runR cw e R T (ops ++ [.render s m k d sh])).2.cells y x).norm =
      ((exec cw (Term.fresh e.w (runR cw e R T (ops ++ [.render s m k d sh])).2.h 0 junk)
          (diff (envFor e k d) s ⟨0, 0⟩ none none false 0).cmds).cells y x).norm := by
  obtain ⟨o1, o2⟩ := runOkWW_append cw e ops _ R T ok
  obtain ⟨invF, _, _⟩ := render_seq_wide cw e h1 hdef _ R T inv ok
  obtain ⟨inv', _, _⟩ := render_seq_wide cw e h1 hdef ops R T inv o1
  obtain ⟨hwn, hns, wfs, hcx, hcy, hfit⟩ := o2.1
  -- the final terminal shows `s`
  have hlast : (runR cw e R T (ops ++ [.render s m k d sh])).1.lastScreen = some s := by
    rw [runR_append]
    simp [runR, stepR, RState.render, RState.rendered]
  have hkd : (runR cw e R T (ops ++ [.render s m k d sh])).1.styleKey = some k ∧
      (runR cw e R T (ops ++ [.render s m k d sh])).1.lastDepth = some d := by
    rw [runR_append]
    simp [runR, stepR, RState.render, RState.rendered, envFor]
  obtain ⟨kF, dF, hkF, hdF, shF, _, _, _⟩ := invF.shown s hlast
  rw [hkd.1] at hkF; rw [hkd.2] at hdF
  cases hkF; cases hdF
  -- geometry of the last step
  have hh : (runR cw e R T (ops ++ [.render s m k d sh])).2.h = (runR cw e R T ops).2.h := by
    rw [runR_append]
    obtain ⟨a, b, ha, hb, hc⟩ := render_cmds (envFor e k d) (runR cw e R T ops).1 s false m k sh
    show (exec cw _ ((runR cw e R T ops).1.render (envFor e k d) s false m k sh).2).h = _
    rw [hc]
    simp only [Bool.false_eq_true, if_false, List.append_nil]
    rw [exec_append, exec_inert cw _ a ha, exec_append, exec_inert cw _ b hb]
    have pre := pre_of_rgeo (envFor e k d) (runR cw e R T ops).1 (runR cw e R T ops).2 k (rgeo_env e _ _ k d inv'.geo)
    have := prevHeight_prevFor (envFor e k d) (runR cw e R T ops).1 k
    exact (diff_geo cw (envFor e k d) s _ _ _ false _ _ (fitScreen_of_wrows cw (envFor e k d) s hwn hns) pre (by simp only [envFor_h]; omega)
      (by simpa using hcy)).2.2.2.2.2.2.2.h
  generalize (runR cw e R T (ops ++ [.render s m k d sh])).2 = Ti at *
  have dok0 : DiffOkW cw (envFor e k d) s ⟨0, 0⟩ none none false 0 (Term.fresh e.w Ti.h 0 junk) := by
    refine ⟨h1, hdef k d, hwn, hns, wfs, ⟨rfl, invF.geo.wpos, rfl, by simp [Term.fresh], ?_, ?_, rfl⟩, ?_, ?_, ?_, ?_⟩
    · have := invF.geo.rowlt; simp only [Term.fresh]; omega
    · intro _ h; cases h
    · intro ps h; cases h
    · simp only [Term.fresh, prevHeight, envFor_h]; rw [hh]
      have : prevHeight (runR cw e R T ops).1.lastScreen ≥ 0 := Nat.zero_le _
      omega
    · simp only [Term.fresh, envFor_h]; have := invF.geo.tot; omega
    · simp only [Term.fresh, Bool.false_eq_true, if_false]; rw [hh]; exact hcy
  have rs := diff_correct_wide cw (envFor e k d) s ⟨0, 0⟩ none none 0 _ dok0
  have hsame := (diff_masterW cw (envFor e k d) s ⟨0, 0⟩ none none false 0 _ dok0).2.2.2.2.2.2.2.2
  intro y x hy hx
  rw [shF y x hy hx, rs.shows y x (by rw [hsame.h]; exact hy) hx]
end Ptk.C06
