/-
  C03 — keys with data: the prefix-of-longer-match cache is a pure memo; the meta prefix
  (ESC + character = two presses), raw characters and control characters inside a stream.
-/
import Ptk.Props.C03Refine
namespace Ptk.C03
open Ptk.Py

/-! ### `_IS_PREFIX_OF_LONGER_MATCH_CACHE` is a pure memo of the prefix predicate -/

/-- every stored answer is the predicate's -/
def PCache.Sound (cfg : Cfg) (c : PCache) : Prop := ∀ kv ∈ c, kv.2 = isPrefixOfLonger cfg kv.1

theorem PCache.sound_nil (cfg : Cfg) : PCache.Sound cfg [] := by intro kv h; cases h

/-- one lookup: the answer is the predicate's, the dict stays sound, the prefix is stored now -/
theorem PCache.lookup_spec (cfg : Cfg) (c : PCache) (p : Text) (hc : PCache.Sound cfg c) :
    (PCache.lookup cfg c p).1 = isPrefixOfLonger cfg p ∧ PCache.Sound cfg (PCache.lookup cfg c p).2 ∧
    (∃ b, (p, b) ∈ (PCache.lookup cfg c p).2) := by
  unfold PCache.lookup
  cases hf : c.find? (fun kv => kv.1 == p) with
  | some kv =>
    have hm := List.mem_of_find?_eq_some hf
    have hk := List.find?_some hf
    simp only [beq_iff_eq] at hk
    refine ⟨by rw [← hk]; exact hc kv hm, hc, kv.2, ?_⟩
    rw [← hk]; exact hm
  | none =>
    refine ⟨rfl, ?_, _, List.mem_cons_self⟩
    intro kv hkv
    rcases List.mem_cons.1 hkv with rfl | h
    · rfl
    · exact hc kv h

/-- **The cache is a pure memo**: whatever prefixes are looked up, in whatever order and however
    often, every answer is exactly `isPrefixOfLonger` of that prefix (what `__missing__` computes),
    so the parser model may call the predicate directly. -/
theorem PCache.lookups_pure (cfg : Cfg) (c : PCache) (hc : PCache.Sound cfg c) (ps : List Text) :
    (PCache.lookups cfg c ps).1 = ps.map (isPrefixOfLonger cfg) ∧
    PCache.Sound cfg (PCache.lookups cfg c ps).2 := by
  induction ps generalizing c with
  | nil => exact ⟨rfl, hc⟩
  | cons p r ih =>
    obtain ⟨h1, h2, _⟩ := PCache.lookup_spec cfg c p hc
    obtain ⟨h3, h4⟩ := ih _ h2
    simp only [PCache.lookups, List.map_cons]
    exact ⟨by rw [h1, h3], h4⟩

/-- a repeated lookup is answered from the dict, which does not grow -/
theorem PCache.lookup_hit (cfg : Cfg) (c : PCache) (p : Text) :
    (PCache.lookup cfg (PCache.lookup cfg c p).2 p).2 = (PCache.lookup cfg c p).2 := by
  unfold PCache.lookup
  cases hf : c.find? (fun kv => kv.1 == p) with
  | some kv => simp [hf]
  | none => simp

example : (PCache.lookups genCfg [] [[ESC], [ESC, '['], [ESC], ['a'], [ESC, '[']]).1 = [true, true, true, false, true]
    ∧ (PCache.lookups genCfg [] [[ESC], [ESC, '['], [ESC], ['a'], [ESC, '[']]).2.length = 3 := by decide +kernel

/-! ### the meta prefix and raw characters, in a stream -/

/-- **ESC + a character that starts no sequence = two key presses**: when `ESC c` is neither a
    sequence nor the beginning of one, the longest recognised prefix of `ESC c …` is the ESC alone
    (so the stream decodes to `escape`, then whatever `c …` decodes to — the "meta prefix"). -/
theorem lm_esc_char {cfg : Cfg} (h2 : WF2 cfg) (c : Char) (rest : Text)
    (hesc : getMatch cfg [ESC] ≠ []) (hnh : isPrefixOfLonger cfg [ESC, c] = false)
    (hnm : getMatch cfg [ESC, c] = []) : lm cfg (ESC :: c :: rest) = 1 := by
  apply lm_eq
  · simp
  · intro _; simpa using hesc
  · intro j h1 hj
    by_cases hj2 : j = 2
    · subst hj2; simpa using hnm
    · exact no_match_beyond h2 (q := [ESC, c]) (r := rest) hnh (by simp) (by simp; omega) hj

theorem tokenize_esc_char {cfg : Cfg} (h : WF cfg) (h2 : WF2 cfg) (c : Char) (rest : Text)
    (hesc : getMatch cfg [ESC] ≠ []) (hnh : isPrefixOfLonger cfg [ESC, c] = false)
    (hnm : getMatch cfg [ESC, c] = []) :
    tokenize cfg none (ESC :: c :: rest) =
      Decoded.cons (presses (getMatch cfg [ESC]) [ESC]) (tokenize cfg none (c :: rest)) := by
  have hl := lm_esc_char h2 c rest hesc hnh hnm
  have hnp := (pasteStart_match h hesc (by decide)).2
  rw [tokenize_token cfg _ (by rw [hl]; decide) (by rw [hl]; simpa using hnp), hl]
  simp

/-- **a character that is no sequence and no ESC is one raw key press carrying itself** (`Keys.Any`
    for the key bindings), wherever it stands in the stream -/
theorem tokenize_raw_char {cfg : Cfg} (h2 : WF2 cfg) (c : Char) (rest : Text) (hc : c ≠ ESC)
    (hnm : getMatch cfg [c] = []) :
    tokenize cfg none (c :: rest) =
      Decoded.cons [⟨String.singleton c, [c]⟩] (tokenize cfg none rest) := by
  apply tokenize_raw
  apply lm_eq
  · simp
  · intro hh; exact absurd rfl hh
  · intro j h1 hj
    cases hm : getMatch cfg ((c :: rest).take j) with
    | nil => rfl
    | cons a as =>
      by_cases hj1 : j = 1
      · subst hj1; rw [List.take_succ_cons, List.take_zero, hnm] at hm; cases hm
      · obtain ⟨t, ht⟩ := match_head h2 (p := (c :: rest).take j) (by rw [hm]; simp)
          (by rw [List.length_take]; omega)
        obtain ⟨j', rfl⟩ : ∃ j', j = j' + 1 := ⟨j - 1, by omega⟩
        rw [List.take_succ_cons] at ht
        simp only [List.cons.injEq] at ht
        exact absurd ht.1 hc

/-- a single-character sequence (a control character) that is not ESC: one press, at once -/
theorem tokenize_ctrl_char {cfg : Cfg} (h : WF cfg) (h2 : WF2 cfg) (c : Char) (rest : Text) (hc : c ≠ ESC)
    (hm : getMatch cfg [c] ≠ []) :
    tokenize cfg none (c :: rest) =
      Decoded.cons (presses (getMatch cfg [c]) [c]) (tokenize cfg none rest) := by
  have hl : lm cfg (c :: rest) = 1 := by
    apply lm_eq
    · simp
    · intro _; simpa using hm
    · intro j h1 hj
      cases hm' : getMatch cfg ((c :: rest).take j) with
      | nil => rfl
      | cons a as =>
        obtain ⟨t, ht⟩ := match_head h2 (p := (c :: rest).take j) (by rw [hm']; simp)
          (by rw [List.length_take]; omega)
        obtain ⟨j', rfl⟩ : ∃ j', j = j' + 1 := ⟨j - 1, by omega⟩
        rw [List.take_succ_cons] at ht
        simp only [List.cons.injEq] at ht
        exact absurd ht.1 hc
  have hnp := (pasteStart_match h hm (by simp [pasteStart])).2
  rw [tokenize_token cfg _ (by rw [hl]; decide) (by rw [hl]; simpa using hnp), hl]
  simp

end Ptk.C03
