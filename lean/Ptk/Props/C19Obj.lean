/-
  C19 — style objects: `merge_styles` / `DynamicStyle` / `DummyStyle` resolve through the rule lists,
  `invalidation_hash` determines the rule list (for objects built by the API, with `id()` unique
  among the `Style` objects that are alive), hence the one-entry cache of `_MergedStyle` is
  transparent, and the application's style stack is defaults ++ pygments ++ user.
-/
import Ptk.Model.C19Obj
import Ptk.Props.C19Cascade
namespace Ptk.C19
open Ptk.Py

/-! ### rule lists -/

theorem rulesOfList_eq (ps : List SObj) : rulesOfList ps = (ps.map rulesOf).flatten := by
  induction ps with
  | nil => simp [rulesOfList]
  | cons p ps ih => simp [rulesOfList, ih]

theorem hashOfList_eq (ps : List SObj) : hashOfList ps = ps.map hashOf := by
  induction ps with
  | nil => simp [hashOfList]
  | cons p ps ih => simp [hashOfList, ih]

theorem rulesOfList_append (a b : List SObj) : rulesOfList (a ++ b) = rulesOfList a ++ rulesOfList b := by
  simp [rulesOfList_eq]

/-- **C19-q (`merge_styles` over any objects).**  The rule list of `merge_styles(l)` is the in-order
    concatenation of the rule lists of the entries that are not None — whatever they are (sheets,
    `DummyStyle` = no rules, `DynamicStyle` = the rules of what it returns now, nested merges). -/
theorem rulesOf_mergeStyles (l : List (Option SObj)) :
    rulesOf (mergeStyles l) = ((l.filterMap id).map rulesOf).flatten := by
  simp [mergeStyles, rulesOf, rulesOfList_eq]

/-- a query against a merged object is the cascade over ONE sheet with these rules -/
theorem queryObj_merged (T : Tables) (sp rsp : Char → Bool) (ps : List SObj) (s : Text) (d : Attrs) :
    queryObj T sp rsp (.merged ps) s d = cascade T sp rsp ((ps.map rulesOf).flatten) s d := by
  simp [queryObj, rulesOfList_eq]

/-- `DynamicStyle`: behaves as the style it returns now; as `DummyStyle` when it returns None -/
theorem queryObj_dyn (T : Tables) (sp rsp : Char → Bool) (o : SObj) (s : Text) (d : Attrs) :
    queryObj T sp rsp (.dyn o) s d = queryObj T sp rsp o s d ∧
    queryObj T sp rsp .dynNone s d = queryObj T sp rsp .dummy s d ∧
    rulesOf (.dyn o) = rulesOf o ∧ hashOf (.dyn o) = hashOf o ∧
    rulesOf .dynNone = rulesOf .dummy ∧ hashOf .dynNone = hashOf .dummy := by
  simp [queryObj, rulesOf, hashOf]

/-- inside a merge a `DummyStyle` / a `DynamicStyle` returning None is the empty sheet, and a
    `DynamicStyle` can be replaced by what it returns -/
theorem merged_dyn_transparent (T : Tables) (sp rsp : Char → Bool) (a b : List SObj) (o : SObj)
    (s : Text) (d : Attrs) :
    queryObj T sp rsp (.merged (a ++ .dyn o :: b)) s d = queryObj T sp rsp (.merged (a ++ o :: b)) s d ∧
    queryObj T sp rsp (.merged (a ++ .dynNone :: b)) s d = queryObj T sp rsp (.merged (a ++ b)) s d ∧
    queryObj T sp rsp (.merged (a ++ .dummy :: b)) s d = queryObj T sp rsp (.merged (a ++ b)) s d := by
  simp [queryObj, rulesOfList_append, rulesOfList, rulesOf]

/-! ### invalidation hash -/

mutual
theorem H.beq_refl : ∀ h : H, H.beq h h = true
  | .id n => by simp [H.beq]
  | .one => by simp [H.beq]
  | .tup l => by simp [H.beq, H.beqList_refl l]
theorem H.beqList_refl : ∀ l : List H, H.beqList l l = true
  | [] => by simp [H.beqList]
  | x :: xs => by simp [H.beqList, H.beq_refl x, H.beqList_refl xs]
end

mutual
theorem H.eq_of_beq : ∀ a b : H, H.beq a b = true → a = b
  | .id n, .id m, h => by simp [H.beq] at h; rw [h]
  | .id _, .one, h => by simp [H.beq] at h
  | .id _, .tup _, h => by simp [H.beq] at h
  | .one, .one, _ => rfl
  | .one, .id _, h => by simp [H.beq] at h
  | .one, .tup _, h => by simp [H.beq] at h
  | .tup a, .tup b, h => by
      simp only [H.beq] at h
      rw [H.eqList_of_beq a b h]
  | .tup _, .id _, h => by simp [H.beq] at h
  | .tup _, .one, h => by simp [H.beq] at h
theorem H.eqList_of_beq : ∀ a b : List H, H.beqList a b = true → a = b
  | [], [], _ => rfl
  | [], _ :: _, h => by simp [H.beqList] at h
  | _ :: _, [], h => by simp [H.beqList] at h
  | x :: xs, y :: ys, h => by
      simp only [H.beqList, Bool.and_eq_true] at h
      rw [H.eq_of_beq x y h.1, H.eqList_of_beq xs ys h.2]
end

theorem H.beq_iff (a b : H) : H.beq a b = true ↔ a = b :=
  ⟨H.eq_of_beq a b, fun h => h ▸ H.beq_refl a⟩

mutual
/-- every `Style` object of the snapshot is the one the environment knows under that identity
    (`id()` is unique among live objects, and `class_names_and_attrs` is never reassigned) -/
def IdOk (env : Nat → List RawRule) : SObj → Prop
  | .sheet i r => env i = r
  | .dummy => True
  | .dynNone => True
  | .dyn o => IdOk env o
  | .merged ps => IdOkList env ps
def IdOkList (env : Nat → List RawRule) : List SObj → Prop
  | [] => True
  | p :: ps => IdOk env p ∧ IdOkList env ps
end

theorem rules_of_hash_id (env : Nat → List RawRule) (i : Nat) :
    ∀ o : SObj, IdOk env o → hashOf o = .id i → rulesOf o = env i
  | .sheet j r, hok, h => by
      simp only [hashOf, H.id.injEq] at h
      simp only [IdOk] at hok
      simp [rulesOf, ← h, hok]
  | .dummy, _, h => by simp [hashOf] at h
  | .dynNone, _, h => by simp [hashOf] at h
  | .dyn o, hok, h => by
      simp only [IdOk] at hok
      simp only [hashOf] at h
      simpa [rulesOf] using rules_of_hash_id env i o hok h
  | .merged _, _, h => by simp [hashOf] at h

theorem rules_of_hash_one : ∀ o : SObj, hashOf o = .one → rulesOf o = []
  | .sheet _ _, h => by simp [hashOf] at h
  | .dummy, _ => by simp [rulesOf]
  | .dynNone, _ => by simp [rulesOf]
  | .dyn o, h => by
      simp only [hashOf] at h
      simpa [rulesOf] using rules_of_hash_one o h
  | .merged _, h => by simp [hashOf] at h

theorem hash_tup_inv (env : Nat → List RawRule) (hs : List H) :
    ∀ o : SObj, IdOk env o → hashOf o = .tup hs →
      ∃ qs, rulesOf o = rulesOfList qs ∧ hashOfList qs = hs ∧ IdOkList env qs
  | .sheet _ _, _, h => by simp [hashOf] at h
  | .dummy, _, h => by simp [hashOf] at h
  | .dynNone, _, h => by simp [hashOf] at h
  | .dyn o, hok, h => by
      simp only [IdOk] at hok
      simp only [hashOf] at h
      simpa [rulesOf] using hash_tup_inv env hs o hok h
  | .merged qs, hok, h => by
      simp only [IdOk] at hok
      simp only [hashOf, H.tup.injEq] at h
      exact ⟨qs, by simp [rulesOf], h, hok⟩

mutual
/-- **C19-r (equal invalidation hash ⇒ equal rules).**  Two style objects built from the API classes
    (`Style`, `DummyStyle`, `DynamicStyle`, `merge_styles`) whose `invalidation_hash()` agree have the
    same `style_rules` — provided an identity stands for one `Style` object (`IdOk`). -/
theorem hash_determines_rules (env : Nat → List RawRule) :
    ∀ o1 o2 : SObj, IdOk env o1 → IdOk env o2 → hashOf o1 = hashOf o2 → rulesOf o1 = rulesOf o2
  | .sheet i r, o2, h1, h2, h => by
      simp only [IdOk] at h1
      simp only [hashOf] at h
      rw [rules_of_hash_id env i o2 h2 h.symm]
      simp [rulesOf, h1]
  | .dummy, o2, _, _, h => by
      simp only [hashOf] at h
      rw [rules_of_hash_one o2 h.symm]; simp [rulesOf]
  | .dynNone, o2, _, _, h => by
      simp only [hashOf] at h
      rw [rules_of_hash_one o2 h.symm]; simp [rulesOf]
  | .dyn o, o2, h1, h2, h => by
      simp only [IdOk] at h1
      simp only [hashOf] at h
      simpa [rulesOf] using hash_determines_rules env o o2 h1 h2 h
  | .merged ps, o2, h1, h2, h => by
      simp only [IdOk] at h1
      simp only [hashOf] at h
      obtain ⟨qs, hr, hh, hok⟩ := hash_tup_inv env (hashOfList ps) o2 h2 h.symm
      rw [hr]
      simpa [rulesOf] using hash_determines_rulesList env ps qs h1 hok hh.symm
theorem hash_determines_rulesList (env : Nat → List RawRule) :
    ∀ ps qs : List SObj, IdOkList env ps → IdOkList env qs → hashOfList ps = hashOfList qs →
      rulesOfList ps = rulesOfList qs
  | [], [], _, _, _ => rfl
  | [], _ :: _, _, _, h => by simp [hashOfList] at h
  | _ :: _, [], _, _, h => by simp [hashOfList] at h
  | p :: ps, q :: qs, h1, h2, h => by
      simp only [IdOkList] at h1 h2
      simp only [hashOfList, List.cons.injEq] at h
      simp only [rulesOfList]
      rw [hash_determines_rules env p q h1.1 h2.1 h.1, hash_determines_rulesList env ps qs h1.2 h2.2 h.2]
end

/-! ### the cache of `_MergedStyle` -/

/-- one call `merged.get_attrs_for_style_str(s, d)`; `ps` = what `merged.styles` looks like now -/
structure MCall where
  ps : List SObj
  s : Text
  d : Attrs

/-- run a sequence of calls against one `_MergedStyle` object, collecting the answers -/
def runCalls (T : Tables) (sp rsp : Char → Bool) : MCache → List MCall → List (Except Err Attrs)
  | _, [] => []
  | c, call :: rest =>
    let r := mergedQueryCached T sp rsp c call.ps call.s call.d
    r.2 :: runCalls T sp rsp r.1 rest

/-- the cache entry, if any, holds the compiled rules of SOME snapshot with that hash -/
def CacheOk (T : Tables) (sp rsp : Char → Bool) (env : Nat → List RawRule) (c : MCache) : Prop :=
  ∀ k rules, c.entry = some (k, rules) →
    ∃ qs, IdOkList env qs ∧ k = .tup (hashOfList qs) ∧ compile T sp rsp (rulesOfList qs) = .ok rules

theorem mergedQueryCached_spec (T : Tables) (sp rsp : Char → Bool) (env : Nat → List RawRule)
    (c : MCache) (hc : CacheOk T sp rsp env c) (ps : List SObj) (hps : IdOkList env ps) (s : Text) (d : Attrs) :
    (mergedQueryCached T sp rsp c ps s d).2 = queryObj T sp rsp (.merged ps) s d ∧
    CacheOk T sp rsp env (mergedQueryCached T sp rsp c ps s d).1 := by
  have hmiss : (mergedMiss T sp rsp c ps s d).2 = queryObj T sp rsp (.merged ps) s d ∧
      CacheOk T sp rsp env (mergedMiss T sp rsp c ps s d).1 := by
    simp only [queryObj, cascade, mergedMiss]
    cases hcomp : compile T sp rsp (rulesOfList ps) with
    | error e => exact ⟨rfl, hc⟩
    | ok rules =>
      refine ⟨rfl, ?_⟩
      intro k r hk
      simp only [Option.some.injEq, Prod.mk.injEq] at hk
      exact ⟨ps, hps, hk.1.symm, hk.2 ▸ hcomp⟩
  unfold mergedQueryCached
  cases hent : c.entry with
  | none => exact hmiss
  | some kr =>
    obtain ⟨k, rules⟩ := kr
    simp only
    by_cases hk : H.beq k (H.tup (hashOfList ps)) = true
    · rw [if_pos hk]
      refine ⟨?_, hc⟩
      obtain ⟨qs, hqs, hkq, hcomp⟩ := hc k rules hent
      have hkeq := (H.beq_iff _ _).mp hk
      rw [hkq, H.tup.injEq] at hkeq
      have hr := hash_determines_rulesList env qs ps hqs hps hkeq
      simp only [queryObj, cascade, ← hr, hcomp]
      rfl
    · rw [if_neg hk]
      exact hmiss

/-- **C19-s (the merged style's cache is transparent).**  Starting with an empty cache, for ANY
    sequence of calls between which `DynamicStyle`s may return other styles (each call comes with the
    snapshot of the object graph at that moment), every answer is the one a freshly built
    `Style(concatenated rules)` gives: a stale merged `Style` is never used. -/
theorem merged_cache_transparent (T : Tables) (sp rsp : Char → Bool) (env : Nat → List RawRule)
    (calls : List MCall) (hok : ∀ c ∈ calls, IdOkList env c.ps) :
    runCalls T sp rsp {} calls = calls.map fun c => queryObj T sp rsp (.merged c.ps) c.s c.d := by
  have gen : ∀ (calls : List MCall) (c : MCache), CacheOk T sp rsp env c → (∀ x ∈ calls, IdOkList env x.ps) →
      runCalls T sp rsp c calls = calls.map fun x => queryObj T sp rsp (.merged x.ps) x.s x.d := by
    intro calls
    induction calls with
    | nil => intro c _ _; rfl
    | cons x xs ih =>
      intro c hc hall
      obtain ⟨h1, h2⟩ := mergedQueryCached_spec T sp rsp env c hc x.ps (hall x (by simp)) x.s x.d
      simp only [runCalls, List.map_cons]
      rw [h1, ih _ h2 (fun y hy => hall y (by simp [hy]))]
  exact gen calls {} (by intro k r h; simp at h) hok

/-! ### the application's style stack -/

theorem rulesOfList_enumSheets (i : Nat) (l : List (List RawRule)) : rulesOfList (enumSheets i l) = l.flatten := by
  induction l generalizing i with
  | nil => simp [enumSheets, rulesOfList]
  | cons r rs ih => simp [enumSheets, rulesOfList, rulesOf, ih]

/-- **C19-t (`Application._merged_style`).**  The rules the application resolves against are: the three
    default UI sheets, then the default pygments sheet (when enabled), then the user's style — in
    this order, so user rules are LATER in the table. -/
theorem rulesOf_appStyle (ui : List (List RawRule)) (pyg : List RawRule) (inc : Bool) (user : Option SObj) :
    rulesOf (appStyle ui pyg inc user) =
      ui.flatten ++ (if inc then pyg else []) ++ optRules user := by
  cases inc <;> cases user <;> simp [appStyle, rulesOf, rulesOfList, rulesOfList_enumSheets, optRules]

theorem queryObj_appStyle (T : Tables) (sp rsp : Char → Bool) (ui : List (List RawRule)) (pyg : List RawRule)
    (inc : Bool) (user : Option SObj) (s : Text) (d : Attrs) :
    queryObj T sp rsp (appStyle ui pyg inc user) s d =
      cascade T sp rsp (ui.flatten ++ (if inc then pyg else []) ++ optRules user) s d := by
  have := rulesOf_appStyle ui pyg inc user
  unfold appStyle at this ⊢
  simp only [queryObj]
  simp only [rulesOf] at this
  rw [this]

end Ptk.C19
