/-
  C02 — `find` / `find_backwards`: the count-th match (audited module).
-/
import Ptk.Props.C02Extra
namespace Ptk.C02
open Ptk.Py

/-- **the count-th match of `find`, on the document**: `findIn_next` for the text that `find`
    searches (the rest of the line with `in_current_line`, else the rest of the document) -/
theorem find_next (eq : Char → Char → Bool) (d : Doc) (sub : Text) (inLine incl : Bool) (k : Int)
    (hk : 1 ≤ k) (r : Int) (hr : find eq d sub inLine incl k = some r) :
    let text := if inLine = true then lineAfter d else d.after
    (∀ r' : Int, find eq d sub inLine incl (k + 1) = some r' →
        r + stepLen sub ≤ r' ∧
        ∀ q : Nat, r + stepLen sub ≤ q → (q : Int) < r' → matchAt eq sub (text.drop q) = false) ∧
    (find eq d sub inLine incl (k + 1) = none →
        ∀ q : Nat, r + stepLen sub ≤ q → q ≤ text.length → matchAt eq sub (text.drop q) = false) :=
  findIn_next eq _ sub incl k hk r hr
example : find (· == ·) ⟨['x', 'a', 'a', 'a', '\n', 'a', 'a'], 1⟩ ['a', 'a'] true true 1 = some 0 ∧
    find (· == ·) ⟨['x', 'a', 'a', 'a', '\n', 'a', 'a'], 1⟩ ['a', 'a'] true true 2 = none ∧
    find (· == ·) ⟨['x', 'a', 'a', 'a', '\n', 'a', 'a'], 1⟩ ['a', 'a'] false true 2 = some 4 := by decide

/-- **the count-th match of `find_backwards`** -/
theorem findBackwards_next (eq : Char → Char → Bool) (d : Doc) (sub : Text) (inLine : Bool)
    (k : Int) (hk : 1 ≤ k) (r : Int) (hr : findBackwards eq d sub inLine k = some r) :
    let x := if inLine = true then lineBefore d else d.before
    (∀ r' : Int, findBackwards eq d sub inLine (k + 1) = some r' →
        r' + stepLen sub ≤ r ∧
        ∀ q : Nat, (x.length : Int) + r' < q → (q : Int) + stepLen sub ≤ x.length + r →
          matchAt eq sub (x.drop q) = false) ∧
    (findBackwards eq d sub inLine (k + 1) = none →
        ∀ q : Nat, (q : Int) + stepLen sub ≤ x.length + r → matchAt eq sub (x.drop q) = false) := by
  intro x
  have hx : (if inLine = true then (lineBefore d).reverse else d.before.reverse) = x.reverse := by
    simp only [x]; split <;> rfl
  have hn1 : ∀ ms : List Nat, nth ms k = ms[(k - 1).toNat]? := by
    intro ms
    have h1 : k ≥ 1 := hk
    simp only [nth, h1, if_true]
  have hn2 : ∀ ms : List Nat, nth ms (k + 1) = ms[(k - 1).toNat + 1]? := by
    intro ms
    have e : (k + 1 - 1).toNat = (k - 1).toNat + 1 := by omega
    have h1 : k + 1 ≥ 1 := by omega
    simp only [nth, h1, if_true, e]
  simp only [findBackwards, hx, hn1, hn2] at hr ⊢
  obtain ⟨a, ha, rfl⟩ := Option.map_eq_some_iff.mp hr
  obtain ⟨c1, c2⟩ := finditer_chain eq sub.reverse x.reverse _ a ha
  have hstep : stepLen sub.reverse = stepLen sub := by simp [stepLen]
  rw [hstep] at c1 c2
  have ⟨ha1, _⟩ := finditer_sound eq _ _ a (List.mem_of_getElem? ha)
  simp only [List.length_reverse] at ha1
  -- a forward match at `q` is a reversed match at `|x| - q - |sub|`
  have key : ∀ q : Nat, q ≤ x.length → matchAt eq sub (x.drop q) = true →
      q + sub.length ≤ x.length ∧
      matchAt eq sub.reverse (x.reverse.drop (x.length - q - sub.length)) = true := by
    intro q hqx hm
    have hl := matchAt_length hm
    simp only [List.length_drop] at hl
    have hq : q + sub.length ≤ x.length := by omega
    exact ⟨hq, matchAt_reverse' hq hm⟩
  constructor
  · intro r' hr'
    obtain ⟨b, hb, rfl⟩ := Option.map_eq_some_iff.mp hr'
    obtain ⟨g1, g2⟩ := c1 b hb
    refine ⟨by omega, ?_⟩
    intro q hq1 hq2
    cases hm : matchAt eq sub (x.drop q) with
    | false => rfl
    | true =>
      obtain ⟨hle, hrev⟩ := key q (by omega) hm
      have := g2 (x.length - q - sub.length) (by omega) (by omega)
      rw [this] at hrev; cases hrev
  · intro hn q hq2
    have hn' : (finditer eq sub.reverse x.reverse)[(k - 1).toNat + 1]? = none := by simpa using hn
    cases hm : matchAt eq sub (x.drop q) with
    | false => rfl
    | true =>
      obtain ⟨hle, hrev⟩ := key q (by omega) hm
      have := c2 hn' (x.length - q - sub.length) (by omega) (by simp; omega)
      rw [this] at hrev; cases hrev
example : findBackwards (· == ·) ⟨['a','a','b','a','a','a'], 6⟩ ['a','a'] false 1 = some (-2) ∧
    findBackwards (· == ·) ⟨['a','a','b','a','a','a'], 6⟩ ['a','a'] false 2 = some (-6) := by decide
/-- **`find_all`** reports exactly the leftmost non-overlapping occurrences, in order: every
    reported index is an occurrence inside the text, nothing occurs before the first one, and
    between a reported occurrence and the next reported one (resp. the end of the text) nothing
    occurs that starts at least one needle length (one character for the empty needle) later. -/
theorem findAll_spec (eq : Char → Char → Bool) (d : Doc) (sub : Text) :
    (∀ s ∈ findAll eq d sub, s + sub.length ≤ d.text.length ∧ matchAt eq sub (d.text.drop s) = true) ∧
    (∀ s, (findAll eq d sub)[0]? = some s → ∀ j, j < s → matchAt eq sub (d.text.drop j) = false) ∧
    (findAll eq d sub = [] → ∀ j, j ≤ d.text.length → matchAt eq sub (d.text.drop j) = false) ∧
    (∀ k a, (findAll eq d sub)[k]? = some a →
      (∀ b, (findAll eq d sub)[k + 1]? = some b →
        a + stepLen sub ≤ b ∧ ∀ j, a + stepLen sub ≤ j → j < b → matchAt eq sub (d.text.drop j) = false) ∧
      ((findAll eq d sub)[k + 1]? = none →
        ∀ j, a + stepLen sub ≤ j → j ≤ d.text.length → matchAt eq sub (d.text.drop j) = false)) :=
  ⟨fun s hs => finditer_sound eq sub d.text s hs, (finditer_first eq sub d.text).1,
   (finditer_first eq sub d.text).2, fun k a ha => finditer_chain eq sub d.text k a ha⟩
example : findAll (· == ·) ⟨['a', 'a', 'a', 'b', 'a', 'a'], 0⟩ ['a', 'a'] = [0, 4] := by decide

/-- **`has_match_at_current_position(sub)`** holds exactly when the text after the cursor starts with `sub` -/
theorem hasMatchAtCursor_iff (d : Doc) (sub : Text) :
    hasMatchAtCursor d sub = true ↔ d.after.take sub.length = sub :=
  matchAt_beq_iff sub d.after
example : hasMatchAtCursor ⟨['x', 'a', 'b'], 1⟩ ['a', 'b'] = true ∧ hasMatchAtCursor ⟨['x', 'a', 'b'], 2⟩ ['a', 'b'] = false := by
  decide

end Ptk.C02
