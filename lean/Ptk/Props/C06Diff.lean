/-
  C06 — lemmas: the preamble and the tail of `_output_screen_diff`, what the terminal shows
  (`Shows`), and the master statement `diff_master` about the whole differ (width-1 cells).
-/
import Ptk.Props.C06Lemmas
namespace Ptk.C06
open Ptk.Py

variable (cw : Char → Nat)

/-- side conditions on the attribute functions: the default char's style is not counted as content by
    `get_max_column_index`, and displaying attributes at a colour depth never adds colour / underline /
    … (the encoder drops or quantises colours and copies the flags) -/
structure EnvOk (e : Env) : Prop where
  dflt : (e.rawOf 1).hasStyle = false
  enc : ∀ a : Attrs, a.hasStyle = false → (e.enc e.depth a).hasStyle = false

/-- what must hold when `_output_screen_diff` is entered: the renderer's `_cursor_pos` is where the
    terminal cursor is, `_last_style` agrees with the SGR state, and in full-screen mode autowrap is
    still off from the previous render -/
structure Pre (e : Env) (T : Term) (pos : Point) (last : Option Nat) (prev : Option Screen) : Prop where
  w : T.w = e.w
  wpos : 0 < e.w
  row : T.row = pos.y
  col : T.col = min pos.x (e.w - 1)
  rowlt : T.row < T.h
  aw : e.fullScreen = true → prev.isSome = true → T.autowrap = false
  sgr : SgrOk e T last

/-- everything but cells, cursor, SGR, autowrap and cursor visibility is untouched -/
structure Same (T T' : Term) : Prop where
  h : T'.h = T.h
  top : T'.top = T.top
  scrolled : T'.scrolled = T.scrolled
  oob : T'.oob = T.oob

theorem Same.refl (T : Term) : Same T T := ⟨rfl, rfl, rfl, rfl⟩
theorem Same.trans {A B C : Term} (h1 : Same A B) (h2 : Same B C) : Same A C :=
  ⟨h2.h.trans h1.h, h2.top.trans h1.top, h2.scrolled.trans h1.scrolled, h2.oob.trans h1.oob⟩
theorem Frame.same {A B : Term} (h : Frame A B) : Same A B := ⟨h.h, h.top, h.scrolled, h.oob⟩

theorem prefix_spec (e : Env) (T : Term) (pos : Point) (last : Option Nat) (prev : Option Screen)
    (pre : Pre e T pos last prev) :
    Good e (exec cw T ([Cmd.hideCursor] ++ ((if prev.isNone then [Cmd.resetAttrs] else []) ++
        (if prev.isNone || !e.fullScreen then [Cmd.disableAutowrap] else [])))) pos
      (if prev.isNone then none else last) ∧
    (exec cw T ([Cmd.hideCursor] ++ ((if prev.isNone then [Cmd.resetAttrs] else []) ++
        (if prev.isNone || !e.fullScreen then [Cmd.disableAutowrap] else [])))).visible = false ∧
    (exec cw T ([Cmd.hideCursor] ++ ((if prev.isNone then [Cmd.resetAttrs] else []) ++
        (if prev.isNone || !e.fullScreen then [Cmd.disableAutowrap] else [])))).cells = T.cells ∧
    (exec cw T ([Cmd.hideCursor] ++ ((if prev.isNone then [Cmd.resetAttrs] else []) ++
        (if prev.isNone || !e.fullScreen then [Cmd.disableAutowrap] else [])))).log = T.log ∧
    Same T (exec cw T ([Cmd.hideCursor] ++ ((if prev.isNone then [Cmd.resetAttrs] else []) ++
        (if prev.isNone || !e.fullScreen then [Cmd.disableAutowrap] else [])))) := by
  obtain ⟨pw, pwp, prow, pcol, prowlt, paw, psgr⟩ := pre
  cases hp : prev with
  | none =>
    simp only [Option.isNone_none, if_true, Bool.true_or, List.cons_append, List.nil_append, exec_cons,
      exec_nil, execCmd]
    refine ⟨⟨⟨pw, pwp, prow, pcol, prowlt, rfl⟩, rfl⟩, ?_, ?_, ?_, ?_⟩ <;> first | trivial | rfl | exact ⟨rfl, rfl, rfl, rfl⟩
  | some ps =>
    cases hf : e.fullScreen with
    | false =>
      simp only [Option.isNone_some, Bool.false_eq_true, if_false, Bool.not_false, Bool.or_true, if_true,
        List.cons_append, List.nil_append, exec_cons, exec_nil, execCmd]
      refine ⟨⟨⟨pw, pwp, prow, pcol, prowlt, rfl⟩, psgr⟩, ?_, ?_, ?_, ?_⟩ <;> first | trivial | rfl | exact ⟨rfl, rfl, rfl, rfl⟩
    | true =>
      have := paw hf (by simp [hp])
      simp only [Option.isNone_some, Bool.false_eq_true, if_false, Bool.not_true, Bool.or_false,
        exec_cons, exec_nil, execCmd, List.append_nil]
      refine ⟨⟨⟨pw, pwp, prow, pcol, prowlt, this⟩, psgr⟩, ?_, ?_, ?_, ?_⟩ <;> first | trivial | rfl | exact ⟨rfl, rfl, rfl, rfl⟩


theorem preamble_full (e : Env) (T : Term) (pos : Point) (last : Option Nat) (prev : Option Screen)
    (isDone : Bool) (prevWidth : Nat) (pre : Pre e T pos last prev)
    (hfull : (isDone || prev.isNone || prevWidth != e.w) = true) :
    (preamble e pos prev last isDone prevWidth).2 = Screen.empty ∧
    (preamble e pos prev last isDone prevWidth).1.pos = ⟨0, 0⟩ ∧
    (preamble e pos prev last isDone prevWidth).1.last = none ∧
    Good e (exec cw T (preamble e pos prev last isDone prevWidth).1.cmds) ⟨0, 0⟩ none ∧
    (∀ y x, (exec cw T (preamble e pos prev last isDone prevWidth).1.cmds).cells y x = TCell.blank) ∧
    (exec cw T (preamble e pos prev last isDone prevWidth).1.cmds).visible = false ∧
    (exec cw T (preamble e pos prev last isDone prevWidth).1.cmds).log = T.log ∧
    Same T (exec cw T (preamble e pos prev last isDone prevWidth).1.cmds) := by
  unfold preamble
  simp only [hfull, if_true]
  refine ⟨trivial, trivial, trivial, ?_⟩
  obtain ⟨a1, a2, a3, a4, a5⟩ := prefix_spec cw e T pos last prev pre
  have hre : ∀ Y : List Cmd,
      [Cmd.hideCursor] ++ ((if prev.isNone then [Cmd.resetAttrs] else []) ++
        ((if prev.isNone || !e.fullScreen then [Cmd.disableAutowrap] else []) ++ Y)) =
      ([Cmd.hideCursor] ++ ((if prev.isNone then [Cmd.resetAttrs] else []) ++
        (if prev.isNone || !e.fullScreen then [Cmd.disableAutowrap] else []))) ++ Y := by
    intro Y; simp [List.append_assoc]
  rw [hre, exec_append]
  generalize exec cw T ([Cmd.hideCursor] ++ ((if prev.isNone then [Cmd.resetAttrs] else []) ++
        (if prev.isNone || !e.fullScreen then [Cmd.disableAutowrap] else []))) = T0 at *
  have h0 : (0 : Nat) < T0.h := by have := a1.geo.rowlt; omega
  obtain ⟨m1, m2, m3, m4⟩ :=
    moveCursor_spec cw e T0 pos (if prev.isNone then none else last) ⟨0, 0⟩ a1 h0
  generalize moveCursor e.w pos (if prev.isNone then none else last) ⟨0, 0⟩ = m at *
  rw [exec_append]
  generalize exec cw T0 m.1 = T1 at *
  have hcol : T1.col = 0 := by rw [m1.geo.col]; simp
  have hrow : T1.row = 0 := m1.geo.row
  rw [reset_eraseDown cw T1 (Or.inr hcol)]
  refine ⟨⟨⟨m1.geo.w, m1.geo.wpos, m1.geo.row, m1.geo.col, m1.geo.rowlt, m1.geo.aw⟩, rfl⟩, ?_, ?_, ?_, ?_⟩
  · intro y x
    simp only [hrow, hcol, Nat.zero_le, and_true]
    have : y = 0 ∨ 0 < y := by omega
    simp [this]
  · simp only [m2.visible, a2]
  · simp only [m4, a4]
  · exact ⟨by simp [m2.h, a5.h], by simp [m2.top, a5.top], by simp [m2.scrolled, a5.scrolled],
      by simp [m2.oob, a5.oob]⟩

theorem preamble_incr (e : Env) (T : Term) (pos : Point) (last : Option Nat) (ps : Screen)
    (isDone : Bool) (prevWidth : Nat) (pre : Pre e T pos last (some ps))
    (hinc : (isDone || prevWidth != e.w) = false) :
    (preamble e pos (some ps) last isDone prevWidth).2 = ps ∧
    (preamble e pos (some ps) last isDone prevWidth).1.pos = pos ∧
    (preamble e pos (some ps) last isDone prevWidth).1.last = last ∧
    Good e (exec cw T (preamble e pos (some ps) last isDone prevWidth).1.cmds) pos last ∧
    (exec cw T (preamble e pos (some ps) last isDone prevWidth).1.cmds).cells = T.cells ∧
    (exec cw T (preamble e pos (some ps) last isDone prevWidth).1.cmds).visible = false ∧
    (exec cw T (preamble e pos (some ps) last isDone prevWidth).1.cmds).log = T.log ∧
    Same T (exec cw T (preamble e pos (some ps) last isDone prevWidth).1.cmds) := by
  have hc : (isDone || (some ps).isNone || prevWidth != e.w) = false := by
    simpa using hinc
  unfold preamble
  simp only [hc, Bool.false_eq_true, if_false]
  obtain ⟨a1, a2, a3, a4, a5⟩ := prefix_spec cw e T pos last (some ps) pre
  refine ⟨by simp, trivial, by simp, ?_, a3, a2, a4, a5⟩
  simpa using a1

theorem finish_pos (e : Env) (s prev : Screen) (isDone : Bool) (pos : Point) (last : Option Nat) :
    (finish e s prev isDone pos last).pos = (if isDone then ⟨0, min s.height e.h⟩ else s.cursor) ∧
    (finish e s prev isDone pos last).last = none := by
  unfold finish; simp

theorem finish_spec (e : Env) (s prev : Screen) (isDone : Bool) (pos : Point) (last : Option Nat) (T : Term)
    (g : Good e T pos last)
    (hcur : min s.height e.h ≤ T.h)
    (htgt : (if isDone then min s.height e.h else s.cursor.y) < T.h)
    (hdone : isDone = true → prev.height = 0 ∧ (min s.height e.h = 0 → last = none)) :
    (exec cw T (finish e s prev isDone pos last).cmds).row = (if isDone then min s.height e.h else s.cursor.y) ∧
    (exec cw T (finish e s prev isDone pos last).cmds).col =
      min (if isDone then 0 else s.cursor.x) (e.w - 1) ∧
    (exec cw T (finish e s prev isDone pos last).cmds).w = e.w ∧
    (exec cw T (finish e s prev isDone pos last).cmds).sgr = Attrs.dflt ∧
    (exec cw T (finish e s prev isDone pos last).cmds).autowrap = (isDone || !e.fullScreen) ∧
    (exec cw T (finish e s prev isDone pos last).cmds).visible = (s.showCursor || T.visible) ∧
    (∀ y x, (exec cw T (finish e s prev isDone pos last).cmds).cells y x =
      if isDone = true ∧ min s.height e.h ≤ y then TCell.blank else T.cells y x) ∧
    (exec cw T (finish e s prev isDone pos last).cmds).log = T.log ∧
    Same T (exec cw T (finish e s prev isDone pos last).cmds) := by
  unfold finish
  simp only []
  generalize hH : min s.height e.h = curH at *
  -- first optional move: to the last row of the new screen
  have step1 : ∃ (c1 : List Cmd) (l1 : Option Nat) (p1 : Point),
      (if prev.height < curH then
          ((moveCursor e.w pos last ⟨0, curH - 1⟩).1, (moveCursor e.w pos last ⟨0, curH - 1⟩).2,
            (⟨0, curH - 1⟩ : Point))
        else ([], last, pos)) = (c1, l1, p1) ∧
      Good e (exec cw T c1) p1 l1 ∧ Frame T (exec cw T c1) ∧ (exec cw T c1).cells = T.cells ∧
      (exec cw T c1).log = T.log ∧
      (isDone = true → p1.y < curH ∨ (curH = 0 ∧ l1 = none)) := by
    by_cases h1 : prev.height < curH
    · obtain ⟨m1, m2, m3, m4⟩ := moveCursor_spec cw e T pos last ⟨0, curH - 1⟩ g (by simp; omega)
      refine ⟨_, _, _, by simp only [h1, if_true], m1, m2, m3, m4, ?_⟩
      intro _; left; simp; omega
    · refine ⟨[], last, pos, by simp only [h1, if_false], by simpa using g, by simpa using Frame.refl T,
        rfl, rfl, ?_⟩
      intro hd
      obtain ⟨hp, hl⟩ := hdone hd
      right
      have : curH = 0 := by omega
      exact ⟨this, hl this⟩
  obtain ⟨c1, l1, p1, heq, g1, f1, cells1, log1, hd1⟩ := step1
  rw [heq]
  simp only []
  rw [exec_append]
  generalize exec cw T c1 = T1 at *
  generalize htg : (if isDone = true then (⟨0, curH⟩ : Point) else s.cursor) = tgt at *
  have htgy : tgt.y < T1.h := by
    rw [f1.h, ← htg]; cases isDone <;> simpa using htgt
  obtain ⟨m1, m2, m3, m4, m5⟩ := moveCursor_geo cw e T1 p1 l1 tgt g1.geo htgy
  generalize moveCursor e.w p1 l1 tgt = m at *
  rw [exec_append]
  generalize exec cw T1 m.1 = T2 at *
  have htgx : tgt.x = (if isDone = true then 0 else s.cursor.x) := by
    rw [← htg]; cases isDone <;> simp
  have htgy' : tgt.y = (if isDone = true then curH else s.cursor.y) := by
    rw [← htg]; cases isDone <;> simp
  cases hd : isDone with
  | false =>
    simp only [hd, Bool.false_eq_true, if_false, List.nil_append, Bool.false_or, false_and] at *
    have hrest : ∀ T3 : Term, T3 = exec cw T2 ((if (!e.fullScreen) = true then [Cmd.enableAutowrap] else []) ++
        ([Cmd.resetAttrs] ++ if s.showCursor = true then [Cmd.showCursor] else [])) →
        T3.row = T2.row ∧ T3.col = T2.col ∧ T3.w = T2.w ∧ T3.sgr = Attrs.dflt ∧
        T3.autowrap = (!e.fullScreen) ∧ T3.visible = (s.showCursor || T2.visible) ∧ T3.cells = T2.cells ∧
        T3.log = T2.log ∧ Same T2 T3 := by
      intro T3 h3
      subst h3
      cases hf : e.fullScreen <;> cases hs : s.showCursor <;>
        simp [execCmd, m1.aw] <;> exact ⟨rfl, rfl, rfl, rfl⟩
    obtain ⟨r1, r2, r3, r4, r5, r6, r7, r8, r9⟩ := hrest _ rfl
    refine ⟨?_, ?_, ?_, r4, r5, ?_, ?_, ?_, ?_⟩
    · rw [r1, m1.row, htgy']
    · rw [r2, m1.col, htgx]
    · rw [r3, m1.w]
    · rw [r6, m2.visible, f1.visible]
    · intro y x; rw [r7, m3, cells1]
    · rw [r8, m4, log1]
    · exact Same.trans (Same.trans f1.same m2.same) r9
  | true =>
    simp only [hd, if_true, Bool.true_or, true_and] at *
    have hsgr : T2.sgr = Attrs.dflt := by
      rcases hd1 trivial with h | ⟨h0, hl⟩
      · have : p1.y < tgt.y := by rw [htgy']; exact h
        simp only [this, if_true] at m5
        exact m5.1
      · have : ¬ p1.y < tgt.y := by rw [htgy']; omega
        simp only [this, if_false] at m5
        rw [m5.1]
        have := g1.sgr
        rw [hl] at this
        exact this
    have hcol : T2.col = 0 := by rw [m1.col, htgx]; simp
    have hrow : T2.row = curH := by rw [m1.row, htgy']
    have hrest : ∀ T3 : Term, T3 = exec cw T2 ([Cmd.eraseDown] ++ ([Cmd.enableAutowrap] ++
        ([Cmd.resetAttrs] ++ if s.showCursor = true then [Cmd.showCursor] else []))) →
        T3.row = T2.row ∧ T3.col = T2.col ∧ T3.w = T2.w ∧ T3.sgr = Attrs.dflt ∧
        T3.autowrap = true ∧ T3.visible = (s.showCursor || T2.visible) ∧
        (∀ y x, T3.cells y x = if curH ≤ y then TCell.blank else T2.cells y x) ∧
        T3.log = T2.log ∧ Same T2 T3 := by
      intro T3 h3
      subst h3
      simp only [List.cons_append, List.nil_append, exec_cons, execCmd]
      rw [eraseFrom_eq _ _ (Or.inr hcol)]
      cases hs : s.showCursor <;>
        simp [execCmd, hsgr, erased_dflt, hrow, hcol] <;>
        refine ⟨?_, ⟨rfl, rfl, rfl, rfl⟩⟩ <;> intro y x <;>
        (have : (y = curH ∨ curH < y) ↔ curH ≤ y := by omega) <;> simp [this]
    obtain ⟨r1, r2, r3, r4, r5, r6, r7, r8, r9⟩ := hrest _ rfl
    refine ⟨?_, ?_, ?_, r4, r5, ?_, ?_, ?_, ?_⟩
    · rw [r1, hrow]
    · rw [r2, hcol]; simp
    · rw [r3, m1.w]
    · rw [r6, m2.visible, f1.visible]
    · intro y x; rw [r7, m3, cells1]
    · rw [r8, m4, log1]
    · exact Same.trans (Same.trans f1.same m2.same) r9

/-! ### what the terminal shows -/

/-- visible-cell normal form: a space whose attributes have no colour / underline / strike / blink /
    reverse looks like an erased cell (this is `_StyleStringHasStyleCache`'s notion) -/
def TCell.norm (t : TCell) : TCell :=
  if t.ch = [' '] ∧ t.attrs.hasStyle = false then TCell.blank else t

/-- the owned rows of the terminal visibly show screen `s` -/
def Shows (e : Env) (T : Term) (s : Screen) : Prop :=
  ∀ y x, y < T.h → x < e.w → (T.cells y x).norm = (tcellOf e.attrsOf (cellAt (s.row y) x)).norm

/-- `WFScreen`: no row at or below `Screen.height` has been written -/
def WF (s : Screen) : Prop := s.rows.length ≤ s.height

/-- every cell holds one printable width-1 character -/
def Narrow (s : Screen) : Prop := ∀ row ∈ s.rows, ∀ c ∈ row, NarrowCell cw c

theorem getD_lt {α} (l : List α) (x : Nat) (d : α) (h : x < l.length) : l.getD x d = l[x] := by
  simp [List.getD, h]
theorem getD_ge {α} (l : List α) (x : Nat) (d : α) (h : l.length ≤ x) : l.getD x d = d := by
  simp [List.getD, h]

theorem blank_norm : TCell.blank.norm = TCell.blank := by
  simp [TCell.norm, TCell.blank]

theorem trimLen_spec (p : Cell → Bool) : ∀ (l : List Cell) (x : Nat), trimLen p l ≤ x →
    (h : x < l.length) → p l[x] = false := by
  intro l
  induction l with
  | nil => intro x _ h; simp at h
  | cons c cs ih =>
    intro x hx h
    simp only [trimLen] at hx
    by_cases h0 : trimLen p cs = 0
    · simp only [h0, if_true] at hx
      cases x with
      | zero =>
        by_cases hp : p c = true
        · simp [hp] at hx
        · simpa using hp
      | succ x' =>
        simp only [List.getElem_cons_succ]
        exact ih x' (by omega) (by simpa using h)
    · simp only [h0, if_false] at hx
      cases x with
      | zero => omega
      | succ x' =>
        simp only [List.getElem_cons_succ]
        exact ih x' (by omega) (by simpa using h)

theorem not_counted (a : Nat → Attrs) (hdef : (a 1).hasStyle = false) (row : List Cell) (x : Nat)
    (hx : maxCol a row + 1 ≤ x) : Cell.counted a (cellAt row x) = false := by
  unfold cellAt
  by_cases h : x < row.length
  · rw [getD_lt _ _ _ h]
    exact trimLen_spec _ row x (by unfold maxCol at hx; omega) h
  · rw [getD_ge _ _ _ (by omega)]
    simp [Cell.counted, Cell.dflt, hdef]

theorem norm_of_not_counted_env (e : Env) (hdef : EnvOk e) (c : Cell)
    (h : Cell.counted e.rawOf c = false) : (tcellOf e.attrsOf c).norm = TCell.blank := by
  simp only [Cell.counted, Bool.or_eq_false_iff, bne_eq_false_iff_eq] at h
  have := hdef.enc _ h.2
  simp [TCell.norm, tcellOf, h.1, Env.attrsOf, this]

theorem norm_of_not_counted (a : Nat → Attrs) (c : Cell) (h : Cell.counted a c = false) :
    (tcellOf a c).norm = TCell.blank := by
  simp only [Cell.counted, Bool.or_eq_false_iff, bne_eq_false_iff_eq] at h
  simp [TCell.norm, tcellOf, h.1, h.2]

theorem rowAfter_shows (e : Env) (s prev : Screen) (y : Nat) (old : Nat → TCell)
    (hdef : EnvOk e)
    (hold : ∀ x, x < e.w → (old x).norm = (tcellOf e.attrsOf (cellAt (prev.row y) x)).norm) :
    ∀ x, x < e.w →
      (rowAfter e s prev y old x).norm = (tcellOf e.attrsOf (cellAt (s.row y) x)).norm := by
  intro x hx
  unfold rowAfter
  by_cases h1 : x < lineLen e (s.row y)
  · simp only [h1, if_true]
    by_cases hd : differs (s.row y) (prev.row y) x
    · simp only [hd, if_true]
    · simp only [hd, if_false]
      rw [hold x hx]
      unfold differs at hd
      simp only [not_or, Decidable.not_not] at hd
      simp only [tcellOf, hd.1, hd.2]
  · simp only [h1, if_false]
    have hnew : (tcellOf e.attrsOf (cellAt (s.row y) x)).norm = TCell.blank := by
      apply norm_of_not_counted_env e hdef
      apply not_counted _ hdef.dflt
      unfold lineLen at h1; omega
    rw [hnew]
    by_cases h2 : lineLen e (s.row y) < lineLen e (prev.row y)
    · simp only [h2, if_true, blank_norm]
    · simp only [h2, if_false]
      rw [hold x hx]
      apply norm_of_not_counted_env e hdef
      apply not_counted _ hdef.dflt
      unfold lineLen at h1 h2; omega

theorem narrow_dflt (h1 : cw ' ' = 1) : NarrowCell cw Cell.dflt :=
  ⟨⟨' ', rfl, by decide, by decide, h1⟩, rfl⟩

theorem narrow_cellAt (h1 : cw ' ' = 1) (s : Screen) (hn : Narrow cw s) (y x : Nat) :
    NarrowCell cw (cellAt (s.row y) x) := by
  unfold cellAt Screen.row
  by_cases hy : y < s.rows.length
  · rw [getD_lt _ _ _ hy]
    by_cases hx : x < (s.rows[y]).length
    · rw [getD_lt _ _ _ hx]
      exact hn _ (List.getElem_mem hy) _ (List.getElem_mem hx)
    · rw [getD_ge _ _ _ (by omega)]; exact narrow_dflt cw h1
  · rw [getD_ge s.rows y [] (by omega)]
    rw [getD_ge [] x Cell.dflt (by simp)]
    exact narrow_dflt cw h1

theorem row_nil_of_WF (s : Screen) (h : WF s) (y : Nat) (hy : s.height ≤ y) : s.row y = [] := by
  unfold Screen.row
  rw [getD_ge _ _ _ (by unfold WF at h; omega)]

/-- the row loop and the tail of the differ, started in a state `T1` that shows `pscr` -/
theorem core (e : Env) (s pscr : Screen) (isDone : Bool) (T1 : Term) (p1 : Point) (l1 : Option Nat)
    (hdef : EnvOk e)
    (nar : ∀ y x, NarrowCell cw (cellAt (s.row y) x))
    (wfs : WF s) (wfp : WF pscr)
    (g : Good e T1 p1 l1) (hnc : NoCont T1) (hsh : Shows e T1 pscr)
    (hfit : min (max s.height pscr.height) e.h ≤ T1.h) (hTh : T1.h ≤ e.h)
    (htgt : (if isDone then min s.height e.h else s.cursor.y) < T1.h)
    (hdone : isDone = true → pscr.height = 0 ∧ l1 = none) :
    (∀ y x, y < T1.h → x < e.w → (isDone = true → y < min s.height e.h) →
        ((exec cw T1 ((rowLoop e s pscr (min (max s.height pscr.height) e.h) 0 p1 l1).cmds ++
          (finish e s pscr isDone (rowLoop e s pscr (min (max s.height pscr.height) e.h) 0 p1 l1).pos
            (rowLoop e s pscr (min (max s.height pscr.height) e.h) 0 p1 l1).last).cmds)).cells y x).norm =
          (tcellOf e.attrsOf (cellAt (s.row y) x)).norm) ∧
    (isDone = true → ∀ y x, min s.height e.h ≤ y →
        (exec cw T1 ((rowLoop e s pscr (min (max s.height pscr.height) e.h) 0 p1 l1).cmds ++
          (finish e s pscr isDone (rowLoop e s pscr (min (max s.height pscr.height) e.h) 0 p1 l1).pos
            (rowLoop e s pscr (min (max s.height pscr.height) e.h) 0 p1 l1).last).cmds)).cells y x =
          TCell.blank) ∧
    (exec cw T1 ((rowLoop e s pscr (min (max s.height pscr.height) e.h) 0 p1 l1).cmds ++
          (finish e s pscr isDone (rowLoop e s pscr (min (max s.height pscr.height) e.h) 0 p1 l1).pos
            (rowLoop e s pscr (min (max s.height pscr.height) e.h) 0 p1 l1).last).cmds)).row =
        (if isDone then min s.height e.h else s.cursor.y) ∧
    (exec cw T1 ((rowLoop e s pscr (min (max s.height pscr.height) e.h) 0 p1 l1).cmds ++
          (finish e s pscr isDone (rowLoop e s pscr (min (max s.height pscr.height) e.h) 0 p1 l1).pos
            (rowLoop e s pscr (min (max s.height pscr.height) e.h) 0 p1 l1).last).cmds)).col =
        min (if isDone then 0 else s.cursor.x) (e.w - 1) ∧
    (exec cw T1 ((rowLoop e s pscr (min (max s.height pscr.height) e.h) 0 p1 l1).cmds ++
          (finish e s pscr isDone (rowLoop e s pscr (min (max s.height pscr.height) e.h) 0 p1 l1).pos
            (rowLoop e s pscr (min (max s.height pscr.height) e.h) 0 p1 l1).last).cmds)).w = e.w ∧
    (exec cw T1 ((rowLoop e s pscr (min (max s.height pscr.height) e.h) 0 p1 l1).cmds ++
          (finish e s pscr isDone (rowLoop e s pscr (min (max s.height pscr.height) e.h) 0 p1 l1).pos
            (rowLoop e s pscr (min (max s.height pscr.height) e.h) 0 p1 l1).last).cmds)).sgr = Attrs.dflt ∧
    (exec cw T1 ((rowLoop e s pscr (min (max s.height pscr.height) e.h) 0 p1 l1).cmds ++
          (finish e s pscr isDone (rowLoop e s pscr (min (max s.height pscr.height) e.h) 0 p1 l1).pos
            (rowLoop e s pscr (min (max s.height pscr.height) e.h) 0 p1 l1).last).cmds)).autowrap =
        (isDone || !e.fullScreen) ∧
    (exec cw T1 ((rowLoop e s pscr (min (max s.height pscr.height) e.h) 0 p1 l1).cmds ++
          (finish e s pscr isDone (rowLoop e s pscr (min (max s.height pscr.height) e.h) 0 p1 l1).pos
            (rowLoop e s pscr (min (max s.height pscr.height) e.h) 0 p1 l1).last).cmds)).visible =
        (s.showCursor || T1.visible) ∧
    (∀ p ∈ (exec cw T1 ((rowLoop e s pscr (min (max s.height pscr.height) e.h) 0 p1 l1).cmds ++
          (finish e s pscr isDone (rowLoop e s pscr (min (max s.height pscr.height) e.h) 0 p1 l1).pos
            (rowLoop e s pscr (min (max s.height pscr.height) e.h) 0 p1 l1).last).cmds)).log,
        p ∈ T1.log ∨ (p.1 < min (max s.height pscr.height) e.h ∧ p.2 < e.w)) ∧
    Same T1 (exec cw T1 ((rowLoop e s pscr (min (max s.height pscr.height) e.h) 0 p1 l1).cmds ++
          (finish e s pscr isDone (rowLoop e s pscr (min (max s.height pscr.height) e.h) 0 p1 l1).pos
            (rowLoop e s pscr (min (max s.height pscr.height) e.h) 0 p1 l1).last).cmds)) ∧
    NoCont (exec cw T1 ((rowLoop e s pscr (min (max s.height pscr.height) e.h) 0 p1 l1).cmds ++
          (finish e s pscr isDone (rowLoop e s pscr (min (max s.height pscr.height) e.h) 0 p1 l1).pos
            (rowLoop e s pscr (min (max s.height pscr.height) e.h) 0 p1 l1).last).cmds)) := by
  generalize hK : min (max s.height pscr.height) e.h = K at *
  obtain ⟨r1, r2, r3, r4, r5⟩ := rowLoop_spec cw e s pscr nar K 0 p1 l1 T1 g hnc (by omega)
  have hrl : K = 0 → (rowLoop e s pscr K 0 p1 l1).last = l1 := by
    intro h; subst h; simp [rowLoop]
  generalize rowLoop e s pscr K 0 p1 l1 = r at *
  rw [exec_append]
  generalize hT2 : exec cw T1 r.cmds = T2 at *
  have hcurK : min s.height e.h ≤ K := by omega
  have hd2 : isDone = true → pscr.height = 0 ∧ (min s.height e.h = 0 → r.last = none) := by
    intro hd
    obtain ⟨h0, hl⟩ := hdone hd
    refine ⟨h0, fun hz => ?_⟩
    rw [hrl (by omega), hl]
  obtain ⟨f1, f2, f3, f4, f5, f6, f7, f8, f9⟩ :=
    finish_spec cw e s pscr isDone r.pos r.last T2 r1 (by rw [r2.h]; omega) (by rw [r2.h]; exact htgt) hd2
  generalize exec cw T2 (finish e s pscr isDone r.pos r.last).cmds = T3 at *
  -- the cells of the rows after the row loop show the new screen
  have hrows : ∀ y x, y < T1.h → x < e.w →
      (T2.cells y x).norm = (tcellOf e.attrsOf (cellAt (s.row y) x)).norm := by
    intro y x hy hx
    rw [r4]
    by_cases hyK : 0 ≤ y ∧ y < 0 + K
    · simp only [hyK, and_self, if_true]
      exact rowAfter_shows e s pscr y (T1.cells y) hdef (fun x' hx' => hsh y x' hy hx') x hx
    · simp only [hyK, if_false]
      have hs : s.row y = [] := row_nil_of_WF s wfs y (by omega)
      have hp : pscr.row y = [] := row_nil_of_WF pscr wfp y (by omega)
      rw [hsh y x hy hx, hs, hp]
  refine ⟨?_, ?_, f1, f2, f3, f4, f5, ?_, ?_, ?_, ?_⟩
  · intro y x hy hx hdy
    rw [f7]
    have : ¬ (isDone = true ∧ min s.height e.h ≤ y) := by
      rintro ⟨hd, hle⟩; have := hdy hd; omega
    simp only [this, if_false]
    exact hrows y x hy hx
  · intro hd y x hy
    rw [f7]; simp [hd, hy]
  · rw [f6, r2.visible]
  · intro p hp
    rw [f8] at hp
    rcases r5 p hp with h | h
    · exact Or.inl h
    · exact Or.inr ⟨by omega, h.2.2⟩
  · exact Same.trans r2.same f9
  · intro y x
    rw [f7]
    split
    · simp [TCell.blank]
    · exact r3 y x

/-- `previous_screen.height`, `0` when there is none -/
def prevHeight : Option Screen → Nat
  | none => 0
  | some ps => ps.height

theorem shows_empty_of_blank (e : Env) (T : Term) (hdef : EnvOk e)
    (h : ∀ y x, T.cells y x = TCell.blank) : Shows e T Screen.empty := by
  intro y x _ _
  rw [h y x, blank_norm]
  have : Screen.empty.row y = [] := by simp [Screen.row, Screen.empty, List.getD]
  rw [this]
  symm
  apply norm_of_not_counted_env e hdef
  have := hdef.dflt
  simp [cellAt, List.getD, Cell.counted, Cell.dflt, this]

/-- Everything the differ's output does to a terminal, in one statement (the named theorems of
    `Ptk.Props.C06` are projections of this one). -/
theorem diff_master (e : Env) (s : Screen) (pos : Point) (prev : Option Screen) (last : Option Nat)
    (isDone : Bool) (pw : Nat) (T : Term)
    (h1 : cw ' ' = 1) (hdef : EnvOk e)
    (hn : Narrow cw s) (wfs : WF s)
    (pre : Pre e T pos last prev)
    (hprev : ∀ ps, prev = some ps → (isDone || pw != e.w) = false → Shows e T ps ∧ NoCont T ∧ WF ps)
    (hfit : min (max s.height (prevHeight prev)) e.h ≤ T.h) (hTh : T.h ≤ e.h)
    (htgt : (if isDone then min s.height e.h else s.cursor.y) < T.h) :
    ((∀ y x, y < T.h → x < e.w → (isDone = true → y < min s.height e.h) →
        ((exec cw T (diff e s pos prev last isDone pw).cmds).cells y x).norm =
          (tcellOf e.attrsOf (cellAt (s.row y) x)).norm) ∧
    (isDone = true → ∀ y x, min s.height e.h ≤ y →
        (exec cw T (diff e s pos prev last isDone pw).cmds).cells y x = TCell.blank) ∧
    (exec cw T (diff e s pos prev last isDone pw).cmds).row =
        (if isDone then min s.height e.h else s.cursor.y) ∧
    (exec cw T (diff e s pos prev last isDone pw).cmds).col =
        min (if isDone then 0 else s.cursor.x) (e.w - 1) ∧
    (exec cw T (diff e s pos prev last isDone pw).cmds).w = e.w ∧
    (exec cw T (diff e s pos prev last isDone pw).cmds).sgr = Attrs.dflt ∧
    (exec cw T (diff e s pos prev last isDone pw).cmds).autowrap = (isDone || !e.fullScreen) ∧
    (exec cw T (diff e s pos prev last isDone pw).cmds).visible = s.showCursor ∧
    (∀ p ∈ (exec cw T (diff e s pos prev last isDone pw).cmds).log,
        p ∈ T.log ∨ (p.1 < min (max s.height (prevHeight prev)) e.h ∧ p.2 < e.w)) ∧
    Same T (exec cw T (diff e s pos prev last isDone pw).cmds) ∧
    NoCont (exec cw T (diff e s pos prev last isDone pw).cmds)) ∧
    (diff e s pos prev last isDone pw).pos = (if isDone then ⟨0, min s.height e.h⟩ else s.cursor) ∧
    (diff e s pos prev last isDone pw).last = none := by
  have nar := narrow_cellAt cw h1 s hn
  unfold diff
  simp only []
  obtain ⟨fp1, fp2⟩ := finish_pos e s (preamble e pos prev last isDone pw).2 isDone
    (rowLoop e s (preamble e pos prev last isDone pw).2
      (min (max s.height (preamble e pos prev last isDone pw).2.height) e.h) 0
      (preamble e pos prev last isDone pw).1.pos (preamble e pos prev last isDone pw).1.last).pos
    (rowLoop e s (preamble e pos prev last isDone pw).2
      (min (max s.height (preamble e pos prev last isDone pw).2.height) e.h) 0
      (preamble e pos prev last isDone pw).1.pos (preamble e pos prev last isDone pw).1.last).last
  refine ⟨?_, fp1, fp2⟩
  rw [exec_append]
  by_cases hfull : (isDone || prev.isNone || pw != e.w) = true
  · obtain ⟨q1, q2, q3, q4, q5, q6, q7, q8⟩ := preamble_full cw e T pos last prev isDone pw pre hfull
    generalize preamble e pos prev last isDone pw = p at *
    obtain ⟨⟨pc, pp, pl⟩, pscr⟩ := p
    simp only at q1 q2 q3 q4 q5 q6 q7 q8 ⊢
    subst q1 q2 q3
    generalize exec cw T pc = T1 at *
    have hnc1 : NoCont T1 := by intro y x; rw [q5]; simp [TCell.blank]
    have hsh1 := shows_empty_of_blank e T1 hdef q5
    have hE : Screen.empty.height = 0 := rfl
    obtain ⟨c1, c2, c3, c4, c5, c6, c7, c8, c9, c10, c11⟩ :=
      core cw e s Screen.empty isDone T1 ⟨0, 0⟩ none hdef nar wfs (by simp [WF, Screen.empty]) q4 hnc1 hsh1
        (by rw [q8.h, hE]; omega) (by rw [q8.h]; exact hTh) (by rw [q8.h]; exact htgt)
        (fun _ => ⟨rfl, rfl⟩)
    refine ⟨?_, c2, c3, c4, c5, c6, c7, ?_, ?_, Same.trans q8 c10, c11⟩
    · intro y x hy hx hd; exact c1 y x (by rw [q8.h]; exact hy) hx hd
    · rw [c8, q6]; simp
    · intro p hp
      rcases c9 p hp with h | h
      · left; rw [← q7]; exact h
      · right; rw [hE] at h; exact ⟨by omega, h.2⟩
  · have hf : (isDone || prev.isNone || pw != e.w) = false := (Bool.not_eq_true _).mp hfull
    cases hp : prev with
    | none => simp [hp] at hf
    | some ps =>
      subst hp
      have hinc : (isDone || pw != e.w) = false := by simpa using hf
      obtain ⟨hsh, hnc, wfp⟩ := hprev ps rfl hinc
      have pre' : Pre e T pos last (some ps) := pre
      obtain ⟨q1, q2, q3, q4, q5, q6, q7, q8⟩ := preamble_incr cw e T pos last ps isDone pw pre' hinc
      generalize preamble e pos (some ps) last isDone pw = p at *
      obtain ⟨⟨pc, pp, pl⟩, pscr⟩ := p
      simp only at q1 q2 q3 q4 q5 q6 q7 q8 ⊢
      subst q1 q2 q3
      generalize exec cw T pc = T1 at *
      have hnc1 : NoCont T1 := by intro y x; rw [q5]; exact hnc y x
      have hsh1 : Shows e T1 pscr := by
        intro y x hy hx; rw [q5]; exact hsh y x (by rw [← q8.h]; exact hy) hx
      have hD : isDone = false := by cases isDone <;> simp_all
      obtain ⟨c1, c2, c3, c4, c5, c6, c7, c8, c9, c10, c11⟩ :=
        core cw e s pscr isDone T1 pp pl hdef nar wfs wfp q4 hnc1 hsh1
          (by rw [q8.h]; simpa [prevHeight] using hfit) (by rw [q8.h]; exact hTh)
          (by rw [q8.h]; exact htgt) (by intro h; rw [hD] at h; cases h)
      refine ⟨?_, c2, c3, c4, c5, c6, c7, ?_, ?_, Same.trans q8 c10, c11⟩
      · intro y x hy hx hd; exact c1 y x (by rw [q8.h]; exact hy) hx hd
      · rw [c8, q6]; simp
      · intro p hp
        rcases c9 p hp with h | h
        · left; rw [← q7]; exact h
        · right; simpa [prevHeight] using h
end Ptk.C06
