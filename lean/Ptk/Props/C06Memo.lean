/-
  C06 — the module-level memo tables of `_16ColorCache` (`_16_fg_colors`, `_16_bg_colors`), keyed `(rgb, exclude)` as the
  code keys them, are TRANSPARENT: for every sequence of `Output` calls, in a process whose tables hold anything
  memoised earlier, `Vt100_Output` writes exactly what it writes when every colour is recomputed.

    getCode16_ok, colorsToCodeM_eq, escapeCodeM_eq, vtEmitM_eq, vtEmitAllM_eq
    memo_key_needs_exclude      a table keyed on the rgb value alone is not transparent
-/
import Ptk.Model.C06Vt
namespace Ptk.C06
open Ptk.Py

/-- every entry of a memo table is what `_get` computes for its key -/
def MemoOk (bg : Bool) (m : Memo16) : Prop := ∀ p ∈ m, p.2.2 = get16 bg p.1 p.2.1

structure CMemoOk (cm : ColorMemo) : Prop where
  fg : MemoOk false cm.fg
  bg : MemoOk true cm.bg

theorem memoLookup_ok (bg : Bool) : ∀ (m : Memo16) (rgb : Nat × Nat × Nat) (ex : List Text) (v : Nat × Text),
    MemoOk bg m → memoLookup m rgb ex = some v → v = get16 bg rgb ex := by
  intro m
  induction m with
  | nil => intro _ _ _ _ h; cases h
  | cons p rest ih =>
    intro rgb ex v hok h
    obtain ⟨k, e, w⟩ := p
    simp only [memoLookup] at h
    split at h
    · rename_i hk
      cases h
      have := hok (k, e, v) (by simp)
      rw [← hk.1, ← hk.2]; exact this
    · exact ih rgb ex v (fun q hq => hok q (by simp [hq])) h

/-- `get_code` = `_get`, and the table stays correct -/
theorem getCode16_ok (bg : Bool) (m : Memo16) (rgb : Nat × Nat × Nat) (ex : List Text) (h : MemoOk bg m) :
    (getCode16 bg m rgb ex).1 = get16 bg rgb ex ∧ MemoOk bg (getCode16 bg m rgb ex).2 := by
  unfold getCode16
  split
  · rename_i v hv; exact ⟨memoLookup_ok bg m rgb ex v h hv, h⟩
  · refine ⟨rfl, ?_⟩
    intro p hp
    simp only [List.mem_cons] at hp
    rcases hp with hp | hp
    · subst hp; rfl
    · exact h p hp

theorem colorGetM_eq (cm : ColorMemo) (depth : Nat) (fgC bgC fa color : Text) (bg : Bool) (h : CMemoOk cm) :
    (colorGetM cm depth fgC bgC fa color bg).1 = (colorGet depth fgC bgC fa color bg).1 ∧
    (colorGetM cm depth fgC bgC fa color bg).2.1 = (colorGet depth fgC bgC fa color bg).2 ∧
    CMemoOk (colorGetM cm depth fgC bgC fa color bg).2.2 := by
  unfold colorGetM colorGet
  simp only []
  split
  · exact ⟨rfl, rfl, h⟩
  · split
    · exact ⟨rfl, rfl, h⟩
    · split
      · exact ⟨rfl, rfl, h⟩
      · rename_i r g b _
        split
        · split
          · obtain ⟨q1, q2⟩ := getCode16_ok true cm.bg (r, g, b) (if fgC ≠ bgC then [fa] else []) h.bg
            refine ⟨?_, rfl, ⟨h.fg, q2⟩⟩
            rw [q1]; rfl
          · obtain ⟨q1, q2⟩ := getCode16_ok false cm.fg (r, g, b) [] h.fg
            refine ⟨?_, ?_, ⟨q2, h.bg⟩⟩
            · rw [q1]; rfl
            · rw [q1]; rfl
        · split
          · exact ⟨rfl, rfl, h⟩
          · exact ⟨rfl, rfl, h⟩

theorem colorsToCodeM_eq (cm : ColorMemo) (depth : Nat) (fg bg : Text) (h : CMemoOk cm) :
    (colorsToCodeM cm depth fg bg).1 = colorsToCode depth fg bg ∧ CMemoOk (colorsToCodeM cm depth fg bg).2 := by
  obtain ⟨f1, f2, f3⟩ := colorGetM_eq cm depth fg bg [] fg false h
  obtain ⟨b1, _, b3⟩ := colorGetM_eq (colorGetM cm depth fg bg [] fg false).2.2 depth fg bg
    (colorGet depth fg bg [] fg false).2 bg true f3
  unfold colorsToCodeM colorsToCode
  simp only []
  rw [f1, f2, b1]
  exact ⟨rfl, b3⟩

theorem escapeCodeM_eq (cm : ColorMemo) (depth : Nat) (a : Attrs) (h : CMemoOk cm) :
    (escapeCodeM cm depth a).1 = escapeCode depth a ∧ CMemoOk (escapeCodeM cm depth a).2 := by
  obtain ⟨c1, c2⟩ := colorsToCodeM_eq cm depth a.fg a.bg h
  unfold escapeCodeM escapeCode sgrParams
  simp only []
  exact ⟨by rw [c1], c2⟩

theorem vtEmitM_eq (st : VtSt) (cm : ColorMemo) (c : Cmd) (h : CMemoOk cm) :
    (vtEmitM st cm c).1 = (vtEmit st c).1 ∧ (vtEmitM st cm c).2.2 = (vtEmit st c).2 ∧
    CMemoOk (vtEmitM st cm c).2.1 := by
  cases c with
  | setAttrs a d sh =>
    obtain ⟨e1, e2⟩ := escapeCodeM_eq cm d a h
    exact ⟨rfl, e1, e2⟩
  | _ => exact ⟨rfl, rfl, h⟩

/-- **vtEmitAllM_eq** — the memo tables are transparent: whatever earlier calls (of this or any other output of the
    process) left in them, every sequence of `Output` calls writes the bytes of the memo-free encoder, and the tables
    stay correct. -/
theorem vtEmitAllM_eq : ∀ (cs : List Cmd) (st : VtSt) (cm : ColorMemo), CMemoOk cm →
    (vtEmitAllM st cm cs).1 = (vtEmitAll st cs).1 ∧ (vtEmitAllM st cm cs).2.2 = (vtEmitAll st cs).2 ∧
    CMemoOk (vtEmitAllM st cm cs).2.1 := by
  intro cs
  induction cs with
  | nil => intro st cm h; exact ⟨rfl, rfl, h⟩
  | cons c cs ih =>
    intro st cm h
    obtain ⟨a1, a2, a3⟩ := vtEmitM_eq st cm c h
    obtain ⟨b1, b2, b3⟩ := ih (vtEmitM st cm c).1 (vtEmitM st cm c).2.1 a3
    simp only [vtEmitAllM, vtEmitAll]
    rw [a1] at b1 b2 b3 ⊢
    exact ⟨b1, by rw [a2, b2], b3⟩

theorem cmemoOk_empty : CMemoOk ColorMemo.empty := ⟨(fun p hp => by cases hp), (fun p hp => by cases hp)⟩

section ExamplesMemo

def exRedOnRed : Attrs := { Attrs.dflt with fg := "ff0000".toList, bg := "fe0000".toList }
def exBlueOnRed : Attrs := { Attrs.dflt with fg := "0000ff".toList, bg := "fe0000".toList }

/-- at 4-bit depth the background `fe0000` is dark red under a bright-red foreground (never the same colour as the
    text) and bright red under a blue one -/
example : escapeCode 4 exRedOnRed = "\x1b[0;91;41m".toList ∧ escapeCode 4 exBlueOnRed = "\x1b[0;94;101m".toList := by
  decide +kernel

/-- `vtEmitAllM_eq` on the two states one after the other: the second lookup of `fe0000` is a miss (other exclusion) -/
example : (vtEmitAllM VtSt.init ColorMemo.empty [.setAttrs exRedOnRed 4 (vtEnc 4 exRedOnRed),
      .setAttrs exBlueOnRed 4 (vtEnc 4 exBlueOnRed)]).2.2 = "\x1b[0;91;41m\x1b[0;94;101m".toList ∧
    (vtEmitAllM VtSt.init ColorMemo.empty [.setAttrs exRedOnRed 4 (vtEnc 4 exRedOnRed),
      .setAttrs exBlueOnRed 4 (vtEnc 4 exBlueOnRed)]).2.1.bg.length = 2 := by
  decide +kernel

/-- **the key must contain `exclude`**: a table entry stored under the rgb value alone (here: what the first state left)
    is not what `_get` computes for the second state -/
theorem memo_key_needs_exclude :
    get16 true (254, 0, 0) ["ansibrightred".toList] ≠ get16 true (254, 0, 0) ["ansibrightblue".toList] := by
  decide +kernel

end ExamplesMemo

end Ptk.C06
