/-
  Cross-model agreement, cluster "Buffer edit and state API" (src/prompt_toolkit/buffer.py):
  `Buffer.transform_lines`, `transform_current_line`, `transform_region`, `indent`, `unindent`
  — canonical `Ptk.C01` against `Ptk.C08` (the Vi operators `g?` `gu` `gU` `g~` `>` `<` and their
  doubled forms).

  C08 passes natural-number rows (`TextObject.get_line_numbers` after its sign check) where C01 takes
  any `Int` (Python negative indices): the theorems are the non-negative special case of C01.
  C08 inlines `transform_region` into `opTransform`.  Coordinates (`cursor_position_row/col`,
  `translate_row_col_to_index`) go through the sibling layer `AgreeDocLines` (both models = C02).
-/
import Ptk.Props.AgreeBufBase
import Ptk.Props.AgreeDocLines
namespace Ptk.AgreeBuf
open Ptk.Py

theorem pyIdx_nat (n i : Nat) : C01.pyIdx n (i : Int) = if i < n then some i else none := by
  have : ¬ ((i : Int) < 0) := by omega
  simp [C01.pyIdx, this]

/-- the `try: lines[index] = f(lines[index]) except IndexError` loop of C01 over `range(i, i+fuel)`,
    `i ≥ 0`, is the index map of C08 -/
theorem tlGo_eq (f : Text → Text) (fuel i : Nat) (ls : List Text) :
    C01.tlGo f ls.length fuel (i : Int) ls =
      ls.mapIdx (fun j l => if i ≤ j ∧ j < i + fuel then f l else l) := by
  induction fuel generalizing i ls with
  | zero =>
    simp only [C01.tlGo]
    apply List.ext_getElem?; intro j
    simp [List.getElem?_mapIdx]
    cases ls[j]? <;> simp
    omega
  | succ k ih =>
    simp only [C01.tlGo, pyIdx_nat]
    have hcast : ((i : Int) + 1) = ((i + 1 : Nat) : Int) := by omega
    rw [hcast]
    by_cases h : i < ls.length
    · simp only [h, if_true]
      have hl : (ls.modify i f).length = ls.length := by simp
      rw [← hl, ih (i + 1) (ls.modify i f)]
      apply List.ext_getElem?; intro j
      simp only [List.getElem?_mapIdx, List.getElem?_modify]
      cases ls[j]? with
      | none => simp
      | some a =>
        simp only [Option.map_some]
        by_cases hij : i = j
        · subst hij; simp; omega
        · simp [hij]; congr 1; simp; omega
    · simp only [h, if_false]
      rw [ih (i + 1) ls]
      apply List.ext_getElem?; intro j
      simp only [List.getElem?_mapIdx]
      by_cases hj : j < ls.length
      · have h1 : ¬ (i + 1 ≤ j ∧ j < i + 1 + k) := by omega
        have h2 : ¬ (i ≤ j ∧ j < i + (k + 1)) := by omega
        simp [h1, h2]
      · simp [List.getElem?_eq_none (Nat.le_of_not_lt hj)]

/-- buffer.py::Buffer.transform_lines — `C01.transformLines` (rows `range(from_, to)`, any integers) vs
    `C08.transformLines` (`0 ≤ from_`): every callback, text and pair of rows -/
theorem transformLines_08 (f : Text → Text) (t : Text) (a b : Nat) :
    C08.transformLines f t a b = C01.transformLines f t (a : Int) (b : Int) := by
  simp only [C08.transformLines, C01.transformLines, C08.lines]
  have : ((b : Int) - (a : Int)).toNat = b - a := by omega
  rw [this, tlGo_eq]
  congr 1
  apply List.ext_getElem?; intro j
  simp only [List.getElem?_mapIdx]
  cases (splitOn '\n' t)[j]? with
  | none => rfl
  | some x =>
    simp only [Option.map_some]
    congr 1
    by_cases h : a ≤ j ∧ j < b
    · have : a ≤ j ∧ j < a + (b - a) := by omega
      simp [h, this]
    · have : ¬ (a ≤ j ∧ j < a + (b - a)) := by omega
      simp [h, this]

theorem lineBefore_08 (s : C08.St) : C08.lineBefore s.doc = C01.lineBefore (p08 s) := rfl
theorem lineAfter_08 (s : C08.St) : C08.lineAfter s.doc = C01.lineAfter (p08 s) := rfl

/-- buffer.py::Buffer.transform_current_line — `C01.transformCurrentLine` vs `C08.transformCurrentLine`,
    all inputs -/
theorem transformCurrentLine_08 (f : Text → Text) (s : C08.St) :
    p08 (C08.transformCurrentLine f s) = C01.transformCurrentLine f (p08 s) := by
  simp only [C08.transformCurrentLine, C01.transformCurrentLine, lineBefore_08, lineAfter_08, C01.setText]
  rfl

/-- buffer.py::Buffer.transform_region — `C01.transformRegion` followed by the cursor assignment of
    `create_transform_handler._` vs `C08.opTransform` (which inlines both): for a non-empty operator
    range that starts inside the text (`from_ ≥ 0`; C08 reports the negative case as not modelled) -/
theorem transformRegion_08 (f : Text → Text) (s : C08.St) (o : C08.TextObject)
    (hr : (C08.operatorRange s.doc o).1 < (C08.operatorRange s.doc o).2)
    (hfa : 0 ≤ (C08.operatorRange s.doc o).1 + s.cur) :
    C08.opTransform f s o =
      (C01.transformRegion f (p08 s) ((C08.operatorRange s.doc o).1 + s.cur).toNat
          ((C08.operatorRange s.doc o).2 + s.cur).toNat).map
        (fun b1 => { s with text := b1.text,
                            cur := (C01.setCursor b1 ((b1.cur : Int) + (if o.stop ≠ 0 then o.stop else o.start))).cur }) := by
  have hlt : ((C08.operatorRange s.doc o).1 + s.cur).toNat < ((C08.operatorRange s.doc o).2 + s.cur).toNat := by omega
  have hneg : ¬ (C08.operatorRange s.doc o).1 + s.cur < 0 := by omega
  simp only [C08.opTransform, hr, if_true, hneg, if_false, C01.transformRegion, hlt, Option.map_some,
    C01.setText, C01.setCursor, C08.clampCur, p08]
/-- … and when the operator range is empty neither model changes anything -/
theorem transformRegion_08_empty (f : Text → Text) (s : C08.St) (o : C08.TextObject)
    (hr : ¬ (C08.operatorRange s.doc o).1 < (C08.operatorRange s.doc o).2) :
    C08.opTransform f s o = some s := by
  simp [C08.opTransform, hr]

/-- `Document.translate_row_col_to_index(row, 0)` — `C01.rowStart` vs `C08.rowColToIndex _ row 0` -/
theorem rowStart_08 (t : Text) (row : Nat) : C08.rowColToIndex t row 0 = C01.rowStart t row := by
  obtain ⟨_, hle⟩ := AgreeDoc.rowColToIndex_nat t row 0
  have this : C02.lines t = splitOn '\n' t := rfl
  rw [this] at hle
  simp only [C08.rowColToIndex, C08.lines, C01.rowStart]
  omega

theorem row_08 (s : C08.St) : s.doc.row = C01.cursorRow (p08 s) := by
  rw [AgreeDoc.row_08, AgreeDoc.row_01]; rfl
theorem col_08 (s : C08.St) (hc : s.cur ≤ s.text.length) : s.doc.col = C01.cursorCol (p08 s) := by
  rw [AgreeDoc.col_08, AgreeDoc.col_01 _ hc]; rfl

/-- buffer.py::indent — `C01.indent` (rows any integers) vs `C08.indent` (rows ≥ 0), cursor inside the
    text (outside, the two `cursor_position_col` differ: `AgreeDoc.col_01_outside_disagree`) -/
theorem indent_08 (s : C08.St) (a b n : Nat) (hc : s.cur ≤ s.text.length) :
    p08 (C08.indent s a b n) = C01.indent (p08 s) (a : Int) (b : Int) n := by
  simp only [C08.indent, C01.indent, row_08, col_08 s hc, transformLines_08, rowStart_08, C08.clampCur,
    C01.setCursor, p08, C08.indentUnit, C01.indentUnit]
/-- buffer.py::unindent (with `unindent.transform`) — `C01.unindent` vs `C08.unindent`, likewise -/
theorem unindent_08 (isSpace : Char → Bool) (s : C08.St) (a b n : Nat) (hc : s.cur ≤ s.text.length) :
    p08 (C08.unindent isSpace s a b n) = C01.unindent isSpace (p08 s) (a : Int) (b : Int) n := by
  simp only [C08.unindent, C01.unindent, row_08, col_08 s hc, transformLines_08, rowStart_08, C08.clampCur,
    C01.setCursor, p08, C08.indentUnit, C01.indentUnit]
  rfl

end Ptk.AgreeBuf
