/-
  C04 — what a handler receives besides its keys, and what `_call_handler` records:
  the Readline numeric argument (`arg`), `is_repeat`, and macro recording / replay.

  * `callHandler_event`: the event carries the pending argument and `is_repeat` = "the previous
    completed invocation was of the same `Binding` object"; afterwards the argument is what this
    handler typed (`append_to_arg_count`) and nothing else — it is reset by every handler that
    does not type one; the previous handler is this one;
  * `cprResponse_event`: a CPR response neither consumes the argument nor counts as "previous";
  * `recording_log`: for any world in which only `_call_handler` appends to the recording, the
    recording after a whole `process_keys()` run is the recording before followed by the key
    sequences logged as recorded, in order; `recorded_eq_called`: while recording is on and the
    bindings are `record_in_macro`, these are exactly the key sequences delivered to handlers;
  * `replay_front`: `call-last-kbd-macro` puts the macro, in order, in front of the input queue.
-/
import Ptk.Props.C04Run
namespace Ptk.C04
variable {σ : Type}

/-! ### the event of one invocation -/

/-- `_call_handler`: the handler gets the pending numeric argument and the `is_repeat` flag; the
    argument is consumed: afterwards `key_processor.arg` is exactly what this handler typed with
    `append_to_arg_count` (`none` if it typed nothing — *reset after every non-argument handler*);
    after a return (also after the bell) this binding is the previous handler and its keys the
    previous key sequence; after a raise they are as before (and `process_keys` resets them). -/
theorem callHandler_event (I : Iface σ) (ps : PS σ) (b : Binding) (seq : List KP) :
    (∃ rest, (callHandler I ps b seq).2.1 = .ev ps.arg (ps.prevH == some b.bid) :: rest) ∧
    (callHandler I ps b seq).1.arg = I.argOut ps.w b seq (eventOf ps b) ∧
    ((callHandler I ps b seq).2.2 = false →
      (callHandler I ps b seq).1.prevH = some b.bid ∧ (callHandler I ps b seq).1.prev = seq) ∧
    ((callHandler I ps b seq).2.2 = true →
      (callHandler I ps b seq).1.prevH = ps.prevH ∧ (callHandler I ps b seq).1.prev = ps.prev) := by
  cases h : (I.call ps.w ps.queue b seq ps.prev (eventOf ps b)).2.2 <;>
    (simp only [callHandler, h]; simp [eventOf])

/-- **`is_repeat`**: right after an invocation of binding `b` that returned, the event built for
    a binding `b'` has `is_repeat` exactly when `b'` is the same `Binding` object as `b` -/
theorem repeat_iff (I : Iface σ) (ps : PS σ) (b b' : Binding) (seq : List KP)
    (h : (callHandler I ps b seq).2.2 = false) :
    (eventOf (callHandler I ps b seq).1 b').rep = (b.bid == b'.bid) := by
  have := ((callHandler_event I ps b seq).2.2.1 h).1
  simp [eventOf, this]

/-- a fresh or reset processor never reports a repeat and has no argument -/
theorem reset_event (ps : PS σ) (b : Binding) :
    eventOf (resetPS ps) b = { arg := none, rep := false } := rfl

/-- **CPR responses**: the handler is called with no argument and `is_repeat = False`; the pending
    argument stays (unless the CPR handler itself types one), the previous handler and the
    previous key sequence are not touched -/
theorem cprResponse_event (I : Iface σ) (ps : PS σ) (kp : KP) :
    (cprResponse I ps kp).1.prevH = ps.prevH ∧ (cprResponse I ps kp).1.prev = ps.prev ∧
    ((∀ w b s x, I.argOut w b s x = none) → (cprResponse I ps kp).1.arg = ps.arg) := by
  cases hm : (getMatches I ps.w [kp]).2.getLast? with
  | none => simp [cprResponse, hm]
  | some b =>
    cases ho : (I.call (getMatches I ps.w [kp]).1 ps.queue b [kp] ps.prev {}).2.2 <;>
      simp [cprResponse, hm, ho] <;> intro h <;> simp [h]

/-- the matching loop itself (lookups, waiting, dropping keys) never touches the argument or the
    previous handler: only invocations do -/
theorem exec_nofire_event (I : Iface σ) (ps : PS σ) :
    (exec I ps .wait).1.arg = ps.arg ∧ (exec I ps .idle).1.arg = ps.arg ∧
    (exec I ps .dropOne).1.arg = ps.arg ∧ (exec I ps .dropOne).1.prevH = ps.prevH := by
  simp [exec]

/-! ### a relation kept by the lookups is kept by one pass of decisions -/

section rel
variable (I : Iface σ) (Rel : σ → σ → Prop) (hrefl : ∀ w, Rel w w)
  (htrans : ∀ a b c, Rel a b → Rel b c → Rel a c)
  (hfor : ∀ w ks, Rel w (I.getFor w ks).1) (hstart : ∀ w ks, Rel w (I.getStart w ks).1)
include hrefl htrans hfor hstart

theorem getMatches_rel (w : σ) (buf : List KP) : Rel w (getMatches I w buf).1 := hfor w _

theorem scan_rel (buf : List KP) (n : Nat) (w : σ) : Rel w (scan I buf n w).1 := by
  induction n generalizing w with
  | zero => exact hrefl w
  | succ n ih =>
    simp only [scan]
    split
    · exact hfor w _
    · exact htrans _ _ _ (hfor w _) (ih _)

theorem decideOf_rel (ps : PS σ) (flush : Bool) : Rel ps.w (decideOf I ps flush).1 := by
  have h1 : Rel ps.w (getMatches I ps.w ps.buffer).1 := hfor _ _
  have h12 : Rel ps.w (isPrefixOfLonger I (getMatches I ps.w ps.buffer).1 ps.buffer).1 :=
    htrans _ _ _ h1 (hstart _ _)
  have s1 := htrans _ _ _ h1
    (scan_rel I Rel hrefl htrans hfor hstart ps.buffer ps.buffer.length (getMatches I ps.w ps.buffer).1)
  have s2 := htrans _ _ _ h12
    (scan_rel I Rel hrefl htrans hfor hstart ps.buffer ps.buffer.length
      (isPrefixOfLonger I (getMatches I ps.w ps.buffer).1 ps.buffer).1)
  unfold decideOf
  split
  · exact hrefl _
  · cases flush with
    | true =>
      simp only [if_true]
      repeat' split
      all_goals first | exact h1 | exact s1
    | false =>
      simp only [Bool.false_eq_true, if_false]
      repeat' split
      all_goals first | exact h12 | exact s2
end rel

/-! ### macro recording along a run -/

/-- the key sequences logged as appended to the emacs recording -/
def recordedE : List Obs → List KP
  | [] => []
  | .recE s :: r => s ++ recordedE r
  | _ :: r => recordedE r

/-- the key sequences handed to handlers that returned -/
def called : List Obs → List KP
  | [] => []
  | .call _ s _ :: r => s ++ called r
  | _ :: r => called r

theorem recordedE_drops (l : List KP) : recordedE (l.map Obs.drop) = [] := by
  induction l with
  | nil => rfl
  | cons x xs ih => simp [recordedE, ih]

theorem recordedE_append (a b : List Obs) : recordedE (a ++ b) = recordedE a ++ recordedE b := by
  induction a with
  | nil => rfl
  | cons x xs ih => cases x <;> simp [recordedE, ih]

theorem called_append (a b : List Obs) : called (a ++ b) = called a ++ called b := by
  induction a with
  | nil => rfl
  | cons x xs ih => cases x <;> simp [called, ih]

/-- a world in which the emacs recording `R` is only ever changed by `_call_handler`'s append
    (handlers do not start / stop / clear the recording; lookups do not touch it), for worlds
    satisfying `G` -/
structure RecOK (I : Iface σ) (R : σ → List KP) (G : σ → Prop) : Prop where
  g_for : ∀ w ks, G w → G (I.getFor w ks).1
  g_start : ∀ w ks, G w → G (I.getStart w ks).1
  g_call : ∀ w q b s p x, G w → G (I.call w q b s p x).1
  g_pushE : ∀ w s, G w → G (I.pushE w s)
  g_pushV : ∀ w s, G w → G (I.pushV w s)
  r_for : ∀ w ks, G w → R (I.getFor w ks).1 = R w
  r_start : ∀ w ks, G w → R (I.getStart w ks).1 = R w
  r_call : ∀ w q b s p x, G w → R (I.call w q b s p x).1 = R w
  r_pushE : ∀ w s, G w → I.recE w = true → R (I.pushE w s) = R w ++ s
  r_pushV : ∀ w s, G w → R (I.pushV w s) = R w

section rec
variable {I : Iface σ} {R : σ → List KP} {G : σ → Prop} (hR : RecOK I R G)
include hR

/-- `G w → G w' ∧ R w' = R w` -/
def Same (R : σ → List KP) (G : σ → Prop) (w w' : σ) : Prop := G w → G w' ∧ R w' = R w

omit hR in
theorem same_refl (w : σ) : Same R G w w := fun h => ⟨h, rfl⟩
omit hR in
theorem same_trans (a b c : σ) (h1 : Same R G a b) (h2 : Same R G b c) : Same R G a c :=
  fun h => ⟨(h2 (h1 h).1).1, ((h2 (h1 h).1).2).trans (h1 h).2⟩

theorem decideOf_same (ps : PS σ) (flush : Bool) : Same R G ps.w (decideOf I ps flush).1 :=
  decideOf_rel I (Same R G) same_refl same_trans
    (fun w ks h => ⟨hR.g_for w ks h, hR.r_for w ks h⟩)
    (fun w ks h => ⟨hR.g_start w ks h, hR.r_start w ks h⟩) ps flush

theorem recordMacro_rec (wasE wasV : Bool) (w : σ) (b : Binding) (seq : List KP) (h : G w) :
    G (recordMacro I wasE wasV w b seq).1 ∧
    R (recordMacro I wasE wasV w b seq).1 = R w ++ recordedE (recordMacro I wasE wasV w b seq).2 := by
  unfold recordMacro
  split
  · simp only []
    by_cases hE : (I.recE w && wasE) = true
    · have hrec : I.recE w = true := by simp at hE; exact hE.1
      simp only [hE, if_true]
      have g1 := hR.g_pushE w seq h
      have r1 := hR.r_pushE w seq h hrec
      split
      · exact ⟨hR.g_pushV _ _ g1, by rw [hR.r_pushV _ _ g1, r1]; simp [recordedE]⟩
      · exact ⟨g1, by rw [r1]; simp [recordedE]⟩
    · simp only [hE, Bool.false_eq_true, if_false]
      split
      · exact ⟨hR.g_pushV _ _ h, by rw [hR.r_pushV _ _ h]; simp [recordedE]⟩
      · exact ⟨h, by simp [recordedE]⟩
  · exact ⟨h, by simp [recordedE]⟩

theorem callHandler_rec (ps : PS σ) (b : Binding) (seq : List KP) (h : G ps.w) :
    G (callHandler I ps b seq).1.w ∧
    R (callHandler I ps b seq).1.w = R ps.w ++ recordedE (callHandler I ps b seq).2.1 := by
  have gc := hR.g_call ps.w ps.queue b seq ps.prev (eventOf ps b) h
  have rc := hR.r_call ps.w ps.queue b seq ps.prev (eventOf ps b) h
  have hm := recordMacro_rec hR (I.recE ps.w) (I.recV ps.w) _ b seq gc
  cases h' : (I.call ps.w ps.queue b seq ps.prev (eventOf ps b)).2.2 <;>
    simp only [callHandler, h']
  · exact ⟨hm.1, by rw [hm.2, rc]; simp [recordedE]⟩
  · exact ⟨hm.1, by rw [hm.2, rc]; simp [recordedE]⟩
  · exact ⟨gc, by rw [rc]; simp [recordedE]⟩

theorem exec_rec (ps : PS σ) (d : Decision) (h : G ps.w) :
    G (exec I ps d).1.w ∧ R (exec I ps d).1.w = R ps.w ++ recordedE (exec I ps d).2.1 := by
  cases d with
  | idle => exact ⟨h, by simp [exec, recordedE]⟩
  | wait => exact ⟨h, by simp [exec, recordedE]⟩
  | dropOne =>
    refine ⟨h, ?_⟩
    show R ps.w = R ps.w ++ recordedE ((ps.buffer.take 1).map Obs.drop)
    rw [recordedE_drops]; simp
  | fire b n e =>
    have hc := callHandler_rec hR ps b (ps.buffer.take n) h
    simp only [exec]
    split
    · exact hc
    · exact hc

theorem examine_rec (ps : PS σ) (flush : Bool) (h : G ps.w) :
    G (examine I ps flush).1.w ∧
    R (examine I ps flush).1.w = R ps.w ++ recordedE (examine I ps flush).2.1 := by
  have hd := decideOf_same hR ps flush h
  have he := exec_rec hR { ps with w := (decideOf I ps flush).1 } (decideOf I ps flush).2 hd.1
  exact ⟨he.1, by rw [show (examine I ps flush) = exec I { ps with w := (decideOf I ps flush).1 }
    (decideOf I ps flush).2 from rfl, he.2, hd.2]⟩

theorem runLoop_rec (n : Nat) (ps : PS σ) (flush : Bool) (h : G ps.w) :
    G (runLoop I n ps flush).1.w ∧
    R (runLoop I n ps flush).1.w = R ps.w ++ recordedE (runLoop I n ps flush).2.1 := by
  induction n generalizing ps flush with
  | zero => exact ⟨h, by simp [runLoop, recordedE]⟩
  | succ n ih =>
    have he := examine_rec hR ps flush h
    simp only [runLoop]
    cases hc : (examine I ps flush).2.2 with
    | yield_ => exact he
    | dead => exact he
    | retry =>
      simp only []
      split
      · exact ⟨he.1, by simp [recordedE_append, recordedE, he.2]⟩
      · obtain ⟨i1, i2⟩ := ih (examine I ps flush).1 false he.1
        exact ⟨i1, by rw [i2, he.2, recordedE_append, List.append_assoc]⟩

theorem dispatchKey_rec (ps : PS σ) (kp : KP) (h : G ps.w) :
    G (dispatchKey I ps kp).1.w ∧
    R (dispatchKey I ps kp).1.w = R ps.w ++ recordedE (dispatchKey I ps kp).2.1 := by
  unfold dispatchKey
  by_cases hc : kp.isCpr = true
  · simp only [hc, if_true]
    have hg := (getMatches_rel I (Same R G) same_refl same_trans
      (fun w ks h => ⟨hR.g_for w ks h, hR.r_for w ks h⟩)
      (fun w ks h => ⟨hR.g_start w ks h, hR.r_start w ks h⟩) ps.w [kp]) h
    cases hm : (getMatches I ps.w [kp]).2.getLast? with
    | none => simp only [cprResponse, hm]; exact ⟨hg.1, by simp [recordedE, hg.2]⟩
    | some b =>
      have gc := hR.g_call (getMatches I ps.w [kp]).1 ps.queue b [kp] ps.prev {} hg.1
      have rc := hR.r_call (getMatches I ps.w [kp]).1 ps.queue b [kp] ps.prev {} hg.1
      cases ho : (I.call (getMatches I ps.w [kp]).1 ps.queue b [kp] ps.prev {}).2.2 <;>
        simp only [cprResponse, hm, ho] <;> exact ⟨gc, by simp [recordedE, rc, hg.2]⟩
  · simp only [hc]
    cases kp with
    | flush => exact runLoop_rec hR _ ps true h
    | key k t => exact runLoop_rec hR _ { ps with buffer := ps.buffer ++ [.key k t] } false h

theorem pkStep_rec (ps ps' : PS σ) (obs : List Obs) (raised : Bool) (h : G ps.w)
    (hk : pkStep I ps = some (ps', obs, raised)) :
    G ps'.w ∧ R ps'.w = R ps.w ++ recordedE obs := by
  unfold pkStep at hk
  split at hk
  · cases hk
  · cases hg : getNext I ps with
    | none => simp [hg] at hk
    | some pr =>
      obtain ⟨kp, q⟩ := pr
      simp only [hg] at hk
      have hd := dispatchKey_rec hR { ps with queue := q } kp h
      have hpre : ∀ (pl : Bool), recordedE (Obs.pop kp :: (if pl then [Obs.before] else []) ++
          (dispatchKey I { ps with queue := q } kp).2.1) =
          recordedE (dispatchKey I { ps with queue := q } kp).2.1 := by
        intro pl; cases pl <;> simp [recordedE]
      split at hk
      · cases hk
        exact ⟨hd.1, by rw [hpre]; exact hd.2⟩
      · cases hk
        refine ⟨hd.1, ?_⟩
        rw [recordedE_append, hpre]
        have : recordedE (if (!kp.isFlush && !kp.isCpr) = true then [Obs.after] else []) = [] := by
          split <;> simp [recordedE]
        rw [this, List.append_nil]; exact hd.2

/-- **The recording after a run is the recording before plus what the log says was recorded**, in
    order — for any number of iterations, any bindings and any handlers that leave the macro
    state alone. -/
theorem recording_log (n : Nat) (ps : PS σ) (h : G ps.w) :
    G (processKeys I n ps).1.w ∧
    R (processKeys I n ps).1.w = R ps.w ++ recordedE (processKeys I n ps).2.1 := by
  induction n generalizing ps with
  | zero => exact ⟨h, by simp [processKeys, recordedE]⟩
  | succ n ih =>
    simp only [processKeys]
    cases hk : pkStep I ps with
    | none => exact ⟨h, by simp [recordedE]⟩
    | some r =>
      obtain ⟨ps', obs, raised⟩ := r
      obtain ⟨g1, r1⟩ := pkStep_rec hR ps ps' obs raised h hk
      cases raised with
      | true => exact ⟨g1, r1⟩
      | false =>
        obtain ⟨g2, r2⟩ := ih ps' g1
        exact ⟨g2, by simp only []; rw [r2, r1, recordedE_append, List.append_assoc]⟩
end rec

/-! ### recorded = delivered to handlers -/

/-- while emacs is recording before and after the handler and the binding is `record_in_macro`,
    the invocation appends exactly its own key sequence — once -/
theorem callHandler_records (I : Iface σ) (ps : PS σ) (b : Binding) (seq : List KP)
    (hok : (callHandler I ps b seq).2.2 = false) (hbefore : I.recE ps.w = true)
    (hafter : I.recE (I.call ps.w ps.queue b seq ps.prev (eventOf ps b)).1 = true)
    (hrim : I.evalF (I.call ps.w ps.queue b seq ps.prev (eventOf ps b)).1 b.rim = true) :
    recordedE (callHandler I ps b seq).2.1 = seq ∧ called (callHandler I ps b seq).2.1 = seq := by
  have key : recordedE (recordMacro I (I.recE ps.w) (I.recV ps.w)
        (I.call ps.w ps.queue b seq ps.prev (eventOf ps b)).1 b seq).2 = seq ∧
      called (recordMacro I (I.recE ps.w) (I.recV ps.w)
        (I.call ps.w ps.queue b seq ps.prev (eventOf ps b)).1 b seq).2 = [] := by
    unfold recordMacro
    simp only [hrim, if_true, hafter, hbefore, Bool.and_self]
    split <;> simp [recordedE, called]
  cases h' : (I.call ps.w ps.queue b seq ps.prev (eventOf ps b)).2.2 <;>
    simp_all [callHandler, recordedE, called, recordedE_append, called_append]

/-- … and an invocation of a binding that is not `record_in_macro` (like `call-last-kbd-macro`),
    or one that starts or ends the recording, records nothing -/
theorem callHandler_records_not (I : Iface σ) (ps : PS σ) (b : Binding) (seq : List KP)
    (h : I.evalF (I.call ps.w ps.queue b seq ps.prev (eventOf ps b)).1 b.rim = false ∨
         I.recE ps.w = false ∨
         I.recE (I.call ps.w ps.queue b seq ps.prev (eventOf ps b)).1 = false) :
    recordedE (callHandler I ps b seq).2.1 = [] := by
  have key : recordedE (recordMacro I (I.recE ps.w) (I.recV ps.w)
        (I.call ps.w ps.queue b seq ps.prev (eventOf ps b)).1 b seq).2 = [] := by
    unfold recordMacro
    rcases h with h | h | h
    · simp [h, recordedE]
    · split
      · simp only [h, Bool.and_false, Bool.false_eq_true, if_false]
        split <;> simp [recordedE]
      · simp [recordedE]
    · split
      · simp only [h, Bool.false_and, Bool.false_eq_true, if_false]
        split <;> simp [recordedE]
      · simp [recordedE]
  cases h' : (I.call ps.w ps.queue b seq ps.prev (eventOf ps b)).2.2 <;>
    simp_all [callHandler, recordedE, recordedE_append]

/-! ### the scripted world -/

/-- no script entry starts, ends or replays a macro -/
def NoMacroScripts (x : World) : Prop := ∀ l ∈ x.scripts, ∀ e ∈ l, e.macros = []

theorem world_recOK : RecOK worldIface (fun x => x.erec.getD []) NoMacroScripts := by
  refine ⟨fun _ _ h => h, fun _ _ h => h, ?_, fun _ _ h => h, fun _ _ h => h, fun _ _ _ => rfl,
    fun _ _ _ => rfl, ?_, ?_, fun _ _ _ => rfl⟩
  · intro x q b s p ev h
    have hs : (worldCall x q b s p ev).1.scripts = x.scripts := by
      simp only [worldCall]
      split
      · exact (applyEff_frame _ q _).2.2
      · rfl
    show NoMacroScripts (worldCall x q b s p ev).1
    intro l hl; rw [hs] at hl; exact h l hl
  · intro x q b s p ev h
    show (worldCall x q b s p ev).1.erec.getD [] = x.erec.getD []
    simp only [worldCall]
    split
    · next e he =>
      have hm : e.macros = [] := by
        rcases getD_mem_or_nil x.scripts b.hid with hm | hm
        · exact h _ hm e (List.mem_of_getElem? he)
        · rw [hm] at he; simp at he
      simp [applyEff, hm]
    · rfl
  · intro x s _ hrec
    show (x.erec.map (· ++ s)).getD [] = x.erec.getD [] ++ s
    cases he : x.erec with
    | none => simp [worldIface, he] at hrec
    | some l => rfl

/-- **the scripted world records what the log says**: when no script entry touches the macro
    state, the emacs recording after `process_keys()` is the recording before followed by the
    recorded key sequences of the log -/
theorem world_records (n : Nat) (ps : PS World) (h : NoMacroScripts ps.w) :
    (processKeys worldIface n ps).1.w.erec.getD [] =
      ps.w.erec.getD [] ++ recordedE (processKeys worldIface n ps).2.1 :=
  (recording_log world_recOK n ps h).2

/-- **replay**: `call-last-kbd-macro` puts the keys of the macro, in their order, in front of the
    input queue (and does nothing when there is no macro); `end-kbd-macro` makes the recording
    the macro -/
theorem replay_front (x : World) (q : List KP) :
    (applyMacro (x, q) .call).2 = (match x.lastMacro with | some m => m | none => []) ++ q ∧
    (applyMacro (x, q) .call).1 = x ∧
    (applyMacro (x, q) .stop).1.lastMacro = x.erec ∧ (applyMacro (x, q) .stop).1.erec = none ∧
    (applyMacro (x, q) .start).1.erec = some [] := by
  refine ⟨?_, ?_, rfl, rfl, rfl⟩
  · simp only [applyMacro]
    cases x.lastMacro with
    | none => rfl
    | some m => cases m <;> simp [feedMultiple]
  · simp only [applyMacro]
    cases x.lastMacro with
    | none => rfl
    | some m => cases m <;> rfl

/-! ### non-vacuity -/

/-- registry with `a`→h0 (plain), `b`→h1 (types the digit 5), `c`→h2 (`C-x (`, `C-x )`, `C-x e` in turn,
    `record_in_macro=False`) -/
def exArgWorld : World :=
  { t := (applyOps { regs := [.kb {}] }
      [.add 0 [2] 0 (.b true) (.b false) (.b false) (.b true),
       .add 0 [3] 1 (.b true) (.b false) (.b false) (.b true),
       .add 0 [5] 2 (.b true) (.b false) (.b false) (.b false)]),
    scripts := [[], [{ argKey := some '5' }, { argKey := some '5' }],
                [{ macros := [.start] }, { macros := [.stop] }, { macros := [.call] }]] }

/-- `b b a a`: the first `a` receives the argument `55` (value 55) and is not a repeat; the
    second `a` receives no argument and is a repeat -/
example : ((processKeys worldIface 10
      { w := exArgWorld, queue := [.key 3 1, .key 3 2, .key 2 3, .key 2 4] }).2.1.filter
        fun o => match o with | .ev _ _ => true | _ => false) =
    [.ev none false, .ev (some ['5']) true, .ev (some ['5', '5']) false, .ev none true] := by decide

/-- `c a a c c`: start recording, two commands, stop, replay: the two `a`s are recorded, become the
    macro, and are fed again in front of the queue and delivered in the same order -/
example : called (processKeys worldIface 20
      { w := exArgWorld, queue := [.key 5 1, .key 2 2, .key 2 3, .key 5 4, .key 5 5] }).2.1 =
    [.key 5 1, .key 2 2, .key 2 3, .key 5 4, .key 5 5, .key 2 2, .key 2 3] ∧
    recordedE (processKeys worldIface 20
      { w := exArgWorld, queue := [.key 5 1, .key 2 2, .key 2 3, .key 5 4, .key 5 5] }).2.1 =
    [.key 2 2, .key 2 3] ∧
    (processKeys worldIface 20
      { w := exArgWorld, queue := [.key 5 1, .key 2 2, .key 2 3, .key 5 4, .key 5 5] }).1.w.lastMacro =
    some [.key 2 2, .key 2 3] := by decide

/-- the hypothesis of `world_records` is satisfiable with recording on -/
example : NoMacroScripts { exArgWorld with scripts := [[], [{ argKey := some '5' }]], erec := some [] } := by
  intro l hl e he
  simp at hl
  rcases hl with rfl | rfl
  · simp at he
  · simp at he; subst he; rfl

end Ptk.C04
