/-
  Cross-model agreement, cluster "undo stack, validation, coroutine guard, typeahead, parser glue".

  Part 1 — the undo machinery of `Buffer` (src/prompt_toolkit/buffer.py: `save_to_undo_stack`,
  `undo`, `redo`, `reset`) and the `save_before` boundary of `KeyProcessor._call_handler`
  (key_binding/key_processor.py): canonical C07 (`Ptk.C07.saveToUndo`, `undoLoop`, `undo`, `redo`,
  `undoRO`, `redoRO`, `reset`, `act`, `callHandler`) vs C05 (`Ptk.C05.saveUndo`, `undoLoop`, `undo`,
  `redo`, `reset`, `hrun`, `callHandler`).

  Translation (total): `tr : C05.Buf → C07.St` keeps `(text, cursor_position)` of the current
  working line and the two stacks; a stack entry `(text, pos)` of C05 is the `Buf` `⟨text, pos⟩` of
  C07 (`trE`).  Everything else C05 carries (working lines, selection, history search, …) is not
  part of C07's state.

  Domain.  C05's functions can end with `AssertionError` (`Document(text, pos)` with
  `pos > len(text)`) or `IndexError` (invalid working index); C07 has no such outcomes ("every
  snapshot the real Buffer takes satisfies it", `Ptk.C07.snapshots_valid`).  The theorems about
  `undo` / `redo` are therefore stated under C05's own state invariant `Ptk.C05.Inv` (proved
  preserved by every API call in `Ptk.Props.C05Lemmas`: valid working index, cursor inside the
  text, every stack entry a valid `(text, cursor)` pair) and show that C05's outcome is `.ok`
  there.  `save_to_undo_stack` agrees for ALL states.  Read-only buffers: both models follow the
  repaired code (a69558c, the check comes first); C07's flag `checksFirst` is instantiated `true`
  (`roChecksFirst_now`: that is what the regenerated table says).
-/
import Ptk.Model.C05
import Ptk.Model.C07
import Ptk.Props.C05Lemmas
namespace Ptk.AgreeCtl.Undo
open Ptk.Py

/-- a stack entry `(text, cursor_position)`: C05's pair ↦ C07's `Buf` -/
def trE (e : Text × Nat) : C07.Buf := ⟨e.1, e.2⟩

/-- C05's `Buf` (the whole Buffer state) ↦ C07's undo-relevant state `St` -/
def tr (b : C05.Buf) : C07.St :=
  { buf := ⟨b.text, b.cur⟩, undo := b.undo.map trE, redo := b.redo.map trE }

/-- buffer.py::Buffer.save_to_undo_stack — `Ptk.C05.saveUndo` = `Ptk.C07.saveToUndo`, all states,
    both values of `clear_redo_stack` -/
theorem save_C07_C05 (b : C05.Buf) (clear : Bool) :
    tr (C05.saveUndo b clear) = C07.saveToUndo clear (tr b) := by
  unfold tr C05.saveUndo C07.saveToUndo
  cases hu : b.undo with
  | nil => cases clear <;> simp [trE, C05.Buf.text]
  | cons e rest =>
    obtain ⟨t, p⟩ := e
    by_cases h : t = (b.lines[b.idx]?).getD []
    · cases clear <;> simp [trE, C05.Buf.text, h]
    · cases clear <;> simp [trE, C05.Buf.text, h]

/-- `save_to_undo_stack` keeps C05's invariant-relevant fields: text, cursor, read-only flag -/
theorem saveUndo_frame (b : C05.Buf) (cl : Bool) :
    (C05.saveUndo b cl).text = b.text ∧ (C05.saveUndo b cl).cur = b.cur ∧
    (C05.saveUndo b cl).readOnly = b.readOnly ∧ (C05.saveUndo b cl).lines = b.lines ∧
    (C05.saveUndo b cl).idx = b.idx := ⟨rfl, rfl, rfl, rfl, rfl⟩

theorem writeText_stacks (b : C05.Buf) (v : Text) (c : Nat) :
    (C05.writeText b v c).undo = b.undo ∧ (C05.writeText b v c).redo = b.redo ∧
    (C05.writeText b v c).cur = c ∧ (C05.writeText b v c).readOnly = b.readOnly := by
  unfold C05.writeText
  split <;> simp [C05.textChanged]

/-- buffer.py::Buffer.set_document (the `self.document = Document(t, p)` of `undo` / `redo`) on a
    writable buffer with a valid working index and `p ≤ len(t)`: `Ptk.C05.setDocument` ends `.ok`
    and is C07's `{ s with buf := ⟨t, p⟩ }` -/
theorem setDocument_tr (b : C05.Buf) (t : Text) (p : Nat) (hi : b.idx < b.lines.length)
    (hp : p ≤ t.length) (hro : b.readOnly = false) :
    (C05.setDocument b t p false).2 = .ok ∧
    (C05.setDocument b t p false).1.readOnly = false ∧
    tr (C05.setDocument b t p false).1 = { tr b with buf := ⟨t, p⟩ } := by
  have h1 : ¬ ((p : Int) > (t.length : Int)) := by omega
  simp only [C05.setDocument, h1, hro, if_false, Bool.not_false, Bool.and_false, Bool.false_eq_true]
  have hw := writeText_stacks b t (max (p:Int) 0).toNat
  have ht := C05.writeText_text b hi t (max (p:Int) 0).toNat
  refine ⟨trivial, by rw [hw.2.2.2, hro], ?_⟩
  simp only [tr, ht, hw.1, hw.2.1, hw.2.2.1]
  have : (max (p:Int) 0).toNat = p := by omega
  rw [this]

/-- buffer.py::Buffer.undo, the `while self._undo_stack:` loop — `Ptk.C05.undoLoop` vs
    `Ptk.C07.undoLoop` (C05 performs the pushes and the document assignment inside the loop, C07
    returns the found entry and the rest of the stack) -/
theorem undoLoop_C07_C05 (b : C05.Buf) (hi : b.idx < b.lines.length) (hro : b.readOnly = false) :
    ∀ st : List (Text × Nat), C05.StackOk st →
    (C05.undoLoop b st).2 = .ok ∧ (C05.undoLoop b st).1.readOnly = false ∧
    tr (C05.undoLoop b st).1 =
      (match C07.undoLoop ⟨b.text, b.cur⟩ (st.map trE) with
       | some (t, rest) => { buf := t, undo := rest, redo := ⟨b.text, b.cur⟩ :: b.redo.map trE }
       | none => { buf := ⟨b.text, b.cur⟩, undo := [], redo := b.redo.map trE }) := by
  intro st
  induction st with
  | nil => intro _; simp [C05.undoLoop, C07.undoLoop, tr, C05.Buf.text, hro]
  | cons e rest ih =>
    intro hs
    obtain ⟨t, p⟩ := e
    have hp : p ≤ t.length := hs (t, p) (by simp)
    have hr : C05.StackOk rest := fun e he => hs e (by simp [he])
    by_cases h : t = b.text
    · simp only [C05.undoLoop, C07.undoLoop, List.map_cons, trE, h, bne_self_eq_false, ne_eq,
        not_true_eq_false, if_false, Bool.false_eq_true]
      exact ih hr
    · have hb : (t != b.text) = true := by simpa using h
      simp only [C05.undoLoop, C07.undoLoop, List.map_cons, trE, hb, ne_eq, h, not_false_eq_true,
        if_true]
      have := setDocument_tr { b with undo := rest, redo := (b.text, b.cur) :: b.redo } t p hi hp hro
      refine ⟨this.1, this.2.1, ?_⟩
      rw [this.2.2]
      simp [tr, trE, C05.Buf.text]

/-- buffer.py::Buffer.undo (writable buffer) — `Ptk.C05.undo` = `Ptk.C07.undo`, and C05's outcome
    is `.ok`, for every state satisfying C05's invariant -/
theorem undo_C07_C05 (b : C05.Buf) (h : C05.Inv b) (hro : b.readOnly = false) :
    (C05.undo b).2 = .ok ∧ (C05.undo b).1.readOnly = false ∧ tr (C05.undo b).1 = C07.undo (tr b) := by
  have := undoLoop_C07_C05 b h.idx hro b.undo h.undo
  simp only [C05.undo, hro, Bool.false_eq_true, if_false]
  refine ⟨this.1, this.2.1, ?_⟩
  rw [this.2.2]
  simp only [C07.undo, tr]
  cases C07.undoLoop ⟨b.text, b.cur⟩ (b.undo.map trE) with
  | none => rfl
  | some r => rfl

/-- buffer.py::Buffer.redo (writable buffer) — `Ptk.C05.redo` = `Ptk.C07.redo`, outcome `.ok`,
    for every state satisfying C05's invariant -/
theorem redo_C07_C05 (b : C05.Buf) (h : C05.Inv b) (hro : b.readOnly = false) :
    (C05.redo b).2 = .ok ∧ (C05.redo b).1.readOnly = false ∧ tr (C05.redo b).1 = C07.redo (tr b) := by
  simp only [C05.redo, hro, Bool.false_eq_true, if_false]
  cases hr : b.redo with
  | nil => simp [C07.redo, tr, hr, hro]
  | cons e rest =>
    obtain ⟨t, p⟩ := e
    have hp : p ≤ t.length := h.redo (t, p) (by simp [hr])
    have hs := save_C07_C05 b false
    have := setDocument_tr { C05.saveUndo b false with redo := (C05.saveUndo b false).redo.drop 1 } t p
      h.idx hp hro
    refine ⟨this.1, this.2.1, ?_⟩
    simp only [] at this ⊢
    rw [this.2.2]
    have hu : (C05.saveUndo b false).undo.map trE = (C07.saveToUndo false (tr b)).undo := by
      rw [← hs]; rfl
    have hrd : (C05.saveUndo b false).redo = b.redo := by simp [C05.saveUndo]
    simp only [tr, C07.redo, hr, List.map_cons, trE, hu, hrd, List.drop_succ_cons, List.drop_zero]

/-- the excluded region of `undo_C07_C05`, on a witness: a stack entry `("a", 5)` (cursor beyond the
    text; no `Buffer` call can create it, one has to write to `_undo_stack` directly).  C05 follows the
    real code (`Document("a", 5)` raises `AssertionError` after the entry was popped and the current
    state pushed on the redo stack: replayed on /repo), C07 — which states this as its domain
    assumption — restores the pair.  No correspondence exercises this region. -/
theorem undo_outside_domain :
    let b : C05.Buf := { lines := [[]], idx := 0, cur := 0, sel := none, multi := [], undo := [(['a'], 5)],
                         redo := [], readOnly := false, hsearch := none, enableHS := false }
    (C05.undo b).2 = .assertion ∧ (C05.undo b).1.text = [] ∧ (C05.undo b).1.redo = [([], 0)] ∧
    (C07.undo (tr b)).buf = ⟨['a'], 5⟩ ∧ tr (C05.undo b).1 ≠ C07.undo (tr b) := by decide

/-- what the regenerated table says about the running code: the read-only check comes first
    (a69558c).  If this stops holding, `undo_readOnly_C07_C05` / `redo_readOnly_C07_C05` compare
    C05 with the wrong instance of C07. -/
theorem roChecksFirst_now : Gen.C07.roChecksFirst = true := by decide

/-- buffer.py::Buffer.undo on a READ-ONLY buffer — `Ptk.C05.undo` (`EditReadOnlyBuffer`, nothing
    touched) = `Ptk.C07.undoRO true` (the identity), all states -/
theorem undo_readOnly_C07_C05 (b : C05.Buf) (hro : b.readOnly = true) :
    (C05.undo b).2 = .readOnly ∧ tr (C05.undo b).1 = C07.undoRO true (tr b) := by
  simp [C05.undo, hro, C07.undoRO]

/-- buffer.py::Buffer.redo on a READ-ONLY buffer — `Ptk.C05.redo` = `Ptk.C07.redoRO true`, all states -/
theorem redo_readOnly_C07_C05 (b : C05.Buf) (hro : b.readOnly = true) :
    (C05.redo b).2 = .readOnly ∧ tr (C05.redo b).1 = C07.redoRO true (tr b) := by
  simp [C05.redo, hro, C07.redoRO]

/-- buffer.py::Buffer.reset (the part about the stacks and the document) — `Ptk.C05.reset` =
    `Ptk.C07.reset`, for every document `Document(t, c)` that can be constructed (`c ≤ len t`;
    otherwise C05 reports the `AssertionError` of `Document.__init__`, which C07 does not model) -/
theorem reset_C07_C05 (b : C05.Buf) (t : Text) (c : Nat) (hc : c ≤ t.length) :
    (C05.reset b t c).2 = .ok ∧ tr (C05.reset b t c).1 = C07.reset ⟨t, c⟩ := by
  have : ¬ c > t.length := by omega
  simp [C05.reset, this, tr, C07.reset, C05.Buf.text]

/-! ### handler bodies over the shared calls, and the `save_before` boundary of `_call_handler` -/

/-- the Buffer calls both models have: C05 as `HOp`s of its handler language, C07 as `Act`s -/
inductive UOp
  | save (clear : Bool)
  | undo
  | redo
  | setDoc (t : Text) (c : Nat)    -- `buffer.document = Document(t, c)`: an arbitrary edit's result
  | reset (t : Text) (c : Nat)

/-- `Document(t, c)` can be constructed -/
def UOp.Valid : UOp → Prop
  | .setDoc t c => c ≤ t.length
  | .reset t c => c ≤ t.length
  | _ => True

def UOp.op05 : UOp → C05.Op
  | .save cl => .saveUndo cl
  | .undo => .undo
  | .redo => .redo
  | .setDoc t c => .setDocument t c false
  | .reset t c => .reset t c

def UOp.act07 : UOp → C07.Act
  | .save cl => .save cl
  | .undo => .undo
  | .redo => .redo
  | .setDoc t c => .edit (fun _ => ⟨t, c⟩)
  | .reset t c => .reset ⟨t, c⟩

/-- one shared call: `Ptk.C05.step` = `Ptk.C07.act` on a writable buffer within C05's invariant -/
theorem step_C07_C05 (b : C05.Buf) (h : C05.Inv b) (hro : b.readOnly = false) (u : UOp)
    (hv : u.Valid) :
    (C05.step b u.op05).2 = .ok ∧ (C05.step b u.op05).1.readOnly = false ∧
    tr (C05.step b u.op05).1 = C07.act (tr b) u.act07 := by
  cases u with
  | save cl => exact ⟨rfl, hro, save_C07_C05 b cl⟩
  | undo => exact undo_C07_C05 b h hro
  | redo => exact redo_C07_C05 b h hro
  | setDoc t c =>
    have := setDocument_tr b t c h.idx hv hro
    exact ⟨this.1, this.2.1, this.2.2⟩
  | reset t c =>
    have := reset_C07_C05 b t c hv
    refine ⟨this.1, ?_, this.2⟩
    have hn : ¬ c > t.length := by have : c ≤ t.length := hv; omega
    simp [UOp.op05, C05.step, C05.reset, hn, hro]

/-- a handler body made of shared calls: `Ptk.C05.run` (stops at the first exception: there is
    none) = `List.foldl Ptk.C07.act` -/
theorem run_C07_C05 : ∀ (us : List UOp) (b : C05.Buf), C05.Inv b → b.readOnly = false →
    (∀ u ∈ us, u.Valid) →
    (C05.run b (us.map UOp.op05)).2 = .ok ∧ (C05.run b (us.map UOp.op05)).1.readOnly = false ∧
    C05.Inv (C05.run b (us.map UOp.op05)).1 ∧
    tr (C05.run b (us.map UOp.op05)).1 = (us.map UOp.act07).foldl C07.act (tr b)
  | [], b, h, hro, _ => ⟨rfl, hro, h, rfl⟩
  | u :: us, b, h, hro, hv => by
    have h1 := step_C07_C05 b h hro u (hv u (by simp))
    have hinv : C05.Inv (C05.step b u.op05).1 :=
      C05.step_inv b u.op05 h (by rw [h1.1]; simp)
    have ih := run_C07_C05 us (C05.step b u.op05).1 hinv h1.2.1 (fun v hv' => hv v (by simp [hv']))
    simp only [List.map_cons, C05.run, List.foldl_cons]
    generalize hs : C05.step b u.op05 = r at h1 ih hinv
    obtain ⟨b1, o⟩ := r
    simp only [] at h1 ih hinv
    rw [h1.1] at *
    simp only []
    rw [← h1.2.2]
    exact ih

/-- the same through C05's handler language (`HOp.buf`) on the application state -/
theorem hrun_buf (a : C05.App) : ∀ (ops : List C05.Op) (b : C05.Buf),
    C05.hrun { a with buf := b } (ops.map C05.HOp.buf) =
      ({ a with buf := (C05.run b ops).1 }, (C05.run b ops).2)
  | [], b => rfl
  | op :: ops, b => by
    simp only [List.map_cons, C05.hrun, C05.hstep, C05.run]
    generalize C05.step b op = r
    obtain ⟨b1, o⟩ := r
    cases o <;> simp [hrun_buf a ops b1]

/-- key_processor.py::KeyProcessor._call_handler, the command boundary — `Ptk.C05.callHandler`
    (`saveBefore` = `handler.save_before(event)`) = `Ptk.C07.callHandler` (`save_before` as the rule
    applied to `is_repeat`): the snapshot is taken iff `save_before`, with `clear_redo_stack=True`,
    BEFORE the handler body, and the body then runs on the snapshotted state.  Emacs mode
    (`viMode = false`: `_fix_vi_cursor_position` is the identity; in Vi mode C07 lists the fix as an
    explicit `.edit viFix` of the body), writable buffer, C05's invariant. -/
theorem callHandler_C07_C05 (a : C05.App) (hvi : a.viMode = false) (h : C05.Inv a.buf)
    (hro : a.buf.readOnly = false) (us : List UOp) (hv : ∀ u ∈ us, u.Valid)
    (hid : Nat) (rule : Bool → Bool) (prev : Option Nat) :
    let r := C05.callHandler (fun x => C05.hrun x (us.map (fun u => C05.HOp.buf u.op05)))
      (rule (decide (prev = some hid))) a
    r.2 = .ok ∧
    (⟨tr r.1.buf, some hid⟩ : C07.KSt) = C07.callHandler hid rule (us.map UOp.act07) ⟨tr a.buf, prev⟩ := by
  intro r
  have hmap : us.map (fun u => C05.HOp.buf u.op05) = (us.map UOp.op05).map C05.HOp.buf := by
    simp [List.map_map, Function.comp_def]
  have key : ∀ (b : C05.Buf), C05.Inv b → b.readOnly = false → ∀ a1 : C05.App, a1.viMode = false →
      let x := C05.hrun { a1 with buf := b } (us.map (fun u => C05.HOp.buf u.op05))
      x.2 = .ok ∧ x.1.viMode = false ∧ tr x.1.buf = (us.map UOp.act07).foldl C07.act (tr b) := by
    intro b hb hrb a1 ha1
    have := run_C07_C05 us b hb hrb hv
    rw [hmap, hrun_buf a1 (us.map UOp.op05) b]
    exact ⟨this.1, ha1, this.2.2.2⟩
  have fixId : ∀ x : C05.App, x.viMode = false → C05.fixViCursor x = x := by
    intro x hx; simp [C05.fixViCursor, C05.viNavigationMode, hx]
  have tempBuf : ∀ x : C05.App, (C05.leaveTempNav x).buf = x.buf := by
    intro x; unfold C05.leaveTempNav; split
    · split <;> rfl
    · rfl
  cases hsb : rule (decide (prev = some hid)) with
  | false =>
    have k := key a.buf h hro { a with arg := none } hvi
    simp only [] at k
    have e : ({ ({ a with arg := none } : C05.App) with buf := a.buf } : C05.App) = { a with arg := none } := rfl
    rw [e] at k
    simp only [r, hsb, C05.callHandler, Bool.false_eq_true, if_false, C07.callHandler]
    generalize C05.hrun { a with arg := none } (us.map (fun u => C05.HOp.buf u.op05)) = x at k
    obtain ⟨a2, o⟩ := x
    simp only [] at k
    rw [k.1]
    simp only [fixId a2 k.2.1]
    refine ⟨trivial, ?_⟩
    split <;> simp [tempBuf, k.2.2]
  | true =>
    have hinv := C05.saveUndo_inv a.buf true h
    have k := key (C05.saveUndo a.buf true) hinv hro { a with arg := none } hvi
    simp only [] at k
    simp only [r, hsb, C05.callHandler, if_true, C07.callHandler]
    generalize C05.hrun { ({ a with arg := none } : C05.App) with buf := C05.saveUndo a.buf true }
      (us.map (fun u => C05.HOp.buf u.op05)) = x at k
    obtain ⟨a2, o⟩ := x
    simp only [] at k
    rw [k.1]
    simp only [fixId a2 k.2.1]
    refine ⟨trivial, ?_⟩
    rw [← save_C07_C05]
    split <;> simp [tempBuf, k.2.2]

/-- key_processor.py::KeyProcessor._call_handler — a handler that raises `EditReadOnlyBuffer`
    (here: `Buffer.undo()` on a read-only buffer) is caught: `Ptk.C05.callHandler` ends `.ok`, and
    the undo state is that of `Ptk.C07.callHandlerO .readOnly` with the body `[.undoRO true]`;
    the `save_before` snapshot taken before the handler is kept in both (`_fix_vi_cursor_position`
    is skipped on this path, so this holds in both editing modes) -/
theorem callHandler_readOnly_C07_C05 (a : C05.App)
    (hro : a.buf.readOnly = true) (hid : Nat) (rule : Bool → Bool) (prev : Option Nat) :
    let r := C05.callHandler (fun x => C05.hrun x [.buf .undo]) (rule (decide (prev = some hid))) a
    r.2 = .ok ∧
    (⟨tr r.1.buf, some hid⟩ : C07.KSt)
      = C07.callHandlerO .readOnly hid rule [.undoRO true] ⟨tr a.buf, prev⟩ := by
  intro r
  have tempBuf : ∀ x : C05.App, (C05.leaveTempNav x).buf = x.buf := by
    intro x; unfold C05.leaveTempNav; split
    · split <;> rfl
    · rfl
  cases hsb : rule (decide (prev = some hid)) with
  | false =>
    simp only [r, hsb, C05.callHandler, C05.hrun, C05.hstep, C05.step, C05.undo, hro, if_true,
      Bool.false_eq_true, if_false, C07.callHandlerO, C07.prevAfter, List.foldl, C07.act, C07.undoRO]
    refine ⟨trivial, ?_⟩
    split <;> simp [tempBuf]
  | true =>
    have hro' : (C05.saveUndo a.buf true).readOnly = true := hro
    simp only [r, hsb, C05.callHandler, C05.hrun, C05.hstep, C05.step, C05.undo, hro', if_true,
      C07.callHandlerO, C07.prevAfter, List.foldl, C07.act, C07.undoRO]
    refine ⟨trivial, ?_⟩
    rw [← save_C07_C05]
    split <;> simp [tempBuf]

/-- non-vacuity: type `ab` as two commands (snapshot before each), undo, redo — the two models
    give the same stacks -/
example :
    let b : C05.Buf := { lines := [[]], idx := 0, cur := 0, sel := none, multi := [], undo := [],
                         redo := [], readOnly := false, hsearch := none, enableHS := false }
    let us : List UOp := [.save true, .setDoc ['a'] 1, .save true, .setDoc ['a', 'b'] 2, .undo, .redo]
    tr (C05.run b (us.map UOp.op05)).1 = (us.map UOp.act07).foldl C07.act (tr b) ∧
    (tr (C05.run b (us.map UOp.op05)).1).undo.length = 2 := by decide

end Ptk.AgreeCtl.Undo
