/-
  C03 — lemmas about the incremental UTF-8 decoder model (`Ptk.Model.C03Utf8`).
-/
import Ptk.Model.C03Utf8
import Ptk.Props.C03Lemmas
namespace Ptk.C03.Utf8
open Ptk.Py Ptk.C03

theorem step2_append {b0 : Nat} {t : Bytes} {o : List Nat} {r : Bytes} (b : Bytes)
    (h : step2 b0 t = some (o, r)) : step2 b0 (t ++ b) = some (o, r ++ b) := by
  rcases t with _ | ⟨b1, t1⟩
  · simp [step2] at h
  · simp only [step2, List.cons_append] at h ⊢
    split at h <;> (cases h; simp_all)

theorem step3_append {b0 : Nat} {t : Bytes} {o : List Nat} {r : Bytes} (b : Bytes)
    (h : step3 b0 t = some (o, r)) : step3 b0 (t ++ b) = some (o, r ++ b) := by
  rcases t with _ | ⟨b1, _ | ⟨b2, t2⟩⟩
  · simp [step3] at h
  · simp only [step3, List.cons_append, List.nil_append] at h ⊢
    repeat' split at h
    all_goals (cases h; try simp_all)
  · simp only [step3, List.cons_append] at h ⊢
    repeat' split at h
    all_goals (cases h; try simp_all)

theorem step4_append {b0 : Nat} {t : Bytes} {o : List Nat} {r : Bytes} (b : Bytes)
    (h : step4 b0 t = some (o, r)) : step4 b0 (t ++ b) = some (o, r ++ b) := by
  rcases t with _ | ⟨b1, _ | ⟨b2, _ | ⟨b3, t3⟩⟩⟩
  · simp [step4] at h
  all_goals
    simp only [step4, List.cons_append, List.nil_append] at h ⊢
    repeat' split at h
    all_goals (cases h; try simp_all)

/-- a decoding step never looks back: once it has produced output, more input does not change it -/
theorem step_append {a : Bytes} {o : List Nat} {r : Bytes} (b : Bytes) (h : step a = some (o, r)) :
    step (a ++ b) = some (o, r ++ b) := by
  cases a with
  | nil => simp [step] at h
  | cons b0 t =>
    simp only [List.cons_append, step] at h ⊢
    by_cases c1 : b0 < 0x80
    · simp only [c1, if_true] at h ⊢; cases h; rfl
    · simp only [c1, if_false] at h ⊢
      by_cases c2 : b0 < 0xC2
      · simp only [c2, if_true] at h ⊢; cases h; rfl
      · simp only [c2, if_false] at h ⊢
        by_cases c3 : b0 < 0xE0
        · simp only [c3, if_true] at h ⊢; exact step2_append b h
        · simp only [c3, if_false] at h ⊢
          by_cases c4 : b0 < 0xF0
          · simp only [c4, if_true] at h ⊢; exact step3_append b h
          · simp only [c4, if_false] at h ⊢
            by_cases c5 : b0 < 0xF5
            · simp only [c5, if_true] at h ⊢; exact step4_append b h
            · simp only [c5, if_false] at h ⊢; cases h; rfl

/-- every step consumes at least one byte -/
theorem step_lt {a : Bytes} {o : List Nat} {r : Bytes} (h : step a = some (o, r)) :
    r.length < a.length := by
  cases a with
  | nil => simp [step] at h
  | cons b0 t =>
    simp only [step] at h
    repeat' split at h
    · cases h; simp
    · cases h; simp
    · rcases t with _ | ⟨b1, t1⟩
      · simp [step2] at h
      · simp only [step2] at h
        split at h <;> (cases h; simp; try omega)
    · rcases t with _ | ⟨b1, _ | ⟨b2, t2⟩⟩
      · simp [step3] at h
      all_goals
        simp only [step3] at h
        repeat' split at h
        all_goals (cases h; all_goals (simp; try omega))
    · rcases t with _ | ⟨b1, _ | ⟨b2, _ | ⟨b3, t3⟩⟩⟩
      · simp [step4] at h
      all_goals
        simp only [step4] at h
        repeat' split at h
        all_goals (cases h; all_goals (simp; try omega))
    · cases h; simp

/-! ### `scan`: fuel, unfolding, appending input -/

theorem scanFuel_stable (n : Nat) : ∀ (m : Nat) (a : Bytes), a.length ≤ n → a.length ≤ m →
    scanFuel n a = scanFuel m a := by
  induction n with
  | zero =>
    intro m a h1 _
    have : a = [] := List.eq_nil_of_length_eq_zero (by omega)
    subst this
    cases m <;> simp [scanFuel, step]
  | succ n ih =>
    intro m a h1 h2
    cases m with
    | zero =>
      have : a = [] := List.eq_nil_of_length_eq_zero (by omega)
      subst this
      simp [scanFuel, step]
    | succ m =>
      rw [scanFuel, scanFuel]
      cases hs : step a with
      | none => rfl
      | some x =>
        obtain ⟨o, r⟩ := x
        have := step_lt hs
        simp only
        rw [ih m r (by omega) (by omega)]

theorem scan_eq (a : Bytes) :
    scan a = match step a with
      | none => ([], a)
      | some (o, r) => (o ++ (scan r).1, (scan r).2) := by
  unfold scan
  cases a with
  | nil => simp [scanFuel, step]
  | cons x xs =>
    rw [List.length_cons, scanFuel]
    cases hs : step (x :: xs) with
    | none => rfl
    | some y =>
      obtain ⟨o, r⟩ := y
      have := step_lt hs
      simp only [List.length_cons] at this ⊢
      rw [scanFuel_stable xs.length r.length r (by omega) (Nat.le_refl _)]

/-- what `scan` leaves over is an incomplete sequence -/
theorem scan_rest (a : Bytes) : step (scan a).2 = none := by
  generalize hn : a.length = n
  induction n using Nat.strongRecOn generalizing a with
  | _ n ih =>
    rw [scan_eq]
    cases hs : step a with
    | none => exact hs
    | some y =>
      obtain ⟨o, r⟩ := y
      exact ih _ (by rw [← hn]; exact step_lt hs) r rfl

theorem scan_of_none {a : Bytes} (h : step a = none) : scan a = ([], a) := by
  rw [scan_eq, h]

/-- decoding `a ++ b` = decoding `a`, then decoding what was left over followed by `b` -/
theorem scan_append' (a b : Bytes) :
    scan (a ++ b) = ((scan a).1 ++ (scan ((scan a).2 ++ b)).1, (scan ((scan a).2 ++ b)).2) := by
  generalize hn : a.length = n
  induction n using Nat.strongRecOn generalizing a with
  | _ n ih =>
    cases hs : step a with
    | none => rw [scan_of_none hs]; simp
    | some y =>
      obtain ⟨o, r⟩ := y
      have hlt := step_lt hs
      rw [scan_eq (a ++ b), step_append b hs, scan_eq a, hs]
      simp only
      rw [ih _ (by rw [← hn]; exact hlt) r rfl]
      simp

/-! ### the reader + parser pipeline -/

/-- at rest: the decoder buffer is an incomplete sequence, the paste buffer holds no end mark -/
def InReady (st : InSt) : Prop := step st.dec = none ∧ Ready st.p

theorem inReady_init : InReady InSt.init := ⟨rfl, ready_init⟩

theorem readKeys_ready (cfg : Cfg) (st : InSt) (c : Bytes) (h : InReady st) :
    InReady (readKeys cfg st c) := by
  unfold readKeys decode
  exact ⟨scan_rest _, feed_ready cfg _ _ h.2⟩

theorem flushKeys_ready (cfg : Cfg) (st : InSt) (h : InReady st) : InReady (flushKeys cfg st) :=
  ⟨h.1, flush_ready cfg _ h.2⟩

theorem readKeys_nil (cfg : Cfg) (st : InSt) (h : InReady st) : readKeys cfg st [] = st := by
  unfold readKeys decode
  rw [List.append_nil, scan_of_none h.1]
  simp [feed_nil cfg _ h.2]

/-- decoding `a` then `b` (carrying the undecoded tail over) = decoding `a ++ b` at once -/
theorem decode_append_aux (buf a b : Bytes) :
    decode buf (a ++ b) =
      ((decode buf a).1 ++ (decode (decode buf a).2 b).1, (decode (decode buf a).2 b).2) := by
  unfold decode
  rw [← List.append_assoc, scan_append']

/-- two reads delivering `a` then `b` = one read delivering `a ++ b` -/
theorem readKeys_append_aux (cfg : Cfg) (st : InSt) (a b : Bytes) :
    readKeys cfg st (a ++ b) = readKeys cfg (readKeys cfg st a) b := by
  unfold readKeys
  rw [decode_append_aux]
  simp [feed_append_aux]

end Ptk.C03.Utf8
