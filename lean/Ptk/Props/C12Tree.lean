/-
  C12 — nested split containers (`Ptk.Model.C12Tree`): whatever a tree of HSplit / VSplit /
  windows with valid dimensions draws, every drawn window lies inside the region given to the
  root, and no two drawn windows overlap.  Holds for every depth bound and every fuel
  (statements are about finished runs, `render … = some …`).
-/
import Ptk.Model.C12Tree
import Ptk.Props.C12
namespace Ptk.C12


/-- the explicit dimension can be constructed (`Dimension(...)` does not raise) -/
def Spec.OK (s : Spec) : Prop := ¬ s.mx.getD Gen.C12.defaultMax < s.mn.getD Gen.C12.defaultMin

/-- side condition on the regenerated constant: an unspecified minimum is 0 -/
theorem gen_defaultMin : Gen.C12.defaultMin = 0 := by decide

theorem mkDim_fields {mn mx w pr : Option Nat} {d : Dim} (h : mkDim mn mx w pr = some d) :
    d.min = mn.getD Gen.C12.defaultMin ∧ d.max = mx.getD Gen.C12.defaultMax ∧
    d.weight = w.getD Gen.C12.defaultWeight := by
  unfold mkDim at h
  simp only at h
  split_ifs at h <;> simp only [Option.some.injEq] at h <;> subst h <;> exact ⟨rfl, rfl, rfl⟩

/-- **`_merge_dimensions` never raises** for a constructible explicit dimension, whatever the
    control prefers and whether or not `dont_extend` is set, and reports a valid dimension
    (min ≤ preferred ≤ max) that keeps the explicit minimum and weight. -/
theorem mergeDims_some {s : Spec} (hs : s.OK) (content : Option Nat) (de : Bool) :
    ∃ d, mergeDims s content de = some d ∧ d.Valid ∧
      d.min = s.mn.getD Gen.C12.defaultMin ∧ d.weight = s.w.getD Gen.C12.defaultWeight := by
  unfold mergeDims
  rcases h0 : mkDim s.mn s.mx s.w s.pr with _ | d0
  · exact absurd ((mkDim_none_iff _ _ _ _).mp h0) hs
  simp only
  obtain ⟨f1, f2, f3⟩ := mkDim_fields h0
  have hv0 := mkDim_valid h0
  unfold Dim.Valid at hv0
  -- the minimum handed to the second `Dimension(...)` is the first one's minimum
  have hmn : (s.mn.map fun _ => d0.min).getD Gen.C12.defaultMin = d0.min := by
    cases hm : s.mn <;> simp [hm, f1]
  generalize hp : (Option.map (fun v => clampSpec v d0 s.mn s.mx)
      (if s.pr.isSome = true then some d0.pref else content)) = p
  -- a preferred size, when there is one, is at least the minimum
  have hpge : ∀ v, p = some v → d0.min ≤ v := by
    intro v hv
    rw [← hp] at hv
    rcases Option.map_eq_some_iff.mp hv with ⟨v0, _, rfl⟩
    unfold clampSpec
    cases hm : s.mn with
    | none =>
      rw [f1, hm]; simp [gen_defaultMin]
    | some m => simp only [Option.isSome_some, if_true, Nat.max_def]; split_ifs <;> omega
  generalize hmx : (if (de && p.isSome) = true then p.map (Nat.min d0.max)
      else s.mx.map fun _ => d0.max) = mx
  have hmxge : d0.min ≤ mx.getD Gen.C12.defaultMax := by
    rw [← hmx]
    split_ifs with hc
    · cases hpv : p with
      | none => rw [hpv] at hc; simp at hc
      | some v =>
        have := hpge v hpv
        simp only [Option.map_some, Option.getD_some, Nat.min_def]; split_ifs <;> omega
    · cases hx : s.mx with
      | none => rw [hx] at f2; simp only [Option.getD_none] at f2; simp; omega
      | some m => simp; omega
  rcases h1 : mkDim (s.mn.map fun _ => d0.min) mx (some d0.weight) p with _ | d
  · have := (mkDim_none_iff _ _ _ _).mp h1
    rw [hmn] at this; omega
  · obtain ⟨g1, _, g3⟩ := mkDim_fields h1
    exact ⟨d, rfl, mkDim_valid h1, by rw [g1, hmn, f1], by rw [g3]; simpa using f3⟩

example : mergeDims ⟨some 2, none, none, none⟩ (some 7) true = some ⟨2, 7, 7, 1⟩ := by decide
example : mergeDims ⟨some 2, some 5, some 0, none⟩ (some 7) true = some ⟨2, 5, 5, 0⟩ := by decide
example : mergeDims ⟨some 4, none, none, none⟩ (some 1) true = some ⟨4, 4, 4, 1⟩ := by decide
example : mergeDims ⟨none, none, none, some 3⟩ (some 9) false
    = some ⟨0, 3, Gen.C12.defaultMax, 1⟩ := by decide


/-- `Window(width=Dimension(...))` with a `DummyControl` is the special case without content
    preference and without `dont_extend` -/
theorem windowDim_eq_mergeDims (mn mx w pr : Option Nat) :
    windowDim mn mx w pr = mergeDims ⟨mn, mx, w, pr⟩ none false := by
  unfold windowDim mergeDims
  rcases mkDim mn mx w pr with _ | d
  · rfl
  · simp only [Bool.false_and, Bool.false_eq_true, if_false]
    congr 1
    cases pr <;> rfl

/-- all dimensions in the tree are valid (`Dimension.__init__` guarantees it) -/
inductive Node.Valid : Node → Prop
  | win {id : Nat} {w h : Dim} : w.Valid → h.Valid → Node.Valid (.win id w h)
  | hsplit {al : Align} {pad : Dim} {cs : List Node} :
      pad.Valid → (∀ c ∈ cs, Node.Valid c) → Node.Valid (.hsplit al pad cs)
  | vsplit {al : Align} {pad : Dim} {cs : List Node} :
      pad.Valid → (∀ c ∈ cs, Node.Valid c) → Node.Valid (.vsplit al pad cs)
  | winx {id : Nat} {sw sh : Spec} {cw ch : Option Nat} {dew deh : Bool} :
      sw.OK → sh.OK → Node.Valid (.winx id sw sh cw ch dew deh)
  | cond {on : Bool} {c : Node} : Node.Valid c → Node.Valid (.cond on c)
  | sized {w h : Option Dim} {c : Node} :
      (∀ d, w = some d → d.Valid) → (∀ d, h = some d → d.Valid) → Node.Valid c →
      Node.Valid (.sized w h c)

/-- `q` lies inside `r` -/
def Rect.inside (q r : Rect) : Prop :=
  r.x ≤ q.x ∧ q.x + q.w ≤ r.x + r.w ∧ r.y ≤ q.y ∧ q.y + q.h ≤ r.y + r.h

/-- `a` and `b` share no cell -/
def Rect.disjoint (a b : Rect) : Prop :=
  a.x + a.w ≤ b.x ∨ b.x + b.w ≤ a.x ∨ a.y + a.h ≤ b.y ∨ b.y + b.h ≤ a.y

theorem Rect.inside_trans {a b c : Rect} (h1 : a.inside b) (h2 : b.inside c) : a.inside c := by
  unfold Rect.inside at *; omega

/-! ### `mapM?` -/

theorem mapM?_forall₂ {α β : Type} (f : α → Option β) :
    ∀ (l : List α) (out : List β), mapM? f l = some out →
      List.Forall₂ (fun a b => f a = some b) l out := by
  intro l
  induction l with
  | nil => intro out h; simp only [mapM?, Option.some.injEq] at h; subst h; exact .nil
  | cons a as ih =>
    intro out h
    unfold mapM? at h
    rcases h1 : f a with _ | b
    · rw [h1] at h; simp at h
    · rcases h2 : mapM? f as with _ | bs
      · rw [h1, h2] at h; simp at h
      · rw [h1, h2] at h
        simp only [Option.some.injEq] at h
        subst h
        exact .cons h1 (ih bs h2)

theorem forall₂_mem_right {α β : Type} {S : α → β → Prop} {l : List α} {out : List β}
    (h : List.Forall₂ S l out) {b : β} (hb : b ∈ out) : ∃ a ∈ l, S a b := by
  induction h with
  | nil => simp at hb
  | cons hab _ ih =>
    rcases List.mem_cons.mp hb with rfl | hb
    · exact ⟨_, List.mem_cons_self, hab⟩
    · obtain ⟨a, ha, hs⟩ := ih hb
      exact ⟨a, List.mem_cons_of_mem _ ha, hs⟩

theorem forall₂_pairwise {α β : Type} {S : α → β → Prop} {P : α → α → Prop} {Q : β → β → Prop}
    (hPQ : ∀ a1 a2 b1 b2, S a1 b1 → S a2 b2 → P a1 a2 → Q b1 b2)
    {l : List α} {out : List β} (h : List.Forall₂ S l out) (hp : l.Pairwise P) :
    out.Pairwise Q := by
  induction h with
  | nil => exact .nil
  | cons hab hrest ih =>
    rw [List.pairwise_cons] at hp ⊢
    refine ⟨?_, ih hp.2⟩
    intro b hb
    obtain ⟨a, ha, hs⟩ := forall₂_mem_right hrest hb
    exact hPQ _ _ _ _ hab hs (hp.1 a ha)

/-! ### regions -/

theorem offsets_zip_bounds : ∀ (sizes : List Nat) (start : Nat),
    ∀ p ∈ (offsets start sizes).zip sizes, start ≤ p.1 ∧ p.1 + p.2 ≤ start + sizes.sum := by
  intro sizes
  induction sizes with
  | nil => intro start p hp; simp [offsets] at hp
  | cons s ss ih =>
    intro start p hp
    simp only [offsets, List.zip_cons_cons, List.mem_cons] at hp
    rcases hp with rfl | hp
    · simp
    · have := ih (start + s) p hp
      simp only [List.sum_cons]
      omega

theorem offsets_zip_pairwise : ∀ (sizes : List Nat) (start : Nat),
    ((offsets start sizes).zip sizes).Pairwise (fun p q => p.1 + p.2 ≤ q.1) := by
  intro sizes
  induction sizes with
  | nil => intro start; simp [offsets]
  | cons s ss ih =>
    intro start
    simp only [offsets, List.zip_cons_cons, List.pairwise_cons]
    refine ⟨?_, ih (start + s)⟩
    intro q hq
    exact (offsets_zip_bounds ss (start + s) q hq).1

theorem pairwise_zip_left {α β : Type} {R : α → α → Prop} :
    ∀ {l : List α} (l' : List β), l.Pairwise R → (l.zip l').Pairwise (fun p q => R p.1 q.1) := by
  intro l
  induction l with
  | nil => intro l' _; simp
  | cons a as ih =>
    intro l' h
    cases l' with
    | nil => simp
    | cons b bs =>
      rw [List.pairwise_cons] at h
      simp only [List.zip_cons_cons, List.pairwise_cons]
      refine ⟨?_, ih bs h.2⟩
      intro q hq
      exact h.1 q.1 (List.of_mem_zip hq).1

/-! ### validity of everything the containers report -/

theorem dNone_valid : dNone.Valid := by
  unfold dNone
  rcases h : mkDim none none none none with _ | d
  · exact absurd h (by decide)
  · exact mkDim_valid h

theorem dPref0_valid : dPref0.Valid := by
  unfold dPref0
  rcases h : mkDim none none none (some 0) with _ | d
  · exact absurd h (by decide)
  · exact mkDim_valid h

theorem sumDims_valid' {ds : List Dim} {d : Dim} (h : sumDims ds = some d) : d.Valid :=
  mkDim_valid h

theorem maxDims_valid' {ds : List Dim} (hv : ValidDims ds) {d : Dim} (h : maxDims ds = some d) :
    d.Valid := by
  obtain ⟨d', h1, h2⟩ := maxDims_valid hv
  rw [h1] at h
  simp only [Option.some.injEq] at h
  subst h
  exact h2

theorem allNodes_valid {horizontal : Bool} {al : Align} {pad : Dim} {cs : List Node}
    (hp : pad.Valid) (hc : ∀ c ∈ cs, Node.Valid c) :
    ∀ p ∈ allNodes horizontal al pad cs, Node.Valid p.2 := by
  intro p hp'
  have hfill : Node.Valid (.win auxId dPref0 dNone) := .win dPref0_valid dNone_valid
  have hpad : Node.Valid (if horizontal then Node.win auxId dNone pad else Node.win auxId pad dNone) := by
    split_ifs
    · exact .win dNone_valid hp
    · exact .win hp dNone_valid
  unfold allNodes at hp'
  simp only [List.mem_append] at hp'
  rcases hp' with hp' | hp'
  · have hp'' := (List.dropLast_sublist _).subset hp'
    simp only [List.mem_append, List.mem_flatMap] at hp''
    rcases hp'' with hp'' | ⟨c, hc', hp''⟩
    · split_ifs at hp'' <;> simp at hp''; subst hp''; exact hfill
    · simp only [List.mem_cons, List.not_mem_nil, or_false] at hp''
      rcases hp'' with rfl | rfl
      · exact hc c hc'
      · exact hpad
  · split_ifs at hp' <;> simp at hp'; subst hp'; exact hfill

theorem validDims_of_forall₂ {α : Type} {f : α → Option Dim} {l : List α} {ds : List Dim}
    (h : List.Forall₂ (fun a b => f a = some b) l ds)
    (hv : ∀ a ∈ l, ∀ d, f a = some d → d.Valid) : ValidDims ds := by
  intro d hd
  obtain ⟨a, ha, hs⟩ := forall₂_mem_right h hd
  exact hv a ha d hs

theorem prefW_valid (fuel : Nat) : ∀ (d : Nat) (n : Node) (avail : Nat) (dim : Dim),
    n.Valid → prefW fuel d n avail = some dim → dim.Valid := by
  intro d
  induction d with
  | zero =>
    intro n avail dim hv h
    cases hv with
    | win hw _ => simp only [prefW, Option.some.injEq] at h; subst h; exact hw
    | hsplit _ _ => simp only [prefW, Option.some.injEq] at h; subst h; exact dNone_valid
    | vsplit _ _ => simp only [prefW, Option.some.injEq] at h; subst h; exact dNone_valid
    | @winx id sw sh cw ch dew deh hsw _ =>
      simp only [prefW] at h
      obtain ⟨d', h1, h2, _⟩ := mergeDims_some hsw cw dew
      rw [h1] at h; simp only [Option.some.injEq] at h; subst h; exact h2
    | cond _ => simp only [prefW, Option.some.injEq] at h; subst h; exact dNone_valid
    | sized _ _ _ => simp only [prefW, Option.some.injEq] at h; subst h; exact dNone_valid
  | succ d ih =>
    intro n avail dim hv h
    cases hv with
    | win hw _ => simp only [prefW, Option.some.injEq] at h; subst h; exact hw
    | @winx id sw sh cw ch dew deh hsw _ =>
      simp only [prefW] at h
      obtain ⟨d', h1, h2, _⟩ := mergeDims_some hsw cw dew
      rw [h1] at h; simp only [Option.some.injEq] at h; subst h; exact h2
    | @cond on c hc =>
      simp only [prefW] at h
      split_ifs at h
      · exact ih c avail dim hc h
      · exact mkDim_valid h
    | @sized w hh c hw _ hc =>
      simp only [prefW] at h
      cases w with
      | some w' => simp only [Option.some.injEq] at h; subst h; exact hw _ rfl
      | none => exact ih c avail dim hc h
    | @hsplit al pad cs hp hc =>
      simp only [prefW] at h
      split_ifs at h with he
      · simp only [Option.some.injEq] at h; subst h; exact dNone_valid
      · rcases hm : mapM? (fun c => prefW fuel d c avail) cs with _ | ds
        · rw [hm] at h; simp at h
        · rw [hm] at h
          simp only at h
          apply maxDims_valid' _ h
          exact validDims_of_forall₂ (mapM?_forall₂ _ _ _ hm)
            (fun c hc' dm hdm => ih c avail dm (hc c hc') hdm)
    | @vsplit al pad cs hp hc =>
      simp only [prefW] at h
      rcases hm : mapM? (fun c : Tag × Node => prefW fuel d c.2 avail) (allNodes false al pad cs)
        with _ | ds
      · rw [hm] at h; simp at h
      · rw [hm] at h
        exact sumDims_valid' h

theorem prefH_valid (fuel : Nat) : ∀ (d : Nat) (n : Node) (width availH : Nat) (dim : Dim),
    n.Valid → prefH fuel d n width availH = some dim → dim.Valid := by
  intro d
  induction d with
  | zero =>
    intro n width availH dim hv h
    cases hv with
    | win _ hh => simp only [prefH, Option.some.injEq] at h; subst h; exact hh
    | hsplit _ _ => simp only [prefH, Option.some.injEq] at h; subst h; exact dNone_valid
    | vsplit _ _ => simp only [prefH, Option.some.injEq] at h; subst h; exact dNone_valid
    | @winx id sw sh cw ch dew deh _ hsh =>
      simp only [prefH] at h
      obtain ⟨d', h1, h2, _⟩ := mergeDims_some hsh ch deh
      rw [h1] at h; simp only [Option.some.injEq] at h; subst h; exact h2
    | cond _ => simp only [prefH, Option.some.injEq] at h; subst h; exact dNone_valid
    | sized _ _ _ => simp only [prefH, Option.some.injEq] at h; subst h; exact dNone_valid
  | succ d ih =>
    intro n width availH dim hv h
    cases hv with
    | win _ hh => simp only [prefH, Option.some.injEq] at h; subst h; exact hh
    | @winx id sw sh cw ch dew deh _ hsh =>
      simp only [prefH] at h
      obtain ⟨d', h1, h2, _⟩ := mergeDims_some hsh ch deh
      rw [h1] at h; simp only [Option.some.injEq] at h; subst h; exact h2
    | @cond on c hc =>
      simp only [prefH] at h
      split_ifs at h
      · exact ih c width availH dim hc h
      · exact mkDim_valid h
    | @sized w hh c _ hhv hc =>
      simp only [prefH] at h
      cases hh with
      | some h' => simp only [Option.some.injEq] at h; subst h; exact hhv _ rfl
      | none => exact ih c width availH dim hc h
    | @hsplit al pad cs hp hc =>
      simp only [prefH] at h
      rcases hm : mapM? (fun c : Tag × Node => prefH fuel d c.2 width availH) (allNodes true al pad cs)
        with _ | ds
      · rw [hm] at h; simp at h
      · rw [hm] at h
        exact sumDims_valid' h
    | @vsplit al pad cs hp hc =>
      simp only [prefH] at h
      rcases hdw : divideWidths fuel d al pad cs width with _ | _ | sizes
      · rw [hdw] at h; simp at h
      · rw [hdw] at h
        simp only [Option.some.injEq] at h; subst h; exact dNone_valid
      · rw [hdw] at h
        simp only at h
        rcases hm : mapM? (fun p : Nat × (Tag × Node) => prefH fuel d p.2.2 p.1 availH)
            (sizes.zip (allNodes false al pad cs)) with _ | ds
        · rw [hm] at h; simp at h
        · rw [hm] at h
          simp only at h
          apply maxDims_valid' _ h
          apply validDims_of_forall₂ (mapM?_forall₂ _ _ _ hm)
          intro p hp' dm hdm
          exact ih p.2.2 p.1 availH dm
            (allNodes_valid hp hc p.2 (List.of_mem_zip hp').2) hdm

/-! ### drawing -/

theorem mem_remRects {mk : Nat × Nat → Rect} {rem : Option (Nat × Nat)} {x : Tag × Rect}
    (h : x ∈ remRects mk rem) : ∃ p, rem = some p ∧ x.2 = mk p := by
  unfold remRects at h
  cases rem with
  | none => simp at h
  | some p =>
    simp only at h
    split_ifs at h
    · simp only [List.mem_singleton] at h; subst h; exact ⟨p, rfl, rfl⟩
    · simp at h

theorem remRects_pairwise (mk : Nat × Nat → Rect) (rem : Option (Nat × Nat))
    (R : Tag × Rect → Tag × Rect → Prop) : (remRects mk rem).Pairwise R := by
  unfold remRects
  cases rem with
  | none => simp
  | some p => simp only; split_ifs <;> simp

theorem layout_rem {start avail : Nat} {sizes : List Nat} {p : Nat × Nat}
    (h : (layout start avail sizes).2 = some p) :
    p = (start + sizes.sum, avail - sizes.sum) := by
  simp only [layout] at h
  split_ifs at h
  simp only [Option.some.injEq] at h
  exact h.symm

/-- what we prove about a list of drawn windows relative to the region `r` -/
def DrawnOK (rs : List (Tag × Rect)) (r : Rect) : Prop :=
  (∀ p ∈ rs, p.2.inside r) ∧ rs.Pairwise (fun a b => a.2.disjoint b.2)

/-- The children of one split: each is rendered into its own region `mk p`; if the regions lie
    inside `r` and regions of earlier children end before later ones begin, the union is fine. -/
theorem children_drawnOK {fuel d : Nat} {r : Rect} (mk : Nat × Nat → Rect)
    (ih : ∀ (t : Tag) (n : Node) (rr : Rect) (out : List (Tag × Rect)), n.Valid →
      render fuel d t n rr = some out → DrawnOK out rr)
    {regs : List (Nat × Nat)} {all : List (Tag × Node)} {rs : List (List (Tag × Rect))}
    (hvalid : ∀ p ∈ all, Node.Valid p.2)
    (hin : ∀ p ∈ regs, (mk p).inside r)
    (hord : regs.Pairwise (fun p q => ∀ a b : Rect, a.inside (mk p) → b.inside (mk q) → a.disjoint b))
    (h : mapM? (fun p : (Nat × Nat) × (Tag × Node) => render fuel d p.2.1 p.2.2 (mk p.1))
      (regs.zip all) = some rs) :
    DrawnOK rs.flatten r := by
  have hf := mapM?_forall₂ _ _ _ h
  constructor
  · intro x hx
    obtain ⟨l, hl, hxl⟩ := List.mem_flatten.mp hx
    obtain ⟨p, hp, hs⟩ := forall₂_mem_right hf hl
    have hz := List.of_mem_zip hp
    have := ih p.2.1 p.2.2 (mk p.1) l (hvalid p.2 hz.2) hs
    exact Rect.inside_trans (this.1 x hxl) (hin p.1 hz.1)
  · rw [List.pairwise_flatten]
    constructor
    · intro l hl
      obtain ⟨p, hp, hs⟩ := forall₂_mem_right hf hl
      have hz := List.of_mem_zip hp
      exact (ih p.2.1 p.2.2 (mk p.1) l (hvalid p.2 hz.2) hs).2
    · have hz := pairwise_zip_left all hord
      -- transfer the ordering of the regions to the rendered lists
      have hmem : (regs.zip all).Pairwise (fun p q =>
          (p ∈ regs.zip all ∧ q ∈ regs.zip all) ∧
          ∀ a b : Rect, a.inside (mk p.1) → b.inside (mk q.1) → a.disjoint b) := by
        rw [List.pairwise_iff_forall_sublist] at hz ⊢
        intro a b hab
        exact ⟨⟨hab.subset (by simp), hab.subset (by simp)⟩, hz hab⟩
      refine forall₂_pairwise ?_ hf hmem
      intro p q l1 l2 h1 h2 hpq x hx y hy
      have o1 := ih p.2.1 p.2.2 (mk p.1) l1 (hvalid p.2 (List.of_mem_zip hpq.1.1).2) h1
      have o2 := ih q.2.1 q.2.2 (mk q.1) l2 (hvalid q.2 (List.of_mem_zip hpq.1.2).2) h2
      exact hpq.2 x.2 y.2 (o1.1 x hx) (o2.1 y hy)

/-- a window with `dont_extend_width` / `dont_extend_height` is drawn on a region that starts
    where the region it was given starts and is at most as wide and as high -/
theorem winRect_inside {sw sh : Spec} {cw ch : Option Nat} {dew deh : Bool} {r q : Rect}
    (h : winRect sw sh cw ch dew deh r = some q) : q.inside r ∧ q.x = r.x ∧ q.y = r.y := by
  unfold winRect at h
  rcases h1 : mergeDims sw cw dew with _ | dw
  · rw [h1] at h; simp at h
  rcases h2 : mergeDims sh ch deh with _ | dh
  · rw [h1, h2] at h; simp at h
  rw [h1, h2] at h
  simp only [Option.some.injEq] at h
  subst h
  unfold Rect.inside
  simp only [Nat.min_def]
  refine ⟨⟨le_refl _, ?_, le_refl _, ?_⟩, trivial, trivial⟩ <;> split_ifs <;> omega

theorem winx_drawnOK {fuel d : Nat} {t : Tag} {id : Nat} {sw sh : Spec} {cw ch : Option Nat}
    {dew deh : Bool} {r : Rect} {out : List (Tag × Rect)}
    (h : render fuel d t (.winx id sw sh cw ch dew deh) r = some out) : DrawnOK out r := by
  have hx : ∃ q, winRect sw sh cw ch dew deh r = some q ∧
      out = (if visible q then [(t, q)] else []) := by
    cases d <;>
    · simp only [render] at h
      rcases hq : winRect sw sh cw ch dew deh r with _ | q
      · rw [hq] at h; simp at h
      · rw [hq] at h; simp only [Option.some.injEq] at h; exact ⟨q, rfl, h.symm⟩
  obtain ⟨q, hq, rfl⟩ := hx
  have := (winRect_inside hq).1
  split_ifs <;> simp [DrawnOK, this]

/-- **Nested layouts: inside and disjoint.**  For every tree with valid dimensions, every
    region `r`, every depth bound and fuel: the windows drawn by `write_to_screen` all lie inside
    `r`, and no two of them overlap. -/
theorem render_drawnOK (fuel : Nat) : ∀ (d : Nat) (t : Tag) (n : Node) (r : Rect)
    (out : List (Tag × Rect)), n.Valid → render fuel d t n r = some out → DrawnOK out r := by
  intro d
  induction d with
  | zero =>
    intro t n r out hv h
    have hself : ∀ rr : Rect, rr.inside rr := fun rr => by unfold Rect.inside; omega
    cases hv with
    | win _ _ =>
      simp only [render, Option.some.injEq] at h; subst h
      split_ifs <;> simp [DrawnOK, hself]
    | hsplit _ _ => simp only [render, Option.some.injEq] at h; subst h; simp [DrawnOK]
    | vsplit _ _ => simp only [render, Option.some.injEq] at h; subst h; simp [DrawnOK]
    | winx _ _ => exact winx_drawnOK h
    | cond _ => simp only [render, Option.some.injEq] at h; subst h; simp [DrawnOK]
    | sized _ _ _ => simp only [render, Option.some.injEq] at h; subst h; simp [DrawnOK]
  | succ d ih =>
    intro t n r out hv h
    have hself : ∀ rr : Rect, rr.inside rr := fun rr => by unfold Rect.inside; omega
    cases hv with
    | win _ _ =>
      simp only [render, Option.some.injEq] at h; subst h
      split_ifs <;> simp [DrawnOK, hself]
    | winx _ _ => exact winx_drawnOK h
    | @cond on c hc =>
      simp only [render] at h
      split_ifs at h
      · exact ih _ c r out hc h
      · simp only [Option.some.injEq] at h; subst h; simp [DrawnOK]
    | @sized w hh c _ _ hc =>
      simp only [render] at h
      exact ih _ c r out hc h
    | @hsplit al pad cs hp hc =>
      simp only [render] at h
      have hvalid := allNodes_valid (horizontal := true) (al := al) hp hc
      -- the sizes, when there are any, fit into the height
      have hsizes : ∀ sizes, (if cs.isEmpty then some (some [])
          else match mapM? (fun c : Tag × Node => prefH fuel d c.2 r.w r.h) (allNodes true al pad cs) with
            | none => none
            | some ds => match divide fuel ds r.h true with
              | .ok sizes => some (some sizes)
              | .tooSmall => some none
              | _ => none) = some (some sizes) → sizes.sum ≤ r.h := by
        intro sizes hs
        split_ifs at hs with he
        · simp only [Option.some.injEq] at hs; subst hs; simp
        · rcases hm : mapM? (fun c : Tag × Node => prefH fuel d c.2 r.w r.h) (allNodes true al pad cs)
            with _ | ds
          · rw [hm] at hs; simp at hs
          · rw [hm] at hs
            simp only at hs
            have hvd : ValidDims ds := validDims_of_forall₂ (mapM?_forall₂ _ _ _ hm)
              (fun p hp' dm hdm => prefH_valid fuel d p.2 r.w r.h dm (hvalid p hp') hdm)
            rcases hdv : divide fuel ds r.h true with _ | _ | _ | sz
            · rw [hdv] at hs; simp at hs
            · rw [hdv] at hs; simp at hs
            · rw [hdv] at hs; simp at hs
            · rw [hdv] at hs
              simp only [Option.some.injEq] at hs; subst hs
              exact sum_le_avail hvd hdv
      generalize hg : (if cs.isEmpty then some (some [])
          else match mapM? (fun c : Tag × Node => prefH fuel d c.2 r.w r.h) (allNodes true al pad cs) with
            | none => none
            | some ds => match divide fuel ds r.h true with
              | .ok sizes => some (some sizes)
              | .tooSmall => some none
              | _ => none) = sz at h hsizes
      rcases sz with _ | _ | sizes
      · simp at h
      · simp only [Option.some.injEq] at h; subst h
        split_ifs <;> simp [DrawnOK, hself]
      · have hfit := hsizes sizes rfl
        simp only [layout] at h
        rcases hm : mapM? (fun p : (Nat × Nat) × (Tag × Node) =>
            render fuel d p.2.1 p.2.2 ⟨r.x, p.1.1, r.w, p.1.2⟩)
            (((offsets r.y sizes).zip sizes).zip (allNodes true al pad cs)) with _ | rs
        · rw [hm] at h; simp at h
        · rw [hm] at h
          simp only [Option.some.injEq] at h
          have hb := offsets_zip_bounds sizes r.y
          have hch := children_drawnOK (fuel := fuel) (d := d) (r := r)
            (fun p => ⟨r.x, p.1, r.w, p.2⟩) ih hvalid
            (by intro p hp'; have := hb p hp'; unfold Rect.inside; simp only; omega)
            (by
              apply (offsets_zip_pairwise sizes r.y).imp
              intro p q hpq a b ha hb'
              unfold Rect.inside at ha hb'; unfold Rect.disjoint
              simp only at ha hb'; omega)
            hm
          subst h
          have hrem : ∀ x ∈ remRects (fun p : Nat × Nat => (⟨r.x, p.1, r.w, p.2⟩ : Rect))
              (if r.y + r.h > r.y + sizes.sum then some (r.y + sizes.sum, r.h - sizes.sum) else none),
              x.2 = ⟨r.x, r.y + sizes.sum, r.w, r.h - sizes.sum⟩ := by
            intro x hx
            obtain ⟨p, hp1, hp2⟩ := mem_remRects hx
            split_ifs at hp1
            simp only [Option.some.injEq] at hp1
            rw [hp2, ← hp1]
          refine ⟨?_, ?_⟩
          · intro x hx
            rcases List.mem_append.mp hx with hx | hx
            · exact hch.1 x hx
            · rw [hrem x hx]
              unfold Rect.inside; simp only; omega
          · rw [List.pairwise_append]
            refine ⟨hch.2, remRects_pairwise _ _ _, ?_⟩
            intro x hx y hy
            rw [hrem y hy]
            -- `x` lies inside some child's region, which ends before the remaining space
            obtain ⟨l, hl, hxl⟩ := List.mem_flatten.mp hx
            obtain ⟨p, hp', hs⟩ := forall₂_mem_right (mapM?_forall₂ _ _ _ hm) hl
            have hz := List.of_mem_zip hp'
            have hin := (ih p.2.1 p.2.2 _ l (hvalid p.2 hz.2) hs).1 x hxl
            have := hb p.1 hz.1
            unfold Rect.inside at hin; unfold Rect.disjoint
            simp only at hin ⊢; omega
    | @vsplit al pad cs hp hc =>
      simp only [render] at h
      have hvalid := allNodes_valid (horizontal := false) (al := al) hp hc
      by_cases he : cs.isEmpty = true
      · rw [if_pos he] at h
        simp only [Option.some.injEq] at h; subst h; simp [DrawnOK]
      · rw [if_neg he] at h
        rcases hdw : divideWidths fuel d al pad cs r.w with _ | _ | sizes
        · rw [hdw] at h; simp at h
        · rw [hdw] at h
          simp only [Option.some.injEq] at h; subst h
          split_ifs <;> simp [DrawnOK, hself]
        · rw [hdw] at h
          simp only at h
          -- the widths fit
          have hfit : sizes.sum ≤ r.w := by
            unfold divideWidths at hdw
            simp only at hdw
            split_ifs at hdw with he'
            · simp only [Option.some.injEq] at hdw; subst hdw; simp
            · rcases hm : mapM? (fun c : Tag × Node => prefW fuel d c.2 r.w) (allNodes false al pad cs)
                with _ | ds
              · rw [hm] at hdw; simp at hdw
              · rw [hm] at hdw
                simp only at hdw
                have hvd : ValidDims ds := validDims_of_forall₂ (mapM?_forall₂ _ _ _ hm)
                  (fun p hp' dm hdm => prefW_valid fuel d p.2 r.w dm (hvalid p hp') hdm)
                rcases hdv : divide fuel ds r.w true with _ | _ | _ | sz
                · rw [hdv] at hdw; simp at hdw
                · rw [hdv] at hdw; simp at hdw
                · rw [hdv] at hdw; simp at hdw
                · rw [hdv] at hdw
                  simp only [Option.some.injEq] at hdw; subst hdw
                  exact sum_le_avail hvd hdv
          rcases hph : mapM? (fun p : Nat × (Tag × Node) => prefH fuel d p.2.2 p.1 r.h)
              (sizes.zip (allNodes false al pad cs)) with _ | hs
          · rw [hph] at h; simp at h
          · rw [hph] at h
            simp only [layout] at h
            rcases hm : mapM? (fun p : (Nat × Nat) × (Tag × Node) =>
                render fuel d p.2.1 p.2.2 ⟨p.1.1, r.y, p.1.2, r.h⟩)
                (((offsets r.x sizes).zip sizes).zip (allNodes false al pad cs)) with _ | rs
            · rw [hm] at h; simp at h
            · rw [hm] at h
              simp only [Option.some.injEq] at h
              have hb := offsets_zip_bounds sizes r.x
              have hch := children_drawnOK (fuel := fuel) (d := d) (r := r)
                (fun p => ⟨p.1, r.y, p.2, r.h⟩) ih hvalid
                (by intro p hp'; have := hb p hp'; unfold Rect.inside; simp only; omega)
                (by
                  apply (offsets_zip_pairwise sizes r.x).imp
                  intro p q hpq a b ha hb'
                  unfold Rect.inside at ha hb'; unfold Rect.disjoint
                  simp only at ha hb'; omega)
                hm
              subst h
              have hrem : ∀ x ∈ remRects (fun p : Nat × Nat => (⟨p.1, r.y, p.2, r.h⟩ : Rect))
                  (if r.x + r.w > r.x + sizes.sum then some (r.x + sizes.sum, r.w - sizes.sum) else none),
                  x.2 = ⟨r.x + sizes.sum, r.y, r.w - sizes.sum, r.h⟩ := by
                intro x hx
                obtain ⟨p, hp1, hp2⟩ := mem_remRects hx
                split_ifs at hp1
                simp only [Option.some.injEq] at hp1
                rw [hp2, ← hp1]
              refine ⟨?_, ?_⟩
              · intro x hx
                rcases List.mem_append.mp hx with hx | hx
                · exact hch.1 x hx
                · rw [hrem x hx]
                  unfold Rect.inside; simp only; omega
              · rw [List.pairwise_append]
                refine ⟨hch.2, remRects_pairwise _ _ _, ?_⟩
                intro x hx y hy
                rw [hrem y hy]
                obtain ⟨l, hl, hxl⟩ := List.mem_flatten.mp hx
                obtain ⟨p, hp', hs'⟩ := forall₂_mem_right (mapM?_forall₂ _ _ _ hm) hl
                have hz := List.of_mem_zip hp'
                have hin := (ih p.2.1 p.2.2 _ l (hvalid p.2 hz.2) hs').1 x hxl
                have := hb p.1 hz.1
                unfold Rect.inside at hin; unfold Rect.disjoint
                simp only at hin ⊢; omega

/-- the statement in plain words for the whole screen: inside and pairwise disjoint -/
theorem render_inside {fuel d : Nat} {t : Tag} {n : Node} {r : Rect} {out : List (Tag × Rect)}
    (hv : n.Valid) (h : render fuel d t n r = some out) : ∀ p ∈ out, p.2.inside r :=
  (render_drawnOK fuel d t n r out hv h).1

theorem render_disjoint {fuel d : Nat} {t : Tag} {n : Node} {r : Rect} {out : List (Tag × Rect)}
    (hv : n.Valid) (h : render fuel d t n r = some out) :
    out.Pairwise (fun a b => a.2.disjoint b.2) :=
  (render_drawnOK fuel d t n r out hv h).2

/-! non-vacuity: an HSplit holding a window and a VSplit (with a weight-0 window and a padding
    column); it is valid, it renders, and the result has four windows -/
def exampleTree : Node :=
  .hsplit .justify ⟨0, 0, 0, 1⟩
    [.win 1 dNone ⟨2, 2, 2, 1⟩,
     .vsplit .justify ⟨1, 1, 1, 1⟩ [.win 2 ⟨0, 0, Gen.C12.defaultMax, 0⟩ dNone, .win 3 ⟨3, 3, 3, 1⟩ dNone]]

example : exampleTree.Valid := by
  have hn : dNone.Valid := dNone_valid
  refine .hsplit (by simp [Dim.Valid]) ?_
  intro c hc
  simp only [List.mem_cons, List.not_mem_nil, or_false] at hc
  rcases hc with rfl | rfl
  · exact .win hn (by simp [Dim.Valid])
  · refine .vsplit (by simp [Dim.Valid]) ?_
    intro c hc
    simp only [List.mem_cons, List.not_mem_nil, or_false] at hc
    rcases hc with rfl | rfl
    · exact .win (by simp only [Dim.Valid]; decide) hn
    · exact .win (by simp [Dim.Valid]) hn

example : render 200 2 (.user 0) exampleTree ⟨0, 0, 10, 6⟩
    = some [(.user 1, ⟨0, 0, 10, 2⟩), (.user 2, ⟨0, 2, 6, 4⟩), (.pad, ⟨6, 2, 1, 4⟩),
            (.user 3, ⟨7, 2, 3, 4⟩)] := by decide +kernel

end Ptk.C12
