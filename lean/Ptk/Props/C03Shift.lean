/-
  C03 — the "no exact match" branch of the retry loop, analysed: which buffers it can see (`Tp`,
  `Cinv`), and that one round of it — the `for` loop WITHOUT `break`, then `retry` — amounts to
  delivering the longest recognised prefix of the buffer (or one raw character) and starting over
  (`proc_shift`).
-/
import Ptk.Props.C03Struct
import Ptk.Props.C03Spec
namespace Ptk.C03
open Ptk.Py

theorem len3 {α} {l : List α} (h : l.length = 3) : ∃ a b c, l = [a, b, c] := by
  match l, h with
  | [a, b, c], _ => exact ⟨a, b, c, rfl⟩

/-! ### buffers seen by the retry loop -/

/-- buffers after the first iteration of the retry loop: no ESC in front of the last (at most
    three) characters, and three such characters only with a newline among them -/
def Tp (pre : Text) : Prop :=
  ∃ u w, pre = u ++ w ∧ ESC ∉ u ∧ (w.length ≤ 2 ∨ (w.length ≤ 3 ∧ '\n' ∈ w))

theorem Tp_nil : Tp [] := ⟨[], [], rfl, by simp, Or.inl (by simp)⟩

theorem Tp_tail {pre : Text} (h : Tp pre) : Tp pre.tail := by
  obtain ⟨u, w, rfl, hu, hw⟩ := h
  cases u with
  | nil =>
    refine ⟨[], w.tail, by simp, by simp, Or.inl ?_⟩
    rcases hw with hw | ⟨hw, _⟩ <;> (simp; omega)
  | cons x u' =>
    exact ⟨u', w, by simp, fun hm => hu (List.mem_cons_of_mem _ hm), hw⟩

theorem Tp_drop {pre : Text} (n : Nat) (h : Tp pre) : Tp (pre.drop n) := by
  induction n generalizing pre with
  | zero => simpa using h
  | succ n ih =>
    have := ih (Tp_tail h)
    rwa [List.drop_tail] at this

/-- in such a buffer a recognised prefix of two or more characters is never followed by ESC -/
theorem Tp_noBad {cfg : Cfg} (h2 : WF2 cfg) {pre : Text} (h : Tp pre) {i : Nat} (hi : 2 ≤ i)
    (hlt : i < pre.length) (hm : getMatch cfg (pre.take i) ≠ []) : (pre.drop i).head? ≠ some ESC := by
  obtain ⟨u, w, rfl, hu, hw⟩ := h
  obtain ⟨t, ht⟩ := match_head h2 hm (by rw [List.length_take]; omega)
  cases u with
  | cons x u' =>
    have : x = ESC := by
      have := congrArg List.head? ht
      simp only [List.cons_append] at this
      rw [List.take_cons (by omega)] at this
      simpa using this
    exact absurd (this ▸ List.mem_cons_self) hu
  | nil =>
    simp only [List.nil_append] at hlt ht hm ⊢
    rcases hw with hw | ⟨hw, hnl⟩
    · omega
    · obtain ⟨a, b, c, rfl⟩ := len3 (show w.length = 3 by omega)
      · have hi2 : i = 2 := by simp at hlt; omega
        subst hi2
        simp only [List.take_succ_cons, List.take_zero, List.cons.injEq] at ht
        obtain ⟨rfl, _⟩ := ht
        simp only [List.drop_succ_cons, List.drop_zero, List.head?_cons, ne_eq, Option.some.injEq]
        intro hc
        subst hc
        have hb : b = '\n' := by
          simp only [List.mem_cons, List.not_mem_nil, or_false] at hnl
          rcases hnl with hnl | hnl | hnl
          · exact absurd hnl (by decide)
          · exact hnl.symm
          · exact absurd hnl (by decide)
        subst hb
        exact hm (getMatch_escNl h2)

/-- the buffer at the top of the retry loop: first iteration after a character (`q.dropLast` was
    held back), first iteration after a flush (`q` was held back), or a later iteration -/
def Cinv (cfg : Cfg) (fl : Bool) (q : Text) : Prop :=
  (fl = false ∧ (q.dropLast = [] ∨ isPrefixOfLonger cfg q.dropLast = true)) ∨
  (fl = true ∧ isPrefixOfLonger cfg q = true) ∨ Tp q

theorem lm_lt_of_noMatch (cfg : Cfg) {q : Text} (hq : getMatch cfg q = []) (hne : q ≠ []) :
    lm cfg q < q.length := by
  have h1 := lm_le cfg q
  by_cases h : lm cfg q = q.length
  · have h0 : lm cfg q ≠ 0 := by rw [h]; simpa using hne
    have := lm_match cfg q h0
    rw [h, List.take_length] at this
    exact absurd hq this
  · omega

/-- in the first iteration no prefix of two or more characters is recognised -/
theorem first_small {cfg : Cfg} (h2 : WF2 cfg) {g : Text}
    (hg : g = [] ∨ isPrefixOfLonger cfg g = true) {i : Nat} (hi : 2 ≤ i) (hig : i ≤ g.length) :
    getMatch cfg (g.take i) = [] := by
  rcases hg with rfl | hg
  · simp at hig; omega
  · cases hm : getMatch cfg (g.take i) with
    | nil => rfl
    | cons a as =>
      have := match_not_held h2 (p := g.take i) (by rw [hm]; simp) (by rw [List.length_take]; omega)
      rw [held_take hg hi hig] at this
      cases this

theorem shift_lm_small {cfg : Cfg} (h2 : WF2 cfg) {fl : Bool} {q : Text}
    (hC : Cinv cfg fl q) (hq : getMatch cfg q = []) (hne : q ≠ []) (hnT : ¬ Tp q) : lm cfg q ≤ 1 := by
  have hlt := lm_lt_of_noMatch cfg hq hne
  by_cases hi : 2 ≤ lm cfg q
  · exfalso
    have hm := lm_match cfg q (by omega)
    rcases hC with ⟨_, hg⟩ | ⟨_, hg⟩ | hT
    · have hlen : q.dropLast.length = q.length - 1 := by simp
      have := first_small h2 hg hi (by omega)
      rw [List.dropLast_eq_take, List.take_take, Nat.min_eq_left (by omega)] at this
      exact hm this
    · exact hm (first_small h2 (Or.inr hg) hi (by omega))
    · exact hnT hT
  · omega

/-- (a) a recognised prefix of two or more characters is not followed by ESC -/
theorem shift_noEsc {cfg : Cfg} (h2 : WF2 cfg) {fl : Bool} {q : Text}
    (hC : Cinv cfg fl q) (hq : getMatch cfg q = []) (hne : q ≠ []) (hi : 2 ≤ lm cfg q) :
    (q.drop (lm cfg q)).head? ≠ some ESC := by
  by_cases hT : Tp q
  · exact Tp_noBad h2 hT hi (lm_lt_of_noMatch cfg hq hne) (lm_match cfg q (by omega))
  · have := shift_lm_small h2 hC hq hne hT
    omega

/-- (b) what is left after the round is a later-iteration buffer -/
theorem shift_Tp {cfg : Cfg} (h2 : WF2 cfg) {fl : Bool} {q : Text}
    (hC : Cinv cfg fl q) (hq : getMatch cfg q = []) (hne : q ≠ []) :
    Tp (q.drop (max (lm cfg q) 1)) := by
  by_cases hT : Tp q
  · exact Tp_drop _ hT
  · have hs := shift_lm_small h2 hC hq hne hT
    have hmax : max (lm cfg q) 1 = 1 := by omega
    rw [hmax]
    rcases hC with ⟨_, hg⟩ | ⟨_, hg⟩ | hT'
    · have hsplit := (List.dropLast_concat_getLast hne).symm
      generalize q.getLast hne = c at hsplit
      by_cases hgn : q.dropLast = []
      · rw [hsplit, hgn]; exact Tp_nil
      · have hg' : isPrefixOfLonger cfg q.dropLast = true := by
          rcases hg with hg | hg
          · exact absurd hg hgn
          · exact hg
        obtain ⟨u, w, hgs, hu, hw, hx⟩ := held_struct h2 hg' hgn
        rw [hsplit, hgs]
        refine ⟨u, w ++ [c], by simp, hu, ?_⟩
        by_cases hw2 : w.length = 2
        · right
          refine ⟨by simp; omega, ?_⟩
          by_cases hc : c = '\n'
          · simp [hc]
          · have := hx hw2 c hc
            rw [← hsplit] at this
            exact absurd hq this
        · left; simp; omega
    · have hgn : q ≠ [] := hne
      obtain ⟨u, w, hgs, hu, hw, _⟩ := held_struct h2 hg hgn
      rw [hgs]
      exact ⟨u, w, by simp, hu, Or.inl hw⟩
    · exact absurd hT' hT

/-! ### the `for` loop without `break` -/

/-- nothing recognised up to the bound: the loop does nothing -/
theorem shiftLoop_none (cfg : Cfg) (n : Nat) (s : St) (f : Bool)
    (h : ∀ j, 1 ≤ j → j ≤ n → getMatch cfg (s.pre.take j) = []) : shiftLoop cfg n s f = (s, f) := by
  induction n with
  | zero => rfl
  | succ i ih =>
    rw [shiftLoop]
    simp only [h (i + 1) (by omega) (Nat.le_refl _), List.isEmpty_nil, Bool.not_true, Bool.false_eq_true,
      if_false]
    exact ih (fun j h1 h2 => h j h1 (by omega))

/-- skip the lengths above the longest recognised prefix -/
theorem shiftLoop_skip (cfg : Cfg) (n i : Nat) (s : St) (f : Bool) (hi : i ≤ n)
    (h : ∀ j, i < j → j ≤ n → getMatch cfg (s.pre.take j) = []) :
    shiftLoop cfg n s f = shiftLoop cfg i s f := by
  induction n with
  | zero => have : i = 0 := by omega
            subst this; rfl
  | succ k ih =>
    by_cases hik : i = k + 1
    · subst hik; rfl
    · rw [shiftLoop]
      simp only [h (k + 1) (by omega) (Nat.le_refl _), List.isEmpty_nil, Bool.not_true,
        Bool.false_eq_true, if_false]
      exact ih (by omega) (fun j h1 h2 => h j h1 (by omega))

theorem shiftLoop_hit (cfg : Cfg) (i : Nat) (s : St) (f : Bool)
    (h : getMatch cfg (s.pre.take (i + 1)) ≠ []) :
    shiftLoop cfg (i + 1) s f =
      shiftLoop cfg i (callHandler cfg { s with pre := s.pre.drop (i + 1) }
        (getMatch cfg (s.pre.take (i + 1))) (s.pre.take (i + 1))) true := by
  rw [shiftLoop]
  have : (getMatch cfg (s.pre.take (i + 1))).isEmpty = false := by simpa [List.isEmpty_iff] using h
  simp [this]

/-- a buffer that does not start with ESC: the loop can only deliver its first character -/
theorem shiftLoop_nonEsc {cfg : Cfg} (h : WF cfg) (h2 : WF2 cfg) (s1 : St) (c1 : Char) (rest : Text)
    (hp : s1.pre = c1 :: rest) (hc : c1 ≠ ESC) (b : Nat) (f : Bool) :
    shiftLoop cfg b s1 f =
      if getMatch cfg [c1] = [] ∨ b = 0 then (s1, f)
      else ({ s1 with pre := rest, out := s1.out ++ presses (getMatch cfg [c1]) [c1] }, true) := by
  induction b generalizing f with
  | zero => simp [shiftLoop]
  | succ b ih =>
    have hlong : ∀ t : Text, 2 ≤ (c1 :: t).length → getMatch cfg (c1 :: t) = [] := by
      intro t ht
      cases hm : getMatch cfg (c1 :: t) with
      | nil => rfl
      | cons a as =>
        obtain ⟨t', ht'⟩ := match_head h2 (p := c1 :: t) (by rw [hm]; simp) ht
        simp only [List.cons.injEq] at ht'
        exact absurd ht'.1 hc
    by_cases hm1 : getMatch cfg [c1] = []
    · simp only [hm1, true_or, if_true]
      apply shiftLoop_none
      intro j h1 _
      rw [hp]
      obtain ⟨j', rfl⟩ : ∃ j', j = j' + 1 := ⟨j - 1, by omega⟩
      rw [List.take_succ_cons]
      cases ht : rest.take j' with
      | nil => exact hm1
      | cons x xs => exact hlong _ (by simp)
    · simp only [hm1, false_or, Nat.add_one_ne_zero, if_false]
      by_cases hshort : rest.take b = []
      · -- the prefix of length b+1 is [c1]: hit
        have ht : s1.pre.take (b + 1) = [c1] := by rw [hp, List.take_succ_cons, hshort]
        have hd : s1.pre.drop (b + 1) = rest := by
          rw [hp, List.drop_succ_cons]
          rcases List.take_eq_nil_iff.1 hshort with hb | hr
          · subst hb; rfl
          · subst hr; simp
        rw [shiftLoop_hit cfg b s1 f (by rw [ht]; exact hm1), ht, hd]
        have hnp : cfg.pasteKey ∉ getMatch cfg [c1] := by
          rcases wf_getMatch h hm1 with hk | ⟨_, hps⟩
          · exact hk
          · simp [pasteStart] at hps
        rw [callHandler_noPaste cfg _ _ _ hnp]
        apply shiftLoop_none
        intro j h1 hj
        simp only
        rcases List.take_eq_nil_iff.1 hshort with hb | hr
        · omega
        · subst hr; simp [wf_getMatch_nil h]
      · -- longer prefix: not recognised, go on
        have hb : b ≠ 0 := by intro e; subst e; simp at hshort
        rw [shiftLoop]
        have : getMatch cfg (s1.pre.take (b + 1)) = [] := by
          rw [hp, List.take_succ_cons]
          cases ht : rest.take b with
          | nil => exact absurd ht hshort
          | cons x xs => exact hlong _ (by simp)
        simp only [this, List.isEmpty_nil, Bool.not_true, Bool.false_eq_true, if_false]
        rw [ih f]
        simp [hm1, hb]

/-- a buffer that does not start with ESC is not held back -/
theorem nonEsc_not_held {cfg : Cfg} (h2 : WF2 cfg) {c1 : Char} {rest : Text} (hc : c1 ≠ ESC) :
    isPrefixOfLonger cfg (c1 :: rest) = false := by
  cases hh : isPrefixOfLonger cfg (c1 :: rest) with
  | false => rfl
  | true =>
    obtain ⟨u, w, hg, _⟩ := held_struct h2 hh (by simp)
    simp only [List.cons.injEq] at hg
    exact absurd hg.1 hc

/-- the restart absorbs what the loop without `break` delivered after its first hit -/
theorem proc_absorb {cfg : Cfg} (h : WF cfg) (h2 : WF2 cfg) (fl : Bool) (s1 : St) (c1 : Char)
    (rest : Text) (hp : s1.pre = c1 :: rest) (hc : c1 ≠ ESC) (hm1 : getMatch cfg [c1] ≠ []) :
    proc cfg fl { s1 with pre := rest, out := s1.out ++ presses (getMatch cfg [c1]) [c1] }
      = proc cfg fl s1 := by
  have hnp : cfg.pasteKey ∉ getMatch cfg [c1] := by
    rcases wf_getMatch h hm1 with hk | ⟨_, hps⟩
    · exact hk
    · simp [pasteStart] at hps
  conv => rhs; rw [proc_eq]
  have hne : s1.pre.isEmpty = false := by rw [hp]; rfl
  have hnh : isPrefixOfLonger cfg s1.pre = false := by rw [hp]; exact nonEsc_not_held h2 hc
  simp only [hne, Bool.false_eq_true, if_false, hnh, Bool.not_false, Bool.or_true, if_true]
  cases rest with
  | nil =>
    have hmE : (getMatch cfg s1.pre).isEmpty = false := by
      rw [hp]; simpa [List.isEmpty_iff] using hm1
    simp only [hmE, Bool.not_false, if_true]
    rw [hp, callHandler_noPaste cfg _ _ _ hnp]
    exact proc_nil cfg fl _ rfl
  | cons x xs =>
    have hmE : (getMatch cfg s1.pre).isEmpty = true := by
      rw [hp]
      cases hm : getMatch cfg (c1 :: x :: xs) with
      | nil => rfl
      | cons a as =>
        obtain ⟨t', ht'⟩ := match_head h2 (p := c1 :: x :: xs) (by rw [hm]; simp) (by simp)
        simp only [List.cons.injEq] at ht'
        exact absurd ht'.1 hc
    simp only [hmE, Bool.not_true, Bool.false_eq_true, if_false]
    congr 1
    unfold shiftStep
    rw [shiftLoop_nonEsc h h2 s1 c1 (x :: xs) hp hc]
    simp [hm1, hp]

/-- what one round of the "no exact match" branch amounts to: the longest recognised prefix of
    the buffer — or, if there is none, its first character as a raw key — is delivered -/
def shiftTo (cfg : Cfg) (s : St) : St :=
  if lm cfg s.pre = 0 then
    match s.pre with
    | c :: r => { s with pre := r, out := s.out ++ [⟨String.singleton c, [c]⟩] }
    | [] => s
  else
    { s with pre := s.pre.drop (lm cfg s.pre),
             out := s.out ++ presses (getMatch cfg (s.pre.take (lm cfg s.pre))) (s.pre.take (lm cfg s.pre)) }

theorem shiftTo_pre (cfg : Cfg) (s : St) (hne : s.pre ≠ []) :
    (shiftTo cfg s).pre = s.pre.drop (max (lm cfg s.pre) 1) := by
  unfold shiftTo
  split
  · rename_i h0
    rw [h0]
    cases hp : s.pre with
    | nil => exact absurd hp hne
    | cons c r => simp
  · rename_i h0
    have : max (lm cfg s.pre) 1 = lm cfg s.pre := by omega
    rw [this]

/-- **One round of the "no exact match" branch** (the `for` loop without `break`, then `retry`)
    behaves like: deliver the longest recognised prefix, or one raw character, and start over. -/
theorem proc_shift {cfg : Cfg} (h : WF cfg) (h2 : WF2 cfg) (fl : Bool) (s : St)
    (hw : NoPSInner s.pre) (hC : Cinv cfg fl s.pre) (hne : s.pre ≠ [])
    (hq : getMatch cfg s.pre = []) :
    proc cfg fl (shiftStep cfg s) = proc cfg fl (shiftTo cfg s) := by
  have hlt := lm_lt_of_noMatch cfg hq hne
  by_cases h0 : lm cfg s.pre = 0
  · -- nothing recognised: raw first character
    congr 1
    unfold shiftStep shiftTo
    rw [shiftLoop_none cfg _ s false (fun j h1 hj => by
      rcases lm_max cfg s.pre j (by omega) with hm | hm
      · exact hm
      · omega)]
    simp only [Bool.false_eq_true, if_false, h0, if_true]
    cases hp : s.pre with
    | nil => exact absurd hp hne
    | cons c r =>
      simp only
      rw [callHandler_noPaste cfg _ _ _ (wf_singleton h c)]
      simp [presses]
  · obtain ⟨i, hi⟩ : ∃ i, lm cfg s.pre = i + 1 := ⟨lm cfg s.pre - 1, by omega⟩
    have hm := lm_match cfg s.pre h0
    have hnp : cfg.pasteKey ∉ getMatch cfg (s.pre.take (lm cfg s.pre)) := by
      rcases wf_getMatch h hm with hk | ⟨_, hps⟩
      · exact hk
      · have := noPSInner_take hw hps
        have : s.pre.length ≤ lm cfg s.pre := by simpa using this
        omega
    have hloop : shiftLoop cfg s.pre.length s false =
        shiftLoop cfg i (shiftTo cfg s) true := by
      rw [shiftLoop_skip cfg s.pre.length (i + 1) s false (by omega) (fun j h1 hj => by
        rcases lm_max cfg s.pre j (by omega) with hm | hm
        · exact hm
        · omega)]
      rw [shiftLoop_hit cfg i s false (by rw [← hi]; exact hm), ← hi,
        callHandler_noPaste cfg _ _ _ hnp]
      simp [shiftTo, h0]
    unfold shiftStep
    rw [hloop]
    have hpre := shiftTo_pre cfg s hne
    have hmax : max (lm cfg s.pre) 1 = lm cfg s.pre := by omega
    rw [hmax] at hpre
    cases i with
    | zero => rfl
    | succ i' =>
      cases hr : (shiftTo cfg s).pre with
      | nil =>
        rw [shiftLoop_none cfg _ _ true (fun j _ _ => by rw [hr]; simp [wf_getMatch_nil h])]
        rfl
      | cons c1 rest =>
        have hc : c1 ≠ ESC := by
          have := shift_noEsc h2 hC hq hne (by omega)
          rw [← hpre, hr] at this
          simpa using this
        rw [shiftLoop_nonEsc h h2 _ c1 rest hr hc]
        by_cases hm1 : getMatch cfg [c1] = []
        · simp [hm1]
        · simp only [hm1, false_or, Nat.add_one_ne_zero, if_false, if_true]
          exact proc_absorb h h2 fl _ c1 rest hr hc hm1

end Ptk.C03
