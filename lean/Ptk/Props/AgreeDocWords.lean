/-
  Cross-model agreement, cluster "Document queries and motions": the word motions
  `find_start_of_previous_word`, `find_next_word_beginning`, `find_next_word_ending`,
  `find_previous_word_ending` of src/prompt_toolkit/document.py.

  Canonical model: `Ptk.C02`.  Other models: `Ptk.C08`, `Ptk.C09`, `Ptk.C01` (C01Cmd.lean and C01.lean).

  Layers:
    1. character classes (`isWordChar`, `cls`);
    2. the `finditer` scanners, for EVERY class function `cl : Char → Nat`:
       `C08.runs = C09.scan · 0 none = C01.wscan · 0 none = C02.runs`;
    3. per function and model, equality for all inputs (Nat counts cast to Int).

  History: `C08.cls` (WORD = False) and `C01.firstWordEnd` used to test `\s` BEFORE `[a-zA-Z0-9_]` (then the
  theorems needed `SpOk sp`), and `C08.findNextWordBeginning` returned `none` for `count = 0`
  (real code: `Document('ab', 0).find_next_word_beginning(count=0) == 0`).  Both models were repaired;
  every theorem below now holds without hypotheses.  `SpOk` is kept as a definition only.
-/
import Ptk.Props.AgreeDocBase
import Ptk.Model.C01Cmd
namespace Ptk.AgreeDoc
open Ptk.Py

theorem char_eq_iff_toNat (c d : Char) : c = d ↔ c.toNat = d.toNat :=
  ⟨fun h => by rw [h], fun h => Char.ext (UInt32.toNat_inj.mp h)⟩

/-- document.py::_FIND_WORD_RE `[a-zA-Z0-9_]` — `C08.isWordChar` vs `C02.isWordChar` -/
theorem isWordChar_08 (c : Char) : C08.isWordChar c = C02.isWordChar c := by
  have e : (c = '_') ↔ c.toNat = 95 := by rw [char_eq_iff_toNat]; rfl
  have hA : 'A'.val.toNat = 65 := rfl
  have hZ : 'Z'.val.toNat = 90 := rfl
  have ha : 'a'.val.toNat = 97 := rfl
  have hz : 'z'.val.toNat = 122 := rfl
  have h0 : '0'.val.toNat = 48 := rfl
  have h9 : '9'.val.toNat = 57 := rfl
  simp only [C08.isWordChar, C02.isWordChar, Char.isAlphanum, Char.isAlpha, Char.isUpper,
    Char.isLower, Char.isDigit, UInt32.le_iff_toNat_le, Char.toNat, e, hA, hZ, ha, hz, h0, h9]
  rw [Bool.eq_iff_iff]
  simp only [Bool.or_eq_true, Bool.and_eq_true, decide_eq_true_eq, beq_iff_eq]
  omega

/-- document.py::_FIND_WORD_RE `[a-zA-Z0-9_]` — `C09.isWordChar` vs `C02.isWordChar` -/
theorem isWordChar_09 (c : Char) : C09.isWordChar c = C02.isWordChar c := isWordChar_08 c
/-- document.py::_FIND_WORD_RE `[a-zA-Z0-9_]` — `C01.isWordChar` vs `C02.isWordChar` -/
theorem isWordChar_01 (c : Char) : C01.isWordChar c = C02.isWordChar c := isWordChar_08 c

/-- the whitespace predicate (`\s`) matches no `[a-zA-Z0-9_]` character; holds for the real regexes.
    No theorem of this module needs it any more (kept for `AgreeDocGen`). -/
def SpOk (sp : Char → Bool) : Prop := ∀ c, C02.isWordChar c = true → sp c = false

/-- document.py::_FIND_WORD_RE / _FIND_BIG_WORD_RE character classes — `C09.cls` vs `C02.cls` -/
theorem cls_09 (sp : Char → Bool) (WORD : Bool) : C09.cls sp WORD = C02.cls sp WORD := by
  funext c
  cases WORD <;> simp [C09.cls, C02.cls, C02.clsBig, C02.clsWord, isWordChar_09]

/-- document.py::_FIND_WORD_RE / _FIND_BIG_WORD_RE character classes — `C01.wcls` vs `C02.cls` -/
theorem cls_01 (sp : Char → Bool) (WORD : Bool) : C01.wcls sp WORD = C02.cls sp WORD := by
  funext c
  cases WORD <;> simp [C01.wcls, C02.cls, C02.clsBig, C02.clsWord, isWordChar_01]

/-- document.py::_FIND_WORD_RE / _FIND_BIG_WORD_RE character classes — `C08.cls` vs `C02.cls` -/
theorem cls_08 (sp : Char → Bool) (big : Bool) : C08.cls sp big = C02.cls sp big := by
  funext c
  cases big <;> simp [C08.cls, C02.cls, C02.clsBig, C02.clsWord, isWordChar_08]

/-! scanners -/

theorem runsGo_nil (cl : Char → Nat) (f off : Nat) : C02.runsGo cl f off [] = [] := by
  cases f <;> rfl

/-- loop invariant: the state machine `C08.runsAux` (position, open run `(start, class)`) against the
    fuel-based `C02.runsGo` (any sufficient fuel) -/
theorem runsAux_runsGo (cl : Char → Nat) (t : Text) :
    (∀ pos f, t.length ≤ f → C08.runsAux cl pos none t = C02.runsGo cl f pos t) ∧
    (∀ pos s k f, k ≠ 0 → (t.drop (C02.prefixLen cl k t)).length ≤ f →
      C08.runsAux cl pos (some (s, k)) t =
        (s, pos + C02.prefixLen cl k t) ::
          C02.runsGo cl f (pos + C02.prefixLen cl k t) (t.drop (C02.prefixLen cl k t))) := by
  induction t with
  | nil =>
    refine ⟨fun pos f _ => ?_, fun pos s k f _ _ => ?_⟩
    · simp [C08.runsAux, runsGo_nil]
    · simp [C08.runsAux, runsGo_nil, C02.prefixLen]
  | cons c r ih =>
    obtain ⟨ihA, ihB⟩ := ih
    have hA : ∀ pos f, (c :: r).length ≤ f →
        C08.runsAux cl pos none (c :: r) = C02.runsGo cl f pos (c :: r) := by
      intro pos f hf
      cases f with
      | zero => simp at hf
      | succ f =>
        simp only [List.length_cons, Nat.add_le_add_iff_right] at hf
        simp only [C08.runsAux, C02.runsGo]
        by_cases h0 : cl c = 0
        · simp only [h0, if_true]; exact ihA _ _ hf
        · simp only [h0, if_false]
          rw [ihB (pos + 1) pos (cl c) f h0 (by simp; omega)]
    refine ⟨hA, ?_⟩
    intro pos s k f hk hf
    by_cases hc : cl c = k
    · simp only [C08.runsAux, C02.prefixLen, hc, if_true, List.drop_succ_cons] at hf ⊢
      rw [ihB (pos + 1) s k f hk hf]
      simp [Nat.add_assoc, Nat.add_comm 1]
    · have e : C08.runsAux cl pos (some (s, k)) (c :: r) = (s, pos) :: C08.runsAux cl pos none (c :: r) := by
        simp only [C08.runsAux, hc, if_false]
      simp only [C02.prefixLen, hc, if_false, List.drop_zero, Nat.add_zero] at hf ⊢
      rw [e, hA pos f hf]

/-- any fuel ≥ length gives the same result -/
theorem runsGo_fuel (cl : Char → Nat) (f off : Nat) (t : Text) (hf : t.length ≤ f) :
    C02.runsGo cl f off t = C02.runsGo cl t.length off t := by
  rw [← (runsAux_runsGo cl t).1 off f hf, ← (runsAux_runsGo cl t).1 off t.length (Nat.le_refl _)]

/-- document.py::_FIND_WORD_RE.finditer — `C08.runs` vs `C02.runs`, every class function -/
theorem runs_08 (cl : Char → Nat) (t : Text) : C08.runs cl t = C02.runs cl t :=
  (runsAux_runsGo cl t).1 0 t.length (Nat.le_refl _)

def swapO (o : Option (Nat × Nat)) : Option (Nat × Nat) := o.map fun p => (p.2, p.1)

theorem scan_09_aux (cl : Char → Nat) (t : Text) (i : Nat) (o : Option (Nat × Nat)) :
    C09.scan cl t i o = C08.runsAux cl i (swapO o) t := by
  induction t generalizing i o with
  | nil => rcases o with _ | ⟨k, st⟩ <;> simp [C09.scan, C08.runsAux, swapO]
  | cons c r ih =>
    rcases o with _ | ⟨k, st⟩
    · simp only [C09.scan, C08.runsAux, swapO, Option.map_none, ih]
      split <;> simp
    · simp only [C09.scan, C08.runsAux, swapO, Option.map_some, ih]
      split
      · simp
      · split <;> simp

theorem scan_01_aux (cl : Char → Nat) (t : Text) (i : Nat) (o : Option (Nat × Nat)) :
    C01.wscan cl t i o = C08.runsAux cl i (swapO o) t := by
  induction t generalizing i o with
  | nil => rcases o with _ | ⟨k, st⟩ <;> simp [C01.wscan, C08.runsAux, swapO]
  | cons c r ih =>
    rcases o with _ | ⟨k, st⟩
    · simp only [C01.wscan, C08.runsAux, swapO, Option.map_none, ih]
      split <;> simp
    · simp only [C01.wscan, C08.runsAux, swapO, Option.map_some, ih]
      split
      · simp
      · split <;> simp

/-- document.py::_FIND_WORD_RE.finditer — `C09.scan` vs `C02.runs`, every class function -/
theorem runs_09 (cl : Char → Nat) (t : Text) : C09.scan cl t 0 none = C02.runs cl t := by
  rw [scan_09_aux]; exact runs_08 cl t
/-- document.py::_FIND_WORD_RE.finditer — `C01.wscan` vs `C02.runs`, every class function -/
theorem runs_01 (cl : Char → Nat) (t : Text) : C01.wscan cl t 0 none = C02.runs cl t := by
  rw [scan_01_aux]; exact runs_08 cl t


/-! counting -/

theorem nth_08 {α : Type} (l : List α) (count : Nat) : C08.nth l count = C02.nth l (count : Int) := by
  unfold C08.nth C02.nth
  by_cases h : count = 0
  · subst h; simp
  · have h1 : (count : Int) ≥ 1 := by omega
    have h2 : ((count : Int) - 1).toNat = count - 1 := by omega
    simp [h, h1, h2]

theorem nth_succ {α : Type} (l : List α) (k : Nat) : C02.nth l ((k + 1 : Nat) : Int) = l[k]? := by
  unfold C02.nth
  have h1 : ((k + 1 : Nat) : Int) ≥ 1 := by omega
  have h2 : (((k + 1 : Nat) : Int) - 1).toNat = k := by omega
  simp only [h1, h2, if_true]

theorem nth_zero {α : Type} (l : List α) : C02.nth l ((0 : Nat) : Int) = none := by
  simp [C02.nth]

theorem nth_nonpos {α : Type} (l : List α) (c : Int) (h : c ≤ 0) : C02.nth l c = none := by
  unfold C02.nth
  have : ¬ c ≥ 1 := by omega
  simp only [this, if_false]

theorem adjust_nat (rs : List (Nat × Nat)) (count : Nat) :
    C02.adjustCount rs (count : Int) =
      (((match rs with | (0, _) :: _ => count + 1 | _ => count) : Nat) : Int) := by
  unfold C02.adjustCount
  split <;> simp

/-! C08 -/

/-- document.py::Document.find_start_of_previous_word — `C08.findStartOfPreviousWord` vs `C02.findStartOfPreviousWord` -/
theorem findStartOfPreviousWord_08 (sp : Char → Bool) (d : C08.Doc) (count : Nat) (big : Bool) :
    C08.findStartOfPreviousWord sp d count big
      = C02.findStartOfPreviousWord sp (of08 d) (count : Int) big := by
  simp only [C08.findStartOfPreviousWord, C02.findStartOfPreviousWord, cls_08, runs_08, nth_08]
  rfl

/-- document.py::Document.find_next_word_ending — `C08.findNextWordEnding` vs `C02.findNextWordEnding` (include_current_position = False) -/
theorem findNextWordEnding_08 (sp : Char → Bool) (d : C08.Doc) (count : Nat) (big : Bool) :
    C08.findNextWordEnding sp d count big
      = C02.findNextWordEnding sp (of08 d) false (count : Int) big := by
  have hc : ¬ ((count : Int) < 0) := by omega
  simp only [C08.findNextWordEnding, C02.findNextWordEnding, C02.nextWordEndingPos, hc, if_false,
    cls_08, runs_08, nth_08, Bool.false_eq_true]
  rfl

/-- document.py::Document.find_previous_word_ending — `C08.findPreviousWordEnding` vs `C02.findPreviousWordEnding` -/
theorem findPreviousWordEnding_08 (sp : Char → Bool) (d : C08.Doc) (count : Nat) (big : Bool) :
    C08.findPreviousWordEnding sp d count big
      = C02.findPreviousWordEnding sp (of08 d) (count : Int) big := by
  have hc : ¬ ((count : Int) < 0) := by omega
  simp only [C08.findPreviousWordEnding, C02.findPreviousWordEnding, C02.prevWordEndingPos, hc, if_false,
    cls_08, runs_08, nth_08, adjust_nat]
  rfl

/-- document.py::Document.find_next_word_beginning — `C08.findNextWordBeginning` vs `C02.findNextWordBeginning`, every Nat count (incl. 0) -/
theorem findNextWordBeginning_08 (sp : Char → Bool) (d : C08.Doc) (count : Nat) (big : Bool) :
    C08.findNextWordBeginning sp d count big
      = C02.findNextWordBeginning sp (of08 d) (count : Int) big := by
  have hc : ¬ ((count : Int) < 0) := by omega
  simp only [C08.findNextWordBeginning, C02.findNextWordBeginning, C02.nextWordBeginningPos, hc, if_false,
    cls_08, runs_08, nth_08, adjust_nat]
  rfl

/-! C09 -/

theorem reMatches_09 (sp : Char → Bool) (WORD : Bool) (t : Text) :
    C09.reMatches sp WORD t = C02.runs (C02.cls sp WORD) t := by
  simp only [C09.reMatches, cls_09, runs_09]

theorem wordMatches_01 (sp : Char → Bool) (WORD : Bool) (t : Text) :
    C01.wordMatches sp WORD t = C02.runs (C02.cls sp WORD) t := by
  simp only [C01.wordMatches, cls_01, runs_01]

theorem nth_zero' {α : Type} (l : List α) : C02.nth l 0 = none := by simp [C02.nth]

/-- document.py::Document.find_previous_word_ending — `C09.findPrevWordEnding` vs `C02.findPreviousWordEnding` -/
theorem findPreviousWordEnding_09 (sp : Char → Bool) (b : C09.Buf) (count : Nat) (WORD : Bool) :
    C09.findPrevWordEnding sp b count WORD
      = C02.findPreviousWordEnding sp (of09 b) (count : Int) WORD := by
  have hc : ¬ ((count : Int) < 0) := by omega
  simp only [C09.findPrevWordEnding, C02.findPreviousWordEnding, C02.prevWordEndingPos, hc, if_false,
    reMatches_09, C09.Buf.after, C09.Buf.before, C02.Doc.after, C02.Doc.before, of09]
  generalize C02.runs _ _ = rs
  rcases rs with _ | ⟨⟨_ | s, e⟩, tl⟩
  · cases count with
    | zero => simp [C02.adjustCount, nth_zero']
    | succ k => simp only [C02.adjustCount, nth_succ]
  · simp only [C02.adjustCount]
    rw [show ((count : Int) + 1) = ((count + 1 : Nat) : Int) by omega, nth_succ]
  · cases count with
    | zero => simp [C02.adjustCount, nth_zero']
    | succ k => simp only [C02.adjustCount, nth_succ]

/-- document.py::Document.find_next_word_ending — `C09.findNextWordEnding` vs `C02.findNextWordEnding` (include_current_position = False), every `count : Int` -/
theorem findNextWordEnding_09 (sp : Char → Bool) (b : C09.Buf) (count : Int) (WORD : Bool) :
    C09.findNextWordEnding sp b count WORD
      = C02.findNextWordEnding sp (of09 b) false count WORD := by
  unfold C09.findNextWordEnding C02.findNextWordEnding
  by_cases hc : count < 0
  · simp only [hc, if_true]
    have e : -count = (((-count).toNat : Nat) : Int) := by omega
    rw [findPreviousWordEnding_09, ← e]
    have hn : ¬ (-count < 0) := by omega
    simp only [C02.findPreviousWordEnding, hn, if_false]
  · obtain ⟨n, rfl⟩ : ∃ n : Nat, count = n := ⟨count.toNat, by omega⟩
    simp only [hc, if_false, C02.nextWordEndingPos, reMatches_09, Bool.false_eq_true, Int.toNat_natCast,
      C09.Buf.after, C02.Doc.after, of09]
    cases n with
    | zero => simp [nth_zero']
    | succ k => rw [nth_succ]

/-- document.py::Document.find_start_of_previous_word — `C09.findStartOfPrevWord` vs `C02.findStartOfPreviousWord`, every `count : Int` -/
theorem findStartOfPreviousWord_09 (sp : Char → Bool) (b : C09.Buf) (count : Int) (WORD : Bool) :
    C09.findStartOfPrevWord sp b count WORD
      = C02.findStartOfPreviousWord sp (of09 b) count WORD := by
  unfold C09.findStartOfPrevWord C02.findStartOfPreviousWord
  by_cases hc : count ≤ 0
  · simp only [hc, if_true, nth_nonpos _ _ hc, Option.map_none]
  · obtain ⟨n, rfl⟩ : ∃ n : Nat, count = n := ⟨count.toNat, by omega⟩
    simp only [hc, if_false, reMatches_09, Int.toNat_natCast, C09.Buf.before, C02.Doc.before, of09]
    cases n with
    | zero => simp [nth_zero']
    | succ k => rw [nth_succ]

/-! C01 (C01Cmd) -/

/-- document.py::Document.find_previous_word_ending — `C01.findPrevWordEndingN` vs `C02.findPreviousWordEnding` -/
theorem findPreviousWordEnding_01 (sp : Char → Bool) (b : C01.Buf) (count : Nat) (WORD : Bool) :
    C01.findPrevWordEndingN sp b count WORD
      = C02.findPreviousWordEnding sp (of01 b) (count : Int) WORD := by
  have hc : ¬ ((count : Int) < 0) := by omega
  simp only [C01.findPrevWordEndingN, C02.findPreviousWordEnding, C02.prevWordEndingPos, hc, if_false,
    wordMatches_01, C01.Buf.after, C01.Buf.before, C02.Doc.after, C02.Doc.before, of01]
  generalize C02.runs _ _ = rs
  rcases rs with _ | ⟨⟨_ | s, e⟩, tl⟩
  · cases count with
    | zero => simp [C02.adjustCount, nth_zero']
    | succ k => simp only [C02.adjustCount, nth_succ]
  · simp only [C02.adjustCount]
    rw [show ((count : Int) + 1) = ((count + 1 : Nat) : Int) by omega, nth_succ]
  · cases count with
    | zero => simp [C02.adjustCount, nth_zero']
    | succ k => simp only [C02.adjustCount, nth_succ]

/-- document.py::Document.find_next_word_ending — `C01.findNextWordEndingN` vs `C02.findNextWordEnding` (include_current_position = False), every `count : Int` -/
theorem findNextWordEnding_01N (sp : Char → Bool) (b : C01.Buf) (count : Int) (WORD : Bool) :
    C01.findNextWordEndingN sp b count WORD
      = C02.findNextWordEnding sp (of01 b) false count WORD := by
  unfold C01.findNextWordEndingN C02.findNextWordEnding
  by_cases hc : count < 0
  · simp only [hc, if_true]
    have e : -count = (((-count).toNat : Nat) : Int) := by omega
    rw [findPreviousWordEnding_01, ← e]
    have hn : ¬ (-count < 0) := by omega
    simp only [C02.findPreviousWordEnding, hn, if_false]
  · obtain ⟨n, rfl⟩ : ∃ n : Nat, count = n := ⟨count.toNat, by omega⟩
    simp only [hc, if_false, C02.nextWordEndingPos, wordMatches_01, Bool.false_eq_true, Int.toNat_natCast,
      C01.Buf.after, C02.Doc.after, of01]
    cases n with
    | zero => simp [nth_zero']
    | succ k => rw [nth_succ]

/-- document.py::Document.find_start_of_previous_word — `C01.findStartOfPrevWord` vs `C02.findStartOfPreviousWord`, every `count : Int` -/
theorem findStartOfPreviousWord_01 (sp : Char → Bool) (b : C01.Buf) (count : Int) (WORD : Bool) :
    C01.findStartOfPrevWord sp b count WORD
      = C02.findStartOfPreviousWord sp (of01 b) count WORD := by
  unfold C01.findStartOfPrevWord C02.findStartOfPreviousWord
  by_cases hc : count ≤ 0
  · simp only [hc, if_true, nth_nonpos _ _ hc, Option.map_none]
  · obtain ⟨n, rfl⟩ : ∃ n : Nat, count = n := ⟨count.toNat, by omega⟩
    simp only [hc, if_false, wordMatches_01, Int.toNat_natCast, C01.Buf.before, C02.Doc.before, of01]
    cases n with
    | zero => simp [nth_zero']
    | succ k => rw [nth_succ]


/-! C01 (C01.lean): `firstWordEnd` = end of the first run -/

theorem prefixLen_takeWhile (cl : Char → Nat) (k : Nat) (p : Char → Bool)
    (hp : ∀ c, p c = true ↔ cl c = k) (t : Text) :
    C02.prefixLen cl k t = (t.takeWhile p).length := by
  induction t with
  | nil => rfl
  | cons c r ih =>
    by_cases h : cl c = k
    · simp [C02.prefixLen, h, (hp c).2 h, ih]
    · have : p c = false := by
        cases hpc : p c with
        | false => rfl
        | true => exact absurd ((hp c).1 hpc) h
      simp [C02.prefixLen, h, this]

theorem cls_false (sp : Char → Bool) : C02.cls sp false = C02.clsWord sp := rfl

theorem firstWordEnd_runsGo (sp : Char → Bool) (t : Text) :
    ∀ (f off : Nat), t.length ≤ f →
      ((C02.runsGo (C02.clsWord sp) f off t)[0]?).map (fun r => r.2) =
        (C01.firstWordEnd sp t).map (fun e => off + e) := by
  induction t with
  | nil => intro f off _; simp [runsGo_nil, C01.firstWordEnd]
  | cons c r ih =>
    intro f off hf
    cases f with
    | zero => simp at hf
    | succ f =>
      simp only [List.length_cons, Nat.add_le_add_iff_right] at hf
      by_cases hs : C01.wordSkip sp c = true
      · have hs2 := hs
        simp only [C01.wordSkip, isWordChar_01, Bool.and_eq_true, Bool.not_eq_true'] at hs2
        have h0 : C02.clsWord sp c = 0 := by simp [C02.clsWord, hs2.1, hs2.2]
        have e : C01.firstWordEnd sp (c :: r) = (C01.firstWordEnd sp r).map (· + 1) := by
          simp only [C01.firstWordEnd, List.takeWhile_cons, List.dropWhile_cons, hs, if_true, List.length_cons]
          cases r.dropWhile (C01.wordSkip sp) with
          | nil => rfl
          | cons x xs => simp; omega
        simp only [C02.runsGo, h0, if_true, e, ih f (off + 1) hf, Option.map_map]
        congr 1; funext x; simp; omega
      · have hs' : C01.wordSkip sp c = false := by simpa using hs
        have hne : C02.clsWord sp c ≠ 0 := by
          intro h0
          apply hs
          simp only [C02.clsWord] at h0
          simp only [C01.wordSkip, isWordChar_01]
          split at h0
          · cases h0
          · split at h0
            · simp_all
            · cases h0
        simp only [C02.runsGo, hne, if_false, List.getElem?_cons_zero, Option.map_some,
          C01.firstWordEnd, List.takeWhile_cons, List.dropWhile_cons, hs', Bool.false_eq_true,
          List.length_nil]
        congr 1
        by_cases hw : C02.isWordChar c = true
        · have hk : C02.clsWord sp c = 1 := by simp [C02.clsWord, hw]
          have hw1 : C01.isWordChar c = true := by rw [isWordChar_01]; exact hw
          rw [hk, prefixLen_takeWhile (C02.clsWord sp) 1 C01.isWordChar]
          · simp [hw1]; omega
          · intro x
            rw [isWordChar_01]
            by_cases hx : C02.isWordChar x = true
            · simp [C02.clsWord, hx]
            · simp only [C02.clsWord, hx, Bool.false_eq_true, if_false, false_iff]
              split <;> simp
        · have hw1 : C01.isWordChar c = false := by rw [isWordChar_01]; simpa using hw
          have hsc : sp c = false := by
            cases hsc : sp c with
            | false => rfl
            | true => simp [C01.wordSkip, hw1, hsc] at hs'
          have hk : C02.clsWord sp c = 2 := by simp [C02.clsWord, hw, hsc]
          rw [hk, prefixLen_takeWhile (C02.clsWord sp) 2 (fun d => !C01.isWordChar d && !sp d)]
          · simp [hw1]; omega
          · intro x
            rw [isWordChar_01]
            by_cases hx : C02.isWordChar x = true
            · simp [C02.clsWord, hx]
            · by_cases hsx : sp x = true <;> simp [C02.clsWord, hx, hsx]

/-- document.py::Document.find_next_word_ending — `C01.findNextWordEnding` (count = 1, WORD = False, include_current_position = False) vs `C02.findNextWordEnding` -/
theorem findNextWordEnding_01 (sp : Char → Bool) (b : C01.Buf) :
    (C01.findNextWordEnding sp b).map (fun (n : Nat) => (n : Int))
      = C02.findNextWordEnding sp (of01 b) false 1 false := by
  have h := firstWordEnd_runsGo sp (b.after.drop 1) (b.after.drop 1).length 0 (Nat.le_refl _)
  rw [← cls_false] at h
  simp only [C01.findNextWordEnding, C02.findNextWordEnding, C02.nextWordEndingPos, C02.nth]
  simp only [show ¬ ((1 : Int) < 0) by omega, show (1 : Int) ≥ 1 by omega, if_true, if_false,
    Bool.false_eq_true, show ((1 : Int) - 1).toNat = 0 by rfl]
  have h' : C01.firstWordEnd sp (b.after.drop 1) =
      ((C02.runs (C02.cls sp false) ((of01 b).after.drop 1))[0]?).map (fun r => r.2) := by
    rw [show (of01 b).after = b.after from rfl, C02.runs, h]
    cases C01.firstWordEnd sp (List.drop 1 b.after) <;> simp
  rw [h']
  cases (C02.runs (C02.cls sp false) ((of01 b).after.drop 1))[0]? <;> simp

end Ptk.AgreeDoc
