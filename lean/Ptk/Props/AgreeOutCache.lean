/-
  Cross-model agreement, cluster "Output side" — pair (6): `SimpleCache.get` (src/prompt_toolkit/cache.py).

  C04 (`Ptk.C04.Cache.get`, Model/C04KB.lean) models `SimpleCache` at keys `List Key` / values `List Binding` for any
  `maxsize`; C19 (`Ptk.C19.MCache`, `mergedQueryCached`, `mergedMiss`, Model/C19Obj.lean) models the
  `SimpleCache(maxsize=1)` of `_MergedStyle` as "at most one (hash, Style) entry".  The two are at different
  types, so both are proved equal to ONE polymorphic definition `GCache.get` (cache.py statement by statement):
  C04's is the instance at its types (`c04_get_eq`), C19's is the instance at `maxsize = 1` under the explicit
  abstraction `ofC19` (`c19_get_eq`), for every cache state C19 can represent, every key and every getter result.
-/
import Ptk.Model.C04KB
import Ptk.Model.C19Obj
namespace Ptk.AgreeOut.Cache
open Ptk

/-- `cache.SimpleCache` for arbitrary key / value types: `_data` (dict, newest first), `_keys` (deque) -/
structure GCache (κ ν : Type) where
  data : List (κ × ν) := []
  keys : List κ := []

/-- `self._data[key]` (`none` = KeyError) -/
def GCache.find [BEq κ] (c : GCache κ ν) (k : κ) : Option ν :=
  (c.data.find? (fun e => e.1 == k)).map (·.2)

/-- `SimpleCache.get(key, getter_func)` (cache.py), statement by statement -/
def GCache.get [BEq κ] (maxsize : Nat) (c : GCache κ ν) (k : κ) (getter : Unit → ν) : GCache κ ν × ν :=
  match c.find k with
  | some r => (c, r)
  | none =>
    let v := getter ()
    let data := (k, v) :: c.data
    let keys := c.keys ++ [k]
    if data.length > maxsize then
      match keys with
      | k0 :: rest => ({ data := data.filter (fun e => !(e.1 == k0)), keys := rest }, v)
      | [] => ({ data := data, keys := keys }, v)
    else ({ data := data, keys := keys }, v)

/-- C04's cache as an instance of the generic one -/
def ofC04 (c : C04.Cache) : GCache (List C04.Key) (List C04.Binding) := ⟨c.data, c.keys⟩

-- cache.py::SimpleCache.get — `Ptk.C04.Cache.get` is the generic `GCache.get` at keys `List Key`, values `List Binding`
theorem c04_get_eq (maxsize : Nat) (c : C04.Cache) (k : List C04.Key) (g : Unit → List C04.Binding) :
    (ofC04 (C04.Cache.get maxsize c k g).1, (C04.Cache.get maxsize c k g).2) = GCache.get maxsize (ofC04 c) k g := by
  unfold C04.Cache.get GCache.get C04.Cache.find GCache.find ofC04
  cases h : (List.find? (fun e => e.1 == k) c.data) <;> simp
  · split
    · split <;> simp_all
    · simp
  
open C19 in
instance : BEq C19.H := ⟨C19.H.beq⟩

mutual
theorem hbeq_refl : ∀ h : C19.H, C19.H.beq h h = true
  | .id n => by simp [C19.H.beq]
  | .one => by simp [C19.H.beq]
  | .tup l => by rw [C19.H.beq]; exact hbeqList_refl l
theorem hbeqList_refl : ∀ l : List C19.H, C19.H.beqList l l = true
  | [] => by simp [C19.H.beqList]
  | x :: xs => by rw [C19.H.beqList, hbeq_refl x, hbeqList_refl xs]; rfl
end

mutual
theorem hbeq_symm : ∀ a b : C19.H, C19.H.beq a b = C19.H.beq b a
  | .id n, .id m => by simp only [C19.H.beq]; exact Bool.eq_iff_iff.mpr ⟨fun h => by simpa using (beq_iff_eq.mp h).symm, fun h => by simpa using (beq_iff_eq.mp h).symm⟩
  | .id _, .one => by simp [C19.H.beq]
  | .id _, .tup _ => by simp [C19.H.beq]
  | .one, .id _ => by simp [C19.H.beq]
  | .one, .one => rfl
  | .one, .tup _ => by simp [C19.H.beq]
  | .tup _, .id _ => by simp [C19.H.beq]
  | .tup _, .one => by simp [C19.H.beq]
  | .tup a, .tup b => by rw [C19.H.beq, C19.H.beq]; exact hbeqList_symm a b
theorem hbeqList_symm : ∀ a b : List C19.H, C19.H.beqList a b = C19.H.beqList b a
  | [], [] => rfl
  | [], _ :: _ => by simp [C19.H.beqList]
  | _ :: _, [] => by simp [C19.H.beqList]
  | x :: xs, y :: ys => by rw [C19.H.beqList, C19.H.beqList, hbeq_symm x y, hbeqList_symm xs ys]
end

/-- C19's one-entry cache of a `_MergedStyle` as a `SimpleCache(maxsize=1)` -/
def ofC19 (c : C19.MCache) : GCache C19.H (List C19.Rule) :=
  match c.entry with
  | none => ⟨[], []⟩
  | some (k, v) => ⟨[(k, v)], [k]⟩

-- cache.py::SimpleCache.get — `Ptk.C19.mergedQueryCached` / `mergedMiss` (the `SimpleCache(maxsize=1)` of `_MergedStyle`,
-- getter `Style(self.style_rules)` returning `rules`) vs the generic `GCache.get 1`
theorem c19_get_eq (T : C19.Tables) (sp rsp : Char → Bool) (c : C19.MCache) (ps : List C19.SObj) (s : Py.Text)
    (d : C19.Attrs) (rules : List C19.Rule) (hc : C19.compile T sp rsp (C19.rulesOfList ps) = .ok rules) :
    let g := GCache.get 1 (ofC19 c) (C19.H.tup (C19.hashOfList ps)) (fun _ => rules)
    ofC19 (C19.mergedQueryCached T sp rsp c ps s d).1 = g.1 ∧
    (C19.mergedQueryCached T sp rsp c ps s d).2 = C19.runRules T sp g.2 s d := by
  intro g
  unfold C19.mergedQueryCached
  cases he : c.entry with
  | none =>
    simp [g, C19.mergedMiss, hc, ofC19, he, GCache.get, GCache.find]
  | some kv =>
    obtain ⟨k, v⟩ := kv
    by_cases hk : C19.H.beq k (C19.H.tup (C19.hashOfList ps)) = true
    · simp [g, hk, ofC19, he, GCache.get, GCache.find, BEq.beq]
    · have hk' : C19.H.beq (C19.H.tup (C19.hashOfList ps)) k = false := by
        rw [hbeq_symm]; simpa using hk
      simp [g, hk, hk', C19.mergedMiss, hc, ofC19, he, GCache.get, GCache.find, BEq.beq, hbeq_refl]

-- cache.py::SimpleCache.get — a getter that raises (`Style(...)` raises in `get()`): nothing is stored (C19 only; C04's
-- getters are total)
theorem c19_get_raise (T : C19.Tables) (sp rsp : Char → Bool) (c : C19.MCache) (ps : List C19.SObj) (s : Py.Text)
    (d : C19.Attrs) (e : C19.Err) (hc : C19.compile T sp rsp (C19.rulesOfList ps) = .error e) :
    (C19.mergedQueryCached T sp rsp c ps s d).1 = c := by
  unfold C19.mergedQueryCached
  cases he : c.entry with
  | none => simp [C19.mergedMiss, hc]
  | some kv =>
    obtain ⟨k, v⟩ := kv
    by_cases hk : C19.H.beq k (C19.H.tup (C19.hashOfList ps)) = true <;> simp [hk, C19.mergedMiss, hc]

/-- non-vacuity: a miss on a full one-entry cache evicts the old entry (both models) -/
example : (GCache.get 1 (⟨[(1, 10)], [1]⟩ : GCache Nat Nat) 2 (fun _ => 20)) = (⟨[(2, 20)], [2]⟩, 20) := by rfl

end Ptk.AgreeOut.Cache
