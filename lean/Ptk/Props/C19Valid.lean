/-
  C19 — which colours resolution can produce: `parse_color` returns '' / 'default' / an ANSI name /
  six hex digits whenever its argument is acceptable (`ColorArgOk`), hence resolved attributes lie
  in the domain of the round-trip theorem.  `parse_color` does not check the digits after '#'
  unless `T.hexValidated` (probed from the code) says so.
-/
import Ptk.Props.C19Style
import Ptk.Props.C19Cascade
namespace Ptk.C19
open Ptk.Py

/-- colour tables only hand out valid colours -/
structure ColorTablesOk (T : Tables) : Prop where
  aliasVals : ∀ kv ∈ T.aliases, kv.2 ∈ T.ansiNames
  namedVals : ∀ kv ∈ T.named, IsHex6 kv.2

def colorTablesOkB (T : Tables) : Bool :=
  T.aliases.all (fun kv => T.ansiNames.contains kv.2) && T.named.all (fun kv => decide (IsHex6 kv.2))

theorem colorTablesOk_of_bool (T : Tables) (h : colorTablesOkB T = true) : ColorTablesOk T := by
  unfold colorTablesOkB at h
  simp only [Bool.and_eq_true, List.all_eq_true, decide_eq_true_eq] at h
  exact ⟨fun kv hkv => by simpa using h.1 kv hkv, h.2⟩

def IsHexChar (ch : Char) : Prop := (hexVal? ch).isSome = true
instance (ch : Char) : Decidable (IsHexChar ch) := by unfold IsHexChar; infer_instance

/-- the argument of `parse_color` is acceptable: if it starts with '#', the rest is an ANSI colour
    name / alias or consists of hexadecimal digits only — or `parse_color` checks the digits itself
    (`T.hexValidated`, probed from the code; on the current tree it does NOT: '#zzzzzz' is accepted
    and yields the "colour" 'zzzzzz'). -/
def ColorArgOk (T : Tables) (text : Text) : Prop :=
  T.hexValidated = true ∨
  (text.take 1 = ['#'] →
    (∀ ch ∈ text.drop 1, IsHexChar ch) ∨ text.drop 1 ∈ T.ansiNames ∨ (lookup (text.drop 1) T.aliases).isSome)
instance (T : Tables) (t : Text) : Decidable (ColorArgOk T t) := by unfold ColorArgOk; infer_instance

/-- **`parse_color` returns a valid colour** ('' / 'default' / ANSI name / six hex digits) whenever
    its argument is acceptable in the sense of `ColorArgOk`. -/
theorem parseColor_valid (T : Tables) (hC : ColorTablesOk T) (text c : Text) (hok : ColorArgOk T text)
    (h : parseColor T text = some c) : ValidColor T c := by
  unfold parseColor at h
  split at h
  · rename_i hn; cases h; exact Or.inr (Or.inr (Or.inl (by simpa using hn)))
  · split at h
    · rename_i v hv; cases h
      exact Or.inr (Or.inr (Or.inl (hC.aliasVals _ (lookup_mem _ _ _ hv))))
    · split at h
      · rename_i v hv; cases h
        exact Or.inr (Or.inr (Or.inr (hC.namedVals _ (lookup_mem _ _ _ hv))))
      · split at h
        · rename_i hhash
          have hhash' : text.take 1 = ['#'] := by simpa using hhash
          simp only at h
          split at h
          · rename_i hn; cases h; exact Or.inr (Or.inr (Or.inl (by simpa using hn)))
          · rename_i hnn
            split at h
            · rename_i v hv; cases h
              exact Or.inr (Or.inr (Or.inl (hC.aliasVals _ (lookup_mem _ _ _ hv))))
            · rename_i hal
              split at h
              · cases h
              · rename_i hval
                have hhex : ∀ ch ∈ text.drop 1, IsHexChar ch := by
                  rcases hok with hflag | hok
                  · intro ch hch
                    have : (text.drop 1).all isHexDigit = true := by
                      cases hall : (text.drop 1).all isHexDigit with
                      | true => rfl
                      | false => rw [hflag, hall] at hval; exact absurd rfl hval
                    have := (List.all_eq_true.mp this) ch hch
                    rw [isHexDigit_iff] at this
                    exact this
                  · rcases hok hhash' with h1 | h1 | h1
                    · exact h1
                    · exact absurd (by simpa using h1) hnn
                    · rw [hal] at h1; cases h1
                split at h
                · rename_i hlen; cases h
                  exact Or.inr (Or.inr (Or.inr ⟨by simpa using hlen, hhex⟩))
                · split at h
                  · rename_i x y z heq; cases h
                    rw [heq] at hhex
                    refine Or.inr (Or.inr (Or.inr ⟨rfl, ?_⟩))
                    intro ch hch
                    simp only [List.mem_cons, List.not_mem_nil, or_false] at hch
                    rcases hch with rfl | rfl | rfl | rfl | rfl | rfl <;> exact hhex _ (by simp)
                  · cases h
        · split at h
          · rename_i hd; cases h
            simp only [Bool.or_eq_true, beq_iff_eq] at hd
            rcases hd with rfl | rfl
            · exact Or.inl rfl
            · exact Or.inr (Or.inl rfl)
          · cases h
end Ptk.C19

namespace Ptk.C19
open Ptk.Py

/-- partial attributes whose colours (where set) are valid -/
def PValid (T : Tables) (a : Attrs) : Prop :=
  (∀ c, a.color = some c → ValidColor T c) ∧ (∀ c, a.bgcolor = some c → ValidColor T c)

/-- the text one part of a style string hands to `parse_color` (if any) -/
def colorArg (part : Text) : Option Text :=
  if plainWordB part then
    (if startsWith "bg:".toList part then some (part.drop 3)
     else if startsWith "fg:".toList part then some (part.drop 3) else some part)
  else none

/-- every colour word of the style string is acceptable to `parse_color` -/
def StyleStrOk (T : Tables) (sp : Char → Bool) (s : Text) : Prop :=
  ∀ part ∈ splitWs sp s, ∀ t ∈ colorArg part, ColorArgOk T t
instance (T : Tables) (sp : Char → Bool) (s : Text) : Decidable (StyleStrOk T sp s) := by
  unfold StyleStrOk; infer_instance

theorem parsePart_plain_fgp (T : Tables) (a : Attrs) (w : Text) (h : plainWordB w = true)
    (h1 : startsWith "bg:".toList w = false) (h2 : startsWith "fg:".toList w = true) :
    parsePart T a w = (parseColor T (w.drop 3)).map fun c => { a with color := some c } := by
  unfold plainWordB at h
  simp only [Bool.and_eq_true, Bool.not_eq_true'] at h
  obtain ⟨⟨⟨⟨⟨⟨⟨⟨⟨⟨⟨⟨⟨⟨⟨⟨⟨k1, k2⟩, k3⟩, k4⟩, k5⟩, k6⟩, k7⟩, k8⟩, k9⟩, k10⟩, k11⟩, k12⟩, k13⟩, k14⟩, k15⟩,
    k16⟩, k17⟩, k18⟩ := h
  unfold parsePart
  simp only [k1, k2, k3, k4, k5, k6, k7, k8, k9, k10, k11, k12, k13, k14, k15, k16, k17, k18,
    h1, h2, Bool.false_eq_true, if_false, if_true]

theorem colorArg_bg (part : Text) (hp : plainWordB part = true) (hb : startsWith "bg:".toList part = true) :
    colorArg part = some (part.drop 3) := by
  unfold colorArg; rw [if_pos hp, if_pos hb]
theorem colorArg_fgp (part : Text) (hp : plainWordB part = true) (hb : startsWith "bg:".toList part = false)
    (hf : startsWith "fg:".toList part = true) : colorArg part = some (part.drop 3) := by
  unfold colorArg; rw [if_pos hp, if_neg (by rw [hb]; simp), if_pos hf]
theorem colorArg_fg (part : Text) (hp : plainWordB part = true) (hb : startsWith "bg:".toList part = false)
    (hf : startsWith "fg:".toList part = false) : colorArg part = some part := by
  unfold colorArg; rw [if_pos hp, if_neg (by rw [hb]; simp), if_neg (by rw [hf]; simp)]

/-- a part that is not a colour word leaves both colours untouched -/
theorem parsePart_notplain (T : Tables) (a a' : Attrs) (part : Text) (hp : plainWordB part = false)
    (h : parsePart T a part = some a') : a'.color = a.color ∧ a'.bgcolor = a.bgcolor := by
  unfold parsePart at h
  by_cases n1 : (part == "noinherit".toList) = true
  · rw [if_pos n1] at h; cases h; exact ⟨rfl, rfl⟩
  rw [if_neg n1] at h
  by_cases n2 : (part == "bold".toList) = true
  · rw [if_pos n2] at h; cases h; exact ⟨rfl, rfl⟩
  rw [if_neg n2] at h
  by_cases n3 : (part == "nobold".toList) = true
  · rw [if_pos n3] at h; cases h; exact ⟨rfl, rfl⟩
  rw [if_neg n3] at h
  by_cases n4 : (part == "italic".toList) = true
  · rw [if_pos n4] at h; cases h; exact ⟨rfl, rfl⟩
  rw [if_neg n4] at h
  by_cases n5 : (part == "noitalic".toList) = true
  · rw [if_pos n5] at h; cases h; exact ⟨rfl, rfl⟩
  rw [if_neg n5] at h
  by_cases n6 : (part == "underline".toList) = true
  · rw [if_pos n6] at h; cases h; exact ⟨rfl, rfl⟩
  rw [if_neg n6] at h
  by_cases n7 : (part == "nounderline".toList) = true
  · rw [if_pos n7] at h; cases h; exact ⟨rfl, rfl⟩
  rw [if_neg n7] at h
  by_cases n8 : (part == "strike".toList) = true
  · rw [if_pos n8] at h; cases h; exact ⟨rfl, rfl⟩
  rw [if_neg n8] at h
  by_cases n9 : (part == "nostrike".toList) = true
  · rw [if_pos n9] at h; cases h; exact ⟨rfl, rfl⟩
  rw [if_neg n9] at h
  by_cases n10 : (part == "blink".toList) = true
  · rw [if_pos n10] at h; cases h; exact ⟨rfl, rfl⟩
  rw [if_neg n10] at h
  by_cases n11 : (part == "noblink".toList) = true
  · rw [if_pos n11] at h; cases h; exact ⟨rfl, rfl⟩
  rw [if_neg n11] at h
  by_cases n12 : (part == "reverse".toList) = true
  · rw [if_pos n12] at h; cases h; exact ⟨rfl, rfl⟩
  rw [if_neg n12] at h
  by_cases n13 : (part == "noreverse".toList) = true
  · rw [if_pos n13] at h; cases h; exact ⟨rfl, rfl⟩
  rw [if_neg n13] at h
  by_cases n14 : (part == "hidden".toList) = true
  · rw [if_pos n14] at h; cases h; exact ⟨rfl, rfl⟩
  rw [if_neg n14] at h
  by_cases n15 : (part == "nohidden".toList) = true
  · rw [if_pos n15] at h; cases h; exact ⟨rfl, rfl⟩
  rw [if_neg n15] at h
  by_cases n16 : ((part == "roman".toList || part == "sans".toList || part == "mono".toList)) = true
  · rw [if_pos n16] at h; cases h; exact ⟨rfl, rfl⟩
  rw [if_neg n16] at h
  by_cases n17 : (startsWith "border:".toList part) = true
  · rw [if_pos n17] at h; cases h; exact ⟨rfl, rfl⟩
  rw [if_neg n17] at h
  by_cases n18 : ((startsWith ['['] part && endsWith [']'] part)) = true
  · rw [if_pos n18] at h; cases h; exact ⟨rfl, rfl⟩
  rw [if_neg n18] at h
  exfalso
  have : plainWordB part = true := by
    unfold plainWordB
    rw [(Bool.not_eq_true _).mp n1, (Bool.not_eq_true _).mp n2, (Bool.not_eq_true _).mp n3,
      (Bool.not_eq_true _).mp n4, (Bool.not_eq_true _).mp n5, (Bool.not_eq_true _).mp n6,
      (Bool.not_eq_true _).mp n7, (Bool.not_eq_true _).mp n8, (Bool.not_eq_true _).mp n9,
      (Bool.not_eq_true _).mp n10, (Bool.not_eq_true _).mp n11, (Bool.not_eq_true _).mp n12,
      (Bool.not_eq_true _).mp n13, (Bool.not_eq_true _).mp n14, (Bool.not_eq_true _).mp n15,
      (Bool.not_eq_true _).mp n16, (Bool.not_eq_true _).mp n17, (Bool.not_eq_true _).mp n18]
    rfl
  rw [hp] at this; cases this

theorem parsePart_pvalid (T : Tables) (hC : ColorTablesOk T) (a a' : Attrs) (part : Text)
    (ha : PValid T a) (hok : ∀ t ∈ colorArg part, ColorArgOk T t)
    (h : parsePart T a part = some a') : PValid T a' := by
  cases hp : plainWordB part with
  | true =>
    cases hb : startsWith "bg:".toList part with
    | true =>
      rw [parsePart_plain_bg T a part hp hb] at h
      have hk := hok _ (colorArg_bg part hp hb)
      cases hc : parseColor T (part.drop 3) with
      | none => simp [hc] at h
      | some c =>
        simp [hc] at h; subst h
        exact ⟨ha.1, fun c' hc' => by cases hc'; exact parseColor_valid T hC _ _ hk hc⟩
    | false =>
      cases hf : startsWith "fg:".toList part with
      | true =>
        rw [parsePart_plain_fgp T a part hp hb hf] at h
        have hk := hok _ (colorArg_fgp part hp hb hf)
        cases hc : parseColor T (part.drop 3) with
        | none => simp [hc] at h
        | some c =>
          simp [hc] at h; subst h
          exact ⟨fun c' hc' => by cases hc'; exact parseColor_valid T hC _ _ hk hc, ha.2⟩
      | false =>
        rw [parsePart_plain_fg T a part hp hb hf] at h
        have hk := hok _ (colorArg_fg part hp hb hf)
        cases hc : parseColor T part with
        | none => simp [hc] at h
        | some c =>
          simp [hc] at h; subst h
          exact ⟨fun c' hc' => by cases hc'; exact parseColor_valid T hC _ _ hk hc, ha.2⟩
  | false =>
    obtain ⟨h1, h2⟩ := parsePart_notplain T a a' part hp h
    exact ⟨fun c hc => ha.1 c (h1 ▸ hc), fun c hc => ha.2 c (h2 ▸ hc)⟩
end Ptk.C19

namespace Ptk.C19
open Ptk.Py

theorem parseParts_pvalid (T : Tables) (hC : ColorTablesOk T) (parts : List Text) (a a' : Attrs)
    (ha : PValid T a) (hok : ∀ part ∈ parts, ∀ t ∈ colorArg part, ColorArgOk T t)
    (h : parseParts T a parts = some a') : PValid T a' := by
  induction parts generalizing a with
  | nil => simp [parseParts] at h; subst h; exact ha
  | cons p ps ih =>
    unfold parseParts at h
    cases hp : parsePart T a p with
    | none => simp [hp] at h
    | some a1 =>
      simp only [hp] at h
      exact ih a1 (parsePart_pvalid T hC a a1 p ha (hok p (by simp)) hp)
        (fun part hpart => hok part (by simp [hpart])) h

theorem pvalid_none (T : Tables) : PValid T noneAttrs := by
  constructor <;> (intro c h; cases h)
theorem pvalid_dflt (T : Tables) : PValid T dfltAttrs := by
  constructor <;> (intro c h; cases h; exact Or.inl rfl)

/-- **`_parse_style_str` only produces valid colours** when every colour word is acceptable -/
theorem parseStyleStr_pvalid (T : Tables) (hC : ColorTablesOk T) (hS : StyleOk T) (sp : Char → Bool)
    (s : Text) (a : Attrs) (hok : StyleStrOk T sp s) (h : parseStyleStr T sp s = some a) : PValid T a := by
  unfold parseStyleStr at h
  refine parseParts_pvalid T hC _ _ a ?_ hok h
  split
  · rw [hS.dflt]; exact pvalid_dflt T
  · rw [hS.empty]; exact pvalid_none T

/-- every rule style of the sheet is acceptable -/
def SheetOk (T : Tables) (sp : Char → Bool) (sheet : List (Text × Text)) : Prop :=
  ∀ r ∈ sheet, StyleStrOk T sp r.2
instance (T : Tables) (sp : Char → Bool) (sheet : List (Text × Text)) : Decidable (SheetOk T sp sheet) := by
  unfold SheetOk; infer_instance

theorem compile_pvalid (T : Tables) (hC : ColorTablesOk T) (hS : StyleOk T) (sp rsp : Char → Bool)
    (sheet : List (Text × Text)) (rules : List Rule) (hok : SheetOk T sp sheet)
    (h : compile T sp rsp sheet = .ok rules) : ∀ r ∈ rules, PValid T r.attrs := by
  induction sheet generalizing rules with
  | nil => simp [compile] at h; subst h; simp
  | cons x xs ih =>
    unfold compile at h
    cases hx : compileRule T sp rsp x with
    | error e => simp [hx] at h
    | ok r0 =>
      cases hxs : compile T sp rsp xs with
      | error e => simp [hx, hxs] at h
      | ok rs =>
        simp [hx, hxs] at h; subst h
        intro r hr
        rcases List.mem_cons.mp hr with rfl | hr
        · unfold compileRule at hx
          split at hx
          · cases hx
          · split at hx
            · rename_i a0 ha0
              cases hx
              exact parseStyleStr_pvalid T hC hS sp x.2 a0 (hok x (by simp)) ha0
            · cases hx
        · exact ih rs (fun r hr => hok r (by simp [hr])) hxs r hr

/-- the inline (non `class:`) parts of the queried style string are acceptable -/
def InlineOk (T : Tables) (sp : Char → Bool) (s : Text) : Prop :=
  ∀ part ∈ splitWs sp s, startsWith "class:".toList part = false → StyleStrOk T sp part
instance (T : Tables) (sp : Char → Bool) (s : Text) : Decidable (InlineOk T sp s) := by
  unfold InlineOk; infer_instance

theorem cascadeParts_pvalid (T : Tables) (hC : ColorTablesOk T) (hS : StyleOk T) (sp : Char → Bool)
    (rules : List Rule) (hr : ∀ r ∈ rules, PValid T r.attrs) (parts : List Text)
    (hparts : ∀ part ∈ parts, startsWith "class:".toList part = false → StyleStrOk T sp part)
    (st st' : CascadeSt) (hst : ∀ x ∈ st.acc, PValid T x)
    (h : cascadeParts T sp rules st parts = some st') : ∀ x ∈ st'.acc, PValid T x := by
  induction parts generalizing st with
  | nil => simp [cascadeParts] at h; subst h; exact hst
  | cons p ps ih =>
    unfold cascadeParts at h
    cases hp : cascadePart T sp rules st p with
    | none => simp [hp] at h
    | some st1 =>
      simp only [hp] at h
      refine ih (fun part hpart => hparts part (by simp [hpart])) st1 ?_ h
      unfold cascadePart at hp
      split at hp
      · cases hp
        -- class part: only rule attributes are appended
        have : ∀ (names : List Text) (s0 : CascadeSt), (∀ x ∈ s0.acc, PValid T x) →
            ∀ x ∈ (names.foldl (applyClass rules) s0).acc, PValid T x := by
          intro names
          induction names with
          | nil => intro s0 h0; simpa using h0
          | cons n ns ihn =>
            intro s0 h0
            simp only [List.foldl_cons]
            apply ihn
            intro x hx
            unfold applyClass at hx
            simp only [List.mem_append, List.mem_map, List.mem_filter] at hx
            rcases hx with hx | ⟨r, ⟨hrm, _⟩, rfl⟩
            · exact h0 x hx
            · exact hr r hrm
        exact this _ st hst
      · rename_i hcls
        cases hps : parseStyleStr T sp p with
        | none => simp [hps] at hp
        | some a0 =>
          simp [hps] at hp; subst hp
          intro x hx
          simp only [List.mem_append, List.mem_singleton] at hx
          rcases hx with hx | rfl
          · exact hst x hx
          · exact parseStyleStr_pvalid T hC hS sp p x
              (hparts p (by simp) (by simpa using hcls)) hps

/-- **Resolved attributes are valid.**  If every colour word in the sheet's rules and in the
    inline parts of the style string is acceptable to `parse_color` (`ColorArgOk`: after '#' only
    hex digits or a colour name) and the default is valid, then both resolved colours are
    '' / 'default' / an ANSI name / six hex digits — the domain of the round-trip theorem. -/
theorem resolved_attrs_valid (T : Tables) (hC : ColorTablesOk T) (hS : StyleOk T) (sp : Char → Bool)
    (rules : List Rule) (hr : ∀ r ∈ rules, PValid T r.attrs) (s : Text) (hs : InlineOk T sp s)
    (d : Attrs) (hd : PValid T d) (a : Attrs) (h : getAttrs T sp rules s d = some a) :
    ValidAttrs T a := by
  unfold getAttrs listOfAttrs at h
  cases hc : cascadeParts T sp rules
      { seen := [], acc := d :: ((rules.filter fun r => r.names.isEmpty).map (·.attrs)) }
      (splitWs sp s) with
  | none => simp [hc] at h
  | some st' =>
    simp [hc] at h
    have hacc := cascadeParts_pvalid T hC hS sp rules hr _ hs _ st' (by
      intro x hx
      simp only [List.mem_cons, List.mem_map, List.mem_filter] at hx
      rcases hx with rfl | ⟨r, ⟨hrm, _⟩, rfl⟩
      · exact hd
      · exact hr r hrm) hc
    obtain ⟨c, bg, b, u, s', i, bl, r, hdn, heq, hc1, hc2, _⟩ := mergeAttrs_last_wins st'.acc
    rw [← h, heq]
    constructor
    · show ValidColor T c
      rcases hc1 with ⟨pre, x, post, hl, hx, _⟩ | ⟨_, rfl⟩
      · exact (hacc x (by rw [hl]; simp)).1 c hx
      · exact Or.inl rfl
    · show ValidColor T bg
      rcases hc2 with ⟨pre, x, post, hl, hx, _⟩ | ⟨_, rfl⟩
      · exact (hacc x (by rw [hl]; simp)).2 bg hx
      · exact Or.inl rfl
end Ptk.C19
