/-
  C14 — the asynchronous population of the working lines racing with navigation AND edits
  (`Buffer.load_history_if_not_yet_loaded`: each delivered item is `appendleft`-ed and
  `working_index` moves with the entry it points at).
-/
import Ptk.Props.C14
set_option linter.unusedSimpArgs false
namespace Ptk.C14
open Ptk.Py

/-- browsing, editing and the loader: everything that can happen while the history is still
    being loaded, short of accepting or resetting -/
def Op.isLive (op : Op) : Bool := op.isNav || op.isEdit || (match op with | .loadOne | .startLoad => true | _ => false)

/-- one step: the loader puts at most one item in front, an edit changes only the current entry,
    everything else keeps every working copy -/
theorem live_step_shape (v : Validator) (s : St) (op : Op) (h : op.isLive = true) :
    ∃ pre, (step v s op).1.work.length = pre + s.work.length ∧
      ∀ j, (op.isEdit = false ∨ j ≠ s.idx) → (step v s op).1.work[pre + j]? = s.work[j]? := by
  simp only [Op.isLive, Bool.or_eq_true] at h
  rcases h with (hn | he) | hl
  · obtain ⟨a, _⟩ := nav_frame v s op hn
    exact ⟨0, by simp [a], by intro j _; simp [a]⟩
  · obtain ⟨_, _, _, hlen, hget⟩ := edit_only_at_idx v s op he
    refine ⟨0, by simp [hlen], ?_⟩
    intro j hj
    rcases hj with hj | hj
    · rw [he] at hj; cases hj
    · simpa using hget j hj
  · cases op <;> simp at hl
    · obtain ⟨a1, _⟩ := startLoad_spec s
      exact ⟨0, by simp [step, a1], by intro j _; simp [step, a1]⟩
    · obtain ⟨_, _, _, _, _, _, pre, _, a8, _⟩ := loadOne_spec s
      refine ⟨pre.length, by simp [step, a8], ?_⟩
      intro j _
      simp only [step]
      rw [a8, List.getElem?_append_right (by omega)]
      simp

/-- positions (in the coordinates of `s.work`; negative = an item the loader delivered later)
    that are current when an edit happens along `ops` -/
def touched (v : Validator) : St → List Op → List Int
  | _, [] => []
  | s, op :: ops =>
    let s' := (step v s op).1
    (if op.isEdit then [(s.idx : Int)] else []) ++
      (touched v s' ops).map (fun i => i - ((s'.work.length : Int) - s.work.length))

/-- **edits_while_loading_kept** — along any interleaving of navigation, edits and loader items
    (the history may still be loading), every working copy that was not the current one at an
    edit is still there unchanged, shifted by the number of items delivered in the meantime. -/
theorem live_run_shape (v : Validator) (ops : List Op) : ∀ s : St, (∀ op ∈ ops, op.isLive = true) →
    ∃ pre, (run v s ops).work.length = pre + s.work.length ∧
      ∀ j : Nat, (j : Int) ∉ touched v s ops → (run v s ops).work[pre + j]? = s.work[j]? := by
  induction ops with
  | nil => intro s _; exact ⟨0, by simp [run], by intro j _; simp [run]⟩
  | cons op ops ih =>
    intro s h
    obtain ⟨p1, l1, g1⟩ := live_step_shape v s op (h op (by simp))
    obtain ⟨p2, l2, g2⟩ := ih (step v s op).1 (fun o ho => h o (by simp [ho]))
    refine ⟨p2 + p1, ?_, ?_⟩
    · show (run v (step v s op).1 ops).work.length = _
      rw [l2, l1]; omega
    · intro j hj
      show (run v (step v s op).1 ops).work[p2 + p1 + j]? = _
      simp only [touched, List.mem_append, List.mem_map, not_or] at hj
      obtain ⟨hj1, hj2⟩ := hj
      have e : p2 + p1 + j = p2 + (p1 + j) := by omega
      rw [e, g2 (p1 + j) ?_, g1 j ?_]
      · by_cases he : op.isEdit = true
        · right; intro hjj; apply hj1; simp [he, hjj]
        · left; simpa using he
      · intro hm
        apply hj2
        refine ⟨_, hm, ?_⟩
        rw [l1]; push_cast; omega
/-- and the stored history is untouched by all of it -/
theorem live_run_storage (v : Validator) (s : St) (ops : List Op) (h : ∀ op ∈ ops, op.isLive = true) :
    (run v s ops).storage = s.storage := by
  apply browse_preserves_storage
  intro op ho
  have := h op ho
  cases op <;> simp [Op.isLive, Op.isNav, Op.isEdit] at this <;> rfl

/-- the current entry follows its text: a loader item never changes which text is shown -/
theorem loadOne_keeps_current (s : St) : (loadOne s).text = s.text ∧ (loadOne s).cur = s.cur ∧
    (loadOne s).search = s.search ∧ (loadOne s).vstate = s.vstate :=
  ⟨(loadOne_spec s).1, (loadOne_spec s).2.1, (loadOne_spec s).2.2.1, (loadOne_spec s).2.2.2.1⟩

/-- history [a, b]; the loader has delivered "b" only; the new line is edited ("x"), then "a"
    arrives, the user goes up one (to "b"), edits it, and the loader is done: the edited new line
    "x" and the edited "b!" are both there, "a" is in front -/
example :
    let s0 := run exV (St.fresh ["a".toList, "b".toList] false false) [.startLoad, .loadOne]
    let ops := [Op.insert "x".toList, .loadOne, .histBack 1, .insert "!".toList, .histFwd 1]
    s0.work = ["b".toList, []] ∧ s0.idx = 1 ∧ s0.pending = ["a".toList] ∧
    (run exV s0 ops).work = ["a".toList, "b!".toList, "x".toList] ∧ (run exV s0 ops).idx = 2 ∧
    touched exV s0 ops = [1, 0] ∧ (run exV s0 ops).storage = ["a".toList, "b".toList] := by decide

example :
    let s0 := run exV (St.fresh ["a".toList, "b".toList, "c".toList] false false) [.startLoad, .loadOne]
    let ops := [Op.insert "x".toList, .loadOne, .histBack 2, .loadOne]
    ∃ pre, (run exV s0 ops).work[pre + 0]? = some "c".toList :=
  let s0 := run exV (St.fresh ["a".toList, "b".toList, "c".toList] false false) [.startLoad, .loadOne]
  let ops := [Op.insert "x".toList, .loadOne, .histBack 2, .loadOne]
  (live_run_shape exV ops s0 (by decide)).imp fun _ h => h.2 0 (by decide)

end Ptk.C14
