/-
  C19 — what the encoder emits for an RGB colour at the lower colour depths.
-/
import Ptk.Props.C19Sgr
import Ptk.Props.C19Color
namespace Ptk.C19
open Ptk.Py

theorem hex6_lookup_none (T : Tables) (hT : EncDecOk T) (c : Text) (hh : IsHex6 c) (bg : Bool) :
    c.isEmpty = false ∧ lookup c (if bg then T.bg else T.fg) = none := by
  have hne : c ≠ [] := by
    intro h; subst h; simp [IsHex6] at hh
  have hemp : c.isEmpty = false := by cases c <;> simp_all
  have hnn : c ∉ T.ansiNames := fun hn => (hT.names c hn).2 hh
  refine ⟨hemp, ?_⟩
  apply lookup_eq_none
  intro kv hkv heq
  apply hnn
  rw [← heq]
  cases bg
  · exact hT.fgKeys kv (by simpa using hkv)
  · exact hT.bgKeys kv (by simpa using hkv)

/-- 8-bit depth: an RGB colour is sent as `38/48;5;m` with `m` the 256-colour map of its value -/
theorem colorCodes_d8 (T : Tables) (hT : EncDecOk T) (sp : Char → Bool) (hsp : SpOk sp)
    (fgc bgc fa c : Text) (bg : Bool) (hh : IsHex6 c) :
    colorCodes T sp .d8 fgc bgc fa c bg =
      ([if bg then 48 else 38, 5, closest256 T.pal256 (hexRgb c)], fa) := by
  obtain ⟨h1, h2⟩ := hex6_lookup_none T hT c hh bg
  unfold colorCodes
  simp [h1, h2, colorNameToRgb_hex6 sp hsp c hh]

/-- 4-bit depth, foreground: the code of the 16-colour map of the value; its name is remembered -/
theorem colorCodes_d4_fg (T : Tables) (hT : EncDecOk T) (sp : Char → Bool) (hsp : SpOk sp)
    (fgc bgc fa c : Text) (hh : IsHex6 c) (code : Nat)
    (hcode : lookup (closest16 T.ansiRgb (hexRgb c) []) T.fg = some code) :
    colorCodes T sp .d4 fgc bgc fa c false = ([code], closest16 T.ansiRgb (hexRgb c) []) := by
  obtain ⟨h1, h2⟩ := hex6_lookup_none T hT c hh false
  unfold colorCodes
  simp at h2
  simp [h1, h2, colorNameToRgb_hex6 sp hsp c hh, code16, hcode]

/-- 4-bit depth, background: the 16-colour map of the value, where the name chosen for the
    foreground is excluded unless both colour strings are equal -/
theorem colorCodes_d4_bg (T : Tables) (hT : EncDecOk T) (sp : Char → Bool) (hsp : SpOk sp)
    (fgc bgc fa c : Text) (hh : IsHex6 c) (code : Nat)
    (hcode : lookup (closest16 T.ansiRgb (hexRgb c) (if fgc != bgc then [fa] else [])) T.bg = some code) :
    colorCodes T sp .d4 fgc bgc fa c true = ([code], fa) := by
  obtain ⟨h1, h2⟩ := hex6_lookup_none T hT c hh true
  unfold colorCodes
  simp at h2
  have hcode' : lookup (closest16 T.ansiRgb (hexRgb c) (if fgc = bgc then [] else [fa])) T.bg = some code := by
    by_cases h : fgc = bgc <;> simp_all
  simp [h1, h2, colorNameToRgb_hex6 sp hsp c hh, code16, hcode']

/-- 1-bit depth: no colour parameters at all -/
theorem colorsToCode_d1 (T : Tables) (sp : Char → Bool) (fg bg : Text) :
    colorsToCode T sp .d1 fg bg = [] := by
  simp [colorsToCode, colorCodes]

/-- named colours are sent by their own code at every depth but 1 bit -/
theorem colorCodes_named (T : Tables) (sp : Char → Bool) (depth : Depth) (hd : depth ≠ .d1)
    (fgc bgc fa c : Text) (bg : Bool) (code : Nat) (hne : c ≠ [])
    (hcode : lookup c (if bg then T.bg else T.fg) = some code) :
    colorCodes T sp depth fgc bgc fa c bg = ([code], fa) := by
  have hemp : c.isEmpty = false := by cases c <;> simp_all
  unfold colorCodes
  have : (depth == Depth.d1) = false := by cases depth <;> simp_all
  simp [hemp, this, hcode]
end Ptk.C19
