/-
  C19 — what the encoder emits for an RGB colour at the lower colour depths.
-/
import Ptk.Props.C19Sgr
import Ptk.Props.C19Color
namespace Ptk.C19
open Ptk.Py

theorem hex6_lookup_none (T : Tables) (hT : EncDecOk T) (c : Text) (hh : IsHex6 c) (bg : Bool) :
    c.isEmpty = false ∧ lookup c (if bg then T.bg else T.fg) = none := by
  have hne : c ≠ [] := by
    intro h; subst h; simp [IsHex6] at hh
  have hemp : c.isEmpty = false := by cases c <;> simp_all
  have hnn : c ∉ T.ansiNames := fun hn => (hT.names c hn).2 hh
  refine ⟨hemp, ?_⟩
  apply lookup_eq_none
  intro kv hkv heq
  apply hnn
  rw [← heq]
  cases bg
  · exact hT.fgKeys kv (by simpa using hkv)
  · exact hT.bgKeys kv (by simpa using hkv)

/-- 8-bit depth: an RGB colour is sent as `38/48;5;m` with `m` the 256-colour map of its value -/
theorem colorCodes_d8 (T : Tables) (hT : EncDecOk T) (sp : Char → Bool) (hsp : SpOk sp)
    (fgc bgc fa c : Text) (bg : Bool) (hh : IsHex6 c) :
    colorCodes T sp .d8 fgc bgc fa c bg =
      ([if bg then 48 else 38, 5, closest256 T.pal256 (hexRgb c)], fa) := by
  obtain ⟨h1, h2⟩ := hex6_lookup_none T hT c hh bg
  unfold colorCodes
  simp [h1, h2, colorNameToRgb_hex6 sp hsp c hh]

/-- 4-bit depth, foreground: the code of the 16-colour map of the value; its name is remembered -/
theorem colorCodes_d4_fg (T : Tables) (hT : EncDecOk T) (sp : Char → Bool) (hsp : SpOk sp)
    (fgc bgc fa c : Text) (hh : IsHex6 c) (code : Nat)
    (hcode : lookup (closest16 T.ansiRgb (hexRgb c) []) T.fg = some code) :
    colorCodes T sp .d4 fgc bgc fa c false = ([code], closest16 T.ansiRgb (hexRgb c) []) := by
  obtain ⟨h1, h2⟩ := hex6_lookup_none T hT c hh false
  unfold colorCodes
  simp at h2
  simp [h1, h2, colorNameToRgb_hex6 sp hsp c hh, code16, hcode]

/-- 4-bit depth, background: the 16-colour map of the value, where the name chosen for the
    foreground is excluded unless both colour strings are equal -/
theorem colorCodes_d4_bg (T : Tables) (hT : EncDecOk T) (sp : Char → Bool) (hsp : SpOk sp)
    (fgc bgc fa c : Text) (hh : IsHex6 c) (code : Nat)
    (hcode : lookup (closest16 T.ansiRgb (hexRgb c) (if fgc != bgc then [fa] else [])) T.bg = some code) :
    colorCodes T sp .d4 fgc bgc fa c true = ([code], fa) := by
  obtain ⟨h1, h2⟩ := hex6_lookup_none T hT c hh true
  unfold colorCodes
  simp at h2
  have hcode' : lookup (closest16 T.ansiRgb (hexRgb c) (if fgc = bgc then [] else [fa])) T.bg = some code := by
    by_cases h : fgc = bgc <;> simp_all
  simp [h1, h2, colorNameToRgb_hex6 sp hsp c hh, code16, hcode']

/-- 1-bit depth: no colour parameters at all -/
theorem colorsToCode_d1 (T : Tables) (sp : Char → Bool) (fg bg : Text) :
    colorsToCode T sp .d1 fg bg = [] := by
  simp [colorsToCode, colorCodes]

/-- named colours are sent by their own code at every depth but 1 bit -/
theorem colorCodes_named (T : Tables) (sp : Char → Bool) (depth : Depth) (hd : depth ≠ .d1)
    (fgc bgc fa c : Text) (bg : Bool) (code : Nat) (hne : c ≠ [])
    (hcode : lookup c (if bg then T.bg else T.fg) = some code) :
    colorCodes T sp depth fgc bgc fa c bg = ([code], fa) := by
  have hemp : c.isEmpty = false := by cases c <;> simp_all
  unfold colorCodes
  have : (depth == Depth.d1) = false := by cases depth <;> simp_all
  simp [hemp, this, hcode]
end Ptk.C19
namespace Ptk.C19
open Ptk.Py

/-- the flag parameters the encoder appends after the colours -/
def flagCodes (a : Attrs) : List Nat :=
  (if truthy a.bold then [1] else []) ++ ((if truthy a.italic then [3] else []) ++
  ((if truthy a.blink then [5] else []) ++ ((if truthy a.underline then [4] else []) ++
  ((if truthy a.reverse then [7] else []) ++ ((if truthy a.hidden then [8] else []) ++
  ((if truthy a.strike then [9] else []) ++ []))))))

theorem sgrCodes_eq (T : Tables) (sp : Char → Bool) (depth : Depth) (a : Attrs) :
    sgrCodes T sp depth a =
      colorsToCode T sp depth (a.color.getD []) (a.bgcolor.getD []) ++ flagCodes a := by
  unfold sgrCodes flagCodes
  simp only [List.append_assoc, List.append_nil]

theorem sgr_flags (T : Tables) (hT : EncDecOk T) (st : Sgr) (a : Attrs) :
    sgrLoop T st (flagCodes a) =
      { st with bold := st.bold || truthy a.bold, italic := st.italic || truthy a.italic,
                blink := st.blink || truthy a.blink, underline := st.underline || truthy a.underline,
                reverse := st.reverse || truthy a.reverse, hidden := st.hidden || truthy a.hidden,
                strike := st.strike || truthy a.strike } := by
  unfold flagCodes
  rw [sgr_flag1 T hT, sgr_flag3 T hT, sgr_flag5 T hT, sgr_flag4 T hT, sgr_flag7 T hT, sgr_flag8 T hT,
    sgr_flag9 T hT]
  simp [sgrLoop]

theorem sgr_256_fg (T : Tables) (hT : EncDecOk T) (st : Sgr) (m : Nat) (rest : List Nat) :
    sgrLoop T st (38 :: 5 :: m :: rest) = sgrLoop T { st with color := lookup m T.dec256 } rest := by
  have := hT.ctl 38 (by simp)
  rw [sgrLoop.eq_def]; simp [this.1, this.2]

theorem sgr_256_bg (T : Tables) (hT : EncDecOk T) (st : Sgr) (m : Nat) (rest : List Nat) :
    sgrLoop T st (48 :: 5 :: m :: rest) = sgrLoop T { st with bgcolor := lookup m T.dec256 } rest := by
  have := hT.ctl 48 (by simp)
  rw [sgrLoop.eq_def]; simp [this.1, this.2]

/-- the colour the decoder holds after an 8-bit escape: the ANSI name, or the decoder's spelling of
    the palette entry chosen by the 256-colour map -/
def decColor8 (T : Tables) (c : Text) : Option Text :=
  if c = [] ∨ c = kwDefault then none
  else if c ∈ T.ansiNames then some c else lookup (closest256 T.pal256 (hexRgb c)) T.dec256

theorem colorCodes_noColor (T : Tables) (hT : EncDecOk T) (sp : Char → Bool) (hsp : SpOk sp) (depth : Depth)
    (fgc bgc fa c : Text) (bg : Bool) (hc : c = [] ∨ c = kwDefault) :
    colorCodes T sp depth fgc bgc fa c bg = ([], fa) := by
  rcases hc with rfl | rfl
  · simp [colorCodes]
  · have hlk : lookup kwDefault (if bg then T.bg else T.fg) = none := by
      apply lookup_eq_none
      intro kv hkv heq
      apply hT.notDefault
      rw [← heq]
      cases bg
      · exact hT.fgKeys kv (by simpa using hkv)
      · exact hT.bgKeys kv (by simpa using hkv)
    have hemp : (kwDefault).isEmpty = false := by decide
    unfold colorCodes
    simp [hemp, hlk, colorNameToRgb_default sp hsp]

theorem colorCodes_name (T : Tables) (hT : EncDecOk T) (sp : Char → Bool) (depth : Depth) (hd : depth ≠ .d1)
    (fgc bgc fa c : Text) (bg : Bool) (hn : c ∈ T.ansiNames) :
    ∃ code, lookup c (if bg then T.bg else T.fg) = some code ∧
      colorCodes T sp depth fgc bgc fa c bg = ([code], fa) := by
  have hne : c ≠ [] := (hT.names c hn).1
  have : ∃ code, lookup c (if bg then T.bg else T.fg) = some code := by
    cases bg
    · obtain ⟨code, h, _⟩ := hT.fg c hn; exact ⟨code, by simpa using h⟩
    · obtain ⟨code, h, _⟩ := hT.bg c hn; exact ⟨code, by simpa using h⟩
  obtain ⟨code, hcode⟩ := this
  exact ⟨code, hcode, colorCodes_named T sp depth hd fgc bgc fa c bg code hne hcode⟩

theorem valid_cases (T : Tables) (c : Text) (hc : ValidColor T c) (h1 : ¬(c = [] ∨ c = kwDefault))
    (h2 : c ∉ T.ansiNames) : IsHex6 c := by
  rcases hc with h | h | h | h
  · exact absurd (Or.inl h) h1
  · exact absurd (Or.inr h) h1
  · exact absurd h h2
  · exact h

theorem decColor8_fg (T : Tables) (hT : EncDecOk T) (sp : Char → Bool) (hsp : SpOk sp)
    (fgc bgc fa c : Text) (hc : ValidColor T c) (st : Sgr) (hst : st.color = none) (rest : List Nat) :
    sgrLoop T st ((colorCodes T sp .d8 fgc bgc fa c false).1 ++ rest) =
      sgrLoop T { st with color := decColor8 T c } rest ∧
    (colorCodes T sp .d8 fgc bgc fa c false).2 = fa := by
  unfold decColor8
  by_cases h1 : c = [] ∨ c = kwDefault
  · rw [colorCodes_noColor T hT sp hsp .d8 fgc bgc fa c false h1, if_pos h1]
    simp [← hst]
  · by_cases h2 : c ∈ T.ansiNames
    · obtain ⟨code, hcode, hcc⟩ := colorCodes_name T hT sp .d8 (by decide) fgc bgc fa c false h2
      obtain ⟨code', hcode', hdec⟩ := hT.fg c h2
      have : code = code' := by
        have := hcode; simp at this; rw [hcode'] at this; cases this; rfl
      subst this
      rw [hcc, if_neg h1, if_pos h2]
      simp [sgr_fgcode T st code c hdec]
    · have hh := valid_cases T c hc h1 h2
      rw [colorCodes_d8 T hT sp hsp fgc bgc fa c false hh, if_neg h1, if_neg h2]
      simp [sgr_256_fg T hT]

theorem decColor8_bg (T : Tables) (hT : EncDecOk T) (sp : Char → Bool) (hsp : SpOk sp)
    (fgc bgc fa c : Text) (hc : ValidColor T c) (st : Sgr) (hst : st.bgcolor = none) (rest : List Nat) :
    sgrLoop T st ((colorCodes T sp .d8 fgc bgc fa c true).1 ++ rest) =
      sgrLoop T { st with bgcolor := decColor8 T c } rest := by
  unfold decColor8
  by_cases h1 : c = [] ∨ c = kwDefault
  · rw [colorCodes_noColor T hT sp hsp .d8 fgc bgc fa c true h1, if_pos h1]
    simp [← hst]
  · by_cases h2 : c ∈ T.ansiNames
    · obtain ⟨code, hcode, hcc⟩ := colorCodes_name T hT sp .d8 (by decide) fgc bgc fa c true h2
      obtain ⟨code', hcode', hdec0, hdec⟩ := hT.bg c h2
      have : code = code' := by
        have := hcode; simp at this; rw [hcode'] at this; cases this; rfl
      subst this
      rw [hcc, if_neg h1, if_pos h2]
      simp [sgr_bgcode T st code c hdec0 hdec]
    · have hh := valid_cases T c hc h1 h2
      rw [colorCodes_d8 T hT sp hsp fgc bgc fa c true hh, if_neg h1, if_neg h2]
      simp [sgr_256_bg T hT]

/-- the decoder state after an 8-bit escape for `a` -/
def sgrOf8 (T : Tables) (a : Attrs) : Sgr :=
  { color := decColor8 T (a.color.getD []), bgcolor := decColor8 T (a.bgcolor.getD []),
    bold := truthy a.bold, underline := truthy a.underline, strike := truthy a.strike,
    italic := truthy a.italic, blink := truthy a.blink, reverse := truthy a.reverse,
    hidden := truthy a.hidden }

/-- **8-bit depth, decoded.**  The parameters emitted at 8-bit depth decode to the same flags, the
    same named colours, and for an RGB colour to the decoder's entry for the palette index chosen
    by the 256-colour map. -/
theorem sgr_decode_8bit (T : Tables) (hT : EncDecOk T) (sp : Char → Bool) (hsp : SpOk sp)
    (a : Attrs) (hv : ValidAttrs T a) (st0 : Sgr) :
    selectGraphicRendition T st0 (0 :: sgrCodes T sp .d8 a) = sgrOf8 T a := by
  unfold selectGraphicRendition
  simp only [List.isEmpty_cons, Bool.false_eq_true, if_false]
  rw [sgr_reset T hT, sgrCodes_eq]
  unfold colorsToCode
  dsimp only
  obtain ⟨h1, h2⟩ := decColor8_fg T hT sp hsp (a.color.getD []) (a.bgcolor.getD []) [] (a.color.getD []) hv.1
    {} rfl ((colorCodes T sp .d8 (a.color.getD []) (a.bgcolor.getD []) [] (a.bgcolor.getD []) true).1 ++ flagCodes a)
  rw [h2, List.append_assoc, h1, decColor8_bg T hT sp hsp _ _ _ _ hv.2 _ rfl, sgr_flags T hT]
  simp [sgrOf8]

/-- **1-bit depth, decoded**: flags only, no colour -/
theorem sgr_decode_1bit (T : Tables) (hT : EncDecOk T) (sp : Char → Bool) (a : Attrs) (st0 : Sgr) :
    selectGraphicRendition T st0 (0 :: sgrCodes T sp .d1 a) =
      { color := none, bgcolor := none, bold := truthy a.bold, underline := truthy a.underline,
        strike := truthy a.strike, italic := truthy a.italic, blink := truthy a.blink,
        reverse := truthy a.reverse, hidden := truthy a.hidden } := by
  unfold selectGraphicRendition
  simp only [List.isEmpty_cons, Bool.false_eq_true, if_false]
  rw [sgr_reset T hT, sgrCodes_eq, colorsToCode_d1, List.nil_append, sgr_flags T hT]
  simp
end Ptk.C19

namespace Ptk.C19
open Ptk.Py

/-- every name the 16-colour search can return is an ANSI colour name (so it has codes) -/
structure Ansi16Ok (T : Tables) : Prop where
  names : ∀ np ∈ T.ansiRgb, np.1 ∈ T.ansiNames
  dflt : "ansidefault".toList ∈ T.ansiNames
instance (T : Tables) : Decidable (Ansi16Ok T) :=
  decidable_of_iff ((∀ np ∈ T.ansiRgb, np.1 ∈ T.ansiNames) ∧ "ansidefault".toList ∈ T.ansiNames)
    ⟨fun h => ⟨h.1, h.2⟩, fun h => ⟨h.names, h.dflt⟩⟩

theorem closest16_mem (tbl : List (Text × RGB)) (c : RGB) (ex : List Text) :
    closest16 tbl c ex = "ansidefault".toList ∨ ∃ p, (closest16 tbl c ex, p) ∈ tbl := by
  rw [closest16_eq]
  rcases argmin_keyed (dist c) (tbl.filter (allowed16 c ex)) ("ansidefault".toList, infinity) with
    ⟨h1, _⟩ | ⟨pre, kx, post, hl, hres, _⟩
  · left; rw [h1]
  · right
    rw [hres]
    refine ⟨kx.2, ?_⟩
    have : kx ∈ tbl.filter (allowed16 c ex) := by rw [hl]; simp
    exact (List.mem_filter.mp this).1

theorem closest16_name (T : Tables) (h16 : Ansi16Ok T) (c : RGB) (ex : List Text) :
    closest16 T.ansiRgb c ex ∈ T.ansiNames := by
  rcases closest16_mem T.ansiRgb c ex with h | ⟨p, hp⟩
  · rw [h]; exact h16.dflt
  · exact h16.names _ hp

/-- the colour the decoder holds after a 4-bit escape: the ANSI name itself, or the name chosen by
    the 16-colour map (with `ex` excluded) -/
def decColor4 (T : Tables) (ex : List Text) (c : Text) : Option Text :=
  if c = [] ∨ c = kwDefault then none
  else if c ∈ T.ansiNames then some c else some (closest16 T.ansiRgb (hexRgb c) ex)

/-- `fg_ansi` after the foreground has been processed at 4-bit depth -/
def fgAnsi4 (T : Tables) (c : Text) : Text :=
  if c = [] ∨ c = kwDefault then [] else if c ∈ T.ansiNames then []
  else closest16 T.ansiRgb (hexRgb c) []

theorem decColor4_fg (T : Tables) (hT : EncDecOk T) (h16 : Ansi16Ok T) (sp : Char → Bool) (hsp : SpOk sp)
    (fgc bgc c : Text) (hc : ValidColor T c) (st : Sgr) (hst : st.color = none) (rest : List Nat) :
    sgrLoop T st ((colorCodes T sp .d4 fgc bgc [] c false).1 ++ rest) =
      sgrLoop T { st with color := decColor4 T [] c } rest ∧
    (colorCodes T sp .d4 fgc bgc [] c false).2 = fgAnsi4 T c := by
  unfold decColor4 fgAnsi4
  by_cases h1 : c = [] ∨ c = kwDefault
  · rw [colorCodes_noColor T hT sp hsp .d4 fgc bgc [] c false h1, if_pos h1, if_pos h1]
    simp [← hst]
  · by_cases h2 : c ∈ T.ansiNames
    · obtain ⟨code, hcode, hcc⟩ := colorCodes_name T hT sp .d4 (by decide) fgc bgc [] c false h2
      obtain ⟨code', hcode', hdec⟩ := hT.fg c h2
      have : code = code' := by
        have := hcode; simp at this; rw [hcode'] at this; cases this; rfl
      subst this
      rw [hcc, if_neg h1, if_pos h2, if_neg h1, if_pos h2]
      simp [sgr_fgcode T st code c hdec]
    · have hh := valid_cases T c hc h1 h2
      obtain ⟨code, hcode, hdec⟩ := hT.fg _ (closest16_name T h16 (hexRgb c) [])
      rw [colorCodes_d4_fg T hT sp hsp fgc bgc [] c hh code hcode, if_neg h1, if_neg h2, if_neg h1, if_neg h2]
      simp [sgr_fgcode T st code _ hdec]

theorem decColor4_bg (T : Tables) (hT : EncDecOk T) (h16 : Ansi16Ok T) (sp : Char → Bool) (hsp : SpOk sp)
    (fgc bgc fa c : Text) (hc : ValidColor T c) (st : Sgr) (hst : st.bgcolor = none) (rest : List Nat) :
    sgrLoop T st ((colorCodes T sp .d4 fgc bgc fa c true).1 ++ rest) =
      sgrLoop T { st with bgcolor := decColor4 T (if fgc != bgc then [fa] else []) c } rest := by
  unfold decColor4
  by_cases h1 : c = [] ∨ c = kwDefault
  · rw [colorCodes_noColor T hT sp hsp .d4 fgc bgc fa c true h1, if_pos h1]
    simp [← hst]
  · by_cases h2 : c ∈ T.ansiNames
    · obtain ⟨code, hcode, hcc⟩ := colorCodes_name T hT sp .d4 (by decide) fgc bgc fa c true h2
      obtain ⟨code', hcode', hdec0, hdec⟩ := hT.bg c h2
      have : code = code' := by
        have := hcode; simp at this; rw [hcode'] at this; cases this; rfl
      subst this
      rw [hcc, if_neg h1, if_pos h2]
      simp [sgr_bgcode T st code c hdec0 hdec]
    · have hh := valid_cases T c hc h1 h2
      obtain ⟨code, hcode, hdec0, hdec⟩ :=
        hT.bg _ (closest16_name T h16 (hexRgb c) (if fgc != bgc then [fa] else []))
      rw [colorCodes_d4_bg T hT sp hsp fgc bgc fa c hh code hcode, if_neg h1, if_neg h2]
      simp [sgr_bgcode T st code _ hdec0 hdec]

/-- the decoder state after a 4-bit escape for `a` -/
def sgrOf4 (T : Tables) (a : Attrs) : Sgr :=
  { color := decColor4 T [] (a.color.getD []),
    bgcolor := decColor4 T
      (if (a.color.getD []) != (a.bgcolor.getD []) then [fgAnsi4 T (a.color.getD [])] else [])
      (a.bgcolor.getD []),
    bold := truthy a.bold, underline := truthy a.underline, strike := truthy a.strike,
    italic := truthy a.italic, blink := truthy a.blink, reverse := truthy a.reverse,
    hidden := truthy a.hidden }

/-- **4-bit depth, decoded.**  The parameters emitted at 4-bit depth decode to the same flags, the
    same named colours, and for an RGB colour to the ANSI name chosen by the 16-colour map — for
    the background with the name chosen for an RGB foreground excluded, unless both colour strings
    are equal. -/
theorem sgr_decode_4bit (T : Tables) (hT : EncDecOk T) (h16 : Ansi16Ok T) (sp : Char → Bool)
    (hsp : SpOk sp) (a : Attrs) (hv : ValidAttrs T a) (st0 : Sgr) :
    selectGraphicRendition T st0 (0 :: sgrCodes T sp .d4 a) = sgrOf4 T a := by
  unfold selectGraphicRendition
  simp only [List.isEmpty_cons, Bool.false_eq_true, if_false]
  rw [sgr_reset T hT, sgrCodes_eq]
  unfold colorsToCode
  dsimp only
  obtain ⟨h1, h2⟩ := decColor4_fg T hT h16 sp hsp (a.color.getD []) (a.bgcolor.getD []) (a.color.getD []) hv.1
    {} rfl ((colorCodes T sp .d4 (a.color.getD []) (a.bgcolor.getD [])
      (fgAnsi4 T (a.color.getD [])) (a.bgcolor.getD []) true).1 ++ flagCodes a)
  rw [h2, List.append_assoc, h1, decColor4_bg T hT h16 sp hsp _ _ _ _ hv.2 _ rfl, sgr_flags T hT]
  simp [sgrOf4]
end Ptk.C19
