/-
  Cross-model agreement, cluster "Buffer edit and state API" (src/prompt_toolkit/buffer.py):
  `Buffer.auto_up` / `auto_down` — `Ptk.C14` (computes the `Document` cursor-up/down position itself,
  keeps `preferred_column`, has no completion menu and no selection) against `Ptk.C05`
  (`Model/C05Api`: the `Document` delta is an argument; completion and selection branches exist).
  Compared on the common projection `HQ` (lines, index, cursor, history search), in the case C14
  covers: `complete_state is None`, `selection_state is None`; every count (positive, zero, negative).
-/
import Ptk.Props.AgreeBufApi
namespace Ptk.AgreeBuf
open Ptk.Py

/-- `get_cursor_up_position(count, preferred_column)` as `C14.cursorUp` computes it -/
def upDelta (s : C14.St) (count : Int) : Int :=
  (C14.rowColToIndex s.text ((C14.row s.text s.cur : Int) - count).toNat (C14.origColumn s) : Int) - s.cur
/-- `get_cursor_down_position(count, preferred_column)` as `C14.cursorDown` computes it -/
def downDelta (s : C14.St) (count : Int) : Int :=
  (C14.rowColToIndex s.text (C14.row s.text s.cur + count.toNat) (C14.origColumn s) : Int) - s.cur

theorem hq_text (b : C05.Buf) (s : C14.St) (hq : q05 b = q14 s) : b.text = s.text := by
  rw [← q05_text, hq, q14_text]
theorem hq_cur (b : C05.Buf) (s : C14.St) (hq : q05 b = q14 s) : b.cur = s.cur := congrArg HQ.cur hq

theorem row_05_14 (b : C05.Buf) (s : C14.St) (hq : q05 b = q14 s) : C05.row b = C14.row s.text s.cur := by
  simp only [C05.row, C14.row, C05.Buf.before, hq_text b s hq, hq_cur b s hq]

theorem splitOn_length (t : Text) : (splitOn '\n' t).length = (t.filter (· == '\n')).length + 1 := by
  induction t with
  | nil => rfl
  | cons x xs ih =>
    by_cases hx : x = '\n'
    · subst hx; simp [splitOn, ih]
    · simp only [splitOn, hx, if_false]
      have hx' : (x == '\n') = false := by simpa using hx
      rw [List.filter_cons_of_neg (by simpa using hx)]
      cases h : splitOn '\n' xs with
      | nil => rw [h] at ih; simp at ih
      | cons l ls => rw [h] at ih; simpa using ih

theorem lineCount_05_14 (b : C05.Buf) (s : C14.St) (hq : q05 b = q14 s) : C05.lineCount b = C14.lineCount s.text := by
  simp only [C05.lineCount, C14.lineCount, splitOn_length, hq_text b s hq]

theorem toLineStart_05_14 (b : C05.Buf) (s : C14.St) (hq : q05 b = q14 s) :
    q05 (C05.toLineStart b) = q14 (C14.home s) := by
  have ht := hq_text b s hq
  have hc := hq_cur b s hq
  simp only [C05.toLineStart, C05.moveCursor, C14.home, q05_setCur, q14_setCur, hq]
  congr 1
  simp only [C05.lineBefore, C14.lineBefore, C05.Buf.before, ht, hc]
  show _ = (s.cur : Int) - _
  have : C05.notNl = C14.notNl := rfl
  rw [this]; omega

theorem autoUpPos_05_14 (b : C05.Buf) (s : C14.St) (count : Int) (gs : Bool) (hq : q05 b = q14 s)
    (hi : b.idx < b.lines.length) (hcomp : b.comp = none) (hsel : b.sel = none) (h1 : 1 ≤ count) :
    (C14.autoUpPos s count gs).map q14 = some (q05 (C05.autoUpPos b count gs (upDelta s count)).1) ∧
    (C05.autoUpPos b count gs (upDelta s count)).2 = .ok := by
  have hcnt : ¬ count < 1 := by omega
  simp only [C05.autoUpPos, C14.autoUpPos, hcomp, Option.isSome_none, Bool.false_eq_true, if_false,
    row_05_14 b s hq, hsel, Option.isNone_none, if_true]
  by_cases hrow : C14.row s.text s.cur > 0
  · simp only [hrow, if_true, C05.cursorUpDown, hcnt, if_false, C14.cursorUp, Option.map_some, C05.moveCursor,
      q05_setCur, and_true, Option.some.injEq]
    have : q14 { C14.setCursorPos s ↑(C14.rowColToIndex s.text ((C14.row s.text s.cur : Int) - count).toNat (C14.origColumn s))
        with pref := some (C14.origColumn s) } =
        q14 (C14.setCursorPos s ↑(C14.rowColToIndex s.text ((C14.row s.text s.cur : Int) - count).toNat (C14.origColumn s))) := rfl
    rw [this, q14_setCur, hq]
    congr 1
    simp only [upDelta, hq_cur b s hq]; omega
  · simp only [hrow, if_false]
    obtain ⟨e1, e2⟩ := q05_back b count hi
    have e3 := q14_back s count
    rw [hq, ← e3] at e1
    generalize C05.historyBackward b count = r at e1 e2
    obtain ⟨b1, o⟩ := r
    simp only at e1 e2
    subst e2
    simp only [C05.andThen, Option.map_some, and_true, Option.some.injEq]
    cases gs
    · simp [e1]
    · simp only [if_true]; exact (toLineStart_05_14 b1 _ e1).symm

theorem autoDownPos_05_14 (b : C05.Buf) (s : C14.St) (count : Int) (gs : Bool) (hq : q05 b = q14 s)
    (hi : b.idx < b.lines.length) (hcomp : b.comp = none) (hsel : b.sel = none) (h1 : 1 ≤ count) :
    (C14.autoDownPos s count gs).map q14 = some (q05 (C05.autoDownPos b count gs (downDelta s count)).1) ∧
    (C05.autoDownPos b count gs (downDelta s count)).2 = .ok := by
  have hcnt : ¬ count < 1 := by omega
  simp only [C05.autoDownPos, C14.autoDownPos, hcomp, Option.isSome_none, Bool.false_eq_true, if_false,
    row_05_14 b s hq, lineCount_05_14 b s hq, hsel, Option.isNone_none, if_true]
  have hlc : 1 ≤ C14.lineCount s.text := by simp [C14.lineCount, splitOn_length]
  by_cases hrow : C14.row s.text s.cur + 1 < C14.lineCount s.text
  · have hrow' : C14.row s.text s.cur < C14.lineCount s.text - 1 := by omega
    simp only [hrow, hrow', if_true, C05.cursorUpDown, hcnt, if_false, C14.cursorDown, Option.map_some, C05.moveCursor,
      q05_setCur, and_true, Option.some.injEq]
    have : q14 { C14.setCursorPos s ↑(C14.rowColToIndex s.text (C14.row s.text s.cur + count.toNat) (C14.origColumn s))
        with pref := some (C14.origColumn s) } =
        q14 (C14.setCursorPos s ↑(C14.rowColToIndex s.text (C14.row s.text s.cur + count.toNat) (C14.origColumn s))) := rfl
    rw [this, q14_setCur, hq]
    congr 1
    simp only [downDelta, hq_cur b s hq]; omega
  · have hrow' : ¬ C14.row s.text s.cur < C14.lineCount s.text - 1 := by omega
    simp only [hrow, hrow', if_false]
    obtain ⟨e1, e2⟩ := q05_forward b count hi
    have e3 := q14_forward s count
    rw [hq, ← e3] at e1
    generalize C05.historyForward b count = r at e1 e2
    obtain ⟨b1, o⟩ := r
    simp only at e1 e2
    subst e2
    simp only [C05.andThen, Option.map_some, and_true, Option.some.injEq]
    cases gs
    · simp [e1]
    · simp only [if_true]; exact (toLineStart_05_14 b1 _ e1).symm

/-- buffer.py::Buffer.auto_up — `C14.autoUp` vs `C05.autoUp` (no completion menu, no selection — the
    branches C14 does not have), any count: positive (up), zero (nothing), negative (delegates to
    `auto_down`); `d` = the `Document` delta of the branch taken, computed as C14 does -/
theorem autoUp_05_14 (b : C05.Buf) (s : C14.St) (count : Int) (gs : Bool) (hq : q05 b = q14 s)
    (hi : b.idx < b.lines.length) (hcomp : b.comp = none) (hsel : b.sel = none) :
    (C14.autoUp s count gs).map q14 =
      some (q05 (C05.autoUp b count gs (if 0 < count then upDelta s count else downDelta s (-count))).1) ∧
    (C05.autoUp b count gs (if 0 < count then upDelta s count else downDelta s (-count))).2 = .ok := by
  simp only [C05.autoUp, C14.autoUp]
  by_cases h0 : count ≤ 0
  · have hn : ¬ 0 < count := by omega
    simp only [h0, hn, if_true, if_false]
    by_cases hneg : count < 0
    · simp only [hneg, if_true]
      exact autoDownPos_05_14 b s (-count) gs hq hi hcomp hsel (by omega)
    · simp [hneg, hq]
  · have hp : 0 < count := by omega
    simp only [h0, hp, if_true, if_false]
    exact autoUpPos_05_14 b s count gs hq hi hcomp hsel (by omega)

/-- buffer.py::Buffer.auto_down — `C14.autoDown` vs `C05.autoDown`, likewise -/
theorem autoDown_05_14 (b : C05.Buf) (s : C14.St) (count : Int) (gs : Bool) (hq : q05 b = q14 s)
    (hi : b.idx < b.lines.length) (hcomp : b.comp = none) (hsel : b.sel = none) :
    (C14.autoDown s count gs).map q14 =
      some (q05 (C05.autoDown b count gs (if 0 < count then downDelta s count else upDelta s (-count))).1) ∧
    (C05.autoDown b count gs (if 0 < count then downDelta s count else upDelta s (-count))).2 = .ok := by
  simp only [C05.autoDown, C14.autoDown]
  by_cases h0 : count ≤ 0
  · have hn : ¬ 0 < count := by omega
    simp only [h0, hn, if_true, if_false]
    by_cases hneg : count < 0
    · simp only [hneg, if_true]
      exact autoUpPos_05_14 b s (-count) gs hq hi hcomp hsel (by omega)
    · simp [hneg, hq]
  · have hp : 0 < count := by omega
    simp only [h0, hp, if_true, if_false]
    exact autoDownPos_05_14 b s count gs hq hi hcomp hsel (by omega)
end Ptk.AgreeBuf
