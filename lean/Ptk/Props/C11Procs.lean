/-
  C11 — position maps of the processors: TabsProcessor (strictly increasing, round trip, every cell of
  a tab maps back to the tab, the mapped cell shows the character), BeforeInput shift, composition in
  `_MergedProcessor` (`merged_good`).
-/
import Ptk.Model.C11
namespace Ptk.C11
open Ptk.Py

/-! ### TabsProcessor -/

theorem tabCount_pos (ts pos : Nat) (h : 1 ≤ ts) : 1 ≤ tabCount ts pos := by
  unfold tabCount
  have := Nat.mod_lt pos (show 0 < ts by omega)
  simp only []
  split <;> omega

/-- display width of one source character at display position `pos` -/
def adv (ts : Nat) (c : Char) (pos : Nat) : Nat := if c = '\t' then pos + tabCount ts pos else pos + 1

theorem adv_gt (ts : Nat) (h : 1 ≤ ts) (c : Char) (pos : Nat) : pos < adv ts c pos := by
  unfold adv; have := tabCount_pos ts pos h; split <;> omega

theorem tabsEnd_ge (ts : Nat) (h : 1 ≤ ts) (line : Text) : ∀ pos, pos ≤ tabsEnd ts line pos := by
  induction line with
  | nil => intro pos; exact Nat.le_refl _
  | cons c cs ih =>
    intro pos
    have h1 := adv_gt ts h c pos
    have h2 := ih (adv ts c pos)
    simp only [tabsEnd]; unfold adv at h1 h2; omega

/-- the complete position map from `pos` on -/
def pmFrom (ts : Nat) (line : Text) (pos : Nat) : List Nat :=
  tabsPM ts line pos ++ [tabsEnd ts line pos, tabsEnd ts line pos + 1]

theorem pmFrom_cons (ts : Nat) (c : Char) (cs : Text) (pos : Nat) :
    pmFrom ts (c :: cs) pos = pos :: pmFrom ts cs (adv ts c pos) := by
  simp [pmFrom, tabsPM, tabsEnd, adv]

theorem pmFrom_ge (ts : Nat) (h : 1 ≤ ts) (line : Text) : ∀ pos, ∀ x ∈ pmFrom ts line pos, pos ≤ x := by
  induction line with
  | nil => intro pos x hx; simp [pmFrom, tabsPM, tabsEnd] at hx; omega
  | cons c cs ih =>
    intro pos x hx
    rw [pmFrom_cons] at hx
    rcases List.mem_cons.mp hx with rfl | hx
    · exact Nat.le_refl _
    · have := ih _ x hx; have := adv_gt ts h c pos; omega

/-- **tabs_mono** : the position map of `TabsProcessor` is strictly increasing (over all keys
    `0 .. len+1`) -/
theorem tabs_mono (ts : Nat) (h : 1 ≤ ts) (line : Text) : (tabsMap ts line).Pairwise (· < ·) := by
  have : ∀ pos, (pmFrom ts line pos).Pairwise (· < ·) := by
    induction line with
    | nil => intro pos; simp [pmFrom, tabsPM, tabsEnd]
    | cons c cs ih =>
      intro pos
      rw [pmFrom_cons, List.pairwise_cons]
      refine ⟨fun x hx => ?_, ih _⟩
      have := pmFrom_ge ts h cs _ x hx; have := adv_gt ts h c pos; omega
  exact this 0

theorem tabsMap_length (ts : Nat) (line : Text) : (tabsMap ts line).length = line.length + 2 := by
  have : ∀ pos, (tabsPM ts line pos).length = line.length := by
    induction line with
    | nil => intro; rfl
    | cons c cs ih => intro pos; simp [tabsPM, ih]
  simp [tabsMap, this]

theorem idxOf_sorted (pm : List Nat) (hs : pm.Pairwise (· < ·)) (i : Nat) (hi : i < pm.length) :
    idxOf? pm[i] pm = some i := by
  induction pm generalizing i with
  | nil => simp at hi
  | cons x xs ih =>
    rw [List.pairwise_cons] at hs
    cases i with
    | zero => simp [idxOf?]
    | succ i =>
      have hi2 : i < xs.length := by simpa using hi
      simp only [List.getElem_cons_succ, idxOf?]
      have hlt := hs.1 xs[i] (List.getElem_mem hi2)
      rw [if_neg (by omega), ih hs.2 i hi2]
      rfl

theorem d2sLoop_hit (pm : List Nat) (d k : Nat) (h : idxOf? d pm = some k) : d2sLoop pm d = k := by
  cases d with
  | zero => simp [d2sLoop, h]
  | succ d => simp [d2sLoop, h]

/-- **tabs_roundtrip** : `display_to_source(source_to_display(i)) = i` for every key of the map -/
theorem tabs_roundtrip (ts : Nat) (h : 1 ≤ ts) (line : Text) (i : Nat) (hi : i ≤ line.length + 1) :
    ∃ d, (tabsMap ts line)[i]? = some d ∧ tabsD2S (tabsMap ts line) d = i := by
  have hl := tabsMap_length ts line
  have hi' : i < (tabsMap ts line).length := by omega
  refine ⟨(tabsMap ts line)[i], by simp [hi'], ?_⟩
  unfold tabsD2S
  rw [if_neg (by omega)]
  simp only [Int.toNat_natCast]
  rw [d2sLoop_hit _ _ i (idxOf_sorted _ (tabs_mono ts h line) i hi')]

theorem idxOf_none (pm : List Nat) (d : Nat) (h : d ∉ pm) : idxOf? d pm = none := by
  induction pm with
  | nil => rfl
  | cons x xs ih =>
    simp only [List.mem_cons, not_or] at h
    simp only [idxOf?]
    rw [if_neg (fun e => h.1 e.symm), ih h.2]; rfl

theorem sorted_between (pm : List Nat) (hs : pm.Pairwise (· < ·)) (i : Nat) (hi : i + 1 < pm.length)
    (d : Nat) (h1 : pm[i] < d) (h2 : d < pm[i + 1]) : d ∉ pm := by
  intro hm
  obtain ⟨j, hj, rfl⟩ := List.getElem_of_mem hm
  rcases Nat.lt_trichotomy j i with h | h | h
  · have := List.pairwise_iff_getElem.mp hs j i hj (by omega) h; omega
  · subst h; omega
  · by_cases hje : j = i + 1
    · subst hje; omega
    · have := List.pairwise_iff_getElem.mp hs (i + 1) j hi hj (by omega); omega

/-- **tabs_d2s_floor** : every display column inside the cells of source character `i` (all
    cells of a tab) maps back to `i` -/
theorem tabs_d2s_floor (pm : List Nat) (hs : pm.Pairwise (· < ·)) (i : Nat) (hi : i + 1 < pm.length)
    (d : Nat) (h1 : pm[i] ≤ d) (h2 : d < pm[i + 1]) : d2sLoop pm d = i := by
  induction d with
  | zero =>
    have : pm[i] = 0 := by omega
    exact d2sLoop_hit pm 0 i (by rw [← this]; exact idxOf_sorted pm hs i (by omega))
  | succ d ih =>
    by_cases he : pm[i] = d + 1
    · exact d2sLoop_hit pm (d + 1) i (by rw [← he]; exact idxOf_sorted pm hs i (by omega))
    · have hnm := sorted_between pm hs i hi (d + 1) (by omega) h2
      rw [d2sLoop, idxOf_none pm (d + 1) hnm]
      exact ih (by omega) (by omega)

/-- what the cell at the mapped column shows for source character `c` -/
def shown (c1 : Char) (c : Char) : Char := if c = '\t' then c1 else c

theorem tabsOut_spec (ts : Nat) (h : 1 ≤ ts) (c1 c2 : Char) (line : Text) :
    ∀ pos, (tabsOut ts c1 c2 line pos).length + pos = tabsEnd ts line pos ∧
      ∀ (i : Nat) (c0 : Char), line[i]? = some c0 → ∃ q, (tabsPM ts line pos)[i]? = some q ∧ pos ≤ q ∧
        (tabsOut ts c1 c2 line pos)[q - pos]? = some (shown c1 c0) := by
  induction line with
  | nil => intro pos; simp [tabsOut, tabsEnd]
  | cons c cs ih =>
    intro pos
    obtain ⟨l1, l2⟩ := ih (adv ts c pos)
    have hadv := adv_gt ts h c pos
    have hcnt := tabCount_pos ts pos h
    constructor
    · simp only [tabsOut, tabsEnd]
      unfold adv at l1
      by_cases hc : c = '\t'
      · simp only [hc, if_true] at l1 ⊢
        simp; omega
      · simp only [hc, if_false] at l1 ⊢
        simp; omega
    · intro i c0 hi
      cases i with
      | zero =>
        simp at hi; subst hi
        refine ⟨pos, by simp [tabsPM], Nat.le_refl _, ?_⟩
        simp only [Nat.sub_self, tabsOut, shown]
        by_cases hc : c = '\t' <;> simp [hc]
      | succ i =>
        simp at hi
        obtain ⟨q, q1, q2, q3⟩ := l2 i c0 hi
        refine ⟨q, by simpa [tabsPM, adv] using q1, by omega, ?_⟩
        simp only [tabsOut]
        unfold adv at q2 q3 hadv
        by_cases hc : c = '\t'
        · simp only [hc, if_true] at q2 q3 hadv ⊢
          have e1 : q - pos = (q - (pos + tabCount ts pos)) + (tabCount ts pos - 1) + 1 := by omega
          rw [e1, List.getElem?_cons_succ, List.getElem?_append_right (by simp)]
          simp only [List.length_replicate]
          have e2 : q - (pos + tabCount ts pos) + (tabCount ts pos - 1) - (tabCount ts pos - 1) =
              q - (pos + tabCount ts pos) := by omega
          rw [e2]; exact q3
        · simp only [hc, if_false] at q2 q3 ⊢
          have e1 : q - pos = (q - (pos + 1)) + 1 := by omega
          rw [e1, List.getElem?_cons_succ]; exact q3

/-- **tabs_shows** : the cell at the mapped display column shows the source character (the first
    tab cell `char1` for a tab), and the expanded text is as long as the map says -/
theorem tabs_shows (ts : Nat) (h : 1 ≤ ts) (c1 c2 : Char) (line : Text) :
    (tabsOut ts c1 c2 line 0).length = tabsEnd ts line 0 ∧
      ∀ (i : Nat) (c0 : Char), line[i]? = some c0 → ∃ q, (tabsMap ts line)[i]? = some q ∧
        (tabsOut ts c1 c2 line 0)[q]? = some (shown c1 c0) := by
  obtain ⟨l1, l2⟩ := tabsOut_spec ts h c1 c2 line 0
  refine ⟨by omega, fun i c0 hi => ?_⟩
  obtain ⟨q, q1, _, q3⟩ := l2 i c0 hi
  refine ⟨q, ?_, by simpa using q3⟩
  unfold tabsMap
  have hlt : i < (tabsPM ts line 0).length := by
    rcases Nat.lt_or_ge i (tabsPM ts line 0).length with h | h
    · exact h
    · have : (tabsPM ts line 0)[i]? = none := List.getElem?_eq_none h
      rw [this] at q1; cases q1
  rw [List.getElem?_append_left hlt]; exact q1

/-! ### BeforeInput, the other processors, `_MergedProcessor` -/

/-- the position maps of `tr` are good for source columns `0..n` into display columns `0..m`:
    defined (no `KeyError`), in range, strictly increasing, and `display_to_source` undoes
    `source_to_display` -/
structure GoodMap (tr : Trans) (n m : Nat) : Prop where
  defd : ∀ i, i ≤ n → ∃ d, tr.s2d i = some d ∧ d ≤ m ∧ tr.d2s (d : Nat) = (i : Nat)
  mono : ∀ i j di dj, i < j → j ≤ n → tr.s2d i = some di → tr.s2d j = some dj → di < dj

mutual
/-- tab stops are at least 1, also inside conditional and nested processors -/
def ProcOK : Proc → Prop
  | .tabs ts _ _ => 1 ≤ ts
  | .cond _ p => ProcOK p
  | .group ps => ProcsOK ps
  | _ => True
def ProcsOK : List Proc → Prop
  | [] => True
  | p :: ps => ProcOK p ∧ ProcsOK ps
end

theorem procsOK_iff (ps : List Proc) : ProcsOK ps ↔ ∀ p ∈ ps, ProcOK p := by
  induction ps with
  | nil => simp [ProcsOK]
  | cons p ps ih => simp [ProcsOK, ih]

theorem goodMap_id (t : Text) (extra : Nat) : GoodMap (idTrans t) n (n + extra) :=
  ⟨fun i hi => ⟨i, rfl, by omega, rfl⟩, fun i j di dj h _ h1 h2 => by cases h1; cases h2; exact h⟩

theorem tabsMap_last (ts : Nat) (line : Text) : (tabsMap ts line)[line.length]? = some (tabsEnd ts line 0) := by
  have : ∀ pos, (tabsPM ts line pos).length = line.length := by
    induction line with
    | nil => intro; rfl
    | cons c cs ih => intro pos; simp [tabsPM, ih]
  unfold tabsMap
  rw [List.getElem?_append_right (by rw [this]; exact Nat.le_refl _), this]; simp

/-! ### processors that REPLACE characters keep the length, so their identity maps stay right -/

theorem leadingOut_length (c : Char) (t : Text) : (leadingOut c t).length = t.length := by
  unfold leadingOut
  rw [List.length_append, List.length_map, ← List.length_append, List.takeWhile_append_dropWhile]

theorem trailingOut_length (c : Char) (t : Text) : (trailingOut c t).length = t.length := by
  unfold trailingOut
  rw [List.length_reverse, leadingOut_length, List.length_reverse]

/-- ShowLeadingWhiteSpace only touches the leading blanks: every other cell keeps its character -/
theorem leadingOut_get (c : Char) (t : Text) (i : Nat) (hi : (t.takeWhile isSp).length ≤ i) :
    (leadingOut c t)[i]? = t[i]? := by
  unfold leadingOut
  rw [List.getElem?_append_right (by simpa using hi)]
  simp only [List.length_map]
  conv => rhs; rw [← List.takeWhile_append_dropWhile (p := isSp) (l := t)]
  rw [List.getElem?_append_right hi]

/-- ... and a leading blank is shown as `c` -/
theorem leadingOut_blank (c : Char) (t : Text) (i : Nat) (hi : i < (t.takeWhile isSp).length) :
    (leadingOut c t)[i]? = some c := by
  unfold leadingOut
  rw [List.getElem?_append_left (by simpa using hi)]
  simp [hi]

theorem applyProc_tabs_good (l lc ts : Nat) (c1 c2 : Char) (hts : 1 ≤ ts) (t : Text) :
    GoodMap (applyProc l lc (.tabs ts c1 c2) t) t.length (applyProc l lc (.tabs ts c1 c2) t).frags.length := by
  have hs := tabs_mono ts hts t
  have hlen := tabsMap_length ts t
  have hfr : (tabsOut ts c1 c2 t 0).length = tabsEnd ts t 0 := (tabs_shows ts hts c1 c2 t).1
  have hlast := tabsMap_last ts t
  unfold applyProc
  constructor
  · intro i hi
    obtain ⟨d, h1, h2⟩ := tabs_roundtrip ts hts t i (by omega)
    refine ⟨d, h1, ?_, h2⟩
    show d ≤ (tabsOut ts c1 c2 t 0).length
    rw [hfr]
    rcases Nat.lt_or_ge i t.length with hlt | hge
    · have h3 : (tabsMap ts t)[i]'(by omega) = d := by
        have := List.getElem?_eq_getElem (l := tabsMap ts t) (i := i) (by omega)
        rw [this] at h1; exact Option.some.inj h1
      have h4 : (tabsMap ts t)[t.length]'(by omega) = tabsEnd ts t 0 := by
        have := List.getElem?_eq_getElem (l := tabsMap ts t) (i := t.length) (by omega)
        rw [this] at hlast; exact Option.some.inj hlast
      have := List.pairwise_iff_getElem.mp hs i t.length (by omega) (by omega) hlt
      omega
    · have : i = t.length := by omega
      subst this
      have h1' : (tabsMap ts t)[t.length]? = some d := h1
      rw [hlast] at h1'; cases h1'; exact Nat.le_refl _
  · intro i j di dj hij hj h1 h2
    have h1' : (tabsMap ts t)[i]? = some di := h1
    have h2' : (tabsMap ts t)[j]? = some dj := h2
    have hi' : i < (tabsMap ts t).length := by omega
    have hj' : j < (tabsMap ts t).length := by omega
    rw [List.getElem?_eq_getElem hi'] at h1'
    rw [List.getElem?_eq_getElem hj'] at h2'
    have := List.pairwise_iff_getElem.mp hs i j hi' hj' hij
    cases h1'; cases h2'; exact this

theorem goodMap_comp (a r : Trans) (fr : Text) (n m k : Nat) (ha : GoodMap a n m) (hr : GoodMap r m k) :
    GoodMap { frags := fr, s2d := fun i => (a.s2d i).bind r.s2d, d2s := fun j => a.d2s (r.d2s j) } n k := by
  constructor
  · intro i hi
    obtain ⟨d, h1, h2, h3⟩ := ha.defd i hi
    obtain ⟨d', g1, g2, g3⟩ := hr.defd d h2
    exact ⟨d', by simp [h1, g1], g2, by show a.d2s (r.d2s d') = i; rw [g3, h3]⟩
  · intro i j di dj hij hj h1 h2
    obtain ⟨ei, a1, a2, _⟩ := ha.defd i (by omega)
    obtain ⟨ej, b1, b2, _⟩ := ha.defd j hj
    have h1' : (a.s2d i).bind r.s2d = some di := h1
    have h2' : (a.s2d j).bind r.s2d = some dj := h2
    rw [a1] at h1'; rw [b1] at h2'
    exact hr.mono ei ej di dj (ha.mono i j ei ej hij hj a1 b1) b2 h1' h2'

/-- `fragment_list_len` (containment test) counts exactly the characters that are drawn: zero-width-escape
    fragments add neither a column to the shift nor a cell to the line -/
theorem fragLen_visible (fr : List (Bool × Text)) : fragLen fr = (fragVisible fr).length := by
  induction fr with
  | nil => rfl
  | cons p rest ih =>
    obtain ⟨zw, t⟩ := p
    cases zw <;> simp [fragLen, fragVisible, ih]

/-- a BeforeInput with zero-width-escape fragments behaves exactly like a BeforeInput of its visible text -/
theorem applyProc_beforeF (l lc : Nat) (fr : List (Bool × Text)) (t : Text) :
    applyProc l lc (.beforeF fr) t = applyProc l lc (.before (fragVisible fr)) t := by
  unfold applyProc
  rw [fragLen_visible]

theorem applyProc_before_good (l lc : Nat) (b : Text) (t : Text) :
    GoodMap (applyProc l lc (.before b) t) t.length (applyProc l lc (.before b) t).frags.length := by
    unfold applyProc
    by_cases hl : l = 0
    · simp only [hl, if_true]
      constructor
      · intro i hi
        refine ⟨i + b.length, rfl, by simp; omega, ?_⟩
        show ((i + b.length : Nat) : Int) - b.length = i
        push_cast; omega
      · intro i j di dj hij _ h1 h2
        have h1' : some (i + b.length) = some di := h1
        have h2' : some (j + b.length) = some dj := h2
        cases h1'; cases h2'; omega
    · simp only [hl, if_false]
      have := goodMap_id (n := t.length) t 0
      simpa [idTrans] using this

mutual
/-- **every single processor has good position maps** (BeforeInput shift, tab expansion, the
    length-preserving replacements with identity maps, conditional / dynamic wrappers, nested merges) -/
theorem applyProc_good (l lc : Nat) : ∀ (p : Proc), ProcOK p → ∀ (t : Text),
    GoodMap (applyProc l lc p t) t.length (applyProc l lc p t).frags.length
  | .tabs ts c1 c2, hp, t => applyProc_tabs_good l lc ts c1 c2 hp t
  | .before b, _, t => applyProc_before_good l lc b t
  | .beforeF fr, _, t => by
    rw [applyProc_beforeF]
    exact applyProc_before_good l lc (fragVisible fr) t
  | .after a, _, t => by
    unfold applyProc
    by_cases hl : l + 1 = lc
    · simp only [hl, if_true]
      have := goodMap_id (n := t.length) (t ++ a) a.length
      simpa [idTrans] using this
    · simp only [hl, if_false]
      have := goodMap_id (n := t.length) t 0
      simpa [idTrans] using this
  | .password c, _, t => by
    unfold applyProc
    have := goodMap_id (n := t.length) (t.map fun _ => c) 0
    simpa [idTrans] using this
  | .leading c, _, t => by
    unfold applyProc
    have := goodMap_id (n := t.length) (leadingOut c t) 0
    simpa [idTrans, leadingOut_length] using this
  | .trailing c, _, t => by
    unfold applyProc
    have := goodMap_id (n := t.length) (trailingOut c t) 0
    simpa [idTrans, trailingOut_length] using this
  | .ident, _, t => by
    unfold applyProc
    have := goodMap_id (n := t.length) t 0
    simpa [idTrans] using this
  | .cond b p, hp, t => by
    unfold applyProc
    cases b with
    | true => simpa using applyProc_good l lc p (by simpa [ProcOK] using hp) t
    | false =>
      have := goodMap_id (n := t.length) t 0
      simpa [idTrans] using this
  | .group ps, hp, t => by
    unfold applyProc
    exact merged_good' l lc ps (by simpa [ProcOK] using hp) t

theorem merged_good' (l lc : Nat) : ∀ (ps : List Proc), ProcsOK ps → ∀ t : Text,
    GoodMap (merged l lc ps t) t.length (merged l lc ps t).frags.length
  | [], _, t => by
    unfold merged
    have := goodMap_id (n := t.length) t 0
    simpa [idTrans] using this
  | p :: ps, hps, t => by
    unfold merged
    have h1 := applyProc_good l lc p hps.1 t
    have h2 := merged_good' l lc ps hps.2 (applyProc l lc p t).frags
    exact goodMap_comp _ _ _ _ _ _ h1 h2
end

/-- **merged_compose** : the merged processor (any list of Tabs / BeforeInput / AfterInput / Password /
    ShowLeading- / ShowTrailingWhiteSpace / restyling / conditional / dynamic / nested merged processors,
    tab stops ≥ 1) has good position maps from the source line to the final fragments: round trip,
    strictly increasing, inside the processed line -/
theorem merged_good (l lc : Nat) (ps : List Proc) (hps : ∀ p ∈ ps, ProcOK p) :
    ∀ t : Text, GoodMap (merged l lc ps t) t.length (merged l lc ps t).frags.length :=
  merged_good' l lc ps ((procsOK_iff ps).mpr hps)

/-! ### the composition law for n processors, abstractly -/

/-- any processor, as a function from the incoming text to a transformation -/
abbrev AProc := Text → Trans

/-- `_MergedProcessor` over arbitrary processors: applied in order, `source_to_display` composed in
    order, `display_to_source` composed in REVERSE order -/
def mergedT : List AProc → AProc
  | [], t => idTrans t
  | p :: ps, t =>
    let a := p t
    let r := mergedT ps a.frags
    { frags := r.frags, s2d := fun i => (a.s2d i).bind r.s2d, d2s := fun j => a.d2s (r.d2s j) }

/-- a processor whose maps are good on every input -/
def AGood (p : AProc) : Prop := ∀ t, GoodMap (p t) t.length (p t).frags.length

/-- **the composition law** : for ANY list of processors with monotone round-tripping position maps,
    the merged processor has monotone round-tripping position maps — whatever the processors do to
    the text -/
theorem mergedT_good (ps : List AProc) (h : ∀ p ∈ ps, AGood p) : AGood (mergedT ps) := by
  induction ps with
  | nil =>
    intro t
    have := goodMap_id (n := t.length) t 0
    simpa [mergedT, idTrans] using this
  | cons p ps ih =>
    intro t
    exact goodMap_comp _ _ _ _ _ _ (h p (by simp) t) (ih (fun q hq => h q (by simp [hq])) (p t).frags)

/-- the concrete `_MergedProcessor` model is the abstract one over the modelled processors -/
theorem merged_eq_mergedT (l lc : Nat) (ps : List Proc) (t : Text) :
    merged l lc ps t = mergedT (ps.map (applyProc l lc)) t := by
  induction ps generalizing t with
  | nil => simp [merged, mergedT]
  | cons p ps ih => simp only [merged, mergedT, List.map_cons, ih]

/-- extensional equality of transformations -/
def Trans.Same (a b : Trans) : Prop := a.frags = b.frags ∧ (∀ i, a.s2d i = b.s2d i) ∧ ∀ j, a.d2s j = b.d2s j

/-- **nesting is flattening** : a merged processor used as ONE element of another merge behaves like
    its elements spliced into the outer list (fragments and both position maps) -/
theorem mergedT_append (ps qs : List AProc) (t : Text) :
    Trans.Same (mergedT (ps ++ qs) t) (mergedT [mergedT ps, mergedT qs] t) := by
  induction ps generalizing t with
  | nil =>
    refine ⟨by simp [mergedT, idTrans], fun i => ?_, fun j => by simp [mergedT, idTrans]⟩
    simp only [mergedT, idTrans, List.nil_append, Option.bind_some]
    cases (mergedT qs t).s2d i <;> rfl
  | cons p ps ih =>
    obtain ⟨h1, h2, h3⟩ := ih (p t).frags
    refine ⟨?_, fun i => ?_, fun j => ?_⟩
    · simpa [mergedT, idTrans] using h1
    · simp only [mergedT, idTrans, List.cons_append] at h2 ⊢
      cases hp : (p t).s2d i with
      | none => simp
      | some d =>
        simp only [Option.bind_some]
        rw [h2 d]
    · simp only [mergedT, idTrans, List.cons_append] at h3 ⊢
      rw [h3 j]

theorem mergedT_nested (ps qs rs : List AProc) (t : Text) :
    Trans.Same (mergedT (ps ++ [mergedT qs] ++ rs) t) (mergedT (ps ++ qs ++ rs) t) := by
  induction ps generalizing t with
  | nil =>
    simp only [List.nil_append]
    have h := mergedT_append qs rs t
    obtain ⟨h1, h2, h3⟩ := h
    refine ⟨?_, fun i => ?_, fun j => ?_⟩
    · rw [h1]; simp [mergedT, idTrans]
    · rw [h2 i]
      simp only [mergedT, idTrans, List.cons_append, List.nil_append]
      cases (mergedT qs t).s2d i with
      | none => rfl
      | some d => simp only [Option.bind_some]; cases (mergedT rs (mergedT qs t).frags).s2d d <;> rfl
    · rw [h3 j]; simp [mergedT, idTrans]
  | cons p ps ih =>
    obtain ⟨h1, h2, h3⟩ := ih (p t).frags
    refine ⟨by simpa [mergedT] using h1, fun i => ?_, fun j => ?_⟩
    · simp only [mergedT, List.cons_append] at h2 ⊢
      cases (p t).s2d i with
      | none => rfl
      | some d => simp only [Option.bind_some]; exact h2 d
    · simp only [mergedT, List.cons_append] at h3 ⊢
      rw [h3 j]

end Ptk.C11
