/-
  C20 — nested applications and the AppSession's current-application cell (`Ptk.Model.C20Nest`).

  For every schedule of starts (also nested, to any depth), stops, `in_terminal` sections and writes:
  the cell always names the innermost running application (`set_app` restores the previous one), so after a
  nested application has finished the outer one is "the application" again, and text printed through the proxy is
  never written while a prompt is on the screen.  With `finally: session.app = None` (seeded C20-i) the cell is
  empty although the outer application is drawn and the text lands on its prompt (witness).
-/
import Ptk.Model.C20Nest
namespace Ptk.C20Nest
open Ptk.Py

theorem screen_append (sh : Option Nat) (a b : List Ev) :
    screen sh (a ++ b) = (screen sh a).bind fun sh' => screen sh' b := by
  induction a generalizing sh with
  | nil => rfl
  | cons e es ih =>
    cases e with
    | draw k => simpa [screen] using ih (some k)
    | erase k => simpa [screen] using ih none
    | doneDraw k => simpa [screen] using ih none
    | out t =>
      cases sh with
      | none => simpa [screen] using ih none
      | some k => simp [screen]

theorem screen_flushWaiting (k : Nat) (ts : List Text) : screen (some k) (flushWaiting k ts) = some (some k) := by
  induction ts with
  | nil => rfl
  | cons t ts ih => simpa [flushWaiting, screen] using ih

/-- every `set_app` frame saved the application that is below it on the stack -/
def PrevOk : List Frame → Prop
  | [] => True
  | f :: fs => f.prev = (fs.head?).map (·.id) ∧ PrevOk fs

structure NInv (s : St) : Prop where
  code : s.restorePrev = true
  cellTop : s.cell = (s.stack.head?).map (·.id)
  prevOk : PrevOk s.stack
  /-- every application below the innermost one is suspended in a section -/
  below : ∀ g ∈ s.stack.tail, g.inSec = true
  scr : screen none s.log = some (shownOf s.stack)

theorem ninv_init : NInv {} := ⟨rfl, rfl, trivial, by simp, rfl⟩

theorem shownOf_below {fs : List Frame} (h : ∀ g ∈ fs, g.inSec = true) : shownOf fs = none := by
  cases fs with
  | nil => rfl
  | cons g gs => simp [shownOf, h g (by simp)]

theorem ninv_step (s : St) (o : Op) (h : NInv s) : NInv (step s o) := by
  obtain ⟨hc, hct, hp, hb, hs⟩ := h
  cases o with
  | start =>
    simp only [step]
    cases hst : s.stack with
    | nil =>
      simp only [if_true]
      refine ⟨hc, rfl, ⟨by simp [hct, hst], trivial⟩, by simp, ?_⟩
      rw [screen_append, hs, hst]; simp [shownOf, screen]
    | cons f fs =>
      simp only
      by_cases hf : f.inSec = true
      · rw [if_pos hf]
        rw [hst] at hp hb hs hct
        refine ⟨hc, rfl, ⟨by simp [hct], hp⟩, ?_, ?_⟩
        · intro g hg
          simp only [List.tail_cons, List.mem_cons] at hg
          rcases hg with rfl | hg
          · exact hf
          · exact hb g (by simpa using hg)
        · rw [screen_append, hs]; simp [shownOf, hf, screen]
      · rw [if_neg hf]; rw [hst] at hp hb hs hct; exact ⟨hc, by rw [hst]; exact hct, by rw [hst]; exact hp, by rw [hst]; exact hb, by rw [hst]; exact hs⟩
  | stop =>
    simp only [step]
    cases hst : s.stack with
    | nil => simp only; rw [hst] at hp hb hs hct; exact ⟨hc, by rw [hst]; exact hct, by rw [hst]; exact hp, by rw [hst]; exact hb, by rw [hst]; exact hs⟩
    | cons f fs =>
      simp only
      rw [hst] at hp hb hs hct
      by_cases hf : f.inSec = true
      · rw [if_pos hf]; exact ⟨hc, by rw [hst]; exact hct, by rw [hst]; exact hp, by rw [hst]; exact hb, by rw [hst]; exact hs⟩
      · rw [if_neg hf]
        have hb' : ∀ g ∈ fs, g.inSec = true := fun g hg => hb g (by simpa using hg)
        refine ⟨hc, by simp [hc, hp.1], hp.2, ?_, ?_⟩
        · intro g hg; exact hb' g (List.mem_of_mem_tail hg)
        · have e : shownOf fs = none := shownOf_below hb'
          rw [screen_append, hs, e]
          simp [screen]
  | enter =>
    simp only [step]
    cases hst : s.stack with
    | nil => simp only; rw [hst] at hp hb hs hct; exact ⟨hc, by rw [hst]; exact hct, by rw [hst]; exact hp, by rw [hst]; exact hb, by rw [hst]; exact hs⟩
    | cons f fs =>
      simp only
      rw [hst] at hp hb hs hct
      by_cases hf : f.inSec = true
      · rw [if_pos hf]; exact ⟨hc, by rw [hst]; exact hct, by rw [hst]; exact hp, by rw [hst]; exact hb, by rw [hst]; exact hs⟩
      · rw [if_neg hf]
        have hf' : f.inSec = false := by simpa using hf
        refine ⟨hc, by simpa using hct, ⟨hp.1, hp.2⟩, by simpa using hb, ?_⟩
        rw [screen_append, hs]; simp [shownOf, hf', screen]
  | leave =>
    simp only [step]
    cases hst : s.stack with
    | nil => simp only; rw [hst] at hp hb hs hct; exact ⟨hc, by rw [hst]; exact hct, by rw [hst]; exact hp, by rw [hst]; exact hb, by rw [hst]; exact hs⟩
    | cons f fs =>
      simp only
      rw [hst] at hp hb hs hct
      by_cases hf : f.inSec = true
      · rw [if_pos hf]
        refine ⟨hc, by simpa using hct, ⟨hp.1, hp.2⟩, by simpa using hb, ?_⟩
        rw [List.append_assoc, screen_append, hs]
        simp [shownOf, hf, screen, screen_flushWaiting]
      · rw [if_neg hf]; exact ⟨hc, by rw [hst]; exact hct, by rw [hst]; exact hp, by rw [hst]; exact hb, by rw [hst]; exact hs⟩
  | write t =>
    simp only [step]
    cases hst : s.stack with
    | nil =>
      rw [hst] at hct hs
      have hcell : s.cell = none := by simpa using hct
      simp only [hcell]
      refine ⟨hc, by simp [hcell], trivial, by simp, ?_⟩
      rw [screen_append, hs]; simp [shownOf, screen]
    | cons f fs =>
      rw [hst] at hp hb hs hct
      have hcell : s.cell = some f.id := by simpa using hct
      simp only [hcell, findFrame, if_true]
      by_cases hf : f.inSec = true
      · rw [if_pos hf]
        simp only [addWaiting, if_true]
        refine ⟨hc, by simp [hcell], ⟨hp.1, hp.2⟩, by simpa using hb, ?_⟩
        rw [hs]; simp [shownOf, hf]
      · rw [if_neg hf]
        have hf' : f.inSec = false := by simpa using hf
        refine ⟨hc, by simp [hcell], hp, hb, ?_⟩
        rw [screen_append, hs]; simp [shownOf, hf', screen]

theorem ninv_run (s : St) (ops : List Op) (h : NInv s) : NInv (runOps s ops) := by
  induction ops generalizing s with
  | nil => exact h
  | cons o os ih => exact ih _ (ninv_step s o h)

theorem runOps_snoc (s : St) (ops : List Op) (o : Op) : runOps s (ops ++ [o]) = step (runOps s ops) o := by
  induction ops generalizing s with
  | nil => rfl
  | cons x xs ih => simp only [List.cons_append, runOps]; exact ih _

/-- **cell_is_innermost.**  For every schedule — applications started, nested to any depth inside `in_terminal`
    sections, finished, sections opened and closed, text printed in between — `AppSession.app` is the innermost
    running application, and none when no application runs: `get_app_or_none()` and `StdoutProxy._get_app_loop()`
    see exactly the application whose prompt may be on the screen. -/
theorem cell_is_innermost (ops : List Op) :
    (runOps {} ops).cell = ((runOps {} ops).stack.head?).map (·.id) :=
  (ninv_run _ ops ninv_init).cellTop

/-- **nested_finish_restores_outer.**  When a nested application finishes, the application it was nested in is
    the current one again (`session.app = previous_app`), and it is still suspended in its section. -/
theorem nested_finish_restores_outer (ops : List Op) (f g : Frame) (rest : List Frame)
    (hst : (runOps {} ops).stack = f :: g :: rest) (hf : f.inSec = false) :
    (runOps {} (ops ++ [.stop])).cell = some g.id ∧ (runOps {} (ops ++ [.stop])).stack = g :: rest ∧
    g.inSec = true := by
  have h := ninv_run _ ops ninv_init
  have hrun : runOps {} (ops ++ [.stop]) = step (runOps {} ops) .stop := runOps_snoc _ ops .stop
  have hp := h.prevOk
  rw [hst] at hp
  refine ⟨?_, ?_, h.below g (by simp [hst])⟩
  · rw [hrun]; simp [step, hst, hf, h.code, hp.1]
  · rw [hrun]; simp [step, hst, hf]

/-- **text_never_on_prompt_nested.**  For every schedule the terminal events are accepted by `screen`: text is
    written only while no prompt is on the screen (no application, or the prompt erased for this text or for an
    open section), across any nesting of applications; afterwards the prompt on the screen is the innermost
    application's, unless its section is open. -/
theorem text_never_on_prompt_nested (ops : List Op) :
    screen none (runOps {} ops).log = some (shownOf (runOps {} ops).stack) :=
  (ninv_run _ ops ninv_init).scr

-- non-vacuity: outer application, section, nested application with a section and a nested one of its own; writes at
-- every stage, one of them waiting for the open section
example :
    let ops : List Op := [.start, .write ['a'], .enter, .write ['w'], .start, .write ['b'], .enter, .start, .write ['c'],
      .stop, .leave, .stop, .write ['v'], .leave, .write ['d'], .stop, .write ['e']]
    (runOps {} ops).log = [.draw 0, .erase 0, .out ['a'], .draw 0, .erase 0, .draw 1, .erase 1, .out ['b'], .draw 1,
      .erase 1, .draw 2, .erase 2, .out ['c'], .draw 2, .doneDraw 2, .draw 1, .doneDraw 1,
      .draw 0, .erase 0, .out ['w'], .draw 0, .erase 0, .out ['v'], .draw 0,
      .erase 0, .out ['d'], .draw 0, .doneDraw 0, .out ['e']] ∧
    screen none (runOps {} ops).log = some none := by decide

/-! ### order of the texts across nesting: a window in which the property is FALSE of the code (known finding K4) -/

/-- the texts written to the terminal, in order -/
def outTexts : List Ev → List Text
  | [] => []
  | .out t :: es => t :: outTexts es
  | _ :: es => outTexts es

def writesOf : List Op → List Text
  | [] => []
  | .write t :: os => t :: writesOf os
  | _ :: os => writesOf os

theorem outTexts_append (a b : List Ev) : outTexts (a ++ b) = outTexts a ++ outTexts b := by
  induction a with
  | nil => rfl
  | cons e es ih => cases e <;> simp [outTexts, ih]

theorem outTexts_flushWaiting (k : Nat) (ts : List Text) : outTexts (flushWaiting k ts) = ts := by
  induction ts with
  | nil => rfl
  | cons t ts ih => simp [flushWaiting, outTexts, ih]

/-- schedule restriction: no nested application is started while text waits for the open section it is started in -/
def nestCalmStep (s : St) : Op → Bool
  | .start => match s.stack with
    | f :: _ => f.waiting.isEmpty
    | [] => true
  | _ => true

def nestCalm : St → List Op → Bool
  | _, [] => true
  | s, o :: os => nestCalmStep s o && nestCalm (step s o) os

def topWaiting : List Frame → List Text
  | [] => []
  | f :: _ => f.waiting

structure OInv (s : St) (w : List Text) : Prop where
  ord : outTexts s.log ++ topWaiting s.stack = w
  belowEmpty : ∀ g ∈ s.stack.tail, g.waiting = []
  idle : ∀ g ∈ s.stack, g.inSec = false → g.waiting = []

theorem oinv_step (s : St) (o : Op) (w : List Text) (hn : NInv s) (hcalm : nestCalmStep s o = true) (h : OInv s w) :
    OInv (step s o) (w ++ writesOf [o]) := by
  obtain ⟨ho, hb, hi⟩ := h
  have hct := hn.cellTop
  cases o with
  | start =>
    simp only [step, writesOf, List.append_nil]
    cases hst : s.stack with
    | nil =>
      rw [hst] at ho
      simp only [if_true]
      exact ⟨by simpa [outTexts_append, outTexts, topWaiting] using ho, by simp, by simp⟩
    | cons f fs =>
      rw [hst] at ho hb hi
      simp only
      by_cases hf : f.inSec = true
      · rw [if_pos hf]
        have hw : f.waiting = [] := by simpa [nestCalmStep, hst] using hcalm
        refine ⟨?_, ?_, ?_⟩
        · simpa [outTexts_append, outTexts, topWaiting, hw] using ho
        · intro g hg
          simp only [List.tail_cons, List.mem_cons] at hg
          rcases hg with rfl | hg
          · exact hw
          · exact hb g (by simpa using hg)
        · intro g hg hgs
          simp only [List.mem_cons] at hg
          rcases hg with rfl | hg
          · rfl
          · exact hi g (by simpa using hg) hgs
      · rw [if_neg hf]; exact ⟨by rw [hst]; exact ho, by rw [hst]; exact hb, by rw [hst]; exact hi⟩
  | stop =>
    simp only [step, writesOf, List.append_nil]
    cases hst : s.stack with
    | nil => simp only; rw [hst] at ho hb hi; exact ⟨by rw [hst]; exact ho, by rw [hst]; exact hb, by rw [hst]; exact hi⟩
    | cons f fs =>
      rw [hst] at ho hb hi
      simp only
      by_cases hf : f.inSec = true
      · rw [if_pos hf]; exact ⟨by rw [hst]; exact ho, by rw [hst]; exact hb, by rw [hst]; exact hi⟩
      · rw [if_neg hf]
        have hw : f.waiting = [] := hi f (by simp) (by simpa using hf)
        have hbw : topWaiting fs = [] := by
          cases fs with
          | nil => rfl
          | cons g gs => exact hb g (by simp)
        refine ⟨?_, ?_, ?_⟩
        · rw [hbw]; simpa [outTexts_append, outTexts, topWaiting, hw] using ho
        · intro g hg; exact hb g (by simpa using List.mem_of_mem_tail hg)
        · intro g hg hgs; exact hi g (by simp [hg]) hgs
  | enter =>
    simp only [step, writesOf, List.append_nil]
    cases hst : s.stack with
    | nil => simp only; rw [hst] at ho hb hi; exact ⟨by rw [hst]; exact ho, by rw [hst]; exact hb, by rw [hst]; exact hi⟩
    | cons f fs =>
      rw [hst] at ho hb hi
      simp only
      by_cases hf : f.inSec = true
      · rw [if_pos hf]; exact ⟨by rw [hst]; exact ho, by rw [hst]; exact hb, by rw [hst]; exact hi⟩
      · rw [if_neg hf]
        refine ⟨by simpa [outTexts_append, outTexts, topWaiting] using ho, by simpa using hb, ?_⟩
        intro g hg hgs
        simp only [List.mem_cons] at hg
        rcases hg with rfl | hg
        · simp at hgs
        · exact hi g (by simp [hg]) hgs
  | leave =>
    simp only [step, writesOf, List.append_nil]
    cases hst : s.stack with
    | nil => simp only; rw [hst] at ho hb hi; exact ⟨by rw [hst]; exact ho, by rw [hst]; exact hb, by rw [hst]; exact hi⟩
    | cons f fs =>
      rw [hst] at ho hb hi
      simp only
      by_cases hf : f.inSec = true
      · rw [if_pos hf]
        refine ⟨?_, by simpa using hb, ?_⟩
        · simpa [outTexts_append, outTexts, topWaiting, outTexts_flushWaiting] using ho
        · intro g hg hgs
          simp only [List.mem_cons] at hg
          rcases hg with rfl | hg
          · rfl
          · exact hi g (by simp [hg]) hgs
      · rw [if_neg hf]; exact ⟨by rw [hst]; exact ho, by rw [hst]; exact hb, by rw [hst]; exact hi⟩
  | write t =>
    simp only [step, writesOf]
    cases hst : s.stack with
    | nil =>
      rw [hst] at hct ho
      have hcell : s.cell = none := by simpa using hct
      simp only [hcell]
      exact ⟨by simp [outTexts_append, outTexts, topWaiting] at ho ⊢; rw [ho], by simp, by simp⟩
    | cons f fs =>
      rw [hst] at hct ho hb hi
      have hcell : s.cell = some f.id := by simpa using hct
      simp only [hcell, findFrame, if_true]
      by_cases hf : f.inSec = true
      · rw [if_pos hf]
        simp only [addWaiting, if_true]
        refine ⟨?_, by simpa using hb, ?_⟩
        · simp only [topWaiting] at ho ⊢; rw [← ho]; simp
        · intro g hg hgs
          simp only [List.mem_cons] at hg
          rcases hg with rfl | hg
          · simp [hf] at hgs
          · exact hi g (by simp [hg]) hgs
      · rw [if_neg hf]
        have hw : f.waiting = [] := hi f (by simp) (by simpa using hf)
        refine ⟨?_, hb, hi⟩
        simp only [topWaiting, hw, List.append_nil] at ho ⊢
        simp [outTexts_append, outTexts, ho]

/-
  FULL statement: for every schedule, the texts written so far followed by the texts waiting for the innermost
  open section are the writes in order.  It is FALSE of the code (`nested_order_witness`, known finding K4): a text
  that waits for the open section of the outer application (its `run_in_terminal` task awaits the OUTER
  application's `_running_in_terminal_f`) is overtaken by text printed while a nested application runs in that
  section (that text goes through the nested application, whose chain is empty).  `nested_order_partial` excludes
  exactly the schedules in which a nested application starts while text waits.
-/
theorem nested_order_partial (ops : List Op) (hc : nestCalm {} ops = true) :
    outTexts (runOps {} ops).log ++ topWaiting (runOps {} ops).stack = writesOf ops := by
  suffices h : ∀ (s : St) (w : List Text), NInv s → OInv s w → nestCalm s ops = true →
      OInv (runOps s ops) (w ++ writesOf ops) by
    have := (h {} [] ninv_init ⟨rfl, by simp, by simp⟩ hc).ord
    simpa using this
  clear hc
  intro s w hn ho hcalm
  induction ops generalizing s w with
  | nil => simpa [runOps, writesOf] using ho
  | cons o os ih =>
    simp only [nestCalm, Bool.and_eq_true] at hcalm
    have h1 := oinv_step s o w hn hcalm.1 ho
    have h2 := ih (step s o) (w ++ writesOf [o]) (ninv_step s o hn) h1 hcalm.2
    have e : w ++ writesOf [o] ++ writesOf os = w ++ writesOf (o :: os) := by
      cases o <;> simp [writesOf]
    rw [e] at h2
    exact h2

example : nestCalm {} [.start, .write ['a'], .enter, .start, .write ['b'], .stop, .write ['w'], .leave, .write ['c']] = true ∧
    outTexts (runOps {} [.start, .write ['a'], .enter, .start, .write ['b'], .stop, .write ['w'], .leave, .write ['c']]).log
      = [['a'], ['b'], ['w'], ['c']] := by decide

/-- K4: `w` is printed while the section of the outer application is open (it waits), a nested application starts
    and `b` is printed through it at once; `w` follows only when the section ends -/
def k4 : List Op := [.start, .enter, .write ['w'], .start, .write ['b'], .stop, .leave]

theorem nested_order_witness :
    nestCalm {} k4 = false ∧ outTexts (runOps {} k4).log = [['b'], ['w']] ∧ writesOf k4 = [['w'], ['b']] ∧
    screen none (runOps {} k4).log = some (some 0) := by decide

/-- the schedule of the seeded regression C20-i: outer application, section, nested application started and
    finished inside it, section closed, then a write -/
def seedI : List Op := [.start, .enter, .start, .stop, .leave, .write ['a', '\n']]

/-- **cell_not_restored_witness.**  On `seedI` the code erases the outer prompt around the text.  With
    `finally: session.app = None` the cell is empty after the nested application although the outer one is
    running and drawn: the text is written directly, onto the prompt (`screen` rejects the log). -/
theorem cell_not_restored_witness :
    (runOps {} seedI).log = [.draw 0, .erase 0, .draw 1, .doneDraw 1, .draw 0, .erase 0, .out ['a', '\n'], .draw 0] ∧
    screen none (runOps {} seedI).log = some (some 0) ∧
    (runOps { restorePrev := false } seedI).cell = none ∧
    ((runOps { restorePrev := false } seedI).stack.map (·.id)) = [0] ∧
    (runOps { restorePrev := false } seedI).log = [.draw 0, .erase 0, .draw 1, .doneDraw 1, .draw 0, .out ['a', '\n']] ∧
    screen none (runOps { restorePrev := false } seedI).log = none := by decide

end Ptk.C20Nest
