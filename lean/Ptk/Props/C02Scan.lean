/-
  C02 — helper lemmas about the scanners: literal `finditer`, the bracket stack walk and the
  word-run scanner.
-/
import Ptk.Model.C02
import Ptk.Model.C02Spec
namespace Ptk.C02
open Ptk.Py

/-! ### matchAt -/

theorem matchAt_length {eq : Char → Char → Bool} {sub t : Text} (h : matchAt eq sub t = true) :
    sub.length ≤ t.length := by
  induction sub generalizing t with
  | nil => simp
  | cons a as ih =>
    cases t with
    | nil => simp [matchAt] at h
    | cons b bs =>
      simp only [matchAt, Bool.and_eq_true] at h
      have := ih h.2
      simp; omega

/-- pointwise characterisation -/
theorem matchAt_iff {eq : Char → Char → Bool} {sub t : Text} :
    matchAt eq sub t = true ↔
      sub.length ≤ t.length ∧ ∀ (k : Nat) (x y : Char), sub[k]? = some x → t[k]? = some y → eq x y = true := by
  induction sub generalizing t with
  | nil => simp [matchAt]
  | cons a as ih =>
    cases t with
    | nil => simp [matchAt]
    | cons b bs =>
      simp only [matchAt, Bool.and_eq_true, ih, List.length_cons]
      constructor
      · rintro ⟨h0, hl, hk⟩
        refine ⟨by omega, ?_⟩
        intro k x y hx hy
        cases k with
        | zero => simp at hx hy; subst hx hy; exact h0
        | succ k => simp at hx hy; exact hk k x y hx hy
      · rintro ⟨hl, hk⟩
        refine ⟨hk 0 a b (by simp) (by simp), by omega, ?_⟩
        intro k x y hx hy
        exact hk (k + 1) x y (by simpa using hx) (by simpa using hy)

/-- under plain equality `matchAt` says: the text starts with `sub` -/
theorem matchAt_beq_iff (sub t : Text) : matchAt (· == ·) sub t = true ↔ t.take sub.length = sub := by
  induction sub generalizing t with
  | nil => simp [matchAt]
  | cons a as ih =>
    cases t with
    | nil => simp [matchAt]
    | cons b bs =>
      simp only [matchAt, Bool.and_eq_true, ih, List.length_cons, List.take_succ_cons, List.cons.injEq,
        beq_iff_eq]
      constructor <;> rintro ⟨h1, h2⟩ <;> exact ⟨h1.symm, h2⟩

theorem matchAt_append {eq : Char → Char → Bool} {sub a : Text} (b : Text)
    (h : matchAt eq sub a = true) : matchAt eq sub (a ++ b) = true := by
  induction sub generalizing a with
  | nil => simp [matchAt]
  | cons x xs ih =>
    cases a with
    | nil => simp [matchAt] at h
    | cons y ys =>
      simp only [matchAt, Bool.and_eq_true, List.cons_append] at h ⊢
      exact ⟨h.1, ih h.2⟩

/-! ### finditer -/

theorem finditerGo_sound (eq : Char → Char → Bool) (sub : Text) (fuel off : Nat) (t : Text) (s : Nat)
    (h : s ∈ finditerGo eq sub fuel off t) :
    off ≤ s ∧ matchAt eq sub (t.drop (s - off)) = true := by
  induction fuel generalizing off t with
  | zero => simp [finditerGo] at h
  | succ f ih =>
    have step : ∀ c cs, t = c :: cs → s ∈ finditerGo eq sub f (off + 1) cs →
        off ≤ s ∧ matchAt eq sub (t.drop (s - off)) = true := by
      intro c cs ht hs
      obtain ⟨h1, h2⟩ := ih (off + 1) cs hs
      refine ⟨by omega, ?_⟩
      have : s - off = (s - (off + 1)) + 1 := by omega
      rw [ht, this, List.drop_succ_cons]; exact h2
    unfold finditerGo at h
    split at h
    · rename_i hm
      rcases List.mem_cons.mp h with rfl | h
      · simpa using hm
      · split at h
        · cases t with
          | nil => simp at h
          | cons c cs => exact step c cs rfl h
        · obtain ⟨h1, h2⟩ := ih (off + sub.length) (t.drop sub.length) h
          refine ⟨by omega, ?_⟩
          rw [List.drop_drop] at h2
          have : sub.length + (s - (off + sub.length)) = s - off := by omega
          rw [this] at h2; exact h2
    · cases t with
      | nil => simp at h
      | cons c cs => exact step c cs rfl h

/-- every reported match start is a real occurrence inside the text -/
theorem finditer_sound (eq : Char → Char → Bool) (sub t : Text) (s : Nat) (h : s ∈ finditer eq sub t) :
    s + sub.length ≤ t.length ∧ matchAt eq sub (t.drop s) = true := by
  obtain ⟨_, h2⟩ := finditerGo_sound eq sub _ 0 t s h
  simp only [Nat.sub_zero] at h2
  have := matchAt_length h2
  simp only [List.length_drop] at this
  refine ⟨?_, h2⟩
  by_cases hs : s ≤ t.length
  · omega
  · -- s > len: drop is empty, so sub is empty and ... s must still be ≤ len
    exfalso
    have hd : t.drop s = [] := List.drop_eq_nil_iff.mpr (by omega)
    -- all reported offsets are ≤ len(t): prove separately
    exact hs (by
      have := finditerGo_le eq sub (t.length + 1) 0 t s h
      omega)
where
  finditerGo_le (eq : Char → Char → Bool) (sub : Text) (fuel off : Nat) (t : Text) (s : Nat)
      (h : s ∈ finditerGo eq sub fuel off t) : s ≤ off + t.length := by
    induction fuel generalizing off t with
    | zero => simp [finditerGo] at h
    | succ f ih =>
      unfold finditerGo at h
      split at h
      · rename_i hm
        have hml := matchAt_length hm
        rcases List.mem_cons.mp h with rfl | h
        · omega
        · split at h
          · cases t with
            | nil => simp at h
            | cons c cs => have := ih (off + 1) cs h; simp; omega
          · have := ih (off + sub.length) (t.drop sub.length) h
            simp only [List.length_drop] at this; omega
      · cases t with
        | nil => simp at h
        | cons c cs => have := ih (off + 1) cs h; simp; omega

/-- the first reported match is the leftmost occurrence; no reported match = no occurrence -/
theorem finditerGo_first (eq : Char → Char → Bool) (sub : Text) (fuel off : Nat) (t : Text)
    (hf : t.length < fuel) :
    (∀ s rest, finditerGo eq sub fuel off t = s :: rest →
        ∀ j, j < s - off → matchAt eq sub (t.drop j) = false) ∧
    (finditerGo eq sub fuel off t = [] → ∀ j, j ≤ t.length → matchAt eq sub (t.drop j) = false) := by
  induction fuel generalizing off t with
  | zero => omega
  | succ f ih =>
    unfold finditerGo
    by_cases hm : matchAt eq sub t = true
    · simp only [hm, if_true]
      refine ⟨?_, (by intro h; cases h)⟩
      intro s rest h j hj
      have : s = off := by cases h; rfl
      omega
    · simp only [hm]
      have hm' : matchAt eq sub t = false := by simpa using hm
      cases t with
      | nil =>
        refine ⟨(by intro s rest h; cases h), ?_⟩
        intro _ j hj
        have : j = 0 := by simpa using hj
        subst this; simpa using hm'
      | cons c cs =>
        obtain ⟨ih1, ih2⟩ := ih (off + 1) cs (by simp at hf; omega)
        simp only [Bool.false_eq_true, if_false]
        refine ⟨?_, ?_⟩
        · intro s rest h j hj
          cases j with
          | zero => simpa using hm'
          | succ j => simpa using ih1 s rest h j (by omega)
        · intro h j hj
          cases j with
          | zero => simpa using hm'
          | succ j => simpa using ih2 h j (by simp at hj; omega)

theorem finditer_first (eq : Char → Char → Bool) (sub t : Text) :
    (∀ s, (finditer eq sub t)[0]? = some s → ∀ j, j < s → matchAt eq sub (t.drop j) = false) ∧
    (finditer eq sub t = [] → ∀ j, j ≤ t.length → matchAt eq sub (t.drop j) = false) := by
  obtain ⟨h1, h2⟩ := finditerGo_first eq sub (t.length + 1) 0 t (by omega)
  refine ⟨?_, h2⟩
  intro s hs j hj
  unfold finditer at hs
  cases hl : finditerGo eq sub (t.length + 1) 0 t with
  | nil => rw [hl] at hs; simp at hs
  | cons s' rest =>
    rw [hl] at hs
    simp at hs; subst hs
    exact h1 s' rest hl j (by omega)

theorem nth_mem {α : Type} {ms : List α} {count : Int} {x : α} (h : nth ms count = some x) : x ∈ ms := by
  unfold nth at h
  split at h
  · exact List.mem_of_getElem? h
  · cases h

theorem nth_index {α : Type} {ms : List α} {count : Int} {x : α} (h : nth ms count = some x) :
    1 ≤ count ∧ ms[(count - 1).toNat]? = some x := by
  unfold nth at h
  split at h
  · exact ⟨by omega, h⟩
  · cases h

/-- reversed needle in reversed haystack = needle in haystack, counted from the end -/
theorem matchAt_reverse {eq : Char → Char → Bool} {sub x : Text} {s : Nat}
    (hs : s + sub.length ≤ x.length)
    (h : matchAt eq sub.reverse (x.reverse.drop s) = true) :
    matchAt eq sub (x.drop (x.length - s - sub.length)) = true := by
  rw [matchAt_iff] at h ⊢
  obtain ⟨_, hk⟩ := h
  refine ⟨by simp only [List.length_drop]; omega, ?_⟩
  intro k a b ha hb
  have hka : k < sub.length := by
    rcases Nat.lt_or_ge k sub.length with h | h
    · exact h
    · rw [List.getElem?_eq_none h] at ha; cases ha
  -- position k of sub is position (len - 1 - k) of the reversed needle
  apply hk (sub.length - 1 - k) a b
  · rw [List.getElem?_reverse (by omega)]
    have : sub.length - 1 - (sub.length - 1 - k) = k := by omega
    rw [this]; exact ha
  · rw [List.getElem?_drop, List.getElem?_reverse (by omega)]
    rw [List.getElem?_drop] at hb
    have : x.length - 1 - (s + (sub.length - 1 - k)) = x.length - s - sub.length + k := by omega
    rw [this]; exact hb

/-! ### the bracket stack walk -/

/-- If the walk (started with a positive stack) stops at element `n` of the segment, that element
    is the popping character `dec`, and the elements before it push exactly `st - 1` more than
    they pop (`st = 1`: the interior is balanced).  Also the stack never reached 0 earlier. -/
theorem walk_spec (inc dec : Char) (hne : inc ≠ dec) (st : Int) (hst : 1 ≤ st) (i : Nat) (seg : Text)
    (j : Nat) (h : walk inc dec st i seg = some j) :
    ∃ n, j = i + n ∧ seg[n]? = some dec ∧
      st + (seg.take n).count inc - (seg.take n).count dec = 1 ∧
      ∀ k, k < n → 1 ≤ st + (seg.take (k + 1)).count inc - (seg.take (k + 1)).count dec := by
  induction seg generalizing st i with
  | nil => simp [walk] at h
  | cons c cs ih =>
    simp only [walk] at h
    by_cases hci : c = inc
    · -- push
      have hcd : c ≠ dec := fun e => hne (hci ▸ e)
      simp only [hci, if_true] at h
      have hz : ¬ (st + 1 = 0) := by omega
      simp only [hz, if_false] at h
      obtain ⟨n, hj, hn, hbal, hmin⟩ := ih (st + 1) (by omega) (i + 1) h
      refine ⟨n + 1, by omega, by simpa using hn, ?_, ?_⟩
      · simp only [List.take_succ_cons, List.count_cons, hci, beq_self_eq_true, if_true]
        have : (inc == dec) = false := by simpa using hne
        simp only [this]
        simp only [Bool.false_eq_true, if_false, Nat.add_zero]
        omega
      · intro k hk
        cases k with
        | zero =>
          simp only [List.take_succ_cons, List.take_zero, List.count_cons, hci, beq_self_eq_true, if_true]
          have : (inc == dec) = false := by simpa using hne
          simp [this]; omega
        | succ k =>
          have := hmin k (by omega)
          simp only [List.take_succ_cons, List.count_cons, hci, beq_self_eq_true, if_true] at this ⊢
          have hb : (inc == dec) = false := by simpa using hne
          simp only [hb, Bool.false_eq_true, if_false, Nat.add_zero]
          omega
    · simp only [hci, if_false] at h
      by_cases hcd : c = dec
      · -- pop
        simp only [hcd, if_true] at h
        by_cases hz : st - 1 = 0
        · simp only [hz, if_true] at h
          cases h
          exact ⟨0, by omega, by simp [hcd], by simp; omega, by intro k hk; omega⟩
        · simp only [hz, if_false] at h
          obtain ⟨n, hj, hn, hbal, hmin⟩ := ih (st - 1) (by omega) (i + 1) h
          have hb : (dec == inc) = false := by simpa using (fun e => hne e.symm)
          refine ⟨n + 1, by omega, by simpa using hn, ?_, ?_⟩
          · simp only [List.take_succ_cons, List.count_cons, hcd, beq_self_eq_true, if_true, hb,
              Bool.false_eq_true, if_false, Nat.add_zero]
            omega
          · intro k hk
            cases k with
            | zero =>
              simp only [List.take_succ_cons, List.take_zero, List.count_cons, hcd, beq_self_eq_true,
                if_true, hb]
              simp; omega
            | succ k =>
              have := hmin k (by omega)
              simp only [List.take_succ_cons, List.count_cons, hcd, beq_self_eq_true, if_true, hb,
                Bool.false_eq_true, if_false, Nat.add_zero] at this ⊢
              omega
      · -- neither
        simp only [hcd, if_false] at h
        have hz : ¬ (st = 0) := by omega
        simp only [hz, if_false] at h
        obtain ⟨n, hj, hn, hbal, hmin⟩ := ih st hst (i + 1) h
        have hb1 : (c == inc) = false := by simpa using hci
        have hb2 : (c == dec) = false := by simpa using hcd
        refine ⟨n + 1, by omega, by simpa using hn, ?_, ?_⟩
        · simp only [List.take_succ_cons, List.count_cons, hb1, hb2, Bool.false_eq_true, if_false,
            Nat.add_zero]
          exact hbal
        · intro k hk
          cases k with
          | zero =>
            simp only [List.take_succ_cons, List.take_zero, List.count_cons, hb1, hb2]
            simp; omega
          | succ k =>
            have := hmin k (by omega)
            simp only [List.take_succ_cons, List.count_cons, hb1, hb2, Bool.false_eq_true, if_false,
              Nat.add_zero] at this ⊢
            exact this

/-! ### the word-run scanner -/

/-- `[s, e)` is a maximal run of one non-zero class in `T` (= one match of the word regex) -/
def IsRun (cl : Char → Nat) (T : Text) (s e : Nat) : Prop :=
  s < e ∧ ∃ k, k ≠ 0 ∧ (∀ j, s ≤ j → j < e → clsAt cl T j = some k) ∧
    (s = 0 ∨ clsAt cl T (s - 1) ≠ some k) ∧ clsAt cl T e ≠ some k

theorem clsAt_drop (cl : Char → Nat) (T : Text) (n j : Nat) :
    clsAt cl (T.drop n) j = clsAt cl T (n + j) := by
  simp [clsAt, List.getElem?_drop]

theorem clsAt_cons_succ (cl : Char → Nat) (c : Char) (cs : Text) (j : Nat) :
    clsAt cl (c :: cs) (j + 1) = clsAt cl cs j := by
  simp [clsAt]

theorem prefixLen_le (cl : Char → Nat) (k : Nat) (cs : Text) : prefixLen cl k cs ≤ cs.length := by
  induction cs with
  | nil => simp [prefixLen]
  | cons c cs ih => simp only [prefixLen]; split <;> simp <;> omega

theorem prefixLen_spec (cl : Char → Nat) (k : Nat) (cs : Text) :
    (∀ j, j < prefixLen cl k cs → clsAt cl cs j = some k) ∧
    clsAt cl cs (prefixLen cl k cs) ≠ some k := by
  induction cs with
  | nil => simp [prefixLen, clsAt]
  | cons c cs ih =>
    simp only [prefixLen]
    split
    · rename_i hc
      refine ⟨?_, ?_⟩
      · intro j hj
        cases j with
        | zero => simp [clsAt, hc]
        | succ j => rw [clsAt_cons_succ]; exact ih.1 j (by omega)
      · rw [clsAt_cons_succ]; exact ih.2
    · rename_i hc
      refine ⟨by intro j hj; omega, ?_⟩
      simp [clsAt, hc]

theorem runsGo_ge (cl : Char → Nat) (fuel off : Nat) (t : Text) (p : Nat × Nat)
    (h : p ∈ runsGo cl fuel off t) : off ≤ p.1 ∧ p.1 < p.2 := by
  induction fuel generalizing off t with
  | zero => simp [runsGo] at h
  | succ f ih =>
    cases t with
    | nil => simp [runsGo] at h
    | cons c cs =>
      simp only [runsGo] at h
      split at h
      · have := ih _ _ h; omega
      · rcases List.mem_cons.mp h with rfl | h
        · simp; omega
        · have := ih _ _ h; omega

/-- every match reported by the scanner is a maximal run of one non-zero class of the text -/
theorem runsGo_spec (cl : Char → Nat) (T : Text) (fuel off : Nat) (hf : T.length - off ≤ fuel)
    (hpre : off = 0 ∨ ∀ k, k ≠ 0 → clsAt cl T off = some k → clsAt cl T (off - 1) ≠ some k)
    (p : Nat × Nat) (h : p ∈ runsGo cl fuel off (T.drop off)) : IsRun cl T p.1 p.2 := by
  induction fuel generalizing off with
  | zero => simp [runsGo] at h
  | succ f ih =>
    cases hd : T.drop off with
    | nil => rw [hd] at h; simp [runsGo] at h
    | cons c cs =>
      rw [hd] at h
      have hlen : off < T.length := by
        rcases Nat.lt_or_ge off T.length with h | h
        · exact h
        · rw [List.drop_eq_nil_of_le h] at hd; cases hd
      have hc : clsAt cl T off = some (cl c) := by
        have := clsAt_drop cl T off 0
        rw [hd] at this
        simpa [clsAt] using this.symm
      have hcs : ∀ j, clsAt cl cs j = clsAt cl T (off + 1 + j) := by
        intro j
        have := clsAt_drop cl T off (j + 1)
        rw [hd, clsAt_cons_succ] at this
        rw [this]; congr 1; omega
      have hcs' : cs = T.drop (off + 1) := by
        have : (T.drop off).drop 1 = cs := by rw [hd]; rfl
        rw [List.drop_drop] at this; exact this.symm
      simp only [runsGo] at h
      split at h
      · -- class 0: skip one character
        rename_i hz
        rw [hcs'] at h
        refine ih (off + 1) (by omega) (Or.inr ?_) h
        intro k hk _
        simp only [Nat.add_sub_cancel]
        rw [hc, hz]; intro e; exact hk (Option.some.inj e).symm
      · rename_i hz
        have hspec := prefixLen_spec cl (cl c) cs
        have hle := prefixLen_le cl (cl c) cs
        have hcslen : cs.length = T.length - (off + 1) := by rw [hcs']; simp
        rcases List.mem_cons.mp h with rfl | h
        · -- the run that starts here
          refine ⟨by simp; omega, cl c, hz, ?_, ?_, ?_⟩
          · intro j hj1 hj2
            simp only at hj1 hj2
            rcases Nat.eq_or_lt_of_le hj1 with rfl | hlt
            · exact hc
            · have := hspec.1 (j - off - 1) (by omega)
              rw [hcs] at this
              have e : off + 1 + (j - off - 1) = j := by omega
              rw [e] at this; exact this
          · rcases hpre with h0 | hp
            · exact Or.inl h0
            · exact Or.inr (hp (cl c) hz hc)
          · have := hspec.2
            rw [hcs] at this
            exact this
        · -- later runs
          have hdrop : cs.drop (prefixLen cl (cl c) cs) = T.drop (off + 1 + prefixLen cl (cl c) cs) := by
            rw [hcs', List.drop_drop]
          rw [hdrop] at h
          refine ih (off + 1 + prefixLen cl (cl c) cs) (by omega) (Or.inr ?_) h
          intro k hk hkc
          -- the previous character belongs to the run of class `cl c`, the next one does not
          have hprev : clsAt cl T (off + 1 + prefixLen cl (cl c) cs - 1) = some (cl c) := by
            rcases Nat.eq_zero_or_pos (prefixLen cl (cl c) cs) with h0 | hpos
            · rw [h0]; simpa using hc
            · have := hspec.1 (prefixLen cl (cl c) cs - 1) (by omega)
              rw [hcs] at this
              have e : off + 1 + (prefixLen cl (cl c) cs - 1) = off + 1 + prefixLen cl (cl c) cs - 1 := by omega
              rw [e] at this; exact this
          rw [hprev]
          intro e
          have hnext := hspec.2
          rw [hcs, hkc] at hnext
          exact hnext (by rw [Option.some.inj e])

theorem runs_spec (cl : Char → Nat) (T : Text) (p : Nat × Nat) (h : p ∈ runs cl T) :
    IsRun cl T p.1 p.2 := by
  have : runs cl T = runsGo cl T.length 0 (T.drop 0) := by simp [runs]
  rw [this] at h
  exact runsGo_spec cl T T.length 0 (by omega) (Or.inl rfl) p h

/-- only the first match can start at position 0 -/
theorem runs_later_pos (cl : Char → Nat) (T : Text) (j : Nat) (hj : 1 ≤ j) (p : Nat × Nat)
    (h : (runs cl T)[j]? = some p) : 1 ≤ p.1 := by
  unfold runs at h
  cases T with
  | nil => simp [runsGo] at h
  | cons c cs =>
    simp only [List.length_cons, runsGo] at h
    split at h
    · exact (runsGo_ge cl _ _ _ p (List.mem_of_getElem? h)).1
    · obtain ⟨j', rfl⟩ : ∃ j', j = j' + 1 := ⟨j - 1, by omega⟩
      rw [List.getElem?_cons_succ] at h
      have := (runsGo_ge cl _ _ _ p (List.mem_of_getElem? h)).1
      omega

/-- with the "skip the word we are on" adjustment, a positive count never selects a match at 0 -/
theorem nth_adjust_pos (cl : Char → Nat) (T : Text) (count : Int) (hc : 1 ≤ count) (p : Nat × Nat)
    (h : nth (runs cl T) (adjustCount (runs cl T) count) = some p) : 1 ≤ p.1 := by
  obtain ⟨h1, h2⟩ := nth_index h
  rcases hrs : runs cl T with _ | ⟨⟨s, e⟩, rest⟩
  · rw [hrs] at h2; simp at h2
  · cases s with
    | zero =>
      have ha : adjustCount (runs cl T) count = count + 1 := by rw [hrs]; rfl
      rw [ha] at h2
      exact runs_later_pos cl T _ (by omega) p h2
    | succ s =>
      have ha : adjustCount (runs cl T) count = count := by rw [hrs]; rfl
      rw [ha] at h2
      rcases Nat.eq_zero_or_pos (count - 1).toNat with h0 | hpos
      · rw [h0, hrs] at h2
        simp at h2; subst h2; simp
      · exact runs_later_pos cl T _ hpos p h2

end Ptk.C02
