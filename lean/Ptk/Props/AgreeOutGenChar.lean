/-
  Cross-model agreement, cluster "Output side" — pair (1) on the REGENERATED tables: the character classes the C11
  driver runs with (`Ptk.C11.genW`: `Gen.C11.rawWidth`, `Gen.C11.display`) vs the ones the C10 driver runs with
  (`Ptk.C10.genTable`, `Ptk.C10.genWc`, `Gen.C10.isPrintable`).  These discharge the hypotheses of the parametric
  theorems of `Ptk.Props.AgreeOutChar` / `AgreeOutCopy` (`WRel.hdisp`, `WRel.hrw`, `PrintableUnmapped`):

    gen_hdisp          `Char.display_mappings` / `Char.__init__`: same displayed string for EVERY character
    gen_hpr            no printable character has a display mapping (the fast path of `get_display_width`)
    gen_hrw_scanned    `get_cwidth` of one character: equal on every code point of `Gen.C11.scanned`
                       (kernel-checked by a linear walk over the sorted range tables, `go` / `go_sound`)
    gen_hrw_outside_scanned   … and NOT equal outside: C11's width table is only scanned on those ranges
                       (U+3105: wcwidth 2, C11 table 1; the real `get_cwidth` says 2)
-/
import Ptk.Model.C10Gen
import Ptk.Model.C11W
namespace Ptk.AgreeOut.GenChar
open Ptk Ptk.Py

/-! ### `Char.display_mappings` -/

theorem gen_display_tables :
    Gen.C10.displayMappings = Gen.C11.displayMappings.map (fun p => ([p.1], p.2)) := by decide

theorem gen_display_values_valid :
    (Gen.C11.displayMappings.all fun p => (p.2.map Char.ofNat).map Char.toNat == p.2) = true := by decide

theorem lookup_single (l : List (Nat × List Nat)) (k : Nat) :
    C10.lookup (l.map fun p => ([p.1], p.2)) [k] = (l.find? fun p => p.1 == k).map (·.2) := by
  induction l with
  | nil => rfl
  | cons p rest ih =>
    simp only [List.map_cons, C10.lookup, List.find?_cons, ih]
    by_cases h : p.1 = k
    · simp [h]
    · have : (p.1 == k) = false := by simpa using h
      simp [h, this]

-- layout/screen.py::Char.display_mappings / Char.__init__ — the generated `Gen.C11.display` (C11's `disp`) vs the
-- generated table of C10 looked up as `Char.__init__` does
theorem gen_hdisp (c : Char) :
    (Gen.C11.display c).map Char.toNat = (C10.lookup C10.genTable [c.toNat]).getD [c.toNat] := by
  unfold Gen.C11.display C10.genTable
  rw [gen_display_tables, lookup_single]
  cases h : Gen.C11.displayMappings.find? (fun p => p.1 == c.toNat) with
  | none => simp
  | some p =>
    have hv := gen_display_values_valid
    rw [List.all_eq_true] at hv
    have := hv p (List.mem_of_find?_eq_some h)
    simpa using this


/-! ### no printable character has a display mapping (`get_display_width`'s fast path agrees with the table) -/

theorem gen_keys_nonprintable :
    (C10.genTable.all fun kv => match kv.1 with | [k] => !Gen.C10.isPrintable k | _ => true) = true := by
  decide +kernel

theorem lookup_mem (m : C10.Table) (s v : List Nat) (h : C10.lookup m s = some v) : (s, v) ∈ m := by
  induction m with
  | nil => simp [C10.lookup] at h
  | cons kv rest ih =>
    obtain ⟨k, w⟩ := kv
    simp only [C10.lookup] at h
    by_cases hk : k = s
    · simp only [hk, if_true, Option.some.injEq] at h; subst h; subst hk; exact List.mem_cons_self
    · simp only [hk, if_false] at h; exact List.mem_cons_of_mem _ (ih h)

-- layout/screen.py::get_display_width — side condition `hpr` on the regenerated tables
theorem gen_hpr (n : Nat) (h : Gen.C10.isPrintable n = true) : C10.lookup C10.genTable [n] = none := by
  cases hl : C10.lookup C10.genTable [n] with
  | none => rfl
  | some v =>
    have hall := gen_keys_nonprintable
    rw [List.all_eq_true] at hall
    have := hall _ (lookup_mem _ _ _ hl)
    simp [h] at this

/-! ### `get_cwidth` on the code points C11's width table was scanned on -/

def inR (rs : List (Nat × Nat)) (n : Nat) : Bool := rs.any fun (a, b) => a ≤ n && n ≤ b

def rawWidthN (n : Nat) : Nat :=
  if inR Gen.C11.zeroWidthRanges n then 0 else if inR Gen.C11.wideRanges n then 2 else 1

theorem rawWidth_eq (c : Char) : Gen.C11.rawWidth c = rawWidthN c.toNat := rfl

/-! A linear checker: walk the code points upwards, dropping the ranges that ended; sound for tables sorted by start. -/

/-- starts are non-decreasing -/
def sortedB : List (Nat × Nat) → Bool
  | [] => true
  | [_] => true
  | (a, _) :: (a', b') :: rest => Nat.ble a a' && sortedB ((a', b') :: rest)

/-- drop the leading ranges that end before `n` -/
def dropDead : List (Nat × Nat) → Nat → List (Nat × Nat)
  | [], _ => []
  | (a, b) :: rest, n => if Nat.blt b n then dropDead rest n else (a, b) :: rest

/-- membership with early exit (sorted tables) -/
def inRE : List (Nat × Nat) → Nat → Bool
  | [], _ => false
  | (a, b) :: rest, n => if Nat.blt n a then false else (Nat.ble n b || inRE rest n)

/-- drop the leading well-formed ranges that end before `n` -/
def dropDeadC : List (Nat × Nat × Int) → Nat → List (Nat × Nat × Int)
  | [], _ => []
  | (a, b, w) :: rest, n => if Nat.blt b n && Nat.ble a b then dropDeadC rest n else (a, b, w) :: rest

/-- evaluate the list to constructor form before going on (keeps the kernel from re-evaluating it) -/
def forceL {α β : Type} (l : List α) (k : List α → β) : β :=
  match l with
  | [] => k []
  | x :: xs => k (x :: xs)

theorem forceL_eq {α β : Type} (l : List α) (k : List α → β) : forceL l k = k l := by
  cases l <;> rfl

def go : List (Nat × Nat) → List (Nat × Nat) → List (Nat × Nat × Int) → Nat → Nat → Bool
  | _, _, _, _, 0 => true
  | z, w, c, n, k + 1 =>
    forceL (dropDead z n) fun z' => forceL (dropDead w n) fun w' => forceL (dropDeadC c n) fun c' =>
      ((if inRE z' n then 0 else if inRE w' n then 2 else 1) == (Gen.C10.wcFind c' n).toNat) && go z' w' c' (n + 1) k

theorem sortedB_tail (r : Nat × Nat) (rs : List (Nat × Nat)) (h : sortedB (r :: rs) = true) : sortedB rs = true := by
  cases rs with
  | nil => rfl
  | cons r' rest =>
    obtain ⟨a, b⟩ := r; obtain ⟨a', b'⟩ := r'
    simp only [sortedB, Bool.and_eq_true] at h; exact h.2

theorem sortedB_head_le (r : Nat × Nat) (rs : List (Nat × Nat)) (h : sortedB (r :: rs) = true) :
    ∀ q ∈ rs, r.1 ≤ q.1 := by
  induction rs generalizing r with
  | nil => intro q hq; simp at hq
  | cons r' rest ih =>
    obtain ⟨a, b⟩ := r; obtain ⟨a', b'⟩ := r'
    simp only [sortedB, Bool.and_eq_true, Nat.ble_eq] at h
    intro q hq
    rcases List.mem_cons.mp hq with e | hq'
    · subst e; exact h.1
    · exact Nat.le_trans h.1 (ih (a', b') h.2 q hq')

theorem inR_false_of_lt (rs : List (Nat × Nat)) (n : Nat) (h : ∀ q ∈ rs, n < q.1) : inR rs n = false := by
  unfold inR
  rw [List.any_eq_false]
  intro q hq
  have := h q hq
  obtain ⟨a, b⟩ := q
  simp only [Bool.and_eq_true, decide_eq_true_eq, not_and]
  intro h1; exact absurd h1 (by simp only [] at this; omega)

theorem inRE_eq (rs : List (Nat × Nat)) (n : Nat) (h : sortedB rs = true) : inRE rs n = inR rs n := by
  induction rs with
  | nil => rfl
  | cons r rest ih =>
    obtain ⟨a, b⟩ := r
    have ih' := ih (sortedB_tail _ _ h)
    simp only [inRE]
    by_cases h1 : n < a
    · have hb : Nat.blt n a = true := by simpa [Nat.blt_eq] using h1
      simp only [hb, if_true]
      symm
      apply inR_false_of_lt
      intro q hq
      rcases List.mem_cons.mp hq with e | hq'
      · subst e; exact h1
      · exact Nat.lt_of_lt_of_le h1 (sortedB_head_le _ _ h q hq')
    · have hb : Nat.blt n a = false := by
        cases hx : Nat.blt n a with
        | false => rfl
        | true => exact absurd (by simpa [Nat.blt_eq] using hx) h1
      simp only [hb, Bool.false_eq_true, if_false, ih']
      unfold inR
      simp only [List.any_cons]
      have : decide (a ≤ n) = true := by simpa using Nat.le_of_not_lt h1
      simp only [this, Bool.true_and]
      cases hx : Nat.ble n b
      · have hn : ¬ n ≤ b := fun hle => by rw [Nat.ble_eq_true_of_le hle] at hx; exact Bool.noConfusion hx
        simp [hn]
      · have hn : n ≤ b := Nat.le_of_ble_eq_true hx
        simp [hn]

theorem dropDead_inR (rs : List (Nat × Nat)) (n m : Nat) (h : n ≤ m) : inR (dropDead rs n) m = inR rs m := by
  induction rs with
  | nil => rfl
  | cons r rest ih =>
    obtain ⟨a, b⟩ := r
    simp only [dropDead]
    by_cases hb : b < n
    · have : Nat.blt b n = true := by simpa [Nat.blt_eq] using hb
      simp only [this, if_true, ih]
      unfold inR
      simp only [List.any_cons]
      have : decide (m ≤ b) = false := by simpa using (by omega : b < m)
      simp [this]
    · have : Nat.blt b n = false := by
        cases hx : Nat.blt b n with
        | false => rfl
        | true => exact absurd (by simpa [Nat.blt_eq] using hx) hb
      simp [this]

theorem dropDead_sorted (rs : List (Nat × Nat)) (n : Nat) (h : sortedB rs = true) : sortedB (dropDead rs n) = true := by
  induction rs with
  | nil => rfl
  | cons r rest ih =>
    obtain ⟨a, b⟩ := r
    simp only [dropDead]
    split
    · exact ih (sortedB_tail _ _ h)
    · exact h

theorem dropDeadC_wcFind (rs : List (Nat × Nat × Int)) (n m : Nat) (h : n ≤ m) :
    Gen.C10.wcFind (dropDeadC rs n) m = Gen.C10.wcFind rs m := by
  induction rs with
  | nil => rfl
  | cons r rest ih =>
    obtain ⟨a, b, w⟩ := r
    simp only [dropDeadC]
    by_cases hb : b < n ∧ a ≤ b
    · have : (Nat.blt b n && Nat.ble a b) = true := by simp [Nat.blt_eq, Nat.ble_eq, hb.1, hb.2]
      simp only [this, if_true, ih, Gen.C10.wcFind]
      have h1 : ¬ m < a := by omega
      have h2 : ¬ m ≤ b := by omega
      simp [h1, h2]
    · have : (Nat.blt b n && Nat.ble a b) = false := by
        cases hx : (Nat.blt b n && Nat.ble a b) with
        | false => rfl
        | true =>
          simp only [Bool.and_eq_true, Nat.blt_eq, Nat.ble_eq] at hx
          exact absurd hx hb
      simp [this]

theorem go_sound (z0 w0 : List (Nat × Nat)) (c0 : List (Nat × Nat × Int)) :
    ∀ (k n : Nat) (z w : List (Nat × Nat)) (c : List (Nat × Nat × Int)),
    sortedB z = true → sortedB w = true →
    (∀ m, n ≤ m → inR z m = inR z0 m) → (∀ m, n ≤ m → inR w m = inR w0 m) →
    (∀ m, n ≤ m → Gen.C10.wcFind c m = Gen.C10.wcFind c0 m) →
    go z w c n k = true →
    ∀ m, n ≤ m → m < n + k →
      (if inR z0 m then 0 else if inR w0 m then 2 else 1) = (Gen.C10.wcFind c0 m).toNat := by
  intro k
  induction k with
  | zero => intro n z w c _ _ _ _ _ _ m h1 h2; omega
  | succ k ih =>
    intro n z w c sz sw hz hw hc hgo m h1 h2
    simp only [go, forceL_eq, Bool.and_eq_true, beq_iff_eq] at hgo
    have sz' := dropDead_sorted z n sz
    have sw' := dropDead_sorted w n sw
    by_cases hm : m = n
    · subst hm
      have := hgo.1
      rw [inRE_eq _ _ sz', inRE_eq _ _ sw', dropDead_inR _ _ _ (Nat.le_refl _), dropDead_inR _ _ _ (Nat.le_refl _),
        dropDeadC_wcFind _ _ _ (Nat.le_refl _), hz m (Nat.le_refl _), hw m (Nat.le_refl _), hc m (Nat.le_refl _)] at this
      exact this
    · exact ih (n + 1) _ _ _ sz' sw'
        (fun m' hm' => by rw [dropDead_inR _ _ _ (by omega), hz m' (by omega)])
        (fun m' hm' => by rw [dropDead_inR _ _ _ (by omega), hw m' (by omega)])
        (fun m' hm' => by rw [dropDeadC_wcFind _ _ _ (by omega), hc m' (by omega)])
        hgo.2 m (by omega) (by omega)

/-- the check for one range `[lo, hi)` of code points, on the regenerated tables -/
def rangeOk (lo hi : Nat) : Bool :=
  go Gen.C11.zeroWidthRanges Gen.C11.wideRanges Gen.C10.wcRanges lo (hi - lo)

theorem gen_tables_sorted : sortedB Gen.C11.zeroWidthRanges = true ∧ sortedB Gen.C11.wideRanges = true := by
  decide +kernel

theorem rangeOk_sound (lo hi : Nat) (h : rangeOk lo hi = true) (n : Nat) (h1 : lo ≤ n) (h2 : n < hi) :
    rawWidthN n = (Gen.C10.wcwidth n).toNat :=
  go_sound _ _ _ (hi - lo) lo _ _ _ gen_tables_sorted.1 gen_tables_sorted.2 (fun _ _ => rfl) (fun _ _ => rfl)
    (fun _ _ => rfl) h n h1 (by omega)

set_option maxRecDepth 1000000 in
theorem gen_widths_scanned_ok : (Gen.C11.scanned.all fun r => rangeOk r.1 r.2) = true := by decide +kernel

/-- a code point of the ranges C11's width table was scanned on (half open) -/
def inScanned (n : Nat) : Prop := ∃ r ∈ Gen.C11.scanned, r.1 ≤ n ∧ n < r.2

-- utils.py::get_cwidth (one character) — the generated `Gen.C11.rawWidth` (C11's `rw`) vs `max(0, wcwidth)` of the
-- generated `Gen.C10.wcwidth` (C10's `wc`), on every scanned code point
theorem gen_hrw_scanned (c : Char) (h : inScanned c.toNat) :
    C11.genW.rw c = (C10.genWc c.toNat).toNat := by
  obtain ⟨r, hr, h1, h2⟩ := h
  have hall := gen_widths_scanned_ok
  rw [List.all_eq_true] at hall
  exact rangeOk_sound r.1 r.2 (hall r hr) c.toNat h1 h2

-- outside the scanned ranges the two generated width tables DISAGREE: U+3105 (BOPOMOFO LETTER B) is wide for
-- `wcwidth` (C10: 2), C11's table, scanned only on `Gen.C11.scanned`, says 1
theorem gen_hrw_outside_scanned :
    C11.genW.rw (Char.ofNat 0x3105) = 1 ∧ (C10.genWc (Char.ofNat 0x3105).toNat).toNat = 2 := by
  decide +kernel

end Ptk.AgreeOut.GenChar
