/-
  Cross-model agreement, cluster "Output side" — pair (1) on the REGENERATED tables: the character classes the C11
  driver runs with (`Ptk.C11.genW`: `Gen.C11.rawWidth`, `Gen.C11.display`) vs the ones the C10 driver runs with
  (`Ptk.C10.genTable`, `Ptk.C10.genWc`, `Gen.C10.isPrintable`).  These discharge the hypotheses of the parametric
  theorems of `Ptk.Props.AgreeOutChar` / `AgreeOutCopy` (`WRel`, `PrintableUnmapped`):

    gen_hdisp          `Char.display_mappings` / `Char.__init__`: same displayed string for EVERY character
    gen_hpr            no printable character has a display mapping (the fast path of `get_display_width`)
    gen_hrw            `get_cwidth` of one character: the two width tables agree on EVERY code point (< 0x110000),
                       kernel-checked by a piecewise walk over the sorted range tables (`goP` / `goP_sound`: one step
                       per maximal interval on which both tables are constant, ~2000 steps)
    genW_WRel          hence `WRel C11.genW C10.genTable C10.genWc`, and `copyBody_agree_gen`: `copyBody_agree`
                       instantiated with the regenerated character classes, for all texts

  History: until C11's generated width table was repaired (it used to be scanned on `Gen.C11.scanned` only), `gen_hrw`
  held on the scanned ranges only and `gen_hrw_outside_scanned` was a witness of the disagreement at U+3105.
-/
import Ptk.Model.C10Gen
import Ptk.Model.C11W
import Ptk.Props.AgreeOutCopy
namespace Ptk.AgreeOut.GenChar
open Ptk Ptk.Py

/-! ### `Char.display_mappings` -/

theorem gen_display_tables :
    Gen.C10.displayMappings = Gen.C11.displayMappings.map (fun p => ([p.1], p.2)) := by decide

theorem gen_display_values_valid :
    (Gen.C11.displayMappings.all fun p => (p.2.map Char.ofNat).map Char.toNat == p.2) = true := by decide

theorem lookup_single (l : List (Nat × List Nat)) (k : Nat) :
    C10.lookup (l.map fun p => ([p.1], p.2)) [k] = (l.find? fun p => p.1 == k).map (·.2) := by
  induction l with
  | nil => rfl
  | cons p rest ih =>
    simp only [List.map_cons, C10.lookup, List.find?_cons, ih]
    by_cases h : p.1 = k
    · simp [h]
    · have : (p.1 == k) = false := by simpa using h
      simp [h, this]

-- layout/screen.py::Char.display_mappings / Char.__init__ — the generated `Gen.C11.display` (C11's `disp`) vs the
-- generated table of C10 looked up as `Char.__init__` does
theorem gen_hdisp (c : Char) :
    (Gen.C11.display c).map Char.toNat = (C10.lookup C10.genTable [c.toNat]).getD [c.toNat] := by
  unfold Gen.C11.display C10.genTable
  rw [gen_display_tables, lookup_single]
  cases h : Gen.C11.displayMappings.find? (fun p => p.1 == c.toNat) with
  | none => simp
  | some p =>
    have hv := gen_display_values_valid
    rw [List.all_eq_true] at hv
    have := hv p (List.mem_of_find?_eq_some h)
    simpa using this


/-! ### no printable character has a display mapping (`get_display_width`'s fast path agrees with the table) -/

theorem gen_keys_nonprintable :
    (C10.genTable.all fun kv => match kv.1 with | [k] => !Gen.C10.isPrintable k | _ => true) = true := by
  decide +kernel

theorem lookup_mem (m : C10.Table) (s v : List Nat) (h : C10.lookup m s = some v) : (s, v) ∈ m := by
  induction m with
  | nil => simp [C10.lookup] at h
  | cons kv rest ih =>
    obtain ⟨k, w⟩ := kv
    simp only [C10.lookup] at h
    by_cases hk : k = s
    · simp only [hk, if_true, Option.some.injEq] at h; subst h; subst hk; exact List.mem_cons_self
    · simp only [hk, if_false] at h; exact List.mem_cons_of_mem _ (ih h)

-- layout/screen.py::get_display_width — side condition `hpr` on the regenerated tables
theorem gen_hpr (n : Nat) (h : Gen.C10.isPrintable n = true) : C10.lookup C10.genTable [n] = none := by
  cases hl : C10.lookup C10.genTable [n] with
  | none => rfl
  | some v =>
    have hall := gen_keys_nonprintable
    rw [List.all_eq_true] at hall
    have := hall _ (lookup_mem _ _ _ hl)
    simp [h] at this

/-! ### `get_cwidth` on the code points C11's width table was scanned on -/

def inR (rs : List (Nat × Nat)) (n : Nat) : Bool := rs.any fun (a, b) => a ≤ n && n ≤ b

def rawWidthN (n : Nat) : Nat :=
  if inR Gen.C11.zeroWidthRanges n then 0 else if inR Gen.C11.wideRanges n then 2 else 1

theorem rawWidth_eq (c : Char) : Gen.C11.rawWidth c = rawWidthN c.toNat := rfl

/-! A piecewise checker: walk upwards over the maximal intervals on which all three range tables are constant,
    dropping the ranges that ended; sound for membership tables sorted by start. -/

/-- starts are non-decreasing -/
def sortedB : List (Nat × Nat) → Bool
  | [] => true
  | [_] => true
  | (a, _) :: (a', b') :: rest => Nat.ble a a' && sortedB ((a', b') :: rest)

/-- drop the leading ranges that end before `n` -/
def dropDead : List (Nat × Nat) → Nat → List (Nat × Nat)
  | [], _ => []
  | (a, b) :: rest, n => if Nat.blt b n then dropDead rest n else (a, b) :: rest

/-- drop the leading well-formed ranges that end before `n` -/
def dropDeadC : List (Nat × Nat × Int) → Nat → List (Nat × Nat × Int)
  | [], _ => []
  | (a, b, w) :: rest, n => if Nat.blt b n && Nat.ble a b then dropDeadC rest n else (a, b, w) :: rest

/-- evaluate the list to constructor form before going on (keeps the kernel from re-evaluating it) -/
def forceL {α β : Type} (l : List α) (k : List α → β) : β :=
  match l with
  | [] => k []
  | x :: xs => k (x :: xs)

theorem forceL_eq {α β : Type} (l : List α) (k : List α → β) : forceL l k = k l := by
  cases l <;> rfl

/-- membership of `n` in a sorted table whose dead ranges were dropped, and the end (exclusive, capped by `hi`) of the
    interval from `n` on which membership stays the same; `none`: the head range is neither ahead nor around `n` -/
def pieceZ (hi : Nat) : List (Nat × Nat) → Nat → Option (Bool × Nat)
  | [], _ => some (false, hi)
  | (a, b) :: _, n => if Nat.blt n a then some (false, a) else if Nat.ble n b then some (true, b + 1) else none

/-- the same for `wcFind` -/
def pieceC (hi : Nat) : List (Nat × Nat × Int) → Nat → Option (Int × Nat)
  | [], _ => some (1, hi)
  | (a, b, w) :: _, n => if Nat.blt n a then some (1, a) else if Nat.ble n b then some (w, b + 1) else none

def goP (hi : Nat) : Nat → List (Nat × Nat) → List (Nat × Nat) → List (Nat × Nat × Int) → Nat → Bool
  | 0, _, _, _, n => Nat.ble hi n
  | fuel + 1, z, w, c, n =>
    if Nat.ble hi n then true else
    forceL (dropDead z n) fun z' => forceL (dropDead w n) fun w' => forceL (dropDeadC c n) fun c' =>
      match pieceZ hi z' n, pieceZ hi w' n, pieceC hi c' n with
      | some (vz, ez), some (vw, ew), some (vc, ec) =>
        ((if vz then 0 else if vw then 2 else 1) == vc.toNat) && goP hi fuel z' w' c' (min ez (min ew ec))
      | _, _, _ => false

theorem blt_false {a b : Nat} (h : ¬ a < b) : Nat.blt a b = false := by
  cases hx : Nat.blt a b with
  | false => rfl
  | true => exact absurd (by simpa [Nat.blt_eq] using hx) h

theorem ble_false {a b : Nat} (h : ¬ a ≤ b) : Nat.ble a b = false := by
  cases hx : Nat.ble a b with
  | false => rfl
  | true => exact absurd (Nat.le_of_ble_eq_true hx) h

theorem blt_true {a b : Nat} (h : a < b) : Nat.blt a b = true := by simpa [Nat.blt_eq] using h

theorem sortedB_tail (r : Nat × Nat) (rs : List (Nat × Nat)) (h : sortedB (r :: rs) = true) : sortedB rs = true := by
  cases rs with
  | nil => rfl
  | cons r' rest =>
    obtain ⟨a, b⟩ := r; obtain ⟨a', b'⟩ := r'
    simp only [sortedB, Bool.and_eq_true] at h; exact h.2

theorem sortedB_head_le (r : Nat × Nat) (rs : List (Nat × Nat)) (h : sortedB (r :: rs) = true) :
    ∀ q ∈ rs, r.1 ≤ q.1 := by
  induction rs generalizing r with
  | nil => intro q hq; simp at hq
  | cons r' rest ih =>
    obtain ⟨a, b⟩ := r; obtain ⟨a', b'⟩ := r'
    simp only [sortedB, Bool.and_eq_true, Nat.ble_eq] at h
    intro q hq
    rcases List.mem_cons.mp hq with e | hq'
    · subst e; exact h.1
    · exact Nat.le_trans h.1 (ih (a', b') h.2 q hq')

theorem inR_false_of_lt (rs : List (Nat × Nat)) (n : Nat) (h : ∀ q ∈ rs, n < q.1) : inR rs n = false := by
  unfold inR
  rw [List.any_eq_false]
  intro q hq
  have := h q hq
  obtain ⟨a, b⟩ := q
  simp only [Bool.and_eq_true, decide_eq_true_eq, not_and]
  intro h1; exact absurd h1 (by simp only [] at this; omega)

theorem dropDead_inR (rs : List (Nat × Nat)) (n m : Nat) (h : n ≤ m) : inR (dropDead rs n) m = inR rs m := by
  induction rs with
  | nil => rfl
  | cons r rest ih =>
    obtain ⟨a, b⟩ := r
    simp only [dropDead]
    by_cases hb : b < n
    · simp only [blt_true hb, if_true, ih]
      unfold inR
      simp only [List.any_cons]
      have : decide (m ≤ b) = false := by simpa using (by omega : b < m)
      simp [this]
    · simp [blt_false hb]

theorem dropDead_sorted (rs : List (Nat × Nat)) (n : Nat) (h : sortedB rs = true) : sortedB (dropDead rs n) = true := by
  induction rs with
  | nil => rfl
  | cons r rest ih =>
    obtain ⟨a, b⟩ := r
    simp only [dropDead]
    split
    · exact ih (sortedB_tail _ _ h)
    · exact h

theorem dropDeadC_wcFind (rs : List (Nat × Nat × Int)) (n m : Nat) (h : n ≤ m) :
    Gen.C10.wcFind (dropDeadC rs n) m = Gen.C10.wcFind rs m := by
  induction rs with
  | nil => rfl
  | cons r rest ih =>
    obtain ⟨a, b, w⟩ := r
    simp only [dropDeadC]
    by_cases hb : b < n ∧ a ≤ b
    · have : (Nat.blt b n && Nat.ble a b) = true := by simp [Nat.blt_eq, Nat.ble_eq, hb.1, hb.2]
      simp only [this, if_true, ih, Gen.C10.wcFind]
      have h1 : ¬ m < a := by omega
      have h2 : ¬ m ≤ b := by omega
      simp [h1, h2]
    · have : (Nat.blt b n && Nat.ble a b) = false := by
        cases hx : (Nat.blt b n && Nat.ble a b) with
        | false => rfl
        | true =>
          simp only [Bool.and_eq_true, Nat.blt_eq, Nat.ble_eq] at hx
          exact absurd hx hb
      simp [this]

theorem pieceZ_sound (hi : Nat) (z : List (Nat × Nat)) (n : Nat) (v : Bool) (e : Nat) (hs : sortedB z = true)
    (hn : n < hi) (h : pieceZ hi z n = some (v, e)) : n < e ∧ ∀ m, n ≤ m → m < e → inR z m = v := by
  cases z with
  | nil =>
    simp only [pieceZ, Option.some.injEq, Prod.mk.injEq] at h
    obtain ⟨rfl, rfl⟩ := h
    exact ⟨hn, fun _ _ _ => rfl⟩
  | cons r rest =>
    obtain ⟨a, b⟩ := r
    simp only [pieceZ] at h
    by_cases h1 : n < a
    · simp only [blt_true h1, if_true, Option.some.injEq, Prod.mk.injEq] at h
      obtain ⟨rfl, rfl⟩ := h
      refine ⟨h1, fun m _ hm => inR_false_of_lt _ _ ?_⟩
      intro q hq
      rcases List.mem_cons.mp hq with e | hq'
      · subst e; exact hm
      · exact Nat.lt_of_lt_of_le hm (sortedB_head_le _ _ hs q hq')
    · simp only [blt_false h1, Bool.false_eq_true, if_false] at h
      by_cases h2 : n ≤ b
      · simp only [Nat.ble_eq_true_of_le h2, if_true, Option.some.injEq, Prod.mk.injEq] at h
        obtain ⟨rfl, rfl⟩ := h
        refine ⟨by omega, fun m hm1 hm2 => ?_⟩
        unfold inR
        simp only [List.any_cons]
        have e1 : decide (a ≤ m) = true := by simpa using (by omega : a ≤ m)
        have e2 : decide (m ≤ b) = true := by simpa using (by omega : m ≤ b)
        simp [e1, e2]
      · simp [ble_false h2] at h

theorem pieceC_sound (hi : Nat) (c : List (Nat × Nat × Int)) (n : Nat) (v : Int) (e : Nat)
    (hn : n < hi) (h : pieceC hi c n = some (v, e)) : n < e ∧ ∀ m, n ≤ m → m < e → Gen.C10.wcFind c m = v := by
  cases c with
  | nil =>
    simp only [pieceC, Option.some.injEq, Prod.mk.injEq] at h
    obtain ⟨rfl, rfl⟩ := h
    exact ⟨hn, fun _ _ _ => rfl⟩
  | cons r rest =>
    obtain ⟨a, b, w⟩ := r
    simp only [pieceC] at h
    by_cases h1 : n < a
    · simp only [blt_true h1, if_true, Option.some.injEq, Prod.mk.injEq] at h
      obtain ⟨rfl, rfl⟩ := h
      refine ⟨h1, fun m _ hm => ?_⟩
      simp [Gen.C10.wcFind, hm]
    · simp only [blt_false h1, Bool.false_eq_true, if_false] at h
      by_cases h2 : n ≤ b
      · simp only [Nat.ble_eq_true_of_le h2, if_true, Option.some.injEq, Prod.mk.injEq] at h
        obtain ⟨rfl, rfl⟩ := h
        refine ⟨by omega, fun m hm1 hm2 => ?_⟩
        have e1 : ¬ m < a := by omega
        have e2 : m ≤ b := by omega
        simp [Gen.C10.wcFind, e1, e2]
      · simp [ble_false h2] at h

theorem goP_sound (hi : Nat) (z0 w0 : List (Nat × Nat)) (c0 : List (Nat × Nat × Int)) :
    ∀ (fuel n : Nat) (z w : List (Nat × Nat)) (c : List (Nat × Nat × Int)),
    sortedB z = true → sortedB w = true →
    (∀ m, n ≤ m → inR z m = inR z0 m) → (∀ m, n ≤ m → inR w m = inR w0 m) →
    (∀ m, n ≤ m → Gen.C10.wcFind c m = Gen.C10.wcFind c0 m) →
    goP hi fuel z w c n = true →
    ∀ m, n ≤ m → m < hi →
      (if inR z0 m then 0 else if inR w0 m then 2 else 1) = (Gen.C10.wcFind c0 m).toNat := by
  intro fuel
  induction fuel with
  | zero =>
    intro n z w c _ _ _ _ _ hgo m h1 h2
    simp only [goP] at hgo
    have := Nat.le_of_ble_eq_true hgo
    omega
  | succ fuel ih =>
    intro n z w c sz sw hz hw hc hgo m h1 h2
    simp only [goP, forceL_eq] at hgo
    have hn : n < hi := by omega
    simp only [ble_false (by omega : ¬ hi ≤ n), Bool.false_eq_true, if_false] at hgo
    have sz' := dropDead_sorted z n sz
    have sw' := dropDead_sorted w n sw
    cases hpz : pieceZ hi (dropDead z n) n with
    | none => simp [hpz] at hgo
    | some pz =>
    cases hpw : pieceZ hi (dropDead w n) n with
    | none => simp [hpz, hpw] at hgo
    | some pw =>
    cases hpc : pieceC hi (dropDeadC c n) n with
    | none => simp [hpz, hpw, hpc] at hgo
    | some pc =>
    obtain ⟨vz, ez⟩ := pz; obtain ⟨vw, ew⟩ := pw; obtain ⟨vc, ec⟩ := pc
    simp only [hpz, hpw, hpc, Bool.and_eq_true, beq_iff_eq] at hgo
    obtain ⟨lz, cz⟩ := pieceZ_sound hi _ n vz ez sz' hn hpz
    obtain ⟨lw, cw⟩ := pieceZ_sound hi _ n vw ew sw' hn hpw
    obtain ⟨lc, cc⟩ := pieceC_sound hi _ n vc ec hn hpc
    by_cases hm : m < min ez (min ew ec)
    · have m1 : m < ez := by omega
      have m2 : m < ew := by omega
      have m3 : m < ec := by omega
      rw [← hz m h1, ← hw m h1, ← hc m h1, ← dropDead_inR z n m h1, ← dropDead_inR w n m h1,
        ← dropDeadC_wcFind c n m h1, cz m h1 m1, cw m h1 m2, cc m h1 m3]
      exact hgo.1
    · exact ih (min ez (min ew ec)) _ _ _ sz' sw'
        (fun m' hm' => by rw [dropDead_inR _ _ _ (by omega), hz m' (by omega)])
        (fun m' hm' => by rw [dropDead_inR _ _ _ (by omega), hw m' (by omega)])
        (fun m' hm' => by rw [dropDeadC_wcFind _ _ _ (by omega), hc m' (by omega)])
        hgo.2 m (by omega) h2

/-- the check for all code points below `hi`, on the regenerated tables (`fuel` ≥ number of pieces) -/
def allOk (hi fuel : Nat) : Bool :=
  goP hi fuel Gen.C11.zeroWidthRanges Gen.C11.wideRanges Gen.C10.wcRanges 0

theorem gen_tables_sorted : sortedB Gen.C11.zeroWidthRanges = true ∧ sortedB Gen.C11.wideRanges = true := by
  decide +kernel

set_option maxRecDepth 100000 in
theorem gen_widths_all_ok : allOk 1114112 4000 = true := by decide +kernel

theorem gen_widths_all (n : Nat) (h : n < 1114112) : rawWidthN n = (Gen.C10.wcwidth n).toNat :=
  goP_sound 1114112 _ _ _ 4000 0 _ _ _ gen_tables_sorted.1 gen_tables_sorted.2 (fun _ _ => rfl) (fun _ _ => rfl)
    (fun _ _ => rfl) gen_widths_all_ok n (Nat.zero_le _) h

theorem char_toNat_lt (c : Char) : c.toNat < 1114112 := by
  rcases c.valid with h | h
  · exact Nat.lt_trans h (by decide)
  · exact h.2

-- utils.py::get_cwidth (one character) — the generated `Gen.C11.rawWidth` (C11's `rw`) vs `max(0, wcwidth)` of the
-- generated `Gen.C10.wcwidth` (C10's `wc`), for EVERY character
theorem gen_hrw (c : Char) : C11.genW.rw c = (C10.genWc c.toNat).toNat :=
  gen_widths_all c.toNat (char_toNat_lt c)

/-- a code point of the ranges C11's width table was scanned on in round 1 (half open) -/
def inScanned (n : Nat) : Prop := ∃ r ∈ Gen.C11.scanned, r.1 ≤ n ∧ n < r.2

-- the earlier, weaker form (kept for references to it): agreement on the round-1 scanned ranges
theorem gen_hrw_scanned (c : Char) (_h : inScanned c.toNat) :
    C11.genW.rw c = (C10.genWc c.toNat).toNat := gen_hrw c

-- layout/screen.py::Char.__init__ / utils.py::get_cwidth — the regenerated character classes of C11 and C10 are
-- related by the translation `WRel` the parametric agreement theorems assume
theorem genW_WRel : Char.WRel C11.genW C10.genTable C10.genWc :=
  ⟨gen_hrw, gen_hdisp⟩

theorem gen_printableUnmapped : Char.PrintableUnmapped C10.genTable Gen.C10.isPrintable := gen_hpr


/-! ### `Window._copy_body` with the regenerated character classes of both drivers -/

/-- the C10 configuration with the regenerated tables (`Char.display_mappings`, `wcwidth`, `isprintable`, default
    character) and the window geometry / scroll / prefix left free -/
def genCfg (xpos ypos width height : Int) (wrap : Bool) (hscroll : Nat)
    (pre : Option (Nat → Nat → List C10.Frag)) : C10.CopyCfg :=
  { m := C10.genTable, wc := C10.genWc, printable := Gen.C10.isPrintable, dflt := C10.genD0,
    xpos := xpos, ypos := ypos, width := width, height := height, wrap := wrap, hscroll := hscroll, align := 0,
    pre := pre }

/-- the C11 environment with the regenerated character classes -/
def genEnv (xpos ypos width height : Int) (wrap : Bool) (pfx : Option (Nat → Nat → Text)) : C11.Env :=
  { W := C11.genW, width := width, height := height, wrap := wrap, xpos := xpos, ypos := ypos, pfx := pfx }

theorem gen_keysSingle : C10.keysSingle C10.genTable = true := by decide +kernel
theorem gen_d0 : C10.genD0.char = [32] ∧ C10.genD0.width = C10.cwidth C10.genWc [32] := by decide +kernel
theorem gen_dm : C11.genW.dm = true := by decide

theorem envRel_gen (xpos ypos width height : Int) (wrap : Bool) (hscroll : Nat)
    (pre : Option (Nat → Nat → List C10.Frag)) (pfx : Option (Nat → Nat → Text)) :
    Copy.EnvRel (genCfg xpos ypos width height wrap hscroll pre) (genEnv xpos ypos width height wrap pfx) :=
  { w := genW_WRel, xpos := rfl, ypos := rfl, width := rfl, height := rfl, wrap := rfl, align := rfl,
    dchar := gen_d0.1, dwidth := gen_d0.2, keys := gen_keysSingle }

-- layout/containers.py::Window._copy_body — `Copy.copyBody_agree` instantiated with the regenerated tables of BOTH
-- drivers (C10: genTable / genWc / isPrintable / genD0, C11: genW): no hypothesis about the characters is left
theorem copyBody_agree_gen (xpos ypos width height : Int) (wrap : Bool) (hscroll : Nat)
    (pf : Option (Nat → Nat → List (Text × Text))) (hpf : ∀ f, pf = some f → ∀ l k, Copy.NoZwe (f l k))
    (tss : List (List (Text × Text))) (hz : ∀ ts ∈ tss, Copy.NoZwe ts)
    (vs vs2 : Nat) (zwe : C10.Zwe) :
    let cfg := genCfg xpos ypos width height wrap hscroll (pf.map fun f l k => Copy.encFrags (f l k))
    let e := genEnv xpos ypos width height wrap (pf.map fun f l k => Copy.flat (f l k))
    let s : C11.Scroll := ⟨vs, hscroll, vs2⟩
    (C10.copyBody cfg [] zwe (tss.map Copy.encFrags) vs vs2).buf.map (fun pc => (pc.1, pc.2.char))
      = (C11.copyBody e (tss.map Copy.flat) s).cells.map (fun pc => (pc.1, pc.2.map Char.toNat)) ∧
    (C10.copyBody cfg [] zwe (tss.map Copy.encFrags) vs vs2).x = (C11.copyBody e (tss.map Copy.flat) s).x ∧
    (C10.copyBody cfg [] zwe (tss.map Copy.encFrags) vs vs2).y = (C11.copyBody e (tss.map Copy.flat) s).y := by
  intro cfg e s
  have he : Copy.EnvRel cfg e := envRel_gen _ _ _ _ _ _ _ _
  have hp : Copy.PreRel cfg e := by
    cases pf with
    | none => exact .none rfl rfl
    | some f => exact .some f (hpf f rfl) rfl rfl
  have hh : Copy.HsRel cfg e s.hs := ⟨rfl, fun _ => gen_dm, fun _ => gen_printableUnmapped⟩
  have := Copy.copyBody_agree he hp tss hz s (by show (0 : Int) ≤ ((vs2 : Nat) : Int); omega) hh zwe
  simpa [s] using this

end Ptk.AgreeOut.GenChar
