/-
  C18 — sessions: several calls on HTML / ANSI objects in one process (Model/C18Sess.lean).
  Per call, the result is a function of the template text of the object and of this call's own
  positional and keyword values; nothing is kept between calls.
-/
import Ptk.Model.C18Sess
import Ptk.Props.C18Html
import Ptk.Gen.C18
namespace Ptk.C18
open Ptk.Py

/-! ## the state the model assumes -/

/-- **Pin.**  The session model keeps nothing between calls except the objects the caller holds.
    This is the inventory (regenerated from /repo on every run by harness/gen_c18.py) of everything in
    the anchored modules that could hold state: module-level objects that are not functions, classes,
    modules, typing constructs or immutable constants; cached functions; class-level containers; the
    instance attributes of a fresh HTML / ANSI object.  A cache added to these modules changes the
    inventory and breaks the build here: `Sess` / `sessStep` then have to model it. -/
theorem moduleState_pinned : Gen.C18.moduleState =
    ["formatted_text.html.FORMATTER:HTMLFormatter", "formatted_text.html._XML_ILLEGAL_CHARS_RE:Pattern",
     "formatted_text.ansi.BG_ANSI_COLORS:dict", "formatted_text.ansi.FG_ANSI_COLORS:dict",
     "formatted_text.ansi.FORMATTER:ANSIFormatter", "formatted_text.ansi._256_colors:dict",
     "formatted_text.ansi._256_colors_table:_256ColorCache", "formatted_text.ansi._bg_colors:dict",
     "formatted_text.ansi._fg_colors:dict", "instance HTML:formatted_text,value",
     "instance ANSI:_bgcolor,_blink,_bold,_color,_formatted_text,_hidden,_italic,_reverse,_strike,_underline,value"] := by
  decide

/-! ## calls -/

/-- a call op: everything except `new` -/
def SOp.isCall : SOp → Bool
  | .new _ _ _ => false
  | _ => true

/-- **Calls leave the session alone.**  `format`, `%` and `to_formatted_text` change nothing that a
    later call could see. -/
theorem sessStep_call_state (tb : Tables) (pr : Char → Bool) (s : Sess) (op : SOp)
    (h : op.isCall = true) : (sessStep tb pr s op).1 = s := by
  cases op with
  | new id k v => simp [SOp.isCall] at h
  | fmt id args kw => simp only [sessStep]; cases s.find id <;> rfl
  | mod id args => simp only [sessStep]; cases s.find id <;> rfl
  | get id => simp only [sessStep]; cases s.find id <;> rfl

theorem sessStep_fmt (tb : Tables) (pr : Char → Bool) (s : Sess) (id : Nat) (o : Obj)
    (args : List Val) (kw : List (Text × Val)) (h : s.find id = some o) :
    (sessStep tb pr s (.fmt id args kw)).2 = fmtCall tb pr o args kw := by
  simp [sessStep, h]

theorem sessStep_mod (tb : Tables) (pr : Char → Bool) (s : Sess) (id : Nat) (o : Obj)
    (args : List Val) (h : s.find id = some o) :
    (sessStep tb pr s (.mod id args)).2 = modCall tb pr o args := by
  simp [sessStep, h]

/-- **Per call: the result depends only on the template text and on this call's own values.**
    Two `format` calls with the same arguments on objects with the same kind and template text give
    the same result — whatever the two sessions did before, and whether the object is fresh or has
    been formatted before. -/
theorem sess_fmt_pure (tb : Tables) (pr : Char → Bool) (s1 s2 : Sess) (id1 id2 : Nat) (o : Obj)
    (args : List Val) (kw : List (Text × Val))
    (h1 : s1.find id1 = some o) (h2 : s2.find id2 = some o) :
    (sessStep tb pr s1 (.fmt id1 args kw)).2 = (sessStep tb pr s2 (.fmt id2 args kw)).2 := by
  rw [sessStep_fmt _ _ _ _ _ _ _ h1, sessStep_fmt _ _ _ _ _ _ _ h2]

theorem sess_mod_pure (tb : Tables) (pr : Char → Bool) (s1 s2 : Sess) (id1 id2 : Nat) (o : Obj)
    (args : List Val)
    (h1 : s1.find id1 = some o) (h2 : s2.find id2 = some o) :
    (sessStep tb pr s1 (.mod id1 args)).2 = (sessStep tb pr s2 (.mod id2 args)).2 := by
  rw [sessStep_mod _ _ _ _ _ _ h1, sessStep_mod _ _ _ _ _ _ h2]

/-- `to_formatted_text(x)`, repeated: always the fragments of the object's own text, whatever was
    formatted, constructed or read before -/
theorem sess_get_pure (tb : Tables) (pr : Char → Bool) (s1 s2 : Sess) (id1 id2 : Nat) (o : Obj)
    (h1 : s1.find id1 = some o) (h2 : s2.find id2 = some o) :
    (sessStep tb pr s1 (.get id1)).2 = ofParse (objFrags tb o.kind o.value) ∧
    (sessStep tb pr s2 (.get id2)).2 = ofParse (objFrags tb o.kind o.value) := by
  simp [sessStep, h1, h2]

/-- `HTML(v)` / `ANSI(v)`, repeated on equal strings: whether the construction succeeds (and with
    which error it fails) depends on the kind and the string only -/
theorem sess_new_pure (tb : Tables) (pr : Char → Bool) (s1 s2 : Sess) (id1 id2 : Nat) (k : Kind)
    (v : Text) : (sessStep tb pr s1 (.new id1 k v)).2 = (sessStep tb pr s2 (.new id2 k v)).2 := by
  simp only [sessStep]
  cases objFrags tb k v with
  | ok fs => rfl
  | error e => cases e <;> rfl

/-- the object a name refers to after a list of ops: the last successful construction under that
    name (`none`: no construction in the list) -/
def lastNew (tb : Tables) : List SOp → Nat → Option Obj
  | [], _ => none
  | .new id k v :: ops, i =>
    match lastNew tb ops i with
    | some o => some o
    | none =>
      if id = i then
        match objFrags tb k v with
        | .ok _ => some { kind := k, value := v }
        | .error _ => none
      else none
  | _ :: ops, i => lastNew tb ops i

theorem find_cons (s : Sess) (id i : Nat) (o : Obj) :
    Sess.find { objs := (id, o) :: s.objs } i = if id = i then some o else s.find i := by
  simp only [Sess.find, List.find?_cons]
  by_cases h : id = i
  · simp [h]
  · have : (id == i) = false := by simpa using h
    simp [this, h]

theorem sessRun_find (tb : Tables) (pr : Char → Bool) (s : Sess) (ops : List SOp) (i : Nat) :
    (sessRun tb pr s ops).1.find i = ((lastNew tb ops i).or (s.find i)) := by
  induction ops generalizing s with
  | nil => simp [sessRun, lastNew]
  | cons op ops ih =>
    simp only [sessRun]
    rw [ih]
    cases op with
    | new id k v =>
      simp only [sessStep, lastNew]
      cases hl : lastNew tb ops i with
      | some o => simp
      | none =>
        simp only [Option.none_or]
        cases ho : objFrags tb k v with
        | ok fs => simp [find_cons]; by_cases h : id = i <;> simp [h]
        | error e =>
          cases e <;> simp
    | fmt id args kw => simp only [sessStep, lastNew]; cases s.find id <;> rfl
    | mod id args => simp only [sessStep, lastNew]; cases s.find id <;> rfl
    | get id => simp only [sessStep, lastNew]; cases s.find id <;> rfl

theorem sessRun_append (tb : Tables) (pr : Char → Bool) (s : Sess) (a b : List SOp) :
    sessRun tb pr s (a ++ b) =
      ((sessRun tb pr (sessRun tb pr s a).1 b).1,
       (sessRun tb pr s a).2 ++ (sessRun tb pr (sessRun tb pr s a).1 b).2) := by
  induction a generalizing s with
  | nil => simp [sessRun]
  | cons op ops ih => simp [sessRun, ih]

/-- **Sessions.**  In any sequence of constructions and calls run in one process from an empty
    state, the result of a `format` call is `fmtCall` of (the template text of the last successful
    construction under that name, this call's positional and keyword values): nothing else of the
    history — earlier calls, their values, other objects, objects of equal text — enters. -/
theorem session_fmt_result (tb : Tables) (pr : Char → Bool) (pre post : List SOp) (id : Nat)
    (args : List Val) (kw : List (Text × Val)) (o : Obj) (h : lastNew tb pre id = some o) :
    (sessRun tb pr {} (pre ++ .fmt id args kw :: post)).2[pre.length]? =
      some (fmtCall tb pr o args kw) := by
  have hf : (sessRun tb pr {} pre).1.find id = some o := by rw [sessRun_find, h]; rfl
  have hlen : ∀ (s : Sess) (l : List SOp), (sessRun tb pr s l).2.length = l.length := by
    intro s l; induction l generalizing s with
    | nil => rfl
    | cons x xs ih => simp [sessRun, ih]
  rw [sessRun_append]
  simp only [sessRun]
  rw [List.getElem?_append_right (by rw [hlen]; exact Nat.le_refl _)]
  simp [hlen, sessStep_fmt _ _ _ _ _ _ _ hf]

theorem session_mod_result (tb : Tables) (pr : Char → Bool) (pre post : List SOp) (id : Nat)
    (args : List Val) (o : Obj) (h : lastNew tb pre id = some o) :
    (sessRun tb pr {} (pre ++ .mod id args :: post)).2[pre.length]? =
      some (modCall tb pr o args) := by
  have hf : (sessRun tb pr {} pre).1.find id = some o := by rw [sessRun_find, h]; rfl
  have hlen : ∀ (s : Sess) (l : List SOp), (sessRun tb pr s l).2.length = l.length := by
    intro s l; induction l generalizing s with
    | nil => rfl
    | cons x xs ih => simp [sessRun, ih]
  rw [sessRun_append]
  simp only [sessRun]
  rw [List.getElem?_append_right (by rw [hlen]; exact Nat.le_refl _)]
  simp [hlen, sessStep_mod _ _ _ _ _ _ hf]


/-! ## which values a call depends on -/

/-- the keyword names a template refers to -/
def kwNames : List Item → List Text
  | [] => []
  | .hole h :: r => (match h.arg with | .kw n => [n] | _ => []) ++ kwNames r
  | _ :: r => kwNames r

theorem renderHole_congr (esc : Text → Text) (pr : Char → Bool) (args args' : List Val)
    (kw kw' : List (Text × Val)) (st : Option (Option Nat)) (h : Hole)
    (hv : ∀ key st', selectArg h.arg st = .ok (key, st') →
      getValue args kw key = getValue args' kw' key) :
    renderHole esc pr args kw st h = renderHole esc pr args' kw' st h := by
  unfold renderHole
  cases hs : selectArg h.arg st with
  | error e => rfl
  | ok p =>
    obtain ⟨key, st'⟩ := p
    simp only
    rw [hv key st' hs]

/-- **Only the referenced values matter.**  Two calls whose arguments agree on every field the
    template refers to (by position or by name) render the same text. -/
theorem renderFormat_congr (esc : Text → Text) (pr : Char → Bool) (args args' : List Val)
    (kw kw' : List (Text × Val)) (st : Option (Option Nat)) (items : List Item)
    (hv : ∀ key, (∀ n, key = Arg.kw n → n ∈ kwNames items) →
      getValue args kw key = getValue args' kw' key) :
    renderFormat esc pr args kw st items = renderFormat esc pr args' kw' st items := by
  induction items generalizing st with
  | nil => rfl
  | cons it rest ih =>
    cases it with
    | lit t =>
      simp only [renderFormat]
      rw [ih st (fun key hk => hv key (fun n hn => by simpa [kwNames] using hk n hn))]
    | hole h =>
      simp only [renderFormat]
      have h1 : renderHole esc pr args kw st h = renderHole esc pr args' kw' st h := by
        apply renderHole_congr
        intro key st' hs
        apply hv
        intro n hn
        subst hn
        cases ha : h.arg with
        | auto => rw [ha] at hs; cases st with
          | none => simp [selectArg] at hs
          | some o => cases o <;> simp [selectArg] at hs
        | pos i => rw [ha] at hs; cases st with
          | none => simp [selectArg] at hs
          | some o => cases o <;> simp [selectArg] at hs
        | kw m =>
          rw [ha] at hs
          simp [selectArg] at hs
          simp [kwNames, ha, hs.1]
      rw [h1]
      cases renderHole esc pr args' kw' st h with
      | error e => rfl
      | ok p =>
        obtain ⟨t, st'⟩ := p
        simp only
        rw [ih st' (fun key hk => hv key (fun n hn => by
          have := hk n hn
          simp [kwNames]; right; exact this))]

theorem lookupKw_cons_ne (kw : List (Text × Val)) (n m : Text) (v : Val) (h : m ≠ n) :
    lookupKw ((m, v) :: kw) n = lookupKw kw n := by
  have : (m == n) = false := by simpa using h
  simp [lookupKw, this]

/-- a keyword argument the template does not name is ignored -/
theorem vformat_unused_kw (esc : Text → Text) (pr : Char → Bool) (tmpl : Text) (args : List Val)
    (kw : List (Text × Val)) (items : List Item) (m : Text) (v : Val)
    (hscan : scanFormat tmpl = some (.ok items)) (hm : m ∉ kwNames items) :
    vformat esc pr tmpl args ((m, v) :: kw) = vformat esc pr tmpl args kw := by
  simp only [vformat, hscan]
  congr 1
  apply renderFormat_congr
  intro key hk
  cases key with
  | auto => rfl
  | pos i => rfl
  | kw n =>
    have hn := hk n rfl
    have : m ≠ n := fun e => hm (e ▸ hn)
    simp [getValue, lookupKw_cons_ne kw n m v this]


/-! ## per call: inertness inside a session -/

/-- **`x.format(*args, **kwargs)` on an HTML object, anywhere in a session**: if the template of the
    object scans to `items`, this call's values fill them to `raw` and every hole is in content
    position, then the call returns `HTML(hflat raw)` — the template text with each escaped value in
    place — and that document is tokenized as the template's own events with one text event per
    character of each value (`htmlFormat_inert`). -/
theorem sess_html_format (tb : Tables) (pr : Char → Bool) (s : Sess) (oid : Nat) (tmpl : Text)
    (args : List Val) (kw : List (Text × Val)) (items : List Item) (raw : List Seg)
    (hobj : s.find oid = some { kind := .html, value := tmpl })
    (hscan : scanFormat tmpl = some (.ok items))
    (hfill : fillFormat id pr args kw none items = .ok raw)
    (hg : HHolesOK (.content false 0) raw) :
    sessStep tb pr s (.fmt oid args kw) = (s, ofParse (html (hflat raw))) ∧
    xrun (.content false 0) (hflat raw) = xsplice (.content false 0) raw := by
  obtain ⟨h1, h2⟩ := htmlFormat_inert pr tmpl args kw items raw hscan hfill hg
  refine ⟨?_, h2⟩
  simp [sessStep, hobj, fmtCall, escOf, h1, ofRendered, objFrags]

/-- the same for an ANSI object: the result is the template's own fragments with the characters of
    each escaped value spliced in, in the style current at its hole (`ansiFormat_inert`) -/
theorem sess_ansi_format (tb : Tables) (pr : Char → Bool) (s : Sess) (id : Nat) (tmpl : Text)
    (args : List Val) (kw : List (Text × Val)) (items : List Item) (segs : List Seg)
    (hobj : s.find id = some { kind := .ansi, value := tmpl })
    (hscan : scanFormat tmpl = some (.ok items))
    (hfill : fillFormat ansiEscape pr args kw none items = .ok segs)
    (hg : HolesAtGround tb {} segs) :
    sessStep tb pr s (.fmt id args kw) = (s, .frags (spliceRun tb {} segs).2) := by
  have h := ansiFormat_inert tb pr tmpl args kw items segs hscan hfill hg
  simp only [ansiFormat] at h
  cases hv : vformat ansiEscape pr tmpl args kw with
  | none => simp [hv] at h
  | some r =>
    cases r with
    | error e => simp [hv, Except.map] at h
    | ok t =>
      simp [hv, Except.map] at h
      simp [sessStep, hobj, fmtCall, escOf, hv, ofRendered, objFrags, ofParse, h]

/-! ## non-vacuity -/

def kwName : Text := "name".toList
def exTmplKw : Text := "<b>{name}</b>{0!r:>4}".toList

/-- the same template text, formatted with different values for the same keyword name, on a reused
    and on a fresh object: every call shows its own values -/
def exSess : List SOp :=
  [.new 0 .html exTmplKw,
   .fmt 0 [{ s := "x".toList }] [(kwName, { s := "alice".toList })],
   .fmt 0 [{ s := "'".toList }] [(kwName, { s := "<bob>".toList })],
   .new 1 .html exTmplKw,
   .fmt 1 [{ kind := .num, s := "1".toList, r := "1".toList }] [(kwName, { s := "alice".toList })],
   .fmt 1 [] [(kwName, { s := "alice".toList })],
   .fmt 0 [{ s := "x".toList }] []]

example : (sessRun exTb exPr {} exSess).2 =
    [.ok,
     .frags [⟨"class:b".toList, "alice".toList, none⟩, ⟨[], " 'x'".toList, none⟩],
     .frags [⟨"class:b".toList, "<bob>".toList, none⟩, ⟨[], [' ', '"', '\'', '"'], none⟩],
     .ok,
     .frags [⟨"class:b".toList, "alice".toList, none⟩, ⟨[], "   1".toList, none⟩],
     .err .index,
     .err .key] := by rfl

example : lastNew exTb exSess 0 = some { kind := .html, value := exTmplKw } := by rfl

example : ∃ items, scanFormat exTmplKw = some (.ok items) ∧ kwNames items = [kwName] ∧
    "other".toList ∉ kwNames items :=
  ⟨_, rfl, rfl, by decide⟩

end Ptk.C18
