/-
  C03 — theorems about the read path as it is: `PosixStdinReader.read` (1024-byte reads, EOF,
  `OSError`), `Vt100Input.read_keys` on top of it, and the typeahead store.
-/
import Ptk.Model.C03Read
import Ptk.Props.C03Utf8
namespace Ptk.C03.Utf8
open Ptk.Py Ptk.C03

/-! ### pins (regenerated from /repo on every run; kept out of the model files so that the driver
    still builds, and the correspondence still runs, when one of them breaks) -/

/-- the decoder runs with `errors="surrogateescape"`, which is what `Model/C03Utf8` models -/
theorem pin_readerErrors : Gen.C03.readerErrors = "surrogateescape" := by decide
/-- `read_keys` asks `os.read` for a positive number of bytes (the theorems need `1 ≤ count`) -/
theorem pin_readCount : 1 ≤ Gen.C03.readCount := by decide
/-- the only ESC… literal in `Vt100Parser.feed` is the paste end mark of the model -/
theorem pin_endMark : Gen.C03.feedMarks = [endMark] := by decide

/-! ### codecs -/

/-- the pending bytes are an incomplete sequence: decoding nothing more yields nothing -/
def Codec.Idle (c : Codec) (buf : Bytes) : Prop := c.decode buf [] = ([], buf)

theorem Codec.idle_nil (c : Codec) : c.Idle [] := by
  cases c <;> rfl

theorem Codec.idle_utf8 {buf : Bytes} (h : step buf = none) : Codec.utf8.Idle buf := by
  show Utf8.decode buf [] = ([], buf)
  unfold Utf8.decode
  rw [List.append_nil, scan_of_none h]

/-- what a decoder keeps is always an incomplete sequence (nothing, for a single-byte code page) -/
theorem Codec.idle_result (c : Codec) (buf chunk : Bytes) : c.Idle (c.decode buf chunk).2 := by
  cases c with
  | utf8 => exact Codec.idle_utf8 (scan_rest _)
  | single tbl => rfl

/-- **every incremental decoder modelled is chunk independent**: decoding `a` then `b` (carrying
    the pending bytes over) = decoding `a ++ b` at once -/
theorem Codec.decode_append (c : Codec) (buf a b : Bytes) :
    c.decode buf (a ++ b) =
      ((c.decode buf a).1 ++ (c.decode (c.decode buf a).2 b).1, (c.decode (c.decode buf a).2 b).2) := by
  cases c with
  | utf8 => exact decode_append_aux buf a b
  | single tbl => simp [Codec.decode, List.append_assoc]

/-- **single-byte code pages: every byte is exactly one character, nothing is ever pending** -/
theorem single_bytewise (tbl : List (Option Nat)) (bs : Bytes) :
    (Codec.single tbl).decode [] bs = (bs.map (sbChar tbl), []) ∧
    ((Codec.single tbl).decode [] bs).1.length = bs.length := by
  simp [Codec.decode]

/-- side conditions on a single-byte table: 256 entries; entries are Unicode scalar values; the
    ASCII half is fully defined (surrogateescape only escapes bytes ≥ 0x80) -/
def sbWf (tbl : List (Option Nat)) : Bool :=
  tbl.length == 256 &&
  tbl.all (fun o => match o with
    | some cp => decide (cp < 0xD800 ∨ (0xDFFF < cp ∧ cp < 0x110000))
    | none => true) &&
  (tbl.take 128).all Option.isSome

/-- for a lawful table a byte decodes to the scalar value of its table entry, or — only for
    bytes ≥ 0x80 — to its escape `0xDC00 + b`; the two cannot be confused -/
theorem sbChar_lawful {tbl : List (Option Nat)} (h : sbWf tbl = true) {b : Nat} (hb : b < 256) :
    (∃ cp, tbl[b]? = some (some cp) ∧ sbChar tbl b = cp ∧ (cp < 0xD800 ∨ (0xDFFF < cp ∧ cp < 0x110000))) ∨
    (tbl[b]? = some none ∧ 0x80 ≤ b ∧ sbChar tbl b = esc b) := by
  simp only [sbWf, Bool.and_eq_true, beq_iff_eq, List.all_eq_true] at h
  obtain ⟨⟨hlen, hval⟩, hlow⟩ := h
  have hlt : b < tbl.length := by omega
  have hget : tbl[b]? = some tbl[b] := List.getElem?_eq_getElem hlt
  cases ho : tbl[b] with
  | some cp =>
    left
    have := hval _ (List.getElem_mem hlt)
    rw [ho] at this
    exact ⟨cp, by rw [hget, ho], by simp [sbChar, hget, ho], by simpa using this⟩
  | none =>
    right
    refine ⟨by rw [hget, ho], ?_, by simp [sbChar, hget, ho]⟩
    by_cases hb8 : b < 128
    · exfalso
      have hm : tbl[b] ∈ tbl.take 128 := by
        rw [List.mem_take_iff_getElem]
        exact ⟨b, by omega, rfl⟩
      have := hlow _ hm
      rw [ho] at this
      cases this
    · omega

/-- the single-byte tables regenerated from the running interpreter are lawful -/
theorem gen_ok3 : Gen.C03.codecs.all (fun kv => sbWf kv.2) = true := by decide +kernel

/-- the reader's default encoding is the UTF-8 model -/
theorem pin_readerEncoding : codecOf Gen.C03.readerEncoding = some .utf8 := by decide

/-! ### decode + feed for a codec -/

theorem readKeysC_utf8 (cfg : Cfg) (st : InSt) (chunk : Bytes) :
    readKeysC cfg .utf8 st chunk = readKeys cfg st chunk := rfl

/-- two reads delivering `a` then `b` = one read delivering `a ++ b`, for every codec -/
theorem readKeysC_append (cfg : Cfg) (c : Codec) (st : InSt) (a b : Bytes) :
    readKeysC cfg c st (a ++ b) = readKeysC cfg c (readKeysC cfg c st a) b := by
  unfold readKeysC
  rw [Codec.decode_append]
  simp [feed_append_aux]

theorem readKeysC_nil (cfg : Cfg) (c : Codec) (st : InSt) (h1 : c.Idle st.dec) (h2 : Ready st.p) :
    readKeysC cfg c st [] = st := by
  unfold readKeysC
  rw [h1]
  simp [feed_nil cfg _ h2]

/-! ### `PosixStdinReader.read` -/

/-- once `closed`, `read` returns "" and touches nothing -/
theorem read_closed (count : Nat) (r : Reader) (fd : Fd) (h : r.closed = true) :
    r.read count fd = ([], r, fd) := by
  simp [Reader.read, h]

/-- nothing to read (and no EOF): "" and nothing changes -/
theorem read_idle (count : Nat) (r : Reader) (fd : Fd) (h1 : r.closed = false) (h2 : fd.bad = false)
    (h3 : fd.avail = []) (h4 : fd.eof = false) : r.read count fd = ([], r, fd) := by
  simp [Reader.read, h1, h2, h3, h4, Fd.readable]

/-- data available: at most `count` bytes go through the incremental decoder of the reader's
    encoding -/
theorem read_data (count : Nat) (hc : 1 ≤ count) (r : Reader) (fd : Fd) (h1 : r.closed = false)
    (h2 : fd.bad = false) (h3 : fd.avail ≠ []) :
    r.read count fd =
      ((r.codec.decode r.dec (fd.avail.take count)).1,
       { r with dec := (r.codec.decode r.dec (fd.avail.take count)).2 },
       { fd with avail := fd.avail.drop count }) := by
  have hne : (fd.avail.take count).isEmpty = false := by
    cases ha : fd.avail with
    | nil => exact absurd ha h3
    | cons x xs =>
      obtain ⟨c, rfl⟩ : ∃ c, count = c + 1 := ⟨count - 1, by omega⟩
      rfl
  have ha : fd.avail.isEmpty = false := by simpa [List.isEmpty_iff] using h3
  simp only [Reader.read, h1, h2, Fd.readable, ha, hne, Bool.false_eq_true, if_false, Bool.not_false,
    Bool.true_or, Bool.not_true]

/-- drained and all writers gone: EOF — `closed` is set, nothing is delivered -/
theorem read_eof (count : Nat) (r : Reader) (fd : Fd) (h1 : r.closed = false) (h2 : fd.bad = false)
    (h3 : fd.avail = []) (h4 : fd.eof = true) :
    r.read count fd = ([], { r with closed := true }, fd) := by
  cases fd
  simp_all [Reader.read, Fd.readable]

/-- descriptor closed under the reader (`OSError` from `select` and from `os.read`): `closed` is
    set, nothing is delivered, the decoder keeps what it holds -/
theorem read_bad (count : Nat) (r : Reader) (fd : Fd) (h1 : r.closed = false) (h2 : fd.bad = true)
    (hd : r.codec.Idle r.dec) : r.read count fd = ([], { r with closed := true }, fd) := by
  unfold Codec.Idle at hd
  simp [Reader.read, h1, h2, hd]

/-- **`closed` is set exactly on EOF or on a dead descriptor** (and stays set) -/
theorem read_closed_iff (count : Nat) (hc : 1 ≤ count) (r : Reader) (fd : Fd) :
    (r.read count fd).2.1.closed = true ↔
      (r.closed = true ∨ fd.bad = true ∨ (fd.avail = [] ∧ fd.eof = true)) := by
  by_cases h1 : r.closed = true
  · simp [read_closed count r fd h1, h1]
  · have h1' : r.closed = false := by simpa using h1
    by_cases h2 : fd.bad = true
    · simp [Reader.read, h1', h2]
    · have h2' : fd.bad = false := by simpa using h2
      by_cases h3 : fd.avail = []
      · by_cases h4 : fd.eof = true
        · simp [read_eof count r fd h1' h2' h3 h4, h3, h4]
        · have h4' : fd.eof = false := by simpa using h4
          simp [read_idle count r fd h1' h2' h3 h4', h1', h2', h4']
      · simp [read_data count hc r fd h1' h2' h3, h1', h2', h3]

/-- the reader never changes its decoder -/
theorem read_codec (count : Nat) (r : Reader) (fd : Fd) : (r.read count fd).2.1.codec = r.codec := by
  unfold Reader.read
  split
  · rfl
  · split
    · rfl
    · split
      · rfl
      · simp only
        split <;> rfl

/-! ### `Vt100Input.read_keys` -/

/-- at rest: the decoder holds an incomplete sequence, the paste buffer no end mark -/
def InpReady (st : Inp) : Prop := st.rd.codec.Idle st.rd.dec ∧ Ready st.p

theorem inpReady_new (c : Codec) : InpReady (Inp.new c) := ⟨Codec.idle_nil c, ready_init⟩
theorem inpReady_init : InpReady Inp.init := inpReady_new _

/-- a closed input: `read_keys()` returns no keys and changes nothing -/
theorem readKeys_closed (cfg : Cfg) (count : Nat) (st : Inp) (fd : Fd) (h : st.rd.closed = true)
    (hr : InpReady st) : st.readKeys cfg count fd = (st, fd) := by
  cases st
  simp_all [Inp.readKeys, read_closed, feed_nil cfg _ hr.2]

theorem readKeysN_closed (cfg : Cfg) (count n : Nat) (st : Inp) (fd : Fd) (h : st.rd.closed = true)
    (hr : InpReady st) : Inp.readKeysN cfg count n st fd = (st, fd) := by
  induction n with
  | zero => rfl
  | succ n ih => rw [Inp.readKeysN, readKeys_closed cfg count st fd h hr]; exact ih

/-- the state of a `Vt100Input` whose reader (codec `c`, open) holds `x` -/
def Inp.of (c : Codec) (closed : Bool) (x : InSt) : Inp := { rd := { codec := c, dec := x.dec, closed := closed }, p := x.p }

/-- `read_keys()` with data available: decode at most `count` bytes with the input's codec, feed -/
theorem readKeys_data (cfg : Cfg) (count : Nat) (hc : 1 ≤ count) (st : Inp) (fd : Fd)
    (h1 : st.rd.closed = false) (h2 : fd.bad = false) (h3 : fd.avail ≠ []) :
    st.readKeys cfg count fd =
      (Inp.of st.rd.codec false (readKeysC cfg st.rd.codec ⟨st.rd.dec, st.p⟩ (fd.avail.take count)),
       { fd with avail := fd.avail.drop count }) := by
  obtain ⟨⟨c, d, cl⟩, p⟩ := st
  simp only at h1
  subst h1
  simp [Inp.readKeys, read_data count hc ⟨c, d, false⟩ fd rfl h2 h3, readKeysC, Inp.of]

theorem inpReady_of (cfg : Cfg) (c : Codec) (x : InSt) (chunk : Bytes) (hr : Ready x.p) :
    InpReady (Inp.of c false (readKeysC cfg c x chunk)) :=
  ⟨Codec.idle_result c _ _, feed_ready cfg _ _ hr⟩

/-- **The 1024-byte boundary is harmless, whatever the encoding.**  Whatever amount of bytes is
    waiting in the pipe, reading it in pieces of at most `count` bytes (`n` calls of `read_keys()`,
    enough to drain it) leaves decoder, parser and delivered key presses exactly as ONE read of
    everything would — also when the boundary falls inside a UTF-8 sequence, an escape sequence or
    a paste end mark. -/
theorem readKeysN_drain (cfg : Cfg) (count : Nat) (hc : 1 ≤ count) :
    ∀ (n : Nat) (st : Inp) (fd : Fd), InpReady st → st.rd.closed = false → fd.bad = false →
      fd.eof = false → fd.avail.length ≤ n * count →
      Inp.readKeysN cfg count n st fd =
        (Inp.of st.rd.codec false (readKeysC cfg st.rd.codec ⟨st.rd.dec, st.p⟩ fd.avail),
         { fd with avail := [] }) := by
  intro n
  induction n with
  | zero =>
    intro st fd hr h1 _ _ hl
    have ha : fd.avail = [] := List.eq_nil_of_length_eq_zero (by omega)
    have := readKeysC_nil cfg st.rd.codec ⟨st.rd.dec, st.p⟩ hr.1 hr.2
    obtain ⟨⟨c, d, cl⟩, p⟩ := st
    cases fd
    simp_all [Inp.readKeysN, Inp.of]
  | succ n ih =>
    intro st fd hr h1 h2 h4 hl
    rw [Inp.readKeysN]
    by_cases h3 : fd.avail = []
    · have hidle : st.readKeys cfg count fd = (st, fd) := by
        obtain ⟨rd, p⟩ := st
        simp [Inp.readKeys, read_idle count rd fd h1 h2 h3 h4, feed_nil cfg p hr.2]
      rw [hidle]
      exact ih st fd hr h1 h2 h4 (by rw [h3]; simp)
    · rw [readKeys_data cfg count hc st fd h1 h2 h3]
      simp only
      rw [ih _ { fd with avail := fd.avail.drop count } (inpReady_of cfg _ _ _ hr.2) rfl h2 h4 (by
        simp only [List.length_drop]
        rw [Nat.succ_mul] at hl
        omega)]
      simp only [Inp.of]
      have happ := readKeysC_append cfg st.rd.codec ⟨st.rd.dec, st.p⟩ (fd.avail.take count) (fd.avail.drop count)
      rw [List.take_append_drop] at happ
      rw [happ]

/-- **EOF**: when all writers are gone, enough calls of `read_keys()` deliver everything that was
    written (exactly as one read of everything would) and then set `closed`; nothing is fed twice,
    nothing after `closed`. -/
theorem readKeysN_eof (cfg : Cfg) (count : Nat) (hc : 1 ≤ count) :
    ∀ (n : Nat) (st : Inp) (fd : Fd), InpReady st → st.rd.closed = false → fd.bad = false →
      fd.eof = true → fd.avail.length + count ≤ n * count →
      Inp.readKeysN cfg count n st fd =
        (Inp.of st.rd.codec true (readKeysC cfg st.rd.codec ⟨st.rd.dec, st.p⟩ fd.avail),
         { fd with avail := [] }) := by
  intro n
  induction n with
  | zero => intro st fd _ _ _ _ hl; omega
  | succ n ih =>
    intro st fd hr h1 h2 h4 hl
    rw [Inp.readKeysN]
    by_cases h3 : fd.avail = []
    · have heof : st.readKeys cfg count fd = (⟨{ st.rd with closed := true }, st.p⟩, fd) := by
        obtain ⟨rd, p⟩ := st
        simp [Inp.readKeys, read_eof count rd fd h1 h2 h3 h4, feed_nil cfg p hr.2]
      rw [heof]
      simp only
      rw [readKeysN_closed cfg count n ⟨{ st.rd with closed := true }, st.p⟩ fd rfl hr]
      have := readKeysC_nil cfg st.rd.codec ⟨st.rd.dec, st.p⟩ hr.1 hr.2
      obtain ⟨⟨c, d, cl⟩, p⟩ := st
      cases fd
      simp_all [Inp.of]
    · rw [readKeys_data cfg count hc st fd h1 h2 h3]
      simp only
      have hpos : 0 < fd.avail.length := List.length_pos_iff.2 h3
      rw [ih _ { fd with avail := fd.avail.drop count } (inpReady_of cfg _ _ _ hr.2) rfl h2 h4 (by
        simp only [List.length_drop]
        cases n with
        | zero => simp at hl; omega
        | succ k => simp only [Nat.succ_mul] at hl ⊢; omega)]
      simp only [Inp.of]
      have happ := readKeysC_append cfg st.rd.codec ⟨st.rd.dec, st.p⟩ (fd.avail.take count) (fd.avail.drop count)
      rw [List.take_append_drop] at happ
      rw [happ]

/-- **a dead descriptor** (`OSError`): one `read_keys()` sets `closed` and delivers nothing; the
    parser is untouched -/
theorem readKeys_bad (cfg : Cfg) (count : Nat) (st : Inp) (fd : Fd) (hr : InpReady st)
    (h1 : st.rd.closed = false) (h2 : fd.bad = true) :
    st.readKeys cfg count fd = ({ st with rd := { st.rd with closed := true } }, fd) := by
  obtain ⟨rd, p⟩ := st
  simp [Inp.readKeys, read_bad count rd fd h1 h2 hr.1, feed_nil cfg p hr.2]

/-! ### typeahead -/

theorem TA.get_set_self (b : TA) (k : String) (v : List Press) : (b.set k v).get k = v := by
  simp [TA.get, TA.set]

theorem TA.get_set_other (b : TA) (k k' : String) (v : List Press) (h : k' ≠ k) :
    (b.set k v).get k' = b.get k' := by
  have h1 : (k == k') = false := by simpa using Ne.symm h
  simp only [TA.get, TA.set, List.find?_cons, h1]
  congr 1
  induction b with
  | nil => rfl
  | cons x xs ih =>
    by_cases hx : (x.1 == k) = true
    · have : (x.1 == k') = false := by
        simp only [beq_iff_eq] at hx
        simpa [hx] using Ne.symm h
      simp [hx, this, ih]
    · simp only [Bool.not_eq_true] at hx
      by_cases hx' : (x.1 == k') = true
      · simp [hx, hx']
      · simp only [Bool.not_eq_true] at hx'
        simp [hx, hx', ih]

/-- operations on the typeahead store -/
inductive TAOp where
  | store (k : String) (ps : List Press)
  | take (k : String)
  | clear (k : String)

def TA.step (b : TA) : TAOp → TA
  | .store k ps => b.store k ps
  | .take k => (b.take k).2
  | .clear k => b.clear k

def TA.run (b : TA) (ops : List TAOp) : TA := ops.foldl TA.step b

/-- what is owed to input `k`: everything stored for `k` since the last `get_typeahead` /
    `clear_typeahead` of `k`, in order -/
def owedStep (k : String) (acc : List Press) : TAOp → List Press
  | .store k' ps => if k' = k then acc ++ ps else acc
  | .take k' => if k' = k then [] else acc
  | .clear k' => if k' = k then [] else acc

def owed (k : String) (ops : List TAOp) : List Press := ops.foldl (owedStep k) []

theorem TA.step_get (b : TA) (k : String) (op : TAOp) : (b.step op).get k = owedStep k (b.get k) op := by
  cases op with
  | store k' ps =>
    by_cases h : k' = k
    · subst h; simp [TA.step, TA.store, owedStep, TA.get_set_self]
    · simp [TA.step, TA.store, owedStep, h, TA.get_set_other b k' k _ (Ne.symm h)]
  | take k' =>
    by_cases h : k' = k
    · subst h; simp [TA.step, TA.take, owedStep, TA.get_set_self]
    · simp [TA.step, TA.take, owedStep, h, TA.get_set_other b k' k _ (Ne.symm h)]
  | clear k' =>
    by_cases h : k' = k
    · subst h; simp [TA.step, TA.clear, owedStep, TA.get_set_self]
    · simp [TA.step, TA.clear, owedStep, h, TA.get_set_other b k' k _ (Ne.symm h)]

theorem TA.run_get (b : TA) (k : String) (ops : List TAOp) :
    (b.run ops).get k = ops.foldl (owedStep k) (b.get k) := by
  induction ops generalizing b with
  | nil => rfl
  | cons op r ih => rw [TA.run, List.foldl_cons, ← TA.run, ih, TA.step_get]; rfl

/-- **Typeahead: store, then get, returns exactly the stored keys, once.**  After any history of
    `store_typeahead` / `get_typeahead` / `clear_typeahead` calls on any inputs, `get_typeahead(k)`
    returns exactly the key presses stored for `k` since its last get / clear, in order; a second
    get returns nothing; the other inputs' typeahead is untouched. -/
theorem typeahead_once (ops : List TAOp) (k : String) :
    let b := TA.run [] ops
    (b.take k).1 = owed k ops ∧ ((b.take k).2.take k).1 = [] ∧
    ∀ k', k' ≠ k → (b.take k).2.get k' = b.get k' := by
  refine ⟨?_, ?_, ?_⟩
  · show (TA.run [] ops).get k = _
    rw [TA.run_get]; rfl
  · simp [TA.take, TA.get_set_self]
  · intro k' h; exact TA.get_set_other _ k k' _ h

example :
    let p (c : Char) : Press := ⟨String.singleton c, [c]⟩
    let ops := [TAOp.store "fd-0" [p 'a'], .store "pipe-1" [p 'x'], .store "fd-0" [p 'b', p 'c'], .take "pipe-1",
      .store "fd-0" [p 'd']]
    ((TA.run [] ops).take "fd-0").1 = [p 'a', p 'b', p 'c', p 'd'] ∧ owed "pipe-1" ops = [] := by decide

end Ptk.C03.Utf8
