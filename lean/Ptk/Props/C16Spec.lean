/-
  C16, round 2 — SPEC and refinement.

  `visitFwd` / `visitBwd` say, as plain lists built from the LENGTHS of the history entries only,
  in which order (entry, position) pairs are looked at by one step of `Buffer._search` from
  (working index, cursor) — including the wrap-around tail.  The refinement theorems state that the
  code's nested early-return loops (`searchOnce`, followed line by line from buffer.py / document.py)
  return exactly the FIRST pair of that list at which the needle occurs.  Soundness, nearest and
  completeness become one-line corollaries about `List.find?`; the pairs that are never visited
  (hence occurrences that can never be found) are characterised exactly.
-/
import Ptk.Props.C16
namespace Ptk.C16
open Ptk.Py

/-! ## generic: first match in an ascending / descending range -/

theorem find?_range'_some_iff (P : Nat → Bool) (a n k : Nat) :
    (List.range' a n).find? P = some k ↔
      a ≤ k ∧ k < a + n ∧ P k = true ∧ ∀ j, a ≤ j → j < k → P j = false := by
  induction n generalizing a with
  | zero => simp; omega
  | succ n ih =>
    rw [List.range'_succ, List.find?_cons]
    cases hp : P a with
    | true =>
      simp only [Option.some.injEq]
      constructor
      · rintro rfl; exact ⟨by omega, by omega, hp, by intro j h1 h2; omega⟩
      · rintro ⟨h1, h2, h3, h4⟩
        by_contra hne
        have := h4 a (by omega) (by omega)
        rw [hp] at this; cases this
    | false =>
      simp only [ih]
      constructor
      · rintro ⟨h1, h2, h3, h4⟩
        refine ⟨by omega, by omega, h3, ?_⟩
        intro j hj1 hj2
        by_cases hja : j = a
        · subst hja; exact hp
        · exact h4 j (by omega) hj2
      · rintro ⟨h1, h2, h3, h4⟩
        have : a ≠ k := by rintro rfl; rw [hp] at h3; cases h3
        exact ⟨by omega, by omega, h3, fun j hj1 hj2 => h4 j (by omega) hj2⟩

theorem find?_range'_none_iff (P : Nat → Bool) (a n : Nat) :
    (List.range' a n).find? P = none ↔ ∀ j, a ≤ j → j < a + n → P j = false := by
  simp only [List.find?_eq_none, List.mem_range'_1, Bool.not_eq_true]
  constructor
  · intro h j h1 h2; exact h j ⟨h1, h2⟩
  · intro h j ⟨h1, h2⟩; exact h j h1 h2

theorem find?_range_rev_some_iff (P : Nat → Bool) (n k : Nat) :
    (List.range n).reverse.find? P = some k ↔
      k < n ∧ P k = true ∧ ∀ j, k < j → j < n → P j = false := by
  induction n with
  | zero => simp
  | succ n ih =>
    rw [List.range_succ, List.reverse_append]
    simp only [List.reverse_cons, List.reverse_nil, List.nil_append, List.cons_append, List.find?_cons]
    cases hp : P n with
    | true =>
      simp only [Option.some.injEq]
      constructor
      · rintro rfl; exact ⟨by omega, hp, by intro j h1 h2; omega⟩
      · rintro ⟨h1, h2, h3⟩
        by_contra hne
        have := h3 n (by omega) (by omega)
        rw [hp] at this; cases this
    | false =>
      simp only [ih]
      constructor
      · rintro ⟨h1, h2, h3⟩
        refine ⟨by omega, h2, ?_⟩
        intro j hj1 hj2
        by_cases hjn : j = n
        · subst hjn; exact hp
        · exact h3 j hj1 (by omega)
      · rintro ⟨h1, h2, h3⟩
        have : k ≠ n := by rintro rfl; rw [hp] at h2; cases h2
        exact ⟨by omega, h2, fun j hj1 hj2 => h3 j hj1 (by omega)⟩

theorem find?_range_rev_none_iff (P : Nat → Bool) (n : Nat) :
    (List.range n).reverse.find? P = none ↔ ∀ j, j < n → P j = false := by
  simp [List.find?_eq_none]

/-- an early-return loop over candidate entries is a `find?` over the concatenated per-entry
    visit lists -/
theorem firstSome_eq_find? {β : Type} (f : Nat → Option β) (g : Nat → List β) (P : β → Bool)
    (l : List Nat) (h : ∀ i ∈ l, f i = (g i).find? P) :
    firstSome f l = (l.flatMap g).find? P := by
  induction l with
  | nil => rfl
  | cons i is ih =>
    simp only [firstSome, List.flatMap_cons, List.find?_append]
    rw [h i (by simp)]
    cases (g i).find? P with
    | some r => rfl
    | none => simpa using ih (fun j hj => h j (by simp [hj]))

/-! ## the SPEC: in which order (entry, position) pairs are looked at -/

/-- the needle occurs in `t` at `p` (Bool form of `OccAt`) -/
def occB (eq : Char → Char → Bool) (sub t : Text) (p : Nat) : Bool :=
  decide (p ≤ t.length) && prefixBy eq sub (t.drop p)

theorem occB_iff (eq : Char → Char → Bool) (sub t : Text) (p : Nat) :
    occB eq sub t p = true ↔ OccAt eq sub t p := by
  rw [occAt_iff_prefixBy]; simp [occB]

theorem occB_false_iff (eq : Char → Char → Bool) (sub t : Text) (p : Nat) :
    occB eq sub t p = false ↔ ¬ OccAt eq sub t p := by
  rw [← occB_iff]; simp

/-- the test applied to a visited pair -/
def hit (eq : Char → Char → Bool) (ls : List Text) (sub : Text) (p : Nat × Nat) : Bool :=
  occB eq sub (entry ls p.1) p.2

/-- positions `a, a+1, …, len` of one entry, ascending -/
def upFrom (len a : Nat) : List Nat := List.range' a (len + 1 - a)

/-- positions `p` with `p + m ≤ c`, descending: `c-m, …, 1, 0` (none if the needle is longer) -/
def downFrom (c m : Nat) : List Nat := if m ≤ c then (List.range (c - m + 1)).reverse else []

/-- the entries a forward search looks at after the current one: the later ones in order,
    then (wrap-around) entry 0 — and nothing else -/
def fwdEntries (n w : Nat) : List Nat := List.range' (w + 1) (n - (w + 1)) ++ [0]

/-- FORWARD visit order from (w, c): the current entry from the cursor (from the next position when
    the current one is excluded) to its end, then every later entry from its start, then entry 0
    from its start -/
def visitFwd (ls : List Text) (w c : Nat) (incl : Bool) : List (Nat × Nat) :=
  (upFrom (entry ls w).length (c + lo incl)).map (fun p => (w, p)) ++
  (fwdEntries ls.length w).flatMap fun i => (upFrom (entry ls i).length 0).map (fun p => (i, p))

/-- BACKWARD visit order from (w, c) for a needle of length m: the positions of the current entry
    at which the needle would END at or before the cursor, descending; then every earlier entry from
    its end; then (wrap-around) the last entry from its end -/
def visitBwd (ls : List Text) (m w c : Nat) : List (Nat × Nat) :=
  (downFrom c m).map (fun p => (w, p)) ++
  ((List.range w).reverse ++ [ls.length - 1]).flatMap fun i =>
    (downFrom (entry ls i).length m).map (fun p => (i, p))

/-! ## refinement: the code's loops compute exactly "first hit in visit order" -/

theorem fwdCands_eq (n w : Nat) (hw : w < n) : fwdCands n w = fwdEntries n w := by
  unfold fwdCands fwdEntries
  have : n - w = (n - (w + 1)) + 1 := by omega
  rw [this, List.range'_concat, List.map_append]
  simp only [List.map_cons, List.map_nil]
  congr 1
  · conv => rhs; rw [← List.map_id (List.range' (w + 1) (n - (w + 1)))]
    apply List.map_congr_left
    intro i hi
    simp [List.mem_range'_1] at hi
    exact Nat.mod_eq_of_lt (by omega)
  · have : w + 1 + (n - (w + 1)) = n := by omega
    simp [this]

/-- `Document.find` = first hit among the positions from the cursor on -/
theorem docFind_eq_find? (eq : Char → Char → Bool) (t : Text) (c : Nat) (sub : Text) (incl : Bool)
    (hc : c ≤ t.length) :
    (docFind eq t c sub incl).map (fun k => c + k) =
      (upFrom t.length (c + lo incl)).find? (occB eq sub t) := by
  unfold upFrom
  cases hd : docFind eq t c sub incl with
  | some k =>
    obtain ⟨h1, h2, h3⟩ := (docFind_some_iff eq t c sub incl k hc).1 hd
    symm
    rw [Option.map_some, find?_range'_some_iff]
    have := occAt_le h2
    refine ⟨by omega, by omega, (occB_iff ..).2 h2, ?_⟩
    intro j hj1 hj2
    rw [occB_false_iff]
    have := h3 (j - c) (by omega) (by omega)
    rwa [show c + (j - c) = j by omega] at this
  | none =>
    have h := (docFind_none_iff eq t c sub incl hc).1 hd
    symm
    rw [Option.map_none, find?_range'_none_iff]
    intro j hj1 _
    rw [occB_false_iff]
    have := h (j - c) (by omega)
    rwa [show c + (j - c) = j by omega] at this

/-- `Document.find_backwards` = first hit among the positions where the needle ends at or before
    the cursor, going down -/
theorem docFindBack_eq_find? (eq : Char → Char → Bool) (t : Text) (c : Nat) (sub : Text)
    (hc : c ≤ t.length) :
    (docFindBack eq t c sub).map (fun k => ((c : Int) + k).toNat) =
      (downFrom c sub.length).find? (occB eq sub t) := by
  unfold downFrom
  cases hd : docFindBack eq t c sub with
  | some k =>
    obtain ⟨p, rfl, h1, h2, h3⟩ := (docFindBack_some_iff eq t c sub k hc).1 hd
    symm
    rw [if_pos (by omega), Option.map_some, find?_range_rev_some_iff]
    have : ((c : Int) + ((p : Int) - (c : Int))).toNat = p := by omega
    rw [this]
    refine ⟨by omega, (occB_iff ..).2 h2, ?_⟩
    intro j hj1 hj2
    rw [occB_false_iff]
    exact h3 j hj1 (by omega)
  | none =>
    have h := (docFindBack_none_iff eq t c sub hc).1 hd
    symm
    rw [Option.map_none]
    split
    · rw [find?_range_rev_none_iff]
      intro j hj
      rw [occB_false_iff]
      exact h j (by omega)
    · rfl

theorem find?_map_pair (P : Nat × Nat → Bool) (i : Nat) (l : List Nat) :
    (l.map (fun p => (i, p))).find? P = (l.find? (fun p => P (i, p))).map (fun p => (i, p)) := by
  induction l with
  | nil => rfl
  | cons x xs ih =>
    simp only [List.map_cons, List.find?_cons]
    cases P (i, x) <;> simp [ih]

/-- REFINEMENT, forward: one step of `Buffer._search` = the first hit in `visitFwd` order -/
theorem searchOnce_fwd_eq_spec (eq : Char → Char → Bool) (ls : List Text) (sub : Text) (incl : Bool)
    (w c : Nat) (hwf : WF ls (w, c)) :
    searchOnce eq ls sub .fwd incl (w, c) = (visitFwd ls w c incl).find? (hit eq ls sub) := by
  obtain ⟨hw, hc⟩ := hwf
  simp only at hw hc
  simp only [searchOnce, visitFwd, List.find?_append, find?_map_pair]
  have h1 := docFind_eq_find? eq (entry ls w) c sub incl hc
  have hcur : (upFrom (entry ls w).length (c + lo incl)).find? (fun p => hit eq ls sub (w, p)) =
      (docFind eq (entry ls w) c sub incl).map (fun k => c + k) := by
    rw [h1]; rfl
  rw [hcur, fwdCands_eq _ _ hw]
  have hrest : firstSome (fun i => (docFind eq (entry ls i) 0 sub true).map fun k => (i, k))
      (fwdEntries ls.length w) =
      ((fwdEntries ls.length w).flatMap fun i =>
        (upFrom (entry ls i).length 0).map (fun p => (i, p))).find? (hit eq ls sub) := by
    apply firstSome_eq_find?
    intro i _
    rw [find?_map_pair]
    have := docFind_eq_find? eq (entry ls i) 0 sub true (by omega)
    simp only [Nat.zero_add, lo, if_true] at this
    have h2 : (upFrom (entry ls i).length 0).find? (fun p => hit eq ls sub (i, p)) =
        (docFind eq (entry ls i) 0 sub true) := by
      rw [show (fun p => hit eq ls sub (i, p)) = occB eq sub (entry ls i) from rfl, ← this]
      simp
    rw [h2]
  rw [hrest]
  cases docFind eq (entry ls w) c sub incl with
  | some k => simp
  | none => simp

/-- REFINEMENT, backward: one step = the first hit in `visitBwd` order -/
theorem searchOnce_bwd_eq_spec (eq : Char → Char → Bool) (ls : List Text) (sub : Text) (incl : Bool)
    (w c : Nat) (hwf : WF ls (w, c)) :
    searchOnce eq ls sub .bwd incl (w, c) = (visitBwd ls sub.length w c).find? (hit eq ls sub) := by
  obtain ⟨hw, hc⟩ := hwf
  simp only at hw hc
  simp only [searchOnce, visitBwd, List.find?_append, find?_map_pair, bwdCands]
  have h1 := docFindBack_eq_find? eq (entry ls w) c sub hc
  have hcur : (downFrom c sub.length).find? (fun p => hit eq ls sub (w, p)) =
      (docFindBack eq (entry ls w) c sub).map (fun k => ((c : Int) + k).toNat) := by
    rw [h1]; rfl
  rw [hcur]
  have hrest : firstSome (fun i => (docFindBack eq (entry ls i) (entry ls i).length sub).map
        fun k => (i, (((entry ls i).length : Int) + k).toNat))
      ((List.range w).reverse ++ [ls.length - 1]) =
      (((List.range w).reverse ++ [ls.length - 1]).flatMap fun i =>
        (downFrom (entry ls i).length sub.length).map (fun p => (i, p))).find? (hit eq ls sub) := by
    apply firstSome_eq_find?
    intro i _
    rw [find?_map_pair]
    have := docFindBack_eq_find? eq (entry ls i) (entry ls i).length sub (Nat.le_refl _)
    rw [show (fun p => hit eq ls sub (i, p)) = occB eq sub (entry ls i) from rfl, ← this]
    simp [Option.map_map, Function.comp_def]
  rw [hrest]
  cases docFindBack eq (entry ls w) c sub with
  | some k => simp
  | none => simp

/-! ## which pairs are visited at all -/

theorem mem_upFrom (len a p : Nat) : p ∈ upFrom len a ↔ a ≤ p ∧ p ≤ len := by
  simp [upFrom, List.mem_range'_1]; omega

theorem mem_downFrom (c m p : Nat) : p ∈ downFrom c m ↔ p + m ≤ c := by
  unfold downFrom
  split <;> simp <;> omega

theorem mem_fwdEntries (n w i : Nat) : i ∈ fwdEntries n w ↔ (w < i ∧ i < n) ∨ i = 0 := by
  simp [fwdEntries, List.mem_range'_1]; omega

theorem mem_visitFwd_iff (ls : List Text) (w c : Nat) (incl : Bool) (j q : Nat) :
    (j, q) ∈ visitFwd ls w c incl ↔
      (j = w ∧ c + lo incl ≤ q ∧ q ≤ (entry ls w).length) ∨
      (w < j ∧ j < ls.length ∧ q ≤ (entry ls j).length) ∨
      (j = 0 ∧ q ≤ (entry ls 0).length) := by
  simp only [visitFwd, List.mem_append, List.mem_map, List.mem_flatMap, Prod.mk.injEq, mem_upFrom,
    mem_fwdEntries]
  constructor
  · rintro (⟨p, hp, rfl, rfl⟩ | ⟨i, hi, p, hp, rfl, rfl⟩)
    · left; exact ⟨rfl, hp.1, hp.2⟩
    · rcases hi with ⟨h1, h2⟩ | rfl
      · right; left; exact ⟨h1, h2, hp.2⟩
      · right; right; exact ⟨rfl, hp.2⟩
  · rintro (⟨rfl, h1, h2⟩ | ⟨h1, h2, h3⟩ | ⟨rfl, h1⟩)
    · left; exact ⟨q, ⟨h1, h2⟩, rfl, rfl⟩
    · right; exact ⟨j, Or.inl ⟨h1, h2⟩, q, ⟨by omega, h3⟩, rfl, rfl⟩
    · right; exact ⟨0, Or.inr rfl, q, ⟨by omega, h1⟩, rfl, rfl⟩

theorem mem_visitBwd_iff (ls : List Text) (m w c : Nat) (j q : Nat) :
    (j, q) ∈ visitBwd ls m w c ↔
      (j = w ∧ q + m ≤ c) ∨ (j < w ∧ q + m ≤ (entry ls j).length) ∨
      (j = ls.length - 1 ∧ q + m ≤ (entry ls (ls.length - 1)).length) := by
  simp only [visitBwd, List.mem_append, List.mem_map, List.mem_flatMap, Prod.mk.injEq, mem_downFrom,
    List.mem_reverse, List.mem_range, List.mem_singleton]
  constructor
  · rintro (⟨p, hp, rfl, rfl⟩ | ⟨i, hi, p, hp, rfl, rfl⟩)
    · left; exact ⟨rfl, hp⟩
    · rcases hi with h1 | rfl
      · right; left; exact ⟨h1, hp⟩
      · right; right; exact ⟨rfl, hp⟩
  · rintro (⟨rfl, h1⟩ | ⟨h1, h2⟩ | ⟨rfl, h1⟩)
    · left; exact ⟨q, h1, rfl, rfl⟩
    · right; exact ⟨j, Or.inl h1, q, h2, rfl, rfl⟩
    · right; exact ⟨_, Or.inr rfl, q, h1, rfl, rfl⟩

/-! ## soundness / nearest / completeness as corollaries of the refinement -/

theorem hit_iff (eq : Char → Char → Bool) (ls : List Text) (sub : Text) (j q : Nat) :
    hit eq ls sub (j, q) = true ↔ OccAt eq sub (entry ls j) q := occB_iff ..

/-- the visit order of a direction -/
def visit (ls : List Text) (sub : Text) (dir : Dir) (incl : Bool) (p : Nat × Nat) : List (Nat × Nat) :=
  match dir with
  | .fwd => visitFwd ls p.1 p.2 incl
  | .bwd => visitBwd ls sub.length p.1 p.2

/-- REFINEMENT (both directions): model = spec -/
theorem searchOnce_eq_spec (eq : Char → Char → Bool) (ls : List Text) (sub : Text) (dir : Dir)
    (incl : Bool) (p : Nat × Nat) (hwf : WF ls p) :
    searchOnce eq ls sub dir incl p = (visit ls sub dir incl p).find? (hit eq ls sub) := by
  obtain ⟨w, c⟩ := p
  cases dir with
  | fwd => exact searchOnce_fwd_eq_spec eq ls sub incl w c hwf
  | bwd => exact searchOnce_bwd_eq_spec eq ls sub incl w c hwf

/-- SOUND + NEAREST in one statement: the result is a visited pair where the needle occurs, and
    every pair visited BEFORE it is a place where the needle does not occur -/
theorem spec_first (eq : Char → Char → Bool) (ls : List Text) (sub : Text) (dir : Dir)
    (incl : Bool) (p r : Nat × Nat) (hwf : WF ls p)
    (h : searchOnce eq ls sub dir incl p = some r) :
    OccAt eq sub (entry ls r.1) r.2 ∧
      ∃ before after, visit ls sub dir incl p = before ++ r :: after ∧
        ∀ x ∈ before, ¬ OccAt eq sub (entry ls x.1) x.2 := by
  rw [searchOnce_eq_spec eq ls sub dir incl p hwf] at h
  obtain ⟨hr, before, after, hsplit, hbefore⟩ := List.find?_eq_some_iff_append.1 h
  refine ⟨(hit_iff ..).1 hr, before, after, hsplit, ?_⟩
  intro x hx hocc
  have := hbefore x hx
  rw [(hit_iff eq ls sub x.1 x.2).2 hocc] at this
  simp at this

/-- COMPLETE, exactly: a step finds something iff the needle occurs at SOME visited pair -/
theorem spec_some_iff (eq : Char → Char → Bool) (ls : List Text) (sub : Text) (dir : Dir)
    (incl : Bool) (p : Nat × Nat) (hwf : WF ls p) :
    (∃ r, searchOnce eq ls sub dir incl p = some r) ↔
      ∃ x ∈ visit ls sub dir incl p, OccAt eq sub (entry ls x.1) x.2 := by
  rw [searchOnce_eq_spec eq ls sub dir incl p hwf]
  constructor
  · rintro ⟨r, h⟩
    exact ⟨r, List.mem_of_find?_eq_some h, (hit_iff ..).1 (List.find?_some h)⟩
  · rintro ⟨x, hx, hocc⟩
    cases h : (visit ls sub dir incl p).find? (hit eq ls sub) with
    | some r => exact ⟨r, rfl⟩
    | none =>
      rw [List.find?_eq_none] at h
      exact absurd ((hit_iff eq ls sub x.1 x.2).2 hocc) (h x hx)

/-- everything AHEAD (in the sense of the property) is visited — before the wrap-around part —
    so the wrap-around restriction does not touch "finds an occurrence whenever one exists ahead" -/
theorem aheadF_visited (ls : List Text) (w c : Nat) (incl : Bool) (j q : Nat)
    (hj : j < ls.length) (hq : q ≤ (entry ls j).length) (hah : AheadF incl w c j q) :
    (j, q) ∈ visitFwd ls w c incl := by
  rw [mem_visitFwd_iff]
  rcases hah with ⟨rfl, h⟩ | h
  · left; exact ⟨rfl, h, hq⟩
  · right; left; exact ⟨h, hj, hq⟩

theorem aheadB_visited (ls : List Text) (sub : Text) (w c : Nat) (j q : Nat)
    (hq : q + sub.length ≤ (entry ls j).length) (hah : AheadB sub w c j q) :
    (j, q) ∈ visitBwd ls sub.length w c := by
  rw [mem_visitBwd_iff]
  rcases hah with ⟨rfl, h⟩ | h
  · left; exact ⟨rfl, h⟩
  · right; left; exact ⟨h, hq⟩

/-- EXACT completeness under wrap-around, forward: an occurrence (j, q) can never be the result of
    a step from (w, c) iff it lies in an entry strictly between entry 0 and the current one, or in the
    current entry (not entry 0) before the start position -/
theorem never_visited_fwd (ls : List Text) (w c : Nat) (incl : Bool) (j q : Nat)
    (hw : w < ls.length) (hj : j < ls.length) (hq : q ≤ (entry ls j).length) :
    (j, q) ∉ visitFwd ls w c incl ↔ (0 < j ∧ j < w) ∨ (j = w ∧ w ≠ 0 ∧ q < c + lo incl) := by
  rw [mem_visitFwd_iff]
  constructor
  · intro h
    by_cases h1 : j = w
    · right
      subst h1
      refine ⟨rfl, ?_, ?_⟩
      · rintro rfl; exact h (Or.inr (Or.inr ⟨rfl, hq⟩))
      · by_contra hlt; exact h (Or.inl ⟨rfl, by omega, hq⟩)
    · left
      by_cases h2 : j = 0
      · subst h2; exact absurd (Or.inr (Or.inr ⟨rfl, hq⟩)) h
      · by_cases h3 : w < j
        · exact absurd (Or.inr (Or.inl ⟨h3, hj, hq⟩)) h
        · omega
  · rintro (⟨h1, h2⟩ | ⟨rfl, h2, h3⟩) <;> rintro (⟨h, _⟩ | ⟨h, _⟩ | ⟨h, _⟩) <;> omega

/-- … and backward: entries strictly between the current one and the last one, or in the current
    entry (not the last) when the occurrence ends behind the cursor -/
theorem never_visited_bwd (ls : List Text) (m w c : Nat) (j q : Nat)
    (hw : w < ls.length) (hj : j < ls.length) (hq : q + m ≤ (entry ls j).length) :
    (j, q) ∉ visitBwd ls m w c ↔
      (w < j ∧ j < ls.length - 1) ∨ (j = w ∧ w ≠ ls.length - 1 ∧ c < q + m) := by
  rw [mem_visitBwd_iff]
  constructor
  · intro h
    by_cases h1 : j = w
    · right
      subst h1
      refine ⟨rfl, ?_, ?_⟩
      · intro hl; exact h (Or.inr (Or.inr ⟨hl, by rw [← hl]; exact hq⟩))
      · by_contra hlt; exact h (Or.inl ⟨rfl, by omega⟩)
    · left
      by_cases h2 : j = ls.length - 1
      · exact absurd (Or.inr (Or.inr ⟨h2, by rw [← h2]; exact hq⟩)) h
      · by_cases h3 : j < w
        · exact absurd (Or.inr (Or.inl ⟨h3, hq⟩)) h
        · omega
  · rintro (⟨h1, h2⟩ | ⟨rfl, h2, h3⟩) <;> rintro (⟨h, _⟩ | ⟨h, _⟩ | ⟨h, _⟩) <;> omega

/-- so: a forward step fails exactly when EVERY occurrence of the needle lies in the region that
    is never visited -/
theorem fwd_none_iff_unreachable (eq : Char → Char → Bool) (ls : List Text) (sub : Text)
    (incl : Bool) (w c : Nat) (hwf : WF ls (w, c)) :
    searchOnce eq ls sub .fwd incl (w, c) = none ↔
      ∀ j q, Occ eq ls sub j q → (0 < j ∧ j < w) ∨ (j = w ∧ w ≠ 0 ∧ q < c + lo incl) := by
  have hw : w < ls.length := hwf.1
  have key := spec_some_iff eq ls sub .fwd incl (w, c) hwf
  constructor
  · intro h j q ⟨hj, hocc⟩
    have hq : q ≤ (entry ls j).length := by have := occAt_le hocc; omega
    rw [← never_visited_fwd ls w c incl j q hw hj hq]
    intro hmem
    obtain ⟨r, hr⟩ := key.2 ⟨(j, q), hmem, hocc⟩
    rw [h] at hr; cases hr
  · intro h
    cases hs : searchOnce eq ls sub .fwd incl (w, c) with
    | none => rfl
    | some r =>
      obtain ⟨x, hx, hocc⟩ := key.1 ⟨r, hs⟩
      have hxj : x.1 < ls.length := by
        have := (mem_visitFwd_iff ls w c incl x.1 x.2).1 hx
        rcases this with ⟨h1, _⟩ | ⟨_, h1, _⟩ | ⟨h1, _⟩ <;> omega
      have hq : x.2 ≤ (entry ls x.1).length := by have := occAt_le hocc; omega
      exact absurd hx ((never_visited_fwd ls w c incl x.1 x.2 hw hxj hq).2 (h x.1 x.2 ⟨hxj, hocc⟩))


theorem bwd_none_iff_unreachable (eq : Char → Char → Bool) (ls : List Text) (sub : Text)
    (incl : Bool) (w c : Nat) (hwf : WF ls (w, c)) :
    searchOnce eq ls sub .bwd incl (w, c) = none ↔
      ∀ j q, Occ eq ls sub j q →
        (w < j ∧ j < ls.length - 1) ∨ (j = w ∧ w ≠ ls.length - 1 ∧ c < q + sub.length) := by
  have hw : w < ls.length := hwf.1
  have key := spec_some_iff eq ls sub .bwd incl (w, c) hwf
  constructor
  · intro h j q ⟨hj, hocc⟩
    have hq := occAt_le hocc
    rw [← never_visited_bwd ls sub.length w c j q hw hj hq]
    intro hmem
    obtain ⟨r, hr⟩ := key.2 ⟨(j, q), hmem, hocc⟩
    rw [h] at hr; cases hr
  · intro h
    cases hs : searchOnce eq ls sub .bwd incl (w, c) with
    | none => rfl
    | some r =>
      obtain ⟨x, hx, hocc⟩ := key.1 ⟨r, hs⟩
      have hxj : x.1 < ls.length := by
        have := (mem_visitBwd_iff ls sub.length w c x.1 x.2).1 hx
        rcases this with ⟨h1, _⟩ | ⟨h1, _⟩ | ⟨h1, _⟩ <;> omega
      have hq := occAt_le hocc
      exact absurd hx ((never_visited_bwd ls sub.length w c x.1 x.2 hw hxj hq).2
        (h x.1 x.2 ⟨hxj, hocc⟩))

/-- COMPLETE AHEAD as a corollary of the refinement (forward; cf. `search_complete_fwd`) -/
theorem complete_ahead_from_spec (eq : Char → Char → Bool) (ls : List Text) (sub : Text) (incl : Bool)
    (w c : Nat) (hwf : WF ls (w, c)) (j q : Nat) (hocc : Occ eq ls sub j q)
    (hah : AheadF incl w c j q) : ∃ r, searchOnce eq ls sub .fwd incl (w, c) = some r := by
  apply (spec_some_iff eq ls sub .fwd incl (w, c) hwf).2
  have := occAt_le hocc.2
  exact ⟨(j, q), aheadF_visited ls w c incl j q hocc.1 (by omega) hah, hocc.2⟩

/-! ## repeat counts -/

/-- SPEC of `count` steps: iterate "first hit in visit order" -/
def specN (eq : Char → Char → Bool) (ls : List Text) (sub : Text) (dir : Dir) (incl : Bool) :
    Nat → Nat × Nat → Option (Nat × Nat)
  | 0, p => some p
  | k + 1, p => ((visit ls sub dir incl p).find? (hit eq ls sub)).bind (specN eq ls sub dir incl k)

/-- REFINEMENT for every repeat count -/
theorem searchN_eq_specN (eq : Char → Char → Bool) (ls : List Text) (sub : Text) (dir : Dir)
    (incl : Bool) (k : Nat) (p : Nat × Nat) (hwf : WF ls p) :
    searchN eq ls sub dir incl k p = specN eq ls sub dir incl k p := by
  induction k generalizing p with
  | zero => rfl
  | succ k ih =>
    simp only [searchN, specN]
    rw [← searchOnce_eq_spec eq ls sub dir incl p hwf]
    cases hs : searchOnce eq ls sub dir incl p with
    | none => rfl
    | some p' => exact ih p' (search_wf eq ls sub dir incl p p' hwf hs)

/-- `Buffer._search` as a whole refines the spec -/
theorem search_eq_spec (eq : Char → Char → Bool) (b : Buf) (sub : Text) (dir : Dir) (incl : Bool)
    (k : Nat) (hwf : BufWF b) :
    search eq b sub dir incl k = specN eq b.lines sub dir incl k (b.widx, b.cur) :=
  searchN_eq_specN eq b.lines sub dir incl k _ hwf

/-! ## non-vacuity and the witnesses (replayed on the real code: corpus/C16/observations.json,
    corpus/C16/round2_spec.json) -/

section examples

private def ab : Text := ['a', 'b']
private def H3 : List Text := [['x'], ['a', 'b'], ['y']]
private def L1 : List Text := [['a', 'b'], ['x', 'a', 'b', ' ', 'a', 'b']]

-- the visit orders themselves
example : visitFwd L1 1 4 false = [(1, 5), (1, 6), (0, 0), (0, 1), (0, 2)] := by decide
example : visitFwd L1 0 1 true = [(0, 1), (0, 2), (1, 0), (1, 1), (1, 2), (1, 3), (1, 4), (1, 5), (1, 6),
    (0, 0), (0, 1), (0, 2)] := by decide
example : visitBwd L1 2 1 3 = [(1, 1), (1, 0), (0, 0), (1, 4), (1, 3), (1, 2), (1, 1), (1, 0)] := by decide
-- refinement on a state where the step crosses into the history entry (backward) …
example : WF L1 (1, 1) ∧ searchOnce eqCS L1 ab .bwd false (1, 1) = some (0, 0) ∧
    (visitBwd L1 2 1 1).find? (hit eqCS L1 ab) = some (0, 0) := ⟨by unfold WF; decide, by decide, by decide⟩
-- … and with a repeat count (specN)
example : specN eqCS L1 ab .bwd false 3 (1, 6) = some (0, 0) ∧ searchN eqCS L1 ab .bwd false 3 (1, 6) = some (0, 0) :=
  ⟨by decide, by decide⟩

/-- WITNESS (never visited): history "x", "ab", "y"; from the last entry a forward step visits
    (2,1), then wraps to entry 0 only — entry 1 is never looked at, the occurrence there can not be
    found (`fwd_none_iff_unreachable`: 0 < 1 < 2); backward from entry 0 likewise.
    Not a violation: the occurrence is not AHEAD in the direction of travel. -/
example : visitFwd H3 2 0 false = [(2, 1), (0, 0), (0, 1)] ∧
    searchOnce eqCS H3 ab .fwd false (2, 0) = none ∧ hit eqCS H3 ab (1, 0) = true ∧
    visitBwd H3 2 0 1 = [] ∧ searchOnce eqCS H3 ab .bwd false (0, 1) = none := by decide
/-- WITNESS (current entry, before the cursor): "ab ab" in entry 1 of 2, cursor behind both: a forward
    step wraps to entry 0 and never returns to positions 0..cursor of entry 1 -/
example : searchOnce eqCS [['x'], ['a', 'b', ' ', 'a', 'b']] ab .fwd false (1, 3) = none ∧
    (1, 0) ∉ visitFwd [['x'], ['a', 'b', ' ', 'a', 'b']] 1 3 false := by decide
/-- … whereas in entry 0 the wrap-around DOES come back to the start of the current entry -/
example : searchOnce eqCS [['a', 'b', ' ', 'a', 'b']] ab .fwd false (0, 3) = some (0, 0) := by decide

end examples

end Ptk.C16
