/-
  C05 — lemmas for the extended Buffer API (`Ptk.Model.C05Api`, theorems in `Ptk.Props.C05Api`).
-/
import Ptk.Props.C05Lemmas
import Ptk.Model.C05Api
namespace Ptk.C05
open Ptk.Py

/-! ### the old API only ever clears `complete_state` / `yank_nth_arg_state` -/

/-- `b'` holds the same completion / yank state as `b`, or none -/
def Wk (b b' : Buf) : Prop :=
  (b'.comp = b.comp ∨ b'.comp = none) ∧ (b'.yank = b.yank ∨ b'.yank = none)

theorem Wk.refl (b : Buf) : Wk b b := ⟨Or.inl rfl, Or.inl rfl⟩

theorem Wk.trans {a b c : Buf} (h1 : Wk a b) (h2 : Wk b c) : Wk a c := by
  obtain ⟨c1, y1⟩ := h1
  obtain ⟨c2, y2⟩ := h2
  constructor
  · rcases c2 with h | h
    · rcases c1 with g | g
      · exact Or.inl (h.trans g)
      · exact Or.inr (h.trans g)
    · exact Or.inr h
  · rcases y2 with h | h
    · rcases y1 with g | g
      · exact Or.inl (h.trans g)
      · exact Or.inr (h.trans g)
    · exact Or.inr h

theorem wk_of_eq {b b' : Buf} (hc : b'.comp = b.comp) (hy : b'.yank = b.yank) : Wk b b' :=
  ⟨Or.inl hc, Or.inl hy⟩

theorem wk_cursorChanged (b : Buf) (o c : Nat) : Wk b (cursorChanged b o c) := by
  unfold cursorChanged
  split
  · exact ⟨Or.inr rfl, Or.inr rfl⟩
  · exact Wk.refl b

theorem wk_setCursor (b : Buf) (v : Int) : Wk b (setCursor b v) := by
  unfold setCursor
  exact Wk.trans (wk_of_eq (b' := { b with cur := _ }) rfl rfl) (wk_cursorChanged _ _ _)

theorem wk_writeText (b : Buf) (v : Text) (c : Nat) : Wk b (writeText b v c) := by
  unfold writeText
  refine Wk.trans ?_ (wk_cursorChanged _ _ _)
  split
  · exact ⟨Or.inr rfl, Or.inr rfl⟩
  · exact wk_of_eq rfl rfl

theorem wk_setText (b : Buf) (v : Text) : Wk b (setText b v).1 := by
  unfold setText
  have h1 : Wk b (if b.cur > v.length then setCursor b v.length else b) := by
    split
    · exact wk_setCursor _ _
    · exact Wk.refl b
  generalize (if b.cur > v.length then setCursor b v.length else b) = b1 at h1
  simp only []
  split
  · exact h1
  · exact Wk.trans h1 (wk_writeText _ _ _)

theorem wk_setDocument (b : Buf) (t : Text) (c : Int) (bp : Bool) : Wk b (setDocument b t c bp).1 := by
  unfold setDocument
  split
  · exact Wk.refl b
  · split
    · exact Wk.refl b
    · exact wk_writeText _ _ _

theorem wk_setWorkingIndex (b : Buf) (i : Nat) : Wk b (setWorkingIndex b i).1 := by
  unfold setWorkingIndex
  split
  · simp only []
    split
    · exact ⟨Or.inr rfl, Or.inr rfl⟩
    · exact wk_of_eq rfl rfl
  · exact Wk.refl b

theorem wk_andThen (b : Buf) (r : Buf × Outcome) (f : Buf → Buf × Outcome) (h1 : Wk b r.1)
    (h2 : ∀ x, Wk x (f x).1) : Wk b (andThen r f).1 := by
  obtain ⟨b1, o⟩ := r
  cases o <;> simp only [andThen] <;> first | exact Wk.trans h1 (h2 b1) | exact h1

theorem wk_undoLoop (b : Buf) : ∀ st, Wk b (undoLoop b st).1
  | [] => wk_of_eq rfl rfl
  | (t, p) :: rest => by
    simp only [undoLoop]
    split
    · exact Wk.trans (wk_of_eq (b' := { b with undo := rest, redo := (b.text, b.cur) :: b.redo }) rfl rfl)
        (wk_setDocument _ _ _ _)
    · exact wk_undoLoop b rest

theorem wk_saveUndo (b : Buf) (cl : Bool) : Wk b (saveUndo b cl) := wk_of_eq rfl rfl

theorem wk_histLoop : ∀ (is : List Nat) (count : Int) (found : Bool) (b : Buf), Wk b (histLoop is count found b).1
  | [], _, _, b => Wk.refl b
  | i :: rest, count, found, b => by
    simp only [histLoop]
    split
    · have h1 := wk_setWorkingIndex b i
      revert h1
      generalize setWorkingIndex b i = r
      obtain ⟨b1, o⟩ := r
      intro h1
      cases o <;> simp only []
      · split
        · exact h1
        · exact Wk.trans h1 (wk_histLoop rest _ _ b1)
      all_goals exact h1
    · split
      · exact Wk.refl b
      · exact wk_histLoop rest count found b

theorem wk_setHistorySearch (b : Buf) : Wk b (setHistorySearch b) := by
  unfold setHistorySearch
  split
  · split
    · exact wk_of_eq rfl rfl
    · exact Wk.refl b
  · exact wk_of_eq rfl rfl

theorem wk_historyForward (b : Buf) (c : Int) : Wk b (historyForward b c).1 := by
  unfold historyForward
  simp only []
  have h0 := wk_setHistorySearch b
  have h1 := wk_histLoop ((List.range ((setHistorySearch b).lines.length - ((setHistorySearch b).idx + 1))).map
    (· + (setHistorySearch b).idx + 1)) c false (setHistorySearch b)
  revert h1
  generalize histLoop _ c false (setHistorySearch b) = r
  obtain ⟨b1, found, o⟩ := r
  intro h1
  cases o <;> simp only []
  · split
    · exact Wk.trans h0 (Wk.trans h1 (Wk.trans (wk_setCursor _ _) (wk_setCursor _ _)))
    · exact Wk.trans h0 h1
  all_goals exact Wk.trans h0 h1

theorem wk_historyBackward (b : Buf) (c : Int) : Wk b (historyBackward b c).1 := by
  unfold historyBackward
  simp only []
  have h0 := wk_setHistorySearch b
  have h1 := wk_histLoop (List.range (setHistorySearch b).idx).reverse c false (setHistorySearch b)
  revert h1
  generalize histLoop _ c false (setHistorySearch b) = r
  obtain ⟨b1, found, o⟩ := r
  intro h1
  cases o <;> simp only []
  · split
    · exact Wk.trans h0 (Wk.trans h1 (wk_setCursor _ _))
    · exact Wk.trans h0 h1
  all_goals exact Wk.trans h0 h1

theorem wk_insertText (b : Buf) (d : Text) (o m : Bool) : Wk b (insertText b d o m).1 := wk_setDocument _ _ _ _

theorem wk_delete (b : Buf) (n : Nat) : Wk b (delete b n).1 := by
  unfold delete
  split
  · exact wk_setText _ _
  · exact Wk.refl b

theorem wk_deleteBefore (b : Buf) (n : Nat) : Wk b (deleteBefore b n).1 := by
  unfold deleteBefore
  split
  · exact wk_setDocument _ _ _ _
  · exact Wk.refl b

/-- every call of the state-writing API of `Ptk.Model.C05` keeps or clears the completion / yank state -/
theorem wk_step (b : Buf) (op : Op) : Wk b (step b op).1 := by
  cases op with
  | setCursor v => exact wk_setCursor _ _
  | setText t => exact wk_setText _ _
  | setDocument t c bp => exact wk_setDocument _ _ _ _
  | setWorkingIndex i => exact wk_setWorkingIndex _ _
  | reset t c =>
    simp only [step, reset]
    split
    · exact Wk.refl b
    · exact ⟨Or.inr rfl, Or.inr rfl⟩
  | saveUndo cl => exact wk_saveUndo _ _
  | undo =>
    simp only [step, undo]
    split
    · exact Wk.refl b
    · exact wk_undoLoop b b.undo
  | redo =>
    simp only [step, redo]
    split
    · exact Wk.refl b
    · split
      · exact Wk.refl b
      · exact Wk.trans (wk_of_eq (b' := { saveUndo b false with redo := (saveUndo b false).redo.drop 1 }) rfl rfl)
          (wk_setDocument _ _ _ _)
  | startSelection ty => exact wk_of_eq rfl rfl
  | exitSelection => exact wk_of_eq rfl rfl
  | appendLeft it => exact wk_of_eq rfl rfl
  | moveCursor d => exact wk_setCursor _ _
  | insertText d o m => exact wk_insertText _ _ _ _
  | delete n => exact wk_delete _ _
  | deleteBefore n => exact wk_deleteBefore _ _
  | historyForward c => exact wk_historyForward _ _
  | historyBackward c => exact wk_historyBackward _ _
  | goToHistory i =>
    simp only [step, goToHistory]
    split
    · exact wk_andThen b _ _ (wk_setWorkingIndex _ _) (fun x => wk_setCursor _ _)
    · exact Wk.refl b
  | applySearch i c =>
    simp only [step, applySearchResult]
    exact wk_andThen b _ _ (wk_setWorkingIndex _ _) (fun x => wk_setCursor _ _)
  | cutSelection t c =>
    simp only [step, cutSelection]
    exact wk_andThen b _ _ (wk_setDocument _ _ _ _) (fun x => wk_of_eq rfl rfl)

end Ptk.C05
namespace Ptk.C05
open Ptk.Py

/-- the completion state is well formed: the selected index is inside the completion list, the
    original cursor inside the original text -/
def CompOk (b : Buf) : Prop :=
  ∀ cs, b.comp = some cs → (∀ i, cs.index = some i → i < cs.comps.length) ∧ cs.origCur ≤ cs.origText.length

/-- `YankNthArgState.history_position` never points forward -/
def YankOk (b : Buf) : Prop := ∀ y, b.yank = some y → y.pos ≤ 0

/-- the invariant of the extended API -/
structure Inv2 (b : Buf) : Prop where
  inv : Inv b
  comp : CompOk b
  yank : YankOk b

theorem compOk_of_wk {b b' : Buf} (h : Wk b b') (hc : CompOk b) : CompOk b' := by
  intro cs hcs
  rcases h.1 with e | e
  · exact hc cs (by rw [← e]; exact hcs)
  · rw [e] at hcs; cases hcs

theorem yankOk_of_wk {b b' : Buf} (h : Wk b b') (hy : YankOk b) : YankOk b' := by
  intro y hys
  rcases h.2 with e | e
  · exact hy y (by rw [← e]; exact hys)
  · rw [e] at hys; cases hys

theorem inv2_of_wk {b b' : Buf} (hi : Inv b') (h : Wk b b') (h2 : Inv2 b) : Inv2 b' :=
  ⟨hi, compOk_of_wk h h2.comp, yankOk_of_wk h h2.yank⟩

/-- `Inv` does not look at the completion / yank state -/
theorem inv_aux (b : Buf) (c : Option CompSt) (y : Option YankSt) (h : Inv b) : Inv { b with comp := c, yank := y } :=
  ⟨h.idx, h.cur, h.sel, h.multi, h.undo, h.redo⟩

/-- only benign outcomes -/
def Outcome.fine (o : Outcome) : Prop := o = .ok ∨ o = .readOnly

theorem setDocument_fine (b : Buf) (t : Text) (c : Int) (bp : Bool) (hc : c ≤ t.length) :
    (setDocument b t c bp).2.fine := by
  unfold setDocument Outcome.fine
  split
  · omega
  · split <;> simp

theorem setDocument_ro (b : Buf) (t : Text) (c : Int) (bp : Bool) (h : (setDocument b t c bp).2 ≠ .ok) :
    (setDocument b t c bp).1 = b := by
  unfold setDocument at *
  split
  · rfl
  · split
    · rfl
    · rename_i h1 h2; simp [h1, h2] at h

/-! ### completions -/

theorem goToIndex_ok (cs cs1 : CompSt) (index : Option Int) (h : goToIndex cs index = some cs1)
    (hc : ∀ i, cs.index = some i → i < cs.comps.length) :
    (∀ i, cs1.index = some i → i < cs1.comps.length) ∧ cs1.origText = cs.origText ∧ cs1.origCur = cs.origCur ∧
    cs1.comps = cs.comps := by
  unfold goToIndex at h
  by_cases he : cs.comps.isEmpty = true
  · rw [if_pos he] at h; cases h; exact ⟨hc, rfl, rfl, rfl⟩
  · rw [if_neg he] at h
    cases index with
    | none => simp only [] at h; cases h; exact ⟨fun i hi => by simp at hi, rfl, rfl, rfl⟩
    | some i =>
      simp only [] at h
      by_cases hi : 0 ≤ i ∧ i < (cs.comps.length : Int)
      · rw [if_pos hi] at h; cases h
        refine ⟨?_, rfl, rfl, rfl⟩
        intro j hj
        simp only [Option.some.injEq] at hj
        simp only []
        omega
      · rw [if_neg hi] at h; cases h

theorem newTextAndPosition_ok (cs : CompSt) (hc : ∀ i, cs.index = some i → i < cs.comps.length)
    (ho : cs.origCur ≤ cs.origText.length) :
    ∃ nt nc, newTextAndPosition cs = some (nt, nc) ∧ nc ≤ nt.length := by
  unfold newTextAndPosition
  cases hi : cs.index with
  | none => exact ⟨_, _, rfl, ho⟩
  | some i =>
    have := hc i hi
    simp only []
    rw [List.getElem?_eq_getElem this]
    exact ⟨_, _, rfl, by simp⟩

theorem goToCompletion_spec (b : Buf) (index : Option Int) (h2 : Inv2 b)
    (hpre : ∃ cs, b.comp = some cs ∧ (goToIndex cs index).isSome = true) :
    Inv2 (goToCompletion b index).1 ∧ (goToCompletion b index).2.fine := by
  obtain ⟨cs, hcs, hgo⟩ := hpre
  obtain ⟨hidx, horig⟩ := h2.comp cs hcs
  unfold goToCompletion
  rw [hcs]
  simp only []
  cases hg : goToIndex cs index with
  | none => rw [hg] at hgo; cases hgo
  | some cs1 =>
    obtain ⟨h1, e1, e2, e3⟩ := goToIndex_ok cs cs1 index hg hidx
    obtain ⟨nt, nc, hnt, hle⟩ := newTextAndPosition_ok cs1 h1 (by rw [e1, e2]; exact horig)
    simp only [hnt]
    have hb0 : Inv { b with comp := some cs1 } := ⟨h2.inv.idx, h2.inv.cur, h2.inv.sel, h2.inv.multi, h2.inv.undo, h2.inv.redo⟩
    have hco : ∀ cs', some cs1 = some cs' → (∀ i, cs'.index = some i → i < cs'.comps.length) ∧
        cs'.origCur ≤ cs'.origText.length := by
      intro cs' h; cases h; exact ⟨h1, by rw [e1, e2]; exact horig⟩
    have hfine := setDocument_fine { b with comp := some cs1 } nt nc false (by omega)
    have hinv := setDocument_inv { b with comp := some cs1 } nt nc false hb0
    have hwk := wk_setDocument { b with comp := some cs1 } nt nc false
    have hro := setDocument_ro { b with comp := some cs1 } nt nc false
    revert hfine hinv hwk hro
    generalize setDocument { b with comp := some cs1 } nt (nc : Int) false = r
    obtain ⟨b1, o⟩ := r
    intro hfine hinv hwk hro
    cases o
    · simp only []
      refine ⟨⟨⟨hinv.idx, hinv.cur, hinv.sel, hinv.multi, hinv.undo, hinv.redo⟩, ?_, ?_⟩, Or.inl rfl⟩
      · intro cs' h; exact hco cs' h
      · intro y hy
        have hy' : b1.yank = some y := hy
        rcases hwk.2 with e | e
        · exact h2.yank y (by rw [← hy']; exact e.symm)
        · rw [e] at hy'; cases hy'
    · simp only []
      have : b1 = { b with comp := some cs1 } := hro (by simp)
      subst this
      exact ⟨⟨hb0, fun cs' h => hco cs' h, h2.yank⟩, Or.inr rfl⟩
    · rcases hfine with h | h <;> cases h
    · rcases hfine with h | h <;> cases h

theorem goToIndex_none_some (cs : CompSt) : (goToIndex cs none).isSome = true := by
  unfold goToIndex; split <;> rfl

theorem goToIndex_inRange (cs : CompSt) (i : Int) (h : cs.comps.isEmpty = true ∨ (0 ≤ i ∧ i < (cs.comps.length : Int))) :
    (goToIndex cs (some i)).isSome = true := by
  unfold goToIndex
  rcases h with h | h
  · rw [if_pos h]; rfl
  · split
    · rfl
    · simp only []; rw [if_pos h]; rfl

theorem fine_ok : Outcome.fine .ok := Or.inl rfl

theorem completeNext_spec (b : Buf) (count : Int) (noWrap : Bool) (h2 : Inv2 b) (hc : 0 ≤ count) :
    Inv2 (completeNext b count noWrap).1 ∧ (completeNext b count noWrap).2.fine := by
  unfold completeNext
  cases hcs : b.comp with
  | none => exact ⟨h2, fine_ok⟩
  | some cs =>
    obtain ⟨hidx, _⟩ := h2.comp cs hcs
    simp only []
    cases hi : cs.index with
    | none =>
      simp only []
      apply goToCompletion_spec b _ h2 ⟨cs, hcs, ?_⟩
      apply goToIndex_inRange
      cases hl : cs.comps with
      | nil => left; rfl
      | cons x xs => right; simp
    | some i =>
      have hlt := hidx i hi
      simp only []
      split
      · split
        · exact ⟨h2, fine_ok⟩
        · exact goToCompletion_spec b _ h2 ⟨cs, hcs, goToIndex_none_some cs⟩
      · apply goToCompletion_spec b _ h2 ⟨cs, hcs, ?_⟩
        apply goToIndex_inRange
        right
        omega

theorem completePrevious_spec (b : Buf) (count : Int) (noWrap : Bool) (h2 : Inv2 b) (hc : 0 ≤ count) :
    Inv2 (completePrevious b count noWrap).1 ∧ (completePrevious b count noWrap).2.fine := by
  unfold completePrevious
  cases hcs : b.comp with
  | none => exact ⟨h2, fine_ok⟩
  | some cs =>
    obtain ⟨hidx, _⟩ := h2.comp cs hcs
    simp only []
    cases hi : cs.index with
    | none =>
      simp only []
      apply goToCompletion_spec b _ h2 ⟨cs, hcs, ?_⟩
      apply goToIndex_inRange
      cases hl : cs.comps with
      | nil => left; rfl
      | cons x xs => right; simp; omega
    | some i =>
      have hlt := hidx i hi
      cases i with
      | zero =>
        simp only []
        split
        · exact ⟨h2, fine_ok⟩
        · exact goToCompletion_spec b _ h2 ⟨cs, hcs, goToIndex_none_some cs⟩
      | succ j =>
        simp only []
        apply goToCompletion_spec b _ h2 ⟨cs, hcs, ?_⟩
        apply goToIndex_inRange
        right
        omega

theorem inv2_comp_none (b : Buf) (h2 : Inv2 b) : Inv2 { b with comp := none } :=
  ⟨⟨h2.inv.idx, h2.inv.cur, h2.inv.sel, h2.inv.multi, h2.inv.undo, h2.inv.redo⟩,
   (fun cs h => by simp at h), h2.yank⟩

/-- sequencing two calls that keep the invariant and end well -/
theorem andThen_spec (r : Buf × Outcome) (f : Buf → Buf × Outcome) (h1 : Inv2 r.1 ∧ r.2.fine)
    (hf : ∀ x, Inv2 x → Inv2 (f x).1 ∧ (f x).2.fine) : Inv2 (andThen r f).1 ∧ (andThen r f).2.fine := by
  obtain ⟨b1, o⟩ := r
  obtain ⟨hi, ho⟩ := h1
  rcases ho with h | h
  · have : o = .ok := h
    subst this
    exact hf b1 hi
  · have : o = .readOnly := h
    subst this
    exact ⟨hi, Or.inr rfl⟩

theorem cancelCompletion_spec (b : Buf) (h2 : Inv2 b) :
    Inv2 (cancelCompletion b).1 ∧ (cancelCompletion b).2.fine := by
  unfold cancelCompletion
  split
  · rename_i hs
    obtain ⟨cs, hcs⟩ := Option.isSome_iff_exists.1 hs
    exact andThen_spec _ _ (goToCompletion_spec b none h2 ⟨cs, hcs, goToIndex_none_some cs⟩)
      (fun x hx => ⟨inv2_comp_none x hx, fine_ok⟩)
  · exact ⟨h2, fine_ok⟩

theorem fine_of_ne (o : Outcome) (h1 : o ≠ .indexError) (h2 : o ≠ .assertion) : o.fine := by
  cases o
  · exact Or.inl rfl
  · exact Or.inr rfl
  · exact absurd rfl h2
  · exact absurd rfl h1

/-! the old API calls on `Inv2` -/
theorem deleteBefore_spec (b : Buf) (n : Nat) (h2 : Inv2 b) :
    Inv2 (deleteBefore b n).1 ∧ (deleteBefore b n).2.fine :=
  ⟨inv2_of_wk (deleteBefore_inv b n h2.inv).1 (wk_deleteBefore b n) h2,
   fine_of_ne _ (deleteBefore_inv b n h2.inv).2.1 (deleteBefore_inv b n h2.inv).2.2⟩

theorem insertText_spec (b : Buf) (d : Text) (o m : Bool) (h2 : Inv2 b) :
    Inv2 (insertText b d o m).1 ∧ (insertText b d o m).2.fine :=
  ⟨inv2_of_wk (insertText_inv b d o m h2.inv).1 (wk_insertText b d o m) h2,
   fine_of_ne _ (insertText_inv b d o m h2.inv).2.1 (insertText_inv b d o m h2.inv).2.2⟩

theorem delete_spec (b : Buf) (n : Nat) (h2 : Inv2 b) : Inv2 (delete b n).1 ∧ (delete b n).2.fine :=
  ⟨inv2_of_wk (delete_inv b n h2.inv).1 (wk_delete b n) h2, (delete_inv b n h2.inv).2⟩

theorem setText_spec (b : Buf) (v : Text) (h2 : Inv2 b) : Inv2 (setText b v).1 ∧ (setText b v).2.fine :=
  ⟨inv2_of_wk (setText_inv b v h2.inv) (wk_setText b v) h2, setText_outcome b v⟩

theorem setDocument_spec (b : Buf) (t : Text) (c : Int) (bp : Bool) (h2 : Inv2 b) (hc : c ≤ t.length) :
    Inv2 (setDocument b t c bp).1 ∧ (setDocument b t c bp).2.fine :=
  ⟨inv2_of_wk (setDocument_inv b t c bp h2.inv) (wk_setDocument b t c bp) h2, setDocument_fine b t c bp hc⟩

theorem moveCursor_spec (b : Buf) (d : Int) (h2 : Inv2 b) : Inv2 (moveCursor b d) :=
  inv2_of_wk (moveCursor_inv b d h2.inv) (wk_setCursor b _) h2

theorem exitSelection_spec (b : Buf) (h2 : Inv2 b) : Inv2 (exitSelection b) :=
  inv2_of_wk (b := b) (exitSelection_inv b h2.inv) (wk_of_eq rfl rfl) h2

theorem historyBackward_spec (b : Buf) (c : Int) (h2 : Inv2 b) :
    Inv2 (historyBackward b c).1 ∧ (historyBackward b c).2.fine :=
  ⟨inv2_of_wk (historyBackward_inv b c h2.inv).1 (wk_historyBackward b c) h2, Or.inl (historyBackward_inv b c h2.inv).2⟩

theorem historyForward_spec (b : Buf) (c : Int) (h2 : Inv2 b) :
    Inv2 (historyForward b c).1 ∧ (historyForward b c).2.fine :=
  ⟨inv2_of_wk (historyForward_inv b c h2.inv).1 (wk_historyForward b c) h2, Or.inl (historyForward_inv b c h2.inv).2⟩

/-! ### apply_completion, yank-nth-arg -/

theorem applyCompletion_spec (b : Buf) (text : Text) (start : Int) (h2 : Inv2 b) (hs : start ≤ 0) :
    Inv2 (applyCompletion b text start).1 ∧ (applyCompletion b text start).2.fine := by
  unfold applyCompletion
  apply andThen_spec
  · split
    · rename_i hsome
      obtain ⟨cs, hcs⟩ := Option.isSome_iff_exists.1 hsome
      exact goToCompletion_spec b none h2 ⟨cs, hcs, goToIndex_none_some cs⟩
    · exact ⟨h2, fine_ok⟩
  · intro x hx
    simp only []
    have : ¬ (-start < 0) := by omega
    rw [if_neg this]
    exact andThen_spec _ _ (deleteBefore_spec _ _ (inv2_comp_none x hx)) (fun y hy => insertText_spec y text false true hy)

theorem index_neg_some (l : List Text) (i : Int) (hi : i < 0) (hl : -i ≤ l.length) : (index? l i).isSome = true := by
  unfold index?
  rw [if_pos hi]
  have : ¬ (i + (l.length : Int) < 0) := by omega
  rw [if_neg this]
  rw [List.getElem?_eq_getElem (by omega)]
  rfl

theorem yankState_pos (b : Buf) (n : Option Int) (last : Bool) (hy : YankOk b) : (yankState b n last).pos ≤ 0 := by
  unfold yankState
  cases hb : b.yank with
  | none => cases n <;> simp
  | some s => cases n <;> simp <;> exact hy s hb

theorem yankNewPos_spec (len : Nat) (st : YankSt) (hp : st.pos ≤ 0) (hl : 0 < len) :
    yankNewPos len st < 0 ∧ -(yankNewPos len st) ≤ len := by
  unfold yankNewPos
  split <;> omega

theorem yankCore_spec (cls : Cls) (b0 : Buf) (st : YankSt) (h2 : Inv2 b0) (hp : st.pos ≤ 0) (hl : 0 < b0.hist.length) :
    Inv2 (yankCore cls b0 st).1 ∧ (yankCore cls b0 st).2.fine := by
  unfold yankCore
  obtain ⟨hneg, hle⟩ := yankNewPos_spec b0.hist.length st hp hl
  have hidx := index_neg_some b0.hist _ hneg hle
  cases hix : index? b0.hist (yankNewPos b0.hist.length st) with
  | none => rw [hix] at hidx; cases hidx
  | some line =>
    simp only []
    apply andThen_spec
    · split
      · exact ⟨h2, fine_ok⟩
      · exact deleteBefore_spec _ _ h2
    · intro x hx
      apply andThen_spec _ _ (insertText_spec x _ false true hx)
      intro y hy
      exact ⟨⟨⟨hy.inv.idx, hy.inv.cur, hy.inv.sel, hy.inv.multi, hy.inv.undo, hy.inv.redo⟩, hy.comp,
        fun z hz => by simp at hz; subst hz; simp only []; omega⟩, fine_ok⟩

theorem yankNthArg_spec (cls : Cls) (b : Buf) (n : Option Int) (last : Bool) (h2 : Inv2 b) :
    Inv2 (yankNthArg cls b n last).1 ∧ (yankNthArg cls b n last).2.fine := by
  unfold yankNthArg
  split
  · exact ⟨h2, fine_ok⟩
  · rename_i hne
    have hpos := yankState_pos b n last h2.yank
    have hlen : 0 < b.hist.length := by
      cases hh : b.hist with
      | nil => rw [hh] at hne; simp at hne
      | cons x xs => simp [List.length_cons]
    apply yankCore_spec
    · split
      · exact ⟨⟨h2.inv.idx, h2.inv.cur, h2.inv.sel, h2.inv.multi, h2.inv.undo, h2.inv.redo⟩, h2.comp,
          fun y hy => by simp at hy; subst hy; exact hpos⟩
      · exact h2
    · exact hpos
    · split <;> exact hlen

/-! ### vertical movement -/

theorem cursorUpDown_spec (b : Buf) (count d : Int) (h2 : Inv2 b) (hc : 1 ≤ count) :
    Inv2 (cursorUpDown b count d).1 ∧ (cursorUpDown b count d).2.fine := by
  unfold cursorUpDown
  have : ¬ count < 1 := by omega
  rw [if_neg this]
  exact ⟨moveCursor_spec b d h2, fine_ok⟩

theorem toLineStart_spec (b : Buf) (h2 : Inv2 b) : Inv2 (toLineStart b) := moveCursor_spec b _ h2

theorem autoUpPos_spec (b : Buf) (count : Int) (g : Bool) (d : Int) (h2 : Inv2 b) (hc : 1 ≤ count) :
    Inv2 (autoUpPos b count g d).1 ∧ (autoUpPos b count g d).2.fine := by
  unfold autoUpPos
  split
  · exact completePrevious_spec b count false h2 (by omega)
  · split
    · exact cursorUpDown_spec b count d h2 hc
    · split
      · apply andThen_spec _ _ (historyBackward_spec b count h2)
        intro x hx
        split
        · exact ⟨toLineStart_spec x hx, fine_ok⟩
        · exact ⟨hx, fine_ok⟩
      · exact ⟨h2, fine_ok⟩

theorem autoDownPos_spec (b : Buf) (count : Int) (g : Bool) (d : Int) (h2 : Inv2 b) (hc : 1 ≤ count) :
    Inv2 (autoDownPos b count g d).1 ∧ (autoDownPos b count g d).2.fine := by
  unfold autoDownPos
  split
  · exact completeNext_spec b count false h2 (by omega)
  · split
    · exact cursorUpDown_spec b count d h2 hc
    · split
      · apply andThen_spec _ _ (historyForward_spec b count h2)
        intro x hx
        split
        · exact ⟨toLineStart_spec x hx, fine_ok⟩
        · exact ⟨hx, fine_ok⟩
      · exact ⟨h2, fine_ok⟩

/-- `auto_up` never fails, for ANY count (negative, zero, oversized) -/
theorem autoUp_spec (b : Buf) (count : Int) (g : Bool) (d : Int) (h2 : Inv2 b) :
    Inv2 (autoUp b count g d).1 ∧ (autoUp b count g d).2.fine := by
  unfold autoUp
  split
  · split
    · exact autoDownPos_spec b (-count) g d h2 (by omega)
    · exact ⟨h2, fine_ok⟩
  · exact autoUpPos_spec b count g d h2 (by omega)

theorem autoDown_spec (b : Buf) (count : Int) (g : Bool) (d : Int) (h2 : Inv2 b) :
    Inv2 (autoDown b count g d).1 ∧ (autoDown b count g d).2.fine := by
  unfold autoDown
  split
  · split
    · exact autoUpPos_spec b (-count) g d h2 (by omega)
    · exact ⟨h2, fine_ok⟩
  · exact autoDownPos_spec b count g d h2 (by omega)

/-! ### selection, clipboard, transformations -/

theorem copySelection_spec (b : Buf) (cut : Bool) (t : Text) (c : Int) (h2 : Inv2 b) (hc : c ≤ t.length) :
    Inv2 (copySelection b cut t c).1 ∧ (copySelection b cut t c).2.fine := by
  unfold copySelection
  apply andThen_spec
  · split
    · exact setDocument_spec b t c false h2 hc
    · exact ⟨h2, fine_ok⟩
  · intro x hx; exact ⟨exitSelection_spec x hx, fine_ok⟩

theorem transformCurrentLine_spec (b : Buf) (r : Text) (h2 : Inv2 b) :
    Inv2 (transformCurrentLine b r).1 ∧ (transformCurrentLine b r).2.fine := setText_spec b _ h2

theorem transformRegion_spec (b : Buf) (f t : Int) (r : Text) (h2 : Inv2 b) (hft : f < t) :
    Inv2 (transformRegion b f t r).1 ∧ (transformRegion b f t r).2.fine := by
  unfold transformRegion
  rw [if_pos hft]
  exact setText_spec b _ h2

theorem joinNextLine_spec (b : Buf) (sep : Text) (h2 : Inv2 b) :
    Inv2 (joinNextLine b sep).1 ∧ (joinNextLine b sep).2.fine := by
  unfold joinNextLine
  split
  · exact andThen_spec _ _ (delete_spec _ 1 (moveCursor_spec b _ h2)) (fun x hx => setText_spec x _ hx)
  · exact ⟨h2, fine_ok⟩

theorem flatten_dropLast_le (l : List Text) : l.dropLast.flatten.length ≤ l.flatten.length := by
  induction l with
  | nil => simp
  | cons x xs ih =>
    cases xs with
    | nil => simp
    | cons y ys => simp only [List.dropLast_cons_cons, List.flatten_cons, List.length_append] at ih ⊢; omega

theorem joinSelectedLines_spec (cls : Cls) (b : Buf) (sep : Text) (h2 : Inv2 b) (hs : b.sel.isSome = true) :
    Inv2 (joinSelectedLines cls b sep).1 ∧ (joinSelectedLines cls b sep).2.fine := by
  unfold joinSelectedLines
  obtain ⟨s, hsel⟩ := Option.isSome_iff_exists.1 hs
  rw [hsel]
  simp only []
  apply setDocument_spec _ _ _ _ h2
  have := flatten_dropLast_le ((splitLinesPy cls.isBreak (slice b.text (some (min (b.cur : Int) s.anchor))
    (some (max (b.cur : Int) s.anchor)))).map fun l => lstripChar ' ' l ++ sep)
  simp only [List.length_append]
  omega

theorem swapChars_spec (b : Buf) (h2 : Inv2 b) : Inv2 (swapChars b).1 ∧ (swapChars b).2.fine := by
  unfold swapChars
  split
  · rename_i hge
    have hc := h2.inv.cur
    have h1 : b.cur - 2 < b.text.length := by omega
    have h2' : b.cur - 1 < b.text.length := by omega
    rw [List.getElem?_eq_getElem h1, List.getElem?_eq_getElem h2']
    exact setText_spec b _ h2
  · exact ⟨h2, fine_ok⟩

theorem insertLineAbove_spec (b : Buf) (m : Text) (h2 : Inv2 b) :
    Inv2 (insertLineAbove b m).1 ∧ (insertLineAbove b m).2.fine :=
  andThen_spec _ _ (insertText_spec _ _ false true (toLineStart_spec b h2))
    (fun x hx => ⟨moveCursor_spec x _ hx, fine_ok⟩)

theorem editorResult_spec (b : Buf) (t : Text) (h2 : Inv2 b) :
    Inv2 (editorResult b t).1 ∧ (editorResult b t).2.fine := by
  unfold editorResult
  exact setDocument_spec b _ _ false h2 (by omega)

theorem setCompletions_spec (b : Buf) (cs : List Completion) (h2 : Inv2 b) : Inv2 (setCompletions b cs) :=
  ⟨⟨h2.inv.idx, h2.inv.cur, h2.inv.sel, h2.inv.multi, h2.inv.undo, h2.inv.redo⟩,
   (fun c hc => by
      simp [setCompletions] at hc
      subst hc
      exact ⟨fun i hi => by simp at hi, h2.inv.cur⟩), h2.yank⟩

end Ptk.C05
