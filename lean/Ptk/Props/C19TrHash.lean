/-
  C19 — `StyleTransformation.invalidation_hash()`: two transformation objects built from the library
  classes whose hashes agree transform every `Attrs` alike (so a renderer that keys its caches on
  the hash never shows attributes transformed by a stale transformation).
-/
import Ptk.Model.C19Transform
namespace Ptk.C19
open Ptk.Py

variable (T : Tables) (X : TrTables) (F : Flt) (sp : Char → Bool)

theorem apply_of_hash_inst0 : ∀ t : Tr, Tr.hash t = .inst 0 →
    ∀ a, Tr.apply T X F sp t a = Tr.apply T X F sp .swap a
  | .swap, _, _ => rfl
  | .reverse, h, _ => by simp [Tr.hash] at h
  | .setDefault _ _, h, _ => by simp [Tr.hash] at h
  | .adjust _ _, h, _ => by simp [Tr.hash] at h
  | .dummy, h, _ => by simp [Tr.hash] at h
  | .dynNone, h, _ => by simp [Tr.hash] at h
  | .dyn t, h, a => by
      simp only [Tr.hash] at h
      simpa [Tr.apply] using apply_of_hash_inst0 t h a
  | .cond _ _, h, _ => by simp [Tr.hash] at h
  | .merged _, h, _ => by simp [Tr.hash] at h

theorem apply_of_hash_inst1 : ∀ t : Tr, Tr.hash t = .inst 1 →
    ∀ a, Tr.apply T X F sp t a = Tr.apply T X F sp .reverse a
  | .swap, h, _ => by simp [Tr.hash] at h
  | .reverse, _, _ => rfl
  | .setDefault _ _, h, _ => by simp [Tr.hash] at h
  | .adjust _ _, h, _ => by simp [Tr.hash] at h
  | .dummy, h, _ => by simp [Tr.hash] at h
  | .dynNone, h, _ => by simp [Tr.hash] at h
  | .dyn t, h, a => by
      simp only [Tr.hash] at h
      simpa [Tr.apply] using apply_of_hash_inst1 t h a
  | .cond _ _, h, _ => by simp [Tr.hash] at h
  | .merged _, h, _ => by simp [Tr.hash] at h

theorem apply_of_hash_setDefault (fg bg : Text) : ∀ t : Tr, Tr.hash t = .setDefault fg bg →
    ∀ a, Tr.apply T X F sp t a = Tr.apply T X F sp (.setDefault fg bg) a
  | .swap, h, _ => by simp [Tr.hash] at h
  | .reverse, h, _ => by simp [Tr.hash] at h
  | .setDefault f b, h, _ => by
      simp only [Tr.hash, TH.setDefault.injEq] at h
      rw [h.1, h.2]
  | .adjust _ _, h, _ => by simp [Tr.hash] at h
  | .dummy, h, _ => by simp [Tr.hash] at h
  | .dynNone, h, _ => by simp [Tr.hash] at h
  | .dyn t, h, a => by
      simp only [Tr.hash] at h
      simpa [Tr.apply] using apply_of_hash_setDefault fg bg t h a
  | .cond _ _, h, _ => by simp [Tr.hash] at h
  | .merged _, h, _ => by simp [Tr.hash] at h

theorem apply_of_hash_adjust (mn mx : Int) : ∀ t : Tr, Tr.hash t = .adjust mn mx →
    ∀ a, Tr.apply T X F sp t a = Tr.apply T X F sp (.adjust mn mx) a
  | .swap, h, _ => by simp [Tr.hash] at h
  | .reverse, h, _ => by simp [Tr.hash] at h
  | .setDefault _ _, h, _ => by simp [Tr.hash] at h
  | .adjust m n, h, _ => by
      simp only [Tr.hash, TH.adjust.injEq] at h
      rw [h.1, h.2]
  | .dummy, h, _ => by simp [Tr.hash] at h
  | .dynNone, h, _ => by simp [Tr.hash] at h
  | .dyn t, h, a => by
      simp only [Tr.hash] at h
      simpa [Tr.apply] using apply_of_hash_adjust mn mx t h a
  | .cond _ _, h, _ => by simp [Tr.hash] at h
  | .merged _, h, _ => by simp [Tr.hash] at h

theorem apply_of_hash_dummy : ∀ t : Tr, Tr.hash t = .dummy → ∀ a, Tr.apply T X F sp t a = .ok a
  | .swap, h, _ => by simp [Tr.hash] at h
  | .reverse, h, _ => by simp [Tr.hash] at h
  | .setDefault _ _, h, _ => by simp [Tr.hash] at h
  | .adjust _ _, h, _ => by simp [Tr.hash] at h
  | .dummy, _, _ => by simp [Tr.apply]
  | .dynNone, _, _ => by simp [Tr.apply]
  | .dyn t, h, a => by
      simp only [Tr.hash] at h
      simpa [Tr.apply] using apply_of_hash_dummy t h a
  | .cond _ _, h, _ => by simp [Tr.hash] at h
  | .merged _, h, _ => by simp [Tr.hash] at h

theorem hash_cond_inv (f : Bool) (hh : TH) : ∀ t : Tr, Tr.hash t = .cond f hh →
    ∃ t', Tr.hash t' = hh ∧ ∀ a, Tr.apply T X F sp t a = Tr.apply T X F sp (.cond t' f) a
  | .swap, h => by simp [Tr.hash] at h
  | .reverse, h => by simp [Tr.hash] at h
  | .setDefault _ _, h => by simp [Tr.hash] at h
  | .adjust _ _, h => by simp [Tr.hash] at h
  | .dummy, h => by simp [Tr.hash] at h
  | .dynNone, h => by simp [Tr.hash] at h
  | .dyn t, h => by
      simp only [Tr.hash] at h
      obtain ⟨t', h1, h2⟩ := hash_cond_inv f hh t h
      exact ⟨t', h1, fun a => by simpa [Tr.apply] using h2 a⟩
  | .cond t g, h => by
      simp only [Tr.hash, TH.cond.injEq] at h
      exact ⟨t, h.2, fun a => by rw [h.1]⟩
  | .merged _, h => by simp [Tr.hash] at h

theorem hash_tup_inv' (hs : List TH) : ∀ t : Tr, Tr.hash t = .tup hs →
    ∃ ts, Tr.hashList ts = hs ∧ ∀ a, Tr.apply T X F sp t a = Tr.applyList T X F sp ts a
  | .swap, h => by simp [Tr.hash] at h
  | .reverse, h => by simp [Tr.hash] at h
  | .setDefault _ _, h => by simp [Tr.hash] at h
  | .adjust _ _, h => by simp [Tr.hash] at h
  | .dummy, h => by simp [Tr.hash] at h
  | .dynNone, h => by simp [Tr.hash] at h
  | .dyn t, h => by
      simp only [Tr.hash] at h
      obtain ⟨ts, h1, h2⟩ := hash_tup_inv' hs t h
      exact ⟨ts, h1, fun a => by simpa [Tr.apply] using h2 a⟩
  | .cond _ _, h => by simp [Tr.hash] at h
  | .merged ts, h => by
      simp only [Tr.hash, TH.tup.injEq] at h
      exact ⟨ts, h, fun a => by simp [Tr.apply]⟩

mutual
/-- **C19-aa (equal transformation hash ⇒ equal transformation).** -/
theorem trHash_determines_apply : ∀ t1 t2 : Tr, Tr.hash t1 = Tr.hash t2 →
    ∀ a, Tr.apply T X F sp t1 a = Tr.apply T X F sp t2 a
  | .swap, t2, h, a => (apply_of_hash_inst0 T X F sp t2 (by simpa [Tr.hash] using h.symm) a).symm
  | .reverse, t2, h, a => (apply_of_hash_inst1 T X F sp t2 (by simpa [Tr.hash] using h.symm) a).symm
  | .setDefault fg bg, t2, h, a =>
      (apply_of_hash_setDefault T X F sp fg bg t2 (by simpa [Tr.hash] using h.symm) a).symm
  | .adjust mn mx, t2, h, a =>
      (apply_of_hash_adjust T X F sp mn mx t2 (by simpa [Tr.hash] using h.symm) a).symm
  | .dummy, t2, h, a => by
      rw [apply_of_hash_dummy T X F sp t2 (by simpa [Tr.hash] using h.symm) a]; simp [Tr.apply]
  | .dynNone, t2, h, a => by
      rw [apply_of_hash_dummy T X F sp t2 (by simpa [Tr.hash] using h.symm) a]; simp [Tr.apply]
  | .dyn t, t2, h, a => by
      simp only [Tr.hash] at h
      simpa [Tr.apply] using trHash_determines_apply t t2 h a
  | .cond t f, t2, h, a => by
      simp only [Tr.hash] at h
      obtain ⟨t', h1, h2⟩ := hash_cond_inv T X F sp f (Tr.hash t) t2 h.symm
      rw [h2 a]
      cases f with
      | false => simp [Tr.apply]
      | true =>
        simp only [Tr.apply, if_true]
        exact trHash_determines_apply t t' h1.symm a
  | .merged ts, t2, h, a => by
      simp only [Tr.hash] at h
      obtain ⟨ts', h1, h2⟩ := hash_tup_inv' T X F sp (Tr.hashList ts) t2 h.symm
      rw [h2 a]
      simp only [Tr.apply]
      exact trHashList_determines_apply ts ts' h1.symm a
theorem trHashList_determines_apply : ∀ ts1 ts2 : List Tr, Tr.hashList ts1 = Tr.hashList ts2 →
    ∀ a, Tr.applyList T X F sp ts1 a = Tr.applyList T X F sp ts2 a
  | [], [], _, _ => rfl
  | [], _ :: _, h, _ => by simp [Tr.hashList] at h
  | _ :: _, [], h, _ => by simp [Tr.hashList] at h
  | t :: ts, u :: us, h, a => by
      simp only [Tr.hashList, List.cons.injEq] at h
      simp only [Tr.applyList]
      rw [trHash_determines_apply t u h.1 a]
      cases Tr.apply T X F sp u a with
      | error e => rfl
      | ok b => exact trHashList_determines_apply ts us h.2 b
end

end Ptk.C19
