/-
  C06 — `Vt100_Output` as an encoder and a byte-level VT100 interpreter (`Ptk.Model.C06Vt`):

    parseNat_digits, csiParams_join            numbers and parameter lists survive printing + parsing
    gen_fixed_ok, gen_samples_ok               the escape sequences regenerated from /repo are the ones proved about
    interp_emit, interp_emitAll                reading what `Vt100_Output` writes for a call / a list of calls
                                               = the abstract terminal operation(s) of the differ model
    diff_vtOk, diff_bytes                      … in particular for everything `_output_screen_diff` calls
    vtEnc_plain, envOk_vt                      the encoder satisfies the side condition of the differ theorems
-/
import Ptk.Model.C06Vt
import Ptk.Props.C06Diff
namespace Ptk.C06
open Ptk.Py

variable (cw : Char → Nat)

/-! ### numbers -/

theorem digitChar_toNat : ∀ d, d < 10 → (digitChar d).toNat = 48 + d := by decide

theorem digitsAux_fuel : ∀ (f g n : Nat), n < f → n < g → digitsAux f n = digitsAux g n := by
  intro f
  induction f with
  | zero => intro g n h; omega
  | succ f ih =>
    intro g n hf hg
    cases g with
    | zero => omega
    | succ g =>
      simp only [digitsAux]
      by_cases h : n < 10
      · simp [h]
      · simp only [h, if_false]
        rw [ih g (n / 10) (by omega) (by omega)]

theorem digits_lt (n : Nat) (h : n < 10) : digits n = [digitChar n] := by
  simp [digits, digitsAux, h]

theorem digits_ge (n : Nat) (h : ¬ n < 10) : digits n = digits (n / 10) ++ [digitChar (n % 10)] := by
  show digitsAux (n + 1) n = digitsAux (n / 10 + 1) (n / 10) ++ [digitChar (n % 10)]
  rw [digitsAux]
  simp only [h, if_false]
  rw [digitsAux_fuel n (n / 10 + 1) (n / 10) (by omega) (by omega)]

theorem parseNat_snoc (a : Text) (c : Char) : parseNat (a ++ [c]) = parseNat a * 10 + (c.toNat - 48) := by
  simp [parseNat, List.foldl_append]

/-- `int(str(n)) = n` -/
theorem parseNat_digits (n : Nat) : parseNat (digits n) = n := by
  induction n using Nat.strongRecOn with
  | _ n ih =>
    by_cases h : n < 10
    · rw [digits_lt n h]
      simp only [parseNat, List.foldl_cons, List.foldl_nil, digitChar_toNat n h]
      omega
    · rw [digits_ge n h, parseNat_snoc, ih (n / 10) (by omega), digitChar_toNat _ (Nat.mod_lt _ (by omega))]
      omega

theorem isDigit_digitChar : ∀ d, d < 10 → isDigit (digitChar d) = true := by decide

theorem digits_isDigit (n : Nat) : ∀ c ∈ digits n, isDigit c = true := by
  induction n using Nat.strongRecOn with
  | _ n ih =>
    by_cases h : n < 10
    · rw [digits_lt n h]; intro c hc; simp at hc; subst hc; exact isDigit_digitChar n h
    · rw [digits_ge n h]
      intro c hc
      simp only [List.mem_append, List.mem_singleton] at hc
      rcases hc with hc | hc
      · exact ih (n / 10) (by omega) c hc
      · subst hc; exact isDigit_digitChar _ (Nat.mod_lt _ (by omega))

theorem digits_ne_nil (n : Nat) : digits n ≠ [] := by
  by_cases h : n < 10
  · rw [digits_lt n h]; simp
  · rw [digits_ge n h]; simp

theorem isDigit_props (c : Char) (h : isDigit c = true) : c ≠ ';' ∧ c ≠ ' ' ∧ c ≠ ESC ∧ isParamChar c = true := by
  simp only [isDigit, Bool.and_eq_true, decide_eq_true_eq] at h
  refine ⟨?_, ?_, ?_, ?_⟩
  · intro hc; subst hc; revert h; decide
  · intro hc; subst hc; revert h; decide
  · intro hc; subst hc; revert h; decide
  · simp [isParamChar, isDigit, h]

/-! ### parameter lists -/

theorem splitSemi_digits (t : Text) (ht : ∀ c ∈ t, isDigit c = true) (cur : Text) :
    splitSemi t cur = [cur ++ t] := by
  induction t generalizing cur with
  | nil => simp [splitSemi]
  | cons c rest ih =>
    have hc := (isDigit_props c (ht c (by simp))).1
    simp only [splitSemi, hc, if_false]
    rw [ih (fun x hx => ht x (by simp [hx]))]
    simp

theorem splitSemi_digits_semi (t rest : Text) (ht : ∀ c ∈ t, isDigit c = true) (cur : Text) :
    splitSemi (t ++ (';' :: rest)) cur = (cur ++ t) :: splitSemi rest [] := by
  induction t generalizing cur with
  | nil => simp [splitSemi]
  | cons c more ih =>
    have hc := (isDigit_props c (ht c (by simp))).1
    simp only [List.cons_append, splitSemi, hc, if_false]
    rw [ih (fun x hx => ht x (by simp [hx]))]
    simp

theorem joinSemi_cons2 (a b : Text) (rest : List Text) :
    joinSemi (a :: b :: rest) = a ++ (';' :: joinSemi (b :: rest)) := rfl

/-- the parameter text of a non-empty list of numbers splits back into the numbers -/
theorem splitSemi_join : ∀ (ns : List Nat), ns ≠ [] →
    (splitSemi (joinSemi (ns.map digits)) []).map parseNat = ns := by
  intro ns
  induction ns with
  | nil => intro h; exact absurd rfl h
  | cons n rest ih =>
    intro _
    cases rest with
    | nil =>
      simp only [List.map_cons, List.map_nil, joinSemi]
      rw [splitSemi_digits _ (digits_isDigit n)]
      simp [parseNat_digits]
    | cons m more =>
      simp only [List.map_cons, joinSemi_cons2]
      rw [splitSemi_digits_semi _ _ (digits_isDigit n)]
      simp only [List.nil_append, List.map_cons, parseNat_digits]
      have := ih (by simp)
      simp only [List.map_cons] at this
      rw [this]

theorem joinSemi_noSpace : ∀ (ns : List Nat), ∀ c ∈ joinSemi (ns.map digits), c ≠ ' ' ∧ isParamChar c = true := by
  intro ns
  induction ns with
  | nil => intro c hc; simp [joinSemi] at hc
  | cons n rest ih =>
    cases rest with
    | nil =>
      intro c hc
      simp only [List.map_cons, List.map_nil, joinSemi] at hc
      have := isDigit_props c (digits_isDigit n c hc)
      exact ⟨this.2.1, this.2.2.2⟩
    | cons m more =>
      intro c hc
      simp only [List.map_cons, joinSemi_cons2, List.mem_append, List.mem_cons] at hc
      rcases hc with hc | hc | hc
      · have := isDigit_props c (digits_isDigit n c hc)
        exact ⟨this.2.1, this.2.2.2⟩
      · subst hc; exact ⟨by decide, by decide⟩
      · exact ih c (by simpa using hc)

theorem filter_noSpace (t : Text) (h : ∀ c ∈ t, c ≠ ' ') : t.filter (· != ' ') = t := by
  apply List.filter_eq_self.mpr
  intro c hc
  simpa using h c hc

theorem csiParams_join (ns : List Nat) (h : ns ≠ []) : csiParams (joinSemi (ns.map digits)) = ns := by
  unfold csiParams
  rw [filter_noSpace _ (fun c hc => (joinSemi_noSpace ns c hc).1)]
  exact splitSemi_join ns h


/-! ### the interpreter on the encoder's output -/

theorem interp_append (b : BTerm) (x y : Text) : interp cw b (x ++ y) = interp cw (interp cw b x) y := by
  simp [interp, List.foldl_append]

theorem interp_cons (b : BTerm) (c : Char) (x : Text) : interp cw b (c :: x) = interp cw (bstep cw b c) x := rfl
theorem interp_nil (b : BTerm) : interp cw b [] = b := rfl

/-- parameter characters are collected -/
theorem interp_params (t : Term) (sg : Sgr) (priv : Option Char) (p : Text) (hp : ∀ c ∈ p, isParamChar c = true)
    (acc : Text) : interp cw ⟨t, sg, .csi priv acc⟩ p = ⟨t, sg, .csi priv (acc ++ p)⟩ := by
  induction p generalizing acc with
  | nil => simp [interp]
  | cons c rest ih =>
    rw [interp_cons]
    have hc := hp c (by simp)
    simp only [bstep, hc, if_true]
    rw [ih (fun x hx => hp x (by simp [hx]))]
    simp

theorem dispatch_ps (b : BTerm) (p : PState) (priv : Option Char) (params : Text) (f : Char) :
    dispatch cw { b with ps := p } priv params f = dispatch cw b priv params f := by
  unfold dispatch
  cases priv with
  | some q => first | rfl | (simp only []; split <;> rfl)
  | none =>
    simp only []
    repeat' split
    all_goals rfl

/-- a control sequence without private marker: `ESC [ params final` -/
theorem interp_csi (t : Term) (sg : Sgr) (params : Text) (hp : ∀ c ∈ params, isParamChar c = true)
    (final : Char) (hf : isParamChar final = false) (hq : final ≠ '?' ∧ final ≠ '>') :
    interp cw ⟨t, sg, .ground⟩ (ESC :: '[' :: (params ++ [final])) =
      dispatch cw ⟨t, sg, .ground⟩ none params final := by
  rw [interp_cons, interp_cons]
  have h1 : bstep cw ⟨t, sg, .ground⟩ ESC = ⟨t, sg, .esc⟩ := by simp [bstep]
  have h2 : bstep cw ⟨t, sg, .esc⟩ '[' = ⟨t, sg, .csi none []⟩ := by simp [bstep]
  rw [h1, h2, interp_append, interp_params cw t sg none params hp []]
  simp only [List.nil_append, interp_cons, interp_nil, bstep, hf, Bool.false_eq_true, if_false]
  have : ¬ ((final = '?' ∨ final = '>') ∧ params = [] ∧ True) := by
    intro h; rcases h.1 with h | h
    · exact hq.1 h
    · exact hq.2 h
  rw [if_neg this]
  exact dispatch_ps cw ⟨t, sg, .ground⟩ _ none params final

/-- a private control sequence: `ESC [ ? params final` -/
theorem interp_csi_priv (t : Term) (sg : Sgr) (params : Text) (hp : ∀ c ∈ params, isParamChar c = true)
    (final : Char) (hf : isParamChar final = false) (hq : final ≠ '?' ∧ final ≠ '>') :
    interp cw ⟨t, sg, .ground⟩ (ESC :: '[' :: '?' :: (params ++ [final])) =
      dispatch cw ⟨t, sg, .ground⟩ (some '?') params final := by
  rw [interp_cons, interp_cons, interp_cons]
  have h1 : bstep cw ⟨t, sg, .ground⟩ ESC = ⟨t, sg, .esc⟩ := by simp [bstep]
  have h2 : bstep cw ⟨t, sg, .esc⟩ '[' = ⟨t, sg, .csi none []⟩ := by simp [bstep]
  have h3 : bstep cw ⟨t, sg, .csi none []⟩ '?' = ⟨t, sg, .csi (some '?') []⟩ := by
    simp [bstep, isParamChar, isDigit]
  rw [h1, h2, h3, interp_append, interp_params cw t sg (some '?') params hp []]
  simp only [List.nil_append, interp_cons, interp_nil, bstep, hf, Bool.false_eq_true, if_false]
  have : ¬ ((final = '?' ∨ final = '>') ∧ params = [] ∧ (some '?' : Option Char) = none) := by
    intro h; cases h.2.2
  rw [if_neg this]
  exact dispatch_ps cw ⟨t, sg, .ground⟩ _ (some '?') params final


/-! ### the regenerated escape sequences (pins) -/

/-- the sequences written by the parameterless emitters of the CURRENT `Vt100_Output`
    (`Ptk.Gen.C06`, regenerated from /repo on every run) are the ones the theorems below are about -/
theorem gen_fixed_ok :
    Gen.C06.resetAttributes = [ESC, '[', '0', 'm'] ∧
    Gen.C06.eraseDown = [ESC, '[', 'J'] ∧
    Gen.C06.eraseEndOfLine = [ESC, '[', 'K'] ∧
    Gen.C06.eraseScreen = [ESC, '[', '2', 'J'] ∧
    Gen.C06.hideCursor = [ESC, '[', '?', '2', '5', 'l'] ∧
    Gen.C06.showCursor = [ESC, '[', '?', '1', '2', 'l', ESC, '[', '?', '2', '5', 'h'] ∧
    Gen.C06.disableAutowrap = [ESC, '[', '?', '7', 'l'] ∧
    Gen.C06.enableAutowrap = [ESC, '[', '?', '7', 'h'] ∧
    Gen.C06.enableBracketedPaste = [ESC, '[', '?', '2', '0', '0', '4', 'h'] ∧
    Gen.C06.disableBracketedPaste = [ESC, '[', '?', '2', '0', '0', '4', 'l'] ∧
    Gen.C06.resetCursorKeyMode = [ESC, '[', '?', '1', 'l'] ∧
    Gen.C06.enableMouseSupport = [ESC, '[', '?', '1', '0', '0', '0', 'h', ESC, '[', '?', '1', '0', '0', '3', 'h',
      ESC, '[', '?', '1', '0', '1', '5', 'h', ESC, '[', '?', '1', '0', '0', '6', 'h'] ∧
    Gen.C06.disableMouseSupport = [ESC, '[', '?', '1', '0', '0', '0', 'l', ESC, '[', '?', '1', '0', '1', '5', 'l',
      ESC, '[', '?', '1', '0', '0', '6', 'l', ESC, '[', '?', '1', '0', '0', '3', 'l'] ∧
    Gen.C06.enterAlternateScreen = [ESC, '[', '?', '1', '0', '4', '9', 'h', ESC, '[', 'H'] ∧
    Gen.C06.quitAlternateScreen = [ESC, '[', '?', '1', '0', '4', '9', 'l'] ∧
    Gen.C06.askForCpr = [ESC, '[', '6', 'n'] ∧
    Gen.C06.scrollBufferToPrompt = [] ∧
    Gen.C06.hideCursorAgain = [] ∧ Gen.C06.showCursorAgain = [] ∧
    Gen.C06.resetCursorShapeFresh = [] ∧
    Gen.C06.resetCursorShapeChanged = [ESC, '[', '0', ' ', 'q'] ∧
    Gen.C06.shapeCodes = [[], [ESC, '[', '2', ' ', 'q'], [ESC, '[', '6', ' ', 'q'], [ESC, '[', '4', ' ', 'q'],
      [ESC, '[', '1', ' ', 'q'], [ESC, '[', '5', ' ', 'q'], [ESC, '[', '3', ' ', 'q']] := by
  decide

/-- the text of `cursor_up / down / forward / backward (amount)` in the model -/
def moveText (i n : Nat) : Text :=
  match i with
  | 0 => moveCode n 'A' [ESC, '[', 'A']
  | 1 => moveCode n 'B' [ESC, '[', 'B']
  | 2 => moveCode n 'C' [ESC, '[', 'C']
  | _ => moveCode n 'D' ['\x08']

/-- the emitters that take an amount / a position render the sampled arguments as the model does -/
theorem gen_samples_ok :
    (Gen.C06.moveSamples.all fun p => p.2.2 == moveText p.1 p.2.1) = true ∧
    (Gen.C06.gotoSamples.all fun p =>
      p.2.2 == [ESC, '['] ++ (digits p.1 ++ (';' :: (digits p.2.1 ++ ['H'])))) = true := by
  decide


/-! ### one call: interpreting what `Vt100_Output` writes = the abstract terminal operation -/

theorem paramChar_digits (n : Nat) : ∀ c ∈ digits n, isParamChar c = true :=
  fun c hc => (isDigit_props c (digits_isDigit n c hc)).2.2.2

theorem csiParams_digits (n : Nat) : csiParams (digits n) = [n] := by
  have := csiParams_join [n] (by simp)
  simpa [joinSemi] using this

theorem csiParams_nil : csiParams [] = [0] := by decide

theorem digits_noSpace (n : Nat) : (digits n).contains ' ' = false := by
  rw [List.contains_eq_mem]
  simp only [decide_eq_false_iff_not]
  intro h
  exact (isDigit_props _ (digits_isDigit n _ h)).2.1 rfl

theorem digits_noSpace' (n : Nat) : ' ' ∉ digits n :=
  fun h => (isDigit_props _ (digits_isDigit n _ h)).2.1 rfl

theorem term_up0 (t : Term) : ({ t with row := t.row - 0, oob := t.oob || decide (t.row < 0) } : Term) = t := by
  cases t; simp
theorem term_back0 (t : Term) : ({ t with col := t.col - 0, oob := t.oob || decide (t.col < 0) } : Term) = t := by
  cases t; simp
theorem term_fwd0 (t : Term) (h : t.col < t.w) : ({ t with col := min (t.col + 0) (t.w - 1) } : Term) = t := by
  cases t; simp only [Nat.add_zero] at *; congr; omega

/-- `cursor_up(n)` -/
theorem interp_cursorUp (t : Term) (sg : Sgr) (n : Nat) :
    interp cw ⟨t, sg, .ground⟩ (moveCode n 'A' [ESC, '[', 'A']) = ⟨execCmd cw t (.cursorUp n), sg, .ground⟩ := by
  unfold moveCode
  by_cases h0 : n = 0
  · subst h0; simp only [if_true, interp_nil, execCmd]; rw [term_up0]
  · by_cases h1 : n = 1
    · subst h1
      simp only [h0, if_false, if_true]
      have := interp_csi cw t sg [] (by simp) 'A' (by decide) (by decide)
      simp only [List.nil_append] at this
      rw [this]
      simp [dispatch, csiParams_nil, param1]
    · simp only [h0, h1, if_false]
      have := interp_csi cw t sg (digits n) (paramChar_digits n) 'A' (by decide) (by decide)
      simp only [List.cons_append, List.nil_append] at this ⊢
      rw [this]
      simp [dispatch, csiParams_digits, param1, h0, digits_noSpace']

/-- `cursor_forward(n)` (for a cursor inside the line when `n = 0`) -/
theorem interp_cursorForward (t : Term) (sg : Sgr) (n : Nat) (hcol : t.col < t.w) :
    interp cw ⟨t, sg, .ground⟩ (moveCode n 'C' [ESC, '[', 'C']) =
      ⟨execCmd cw t (.cursorForward n), sg, .ground⟩ := by
  unfold moveCode
  by_cases h0 : n = 0
  · subst h0; simp only [if_true, interp_nil, execCmd]; rw [term_fwd0 t hcol]
  · by_cases h1 : n = 1
    · subst h1
      simp only [h0, if_false, if_true]
      have := interp_csi cw t sg [] (by simp) 'C' (by decide) (by decide)
      simp only [List.nil_append] at this
      rw [this]
      simp [dispatch, csiParams_nil, param1]
    · simp only [h0, h1, if_false]
      have := interp_csi cw t sg (digits n) (paramChar_digits n) 'C' (by decide) (by decide)
      simp only [List.cons_append, List.nil_append] at this ⊢
      rw [this]
      simp [dispatch, csiParams_digits, param1, h0, digits_noSpace']

/-- `cursor_backward(n)`: one step back is written as a backspace -/
theorem interp_cursorBackward (t : Term) (sg : Sgr) (n : Nat) :
    interp cw ⟨t, sg, .ground⟩ (moveCode n 'D' ['\x08']) = ⟨execCmd cw t (.cursorBackward n), sg, .ground⟩ := by
  unfold moveCode
  by_cases h0 : n = 0
  · subst h0; simp only [if_true, interp_nil, execCmd]; rw [term_back0]
  · by_cases h1 : n = 1
    · subst h1
      simp only [h0, if_false, if_true, interp_cons, interp_nil]
      have : ('\x08' : Char) ≠ ESC := by decide
      simp [bstep, this, Term.putChar, execCmd]
    · simp only [h0, h1, if_false]
      have := interp_csi cw t sg (digits n) (paramChar_digits n) 'D' (by decide) (by decide)
      simp only [List.cons_append, List.nil_append] at this ⊢
      rw [this]
      simp [dispatch, csiParams_digits, param1, h0, digits_noSpace']


theorem toAttrs_dflt : Sgr.dflt.toAttrs = Attrs.dflt := rfl

/-- a leading `0` makes the SGR sequence absolute -/
theorem applySgr_zero (ps : List Nat) (s : Sgr) : applySgr (0 :: ps) s = applySgr ps Sgr.dflt := by
  cases ps with
  | nil => simp [applySgr]
  | cons p rest => simp [applySgr]

/-- `set_attributes(attrs, depth)` -/
theorem interp_setAttrs (t : Term) (sg : Sgr) (a : Attrs) (depth : Nat) :
    interp cw ⟨t, sg, .ground⟩ (escapeCode depth a) =
      ⟨{ t with sgr := vtEnc depth a }, applySgr (0 :: sgrParams depth a) Sgr.dflt, .ground⟩ := by
  unfold escapeCode
  have hp : ∀ c ∈ joinSemi ((0 :: sgrParams depth a).map digits), isParamChar c = true :=
    fun c hc => (joinSemi_noSpace _ c hc).2
  have hs : ' ' ∉ joinSemi ((0 :: sgrParams depth a).map digits) :=
    fun h => (joinSemi_noSpace _ _ h).1 rfl
  have := interp_csi cw t sg _ hp 'm' (by decide) (by decide)
  simp only [List.cons_append, List.nil_append] at this ⊢
  rw [this]
  simp only [dispatch, csiParams_join _ (List.cons_ne_nil _ _), List.contains_eq_mem, hs, decide_false,
    Bool.false_eq_true, if_false]
  simp [applySgr_zero, vtEnc]

/-- `reset_attributes()` -/
theorem interp_resetAttrs (t : Term) (sg : Sgr) :
    interp cw ⟨t, sg, .ground⟩ [ESC, '[', '0', 'm'] = ⟨execCmd cw t .resetAttrs, Sgr.dflt, .ground⟩ := by
  have := interp_csi cw t sg ['0'] (by decide) 'm' (by decide) (by decide)
  simp only [List.cons_append, List.nil_append] at this
  rw [this]
  have h0 : csiParams ['0'] = [0] := by decide
  simp [dispatch, h0, applySgr, execCmd, toAttrs_dflt]

theorem interp_eraseDown (t : Term) (sg : Sgr) :
    interp cw ⟨t, sg, .ground⟩ [ESC, '[', 'J'] = ⟨execCmd cw t .eraseDown, sg, .ground⟩ := by
  have := interp_csi cw t sg [] (by simp) 'J' (by decide) (by decide)
  simp only [List.nil_append] at this
  rw [this]
  simp [dispatch, csiParams_nil]

theorem interp_eraseEol (t : Term) (sg : Sgr) :
    interp cw ⟨t, sg, .ground⟩ [ESC, '[', 'K'] = ⟨execCmd cw t .eraseEol, sg, .ground⟩ := by
  have := interp_csi cw t sg [] (by simp) 'K' (by decide) (by decide)
  simp only [List.nil_append] at this
  rw [this]
  simp [dispatch, csiParams_nil]

theorem interp_eraseScreen (t : Term) (sg : Sgr) :
    interp cw ⟨t, sg, .ground⟩ [ESC, '[', '2', 'J'] = ⟨execCmd cw t .eraseScreen, sg, .ground⟩ := by
  have := interp_csi cw t sg ['2'] (by decide) 'J' (by decide) (by decide)
  simp only [List.cons_append, List.nil_append] at this
  rw [this]
  have h0 : csiParams ['2'] = [2] := by decide
  simp [dispatch, h0]

/-- `cursor_goto(r, c)` -/
theorem interp_cursorGoto (t : Term) (sg : Sgr) (r c : Nat) :
    interp cw ⟨t, sg, .ground⟩ ([ESC, '['] ++ (digits r ++ (';' :: (digits c ++ ['H'])))) =
      ⟨execCmd cw t (.cursorGoto r c), sg, .ground⟩ := by
  have hj : joinSemi ([r, c].map digits) = digits r ++ (';' :: digits c) := rfl
  have hp : ∀ x ∈ digits r ++ (';' :: digits c), isParamChar x = true := by
    rw [← hj]; exact fun x hx => (joinSemi_noSpace _ x hx).2
  have hs : ' ' ∉ digits r ++ (';' :: digits c) := by
    rw [← hj]; exact fun h => (joinSemi_noSpace _ _ h).1 rfl
  have := interp_csi cw t sg _ hp 'H' (by decide) (by decide)
  simp only [List.cons_append, List.nil_append, List.append_assoc] at this ⊢
  rw [this]
  have hc : csiParams (digits r ++ ';' :: digits c) = [r, c] := by
    rw [← hj]; exact csiParams_join [r, c] (by simp)
  simp only [dispatch, hc, List.contains_eq_mem, hs, decide_false, Bool.false_eq_true, if_false]
  simp

/-- DECSET / DECRST with one parameter -/
theorem interp_decset (t : Term) (sg : Sgr) (q : Nat) (hq : 2 ≤ q ∨ q = 1) (f : Char) (hf : f = 'h' ∨ f = 'l') :
    interp cw ⟨t, sg, .ground⟩ (ESC :: '[' :: '?' :: (digits q ++ [f])) = ⟨decset f t [q], sg, .ground⟩ := by
  have hfp : isParamChar f = false := by rcases hf with h | h <;> subst h <;> decide
  have hfq : f ≠ '?' ∧ f ≠ '>' := by rcases hf with h | h <;> subst h <;> decide
  rw [interp_csi_priv cw t sg (digits q) (paramChar_digits q) f hfp hfq]
  simp only [dispatch, csiParams_digits, true_and]
  rw [if_pos hf]


/-! ### the cursor stays inside the line -/

theorem setCell_w (t : Term) (y x : Nat) (c : TCell) : (t.setCell y x c).w = t.w ∧ (t.setCell y x c).col = t.col ∧
    (t.setCell y x c).row = t.row ∧ (t.setCell y x c).autowrap = t.autowrap := ⟨rfl, rfl, rfl, rfl⟩

theorem fixLeft_w (t : Term) (y x : Nat) : (t.fixLeft y x).w = t.w ∧ (t.fixLeft y x).col = t.col ∧
    (t.fixLeft y x).autowrap = t.autowrap := by
  unfold Term.fixLeft; split <;> exact ⟨rfl, rfl, rfl⟩

theorem fixRight_w (t : Term) (y x : Nat) : (t.fixRight y x).w = t.w ∧ (t.fixRight y x).col = t.col ∧
    (t.fixRight y x).autowrap = t.autowrap := by
  unfold Term.fixRight; split <;> exact ⟨rfl, rfl, rfl⟩

theorem putCont_w (t : Term) (y x : Nat) : ∀ k, (t.putCont y x k).w = t.w ∧ (t.putCont y x k).col = t.col ∧
    (t.putCont y x k).autowrap = t.autowrap := by
  intro k
  induction k with
  | zero => exact ⟨rfl, rfl, rfl⟩
  | succ k ih => simp only [Term.putCont]; exact ih

theorem lineFeed_w (t : Term) : t.lineFeed.w = t.w ∧ t.lineFeed.col = t.col := by
  unfold Term.lineFeed; split <;> exact ⟨rfl, rfl⟩

theorem putGlyph_wcol (t : Term) (c : Char) (k : Nat) (hw : 0 < t.w) (hc : t.col < t.w) :
    (t.putGlyph c k).w = t.w ∧ (t.putGlyph c k).col < t.w := by
  unfold Term.putGlyph
  by_cases h1 : t.w < t.col + k
  · rw [if_pos h1]
    by_cases h2 : t.autowrap = true
    · rw [if_pos h2]
      dsimp only
      split
      · simp only [(lineFeed_w _).1, (lineFeed_w _).2]; exact ⟨trivial, hw⟩
      · simp only [(putCont_w _ _ _ _).1, setCell_w, (fixRight_w _ _ _).1, (fixLeft_w _ _ _).1, (lineFeed_w _).1]
        refine ⟨trivial, ?_⟩
        omega
    · rw [if_neg h2]; exact ⟨rfl, hc⟩
  · rw [if_neg h1]
    dsimp only
    simp only [(putCont_w _ _ _ _).1, (putCont_w _ _ _ _).2.1, (putCont_w _ _ _ _).2.2, setCell_w,
      (fixRight_w _ _ _).1, (fixRight_w _ _ _).2.1, (fixRight_w _ _ _).2.2, (fixLeft_w _ _ _).1,
      (fixLeft_w _ _ _).2.1, (fixLeft_w _ _ _).2.2]
    split
    · rename_i h; exact ⟨rfl, h⟩
    · split
      · simp only [(lineFeed_w _).1, (lineFeed_w _).2]; refine ⟨?_, hw⟩; first | rfl | trivial
      · refine ⟨?_, ?_⟩
        · first | rfl | trivial
        · show t.w - 1 < t.w; omega

theorem putChar_wcol (t : Term) (c : Char) (hw : 0 < t.w) (hc : t.col < t.w) :
    (Term.putChar cw t c).w = t.w ∧ (Term.putChar cw t c).col < t.w := by
  unfold Term.putChar
  split
  · exact ⟨rfl, hw⟩
  · split
    · exact ⟨(lineFeed_w t).1, by rw [(lineFeed_w t).2]; exact hc⟩
    · split
      · exact ⟨rfl, by show t.col - 1 < t.w; omega⟩
      · split
        · exact ⟨rfl, hc⟩
        · split
          · exact ⟨rfl, hc⟩
          · exact putGlyph_wcol t c _ hw hc

theorem write_wcol (s : Text) : ∀ (t : Term), 0 < t.w → t.col < t.w →
    (s.foldl (Term.putChar cw) t).w = t.w ∧ (s.foldl (Term.putChar cw) t).col < t.w := by
  induction s with
  | nil => intro t _ hc; exact ⟨rfl, hc⟩
  | cons c rest ih =>
    intro t hw hc
    obtain ⟨p1, p2⟩ := putChar_wcol cw t c hw hc
    obtain ⟨i1, i2⟩ := ih (Term.putChar cw t c) (by rw [p1]; exact hw) (by rw [p1]; exact p2)
    simp only [List.foldl_cons]
    exact ⟨i1.trans p1, by rw [p1] at i2; exact i2⟩

theorem eraseFrom_wcol (t : Term) (d : Bool) : (t.eraseFrom d).w = t.w ∧ (t.eraseFrom d).col = t.col := by
  unfold Term.eraseFrom
  exact ⟨(fixLeft_w _ _ _).1, (fixLeft_w _ _ _).2.1⟩

/-- every `Output` call leaves the cursor inside the line -/
theorem execCmd_wcol (t : Term) (c : Cmd) (hw : 0 < t.w) (hc : t.col < t.w) :
    (execCmd cw t c).w = t.w ∧ (execCmd cw t c).col < t.w := by
  cases c <;> first
    | exact ⟨rfl, hc⟩
    | exact write_wcol cw _ t hw hc
    | exact ⟨(eraseFrom_wcol t _).1, by show (t.eraseFrom _).col < t.w; rw [(eraseFrom_wcol t _).2]; exact hc⟩
    | exact ⟨rfl, by show min _ (t.w - 1) < t.w; omega⟩
    | exact ⟨rfl, by show t.col - _ < t.w; omega⟩


/-- what printing leaves alone -/
structure Keeps (t t' : Term) : Prop where
  sgr : t'.sgr = t.sgr
  visible : t'.visible = t.visible

theorem Keeps.refl (t : Term) : Keeps t t := ⟨rfl, rfl⟩
theorem Keeps.trans {a b c : Term} (h1 : Keeps a b) (h2 : Keeps b c) : Keeps a c :=
  ⟨h2.sgr.trans h1.sgr, h2.visible.trans h1.visible⟩

theorem fixLeft_keeps (t : Term) (y x : Nat) : Keeps t (t.fixLeft y x) := by
  unfold Term.fixLeft; split <;> exact ⟨rfl, rfl⟩
theorem fixRight_keeps (t : Term) (y x : Nat) : Keeps t (t.fixRight y x) := by
  unfold Term.fixRight; split <;> exact ⟨rfl, rfl⟩
theorem putCont_keeps (t : Term) (y x : Nat) : ∀ k, Keeps t (t.putCont y x k) := by
  intro k
  induction k with
  | zero => exact ⟨rfl, rfl⟩
  | succ k ih => simp only [Term.putCont]; exact ⟨ih.sgr, ih.visible⟩
theorem lineFeed_keeps (t : Term) : Keeps t t.lineFeed := by
  unfold Term.lineFeed; split <;> exact ⟨rfl, rfl⟩

theorem putGlyph_keeps (t : Term) (c : Char) (k : Nat) : Keeps t (t.putGlyph c k) := by
  unfold Term.putGlyph
  by_cases h1 : t.w < t.col + k
  · rw [if_pos h1]
    by_cases h2 : t.autowrap = true
    · rw [if_pos h2]
      dsimp only
      split
      · exact ⟨(lineFeed_keeps _).sgr, (lineFeed_keeps _).visible⟩
      · have a := lineFeed_keeps { t with col := 0 }
        have b := fixLeft_keeps ({ t with col := 0 } : Term).lineFeed ({ t with col := 0 } : Term).lineFeed.row 0
        have c' := fixRight_keeps ((({ t with col := 0 } : Term).lineFeed).fixLeft ({ t with col := 0 } : Term).lineFeed.row 0)
          ({ t with col := 0 } : Term).lineFeed.row k
        have abc := (a.trans b).trans c'
        refine ⟨?_, ?_⟩
        · exact ((putCont_keeps _ _ _ _).sgr).trans abc.sgr
        · exact ((putCont_keeps _ _ _ _).visible).trans abc.visible
    · rw [if_neg h2]; exact ⟨rfl, rfl⟩
  · rw [if_neg h1]
    dsimp only
    have b := fixLeft_keeps t t.row t.col
    have c' := fixRight_keeps (t.fixLeft t.row t.col) t.row (t.col + k)
    have bc := b.trans c'
    have hs := ((putCont_keeps (((t.fixLeft t.row t.col).fixRight t.row (t.col + k)).setCell
      ((t.fixLeft t.row t.col).fixRight t.row (t.col + k)).row ((t.fixLeft t.row t.col).fixRight t.row (t.col + k)).col
      ⟨[c], ((t.fixLeft t.row t.col).fixRight t.row (t.col + k)).sgr⟩)
      ((t.fixLeft t.row t.col).fixRight t.row (t.col + k)).row ((t.fixLeft t.row t.col).fixRight t.row (t.col + k)).col (k - 1)))
    split
    · exact ⟨hs.sgr.trans bc.sgr, hs.visible.trans bc.visible⟩
    · split
      · refine ⟨?_, ?_⟩
        · exact ((lineFeed_keeps _).sgr).trans (hs.sgr.trans bc.sgr)
        · exact ((lineFeed_keeps _).visible).trans (hs.visible.trans bc.visible)
      · exact ⟨hs.sgr.trans bc.sgr, hs.visible.trans bc.visible⟩

theorem putChar_keeps (t : Term) (c : Char) : Keeps t (Term.putChar cw t c) := by
  unfold Term.putChar
  split
  · exact ⟨rfl, rfl⟩
  · split
    · exact lineFeed_keeps t
    · split
      · exact ⟨rfl, rfl⟩
      · split
        · exact Keeps.refl t
        · split
          · exact Keeps.refl t
          · exact putGlyph_keeps t c _

theorem write_keeps (s : Text) : ∀ t : Term, Keeps t (s.foldl (Term.putChar cw) t) := by
  induction s with
  | nil => intro t; exact Keeps.refl t
  | cons c rest ih => intro t; exact (putChar_keeps cw t c).trans (ih _)

/-! ### every call -/
/-- text without ESC is interpreted character by character -/
theorem interp_text (s : Text) (hs : ESC ∉ s) : ∀ (t : Term) (sg : Sgr),
    interp cw ⟨t, sg, .ground⟩ s = ⟨s.foldl (Term.putChar cw) t, sg, .ground⟩ := by
  induction s with
  | nil => intro t sg; rfl
  | cons c rest ih =>
    intro t sg
    have hc : c ≠ ESC := fun h => hs (by simp [h])
    rw [interp_cons]
    have : bstep cw ⟨t, sg, .ground⟩ c = ⟨Term.putChar cw t c, sg, .ground⟩ := by simp [bstep, hc]
    rw [this, ih (fun h => hs (by simp [h]))]
    rfl

theorem map_noEsc (s : Text) (hs : ESC ∉ s) : (s.map fun c => if c = ESC then '?' else c) = s := by
  induction s with
  | nil => rfl
  | cons c rest ih =>
    have hc : c ≠ ESC := fun h => hs (by simp [h])
    simp only [List.map_cons, hc, if_false]
    rw [ih (fun h => hs (by simp [h]))]

/-- a control sequence the interpreter parses and ignores: `ESC [ params final` with a final it does not know,
    or with a blank among the parameters (DECSCUSR) -/
theorem interp_ignored (t : Term) (sg : Sgr) (params : Text) (hp : ∀ c ∈ params, isParamChar c = true)
    (final : Char) (hf : isParamChar final = false) (hq : final ≠ '?' ∧ final ≠ '>')
    (hi : params.contains ' ' = true ∨ final = 'n' ∨ final = 'q') :
    interp cw ⟨t, sg, .ground⟩ (ESC :: '[' :: (params ++ [final])) = ⟨t, sg, .ground⟩ := by
  rw [interp_csi cw t sg params hp final hf hq]
  unfold dispatch
  simp only []
  rcases hi with h | h | h
  · have h' : ' ' ∈ params := by simpa using h
    simp [h']
  · subst h
    have hn : List.contains params ' ' = true ∨ List.contains params ' ' = false := by
      cases List.contains params ' ' <;> simp
    rcases hn with hn | hn <;> simp [hn]
  · subst h
    have hn : List.contains params ' ' = true ∨ List.contains params ' ' = false := by
      cases List.contains params ' ' <;> simp
    rcases hn with hn | hn <;> simp [hn]

/-- the calls whose byte encoding the interpreter gives the abstract semantics of: everything but raw
    zero-width escapes and the alternate-screen switch (which also homes the cursor); text must not contain
    ESC (`Vt100_Output.write` replaces it by `?`; `Char` never produces it), and `set_attributes` is displayed as
    the encoder says -/
def Cmd.vtOk : Cmd → Prop
  | .write s => ESC ∉ s
  | .writeRaw _ => False
  | .setAttrs a d shown => shown = vtEnc d a
  | .enterAlt => False
  | .setCursorShape k => k < 7
  | _ => True

theorem decset_other (f : Char) (t : Term) (q : Nat) (h7 : q ≠ 7) (h25 : q ≠ 25) : decset f t [q] = t := by
  simp [decset, h7, h25]

/-- **interp_emit** — reading what `Vt100_Output` writes for one call does to the terminal exactly what the
    abstract operation of the differ model does; the parser is back in its ground state, the parsed SGR state
    is the one the cells are stored with, and `_cursor_visible` agrees with the terminal. -/
theorem interp_emit (st : VtSt) (t : Term) (sg : Sgr) (c : Cmd) (hok : c.vtOk) (hw : 0 < t.w) (hcol : t.col < t.w)
    (hsg : t.sgr = sg.toAttrs) (hvis : ∀ v, st.cursorVisible = some v → t.visible = v) :
    ∃ sg', interp cw ⟨t, sg, .ground⟩ (vtEmit st c).2 = ⟨execCmd cw t c, sg', .ground⟩ ∧
      (execCmd cw t c).sgr = sg'.toAttrs ∧
      (∀ v, (vtEmit st c).1.cursorVisible = some v → (execCmd cw t c).visible = v) := by
  obtain ⟨g1, g2, g3, g4, g5, g6, g7, g8, g9, g10, g11, g12, g13, g14, g15, g16, g17, g18, g19, g20, g21, g22⟩ :=
    gen_fixed_ok
  cases c with
  | write s =>
    have k := write_keeps cw s t
    refine ⟨sg, ?_, ?_, ?_⟩
    · simp only [vtEmit]; rw [map_noEsc s hok, interp_text cw s hok]; rfl
    · show (s.foldl (Term.putChar cw) t).sgr = _
      rw [k.sgr]; exact hsg
    · intro v hv
      show (s.foldl (Term.putChar cw) t).visible = v
      rw [k.visible]; exact hvis v hv
  | writeRaw _ => exact hok.elim
  | enterAlt => exact hok.elim
  | setAttrs a d shown =>
    have hok' : shown = vtEnc d a := hok
    subst hok'
    refine ⟨_, interp_setAttrs cw t sg a d, rfl, hvis⟩
  | resetAttrs =>
    refine ⟨Sgr.dflt, ?_, rfl, hvis⟩
    simp only [vtEmit, g1]; exact interp_resetAttrs cw t sg
  | cursorUp n => exact ⟨sg, interp_cursorUp cw t sg n, hsg, hvis⟩
  | cursorForward n => exact ⟨sg, interp_cursorForward cw t sg n hcol, hsg, hvis⟩
  | cursorBackward n => exact ⟨sg, interp_cursorBackward cw t sg n, hsg, hvis⟩
  | eraseDown =>
    refine ⟨sg, ?_, ?_, ?_⟩
    · simp only [vtEmit, g2]; exact interp_eraseDown cw t sg
    · show (t.eraseFrom true).sgr = _
      unfold Term.eraseFrom; simp only [(fixLeft_keeps _ _ _).sgr]; exact hsg
    · intro v hv
      show (t.eraseFrom true).visible = v
      unfold Term.eraseFrom; simp only [(fixLeft_keeps _ _ _).visible]; exact hvis v hv
  | eraseEol =>
    refine ⟨sg, ?_, ?_, ?_⟩
    · simp only [vtEmit, g3]; exact interp_eraseEol cw t sg
    · show (t.eraseFrom false).sgr = _
      unfold Term.eraseFrom; simp only [(fixLeft_keeps _ _ _).sgr]; exact hsg
    · intro v hv
      show (t.eraseFrom false).visible = v
      unfold Term.eraseFrom; simp only [(fixLeft_keeps _ _ _).visible]; exact hvis v hv
  | eraseScreen =>
    refine ⟨sg, ?_, hsg, hvis⟩
    simp only [vtEmit, g4]; exact interp_eraseScreen cw t sg
  | cursorGoto r c => exact ⟨sg, interp_cursorGoto cw t sg r c, hsg, hvis⟩
  | hideCursor =>
    by_cases hv : st.cursorVisible = some false
    · have tv := hvis false hv
      refine ⟨sg, ?_, hsg, ?_⟩
      · simp only [vtEmit, hv, if_true, interp_nil, execCmd]
        congr 1
        cases t; simp_all
      · intro v hv'
        simp only [vtEmit, hv, if_true, Option.some.injEq] at hv'
        subst hv'; rfl
    · refine ⟨sg, ?_, hsg, ?_⟩
      · simp only [vtEmit, hv, if_false, g5]
        have h25 : ([ESC, '[', '?', '2', '5', 'l'] : Text) = ESC :: '[' :: '?' :: (digits 25 ++ ['l']) := by decide
        rw [h25, interp_decset cw t sg 25 (by omega) 'l' (Or.inr rfl)]
        simp [decset, execCmd]
      · intro v hv'
        simp only [vtEmit, hv, if_false, Option.some.injEq] at hv'
        subst hv'; rfl
  | showCursor =>
    by_cases hv : st.cursorVisible = some true
    · have tv := hvis true hv
      refine ⟨sg, ?_, hsg, ?_⟩
      · simp only [vtEmit, hv, if_true, interp_nil, execCmd]
        congr 1
        cases t; simp_all
      · intro v hv'
        simp only [vtEmit, hv, if_true, Option.some.injEq] at hv'
        subst hv'; rfl
    · refine ⟨sg, ?_, hsg, ?_⟩
      · simp only [vtEmit, hv, if_false, g6]
        have h : ([ESC, '[', '?', '1', '2', 'l', ESC, '[', '?', '2', '5', 'h'] : Text) =
            (ESC :: '[' :: '?' :: (digits 12 ++ ['l'])) ++ (ESC :: '[' :: '?' :: (digits 25 ++ ['h'])) := by decide
        rw [h, interp_append, interp_decset cw t sg 12 (by omega) 'l' (Or.inr rfl),
          decset_other 'l' t 12 (by omega) (by omega), interp_decset cw t sg 25 (by omega) 'h' (Or.inl rfl)]
        simp [decset, execCmd]
      · intro v hv'
        simp only [vtEmit, hv, if_false, Option.some.injEq] at hv'
        subst hv'; rfl
  | disableAutowrap =>
    refine ⟨sg, ?_, hsg, hvis⟩
    simp only [vtEmit, g7]
    have h : ([ESC, '[', '?', '7', 'l'] : Text) = ESC :: '[' :: '?' :: (digits 7 ++ ['l']) := by decide
    rw [h, interp_decset cw t sg 7 (by omega) 'l' (Or.inr rfl)]
    simp [decset, execCmd]
  | enableAutowrap =>
    refine ⟨sg, ?_, hsg, hvis⟩
    simp only [vtEmit, g8]
    have h : ([ESC, '[', '?', '7', 'h'] : Text) = ESC :: '[' :: '?' :: (digits 7 ++ ['h']) := by decide
    rw [h, interp_decset cw t sg 7 (by omega) 'h' (Or.inl rfl)]
    simp [decset, execCmd]
  | quitAlt =>
    refine ⟨sg, ?_, hsg, hvis⟩
    simp only [vtEmit, g15]
    have h : ([ESC, '[', '?', '1', '0', '4', '9', 'l'] : Text) = ESC :: '[' :: '?' :: (digits 1049 ++ ['l']) := by decide
    rw [h, interp_decset cw t sg 1049 (by omega) 'l' (Or.inr rfl), decset_other _ _ _ (by omega) (by omega)]
    rfl
  | enablePaste =>
    refine ⟨sg, ?_, hsg, hvis⟩
    simp only [vtEmit, g9]
    have h : ([ESC, '[', '?', '2', '0', '0', '4', 'h'] : Text) = ESC :: '[' :: '?' :: (digits 2004 ++ ['h']) := by decide
    rw [h, interp_decset cw t sg 2004 (by omega) 'h' (Or.inl rfl), decset_other _ _ _ (by omega) (by omega)]
    rfl
  | disablePaste =>
    refine ⟨sg, ?_, hsg, hvis⟩
    simp only [vtEmit, g10]
    have h : ([ESC, '[', '?', '2', '0', '0', '4', 'l'] : Text) = ESC :: '[' :: '?' :: (digits 2004 ++ ['l']) := by decide
    rw [h, interp_decset cw t sg 2004 (by omega) 'l' (Or.inr rfl), decset_other _ _ _ (by omega) (by omega)]
    rfl
  | resetCkm =>
    refine ⟨sg, ?_, hsg, hvis⟩
    simp only [vtEmit, g11]
    have h : ([ESC, '[', '?', '1', 'l'] : Text) = ESC :: '[' :: '?' :: (digits 1 ++ ['l']) := by decide
    rw [h, interp_decset cw t sg 1 (Or.inr rfl) 'l' (Or.inr rfl), decset_other _ _ _ (by omega) (by omega)]
    rfl
  | enableMouse =>
    refine ⟨sg, ?_, hsg, hvis⟩
    simp only [vtEmit, g12]
    have h : ([ESC, '[', '?', '1', '0', '0', '0', 'h', ESC, '[', '?', '1', '0', '0', '3', 'h',
        ESC, '[', '?', '1', '0', '1', '5', 'h', ESC, '[', '?', '1', '0', '0', '6', 'h'] : Text) =
        (ESC :: '[' :: '?' :: (digits 1000 ++ ['h'])) ++ ((ESC :: '[' :: '?' :: (digits 1003 ++ ['h'])) ++
        ((ESC :: '[' :: '?' :: (digits 1015 ++ ['h'])) ++ (ESC :: '[' :: '?' :: (digits 1006 ++ ['h'])))) := by decide
    rw [h, interp_append, interp_decset cw t sg 1000 (by omega) 'h' (Or.inl rfl), decset_other _ _ _ (by omega) (by omega),
      interp_append, interp_decset cw t sg 1003 (by omega) 'h' (Or.inl rfl), decset_other _ _ _ (by omega) (by omega),
      interp_append, interp_decset cw t sg 1015 (by omega) 'h' (Or.inl rfl), decset_other _ _ _ (by omega) (by omega),
      interp_decset cw t sg 1006 (by omega) 'h' (Or.inl rfl), decset_other _ _ _ (by omega) (by omega)]
    rfl
  | disableMouse =>
    refine ⟨sg, ?_, hsg, hvis⟩
    simp only [vtEmit, g13]
    have h : ([ESC, '[', '?', '1', '0', '0', '0', 'l', ESC, '[', '?', '1', '0', '1', '5', 'l',
        ESC, '[', '?', '1', '0', '0', '6', 'l', ESC, '[', '?', '1', '0', '0', '3', 'l'] : Text) =
        (ESC :: '[' :: '?' :: (digits 1000 ++ ['l'])) ++ ((ESC :: '[' :: '?' :: (digits 1015 ++ ['l'])) ++
        ((ESC :: '[' :: '?' :: (digits 1006 ++ ['l'])) ++ (ESC :: '[' :: '?' :: (digits 1003 ++ ['l'])))) := by decide
    rw [h, interp_append, interp_decset cw t sg 1000 (by omega) 'l' (Or.inr rfl), decset_other _ _ _ (by omega) (by omega),
      interp_append, interp_decset cw t sg 1015 (by omega) 'l' (Or.inr rfl), decset_other _ _ _ (by omega) (by omega),
      interp_append, interp_decset cw t sg 1006 (by omega) 'l' (Or.inr rfl), decset_other _ _ _ (by omega) (by omega),
      interp_decset cw t sg 1003 (by omega) 'l' (Or.inr rfl), decset_other _ _ _ (by omega) (by omega)]
    rfl
  | resetCursorShape =>
    refine ⟨sg, ?_, hsg, ?_⟩
    · simp only [vtEmit]
      split
      · simp only [g21]
        have := interp_ignored cw t sg ['0', ' '] (by decide) 'q' (by decide) (by decide) (Or.inl (by decide))
        simpa [execCmd] using this
      · rfl
    · intro v hv
      apply hvis v
      simp only [vtEmit] at hv
      split at hv <;> exact hv
  | setCursorShape k =>
    have hk : k < 7 := hok
    refine ⟨sg, ?_, hsg, ?_⟩
    · simp only [vtEmit]
      split
      · rfl
      · rename_i h0
        simp only [g22]
        have hcases : k = 1 ∨ k = 2 ∨ k = 3 ∨ k = 4 ∨ k = 5 ∨ k = 6 := by omega
        rcases hcases with h | h | h | h | h | h <;> subst h
        · have := interp_ignored cw t sg ['2', ' '] (by decide) 'q' (by decide) (by decide) (Or.inl (by decide))
          simpa [execCmd] using this
        · have := interp_ignored cw t sg ['6', ' '] (by decide) 'q' (by decide) (by decide) (Or.inl (by decide))
          simpa [execCmd] using this
        · have := interp_ignored cw t sg ['4', ' '] (by decide) 'q' (by decide) (by decide) (Or.inl (by decide))
          simpa [execCmd] using this
        · have := interp_ignored cw t sg ['1', ' '] (by decide) 'q' (by decide) (by decide) (Or.inl (by decide))
          simpa [execCmd] using this
        · have := interp_ignored cw t sg ['5', ' '] (by decide) 'q' (by decide) (by decide) (Or.inl (by decide))
          simpa [execCmd] using this
        · have := interp_ignored cw t sg ['3', ' '] (by decide) 'q' (by decide) (by decide) (Or.inl (by decide))
          simpa [execCmd] using this
    · intro v hv
      apply hvis v
      simp only [vtEmit] at hv
      split at hv <;> exact hv
  | scrollToPrompt =>
    refine ⟨sg, ?_, hsg, hvis⟩
    simp only [vtEmit, g17]; rfl
  | flush => exact ⟨sg, rfl, hsg, hvis⟩
  | askCpr =>
    refine ⟨sg, ?_, hsg, hvis⟩
    simp only [vtEmit, g16]
    have := interp_ignored cw t sg ['6'] (by decide) 'n' (by decide) (by decide) (Or.inr (Or.inl rfl))
    simpa [execCmd] using this


/-! ### lists of calls; the differ's output -/

/-- **interp_emitAll** — reading everything `Vt100_Output` writes for a list of calls = executing the abstract
    operations one after another. -/
theorem interp_emitAll : ∀ (cs : List Cmd) (st : VtSt) (t : Term) (sg : Sgr), (∀ c ∈ cs, c.vtOk) → 0 < t.w →
    t.col < t.w → t.sgr = sg.toAttrs → (∀ v, st.cursorVisible = some v → t.visible = v) →
    ∃ sg', interp cw ⟨t, sg, .ground⟩ (vtEmitAll st cs).2 = ⟨exec cw t cs, sg', .ground⟩ ∧
      (exec cw t cs).sgr = sg'.toAttrs ∧
      (∀ v, (vtEmitAll st cs).1.cursorVisible = some v → (exec cw t cs).visible = v) ∧
      (exec cw t cs).w = t.w ∧ (exec cw t cs).col < t.w := by
  intro cs
  induction cs with
  | nil => intro st t sg _ _ hcol hsg hvis; exact ⟨sg, rfl, hsg, hvis, rfl, hcol⟩
  | cons c cs ih =>
    intro st t sg hok hw hcol hsg hvis
    obtain ⟨sg1, e1, e2, e3⟩ := interp_emit cw st t sg c (hok c (by simp)) hw hcol hsg hvis
    obtain ⟨w1, c1⟩ := execCmd_wcol cw t c hw hcol
    obtain ⟨sg2, f1, f2, f3, f4, f5⟩ := ih (vtEmit st c).1 (execCmd cw t c) sg1
      (fun x hx => hok x (by simp [hx])) (by rw [w1]; exact hw) (by rw [w1]; exact c1) e2 e3
    refine ⟨sg2, ?_, f2, f3, f4.trans w1, by rw [w1] at f5; exact f5⟩
    simp only [vtEmitAll, interp_append, e1]
    exact f1

/-- no cell text contains ESC (`Char` displays control characters as `^[` …), and there are no raw
    zero-width escapes -/
structure BytesOk (s : Screen) : Prop where
  noEsc : ∀ row ∈ s.rows, ∀ c ∈ row, ESC ∉ c.txt
  noZwe : s.zwe = []

theorem repeat_crlf_noEsc : ∀ n, ESC ∉ repeatText crlf n := by
  intro n
  induction n with
  | zero => simp [repeatText]
  | succ k ih =>
    rw [repeat_crlf_succ]
    intro h
    simp only [List.mem_cons] at h
    rcases h with h | h | h
    · revert h; decide
    · revert h; decide
    · exact ih h

theorem moveCursor_vtOk (w : Nat) (pos : Point) (last : Option Nat) (new : Point) :
    ∀ c ∈ (moveCursor w pos last new).1, c.vtOk := by
  intro c hc
  unfold moveCursor at hc
  split at hc
  · simp only [List.mem_cons, List.mem_nil_iff, or_false] at hc
    rcases hc with h | h | h <;> subst h
    · trivial
    · exact repeat_crlf_noEsc _
    · trivial
  · simp only [List.mem_append] at hc
    rcases hc with h | h
    · split at h
      · simp at h; subst h; trivial
      · cases h
    · split at h
      · simp only [List.mem_cons, List.mem_nil_iff, or_false] at h
        rcases h with h | h <;> subst h
        · show ESC ∉ ['\r']; decide
        · trivial
      · split at h
        · simp at h; subst h; trivial
        · split at h
          · simp at h; subst h; trivial
          · cases h

theorem cellAt_noEsc (s : Screen) (ok : BytesOk s) (y x : Nat) : ESC ∉ (cellAt (s.row y) x).txt := by
  unfold cellAt Screen.row
  by_cases hy : y < s.rows.length
  · by_cases hx : x < (s.rows.getD y []).length
    · have hrow : s.rows.getD y [] ∈ s.rows := by
        rw [getD_lt _ _ _ hy]; exact List.getElem_mem hy
      have hcell : (s.rows.getD y []).getD x Cell.dflt ∈ s.rows.getD y [] := by
        rw [getD_lt _ _ _ hx]; exact List.getElem_mem hx
      exact ok.noEsc _ hrow _ hcell
    · rw [getD_ge _ x _ (by omega)]
      show ESC ∉ [' ']; decide
  · rw [getD_ge s.rows y _ (by omega), getD_ge _ x _ (by simp)]
    show ESC ∉ [' ']; decide

theorem outputChar_vtOk (e : Env) (he : e.enc = vtEnc) (last : Option Nat) (c : Cell) (hc : ESC ∉ c.txt) :
    ∀ x ∈ (outputChar e last c).1, x.vtOk := by
  intro x hx
  unfold outputChar at hx
  split at hx
  · simp at hx; subst hx; exact hc
  · simp only [List.mem_append, List.mem_singleton] at hx
    rcases hx with h | h
    · split at h
      · simp at h; subst h
        show e.attrsOf c.style = vtEnc e.depth (e.rawOf c.style)
        simp [Env.attrsOf, he]
      · cases h
    · subst h; exact hc

theorem colLoop_vtOk (e : Env) (he : e.enc = vtEnc) (s : Screen) (ok : BytesOk s) (y : Nat)
    (prevRow : List Cell) (n : Nat) : ∀ (fuel c : Nat) (pos : Point) (last : Option Nat),
    ∀ x ∈ (colLoop e s y (s.row y) prevRow n fuel c pos last).cmds, x.vtOk := by
  intro fuel
  induction fuel with
  | zero => intro c pos last x hx; cases hx
  | succ fuel ih =>
    intro c pos last x hx
    unfold colLoop at hx
    split at hx
    · dsimp only at hx
      split at hx
      · simp only [List.mem_append] at hx
        rcases hx with h | h | h | h
        · exact moveCursor_vtOk _ _ _ _ x h
        · simp [zweCmds, zweAt, ok.noZwe] at h
        · exact outputChar_vtOk e he _ _ (cellAt_noEsc s ok y c) x h
        · exact ih _ _ _ x h
      · exact ih _ _ _ x hx
    · cases hx

theorem rowStep_vtOk (e : Env) (he : e.enc = vtEnc) (s prev : Screen) (ok : BytesOk s) (y : Nat) (pos : Point)
    (last : Option Nat) : ∀ x ∈ (rowStep e s prev y pos last).cmds, x.vtOk := by
  intro x hx
  unfold rowStep at hx
  simp only [] at hx
  split at hx
  · simp only [List.mem_append, List.mem_cons, List.mem_nil_iff, or_false] at hx
    rcases hx with h | h | h | h
    · exact colLoop_vtOk e he s ok y _ _ _ _ _ _ x h
    · exact moveCursor_vtOk _ _ _ _ x h
    · subst h; trivial
    · subst h; trivial
  · exact colLoop_vtOk e he s ok y _ _ _ _ _ _ x hx

theorem rowLoop_vtOk (e : Env) (he : e.enc = vtEnc) (s prev : Screen) (ok : BytesOk s) :
    ∀ (k y : Nat) (pos : Point) (last : Option Nat), ∀ x ∈ (rowLoop e s prev k y pos last).cmds, x.vtOk := by
  intro k
  induction k with
  | zero => intro y pos last x hx; cases hx
  | succ k ih =>
    intro y pos last x hx
    unfold rowLoop at hx
    simp only [List.mem_append] at hx
    rcases hx with h | h
    · exact rowStep_vtOk e he s prev ok y pos last x h
    · exact ih _ _ _ x h

/-- every call the differ makes is one whose bytes the interpreter understands -/
theorem diff_vtOk (e : Env) (he : e.enc = vtEnc) (s : Screen) (ok : BytesOk s) (pos : Point)
    (prev : Option Screen) (last : Option Nat) (isDone : Bool) (pw : Nat) :
    ∀ x ∈ (diff e s pos prev last isDone pw).cmds, x.vtOk := by
  intro x hx
  unfold diff at hx
  simp only [List.mem_append] at hx
  rcases hx with h | h | h
  · unfold preamble at h
    simp only [] at h
    split at h
    · simp only [List.mem_append, List.mem_cons, List.mem_nil_iff, or_false] at h
      rcases h with h | h | h | h | h | h
      · subst h; trivial
      · split at h
        · simp at h; subst h; trivial
        · cases h
      · split at h
        · simp at h; subst h; trivial
        · cases h
      · exact moveCursor_vtOk _ _ _ _ x h
      · subst h; trivial
      · subst h; trivial
    · simp only [List.mem_append, List.mem_cons, List.mem_nil_iff, or_false] at h
      rcases h with h | h | h
      · subst h; trivial
      · split at h
        · simp at h; subst h; trivial
        · cases h
      · split at h
        · simp at h; subst h; trivial
        · cases h
  · exact rowLoop_vtOk e he s _ ok _ _ _ _ x h
  · unfold finish at h
    simp only [List.mem_append] at h
    rcases h with h | h | h | h | h | h
    · split at h
      · exact moveCursor_vtOk _ _ _ _ x h
      · cases h
    · exact moveCursor_vtOk _ _ _ _ x h
    · split at h
      · simp at h; subst h; trivial
      · cases h
    · split at h
      · simp at h; subst h; trivial
      · cases h
    · simp at h; subst h; trivial
    · split at h
      · simp at h; subst h; trivial
      · cases h

/-- **diff_bytes** — the terminal that READS THE BYTES `Vt100_Output` writes for the differ's calls ends up
    exactly where the abstract terminal of the differ theorems does (cells, cursor, modes, ghost fields). -/
theorem diff_bytes (e : Env) (he : e.enc = vtEnc) (s : Screen) (ok : BytesOk s) (pos : Point)
    (prev : Option Screen) (last : Option Nat) (isDone : Bool) (pw : Nat)
    (st : VtSt) (t : Term) (sg : Sgr) (hw : 0 < t.w) (hcol : t.col < t.w) (hsg : t.sgr = sg.toAttrs)
    (hvis : ∀ v, st.cursorVisible = some v → t.visible = v) :
    (interp cw ⟨t, sg, .ground⟩ (vtEmitAll st (diff e s pos prev last isDone pw).cmds).2).t =
      exec cw t (diff e s pos prev last isDone pw).cmds ∧
    (interp cw ⟨t, sg, .ground⟩ (vtEmitAll st (diff e s pos prev last isDone pw).cmds).2).ps = .ground := by
  obtain ⟨sg', h1, _⟩ := interp_emitAll cw _ st t sg (diff_vtOk e he s ok pos prev last isDone pw) hw hcol hsg hvis
  rw [h1]; exact ⟨rfl, rfl⟩


/-- what a terminal displays for attributes without colour / underline / strike / blink / reverse has none of
    them either: the encoder satisfies the side condition `EnvOk.enc` of the differ theorems -/
theorem vtEnc_plain (d : Nat) (a : Attrs) (h : a.hasStyle = false) : (vtEnc d a).hasStyle = false := by
  obtain ⟨fg, bg, bold, underline, strike, italic, blink, reverse, hidden⟩ := a
  simp only [Attrs.hasStyle, Bool.or_eq_false_iff, Bool.not_eq_false', List.isEmpty_iff] at h
  obtain ⟨⟨⟨⟨⟨h1, h2⟩, h3⟩, h4⟩, h5⟩, h6⟩ := h
  subst h1; subst h2; subst h3; subst h4; subst h5; subst h6
  have hc : ∀ d, colorsToCode d [] [] = [] := by intro d; simp [colorsToCode, colorGet]
  cases bold <;> cases italic <;> cases hidden <;>
    simp [vtEnc, sgrParams, hc, applySgr, Sgr.toAttrs, Sgr.dflt, Attrs.hasStyle, joinSemi]

/-- the differ environment of a real `Vt100_Output`: `enc` is the escape-code encoder followed by the
    terminal's SGR interpretation -/
theorem envOk_vt (e : Env) (he : e.enc = vtEnc) (hd : (e.rawOf 1).hasStyle = false) : EnvOk e :=
  ⟨hd, fun a ha => by rw [he]; exact vtEnc_plain e.depth a ha⟩

section ExamplesVt

def exRed : Attrs := { Attrs.dflt with bg := "ansired".toList, bold := true }
def exOrange : Attrs := { Attrs.dflt with fg := "ff8800".toList, underline := true }

/-- the encoder at the four colour depths: a named ANSI colour, and an RGB colour quantised to the 16 / 256
    colour palettes or sent as true colour -/
example : escapeCode 8 exRed = "\x1b[0;41;1m".toList ∧
    escapeCode 1 exRed = "\x1b[0;1m".toList ∧
    escapeCode 4 exOrange = "\x1b[0;33;4m".toList ∧
    escapeCode 8 exOrange = "\x1b[0;38;5;208;4m".toList ∧
    escapeCode 24 exOrange = "\x1b[0;38;2;255;136;0;4m".toList ∧
    escapeCode 8 Attrs.dflt = "\x1b[0m".toList := by
  decide +kernel

/-- `interp_emitAll` is not vacuous: the byte stream of a small list of calls, read by the interpreter -/
example : (interp (fun _ => 1) ⟨Term.fresh 4 2 0 (fun _ _ => TCell.blank), Sgr.dflt, .ground⟩
    (vtEmitAll VtSt.init [.hideCursor, .setAttrs exRed 8 (vtEnc 8 exRed), .write ['a', 'b'], .cursorBackward 1,
      .resetAttrs, .eraseEol, .write ['\r', '\n'], .cursorForward 2, .showCursor]).2).t.cells 0 0 =
      ⟨['a'], vtEnc 8 exRed⟩ ∧
    (vtEmitAll VtSt.init [.hideCursor, .setAttrs exRed 8 (vtEnc 8 exRed), .write ['a', 'b'], .cursorBackward 1,
      .resetAttrs, .eraseEol, .write ['\r', '\n'], .cursorForward 2, .showCursor]).2 =
      "\x1b[?25l\x1b[0;41;1mab\x08\x1b[0m\x1b[K\r\n\x1b[2C\x1b[?12l\x1b[?25h".toList ∧
    (vtEnc 8 exRed).bg = "41".toList := by
  decide +kernel

end ExamplesVt

end Ptk.C06
