/-
  C01 — the readline named commands as LOCAL EDITS (part 4: the case transforms over several words,
  insert-comment, the numeric argument `KeyPressEvent.arg`) and the pins / side conditions on the
  constants regenerated from /repo (`Ptk.Gen.C01`).
-/
import Ptk.Props.C01Line
import Ptk.Gen.C01
namespace Ptk.C01
open Ptk.Py

/-! ### case transforms over several words -/

/-- `uppercase-word` / `downcase-word` / `capitalize-word` with any repetition count: only one
    stretch directly after the cursor is rewritten; the text before the cursor and the rest of the
    text after that stretch are untouched, the cursor ends behind the rewritten stretch -/
theorem transformWords_frame (sp : Char → Bool) (f : Text → Text) (n : Nat) (b : Buf) (h : Inv b) :
    ∃ j x, LocalEdit b (transformWords sp f n b) 0 j x := by
  induction n generalizing b with
  | zero =>
    refine ⟨0, [], by omega, by omega, ?_, by simp [transformWords]⟩
    simp [transformWords, before_append_after]
  | succ n ih =>
    unfold transformWords
    cases hw : transformWord sp f b with
    | none =>
      refine ⟨0, [], by omega, by omega, ?_, by simp⟩
      simp [before_append_after]
    | some b' =>
      simp only []
      have hi' := transformWord_inv sp f b b' h hw
      obtain ⟨pos, _, ht, hc⟩ := transformWord_frame sp f b b' hw
      obtain ⟨j', x', _, hj', ht', hc'⟩ := ih b' hi'
      have hl := before_length b h
      -- b' as a local edit of b
      have he : LocalEdit b b' 0 (min pos b.after.length) (f ((b.text.drop b.cur).take pos)) := by
        have hdrop : b.text.drop (b.cur + pos) = b.after.drop (min pos b.after.length) := by
          simp only [Buf.after, List.drop_drop]
          by_cases hp : pos ≤ (b.text.drop b.cur).length
          · rw [Nat.min_eq_left hp]
          · have hlen : (b.text.drop b.cur).length = b.text.length - b.cur := by simp
            have : min pos (b.text.drop b.cur).length = (b.text.drop b.cur).length := by omega
            rw [this, hlen]
            rw [hlen] at hp
            rw [List.drop_eq_nil_of_le (by omega), List.drop_eq_nil_of_le (by omega)]
        refine ⟨by omega, by omega, ?_, by simp [hc]⟩
        rw [ht, hdrop]
        simp [Buf.before, List.take_take]
      obtain ⟨hb', ha'⟩ := localEdit_sides h he
      simp only [Nat.sub_zero, before_take_self] at hb'
      refine ⟨min pos b.after.length + j', f ((b.text.drop b.cur).take pos) ++ x', by omega, ?_, ?_, ?_⟩
      · rw [ha'] at hj'; simp at hj' ⊢; omega
      · rw [ht', ha']
        simp only [Nat.sub_zero, before_take_self, List.drop_drop]
        rw [hb']; simp
      · rw [hc', hc]; simp; omega

example : transformWords (fun c => c == ' ') (fun t => t.map Char.toUpper) 2
    { text := "ab cd ef".toList, cur := 0 } = { text := "AB CD ef".toList, cur := 5 } := by decide

/-! ### insert-comment -/

/-- `insert-comment` (the text part): the new text is the `"\n"`-join of the per-line changed lines
    of `text.splitlines()` — with the "comment" argument every line gets the prefix, otherwise a line
    that starts with the prefix loses its first character and every other line is unchanged — and the
    cursor is 0 -/
theorem insertComment_spec (br : Char → Bool) (pre : Text) (ca : Int) (b : Buf) (arg : Int) :
    (insertComment br pre ca b arg).cur = 0 ∧
    (arg = ca → (insertComment br pre ca b arg).text
        = join ['\n'] ((splitLinesPy br b.text).map fun l => pre ++ l)) ∧
    (arg ≠ ca → (insertComment br pre ca b arg).text
        = join ['\n'] ((splitLinesPy br b.text).map fun l => if isPrefixOf' pre l then l.drop 1 else l)) := by
  have hc : ∀ t : Text, setDoc b t 0 = { text := t, cur := 0 } := by
    intro t; simp [setDoc]
  refine ⟨?_, ?_, ?_⟩
  · simp [insertComment, hc]
  · intro he; simp [insertComment, hc, he]
  · intro he; simp only [insertComment, hc, he, ne_eq, not_false_eq_true, if_true]; rfl

theorem insertComment_inv (br : Char → Bool) (pre : Text) (ca : Int) (b : Buf) (arg : Int) :
    Inv (insertComment br pre ca b arg) := by
  unfold Inv; rw [(insertComment_spec br pre ca b arg).1]; omega

example : insertComment (fun c => c == '\n') ['#'] 1 { text := "a\n#b".toList, cur := 2 } 1
    = { text := "#a\n##b".toList, cur := 0 } := by decide
example : insertComment (fun c => c == '\n') ['#'] 1 { text := "a\n#b".toList, cur := 2 } 4
    = { text := "a\nb".toList, cur := 0 } := by decide

/-! ### the numeric argument -/

/-- no argument typed: 1; only `-` typed: -1 -/
theorem argVal_none (c ct : Int) : argVal c ct none = 1 := rfl
theorem argVal_dash (c ct : Int) : argOfKeys c ct [.dash] = -1 := by
  simp [argOfKeys, argFeed, argAppend, argVal]

/-- whatever is typed, the argument handed to a command is below the clamp ("don't exceed a
    million"), for any clamp > 1 with a replacement below it -/
theorem argVal_lt_clamp (c ct : Int) (h1 : 1 < c) (h2 : ct < c) (a : Option ArgStr) :
    argVal c ct a < c := by
  cases a with
  | none => simp [argVal]; omega
  | some a =>
    simp only [argVal]
    have aux : ∀ r : Int, (if r ≥ c then ct else r) < c := by
      intro r; split <;> omega
    split
    · omega
    · exact aux _

/-- `-` is accepted exactly when no argument or only `-` has been typed; after a digit the
    `assert current is None or current == "-"` of the code fails (AssertionError) -/
theorem argAppend_dash (cur : Option ArgStr) :
    (argAppend cur .dash).isSome = true ↔
      (cur = none ∨ cur = some { neg := true, digits := [] }) := by
  cases cur with
  | none => simp [argAppend]
  | some a =>
    obtain ⟨n, ds⟩ := a
    cases n <;> cases ds <;> simp [argAppend]

example : argAppend (some { neg := false, digits := [1] }) .dash = none := by decide

/-- typing `Esc d₁ … Esc dₙ` (decimal digits, optionally after `Esc -`) never fails and
    accumulates exactly these digits -/
theorem argAppend_digits (a : Option ArgStr) (ds : List Nat) (hne : ds ≠ []) (hd : ∀ d ∈ ds, d < 10) :
    (ds.map ArgKey.digit).foldl argFeed a =
      some { neg := (a.map (·.neg)).getD false, digits := (a.map (·.digits)).getD [] ++ ds } := by
  induction ds generalizing a with
  | nil => exact absurd rfl hne
  | cons d ds ih =>
    have hd0 : d < 10 := hd d (by simp)
    simp only [List.map_cons, List.foldl_cons]
    by_cases hds : ds = []
    · subst hds
      cases a <;> simp [argFeed, argAppend, hd0]
    · rw [ih _ hds (fun x hx => hd x (by simp [hx]))]
      cases a <;> simp [argFeed, argAppend, hd0]

example : argOfKeys 1000000 1 [.dash, .digit 1, .digit 2] = -12 := by decide
example : argOfKeys 1000000 1 [.digit 1, .digit 0, .digit 0, .digit 0, .digit 0, .digit 0, .digit 0] = 1 := by decide

/-! ### setters (clamping), read-only buffers -/

/-- the cursor setter: value clamped into `0..len(text)`, text untouched -/
theorem setCursor_spec (b : Buf) (v : Int) :
    (setCursor b v).text = b.text ∧
    ((setCursor b v).cur : Int) = max 0 (min v b.text.length) := by
  simp [setCursor]; omega

/-- the text setter: the new text is exactly the value, the cursor is clamped to its length -/
theorem setText_spec (b : Buf) (t : Text) :
    (setText b t).text = t ∧ (setText b t).cur = min b.cur t.length := by
  simp [setText]

/-- the document setter: text and cursor are taken together; a negative cursor is stored as 0; a
    cursor beyond the text is rejected by `Document.__init__` and nothing changes -/
theorem setDoc_spec (b : Buf) (t : Text) (c : Int) :
    (c ≤ (t.length : Int) → (setDoc b t c).text = t ∧ ((setDoc b t c).cur : Int) = max 0 c) ∧
    ((t.length : Int) < c → setDoc b t c = b) := by
  constructor
  · intro h; simp [setDoc, h]; omega
  · intro h
    have : ¬ c ≤ (t.length : Int) := by omega
    simp [setDoc, this]

/-- on a writable buffer the read-only aware setters are the plain ones -/
theorem setTextRO_writable (b : Buf) (t : Text) (h : Inv b) : (setTextRO false b t).1 = setText b t := by
  unfold Inv at h
  by_cases hgt : b.cur > t.length
  · simp [setTextRO, setText, setCursor, hgt]; omega
  · simp [setTextRO, setText, hgt]; omega

/-- a read-only buffer never changes its text: the text setter and `set_document` without
    `bypass_readonly` raise and leave the text as it was (the text setter may already have clamped
    the cursor, which stays inside the text); with `bypass_readonly` the document is set -/
theorem readOnly_spec (b : Buf) (h : Inv b) (t : Text) (c : Int) :
    (setTextRO true b t).2 = true ∧ (setTextRO true b t).1.text = b.text ∧ Inv (setTextRO true b t).1 ∧
    (c ≤ (t.length : Int) → setDocumentRO true false b t c = (b, true)) ∧
    (setDocumentRO true true b t c).1 = setDoc b t c := by
  refine ⟨by simp [setTextRO], ?_, ?_, ?_, ?_⟩
  · by_cases hgt : b.cur > t.length <;> simp [setTextRO, hgt, setCursor]
  · by_cases hgt : b.cur > t.length
    · simp only [setTextRO, hgt, if_true]; exact setCursor_inv _ _
    · simp only [setTextRO, hgt, if_false, if_true]; exact h
  · intro hc; simp [setDocumentRO, hc]
  · simp only [setDocumentRO, setDoc]
    split <;> simp

example : setTextRO true { text := "hello".toList, cur := 4 } "ab".toList
    = ({ text := "hello".toList, cur := 2 }, true) := by decide

/-! ### insert_line_above / insert_line_below: where the cursor ends -/

/-- insert_line_below: the cursor ends behind the inserted line ending and margin, i.e. at the start
    of the new line's content -/
theorem lineBelow_cursor (sp : Char → Bool) (b : Buf) (h : Inv b) (c : Bool) :
    (insertLineBelow sp b c).cur =
      b.cur + (lineAfter b).length + 1 + (if c then (leadingWs sp b).length else 0) := by
  have hle := lineAfter_le b h
  unfold Inv at h
  have hb1 : setCursor b ((b.cur : Int) + (lineAfter b).length)
      = { text := b.text, cur := b.cur + (lineAfter b).length } := by
    simp [setCursor]; omega
  have hi : Inv { text := b.text, cur := b.cur + (lineAfter b).length } := by unfold Inv; simpa using hle
  unfold insertLineBelow
  rw [hb1]
  cases c
  · have := (insert_spec _ hi ['\n'] true).2
    simp at this ⊢; exact this
  · have := (insert_spec _ hi ('\n' :: leadingWs sp b) true).2
    simp at this ⊢; rw [this]; omega

/-- insert_line_above: the cursor ends on the new line, behind the copied margin -/
theorem lineAbove_cursor (sp : Char → Bool) (b : Buf) (h : Inv b) (c : Bool) :
    (insertLineAbove sp b c).cur =
      b.cur - (lineBefore b).length + (if c then (leadingWs sp b).length else 0) := by
  have hle := lineBefore_le b h
  unfold Inv at h
  have hb1 : setCursor b ((b.cur : Int) - (lineBefore b).length)
      = { text := b.text, cur := b.cur - (lineBefore b).length } := by
    simp [setCursor]; omega
  have hi : Inv { text := b.text, cur := b.cur - (lineBefore b).length } := by unfold Inv; simp; omega
  unfold insertLineAbove
  rw [hb1]
  cases c
  · have h2 := insert_spec _ hi ['\n'] true
    simp only [if_true] at h2
    simp only [setCursor, Bool.false_eq_true, if_false]
    rw [h2.2, h2.1]
    simp [Buf.before, Buf.after]; omega
  · have h2 := insert_spec _ hi (leadingWs sp b ++ ['\n']) true
    simp only [if_true] at h2
    simp only [setCursor, if_true]
    rw [h2.2, h2.1]
    simp [Buf.before, Buf.after]; omega

example : insertLineAbove (fun c => c == ' ') { text := "x\n  ab".toList, cur := 5 } true
    = { text := "x\n  \n  ab".toList, cur := 4 } := by decide
example : insertLineBelow (fun c => c == ' ') { text := "  ab\nx".toList, cur := 1 } true
    = { text := "  ab\n  \nx".toList, cur := 7 } := by decide

/-! ### pins: the constants of the current tree the model was written for -/

/-- pattern pins: the scanner `wordMatches` is valid for exactly these two patterns -/
example : Gen.C01.findWordRe = "([a-zA-Z0-9_]+|[^a-zA-Z0-9_\\s]+)" := by decide
example : Gen.C01.findBigWordRe = "([^\\s]+)" := by decide
example : Gen.C01.findWordReFlags = 32 ∧ Gen.C01.findBigWordReFlags = 32 := by decide

/-- side conditions on the regenerated constants under which the theorems describe the code:
    the clamp of the numeric argument is above 1 and its replacement below it; the two indent units
    agree; join strips exactly the blank; the comment prefix is one character (the uncomment callback
    drops `line[1:]`); the document cache has room for at least one entry -/
def GenOK : Prop :=
  1 < Gen.C01.argClamp ∧ Gen.C01.argClampTo < Gen.C01.argClamp ∧
  Gen.C01.indentUnit = indentUnit ∧ Gen.C01.unindentUnit = indentUnit ∧
  Gen.C01.joinNextStrip = [' '] ∧ Gen.C01.joinSelectedStrip = [' '] ∧
  Gen.C01.commentPrefix.length = 1 ∧ 0 < Gen.C01.documentCacheSize ∧ 0 < Gen.C01.reshapeDefaultWidth

instance : Decidable GenOK := by unfold GenOK; infer_instance

theorem gen_ok : GenOK := by decide +kernel

end Ptk.C01
