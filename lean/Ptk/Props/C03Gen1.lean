/-
  C03 — the first set of side conditions (`wf`, see `Props/C03Lossless.lean`), re-decided by the
  kernel on the table regenerated from /repo.
-/
import Ptk.Props.C03Lossless
namespace Ptk.C03

/-- `ANSI_SEQUENCES`, the three hard-coded `Keys` and the `\\d` class of the current tree satisfy
    the side conditions the theorems rely on (see `wf`): every entry has a non-empty sequence and
    value and is the dict value of its sequence, no sequence looks like a CPR / mouse report, only
    `ESC[200~` maps to the paste key, no other sequence contains `ESC[200~`, `~` is not a digit. -/
theorem gen_ok : WF genCfg := (wf_iff genCfg).1 (by decide +kernel)

end Ptk.C03
