/-
  C11 — wrapping with ARBITRARY cell widths, the code as it is: where the last character of a wrapped
  piece lands (`fold_wrap_last_gen`), the cursor cell of a wrapped line / body (`copyLine_wrap_cursor_gen`,
  `copyBody_wrap_cursor_gen`), the window theorem conditional on the height estimate being exact
  (`wrap_cursor_in_window_est`), when the estimate IS exact (`estimate_exact`: all-narrow lines and lines
  that do not wrap) and the resulting `wrap_cursor_in_window_partial` with the exact excluded region.
-/
import Ptk.Props.C11Gen
namespace Ptk.C11
open Ptk.Py

/-! ### the wrapped copy of a line, any widths: where its last character lands -/

theorem wrappedHeight_append (pw : Nat → Nat) (w : Nat) (hpw : ∀ k, pw k < w) (xs ys : List Nat) :
    ∀ x h, wrappedHeight pw w xs x h ≤ wrappedHeight pw w (xs ++ ys) x h := by
  induction xs with
  | nil => intro x h; exact wrappedHeight_ge pw w hpw ys x h
  | cons c cs ih =>
    intro x h
    simp only [List.cons_append, wrappedHeight]
    split
    · rw [if_neg (by have := hpw h; omega), if_neg (by have := hpw h; omega)]; exact ih _ _
    · exact ih _ _

theorem wrappedHeight_short (pw : Nat → Nat) (w : Nat) (cws : List Nat) :
    ∀ x h, x + cws.sum ≤ w → wrappedHeight pw w cws x h = h := by
  induction cws with
  | nil => intro x h _; rfl
  | cons c cs ih =>
    intro x h hs
    simp only [List.sum_cons] at hs
    rw [wrappedHeight, if_neg (by omega)]
    exact ih _ _ (by omega)

/-- wrapping, ANY cell widths: after copying `a ++ [c]` (with `c` at least one column wide) the loop
    has moved down exactly `wrappedHeight − 1` rows, `c` has just been drawn on the current row at a
    column inside the window, its cell shows it and `rowcol_to_yx` has just got its entry -/
theorem fold_wrap_last_gen {e : Env} (hwrap : e.wrap = true) (w : Nat) (hw : e.width = w)
    (pw : Nat → Nat) (hpw : ∀ k, pw k < w) (l s : Nat) (hook : CS → CS)
    (hg : HookGeom pw hook) (c : Char) (hc : 1 ≤ cellW e.W c) (a : Text) :
    ∀ (st : CS) (xn : Nat), st.ret = false → st.x = xn →
      st.y + (wrappedHeight pw w ((a ++ [c]).map (cellW e.W)) xn (st.wc + 1) : Nat) < e.height + ((st.wc + 1 : Nat) : Int) →
      let r := (a ++ [c]).foldl (step e true l s hook) st
      r.ret = false ∧
      r.y + ((st.wc + 1 : Nat) : Int) = st.y + (wrappedHeight pw w ((a ++ [c]).map (cellW e.W)) xn (st.wc + 1) : Nat) ∧
      r.col = st.col + a.length + 1 ∧
      (0 ≤ r.y → ∃ xc : Nat, xc < w ∧ r.x = ((xc + cellW e.W c : Nat) : Int) ∧
        cellAt r.cells (r.y + e.ypos, (xc : Int) + e.xpos) = e.W.disp c ∧
        r.rc.head? = some ((l, st.col + a.length + s), (r.y + e.ypos, (xc : Int) + e.xpos))) := by
  induction a with
  | nil =>
    intro st xn hr hx hy
    simp only [List.nil_append, List.foldl_cons, List.foldl_nil, List.map_cons, List.map_nil, wrappedHeight,
      List.length_nil, Nat.add_zero] at hy ⊢
    by_cases hfit : xn + cellW e.W c > w
    · rw [if_pos hfit, if_neg (by have := hpw (st.wc + 1); omega)] at hy ⊢
      obtain ⟨q1, q2, q3, q4, q5⟩ := hg (wrapSt l st) rfl hr
      have q2' : (hook (wrapSt l st)).y = st.y + 1 := by rw [q2]; rfl
      have q3' : (hook (wrapSt l st)).wc = st.wc + 1 := by rw [q3]; rfl
      have q1' : (hook (wrapSt l st)).x = pw (st.wc + 1) := by rw [q1]; rfl
      have q4' : (hook (wrapSt l st)).col = st.col := by rw [q4]; rfl
      have hstep : step e true l s hook st c = putChar e true l s (hook (wrapSt l st)) c := by
        unfold step
        rw [if_neg (by simp [hr]), if_pos]
        · simp only []
          rw [if_neg]
          rw [q2']; push_cast at hy ⊢; omega
        · refine ⟨hwrap, ?_⟩
          rw [hx, hw]; exact_mod_cast hfit
      obtain ⟨gx, gy, gw, gc, gr⟩ := putChar_geom_gen e true l s (hook (wrapSt l st)) c
      rw [hstep]
      refine ⟨by rw [gr, q5], by rw [gy, q2']; push_cast; omega, by rw [gc, q4'], ?_⟩
      intro hy0
      rw [gy] at hy0 ⊢
      have hpk := hpw (st.wc + 1)
      have hv : 0 ≤ (hook (wrapSt l st)).x ∧ 0 ≤ (hook (wrapSt l st)).y ∧ (hook (wrapSt l st)).x < e.width :=
        ⟨by rw [q1']; simp, hy0, by rw [q1', hw]; exact_mod_cast hpk⟩
      obtain ⟨k1, k2⟩ := putChar_cursor_gen e l s _ c hv
      refine ⟨pw (st.wc + 1), hpk, by rw [gx, q1']; push_cast; rfl, ?_, ?_⟩
      · rw [← q1']; exact k1 hc
      · rw [k2, q4', ← q1']; simp
    · rw [if_neg hfit] at hy ⊢
      have hstep : step e true l s hook st c = putChar e true l s st c := by
        unfold step
        rw [if_neg (by simp [hr]), if_neg]
        intro ⟨_, h2⟩
        rw [hx, hw] at h2
        apply hfit; exact_mod_cast h2
      obtain ⟨gx, gy, gw, gc, gr⟩ := putChar_geom_gen e true l s st c
      rw [hstep]
      refine ⟨by rw [gr, hr], by rw [gy], by rw [gc], ?_⟩
      intro hy0
      rw [gy] at hy0 ⊢
      have hv : 0 ≤ st.x ∧ 0 ≤ st.y ∧ st.x < e.width :=
        ⟨by rw [hx]; simp, hy0, by rw [hx, hw]; exact_mod_cast (show xn < w by omega)⟩
      obtain ⟨k1, k2⟩ := putChar_cursor_gen e l s st c hv
      refine ⟨xn, by omega, by rw [gx, hx]; push_cast; rfl, ?_, ?_⟩
      · rw [← hx]; exact k1 hc
      · rw [k2, ← hx]; simp
  | cons d a ih =>
    intro st xn hr hx hy
    simp only [List.cons_append, List.foldl_cons, List.map_cons, wrappedHeight] at hy ⊢
    by_cases hfit : xn + cellW e.W d > w
    · rw [if_pos hfit, if_neg (by have := hpw (st.wc + 1); omega)] at hy ⊢
      have hge := wrappedHeight_ge pw w hpw ((a ++ [c]).map (cellW e.W)) (pw (st.wc + 1) + cellW e.W d) (st.wc + 1 + 1)
      obtain ⟨q1, q2, q3, q4, q5⟩ := hg (wrapSt l st) rfl hr
      have q2' : (hook (wrapSt l st)).y = st.y + 1 := by rw [q2]; rfl
      have q3' : (hook (wrapSt l st)).wc = st.wc + 1 := by rw [q3]; rfl
      have q1' : (hook (wrapSt l st)).x = pw (st.wc + 1) := by rw [q1]; rfl
      have q4' : (hook (wrapSt l st)).col = st.col := by rw [q4]; rfl
      have hstep : step e true l s hook st d = putChar e true l s (hook (wrapSt l st)) d := by
        unfold step
        rw [if_neg (by simp [hr]), if_pos]
        · simp only []
          rw [if_neg]
          rw [q2']; push_cast at hy ⊢; omega
        · refine ⟨hwrap, ?_⟩
          rw [hx, hw]; exact_mod_cast hfit
      obtain ⟨gx, gy, gw, gc, gr⟩ := putChar_geom_gen e true l s (hook (wrapSt l st)) d
      rw [hstep]
      have := ih (putChar e true l s (hook (wrapSt l st)) d) (pw (st.wc + 1) + cellW e.W d) (by rw [gr, q5])
        (by rw [gx, q1']; push_cast; rfl)
        (by rw [gy, gw, q2', q3']; push_cast at hy ⊢; omega)
      obtain ⟨r1, r2, r3, r4⟩ := this
      refine ⟨r1, ?_, by rw [r3, gc, q4']; simp; omega, ?_⟩
      · rw [gy, gw, q2', q3'] at r2; push_cast at r2 ⊢; omega
      · intro hy0
        obtain ⟨xc, x1, x2, x3, x4⟩ := r4 hy0
        refine ⟨xc, x1, x2, x3, ?_⟩
        rw [x4, gc, q4']; simp; omega
    · rw [if_neg hfit] at hy ⊢
      have hstep : step e true l s hook st d = putChar e true l s st d := by
        unfold step
        rw [if_neg (by simp [hr]), if_neg]
        intro ⟨_, h2⟩
        rw [hx, hw] at h2
        apply hfit; exact_mod_cast h2
      obtain ⟨gx, gy, gw, gc, gr⟩ := putChar_geom_gen e true l s st d
      rw [hstep]
      have := ih (putChar e true l s st d) (xn + cellW e.W d) (by rw [gr, hr]) (by rw [gx, hx]; push_cast; rfl)
        (by rw [gy, gw]; exact hy)
      obtain ⟨r1, r2, r3, r4⟩ := this
      refine ⟨r1, by rw [gy, gw] at r2; exact r2, by rw [r3, gc]; simp; omega, ?_⟩
      intro hy0
      obtain ⟨xc, x1, x2, x3, x4⟩ := r4 hy0
      refine ⟨xc, x1, x2, x3, ?_⟩
      rw [x4, gc]; simp; omega

/-- rows a wrapped line with the cells of `t` occupies (any widths): the cell-by-cell count that
    `copy_line` realises (`copyLine_wrap_rows_gen`) -/
def rowsG (e : Env) (w l : Nat) (t : Text) : Nat :=
  wrappedHeight (pwD e l) w (t.map (cellW e.W)) (pwD e l 0) 1

theorem rowsG_pos (e : Env) (w l : Nat) (t : Text) (hpw : ∀ k, pwD e l k < w) : 1 ≤ rowsG e w l t :=
  wrappedHeight_ge _ _ hpw _ _ _

theorem rowsG_mono (e : Env) (w l : Nat) (a b : Text) (hpw : ∀ k, pwD e l k < w) :
    rowsG e w l a ≤ rowsG e w l (a ++ b) := by
  unfold rowsG
  rw [List.map_append]
  exact wrappedHeight_append _ _ hpw _ _ _ _

/-- the cursor cell of a wrapped line, ANY cell widths: drawn on row `rowsG (text up to and including
    the cursor cell) − 1` of the line, inside the window, showing the cursor's character; later
    writes only merge zero-width characters into it -/
theorem copyLine_wrap_cursor_gen {e : Env} (hwrap : e.wrap = true) (w : Nat) (hw : e.width = w)
    (l : Nat) (hpw : ∀ k, pwD e l k < w) (a b : Text) (c : Char) (hc : 1 ≤ cellW e.W c) (st : CS) (hx : st.x = 0)
    (yc : Int) (hyc : yc + 1 = st.y + (rowsG e w l (a ++ [c]) : Nat)) (h0 : 0 ≤ yc) (h1 : yc < e.height) :
    let r := copyLine e 0 l (a ++ c :: b) st
    ∃ xc : Nat, xc < w ∧
      r.rc.find? (fun p => p.1 == (l, a.length)) = some ((l, a.length), (yc + e.ypos, (xc : Int) + e.xpos)) ∧
      (∃ zs, ZW e.W zs ∧ cellAt r.cells (yc + e.ypos, (xc : Int) + e.xpos) = e.W.disp c ++ zs) ∧ yc ≤ r.y := by
  rw [copyLine_wrap_unfold]
  have hg := prefixHook_geom_gen e l (fun _ k => by rw [hw]; exact_mod_cast Nat.le_of_lt (hpw k))
  obtain ⟨q1, q2, q3, q4, q5⟩ := hg (lineInit st) hx rfl
  simp only [lineInit_y, lineInit_wc, lineInit_col] at q1 q2 q3 q4
  have hsplit : a ++ c :: b = (a ++ [c]) ++ b := by simp
  rw [hsplit, List.foldl_append]
  have := fold_wrap_last_gen hwrap w hw (pwD e l) hpw l 0 (prefixHook e l) hg c hc a
    (prefixHook e l (lineInit st)) (pwD e l 0) q5 (by rw [q1])
    (by rw [q2, q3]; simp only [rowsG] at hyc; push_cast at hyc ⊢; omega)
  have hext := fold_extG e true l 0 (prefixHook e l) (prefixHook_okG e true l 0) b
    (List.foldl (step e true l 0 (prefixHook e l)) (prefixHook e l (lineInit st)) (a ++ [c]))
  generalize List.foldl (step e true l 0 (prefixHook e l)) (prefixHook e l (lineInit st)) (a ++ [c]) = m at *
  generalize List.foldl (step e true l 0 (prefixHook e l)) m b = r at *
  obtain ⟨r1, r2, r3, r4⟩ := this
  rw [q2, q3] at r2
  simp only [rowsG] at hyc
  have hmy : m.y = yc := by push_cast at r2 hyc; omega
  obtain ⟨xc, x1, x2, x3, x4⟩ := r4 (by rw [hmy]; exact h0)
  rw [hmy] at x3 x4
  rw [q4] at x4 r3
  obtain ⟨nr, hnr, _, hkeys⟩ := hext.rc
  refine ⟨xc, x1, ?_, ?_, ?_⟩
  · rw [hnr, find_rc_append]
    · cases hrc : m.rc with
      | nil => rw [hrc] at x4; simp at x4
      | cons hd tl =>
        rw [hrc] at x4; simp at x4
        rw [find_head _ hd tl (by rw [x4]; simp)]
        rw [x4]
    · intro p hp he
      have := (hkeys p hp).2
      rw [he, r3] at this; simp at this; omega
  · obtain ⟨zs, hz, hzc⟩ := hext.cells (yc + e.ypos, (xc : Int) + e.xpos) (by
      right; rw [hmy, x2]; push_cast; omega)
    exact ⟨zs, hz, by rw [hzc, x3]⟩
  · have := hext.pos; rw [hmy] at this; unfold Later at this; omega

/-- rows the lines `ts` (numbered from `l`) need together, any widths -/
def sumG (e : Env) (w : Nat) : List Text → Nat → Nat
  | [], _ => 0
  | t :: ts, l => rowsG e w l t + sumG e w ts (l + 1)

/-- wrapped lines that fit above the bottom of the window are stacked without gaps (any widths) -/
theorem copyLines_wrap_fit_gen {e : Env} (hwrap : e.wrap = true) (w : Nat) (hw : e.width = w)
    (hpw : ∀ l k, pwD e l k < w) (pre : List Text) :
    ∀ (l0 : Nat) (st : CS), st.y + (sumG e w pre l0 : Nat) < e.height →
      (copyLines e 0 pre l0 st).y = st.y + (sumG e w pre l0 : Nat) := by
  induction pre with
  | nil => intro l0 st _; simp [copyLines, sumG]
  | cons t ts ih =>
    intro l0 st hy
    simp only [sumG] at hy ⊢
    push_cast at hy ⊢
    rw [copyLines, if_pos (by omega)]
    have h1 := copyLine_wrap_rows_gen hwrap w hw l0 (hpw l0) t (lineStart 0 l0 st) rfl
      (by show st.y + ((rowsG e w l0 t : Nat) : Int) ≤ _; omega)
    obtain ⟨_, h2⟩ := h1
    have h2 : (copyLine e 0 l0 t (lineStart 0 l0 st)).y + 1 = st.y + (rowsG e w l0 t : Nat) := h2
    rw [ih (l0 + 1) (lineEnd _) (by show (copyLine e 0 l0 t (lineStart 0 l0 st)).y + 1 + _ < _; omega)]
    show (copyLine e 0 l0 t (lineStart 0 l0 st)).y + 1 + _ = _
    omega

/-- **the cursor cell after a wrapped render, ANY cell widths** (model level): if the scroll state
    puts the row of the cursor cell — counted with the rows `copy_line` really uses — inside the window,
    the cell is drawn there, `rowcol_to_yx` finds it and it shows the cursor's character. -/
theorem copyBody_wrap_cursor_gen {e : Env} (hwrap : e.wrap = true) (w : Nat) (hw : e.width = w)
    (hpw : ∀ l k, pwD e l k < w) (lines pre post : List Text) (a b : Text) (c : Char) (hc : 1 ≤ cellW e.W c)
    (s : Scroll) (vs : Nat) (hvs : s.vs = vs) (hhs : s.hs = 0)
    (hsplit : lines.drop vs = pre ++ (a ++ c :: b) :: post)
    (yc : Int) (hyc : yc + 1 = -s.vs2 + (sumG e w pre vs : Nat) + (rowsG e w (vs + pre.length) (a ++ [c]) : Nat))
    (h0 : 0 ≤ yc) (h1 : yc < e.height) :
    let r := copyBody e lines s
    ∃ xc : Nat, xc < w ∧ cursorFound r (vs + pre.length) a.length = true ∧
      cursorScreen r (vs + pre.length) a.length = (yc + e.ypos, (xc : Int) + e.xpos) ∧
      ∃ zs, ZW e.W zs ∧ cellAt r.cells (yc + e.ypos, (xc : Int) + e.xpos) = e.W.disp c ++ zs := by
  have hT := rowsG_pos e w (vs + pre.length) (a ++ [c]) (hpw _)
  unfold copyBody
  rw [hvs, hhs]
  simp only [Int.toNat_natCast]
  rw [hsplit, copyLines_append]
  have hpre := copyLines_wrap_fit_gen hwrap w hw hpw pre vs (initCS s.vs2) (by
    show -s.vs2 + _ < _; omega)
  have hpre : (copyLines e 0 pre vs (initCS s.vs2)).y = -s.vs2 + (sumG e w pre vs : Nat) := hpre
  generalize copyLines e 0 pre vs (initCS s.vs2) = s1 at *
  rw [copyLines, if_pos (by omega)]
  have hcc := copyLine_wrap_cursor_gen hwrap w hw (vs + pre.length) (hpw _) a b c hc (lineStart 0 (vs + pre.length) s1)
    rfl yc (by show yc + 1 = s1.y + _; omega) h0 h1
  obtain ⟨xc, hxc, hfind, ⟨zs, hz, hcell⟩, hyr⟩ := hcc
  generalize copyLine e 0 (vs + pre.length) (a ++ c :: b) (lineStart 0 (vs + pre.length) s1) = s2 at *
  have hpost := copyLines_extYG e 0 post (vs + pre.length + 1) (lineEnd s2)
  obtain ⟨_, hcy, ⟨nr, hnr, hrow⟩⟩ := hpost
  have hnr : (copyLines e 0 post (vs + pre.length + 1) (lineEnd s2)).rc = nr ++ s2.rc := hnr
  have hfind' : (copyLines e 0 post (vs + pre.length + 1) (lineEnd s2)).rc.find?
      (fun p => p.1 == (vs + pre.length, a.length)) =
      some ((vs + pre.length, a.length), (yc + e.ypos, (xc : Int) + e.xpos)) := by
    rw [hnr, find_rc_append _ _ _ (fun p hp he => by have := hrow p hp; rw [he] at this; simp at this; omega)]
    exact hfind
  refine ⟨xc, hxc, ?_, ?_, ?_⟩
  · simp [cursorFound, hfind']
  · simp [cursorScreen, hfind']
  · obtain ⟨zs2, hz2, hc2⟩ := hcy (yc + e.ypos, (xc : Int) + e.xpos) (by
      show _ < (lineEnd s2).y + e.ypos
      have hy3 : (lineEnd s2).y = s2.y + 1 := rfl
      rw [hy3]; simp; omega)
    have hc2' : cellAt (copyLines e 0 post (vs + pre.length + 1) (lineEnd s2)).cells _ = cellAt s2.cells _ ++ zs2 := hc2
    exact ⟨zs ++ zs2, hz.append hz2, by rw [hc2', hcell, List.append_assoc]⟩

/-! ### the height estimate of the scroll code vs. the rows the copy really uses -/

theorem sumG_eq_sumFrom (e : Env) (w : Nat) (lines : List Text) (lh : Nat → Nat) :
    ∀ (n vs : Nat), vs + n ≤ lines.length →
      (∀ l, vs ≤ l → l < vs + n → lh l = rowsG e w l (lines.getD l [])) →
      sumG e w ((lines.drop vs).take n) vs = sumFrom lh vs n := by
  intro n
  induction n with
  | zero => intro vs _ _; simp [sumG, sumFrom]
  | succ n ih =>
    intro vs h hl
    have hlt : vs < lines.length := by omega
    have hd : lines.drop vs = lines[vs] :: lines.drop (vs + 1) := by
      rw [List.drop_eq_getElem_cons hlt]
    rw [hd, List.take_succ_cons, sumG, sumFrom, ih (vs + 1) (by omega) (fun l h1 h2 => hl l (by omega) (by omega)),
      hl vs (Nat.le_refl _) (by omega)]
    congr 2
    simp [List.getD, hlt]

theorem map_cellW_sum (W : Widths) (t : Text) : (t.map (cellW W)).sum = cellsWidth W t := by
  induction t with
  | nil => rfl
  | cons c cs ih => simp [cellsWidth, ih]

/-- every cell of the text is one column wide -/
def Narrow (W : Widths) (t : Text) : Prop := ∀ ch ∈ t, cellW W ch = 1

instance (W : Widths) (t : Text) : Decidable (Narrow W t) := by unfold Narrow; infer_instance

theorem Narrow.any {W : Widths} (hdm : W.dm = true) {t : Text} (h : Narrow W t) :
    (t.map (measure W)).any (· != 1) = false := by
  induction t with
  | nil => rfl
  | cons c cs ih =>
    have h1 : measure W c = 1 := by simp [measure, hdm, h c (by simp)]
    simp [h1, ih (fun ch hch => h ch (by simp [hch]))]

/-- the part of a line `get_height_for_line` measures -/
def sliced (line : Text) : Option Nat → Text
  | none => line
  | some s => line.take s

theorem heightForLine_sliced (W : Widths) (line : Text) (w : Nat) (pfx : Option (Nat → Nat)) (stop : Option Nat) :
    heightForLine W line w pfx stop = heightForLine W (sliced line stop) w pfx none := by
  cases stop with
  | none => rfl
  | some s => unfold heightForLine; rfl

/-- on an all-narrow text the arithmetic estimate IS the cell-by-cell row count -/
theorem heightForLine_narrow {W : Widths} (hdm : W.dm = true) (t : Text) (w : Nat) (hw : 1 ≤ w)
    (pfx : Option (Nat → Nat)) (hpw : ∀ pw, pfx = some pw → ∀ k, pw k < w)
    (hn : Narrow W t) :
    heightForLine W t w pfx none =
      wrappedHeight (pfx.getD fun _ => 0) w (t.map (cellW W)) ((pfx.getD fun _ => 0) 0) 1 := by
  have hm : measure W = cellW W := by funext c; simp [measure, hdm]
  have hany := hn.any hdm
  unfold heightForLine
  rw [if_neg (by omega)]
  simp only [hany, Bool.false_eq_true, and_false, if_false]
  rw [measWidth_all_one W _ hany, ← hm, map_all_one _ _ hany]
  cases pfx with
  | none =>
    simp only [Option.getD_none]
    rw [wrappedHeight_ones (fun _ => 0) w (fun _ => hw) _ 0 1 t.length (by omega) (by omega)]
    rw [Nat.zero_add]
    exact fast_eq_loop w hw _ _ (Nat.le_refl _)
  | some pw =>
    simp only [Option.getD_some]
    have hp := hpw pw rfl
    rw [wrappedHeight_ones pw w hp _ (pw 0) 1 (t.length + pw 0) (Nat.le_of_lt (hp 0)) (by omega)]
    rw [Nat.add_comm (pw 0)]

/-- a text that fits on one row (prefix included) is estimated, and copied, as one row — whatever
    its cell widths -/
theorem heightForLine_short {W : Widths} (hdm : W.dm = true) (t : Text) (w : Nat) (hw : 1 ≤ w)
    (pfx : Option (Nat → Nat))
    (hs : (pfx.getD fun _ => 0) 0 + cellsWidth W t ≤ w) :
    heightForLine W t w pfx none = 1 ∧
      wrappedHeight (pfx.getD fun _ => 0) w (t.map (cellW W)) ((pfx.getD fun _ => 0) 0) 1 = 1 := by
  have hm : measure W = cellW W := by funext c; simp [measure, hdm]
  have hwh : ∀ pw : Nat → Nat, pw 0 + cellsWidth W t ≤ w →
      wrappedHeight pw w (t.map (cellW W)) (pw 0) 1 = 1 :=
    fun pw h => wrappedHeight_short pw w _ _ _ (by rw [map_cellW_sum]; exact h)
  refine ⟨?_, hwh _ hs⟩
  unfold heightForLine
  rw [if_neg (by omega)]
  simp only []
  split
  · rw [hm]
    cases pfx with
    | none => exact hwh (fun _ => 0) hs
    | some pw => exact hwh pw hs
  · rw [measWidth_dm hdm]
    cases pfx with
    | none =>
      simp only [Option.getD_none, Nat.zero_add] at hs
      simp only []
      generalize cellsWidth W t = tw at *
      by_cases he : tw = w
      · subst he; simp [Nat.div_self hw]
      · have hlt : tw < w := by omega
        rw [Nat.div_eq_of_lt hlt, Nat.mod_eq_of_lt hlt]
        by_cases h0 : tw = 0
        · subst h0; simp
        · simp [h0]
    | some pw =>
      simp only [Option.getD_some] at hs
      exact heightLoop_le_w _ _ _ _ _ (by omega)

/-! ### the wrap window theorem for any widths, under "the estimate is exact" -/

theorem take_succ_eq {α : Type} (l : List α) (i : Nat) (h : i < l.length) :
    l.take (i + 1) = l.take i ++ [l[i]] := by
  rw [List.take_add_one, List.getElem?_eq_getElem h]; rfl

/-- **wrap_cursor_in_window, any cell widths, conditional on the height estimate.**  Wrapping on,
    window at least 1×1, prefixes narrower than the window and measured as drawn, the character under
    the cursor at least one column wide.  IF `get_height_for_line` returns, for every line from the new top of the window
    through the cursor line and for the cursor line cut after the cursor cell, the number of rows the
    copy loop really uses (`rowsG`), THEN for every previous scroll state the cursor cell is drawn inside the
    window, `rowcol_to_yx` finds it and the cell shows the cursor's character (plus merged zero-width
    characters). -/
theorem wrap_cursor_in_window_est {W : Widths} (c : Cfg) (lines : List Text) (w height mw : Nat)
    (hw : 1 ≤ w) (hh : 1 ≤ height)
    (hpfx : ∀ f, c.prefixFn = some f → ∀ l k, cellsWidth W (f l k) < w)
    (cy cx : Nat) (hcy : cy < lines.length) (hcx : cx < (lines.getD cy []).length)
    (hcw : 1 ≤ cellW W ((lines.getD cy [])[cx])) (s : Scroll)
    (hest : ∀ l : Nat, (scrollFor W c lines w height true cy cx s).vs ≤ (l : Int) → l < cy →
      heightForLine W (lines.getD l []) w (prefixWidths W c.prefixFn l) none =
        rowsG (envFor W c w height true mw) w l (lines.getD l []))
    (hestc : heightForLine W (lines.getD cy []) w (prefixWidths W c.prefixFn cy) none =
      rowsG (envFor W c w height true mw) w cy (lines.getD cy []))
    (htb : heightForLine W (lines.getD cy []) w (prefixWidths W c.prefixFn cy) (some (cx + 1)) =
      rowsG (envFor W c w height true mw) w cy ((lines.getD cy []).take (cx + 1))) :
    let s' := scrollFor W c lines w height true cy cx s
    let r := copyBody (envFor W c w height true mw) lines s'
    ∃ (yc xc : Nat) (zs : Text), yc < height ∧ xc < w ∧ cursorFound r cy cx = true ∧
      cursorScreen r cy cx = ((yc : Int) + c.ypos, (xc : Int) + (c.xpos + mw)) ∧ ZW W zs ∧
      cellAt r.cells ((yc : Int) + c.ypos, (xc : Int) + (c.xpos + mw)) = W.disp ((lines.getD cy [])[cx]) ++ zs := by
  intro s' r
  let e := envFor W c w height true mw
  have hpw : ∀ l k, pwD e l k < w := by
    intro l k
    show pwD (envFor W c w height true mw) l k < w
    rw [pwD_envFor]
    cases h : c.prefixFn with
    | none => exact hw
    | some f => exact hpfx f h l k
  have hline : lines.getD cy [] = lines[cy] := by simp [List.getD, hcy]
  have hcx' : cx < lines[cy].length := by rw [← hline]; exact hcx
  have hdec := split_at lines[cy] cx hcx'
  have hch : (lines.getD cy [])[cx] = lines[cy][cx] := List.getElem_of_eq hline _
  rw [hch] at hcw
  rw [hline, take_succ_eq _ _ hcx'] at htb
  let lh : Nat → Nat := fun l => heightForLine W (lines.getD l []) w (prefixWidths W c.prefixFn l) none
  let tbh : Nat := rowsG e w cy (lines[cy].take cx ++ [lines[cy][cx]])
  -- the scroll state
  have hs' : s' = scrollWrap lh tbh lines.length cy height c.top c.bottom c.beyond s := by
    show scrollFor W c lines w height true cy cx s = _
    unfold scrollFor
    simp only [if_true]
    rw [if_neg (by omega)]
    simp only [Int.toNat_natCast]
    rw [hline, htb]
  have hT1 : 1 ≤ tbh := rowsG_pos e w cy _ (hpw cy)
  have hTle : tbh ≤ lh cy := by
    show tbh ≤ heightForLine W (lines.getD cy []) w (prefixWidths W c.prefixFn cy) none
    rw [hestc, hline]
    have := rowsG_mono e w cy (lines[cy].take cx ++ [lines[cy][cx]]) (lines[cy].drop (cx + 1)) (hpw cy)
    have hd2 : lines[cy].take cx ++ [lines[cy][cx]] ++ lines[cy].drop (cx + 1) = lines[cy] := by
      conv => rhs; rw [hdec]
      simp
    rw [hd2] at this; exact this
  have hcur : ∀ (vs : Nat) (pre post : List Text) (yc : Int), s'.vs = vs → s'.hs = 0 →
      lines.drop vs = pre ++ (lines[cy].take cx ++ lines[cy][cx] :: lines[cy].drop (cx + 1)) :: post →
      vs + pre.length = cy →
      yc + 1 = -s'.vs2 + (sumG e w pre vs : Nat) + (tbh : Nat) → 0 ≤ yc → yc < height →
      ∃ (yc xc : Nat) (zs : Text), yc < height ∧ xc < w ∧ cursorFound r cy cx = true ∧
        cursorScreen r cy cx = ((yc : Int) + c.ypos, (xc : Int) + (c.xpos + mw)) ∧ ZW W zs ∧
        cellAt r.cells ((yc : Int) + c.ypos, (xc : Int) + (c.xpos + mw)) = W.disp ((lines.getD cy [])[cx]) ++ zs := by
    intro vs pre post yc h1 h2 h3 h4 h5 h6 h7
    have hlen : (lines[cy].take cx).length = cx := by simp; omega
    have := copyBody_wrap_cursor_gen (e := e) rfl w rfl hpw lines pre post (lines[cy].take cx)
      (lines[cy].drop (cx + 1)) lines[cy][cx] hcw s' vs h1 h2 h3 yc (by rw [h4]; exact h5) h6 h7
    rw [h4, hlen] at this
    obtain ⟨xc, hxc, f1, f2, zs, f3, f4⟩ := this
    refine ⟨yc.toNat, xc, zs, by omega, hxc, f1, ?_, f3, ?_⟩
    · rw [f2]; show (yc + c.ypos, (xc : Int) + (c.xpos + mw)) = _
      rw [Int.toNat_of_nonneg h6]
    · rw [Int.toNat_of_nonneg h6, hch]; exact f4
  by_cases htall : ((lh cy : Nat) : Int) > (height : Int) - c.top
  · obtain ⟨t1, t2, t3, t4, t5⟩ := scrollWrap_tall lh tbh lines.length cy height c.top c.bottom c.beyond s
      (by omega) hT1 htall
    rw [← hs'] at t1 t2 t3 t4 t5
    refine hcur cy [] (lines.drop (cy + 1)) ((tbh : Int) - 1 - s'.vs2) t1 t2 ?_ (by simp) ?_
      (by omega) (by omega)
    · rw [List.drop_eq_getElem_cons hcy, ← hdec]; simp
    · simp [sumG]; omega
  · obtain ⟨t1, t2, v, t3, t4, t5⟩ := scrollWrap_fit lh tbh lines.length cy height c.top c.bottom c.beyond s
      hcy (by omega) (by omega) htall
    rw [← hs'] at t1 t2 t3
    have hsum := sumG_eq_sumFrom e w lines lh (cy - v) v (by omega)
      (fun l h1 h2 => hest l (by show s'.vs ≤ _; rw [t3]; exact_mod_cast h1) (by omega))
    have hsplit : cy + 1 - v = (cy - v) + 1 := by omega
    rw [hsplit, sumFrom_succ_right] at t5
    have hvc : v + (cy - v) = cy := by omega
    rw [hvc] at t5
    have hpl : ((lines.drop v).take (cy - v)).length = cy - v := by simp; omega
    refine hcur v ((lines.drop v).take (cy - v)) (lines.drop (cy + 1))
      ((sumG e w ((lines.drop v).take (cy - v)) v : Nat) + (tbh : Nat) - 1) t3 t1 ?_
      (by rw [hpl]; omega) (by rw [t2]; omega) (by omega) ?_
    · rw [← hdec]; exact drop_split lines v cy t4 hcy
    · rw [hsum]; push_cast at t5 ⊢; omega

/-- width of `get_line_prefix(l, 0)` as drawn (0 without a prefix function) -/
def prefix0D (W : Widths) (c : Cfg) (l : Nat) : Nat :=
  match c.prefixFn with
  | none => 0
  | some f => cellsWidth W (f l 0)

/-- the region in which the wrapped-height estimate is exact: the line has one-column cells only, or
    it fits on one row (it does not wrap).  Its complement — a line with a double-width, zero-width or
    control character THAT WRAPS — is the region of the known finding. -/
def Regular (W : Widths) (c : Cfg) (w l : Nat) (t : Text) : Prop :=
  Narrow W t ∨ prefix0D W c l + cellsWidth W t ≤ w

instance (W : Widths) (c : Cfg) (w l : Nat) (t : Text) : Decidable (Regular W c w l t) := by
  unfold Regular; infer_instance

theorem estimate_exact {W : Widths} (hdm : W.dm = true) (c : Cfg) (w height mw : Nat) (hw : 1 ≤ w)
    (hpfx : ∀ f, c.prefixFn = some f → ∀ l k, cellsWidth W (f l k) < w ∧ textWidth W (f l k) = cellsWidth W (f l k))
    (l : Nat) (t : Text) (hr : Regular W c w l t) :
    heightForLine W t w (prefixWidths W c.prefixFn l) none = rowsG (envFor W c w height true mw) w l t := by
  have hgd : (prefixWidths W c.prefixFn l).getD (fun _ => 0) = pwD (envFor W c w height true mw) l := by
    funext k
    rw [pwD_envFor]; unfold prefixWidths
    cases h : c.prefixFn with
    | none => rfl
    | some f => simp [(hpfx f h l k).2]
  have hpw : ∀ pw, prefixWidths W c.prefixFn l = some pw → ∀ k, pw k < w := by
    intro pw hpwe k
    have : (prefixWidths W c.prefixFn l).getD (fun _ => 0) = pw := by rw [hpwe]; rfl
    rw [← this, hgd, pwD_envFor]
    cases h : c.prefixFn with
    | none => exact hw
    | some f => exact (hpfx f h l k).1
  unfold rowsG
  rw [← hgd]
  rcases hr with hn | hs
  · exact heightForLine_narrow hdm t w hw _ hpw hn
  · have h0 : (prefixWidths W c.prefixFn l).getD (fun _ => 0) 0 = prefix0D W c l := by
      rw [hgd, pwD_envFor]; rfl
    obtain ⟨a1, a2⟩ := heightForLine_short hdm t w hw (prefixWidths W c.prefixFn l) (by rw [h0]; exact hs)
    rw [a1]; exact a2.symm

theorem Regular.take {W : Widths} {c : Cfg} {w l : Nat} {t : Text} (h : Regular W c w l t) (n : Nat) :
    Regular W c w l (t.take n) := by
  rcases h with h | h
  · exact Or.inl (fun ch hch => h ch (List.mem_of_mem_take hch))
  · right
    have := cellsWidth_take_drop W t n
    omega

/-- **wrap_cursor_in_window_partial** (the code as it is, ANY cell widths).
    Full statement (FALSE, see `wide_wrap_loses_cursor`, `control_wrap_loses_cursor`,
    `wide_line_above_loses_cursor`): the conclusion below without `hreg`.
    Proved: wrapping on, window at least 1×1, prefixes narrower than the window and measured as drawn,
    the character under the cursor at least one column wide, and every line from the (new) top of the
    window through the cursor line is `Regular` — it has one-column cells only OR it does not wrap.
    Then for every previous scroll state the cursor cell is drawn inside the window, `rowcol_to_yx`
    finds it and the cell shows the cursor's character.  Excluded, exactly: a double-width /
    zero-width / control character on a displayed line at or above the cursor that WRAPS (the known
    finding),
    and a zero-width character under the cursor (own known finding). -/
theorem wrap_cursor_in_window_partial {W : Widths} (hdm : W.dm = true) (c : Cfg) (lines : List Text)
    (w height mw : Nat) (hw : 1 ≤ w) (hh : 1 ≤ height)
    (hpfx : ∀ f, c.prefixFn = some f → ∀ l k, cellsWidth W (f l k) < w ∧ textWidth W (f l k) = cellsWidth W (f l k))
    (cy cx : Nat) (hcy : cy < lines.length) (hcx : cx < (lines.getD cy []).length)
    (hcw : 1 ≤ cellW W ((lines.getD cy [])[cx]))
    (s : Scroll)
    (hreg : ∀ l : Nat, (scrollFor W c lines w height true cy cx s).vs ≤ (l : Int) → l < cy →
      Regular W c w l (lines.getD l []))
    (hregc : Regular W c w cy (lines.getD cy [])) :
    let s' := scrollFor W c lines w height true cy cx s
    let r := copyBody (envFor W c w height true mw) lines s'
    ∃ (yc xc : Nat) (zs : Text), yc < height ∧ xc < w ∧ cursorFound r cy cx = true ∧
      cursorScreen r cy cx = ((yc : Int) + c.ypos, (xc : Int) + (c.xpos + mw)) ∧ ZW W zs ∧
      cellAt r.cells ((yc : Int) + c.ypos, (xc : Int) + (c.xpos + mw)) = W.disp ((lines.getD cy [])[cx]) ++ zs := by
  refine wrap_cursor_in_window_est c lines w height mw hw hh (fun f hf l k => (hpfx f hf l k).1) cy cx hcy hcx hcw s
    (fun l h1 h2 => estimate_exact hdm c w height mw hw hpfx l _ (hreg l h1 h2))
    (estimate_exact hdm c w height mw hw hpfx cy _ hregc) ?_
  rw [heightForLine_sliced]
  exact estimate_exact hdm c w height mw hw hpfx cy _ (hregc.take (cx + 1))

end Ptk.C11
