/-
  C09 — "whatever a kill or cut removes is exactly what the next paste inserts":
  property theorems for the kill ring and the Emacs kill / yank commands (`Ptk.Model.C09`).

  All theorems hold for every text, cursor, numeric argument, ring content, ring bound
  `max ≥ 1` and every classification `rs` of regex `\s`.
  (Vi registers and `paste_clipboard_data` for LINES / BLOCK data: `Props/C09Vi.lean`.)
-/
import Ptk.Props.C09Lemmas
namespace Ptk.C09
open Ptk.Py

instance (b : Buf) : Decidable (WF b) := by unfold WF; infer_instance

/-! ### the kill ring: nothing is lost by `rotate`, `set_data` drops only beyond `max_size` -/

/-- `rotate()` permutes the ring. -/
theorem rotate_perm (r : Ring) : (rotate r).Perm r := by
  cases r with
  | nil => exact List.Perm.refl _
  | cons d r => simp [rotate, List.perm_append_singleton d r]

theorem rotate_length (r : Ring) : (rotate r).length = r.length := (rotate_perm r).length_eq

/-- `k` successive `rotate()` calls -/
def rotateN : Nat → Ring → Ring
  | 0, r => r
  | k + 1, r => rotateN k (rotate r)

/-- `k ≤ |ring|` rotations move the first `k` entries, in order, to the end. -/
theorem rotate_iterate (r : Ring) : ∀ k, k ≤ r.length → rotateN k r = r.drop k ++ r.take k := by
  intro k
  induction k generalizing r with
  | zero => simp [rotateN]
  | succ k ih =>
    intro hk
    cases r with
    | nil => simp at hk
    | cons d r =>
      simp only [rotateN, rotate]
      rw [ih (r ++ [d]) (by simp at hk ⊢; omega)]
      simp at hk
      simp [List.take_append_of_le_length hk, List.drop_append_of_le_length hk]

/-- `rotate^|ring| = id`: cycling through the whole ring comes back to the start. -/
theorem rotate_cycle (r : Ring) : rotateN r.length r = r := by
  rw [rotate_iterate r r.length (Nat.le_refl _)]; simp

/-- after `k < |ring|` rotations the top is the `k`-th entry: every earlier kill is reached. -/
theorem rotate_reaches (r : Ring) (k : Nat) (hk : k < r.length) :
    some (getData (rotateN k r)) = r[k]? := by
  rw [rotate_iterate r k (Nat.le_of_lt hk)]
  have : r.drop k ≠ [] := by
    intro h; have := congrArg List.length h; simp at this; omega
  cases hd : r.drop k with
  | nil => exact absurd hd this
  | cons x xs =>
    simp only [List.cons_append, getData]
    have := List.getElem?_drop (xs := r) (i := k) (j := 0)
    rw [hd] at this; simp at this; exact this

example : rotateN 2 [⟨['a'], .chars⟩, ⟨['b'], .chars⟩, ⟨['c'], .lines⟩]
    = [⟨['c'], .lines⟩, ⟨['a'], .chars⟩, ⟨['b'], .chars⟩] := by decide

/-- `set_data` puts the new entry on top (`max_size ≥ 1`). -/
theorem setData_top (max : Nat) (h : 0 < max) (r : Ring) (d : Clip) : getData (setData max r d) = d := by
  unfold setData
  cases max with
  | zero => omega
  | succ m => simp [getData]

/-- nothing is lost while the ring is not full … -/
theorem setData_keeps (max : Nat) (r : Ring) (d : Clip) (h : r.length < max) : setData max r d = d :: r := by
  unfold setData
  apply List.take_of_length_le; simp; omega

/-- … and in general the older entries keep their order; only the oldest beyond `max_size` go. -/
theorem setData_older (max : Nat) (r : Ring) (d : Clip) (h : 0 < max) :
    setData max r d = d :: r.take (max - 1) := by
  unfold setData
  cases max with
  | zero => omega
  | succ m => simp

theorem setData_length_le (max : Nat) (r : Ring) (d : Clip) : (setData max r d).length ≤ max := by
  unfold setData; simp; omega

example : setData 2 [⟨['a'], .chars⟩, ⟨['b'], .chars⟩] ⟨['n'], .chars⟩ = [⟨['n'], .chars⟩, ⟨['a'], .chars⟩] := by
  decide

/-! ### every kill command puts exactly the removed characters on the ring -/

/-- the text the kill command hands to `clipboard.set_text` -/
def pushedText (r : Ring) (k : Kill) : Acc → Text
  | .no => k.removed
  | .fwd => (getData r).text ++ k.removed
  | .bwd => k.removed ++ (getData r).text

theorem pushKill_push (max : Nat) (r : Ring) (k : Kill) (acc : Acc) (hp : k.push = true) :
    pushKill max r k acc = setData max r { text := pushedText r k acc, ty := .chars } := by
  unfold pushKill; simp only [hp, if_true]; cases acc <;> simp [pushedText, setText]

theorem pushKill_nopush (max : Nat) (r : Ring) (k : Kill) (acc : Acc) (hp : k.push = false) :
    pushKill max r k acc = r := by
  unfold pushKill; simp [hp]

/-- **kill_puts_removed.**  For kill-line (any sign of the argument), unix-line-discard, kill-word,
    unix-word-rubout and backward-kill-word, with any numeric argument: the buffer afterwards is
    the old text minus one span `removed` adjacent to the cursor (`text_before = reinsertion of
    removed at the kill point`), and when the command reaches the clipboard and is not a repeat,
    the new top of the ring is exactly `removed` (type CHARACTERS), older entries kept in order. -/
theorem kill_puts_removed (rs : Char → Bool) (max : Nat) (hmax : 0 < max) (s : St) (hwf : WF s.buf)
    (arg : Arg) (cmd : Cmd) (k : Kill) (hk : killOf rs s.buf arg.val cmd = some k) :
    (step rs max s arg cmd).buf = k.buf ∧
    s.buf.text = reinsert k.buf.text k.buf.cur k.removed ∧ WF k.buf ∧
    (k.buf.cur = s.buf.cur ∨ k.buf.cur + k.removed.length = s.buf.cur) ∧
    (k.push = true → accOf s arg cmd = .no →
      getData (step rs max s arg cmd).ring = { text := k.removed, ty := .chars } ∧
      (step rs max s arg cmd).ring = { text := k.removed, ty := .chars } :: s.ring.take (max - 1)) := by
  obtain ⟨hb, hr⟩ := step_kill rs max s arg cmd k hk
  obtain ⟨h1, h2, h3⟩ := killOf_ok rs s.buf hwf arg.val cmd k hk
  refine ⟨hb, h1, h2, h3, ?_⟩
  intro hp hacc
  rw [hr, pushKill_push max s.ring k _ hp, hacc]
  exact ⟨setData_top max hmax _ _, setData_older max _ _ hmax⟩

/-- A kill command leaves the ring untouched only if it removed nothing — with the single
    exception of unix-line-discard at column 0 (see `discard_col0_joins`). -/
theorem kill_without_push (rs : Char → Bool) (max : Nat) (s : St) (arg : Arg) (cmd : Cmd) (k : Kill)
    (hk : killOf rs s.buf arg.val cmd = some k) (hp : k.push = false) :
    (step rs max s arg cmd).ring = s.ring ∧
    (k.removed = [] ∨ (cmd = .lineDiscard ∧ col s.buf = 0 ∧ 0 < s.buf.cur)) := by
  obtain ⟨_, hr⟩ := step_kill rs max s arg cmd k hk
  refine ⟨by rw [hr, pushKill_nopush _ _ _ _ hp], ?_⟩
  cases cmd <;> simp [killOf] at hk <;> subst hk
  · -- kill-line always reaches the clipboard
    unfold killLineK at hp; split at hp
    · simp [Kill.ofDel] at hp
    · split at hp <;> simp [Kill.ofDel] at hp
  · unfold lineDiscardK at hp ⊢
    split
    · rename_i h; exact Or.inr ⟨rfl, h.1, h.2⟩
    · rename_i h; rw [if_neg h] at hp; simp [Kill.ofDel] at hp
  · left; unfold killWordK at hp ⊢
    generalize Gen.C09.killWordNegFixed = fl at hp ⊢
    cases hf : findNextWordEnding rs s.buf arg.val with
    | none => rfl
    | some pos =>
      rw [hf] at hp
      simp only at hp ⊢
      by_cases h0 : pos ≠ 0
      · rw [if_pos h0] at hp
        by_cases h1 : fl = true ∧ pos < 0
        · rw [if_pos h1] at hp; simp [Kill.ofDel] at hp
        · rw [if_neg h1] at hp; simp [Kill.ofDel] at hp
      · rw [if_neg h0]; rfl
  · left; unfold ruboutK at hp ⊢; simp only at hp ⊢
    split
    · rename_i h; rw [if_pos h] at hp; simp [Kill.ofDel] at hp
    · rfl
  · left; unfold ruboutK at hp ⊢; simp only at hp ⊢
    split
    · rename_i h; rw [if_pos h] at hp; simp [Kill.ofDel] at hp
    · rfl

-- non-vacuity: `hello| big` + M-d removes " big" and the ring top is " big"
def exS1 : St :=
  { buf := { text := "hello big".toList, cur := 5 }, ring := [⟨['X'], .chars⟩], dbp := none, prev := .other }
example :
    WF exS1.buf ∧ killOf (· = ' ') exS1.buf Arg.none.val .killWord
      = some { buf := { text := "hello".toList, cur := 5 }, removed := " big".toList, push := true } ∧
    accOf exS1 .none .killWord = .no := by
  decide

/-- **kill-line spans.**  With a non-negative argument kill-line removes the rest of the current
    line, or — at the end of a line — exactly the newline; with a negative argument, and
    unix-line-discard away from column 0, the removed text is the part of the line before the
    cursor. -/
theorem kill_line_spans (b : Buf) (h : WF b) (n : Int) :
    (0 ≤ n → (killLineK b n).removed = (if b.text[b.cur]? = some '\n' then ['\n'] else lineAfter b)) ∧
    (n < 0 → (killLineK b n).removed = lineBefore b) ∧
    (¬ (col b = 0 ∧ 0 < b.cur) → (lineDiscardK b).removed = lineBefore b) := by
  have hlen := before_length b h
  have hback : (deleteBefore b (lineBefore b).length).2 = lineBefore b := by
    have hle := lineBefore_le b
    rw [(deleteBefore_le b h _ (by omega)).1]
    conv => rhs; rw [lineBefore_eq_drop, hlen]
  refine ⟨?_, ?_, ?_⟩
  · intro hn
    unfold killLineK
    rw [if_neg (by omega)]
    split
    · rename_i hc
      simp only [Kill.ofDel]
      rw [show (1 : Int) = ((1 : Nat) : Int) from rfl, (delete_nat b h 1).1]
      rw [List.getElem?_eq_some_iff] at hc
      obtain ⟨hlt, he⟩ := hc
      simp only [Buf.after, List.drop_eq_getElem_cons hlt, he]
      simp
    · simp only [Kill.ofDel]
      rw [(delete_nat b h _).1]
      unfold lineAfter
      exact (takeWhile_eq_take_length _ _).symm
  · intro hn
    unfold killLineK
    rw [if_pos hn]
    exact hback
  · intro hc
    unfold lineDiscardK
    rw [if_neg hc]
    exact hback

example : (killLineK { text := "ab\ncd".toList, cur := 1 } 1).removed = "b".toList ∧
    (killLineK { text := "ab\ncd".toList, cur := 2 } 1).removed = "\n".toList ∧
    (killLineK { text := "ab\ncd".toList, cur := 4 } (-1)).removed = "c".toList := by decide

/-! ### the column-0 exception -/

/-- **discard_col0_joins.**  unix-line-discard at column 0 of a line that is not the first one
    removes exactly the newline before the cursor (joining the lines) and does not touch the ring. -/
theorem discard_col0_joins (rs : Char → Bool) (max : Nat) (s : St) (hwf : WF s.buf) (arg : Arg)
    (hc : col s.buf = 0) (hp : 0 < s.buf.cur) :
    let s' := step rs max s arg .lineDiscard
    s'.ring = s.ring ∧ s'.buf.cur = s.buf.cur - 1 ∧
    s.buf.text = reinsert s'.buf.text s'.buf.cur ['\n'] := by
  have hk : killOf rs s.buf arg.val .lineDiscard = some (lineDiscardK s.buf) := rfl
  obtain ⟨hb, hr⟩ := step_kill rs max s arg .lineDiscard _ hk
  have hpush : (lineDiscardK s.buf).push = false := by
    unfold lineDiscardK; rw [if_pos ⟨hc, hp⟩]; rfl
  obtain ⟨h1, h2, _, h4⟩ := deleteBefore_spec s.buf hwf 1
  have hrem : (deleteBefore s.buf 1).2 = ['\n'] := by
    rw [h4]
    have : min 1 s.buf.cur = 1 := by omega
    rw [this]; exact col0_char_before s.buf hwf hc hp
  have hkk : lineDiscardK s.buf = Kill.ofDel (deleteBefore s.buf 1) false := by
    unfold lineDiscardK; rw [if_pos ⟨hc, hp⟩]
  simp only
  refine ⟨by rw [hr, pushKill_nopush _ _ _ _ hpush], ?_, ?_⟩
  · rw [hb, hkk]; simp only [Kill.ofDel]
    rw [hrem] at h2; simp at h2; omega
  · rw [hb, hkk]; simp only [Kill.ofDel]
    rw [hrem] at h1; exact h1

def exB2 : Buf := { text := "ab\ncd".toList, cur := 3 }
example :
    WF exB2 ∧ col exB2 = 0 ∧ 0 < exB2.cur ∧ (lineDiscardK exB2).buf = { text := "abcd".toList, cur := 2 } ∧
    (lineDiscardK exB2).push = false := by decide

/-! ### yank right after kill restores the text; consecutive word kills accumulate in text order -/

/-- Invariant "the top of the ring put back at the cursor gives `orig`". -/
def Restorable (orig : Text) (s : St) : Prop :=
  orig = reinsert s.buf.text s.buf.cur (getData s.ring).text ∧ (getData s.ring).ty = .chars

theorem rep_one (t : Text) : rep t 1 = t := by
  simp [rep, repeatText]

/-- `yank` with argument `n` inserts the top of the ring `n` times at the cursor. -/
theorem yank_text (s : St) (n : Int) (h : (getData s.ring).ty = .chars) :
    (yank s n).buf.text = reinsert s.buf.text s.buf.cur (rep (getData s.ring).text n) ∧
    (yank s n).ring = s.ring ∧ (yank s n).dbp = some s.buf := by
  by_cases hn : n ≤ 0
  · simp [yank, pasteSt, pasteBuf, pasteRaw_nonpos _ _ _ _ hn, rep_nonpos _ _ hn, reinsert]
  · simp [yank, pasteSt, pasteBuf, pasteRaw, hn, h, reinsert, Buf.before, Buf.after]

/-- **yank_restores.**  In a `Restorable orig` state a plain yank gives back `orig`. -/
theorem yank_restores (orig : Text) (s : St) (h : Restorable orig s) : (yank s 1).buf.text = orig := by
  rw [(yank_text s 1 h.2).1, rep_one]; exact h.1.symm

/-- a kill that reaches the clipboard and is not a repeat makes the old text restorable -/
theorem kill_establishes (rs : Char → Bool) (max : Nat) (hmax : 0 < max) (s : St) (hwf : WF s.buf)
    (arg : Arg) (cmd : Cmd) (k : Kill) (hk : killOf rs s.buf arg.val cmd = some k)
    (hp : k.push = true) (hacc : accOf s arg cmd = .no) :
    Restorable s.buf.text (step rs max s arg cmd) := by
  obtain ⟨hb, h1, _, _, h5⟩ := kill_puts_removed rs max hmax s hwf arg cmd k hk
  obtain ⟨ht, _⟩ := h5 hp hacc
  unfold Restorable
  rw [ht, hb]; exact ⟨h1, rfl⟩

/-- **yank right after kill** (any kill command, any argument, not a repeat): the text is back. -/
theorem yank_after_kill_restores (rs : Char → Bool) (max : Nat) (hmax : 0 < max) (s : St) (hwf : WF s.buf)
    (arg : Arg) (cmd : Cmd) (k : Kill) (hk : killOf rs s.buf arg.val cmd = some k)
    (hp : k.push = true) (hacc : accOf s arg cmd = .no) :
    (step rs max (step rs max s arg cmd) .none .yank).buf.text = s.buf.text := by
  have := yank_restores _ _ (kill_establishes rs max hmax s hwf arg cmd k hk hp hacc)
  simpa [step, Arg.val] using this

/-- with a non-negative argument the position found is in front of the cursor -/
theorem findNextWordEnding_pos (rs : Char → Bool) (b : Buf) (n : Int) (hn : 0 ≤ n) (pos : Int)
    (h : findNextWordEnding rs b n = some pos) : 0 < pos := by
  unfold findNextWordEnding at h
  rw [if_neg (by omega)] at h
  split at h
  · cases h
  · rename_i k _
    cases hm : (reMatches rs false (b.after.drop 1))[k]? with
    | none => rw [hm] at h; cases h
    | some m => rw [hm] at h; simp at h; omega

theorem killWordK_cur (rs : Char → Bool) (b : Buf) (n : Int) (hn : 0 ≤ n) : (killWordK rs b n).buf.cur = b.cur := by
  unfold killWordK
  generalize Gen.C09.killWordNegFixed = fl
  cases hf : findNextWordEnding rs b n with
  | none => rfl
  | some pos =>
    have := findNextWordEnding_pos rs b n hn pos hf
    simp only
    rw [if_pos (by omega), if_neg (fun h => by have := h.2; omega)]
    unfold delete Kill.ofDel; split <;> rfl

/-- a repeated kill-word appends: the ring top grows at its END, `orig` stays restorable -/
theorem killWord_repeat_accumulates (rs : Char → Bool) (max : Nat) (hmax : 0 < max) (orig : Text) (s : St)
    (hwf : WF s.buf) (hres : Restorable orig s) (hprev : s.prev = .killWord) (hkk : s.kwKilled = true)
    (hp : (killWordK rs s.buf 1).push = true) :
    let s' := step rs max s .none .killWord
    Restorable orig s' ∧
    (getData s'.ring).text = (getData s.ring).text ++ (killWordK rs s.buf 1).removed := by
  have hk : killOf rs s.buf Arg.none.val .killWord = some (killWordK rs s.buf 1) := rfl
  obtain ⟨hb, hr⟩ := step_kill rs max s .none .killWord _ hk
  have hacc : accOf s .none .killWord = .fwd := by simp [accOf, hprev, hkk]
  obtain ⟨h1, h2, _⟩ := killWordK_ok rs s.buf hwf 1
  have hcur := killWordK_cur rs s.buf 1 (by omega)
  simp only [Restorable]
  rw [hr, pushKill_push _ _ _ _ hp, hacc, setData_top max hmax, hb]
  refine ⟨⟨?_, rfl⟩, rfl⟩
  simp only [pushedText]
  rw [hres.1, h1, hcur]
  have : s.buf.cur ≤ (killWordK rs s.buf 1).buf.text.length := by rw [← hcur]; exact h2
  exact reinsert_reinsert_fwd _ _ _ _ this

theorem ruboutK_cur (rs : Char → Bool) (b : Buf) (hwf : WF b) (n : Int) (W : Bool) :
    (ruboutK rs b n W).buf.cur + (ruboutK rs b n W).removed.length = b.cur := by
  unfold ruboutK; simp only
  split
  · exact (deleteBefore_spec b hwf _).2.1
  · simp [Kill.nothing]

/-- a repeated unix-word-rubout / backward-kill-word prepends: the ring top grows at its START -/
theorem rubout_repeat_accumulates (rs : Char → Bool) (max : Nat) (hmax : 0 < max) (orig : Text) (s : St)
    (hwf : WF s.buf) (hres : Restorable orig s) (W : Bool)
    (hprev : s.prev = (if W then Handler.rubout else Handler.backKill))
    (hp : (ruboutK rs s.buf 1 W).push = true) :
    let s' := step rs max s .none (if W then .wordRubout else .backKillWord)
    Restorable orig s' ∧
    (getData s'.ring).text = (ruboutK rs s.buf 1 W).removed ++ (getData s.ring).text := by
  have hk : killOf rs s.buf Arg.none.val (if W then Cmd.wordRubout else Cmd.backKillWord)
      = some (ruboutK rs s.buf 1 W) := by cases W <;> rfl
  obtain ⟨hb, hr⟩ := step_kill rs max s .none _ _ hk
  have hacc : accOf s .none (if W then Cmd.wordRubout else Cmd.backKillWord) = .bwd := by
    cases W <;> simp [accOf] <;> simpa using hprev
  obtain ⟨h1, h2, _⟩ := ruboutK_ok rs s.buf hwf 1 W
  have hcur := ruboutK_cur rs s.buf hwf 1 W
  simp only [Restorable]
  rw [hr, pushKill_push _ _ _ _ hp, hacc, setData_top max hmax, hb]
  refine ⟨⟨?_, rfl⟩, rfl⟩
  simp only [pushedText]
  rw [hres.1, h1, ← hcur]
  exact reinsert_reinsert_bwd _ _ _ _ h2

/-! #### runs of consecutive word kills -/

/-- the handler identity a word-kill key leaves in `KeyProcessor._previous_handler` -/
def handlerOf : Cmd → Handler
  | .killWord => .killWord
  | .wordRubout => .rubout
  | .backKillWord => .backKill
  | _ => .other

def isWordKill (cmd : Cmd) : Prop := cmd = .killWord ∨ cmd = .wordRubout ∨ cmd = .backKillWord

/-- `n` further presses of the same word-kill key (no numeric argument) -/
def killRun (rs : Char → Bool) (max : Nat) (cmd : Cmd) : Nat → St → St
  | 0, s => s
  | n + 1, s => killRun rs max cmd n (step rs max s .none cmd)

/-- every one of those `n` presses finds something to kill -/
def allPush (rs : Char → Bool) (max : Nat) (cmd : Cmd) : Nat → St → Bool
  | 0, _ => true
  | n + 1, s => (match killOf rs s.buf 1 cmd with | some k => k.push | none => false) &&
                allPush rs max cmd n (step rs max s .none cmd)

theorem step_wordkill_state (rs : Char → Bool) (max : Nat) (s : St) (arg : Arg) (cmd : Cmd) (hc : isWordKill cmd)
    (k : Kill) (hk : killOf rs s.buf arg.val cmd = some k) :
    (step rs max s arg cmd).prev = handlerOf cmd ∧
    (cmd = .killWord → (step rs max s arg cmd).kwKilled = k.push) := by
  rcases hc with rfl | rfl | rfl <;> simp [killOf] at hk <;> subst hk <;>
    simp [step, applyKill, handlerOf]

theorem run_invariant (rs : Char → Bool) (max : Nat) (hmax : 0 < max) (cmd : Cmd) (hc : isWordKill cmd)
    (orig : Text) : ∀ (n : Nat) (s : St), WF s.buf → Restorable orig s → s.prev = handlerOf cmd →
      (cmd = .killWord → s.kwKilled = true) → allPush rs max cmd n s = true →
      Restorable orig (killRun rs max cmd n s) := by
  intro n
  induction n with
  | zero => intro s _ hr _ _ _; exact hr
  | succ n ih =>
    intro s hwf hres hprev hkw hall
    simp only [allPush, Bool.and_eq_true] at hall
    obtain ⟨h1, hrest⟩ := hall
    obtain ⟨k, hk, hp⟩ : ∃ k, killOf rs s.buf 1 cmd = some k ∧ k.push = true := by
      cases hko : killOf rs s.buf 1 cmd with
      | none => rw [hko] at h1; simp at h1
      | some k => rw [hko] at h1; exact ⟨k, rfl, h1⟩
    have hk' : killOf rs s.buf Arg.none.val cmd = some k := hk
    obtain ⟨hprev', hkw'⟩ := step_wordkill_state rs max s .none cmd hc k hk'
    obtain ⟨hb, _⟩ := step_kill rs max s .none cmd k hk'
    have hwf' : WF (step rs max s .none cmd).buf := by
      rw [hb]; exact (killOf_ok rs s.buf hwf _ cmd k hk').2.1
    have hres' : Restorable orig (step rs max s .none cmd) := by
      rcases hc with rfl | rfl | rfl
      · simp [killOf] at hk; subst hk
        exact (killWord_repeat_accumulates rs max hmax orig s hwf hres hprev (hkw rfl) hp).1
      · simp [killOf] at hk; subst hk
        exact (rubout_repeat_accumulates rs max hmax orig s hwf hres true hprev hp).1
      · simp [killOf] at hk; subst hk
        exact (rubout_repeat_accumulates rs max hmax orig s hwf hres false hprev hp).1
    exact ih _ hwf' hres' hprev' (fun h => by rw [hkw' h, hp]) hrest

/-- **kills_accumulate_in_text_order.**  A word-kill key pressed `n + 1` times in a row (the first
    press with any numeric argument and not itself a repeat; every press finds something to kill):
    the top of the ring put back at the final cursor gives the text from before the first press —
    forward kills were appended, backward kills prepended — so a yank right there restores it. -/
theorem kills_accumulate_in_text_order (rs : Char → Bool) (max : Nat) (hmax : 0 < max) (cmd : Cmd)
    (hc : isWordKill cmd) (s : St) (hwf : WF s.buf) (arg : Arg) (k : Kill)
    (hk : killOf rs s.buf arg.val cmd = some k) (hp : k.push = true) (hacc : accOf s arg cmd = .no)
    (n : Nat) (hall : allPush rs max cmd n (step rs max s arg cmd) = true) :
    let sN := killRun rs max cmd n (step rs max s arg cmd)
    Restorable s.buf.text sN ∧ (yank sN 1).buf.text = s.buf.text := by
  have h0 := kill_establishes rs max hmax s hwf arg cmd k hk hp hacc
  obtain ⟨hprev, hkw⟩ := step_wordkill_state rs max s arg cmd hc k hk
  obtain ⟨hb, _⟩ := step_kill rs max s arg cmd k hk
  have hwf' : WF (step rs max s arg cmd).buf := by
    rw [hb]; exact (killOf_ok rs s.buf hwf _ cmd k hk).2.1
  have := run_invariant rs max hmax cmd hc s.buf.text n _ hwf' h0 hprev
    (fun h => by rw [hkw h, hp]) hall
  exact ⟨this, yank_restores _ _ this⟩

-- non-vacuity: `|ab cd ef` + M-d M-d M-d: ring top "ab cd ef", every press killed a word
def exS3 : St := { buf := { text := "ab cd ef".toList, cur := 0 }, ring := [], dbp := none, prev := .other }
def exS3a : St := step (· = ' ') 3 exS3 .none .killWord
example :
    allPush (· = ' ') 3 .killWord 2 exS3a = true ∧ accOf exS3 .none .killWord = .no ∧
    (getData (killRun (· = ' ') 3 .killWord 2 exS3a).ring).text = "ab cd ef".toList ∧
    (killRun (· = ' ') 3 .killWord 2 exS3a).buf.text = [] := by
  decide

-- non-vacuity (backward): `ab cd ef|` + C-w C-w: ring top "cd ef"
def exS4 : St := { buf := { text := "ab cd ef".toList, cur := 8 }, ring := [], dbp := none, prev := .other }
def exS4a : St := step (· = ' ') 3 exS4 .none .wordRubout
example :
    allPush (· = ' ') 3 .wordRubout 1 exS4a = true ∧
    (getData (killRun (· = ' ') 3 .wordRubout 1 exS4a).ring).text = "cd ef".toList ∧
    (killRun (· = ' ') 3 .wordRubout 1 exS4a).buf = { text := "ab ".toList, cur := 3 } := by
  decide

/-- The guard `last_kill_word_killed`: a kill-word press that follows a kill-word press which
    killed NOTHING is not treated as a repeat — the ring top is exactly the removed text (and not
    glued to an older, unrelated kill). -/
theorem killWord_after_failed_killWord (rs : Char → Bool) (max : Nat) (hmax : 0 < max) (s : St)
    (hwf : WF s.buf) (hkk : s.kwKilled = false) (arg : Arg)
    (hp : (killWordK rs s.buf arg.val).push = true) :
    getData (step rs max s arg .killWord).ring = { text := (killWordK rs s.buf arg.val).removed, ty := .chars } := by
  have hk : killOf rs s.buf arg.val .killWord = some (killWordK rs s.buf arg.val) := rfl
  have hacc : accOf s arg .killWord = .no := by simp [accOf, hkk]
  exact ((kill_puts_removed rs max hmax s hwf arg .killWord _ hk).2.2.2.2 hp hacc).1

/-! ### yank-pop replaces the previous yank and cycles through the ring -/

/-- **yank_pop_replaces.**  `yank-pop` directly after a yank (any argument) is the same as having
    yanked the NEXT ring entry once at the original spot: the previously yanked text is gone, the
    ring is rotated by one, and `document_before_paste` still remembers the original document. -/
theorem yank_pop_replaces (s : St) (n : Int) :
    yankPop (yank s n) = yank { s with ring := rotate s.ring } 1 := by
  simp [yankPop, yank, pasteSt]

/-- `k` yank-pops after a yank -/
def popN : Nat → St → St
  | 0, s => s
  | k + 1, s => popN k (yankPop s)

theorem popN_yank (s : St) : ∀ (k : Nat) (n : Int), 0 < k →
    popN k (yank s n) = yank { s with ring := rotateN k s.ring } 1 := by
  intro k
  induction k generalizing s with
  | zero => intro n h; omega
  | succ k ih =>
    intro n _
    simp only [popN]
    rw [yank_pop_replaces]
    cases k with
    | zero => simp [popN, rotateN]
    | succ k =>
      rw [ih _ 1 (by omega)]
      simp [rotateN]

/-- **yank-pop cycles without losing any kill.**  After a yank, `k` yank-pops (`0 < k < |ring|`)
    show the `k`-th ring entry at the original spot, and `|ring|` yank-pops are the same as a
    single plain yank of the original ring: the cycle is closed and every entry was visited. -/
theorem yank_pop_cycles (s : St) (n : Int) (k : Nat) (hk0 : 0 < k) (hk : k < s.ring.length)
    (hty : ∀ d ∈ s.ring, d.ty = .chars) :
    ∃ d, s.ring[k]? = some d ∧
      (popN k (yank s n)).buf.text = reinsert s.buf.text s.buf.cur d.text ∧
      (popN k (yank s n)).ring.Perm s.ring := by
  have hr := rotate_reaches s.ring k hk
  rw [popN_yank s k n hk0]
  refine ⟨getData (rotateN k s.ring), hr.symm, ?_, ?_⟩
  · have hmem : getData (rotateN k s.ring) ∈ s.ring := List.mem_of_getElem? hr.symm
    have := (yank_text { s with ring := rotateN k s.ring } 1 (hty _ hmem)).1
    rw [this, rep_one]
  · rw [(yank_text { s with ring := rotateN k s.ring } 1 _).2.1]
    · rw [rotate_iterate _ k (Nat.le_of_lt hk)]
      exact List.perm_append_comm.trans (by rw [List.take_append_drop])
    · exact hty _ (List.mem_of_getElem? hr.symm)

theorem yank_pop_full_cycle (s : St) (n : Int) (h : 0 < s.ring.length) :
    popN s.ring.length (yank s n) = yank s 1 := by
  rw [popN_yank s _ n h, rotate_cycle]

def exS5 : St :=
  { buf := { text := "xy".toList, cur := 1 },
    ring := [⟨['A'], .chars⟩, ⟨['B'], .chars⟩, ⟨['C'], .chars⟩], dbp := none, prev := .other }
example : (popN 2 (yank exS5 1)).buf.text = "xCy".toList ∧ (popN 3 (yank exS5 1)).buf.text = "xAy".toList := by
  decide

/-- without a preceding paste (`document_before_paste = None`) yank-pop changes nothing -/
theorem yank_pop_needs_yank (s : St) (h : s.dbp = none) :
    (yankPop s).buf = s.buf ∧ (yankPop s).ring = s.ring := by
  simp [yankPop, h]

/-! ### kill-region / copy-region -/

/-- **region kill / copy.**  `C-@ … C-w` removes exactly the text between mark and point and puts
    it on top of the ring (yank there restores the text); `M-w` stores the same text and leaves
    the buffer alone. -/
theorem region_kill_fidelity (rs : Char → Bool) (mx : Nat) (hmax : 0 < mx) (s : St) (arg : Arg)
    (a b : Nat) (kill : Bool) (hne : s.buf.text ≠ []) :
    let s' := step rs mx s arg (.region a b kill)
    let lo := min (min a s.buf.text.length) (min b s.buf.text.length)
    let hi := max (min a s.buf.text.length) (min b s.buf.text.length)
    getData s'.ring = { text := (s.buf.text.take hi).drop lo, ty := .chars } ∧
    (kill = true → s'.buf.cur = lo ∧ Restorable s.buf.text s') ∧
    (kill = false → s'.buf.text = s.buf.text) := by
  simp only [step, if_neg hne, setCursor, cutRegion, setText]
  rw [setData_top mx hmax]
  refine ⟨by simp, ?_, ?_⟩
  · intro hk; subst hk
    simp only [if_true, Restorable]
    rw [setData_top mx hmax]
    refine ⟨by simp, ?_, rfl⟩
    generalize hlo : min (min (↑a : Int).toNat s.buf.text.length) (min (↑b : Int).toNat s.buf.text.length) = lo
    generalize hhi : max (min (↑a : Int).toNat s.buf.text.length) (min (↑b : Int).toNat s.buf.text.length) = hi
    exact (cut_reinsert _ lo hi (by omega) (by omega)).symm
  · intro hk; subst hk; simp

def exS6 : St := { buf := { text := "hello world".toList, cur := 0 }, ring := [], dbp := none, prev := .other }
example :
    (step (· = ' ') 3 exS6 .none (.region 8 2 true)).buf = { text := "herld".toList, cur := 2 } ∧
    getData (step (· = ' ') 3 exS6 .none (.region 8 2 true)).ring = ⟨"llo wo".toList, .chars⟩ := by decide

/-! ### well-formedness is preserved by every modelled key -/

theorem pasteBuf_chars_wf (b : Buf) (h : WF b) (d : Clip) (hty : d.ty = .chars) (n : Int) :
    WF (pasteBuf b d .emacs n) := by
  by_cases hn0 : n ≤ 0
  · unfold WF at h ⊢
    simp only [pasteBuf, pasteRaw_nonpos _ _ _ _ hn0, Int.toNat_natCast]; exact h
  unfold WF at h ⊢
  unfold pasteBuf pasteRaw
  rw [if_neg hn0, hty]
  simp only [Buf.before, Buf.after, rep]
  simp only [reduceCtorEq, if_false]
  simp only [List.length_append, List.length_take, List.length_drop, repeatText_length]
  have hn : 0 ≤ n := by omega
  have : ((b.cur : Int) + (d.text.length : Int) * n).toNat = b.cur + d.text.length * n.toNat := by
    obtain ⟨m, rfl⟩ := Int.eq_ofNat_of_zero_le hn
    simp; norm_cast
  rw [this]; omega

/-- Invariant of every Emacs session: cursors inside their texts, only CHARACTERS data on the
    ring, ring not longer than `max_size`. -/
def Inv (max : Nat) (s : St) : Prop :=
  WF s.buf ∧ (∀ d ∈ s.ring, d.ty = .chars) ∧ s.ring.length ≤ max ∧ (∀ d, s.dbp = some d → WF d)

theorem getData_chars (r : Ring) (h : ∀ d ∈ r, d.ty = .chars) : (getData r).ty = .chars := by
  cases r with
  | nil => rfl
  | cons d r => exact h d (by simp)

theorem setData_mem (max : Nat) (r : Ring) (d x : Clip) (h : x ∈ setData max r d) : x = d ∨ x ∈ r := by
  unfold setData at h
  have := List.mem_of_mem_take h
  simpa using this

theorem pushKill_inv (max : Nat) (r : Ring) (k : Kill) (acc : Acc) (h1 : ∀ d ∈ r, d.ty = .chars)
    (h2 : r.length ≤ max) :
    (∀ d ∈ pushKill max r k acc, d.ty = .chars) ∧ (pushKill max r k acc).length ≤ max := by
  cases hp : k.push with
  | false => rw [pushKill_nopush _ _ _ _ hp]; exact ⟨h1, h2⟩
  | true =>
    rw [pushKill_push _ _ _ _ hp]
    refine ⟨?_, setData_length_le _ _ _⟩
    intro d hd
    rcases setData_mem _ _ _ _ hd with rfl | hd
    · rfl
    · exact h1 d hd

theorem touch_wf (old new : Buf) (dbp : Option Buf) (h : ∀ d, dbp = some d → WF d) :
    ∀ d, touch old dbp new = some d → WF d := by
  unfold touch; split
  · exact h
  · intro d hd; cases hd

theorem lineAfter_le (b : Buf) : (lineAfter b).length ≤ b.text.length - b.cur := by
  unfold lineAfter Buf.after
  exact Nat.le_trans (length_takeWhile_le' _ _) (by simp)

theorem moveRight_wf (b : Buf) (h : WF b) (n : Int) : WF (moveRight b n) := by
  unfold WF at *
  unfold moveRight
  split
  · simp only; omega
  · simp only
    have := lineAfter_le b
    omega

theorem insertText_wf (b : Buf) (h : WF b) (d : Text) : WF (insertText b d) := by
  unfold WF at *
  simp [insertText, Buf.before, Buf.after]; omega

theorem setCursor_wf (b : Buf) (v : Int) : WF (setCursor b v) := by
  unfold WF setCursor; simp only; omega

theorem rotate_mem (r : Ring) (d : Clip) : d ∈ rotate r ↔ d ∈ r := (rotate_perm r).mem_iff

/-- **step_inv.**  Every key of the Emacs model preserves the invariant. -/
theorem step_inv (rs : Char → Bool) (mx : Nat) (s : St) (h : Inv mx s) (arg : Arg) (cmd : Cmd) :
    Inv mx (step rs mx s arg cmd) := by
  obtain ⟨hwf, hty, hlen, hdbp⟩ := h
  cases hko : killOf rs s.buf arg.val cmd with
  | some k =>
    obtain ⟨hb, hr⟩ := step_kill rs mx s arg cmd k hko
    obtain ⟨_, hk2, _⟩ := killOf_ok rs s.buf hwf _ cmd k hko
    obtain ⟨p1, p2⟩ := pushKill_inv mx s.ring k (accOf s arg cmd) hty hlen
    refine ⟨by rw [hb]; exact hk2, by rw [hr]; exact p1, by rw [hr]; exact p2, ?_⟩
    have : (step rs mx s arg cmd).dbp = touch s.buf s.dbp k.buf := by
      cases cmd <;> simp [killOf] at hko <;> subst hko <;> simp [step, applyKill]
    rw [this]; exact touch_wf _ _ _ hdbp
  | none =>
    cases cmd <;> simp [killOf] at hko
    · -- yank
      simp only [step, yank, pasteSt]
      exact ⟨pasteBuf_chars_wf _ hwf _ (getData_chars _ hty) _, hty, hlen,
        fun d hd => by cases hd; exact hwf⟩
    · -- yank-pop
      simp only [step, yankPop]
      cases hd : s.dbp with
      | none => exact ⟨hwf, hty, hlen, fun d h' => by simp at h'⟩
      | some d =>
        have hty' : ∀ x ∈ rotate s.ring, x.ty = .chars := fun x hx => hty x ((rotate_mem _ _).mp hx)
        exact ⟨pasteBuf_chars_wf _ (hdbp d hd) _ (getData_chars _ hty') _, hty',
          by rw [rotate_length]; exact hlen, fun d' h' => by cases h'; exact hdbp d hd⟩
    · simp only [step]
      exact ⟨moveRight_wf _ hwf _, hty, hlen, touch_wf _ _ _ hdbp⟩
    · simp only [step]
      exact ⟨moveRight_wf _ hwf _, hty, hlen, touch_wf _ _ _ hdbp⟩
    · simp only [step]
      exact ⟨insertText_wf _ hwf _, hty, hlen, touch_wf _ _ _ hdbp⟩
    · simp only [step]
      exact ⟨setCursor_wf _ _, hty, hlen, touch_wf _ _ _ hdbp⟩
    · -- region
      rename_i a b kill
      simp only [step]
      split
      · split
        · exact ⟨hwf, hty, hlen, hdbp⟩
        · exact ⟨insertText_wf _ hwf _, hty, hlen, fun d h' => by cases h'⟩
      · have hR : ∀ t, (∀ d ∈ setText mx s.ring t, d.ty = .chars) := by
          intro t d hd
          rcases setData_mem _ _ _ _ hd with rfl | hd
          · rfl
          · exact hty d hd
        have hD : ∀ (c : Prop) [Decidable c] (d : Buf), (if c then s.dbp else none) = some d → WF d := by
          intro c _ d hd
          split at hd
          · exact hdbp d hd
          · cases hd
        cases kill
        · simp only [cutRegion, Bool.false_eq_true, if_false]
          exact ⟨setCursor_wf _ _, hR _, setData_length_le _ _ _, hD _⟩
        · simp only [cutRegion, if_true]
          refine ⟨?_, hR _, setData_length_le _ _ _, hD _⟩
          unfold WF
          simp only [setCursor, List.length_append, List.length_take, List.length_drop]
          omega

/-- **run_inv.**  The invariant holds after every finite sequence of keys (all histories). -/
theorem run_inv (rs : Char → Bool) (mx : Nat) (ops : List (Arg × Cmd)) :
    ∀ s, Inv mx s → Inv mx (run rs mx s ops) := by
  induction ops with
  | nil => intro s h; exact h
  | cons op ops ih =>
    intro s h
    simp only [run, List.foldl_cons]
    exact ih _ (step_inv rs mx s h op.1 op.2)

/-- **Kill fidelity after any history.**  Start from any state satisfying the invariant (e.g. an
    empty ring), press any finite sequence of modelled keys, then any kill command with any
    argument: the removed text put back at the kill point is the text before the kill, and (not a
    repeat) it is exactly the new top of the ring; yanking right there restores the text. -/
theorem kill_fidelity_in_every_history (rs : Char → Bool) (mx : Nat) (hmax : 0 < mx) (s0 : St)
    (h0 : Inv mx s0) (ops : List (Arg × Cmd)) (arg : Arg) (cmd : Cmd) (k : Kill)
    (hk : killOf rs (run rs mx s0 ops).buf arg.val cmd = some k) :
    let s := run rs mx s0 ops
    s.buf.text = reinsert k.buf.text k.buf.cur k.removed ∧
    (k.push = true → accOf s arg cmd = .no →
      getData (step rs mx s arg cmd).ring = { text := k.removed, ty := .chars } ∧
      (step rs mx (step rs mx s arg cmd) .none .yank).buf.text = s.buf.text) := by
  have hinv := run_inv rs mx ops s0 h0
  obtain ⟨_, h1, _, _, h5⟩ := kill_puts_removed rs mx hmax _ hinv.1 arg cmd k hk
  exact ⟨h1, fun hp ha => ⟨(h5 hp ha).1, yank_after_kill_restores rs mx hmax _ hinv.1 arg cmd k hk hp ha⟩⟩

def exS7 : St := { buf := { text := "one two".toList, cur := 7 }, ring := [], dbp := none, prev := .other }
example : Inv 3 exS7 := by
  refine ⟨by decide, by simp [exS7], by decide, by simp [exS7]⟩
example : (run (· = ' ') 3 exS7 [(.none, .wordRubout), (.none, .goto 0), (.none, .yank), (.none, .killLine), (.none, .yankPop)]).buf.text
    = "two".toList ∧
    (run (· = ' ') 3 exS7 [(.none, .wordRubout), (.none, .goto 0), (.none, .yank), (.none, .killLine), (.none, .yankPop)]).ring
    = [⟨"one ".toList, .chars⟩, ⟨"two".toList, .chars⟩] := by decide

end Ptk.C09
