/-
  Cross-model agreement, cluster "KeyProcessor and key bindings".

  Part 5 — what `_call_handler` does after the handler, and the mode filters:
    * key_processor.py::KeyProcessor._fix_vi_cursor_position — modelled by C05, C07, C08, C09, C14,
      C16 (C04, the canonical model of the key processor, leaves it out); canonical here:
      `Ptk.C08.fixViCursor text cursor` (new cursor).  C05 / C09 / C14 state the condition like
      the code (`is_cursor_at_the_end_of_line and len(current_line) > 0`), C07 / C16 through the
      character before the cursor; the latter is equivalent for a cursor inside the text
      (`cursor ≤ len(text)`, the `Document` invariant) — outside it the formulations differ
      (`fixVi_outside_domain`), a region no correspondence exercises.
    * key_processor.py::KeyProcessor._leave_vi_temp_navigation_mode — C05 (`C05.leaveTempNav`,
      `C05.Skel.leaveTempNav`) vs C08 (`C08.afterHandler`).
    * filters/app.py::vi_navigation_mode / vi_insert_mode / vi_waiting_for_text_object_mode —
      C05.Skel vs C08 (`navMode`, `insertMode`, `waiting`).
-/
import Ptk.Model.C05
import Ptk.Model.C07
import Ptk.Model.C08Session
import Ptk.Model.C09Vi
import Ptk.Model.C14
import Ptk.Model.C16
import Ptk.Model.C05Skel
namespace Ptk.AgreeKey.Fix
open Ptk.Py

/-- the condition of `_fix_vi_cursor_position` as C08 states it -/
def cond08 (t : Text) (cur : Nat) : Prop :=
  (C08.currentChar ⟨t, cur⟩ = some '\n' ∨ C08.currentChar ⟨t, cur⟩ = none) ∧
    (C08.currentLine ⟨t, cur⟩).length > 0

instance (t : Text) (cur : Nat) : Decidable (cond08 t cur) := by unfold cond08; infer_instance

theorem fix08_eq (t : Text) (cur : Nat) :
    C08.fixViCursor t cur = if cond08 t cur then cur - 1 else cur := rfl

/-- at the end of a line, the text of the line after the cursor is empty -/
theorem lineAfter_nil (t : Text) (cur : Nat) (h : t[cur]? = some '\n' ∨ t[cur]? = none) :
    (t.drop cur).takeWhile C08.notNl = [] := by
  rcases h with h | h
  · have : t.drop cur = '\n' :: t.drop (cur + 1) := by
      have hlt : cur < t.length := by
        rcases Nat.lt_or_ge cur t.length with h1 | h1
        · exact h1
        · simp [List.getElem?_eq_none h1] at h
      rw [List.drop_eq_getElem_cons hlt]
      simp [List.getElem?_eq_getElem hlt] at h
      rw [h]
    rw [this]; simp [C08.notNl]
  · have : t.length ≤ cur := by
      rcases Nat.lt_or_ge cur t.length with h1 | h1
      · simp [List.getElem?_eq_getElem h1] at h
      · exact h1
    rw [List.drop_of_length_le this]; rfl

/-- the line before the cursor is non-empty iff the character before the cursor exists and is
    not a newline (cursor inside the text) -/
theorem lineBefore_pos (t : Text) (cur : Nat) (hc : cur ≤ t.length) :
    (((t.take cur).reverse.takeWhile C08.notNl).reverse.length > 0) ↔
      (cur ≠ 0 ∧ t[cur - 1]? ≠ some '\n') := by
  rcases List.eq_nil_or_concat (t.take cur) with h | ⟨l, c, h⟩
  · have : cur = 0 := by
      have hl0 := congrArg List.length h
      simp only [List.length_take, List.length_nil] at hl0; omega
    subst this; simp
  · rw [List.concat_eq_append] at h
    have hlen : (t.take cur).length = cur := by rw [List.length_take]; omega
    have hl : l.length + 1 = cur := by rw [← hlen, h]; simp
    have hget : t[cur - 1]? = some c := by
      have h1 : (t.take cur)[cur - 1]? = t[cur - 1]? := by
        rw [List.getElem?_take]; simp; omega
      rw [← h1, h, ← hl]; simp
    rw [h, hget]
    simp only [List.reverse_append, List.reverse_cons, List.reverse_nil, List.nil_append,
      List.singleton_append, List.takeWhile_cons, List.length_reverse]
    by_cases hn : C08.notNl c = true
    · have : c ≠ '\n' := by simpa [C08.notNl] using hn
      simp [hn, this]; omega
    · have : c = '\n' := by simpa [C08.notNl] using hn
      subst this
      simp [C08.notNl]


/-- the condition in "previous character" form (cursor inside the text) -/
theorem cond08_iff (t : Text) (cur : Nat) (hc : cur ≤ t.length) :
    cond08 t cur ↔ ((t[cur]? = none ∨ t[cur]? = some '\n') ∧ cur ≠ 0 ∧ t[cur - 1]? ≠ some '\n') := by
  unfold cond08 C08.currentChar C08.currentLine C08.lineBefore C08.lineAfter C08.Doc.before C08.Doc.after
  simp only []
  constructor
  · intro ⟨h1, h2⟩
    rw [List.length_append, lineAfter_nil t cur h1] at h2
    exact ⟨h1.symm, (lineBefore_pos t cur hc).mp (by simpa using h2)⟩
  · intro ⟨h1, h2⟩
    refine ⟨h1.symm, ?_⟩
    rw [List.length_append, lineAfter_nil t cur h1.symm]
    have := (lineBefore_pos t cur hc).mpr h2
    simpa using this

/-- key_processor.py::KeyProcessor._fix_vi_cursor_position — `Ptk.C09.fixNav` = `Ptk.C08.fixViCursor` -/
theorem fixVi_C08_C09 (b : C09.Buf) :
    C09.fixNav b = { b with cur := C08.fixViCursor b.text b.cur } := by
  have e : cond08 b.text b.cur ↔
      ((b.text[b.cur]? = none ∨ b.text[b.cur]? = some '\n') ∧
        0 < (C09.lineBefore b ++ C09.lineAfter b).length) := by
    constructor
    · intro ⟨h1, h2⟩; exact ⟨h1.symm, h2⟩
    · intro ⟨h1, h2⟩; exact ⟨h1.symm, h2⟩
  rw [fix08_eq]
  unfold C09.fixNav
  by_cases hc : cond08 b.text b.cur
  · rw [if_pos hc, if_pos (e.mp hc)]
  · rw [if_neg hc, if_neg (fun h => hc (e.mpr h))]


/-- key_processor.py::KeyProcessor._fix_vi_cursor_position — `Ptk.C14.viFix` = `Ptk.C08.fixViCursor`
    (cursor and text; cursor inside the text, the `Document` invariant) -/
theorem fixVi_C08_C14 (s : C14.St) (hc : s.cur ≤ s.text.length) :
    (C14.viFix s).cur = C08.fixViCursor s.text s.cur ∧ (C14.viFix s).text = s.text := by
  have e : cond08 s.text s.cur ↔
      (C14.atEndOfLine s.text s.cur &&
        decide ((C14.lineBefore s.text s.cur ++ C14.lineAfter s.text s.cur).length > 0)) = true := by
    have ha : C14.atEndOfLine s.text s.cur = true ↔
        (C08.currentChar ⟨s.text, s.cur⟩ = some '\n' ∨ C08.currentChar ⟨s.text, s.cur⟩ = none) := by
      unfold C14.atEndOfLine C08.currentChar
      simp only []
      cases s.text[s.cur]? <;> simp
    rw [Bool.and_eq_true, decide_eq_true_eq, ha]
    exact Iff.rfl
  have hset : ∀ v : Int, (C14.setCursorPos s v).cur = min v.toNat s.text.length ∧
      (C14.setCursorPos s v).text = s.text := by
    intro v
    unfold C14.setCursorPos
    simp only []
    split
    · rename_i h; exact ⟨h.symm, rfl⟩
    · exact ⟨rfl, rfl⟩
  rw [fix08_eq]
  unfold C14.viFix
  by_cases h : cond08 s.text s.cur
  · rw [if_pos h, if_pos (e.mp h)]
    refine ⟨?_, (hset _).2⟩
    show (C14.setCursorPos s _).cur = _
    rw [(hset _).1]; omega
  · rw [if_neg h, if_neg (fun h' => h (e.mpr h'))]
    exact ⟨rfl, rfl⟩

/-- key_processor.py::KeyProcessor._fix_vi_cursor_position — `Ptk.C05.fixViCursor` =
    `Ptk.C08.fixViCursor` when `vi_navigation_mode()` holds, the identity otherwise -/
theorem fixVi_C08_C05 (a : C05.App) (hc : a.buf.cur ≤ a.buf.text.length) :
    (C05.fixViCursor a).buf.cur
        = (if C05.viNavigationMode a then C08.fixViCursor a.buf.text a.buf.cur else a.buf.cur) ∧
    (C05.fixViCursor a).buf.text = a.buf.text := by
  have e : cond08 a.buf.text a.buf.cur ↔
      (C05.atEndOfLine a.buf && decide ((C05.currentLine a.buf).length > 0)) = true := by
    have ha : C05.atEndOfLine a.buf = true ↔
        (C08.currentChar ⟨a.buf.text, a.buf.cur⟩ = some '\n' ∨ C08.currentChar ⟨a.buf.text, a.buf.cur⟩ = none) := by
      unfold C05.atEndOfLine C05.currentChar C08.currentChar
      simp only []
      cases a.buf.text[a.buf.cur]? <;> simp
    rw [Bool.and_eq_true, decide_eq_true_eq, ha]
    exact Iff.rfl
  have hmv : (C05.moveCursor a.buf (-1)).cur = a.buf.cur - 1 ∧
      (C05.moveCursor a.buf (-1)).text = a.buf.text := by
    have hcc : ∀ (b : C05.Buf) (old c : Nat), (C05.cursorChanged b old c).cur = b.cur ∧
        (C05.cursorChanged b old c).text = b.text := by
      intro b old c; unfold C05.cursorChanged; split <;> exact ⟨rfl, rfl⟩
    unfold C05.moveCursor C05.setCursor
    simp only []
    refine ⟨?_, (hcc _ _ _).2⟩
    rw [(hcc _ _ _).1]
    simp only []
    split <;> split <;> omega
  rw [fix08_eq]
  unfold C05.fixViCursor
  by_cases hn : C05.viNavigationMode a = true
  · by_cases h : cond08 a.buf.text a.buf.cur
    · have h' := e.mp h
      rw [Bool.and_eq_true] at h'
      simp only [hn, h'.1, Bool.and_self, Bool.true_and, if_true, if_pos h]
      rw [if_pos (by simpa using h'.2)]
      exact hmv
    · have h' : ¬ ((C05.atEndOfLine a.buf && decide ((C05.currentLine a.buf).length > 0)) = true) :=
        fun h' => h (e.mpr h')
      simp only [hn, Bool.true_and, if_true, if_neg h]
      rw [if_neg (by simpa [Bool.and_eq_true] using h')]
      exact ⟨rfl, rfl⟩
  · have hn' : C05.viNavigationMode a = false := by simpa using hn
    simp [hn']

/-- key_processor.py::KeyProcessor._fix_vi_cursor_position — `Ptk.C07.viFix` = `Ptk.C08.fixViCursor`
    (C07 states "the line is not empty" through the character before the cursor) -/
theorem fixVi_C08_C07 (b : C07.Buf) (hc : b.cur ≤ b.text.length) :
    C07.viFix b = { b with cur := C08.fixViCursor b.text b.cur } := by
  rw [fix08_eq]
  unfold C07.viFix
  have hiff := cond08_iff b.text b.cur hc
  obtain ⟨t, cur⟩ := b
  simp only [] at hiff hc ⊢
  cases hh : t[cur]? with
  | none =>
    simp only [hh] at hiff
    by_cases h : cond08 t cur
    · obtain ⟨_, h2, h3⟩ := hiff.mp h
      simp [h, h2, h3]
    · have hn := fun h' => h (hiff.mpr h')
      simp only [true_or, true_and, ne_eq] at hn
      by_cases h0 : cur = 0
      · simp [h0]
      · by_cases h3 : t[cur - 1]? = some '\n'
        · simp [h, h3]
        · exact absurd ⟨h0, h3⟩ hn
  | some c =>
    simp only [hh] at hiff
    by_cases h : cond08 t cur
    · obtain ⟨h1, h2, h3⟩ := hiff.mp h
      have hc' : c = '\n' := by simpa using h1
      simp [h, h2, h3, hc']
    · have hn := fun h' => h (hiff.mpr h')
      by_cases hcn : c = '\n'
      · subst hcn
        simp only [reduceCtorEq, or_true, true_and, ne_eq] at hn
        by_cases h0 : cur = 0
        · simp [h0]
        · by_cases h3 : t[cur - 1]? = some '\n'
          · simp [h, h3]
          · exact absurd ⟨h0, h3⟩ hn
      · simp [h, hcn]

/-- key_processor.py::KeyProcessor._fix_vi_cursor_position — `Ptk.C16.viFix` = `Ptk.C08.fixViCursor` -/
theorem fixVi_C08_C16 (b : C16.Buf) (hc : b.cur ≤ b.text.length) :
    C16.viFix b = { b with cur := C08.fixViCursor b.text b.cur } := by
  rw [fix08_eq]
  unfold C16.viFix
  have e : C16.viAtEolNonEmpty b = true ↔ cond08 b.text b.cur := by
    rw [cond08_iff b.text b.cur hc]
    unfold C16.viAtEolNonEmpty
    simp only [Bool.and_eq_true]
    constructor
    · intro ⟨h1, h2⟩
      refine ⟨?_, ?_⟩
      · cases hh : b.text[b.cur]? with
        | none => exact Or.inl rfl
        | some c => rw [hh] at h1; right; simpa using h1
      · cases hk : b.cur with
        | zero => rw [hk] at h2; simp at h2
        | succ k =>
          rw [hk] at h2
          simp only [] at h2
          refine ⟨by omega, ?_⟩
          simp only [Nat.add_sub_cancel]
          cases hh : b.text[k]? with
          | none => simp
          | some c => rw [hh] at h2; simpa using h2
    · intro ⟨h1, h2, h3⟩
      refine ⟨?_, ?_⟩
      · rcases h1 with h1 | h1 <;> simp [h1]
      · cases hk : b.cur with
        | zero => exact absurd hk h2
        | succ k =>
          simp only []
          rw [hk] at h3
          simp only [Nat.add_sub_cancel] at h3
          have hlt : k < b.text.length := by omega
          rw [List.getElem?_eq_getElem hlt] at h3 ⊢
          simpa using h3
  by_cases h : cond08 b.text b.cur
  · rw [if_pos h, if_pos (e.mpr h)]
  · rw [if_neg h, if_neg (fun h' => h (e.mp h'))]


/-- outside the `Document` invariant (cursor beyond the text) the two formulations of "the line is
    not empty" differ: text `"a\n"`, cursor 5 — C08 / the code's formula: the current line is empty,
    nothing moves; C07's formula: the character before the cursor does not exist, so the cursor moves -/
theorem fixVi_outside_domain :
    C08.fixViCursor ['a', '\n'] 5 = 5 ∧ (C07.viFix ⟨['a', '\n'], 5⟩).cur = 4 := by decide

example : C08.fixViCursor ['a', 'b'] 2 = 1 ∧ C08.fixViCursor ['a', '\n'] 2 = 2 := by decide

/-! ### `_leave_vi_temp_navigation_mode` -/

theorem fixNav_fields (ss : C08.Sess) :
    (C08.fixNav ss).pending = ss.pending ∧ (C08.fixNav ss).arg = ss.arg ∧
    (C08.fixNav ss).tempNav = ss.tempNav := by
  unfold C08.fixNav; split <;> exact ⟨rfl, rfl, rfl⟩

/-- key_processor.py::KeyProcessor._leave_vi_temp_navigation_mode — `Ptk.C05.Skel.leaveTempNav`
    (run when the mode was temporary before the handler) = the `tempNav` left by
    `Ptk.C08.afterHandler`, for a skeleton and a session that agree on `operator_func is None`,
    `key_processor.arg is None` and the flag itself (C08 is always in Vi mode) -/
theorem leaveTempNav_C05Skel_C08 (s : C05.Skel.Sk) (ss : C08.Sess) (wasTemp : Bool)
    (hvi : s.vi = true) (hop : s.op.isNone = ss.pending.isNone)
    (harg : s.arg.isNone = ss.arg.isNone) (ht : s.tempNav = ss.tempNav) :
    (if wasTemp then (C05.Skel.leaveTempNav s).tempNav else s.tempNav)
      = (C08.afterHandler wasTemp ss).tempNav := by
  obtain ⟨f1, f2, f3⟩ := fixNav_fields ss
  unfold C08.afterHandler C05.Skel.leaveTempNav
  simp only [f1, f2, hvi, if_true, hop, harg]
  cases wasTemp <;> cases ss.pending.isNone <;> cases ss.arg.isNone <;> simp [f3, ht]

/-- key_processor.py::KeyProcessor._leave_vi_temp_navigation_mode — `Ptk.C05.leaveTempNav`
    (application level) = `Ptk.C05.Skel.leaveTempNav` (mode skeleton) -/
theorem leaveTempNav_C05_C05Skel (a : C05.App) (s : C05.Skel.Sk)
    (hvi : s.vi = a.viMode) (hop : s.op.isNone = !a.vi.opPending)
    (harg : s.arg.isNone = a.arg.isNone) (ht : s.tempNav = a.vi.tempNav) :
    (C05.Skel.leaveTempNav s).tempNav = (C05.leaveTempNav a).vi.tempNav := by
  unfold C05.Skel.leaveTempNav C05.leaveTempNav
  simp only [hvi, hop, harg]
  cases a.viMode <;> cases a.vi.opPending <;> cases a.arg.isNone <;> simp [ht]

/-! ### the Vi mode filters, C05.Skel vs C08 -/

/-- a skeleton and a C08 session describe the same Vi state: Vi mode, no digraph, no selection,
    buffer not read-only (what C08 fixes), same pending operator / input mode / temporary flag -/
structure Corr (s : C05.Skel.Sk) (ss : C08.Sess) : Prop where
  vi : s.vi = true
  dg : s.dgWait = false
  sel : s.curSel = none
  ro : s.curRo = false
  op : s.op.isSome = ss.pending.isSome
  mode : s.mode = if ss.st.insert then C05.InputMode.insert else C05.InputMode.navigation
  temp : s.tempNav = ss.tempNav

/-- filters/app.py::vi_navigation_mode — `Ptk.C05.Skel.viNavigationMode` = `Ptk.C08.navMode` -/
theorem viNavigationMode_C05Skel_C08 {s : C05.Skel.Sk} {ss : C08.Sess} (h : Corr s ss) :
    C05.Skel.viNavigationMode s = C08.navMode ss := by
  unfold C05.Skel.viNavigationMode C05.Skel.viGuard C08.navMode
  rw [h.vi, h.dg, h.sel, h.ro, h.op, h.mode, h.temp]
  cases ss.pending <;> cases ss.st.insert <;> cases ss.tempNav <;> rfl

/-- filters/app.py::vi_insert_mode — `Ptk.C05.Skel.viInputMode .insert` = `Ptk.C08.insertMode` -/
theorem viInsertMode_C05Skel_C08 {s : C05.Skel.Sk} {ss : C08.Sess} (h : Corr s ss) :
    C05.Skel.viInputMode .insert s = C08.insertMode ss := by
  unfold C05.Skel.viInputMode C05.Skel.viGuard C08.insertMode
  rw [h.vi, h.dg, h.sel, h.ro, h.op, h.mode, h.temp]
  cases ss.pending <;> cases ss.st.insert <;> cases ss.tempNav <;> rfl

/-- filters/app.py::vi_waiting_for_text_object_mode — `Ptk.C05.Skel.evalAtomSk ·
    .viWaitingForTextObjectMode` = `Ptk.C08.waiting` -/
theorem viWaiting_C05Skel_C08 {s : C05.Skel.Sk} {ss : C08.Sess} (h : Corr s ss) :
    C05.Skel.evalAtomSk s .viWaitingForTextObjectMode = C08.waiting ss := by
  simp [C05.Skel.evalAtomSk, C08.waiting, h.vi, h.op]

/-- filters/app.py::vi_navigation_mode — `Ptk.C05.viNavigationMode` (application level) =
    `Ptk.C05.Skel.viNavigationMode` (mode skeleton) -/
theorem viNavigationMode_C05_C05Skel (a : C05.App) (s : C05.Skel.Sk)
    (hvi : s.vi = a.viMode) (hop : s.op.isSome = a.vi.opPending) (hdg : s.dgWait = a.vi.waitingDigraph)
    (hsel : s.curSel.isSome = a.buf.sel.isSome) (hm : s.mode = a.vi.mode) (ht : s.tempNav = a.vi.tempNav)
    (hro : s.curRo = a.buf.readOnly) :
    C05.Skel.viNavigationMode s = C05.viNavigationMode a := by
  unfold C05.Skel.viNavigationMode C05.Skel.viGuard C05.viNavigationMode
  rw [hvi, hop, hdg, hsel, hm, ht, hro]

end Ptk.AgreeKey.Fix
