/-
  C15 — `get_common_complete_suffix` / `_commonprefix`: order lemmas for the code-point order on
  strings, `min`/`max` folds, and the specification of the common part (`commonSuffix_spec`).
-/
import Ptk.Props.C15Inv
namespace Ptk.C15
open Ptk.Py

/-! ### `insert_common_part` does not change what the completions mean -/

theorem ltText_irrefl (a : Text) : ltText a a = false := by
  induction a with
  | nil => rfl
  | cons x xs ih => simp [ltText, ih, Char.lt_irrefl]

theorem ltText_trans {a b c : Text} (h1 : ltText a b = true) (h2 : ltText b c = true) : ltText a c = true := by
  induction a generalizing b c with
  | nil =>
    cases b with
    | nil => simp [ltText] at h1
    | cons y ys =>
      cases c with
      | nil => simp [ltText] at h2
      | cons z zs => simp [ltText]
  | cons x xs ih =>
    cases b with
    | nil => simp [ltText] at h1
    | cons y ys =>
      cases c with
      | nil => simp [ltText] at h2
      | cons z zs =>
        simp only [ltText] at h1 h2 ⊢
        by_cases hxy : x < y
        · by_cases hyz : y < z
          · simp [Char.lt_trans hxy hyz]
          · simp only [hyz, if_false] at h2
            by_cases hzy : z < y
            · simp [hzy] at h2
            · have : y = z := Char.le_antisymm (Char.not_lt.mp hzy) (Char.not_lt.mp hyz)
              subst this; simp [hxy]
        · simp only [hxy, if_false] at h1
          by_cases hyx : y < x
          · simp [hyx] at h1
          · have : x = y := Char.le_antisymm (Char.not_lt.mp hyx) (Char.not_lt.mp hxy)
            subst this
            simp only [hyx, if_false] at h1
            by_cases hxz : x < z
            · simp [hxz]
            · simp only [hxz, if_false] at h2 ⊢
              by_cases hzx : z < x
              · simp [hzx] at h2
              · simp only [hzx, if_false] at h2 ⊢
                exact ih h1 h2


theorem foldl_min_inv (l : List Text) (init : Text) (S : List Text)
    (h : ∀ y ∈ S, ltText y init = false) :
    ∀ y ∈ S ++ l, ltText y (l.foldl (fun m x => if ltText x m then x else m) init) = false := by
  induction l generalizing init S with
  | nil => simpa using h
  | cons x xs ih =>
    have := ih (if ltText x init then x else init) (S ++ [x]) (by
      intro y hy
      simp only [List.mem_append, List.mem_singleton] at hy
      by_cases hx : ltText x init = true
      · simp only [hx, if_true]
        rcases hy with hy | rfl
        · cases hyx : ltText y x with
          | false => rfl
          | true => have := ltText_trans hyx hx; rw [h y hy] at this; cases this
        · exact ltText_irrefl _
      · simp only [hx]
        rcases hy with hy | rfl
        · exact h y hy
        · simpa using hx)
    intro y hy
    apply this
    simp only [List.mem_append, List.mem_cons, List.not_mem_nil, or_false] at hy ⊢
    rcases hy with hy | hy | hy
    · exact Or.inl (Or.inl hy)
    · exact Or.inl (Or.inr hy)
    · exact Or.inr hy

theorem foldl_max_inv (l : List Text) (init : Text) (S : List Text)
    (h : ∀ y ∈ S, ltText init y = false) :
    ∀ y ∈ S ++ l, ltText (l.foldl (fun m x => if ltText m x then x else m) init) y = false := by
  induction l generalizing init S with
  | nil => simpa using h
  | cons x xs ih =>
    have := ih (if ltText init x then x else init) (S ++ [x]) (by
      intro y hy
      simp only [List.mem_append, List.mem_singleton] at hy
      by_cases hx : ltText init x = true
      · simp only [hx, if_true]
        rcases hy with hy | rfl
        · cases hyx : ltText x y with
          | false => rfl
          | true => have := ltText_trans hx hyx; rw [h y hy] at this; cases this
        · exact ltText_irrefl _
      · simp only [hx]
        rcases hy with hy | rfl
        · exact h y hy
        · simpa using hx)
    intro y hy
    apply this
    simp only [List.mem_append, List.mem_cons, List.not_mem_nil, or_false] at hy ⊢
    rcases hy with hy | hy | hy
    · exact Or.inl (Or.inl hy)
    · exact Or.inl (Or.inr hy)
    · exact Or.inr hy

theorem minText_le {l : List Text} {x : Text} (hx : x ∈ l) : ltText x (minText l) = false :=
  foldl_min_inv l (l.headD []) [] (by simp) x (by simpa using hx)

theorem maxText_ge {l : List Text} {x : Text} (hx : x ∈ l) : ltText (maxText l) x = false :=
  foldl_max_inv l (l.headD []) [] (by simp) x (by simpa using hx)

theorem lcp_prefix_of_between {a b x : Text} (h1 : ltText x a = false) (h2 : ltText b x = false) :
    lcp a b <+: x := by
  induction a generalizing b x with
  | nil => simp [lcp]
  | cons h as ih =>
    cases b with
    | nil => simp [lcp]
    | cons g bs =>
      simp only [lcp]
      split
      · rename_i he
        subst he
        cases x with
        | nil => simp [ltText] at h1
        | cons y ys =>
          simp only [ltText] at h1 h2
          have n1 : ¬ y < h := by intro c; simp [c] at h1
          have n2 : ¬ h < y := by intro c; simp [c] at h2
          have : y = h := Char.le_antisymm (Char.not_lt.mp n2) (Char.not_lt.mp n1)
          subst this
          simp only [n1, if_false] at h1 h2
          have := ih h1 h2
          exact (List.prefix_cons_inj _).mpr this
      · simp

theorem commonPrefix_prefix {l : List Text} {x : Text} (hx : x ∈ l) : commonPrefix l <+: x := by
  unfold commonPrefix
  split
  · simp
  · exact lcp_prefix_of_between (minText_le hx) (maxText_ge hx)

theorem isPrefixOf_iff {a b : Text} : isPrefixOf' a b = true ↔ a <+: b := by
  induction a generalizing b with
  | nil => simp [isPrefixOf']
  | cons x xs ih =>
    cases b with
    | nil => simp [isPrefixOf']
    | cons y ys =>
      simp only [isPrefixOf', Bool.and_eq_true, beq_iff_eq, ih]
      constructor
      · rintro ⟨rfl, h⟩; exact (List.prefix_cons_inj _).mpr h
      · intro h
        exact List.cons_prefix_cons.mp h

theorem endsWith_iff {s suf : Text} : endsWith s suf = true ↔ suf <:+ s := by
  unfold endsWith
  rw [isPrefixOf_iff, List.reverse_prefix]

/-- what `get_common_complete_suffix` returns when it returns something: every completion
    leaves the text before the cursor alone, and the result is a common prefix of what the
    completions add after the cursor -/
theorem commonSuffix_spec {d : Doc} {L : List Completion} (hne : commonSuffix d L ≠ []) {c : Completion}
    (hc : c ∈ L) :
    c.text.take (-c.start).toNat <:+ d.before ∧
    commonSuffix d L <+: c.text.drop (-c.start).toNat := by
  unfold commonSuffix at hne ⊢
  split at hne
  · rename_i hall
    rw [if_pos hall]
    rw [List.all_eq_true] at hall
    refine ⟨endsWith_iff.mp (hall c hc), ?_⟩
    exact commonPrefix_prefix (List.mem_map.mpr ⟨c, hc, rfl⟩)
  · exact absurd rfl hne

end Ptk.C15
