/-
  C08 — theorems about Vi SESSIONS (`Ptk.Model.C08Session`): the ViState carried from one key
  handler to the next (`operator_func`, `operator_arg`, `last_character_find`, the named
  registers, the input mode, the temporary navigation mode) and `KeyProcessor.arg`, for EVERY
  sequence of keys.

    * `session_invariant`            — in every reachable state the cursor is inside the text and
                                       `operator_arg` is set only while an operator is pending
    * `text_object_clears_operator`  — after any text object (the motion may have failed) no
                                       operator, no operator count and no typed count are left
    * `escape_clears_everything`     — Escape: no operator, no counts, navigation mode
    * `unknown_key_keeps_operator`   — an unknown key keeps the pending operator and its count and
                                       drops the count typed after it
    * `command_refines_runKeys`      — from a quiet state the keys `[n] op [m] motion` do exactly
                                       what the one-command model `runKeys` does with the command's
                                       own counts (`2d3w` = 6 words) — nothing else is read
    * `future_depends_on_visible_state` — two histories that end with the same buffer, registers,
                                       last character find, mode and typed count have the same
                                       future: no count of an earlier operator can leak
    * `escape_then_command`, `session_yank_never_edits`, `session_failed_motion_noop`,
      `session_delete_exact`         — the one-command theorems lifted to arbitrary histories
    * `session_never_stuck`          — every key of the modelled key set is defined in every
                                       reachable state
    * `double_indent_frame`, `double_case_frame`, `double_key_state` — `N>>` `N<<` `guu` `gUU` `g~~`:
                                       only the lines [row, row+N) / exactly the cursor line change
-/
import Ptk.Props.C08
import Ptk.Model.C08Session
namespace Ptk.C08
open Ptk.Py
theorem normArg_idem (n : Nat) : normArg (normArg n) = normArg n := by
  unfold normArg; split <;> simp_all

theorem fixViCursor_le (t : Text) (c : Nat) : fixViCursor t c ≤ c := by
  unfold fixViCursor; simp only []; split <;> omega

/-- a cursor at the end of a non-empty line has a non-newline character before it -/
theorem lineBefore_ne_nil_char (d : Doc) (h : lineBefore d ≠ []) (hi : d.cur ≤ d.text.length) :
    ∃ x, d.cur ≥ 1 ∧ d.text[d.cur - 1]? = some x ∧ x ≠ '\n' := by
  unfold lineBefore Doc.before at h
  have h2 : (d.text.take d.cur).reverse.takeWhile notNl ≠ [] := by
    intro e; rw [e] at h; simp at h
  cases hr : (d.text.take d.cur).reverse with
  | nil => rw [hr] at h2; simp at h2
  | cons x xs =>
    rw [hr, List.takeWhile_cons] at h2
    have hx : notNl x = true := by
      by_cases hx : notNl x = true
      · exact hx
      · simp [hx] at h2
    have hlen : (d.text.take d.cur).length = d.cur := by simp; omega
    have hpos : d.cur ≥ 1 := by
      have := congrArg List.length hr
      simp at this; omega
    refine ⟨x, hpos, ?_, (notNl_iff x).1 hx⟩
    have hlast : (d.text.take d.cur).getLast? = some x := by
      rw [← List.head?_reverse, hr]; rfl
    rw [List.getLast?_eq_getElem?] at hlast
    rw [hlen, List.getElem?_take] at hlast
    split at hlast
    · exact hlast
    · omega

theorem fixViCursor_idem (t : Text) (c : Nat) (hc : c ≤ t.length) :
    fixViCursor t (fixViCursor t c) = fixViCursor t c := by
  by_cases hcond : ((currentChar { text := t, cur := c } = some '\n' ∨ currentChar { text := t, cur := c } = none) ∧
      (currentLine { text := t, cur := c }).length > 0)
  · have e1 : fixViCursor t c = c - 1 := by unfold fixViCursor; simp only []; rw [if_pos hcond]
    rw [e1]
    -- lineAfter is empty at the end of a line, so lineBefore is not
    have hla : lineAfter { text := t, cur := c } = [] := by
      unfold lineAfter Doc.after
      simp only []
      rcases hcond.1 with h | h
      · unfold currentChar at h
        simp only [] at h
        have : t.drop c = '\n' :: t.drop (c + 1) := by
          have hlt := (List.getElem?_eq_some_iff.1 h).1
          rw [List.drop_eq_getElem_cons hlt]
          congr 1
          exact (List.getElem?_eq_some_iff.1 h).2
        rw [this]; simp [notNl]
      · unfold currentChar at h
        simp only [] at h
        have : t.length ≤ c := by simpa using h
        rw [List.drop_eq_nil_of_le this]; rfl
    have hlb : lineBefore { text := t, cur := c } ≠ [] := by
      intro e
      have := hcond.2
      unfold currentLine at this
      rw [e, hla] at this
      simp at this
    obtain ⟨x, hpos, hx, hne⟩ := lineBefore_ne_nil_char { text := t, cur := c } hlb hc
    simp only [] at hx hpos
    unfold fixViCursor
    simp only []
    have : ¬ ((currentChar { text := t, cur := c - 1 } = some '\n' ∨ currentChar { text := t, cur := c - 1 } = none) ∧
        (currentLine { text := t, cur := c - 1 }).length > 0) := by
      intro ⟨h1, _⟩
      unfold currentChar at h1
      simp only [] at h1
      rw [hx] at h1
      rcases h1 with h1 | h1
      · simp at h1; exact hne h1
      · simp at h1
    rw [if_neg this]
  · have e1 : fixViCursor t c = c := by unfold fixViCursor; simp only []; rw [if_neg hcond]
    rw [e1, e1]

/-- the session invariant: cursor inside the text; `operator_arg` only while an operator is pending -/
def SInv (ss : Sess) : Prop :=
  ss.st.cur ≤ ss.st.text.length ∧ (ss.pending = none → ss.opArg = none)

theorem fixNav_fields (ss : Sess) :
    (fixNav ss).pending = ss.pending ∧ (fixNav ss).opArg = ss.opArg ∧ (fixNav ss).arg = ss.arg ∧
    (fixNav ss).tempNav = ss.tempNav ∧ (fixNav ss).lastFind = ss.lastFind ∧
    (fixNav ss).st.text = ss.st.text ∧ (fixNav ss).st.clip = ss.st.clip ∧
    (fixNav ss).st.regs = ss.st.regs ∧ (fixNav ss).st.insert = ss.st.insert ∧
    (fixNav ss).st.cur ≤ ss.st.cur := by
  unfold fixNav
  split
  · exact ⟨rfl, rfl, rfl, rfl, rfl, rfl, rfl, rfl, rfl, fixViCursor_le _ _⟩
  · exact ⟨rfl, rfl, rfl, rfl, rfl, rfl, rfl, rfl, rfl, Nat.le_refl _⟩

theorem afterHandler_fields (w : Bool) (ss : Sess) :
    (afterHandler w ss).pending = ss.pending ∧ (afterHandler w ss).opArg = ss.opArg ∧
    (afterHandler w ss).arg = ss.arg ∧ (afterHandler w ss).lastFind = ss.lastFind ∧
    (afterHandler w ss).st.text = ss.st.text ∧ (afterHandler w ss).st.clip = ss.st.clip ∧
    (afterHandler w ss).st.regs = ss.st.regs ∧ (afterHandler w ss).st.insert = ss.st.insert ∧
    (afterHandler w ss).st.cur ≤ ss.st.cur ∧
    ((afterHandler w ss).tempNav = ss.tempNav ∨ (afterHandler w ss).tempNav = false) := by
  obtain ⟨f1, f2, f3, f4, f5, f6, f7, f8, f9, f10⟩ := fixNav_fields ss
  unfold afterHandler
  simp only []
  split
  · exact ⟨f1, f2, f3, f5, f6, f7, f8, f9, f10, Or.inr rfl⟩
  · exact ⟨f1, f2, f3, f5, f6, f7, f8, f9, f10, Or.inl f4⟩

theorem afterHandler_inv (w : Bool) (ss : Sess) (h : SInv ss) : SInv (afterHandler w ss) := by
  obtain ⟨f1, f2, _, _, f5, _, _, _, f9, _⟩ := afterHandler_fields w ss
  unfold SInv at *
  rw [f1, f2, f5]
  exact ⟨by omega, h.2⟩

theorem isKeyMotion_not_raw (m : Motion) (h : isKeyMotion m = true) : ∀ o, m ≠ .raw o := by
  intro o e; subst e; simp [isKeyMotion] at h

theorem resolve_not_raw (lf : Option (Char × Bool)) (ap : Bool) (m : Motion) (h : ∀ o, m ≠ .raw o) :
    ∀ o, resolve lf ap m ≠ .raw o := by
  intro o
  cases m <;> simp [resolve]
  exact fun e => h o (by rw [e])

theorem insertChar_inv (s : Sess) (c : Char) (h : SInv s) :
    SInv (insertChar s c) ∧ (insertChar s c).pending = s.pending ∧ (insertChar s c).opArg = s.opArg ∧
      (insertChar s c).tempNav = s.tempNav ∧ (insertChar s c).st.insert = s.st.insert := by
  unfold SInv insertChar at *
  simp
  refine ⟨?_, h.2⟩
  omega

theorem foldl_insertChar_inv (t : Text) (s : Sess) (h : SInv s) :
    SInv (t.foldl insertChar s) ∧ (t.foldl insertChar s).pending = s.pending := by
  induction t generalizing s with
  | nil => exact ⟨h, rfl⟩
  | cons c cs ih =>
    simp only [List.foldl_cons]
    have := insertChar_inv s c h
    have h2 := ih _ this.1
    exact ⟨h2.1, by rw [h2.2, this.2.1]⟩

theorem stepMotion_inv (env : Env) (ss ss' : Sess) (m : Motion) (h : SInv ss)
    (hs : stepMotion env ss m = some ss') : SInv ss' := by
  unfold stepMotion at hs
  simp only [] at hs
  split at hs
  · cases hs
  · rename_i hk
    have hk' : isKeyMotion m = true := by simpa using hk
    split at hs
    · -- an operator is pending
      rename_i op hp
      obtain ⟨s1, h1, h2⟩ := Option.map_eq_some_iff.1 hs
      subst h2
      apply afterHandler_inv
      unfold hApply at h1
      simp only [] at h1
      obtain ⟨st', hst, hs1⟩ := Option.map_eq_some_iff.1 h1
      subst hs1
      have hr := textObject_inRange env.isSpace env.reSpace ss.st.doc h.1 (combineArgs ss.opArg ss.arg)
        (resolve ss.lastFind (ss.opArg.isSome || ss.arg.isSome) m)
        (resolve_not_raw _ _ m (isKeyMotion_not_raw m hk'))
      obtain ⟨s'', hs'', hb⟩ := applyOp_ok env ss.st op _ (combineArgs ss.opArg ss.arg) h.1 hr
      rw [hs''] at hst
      cases hst
      exact ⟨hb, fun _ => rfl⟩
    · split at hs
      · cases hs
        apply afterHandler_inv
        unfold hMove SInv
        simp only []
        exact ⟨clampCur_le _ _, h.2⟩
      · cases hs

theorem runDouble_cur_le (env : Env) (s : St) (k : Double) (count : Nat) :
    (runDouble env s k count).cur ≤ (runDouble env s k count).text.length := by
  cases k <;> simp only [runDouble]
  · exact clampCur_le _ _
  · exact clampCur_le _ _
  all_goals (unfold transformCurrentLine; simp only []; exact Nat.min_le_right _ _)

/-- one key preserves the invariant -/
theorem step_inv (env : Env) (ss ss' : Sess) (k : Key) (h : SInv ss) (hs : step env ss k = some ss') :
    SInv ss' := by
  cases k with
  | digit d =>
    simp only [step] at hs
    split at hs
    · exact stepMotion_inv env ss ss' .zero h hs
    · split at hs
      · cases hs
        apply afterHandler_inv
        exact ⟨h.1, h.2⟩
      · cases hs
  | op o =>
    simp only [step] at hs
    split at hs
    · split at hs
      · cases hs
      · cases hs; apply afterHandler_inv; exact ⟨h.1, h.2⟩
    · split at hs
      · cases hs
        apply afterHandler_inv
        unfold hOperator SInv
        simp only []
        exact ⟨h.1, fun e => by cases e⟩
      · cases hs
  | motion m => exact stepMotion_inv env ss ss' m h hs
  | escape =>
    simp only [step] at hs
    cases hs
    apply afterHandler_inv
    unfold hEscape SInv
    simp only []
    refine ⟨?_, by simp⟩
    have := h.1
    split <;> omega
  | ctrlO =>
    simp only [step] at hs
    split at hs <;> (cases hs; apply afterHandler_inv; exact ⟨h.1, h.2⟩)
  | unbound =>
    simp only [step] at hs
    split at hs
    · cases hs; apply afterHandler_inv; exact ⟨h.1, h.2⟩
    · split at hs
      · cases hs; exact h
      · cases hs
  | typed t =>
    simp only [step] at hs
    split at hs
    · cases hs; exact (foldl_insertChar_inv t ss h).1
    · cases hs
  | double k =>
    simp only [step] at hs
    split at hs
    · cases hs; apply afterHandler_inv; exact ⟨h.1, h.2⟩
    · split at hs
      · cases hs
        apply afterHandler_inv
        exact ⟨runDouble_cur_le env _ k _, h.2⟩
      · cases hs

/-- **Every reachable state satisfies the invariant**: whatever keys were typed, the cursor is
    inside the text and a count of an operator (`operator_arg`) exists only while that operator
    is still waiting for its text object. -/
theorem session_invariant (env : Env) (ss ss' : Sess) (ks : List Key) (h : SInv ss)
    (hr : runSession env ss ks = some ss') : SInv ss' := by
  induction ks generalizing ss with
  | nil => simp [runSession] at hr; subst hr; exact h
  | cons k ks ih =>
    simp only [runSession] at hr
    split at hr
    · rename_i s1 h1
      exact ih s1 (step_inv env ss s1 k h h1) hr
    · cases hr

theorem afterHandler_tempNav (w : Bool) (s : Sess) :
    (afterHandler w s).tempNav = if w && s.pending.isNone && s.arg.isNone then false else s.tempNav := by
  obtain ⟨f1, _, f3, f4, _⟩ := fixNav_fields s
  unfold afterHandler
  simp only [f1, f3]
  split
  · rfl
  · exact f4

/-- **After any text object typed while an operator is pending** — whether the motion succeeded,
    failed or spanned nothing — no operator is pending any more and BOTH counts (the operator's
    and the one typed before the text object) are gone. -/
theorem text_object_clears_operator (env : Env) (ss ss' : Sess) (op : Op) (m : Motion)
    (hp : ss.pending = some op) (hs : step env ss (.motion m) = some ss') :
    ss'.pending = none ∧ ss'.opArg = none ∧ ss'.arg = none := by
  simp only [step, stepMotion] at hs
  split at hs
  · cases hs
  · rw [hp] at hs
    simp only [] at hs
    obtain ⟨s1, h1, h2⟩ := Option.map_eq_some_iff.1 hs
    subst h2
    obtain ⟨f1, f2, f3, _⟩ := afterHandler_fields ss.tempNav s1
    unfold hApply at h1
    simp only [] at h1
    obtain ⟨st', _, hs1⟩ := Option.map_eq_some_iff.1 h1
    subst hs1
    rw [f1, f2, f3]
    exact ⟨rfl, rfl, rfl⟩

/-- the same for the key `0` typed without a count (it is the text object `0`, not a digit) -/
theorem zero_key_clears_operator (env : Env) (ss ss' : Sess) (op : Op)
    (hp : ss.pending = some op) (ha : ss.arg = none) (hs : step env ss (.digit 0) = some ss') :
    ss'.pending = none ∧ ss'.opArg = none ∧ ss'.arg = none := by
  have : step env ss (.digit 0) = step env ss (.motion .zero) := by
    simp [step, ha]
  rw [this] at hs
  exact text_object_clears_operator env ss ss' op .zero hp hs

/-- **Escape clears everything**: from ANY state (operator pending, counts typed, insert mode,
    temporary navigation mode) Escape leads to plain navigation mode with no operator and no
    count of any kind. Text, clipboard and registers are untouched. -/
theorem escape_clears_everything (env : Env) (ss : Sess) :
    ∃ ss', step env ss .escape = some ss' ∧
      ss'.pending = none ∧ ss'.opArg = none ∧ ss'.arg = none ∧ ss'.st.insert = false ∧
      ss'.tempNav = false ∧ ss'.st.text = ss.st.text ∧ ss'.st.clip = ss.st.clip ∧
      ss'.st.regs = ss.st.regs ∧ ss'.lastFind = ss.lastFind := by
  refine ⟨_, rfl, ?_⟩
  generalize hE : hEscape { ss with arg := none } = s1
  have g1 : s1.pending = none := by subst hE; rfl
  have g2 : s1.opArg = none := by subst hE; rfl
  have g3 : s1.arg = none := by subst hE; rfl
  have g4 : s1.st.insert = false := by subst hE; rfl
  have g5 : s1.tempNav = ss.tempNav := by subst hE; rfl
  have g6 : s1.st.text = ss.st.text ∧ s1.st.clip = ss.st.clip ∧ s1.st.regs = ss.st.regs ∧
      s1.lastFind = ss.lastFind := by subst hE; exact ⟨rfl, rfl, rfl, rfl⟩
  obtain ⟨f1, f2, f3, f4, f5, f6, f7, f8, _, _⟩ := afterHandler_fields ss.tempNav s1
  rw [f1, f2, f3, f4, f5, f6, f7, f8, afterHandler_tempNav, g1, g2, g3, g4, g5]
  refine ⟨rfl, rfl, rfl, rfl, ?_, g6.1, g6.2.1, g6.2.2.1, g6.2.2.2⟩
  cases ss.tempNav <;> rfl

/-- **An unknown key while an operator is pending** (`_unknown_text_object`): the operator and
    its own count stay, the count typed after the operator is dropped, nothing else changes. -/
theorem unknown_key_keeps_operator (env : Env) (ss : Sess) (op : Op) (hp : ss.pending = some op) :
    step env ss .unbound = some { ss with arg := none } := by
  have hw : waiting ss = true := by simp [waiting, hp]
  simp only [step, hw, if_true]
  congr 1
  unfold afterHandler fixNav navMode
  simp [hp]

/-- a quiet state: plain navigation mode, no operator pending, no count of any kind -/
def Quiet (ss : Sess) : Prop :=
  ss.pending = none ∧ ss.opArg = none ∧ ss.arg = none ∧ ss.st.insert = false ∧ ss.tempNav = false

/-- `append_to_arg_count` for a string of digits -/
def appendDigits (a : Option Nat) (ds : List (Fin 10)) : Option Nat :=
  ds.foldl (fun acc d => some (match acc with | none => d.val | some n => n * 10 + d.val)) a

/-- a typed count has no leading zero (a `0` typed first is the text object `0`) -/
def wfDigits : List (Fin 10) → Prop
  | [] => True
  | d :: _ => d.val ≠ 0

theorem appendDigits_some (n : Nat) (ds : List (Fin 10)) :
    appendDigits (some n) ds = some (ds.foldl (fun n x => n * 10 + x.val) n) := by
  induction ds generalizing n with
  | nil => rfl
  | cons d ds ih => simp only [appendDigits, List.foldl_cons]; exact ih _

theorem appendDigits_none (ds : List (Fin 10)) : appendDigits none ds = argOf ds := by
  cases ds with
  | nil => rfl
  | cons d ds => simp only [appendDigits, List.foldl_cons, argOf]; exact appendDigits_some _ _

theorem appendDigits_isSome (a : Option Nat) (ds : List (Fin 10)) (h : ds ≠ []) :
    (appendDigits a ds).isSome = true := by
  cases ds with
  | nil => exact absurd rfl h
  | cons d ds => simp only [appendDigits, List.foldl_cons]; rw [← appendDigits, appendDigits_some]; rfl

theorem argOf_isSome (ds : List (Fin 10)) : (argOf ds).isSome = !ds.isEmpty := by
  cases ds <;> rfl

/-- digits typed in plain navigation mode: the count grows, the cursor gets the navigation fix -/
theorem digits_nav (env : Env) (ds : List (Fin 10)) (ss : Sess) (rest : List Key)
    (hp : ss.pending = none) (hins : ss.st.insert = false) (ht : ss.tempNav = false)
    (hi : ss.st.cur ≤ ss.st.text.length) (hwf : ss.arg = none → wfDigits ds) :
    runSession env ss (ds.map Key.digit ++ rest) =
      runSession env { ss with arg := appendDigits ss.arg ds,
                               st := if ds = [] then ss.st
                                     else { ss.st with cur := fixViCursor ss.st.text ss.st.cur } } rest := by
  induction ds generalizing ss with
  | nil => simp [appendDigits]
  | cons d ds ih =>
    simp only [List.map_cons, List.cons_append, runSession]
    have hnz : ¬ (d.val = 0 ∧ ss.arg = none) := by
      intro ⟨h0, ha⟩
      exact (hwf ha) h0
    have hnav : navMode ss = true := by simp [navMode, hp, hins]
    have hstep : step env ss (.digit d) = some
        { ss with arg := some (match ss.arg with | none => d.val | some n => n * 10 + d.val),
                  st := { ss.st with cur := fixViCursor ss.st.text ss.st.cur } } := by
      simp only [step, if_neg hnz, hnav, Bool.true_or, if_true]
      congr 1
      unfold afterHandler fixNav navMode hDigit
      simp [hp, hins, ht]
      cases ss.arg <;> rfl
    rw [hstep]
    simp only []
    obtain ⟨s1, hs1⟩ : ∃ s1 : Sess, s1 =
        { ss with arg := some (match ss.arg with | none => d.val | some n => n * 10 + d.val),
                  st := { ss.st with cur := fixViCursor ss.st.text ss.st.cur } } := ⟨_, rfl⟩
    rw [← hs1]
    have g1 : s1.pending = none := by subst hs1; exact hp
    have g2 : s1.st.insert = false := by subst hs1; exact hins
    have g3 : s1.tempNav = false := by subst hs1; exact ht
    have g4 : s1.st.cur ≤ s1.st.text.length := by
      subst hs1; exact Nat.le_trans (fixViCursor_le _ _) hi
    have g5 : s1.arg = none → wfDigits ds := by subst hs1; intro h; cases h
    rw [ih s1 g1 g2 g3 g4 g5]
    subst hs1
    congr 1
    simp only [appendDigits, List.foldl_cons]
    congr 1
    rw [fixViCursor_idem _ _ hi]
    split <;> simp

/-- digits typed while an operator is pending: only the typed count changes -/
theorem digits_waiting (env : Env) (ds : List (Fin 10)) (ss : Sess) (rest : List Key) (op : Op)
    (hp : ss.pending = some op) (hwf : ss.arg = none → wfDigits ds) :
    runSession env ss (ds.map Key.digit ++ rest) =
      runSession env { ss with arg := appendDigits ss.arg ds } rest := by
  induction ds generalizing ss with
  | nil => simp [appendDigits]
  | cons d ds ih =>
    simp only [List.map_cons, List.cons_append, runSession]
    have hnz : ¬ (d.val = 0 ∧ ss.arg = none) := by
      intro ⟨h0, ha⟩
      exact (hwf ha) h0
    have hw : waiting ss = true := by simp [waiting, hp]
    have hstep : step env ss (.digit d) = some
        { ss with arg := some (match ss.arg with | none => d.val | some n => n * 10 + d.val) } := by
      simp only [step, if_neg hnz, hw, Bool.or_true, if_true]
      congr 1
      unfold afterHandler fixNav navMode hDigit
      simp [hp]
      cases ss.arg <;> rfl
    rw [hstep]
    simp only []
    obtain ⟨s1, hs1⟩ : ∃ s1 : Sess, s1 =
        { ss with arg := some (match ss.arg with | none => d.val | some n => n * 10 + d.val) } := ⟨_, rfl⟩
    rw [← hs1]
    have g1 : s1.pending = some op := by subst hs1; exact hp
    have g5 : s1.arg = none → wfDigits ds := by subst hs1; intro h; cases h
    rw [ih s1 g1 g5]
    subst hs1
    simp only [appendDigits, List.foldl_cons]

theorem combineArgs_normArg (a b : Option Nat) :
    combineArgs (a.map normArg) b = combineArgs a b := by
  cases a with
  | none => rfl
  | some n => simp only [combineArgs, Option.map_some, normArg_idem]

/-- **Refinement**: typed into a quiet state of ANY session, the keys
    `[count] <operator> [count] <text object>` do exactly what the one-command model `runKeys`
    does on the buffer with the command's OWN counts, and leave a quiet state (or insert mode
    after `c`) behind.  Nothing but the buffer state and `last_character_find` is read: there is no
    way for an earlier command to influence the span. -/
theorem command_refines_runKeys (env : Env) (ss : Sess) (hq : Quiet ss)
    (hi : ss.st.cur ≤ ss.st.text.length) (n1 n2 : List (Fin 10)) (h1 : wfDigits n1) (h2 : wfDigits n2)
    (o : Op) (m : Motion) (hk : isKeyMotion m = true) :
    runSession env ss (cmdKeys n1 o n2 m) =
      (runKeys env ss.st (argOf n1) o (argOf n2)
          (resolve ss.lastFind ((argOf n1).isSome || (argOf n2).isSome) m)).map
        fun st' => { st := st', lastFind := newLastFind ss.lastFind m } := by
  obtain ⟨q1, _, q3, q4, q5⟩ := hq
  unfold cmdKeys
  rw [List.append_assoc, List.append_assoc]
  rw [digits_nav env n1 ss _ q1 q4 q5 hi (fun _ => h1)]
  rw [q3, appendDigits_none]
  -- the operator key
  obtain ⟨s1, hs1⟩ : ∃ s1 : Sess, s1 =
      { ss with st := (if n1 = [] then ss.st else { ss.st with cur := fixViCursor ss.st.text ss.st.cur }),
                arg := (argOf n1) } := ⟨_, rfl⟩
  rw [← hs1]
  have g1 : s1.pending = none := by subst hs1; exact q1
  have g2 : s1.st.insert = false := by subst hs1; simp only []; split <;> simp [q4]
  have g3 : s1.tempNav = false := by subst hs1; exact q5
  have hnav : navMode s1 = true := by simp [navMode, g1, g2]
  have hw : waiting s1 = false := by simp [waiting, g1]
  simp only [List.cons_append, List.nil_append, runSession]
  have hop : step env s1 (.op o) = some
      { s1 with arg := none, pending := some o, opArg := (argOf n1).map normArg } := by
    simp only [step, hw, hnav, if_true, Bool.false_eq_true, if_false]
    congr 1
    unfold afterHandler fixNav navMode hOperator
    subst hs1
    simp [q5]
    cases argOf n1 <;> simp [evArg]
  rw [hop]
  simp only []
  rw [digits_waiting env n2 _ _ o rfl (fun _ => h2)]
  simp only [appendDigits_none, runSession]
  -- the text object
  simp only [step, stepMotion, hk, Bool.not_true, Bool.false_eq_true, if_false, hApply, g3,
    combineArgs_normArg, Option.isSome_map]
  unfold runKeys run
  simp only [Option.map_map]
  have hst : s1.st = (if (argOf n1).isSome = true then ss.st.fix else ss.st) := by
    subst hs1
    simp only [argOf_isSome]
    cases n1 with
    | nil => simp
    | cons d ds => simp [St.fix, q4]
  have hdoc : s1.lastFind = ss.lastFind := by subst hs1; rfl
  rw [hst, hdoc]
  cases happ : applyOp env (if (argOf n1).isSome = true then ss.st.fix else ss.st) o
      (textObject env.isSpace env.reSpace (if (argOf n1).isSome = true then ss.st.fix else ss.st).doc
        (combineArgs (argOf n1) (argOf n2))
        (resolve ss.lastFind ((argOf n1).isSome || (argOf n2).isSome) m))
      (combineArgs (argOf n1) (argOf n2)) with
  | none => simp
  | some st' =>
    simp only [Option.map_some, Function.comp]
    congr 1
    unfold afterHandler fixNav navMode St.fix
    subst hs1
    simp only []
    cases st'.insert <;> simp

/-- **History independence**: two key histories (from any two states satisfying the invariant)
    that end with no operator pending and with the same buffer / registers / mode (`st`), last
    character find, temporary-navigation flag and typed count have exactly the same future for
    every further key sequence.  In particular the count of an EARLIER operator (`operator_arg`)
    is not part of what the future depends on. -/
theorem future_depends_on_visible_state (env : Env) (s01 s02 ss1 ss2 : Sess) (h1 h2 : List Key)
    (i1 : SInv s01) (i2 : SInv s02)
    (r1 : runSession env s01 h1 = some ss1) (r2 : runSession env s02 h2 = some ss2)
    (p1 : ss1.pending = none) (p2 : ss2.pending = none)
    (est : ss1.st = ss2.st) (elf : ss1.lastFind = ss2.lastFind) (etn : ss1.tempNav = ss2.tempNav)
    (earg : ss1.arg = ss2.arg) (future : List Key) :
    runSession env ss1 future = runSession env ss2 future := by
  have a1 := (session_invariant env s01 ss1 h1 i1 r1).2 p1
  have a2 := (session_invariant env s02 ss2 h2 i2 r2).2 p2
  have : ss1 = ss2 := by
    cases ss1; cases ss2
    simp only [] at *
    subst est elf etn earg p1 p2 a1 a2
    rfl
  rw [this]

/-- Escape, then a command: whatever was going on before (operator pending, counts typed, insert
    or temporary navigation mode), the command acts as the one-command model says, on the buffer
    Escape left. -/
theorem escape_then_command (env : Env) (ss : Sess) (hinv : SInv ss)
    (n1 n2 : List (Fin 10)) (h1 : wfDigits n1) (h2 : wfDigits n2) (o : Op) (m : Motion)
    (hk : isKeyMotion m = true) :
    ∃ ss', step env ss .escape = some ss' ∧ ss'.st.text = ss.st.text ∧
      ss'.st.clip = ss.st.clip ∧ ss'.st.regs = ss.st.regs ∧
      runSession env ss (.escape :: cmdKeys n1 o n2 m) =
        (runKeys env ss'.st (argOf n1) o (argOf n2)
            (resolve ss.lastFind ((argOf n1).isSome || (argOf n2).isSome) m)).map
          fun st' => { st := st', lastFind := newLastFind ss.lastFind m } := by
  obtain ⟨ss', hs, e1, e2, e3, e4, e5, e6, e7, e8, e9⟩ := escape_clears_everything env ss
  have hinv' := step_inv env ss ss' .escape hinv hs
  refine ⟨ss', hs, e6, e7, e8, ?_⟩
  simp only [runSession, hs]
  rw [command_refines_runKeys env ss' ⟨e1, e2, e3, e4, e5⟩ hinv'.1 n1 n2 h1 h2 o m hk, e9]

/-- yank inside any session never edits -/
theorem session_yank_never_edits (env : Env) (ss ss' : Sess) (hq : Quiet ss)
    (hi : ss.st.cur ≤ ss.st.text.length) (n1 n2 : List (Fin 10)) (h1 : wfDigits n1) (h2 : wfDigits n2)
    (reg : Option Char) (m : Motion) (hk : isKeyMotion m = true)
    (hr : runSession env ss (cmdKeys n1 (.yank reg) n2 m) = some ss') :
    ss'.st.text = ss.st.text ∧ ss'.pending = none ∧ ss'.opArg = none ∧ ss'.arg = none := by
  rw [command_refines_runKeys env ss hq hi n1 n2 h1 h2 _ m hk] at hr
  obtain ⟨st', hst, hs⟩ := Option.map_eq_some_iff.1 hr
  subst hs
  exact ⟨runKeys_yank_never_edits env ss.st st' _ _ reg _ hst, rfl, rfl, rfl⟩

/-- a failing motion inside any session: text, clipboard and registers are untouched (whatever
    the operator), and the operator and all counts are gone -/
theorem session_failed_motion_noop (env : Env) (ss ss' : Sess) (hq : Quiet ss)
    (hi : ss.st.cur ≤ ss.st.text.length) (n1 n2 : List (Fin 10)) (h1 : wfDigits n1) (h2 : wfDigits n2)
    (o : Op) (m : Motion) (hk : isKeyMotion m = true)
    (hf : textObject env.isSpace env.reSpace (if (argOf n1).isSome = true then ss.st.fix else ss.st).doc
        (combineArgs (argOf n1) (argOf n2))
        (resolve ss.lastFind ((argOf n1).isSome || (argOf n2).isSome) m) = failed)
    (hr : runSession env ss (cmdKeys n1 o n2 m) = some ss') :
    ss'.st.text = ss.st.text ∧ ss'.st.clip = ss.st.clip ∧ ss'.st.regs = ss.st.regs ∧
      ss'.pending = none ∧ ss'.opArg = none ∧ ss'.arg = none := by
  rw [command_refines_runKeys env ss hq hi n1 n2 h1 h2 _ m hk] at hr
  obtain ⟨st', hst, hs⟩ := Option.map_eq_some_iff.1 hr
  subst hs
  unfold runKeys at hst
  obtain ⟨s1, hrun, hfix⟩ := Option.map_eq_some_iff.1 hst
  subst hfix
  have := failing_motion_noop env _ s1 _ _ o _ hf hrun
  have t0 : (if (argOf n1).isSome = true then ss.st.fix else ss.st).text = ss.st.text ∧
      (if (argOf n1).isSome = true then ss.st.fix else ss.st).clip = ss.st.clip ∧
      (if (argOf n1).isSome = true then ss.st.fix else ss.st).regs = ss.st.regs := by
    split
    · unfold St.fix; split <;> exact ⟨rfl, rfl, rfl⟩
    · exact ⟨rfl, rfl, rfl⟩
  have e1 : s1.fix.text = s1.text ∧ s1.fix.clip = s1.clip ∧ s1.fix.regs = s1.regs := by
    unfold St.fix; split <;> exact ⟨rfl, rfl, rfl⟩
  refine ⟨?_, ?_, ?_, rfl, rfl, rfl⟩
  · simp only []; rw [e1.1, this.1, t0.1]
  · simp only []; rw [e1.2.1, this.2.2.1, t0.2.1]
  · simp only []; rw [e1.2.2, this.2.2.2, t0.2.2]

/-- `d<motion>` inside any session, for every modelled motion and the command's own counts:
    one contiguous piece is removed at the new cursor (putting it back restores the text), the
    registers are untouched and the clipboard holds exactly that piece (linewise: without its final
    newline) — the statement of `delete_any_motion`, now for a command typed after ANY history -/
theorem session_delete_exact (env : Env) (ss : Sess) (hq : Quiet ss)
    (hi : ss.st.cur ≤ ss.st.text.length) (n1 n2 : List (Fin 10)) (h1 : wfDigits n1) (h2 : wfDigits n2)
    (m : Motion) (hk : isKeyMotion m = true) :
    ∃ ss' removed pos, runSession env ss (cmdKeys n1 (.delete none) n2 m) = some ss' ∧
      ss'.pending = none ∧ ss'.opArg = none ∧ ss'.arg = none ∧
      ss.st.text = ss'.st.text.take pos ++ removed ++ ss'.st.text.drop pos ∧
      ss'.st.regs = ss.st.regs ∧
      ((removed = [] ∧ ss'.st.text = ss.st.text ∧ ss'.st.clip = ss.st.clip) ∨
       (removed ≠ [] ∧ ss'.st.clip = { text := removed, lines := false }) ∨
       (ss'.st.clip.lines = true ∧ ∃ nl : Text, (nl = [] ∨ nl = ['\n']) ∧ ss'.st.clip.text ++ nl = removed)) := by
  rw [command_refines_runKeys env ss hq hi n1 n2 h1 h2 _ m hk]
  unfold runKeys
  generalize hs0 : (if (argOf n1).isSome = true then ss.st.fix else ss.st) = s0
  have t0 : s0.text = ss.st.text ∧ s0.clip = ss.st.clip ∧ s0.regs = ss.st.regs ∧ s0.cur ≤ s0.text.length := by
    subst hs0
    split
    · unfold St.fix; split
      · exact ⟨rfl, rfl, rfl, hi⟩
      · exact ⟨rfl, rfl, rfl, Nat.le_trans (fixViCursor_le _ _) hi⟩
    · exact ⟨rfl, rfl, rfl, hi⟩
  obtain ⟨s1, removed, hrun, hrec, hregs, hclip⟩ := delete_any_motion env s0 (argOf n1) (argOf n2)
    (resolve ss.lastFind ((argOf n1).isSome || (argOf n2).isSome) m) t0.2.2.2
    (resolve_not_raw _ _ m (isKeyMotion_not_raw m hk))
  rw [hrun]
  refine ⟨_, removed, s1.cur, rfl, rfl, rfl, rfl, ?_, ?_, ?_⟩
  · simp only []
    have : s1.fix.text = s1.text := by unfold St.fix; split <;> rfl
    rw [this, ← t0.1]; exact hrec
  · simp only []
    have : s1.fix.regs = s1.regs := by unfold St.fix; split <;> rfl
    rw [this, hregs, t0.2.2.1]
  · simp only []
    have e1 : s1.fix.text = s1.text := by unfold St.fix; split <;> rfl
    have e2 : s1.fix.clip = s1.clip := by unfold St.fix; split <;> rfl
    rw [e1, e2, ← t0.1, ← t0.2.1]
    exact hclip


/-- the keys the model defines in a state (everything else means something the model does not
    cover there: `iw` without operator is `i` + `w`, text typed in navigation mode, …) -/
def admissible (ss : Sess) : Key → Bool
  | .digit _ => navMode ss || waiting ss
  | .op o => if waiting ss then o.reg.isNone else navMode ss
  | .motion m => isKeyMotion m && (waiting ss || (navMode ss && hasMoveHandler m))
  | .escape => true
  | .ctrlO => true
  | .unbound => waiting ss || navMode ss
  | .typed _ => insertMode ss
  | .double _ => waiting ss || navMode ss

theorem stepMotion_isSome (env : Env) (ss : Sess) (m : Motion) (h : SInv ss) :
    (stepMotion env ss m).isSome = (isKeyMotion m && (waiting ss || (navMode ss && hasMoveHandler m))) := by
  unfold stepMotion
  simp only []
  cases hk : isKeyMotion m
  · simp
  · simp only [Bool.not_true, Bool.false_eq_true, if_false, Bool.true_and]
    cases hp : ss.pending with
    | none =>
      simp only [waiting, hp, Option.isSome_none, Bool.false_or]
      split <;> simp_all
    | some op =>
      simp only [waiting, hp, Option.isSome_some, Bool.true_or, Option.isSome_map]
      unfold hApply
      simp only [Option.isSome_map]
      have hr := textObject_inRange env.isSpace env.reSpace ss.st.doc h.1 (combineArgs ss.opArg ss.arg)
        (resolve ss.lastFind (ss.opArg.isSome || ss.arg.isSome) m)
        (resolve_not_raw _ _ m (isKeyMotion_not_raw m hk))
      obtain ⟨s'', hs'', _⟩ := applyOp_ok env ss.st op _ (combineArgs ss.opArg ss.arg) h.1 hr
      rw [hs'']; rfl

/-- **The model is never stuck inside its key set**: in every state satisfying the invariant
    (hence in every reachable state) `step` is defined exactly on the admissible keys; in
    particular no operator application ever leaves the model's domain. -/
theorem session_never_stuck (env : Env) (ss : Sess) (k : Key) (h : SInv ss) :
    (step env ss k).isSome = admissible ss k := by
  cases k with
  | digit d =>
    simp only [step, admissible]
    split
    · rw [stepMotion_isSome env ss .zero h]
      simp [isKeyMotion, hasMoveHandler, Bool.or_comm]
    · split <;> simp_all
  | op o =>
    simp only [step, admissible]
    split
    · split <;> simp_all
    · split <;> simp_all
  | motion m => simp only [step, admissible]; exact stepMotion_isSome env ss m h
  | escape => rfl
  | ctrlO => simp only [step, admissible]; split <;> rfl
  | unbound =>
    simp only [step, admissible]
    split
    · simp_all
    · split <;> simp_all
  | typed t => simp only [step, admissible]; split <;> simp_all
  | double k =>
    simp only [step, admissible]
    split
    · simp_all
    · split <;> simp_all

/-! ### the doubled forms `>>` `<<` `guu` `gUU` `g~~` -/

/-- `N>>` / `N<<`: clipboard and registers untouched, the number of lines is kept and no line
    outside `[row, row + N)` changes -/
theorem double_indent_frame (env : Env) (s : St) (count : Nat) (un : Bool) :
    let s' := runDouble env s (if un then .unindent else .indent) count
    s'.clip = s.clip ∧ s'.regs = s.regs ∧ s'.insert = s.insert ∧
    (lines s'.text).length = (lines s.text).length ∧
    ∀ i : Nat, (i < s.doc.row ∨ s.doc.row + count ≤ i) → (lines s'.text)[i]? = (lines s.text)[i]? := by
  intro s'
  cases un with
  | true =>
    have hf : ∀ l : Text, '\n' ∉ l →
        '\n' ∉ (if isPrefixOf' (repeatText indentUnit 1) l then l.drop (repeatText indentUnit 1).length
                 else l.dropWhile env.isSpace) := by
      intro l hl
      split
      · exact fun hm => hl (List.mem_of_mem_drop hm)
      · exact fun hm => hl ((List.dropWhile_sublist env.isSpace).subset hm)
    obtain ⟨e1, e2⟩ := transformLines_frame _ s.text s.doc.row (s.doc.row + count) hf
    exact ⟨rfl, rfl, rfl, e1, fun i hi => e2 i hi⟩
  | false =>
    have hf : ∀ l : Text, '\n' ∉ l → '\n' ∉ (repeatText indentUnit 1 ++ l) := by
      intro l hl hm
      simp at hm
      rcases hm with hm | hm
      · exact repeat_no_nl 1 hm
      · exact hl hm
    obtain ⟨e1, e2⟩ := transformLines_frame _ s.text s.doc.row (s.doc.row + count) hf
    exact ⟨rfl, rfl, rfl, e1, fun i hi => e2 i hi⟩

/-- `guu` / `gUU` / `g~~`: exactly the cursor line `text[a:b)` is replaced by its image under the
    callback (`a` = start, `b` = end of the cursor line; no newline inside); everything else,
    the clipboard and the registers are untouched -/
theorem double_case_frame (env : Env) (s : St) (k : Transform) (count : Nat) (hi : s.cur ≤ s.text.length) :
    let dk : Double := match k with | .lower => .lower | .upper => .upper | .swap => .swap | .rot13 => .swap
    let s' := runDouble env s dk count
    let f := match k with | .rot13 => env.tf .swap | k => env.tf k
    ∃ a b : Nat, a ≤ s.cur ∧ s.cur ≤ b ∧ b ≤ s.text.length ∧ '\n' ∉ (s.text.take b).drop a ∧
      (a = 0 ∨ s.text[a - 1]? = some '\n') ∧ (b = s.text.length ∨ s.text[b]? = some '\n') ∧
      s'.text = s.text.take a ++ f ((s.text.take b).drop a) ++ s.text.drop b ∧
      s'.clip = s.clip ∧ s'.regs = s.regs ∧ s'.insert = s.insert := by
  intro dk s' f
  have hlb := lineBefore_length s.doc
  have hla := lineAfter_length s.doc
  have hd1 : s.doc.cur = s.cur := rfl
  have hd2 : s.doc.text = s.text := rfl
  rw [hd1] at hlb hla
  rw [hd2] at hlb hla
  have hs' : s'.text = s.text.take (s.cur - (lineBefore s.doc).length) ++
      f ((s.text.take (s.cur + (lineAfter s.doc).length)).drop (s.cur - (lineBefore s.doc).length)) ++
      s.text.drop (s.cur + (lineAfter s.doc).length) ∧ s'.clip = s.clip ∧ s'.regs = s.regs ∧
      s'.insert = s.insert := by
    cases k <;> exact ⟨rfl, rfl, rfl, rfl⟩
  -- the bounds are the start and the end of the cursor line
  have ea : s.cur - (lineBefore s.doc).length = lineStart s.text s.cur := by
    unfold lineStart lineBefore Doc.before St.doc
    simp; omega
  have eb : s.cur + (lineAfter s.doc).length = lineEnd s.text s.cur := by
    unfold lineEnd lineAfter Doc.after St.doc
    simp only [Nat.min_eq_left hi]
  refine ⟨_, _, by omega, by omega, by omega, ?_, ?_, ?_, hs'.1, hs'.2.1, hs'.2.2.1, hs'.2.2.2⟩
  · rw [ea, eb]
    intro hm
    -- (text[:b])[a:] = (text[:cur])[a:] ++ (text[:b])[cur:]
    have hsplit : (s.text.take (lineEnd s.text s.cur)).drop (lineStart s.text s.cur) =
        (s.text.take s.cur).drop (lineStart s.text s.cur) ++ (s.text.take (lineEnd s.text s.cur)).drop s.cur := by
      have h1 := (lineStart_le s.text s.cur).1
      have h2 := lineEnd_ge s.text s.cur hi
      have : s.text.take (lineEnd s.text s.cur) =
          s.text.take s.cur ++ (s.text.take (lineEnd s.text s.cur)).drop s.cur := by
        have := List.take_append_drop s.cur (s.text.take (lineEnd s.text s.cur))
        rw [List.take_take, Nat.min_eq_left h2] at this
        exact this.symm
      rw [this, List.drop_append_of_le_length (by simp; omega)]
      congr 1
      rw [List.drop_append_of_le_length (by simp; omega)]
      simp
    rw [hsplit] at hm
    rcases List.mem_append.1 hm with h | h
    · exact lineStart_no_nl s.text s.cur h
    · exact lineEnd_no_nl s.text s.cur hi h
  · rw [ea]; exact lineStart_is_line_start s.text s.cur
  · rw [eb]
    obtain ⟨la, rest, e1, e2, e3, e4, e5⟩ := lineEnd_spec s.text s.cur hi
    rcases e5 with h | ⟨r, h⟩
    · left
      have : (s.text.drop (lineEnd s.text s.cur)).length = 0 := by rw [e4, h]; rfl
      have hle := lineEnd_le s.text s.cur
      simp at this; omega
    · right
      have := congrArg List.head? e4
      rw [h] at this
      simpa [List.head?_drop] using this

/-- in a session: the doubled forms are handlers of navigation mode only; they consume the typed
    count, never start an operator, and leave the ViState (`operator_func`, `operator_arg`, last
    find) as it is -/
theorem double_key_state (env : Env) (ss ss' : Sess) (k : Double) (hn : navMode ss = true)
    (hs : step env ss (.double k) = some ss') :
    ss'.pending = none ∧ ss'.opArg = ss.opArg ∧ ss'.arg = none ∧ ss'.lastFind = ss.lastFind ∧
      ss'.st.text = (runDouble env ss.st k (evArg ss.arg)).text ∧ ss'.st.clip = ss.st.clip ∧
      ss'.st.regs = ss.st.regs := by
  have hw : waiting ss = false := by
    unfold navMode at hn; unfold waiting
    cases hp : ss.pending <;> simp_all
  have hp : ss.pending = none := by
    unfold waiting at hw
    cases hp : ss.pending <;> simp_all
  simp only [step, hw, hn, if_true, Bool.false_eq_true, if_false] at hs
  cases hs
  obtain ⟨f1, f2, f3, f4, f5, f6, f7, _, _, _⟩ := afterHandler_fields ss.tempNav
    { ss with arg := none, st := runDouble env ss.st k (evArg ss.arg) }
  rw [f1, f2, f3, f4, f5, f6, f7]
  refine ⟨hp, rfl, rfl, rfl, rfl, ?_, ?_⟩
  · cases k <;> rfl
  · cases k <;> rfl

example : ((runDouble exEnv { exSt with text := "ab\ncd\nef".toList, cur := 4 } .indent 2).text,
           (runDouble exEnv { exSt with text := "ab\ncd\nef".toList, cur := 4 } .upper 5).text) =
    ("ab\n    cd\n    ef".toList, "ab\nCD\nef".toList) := by decide

/-! ### non-vacuity: concrete sessions -/
section examples

def dig (l : List Nat) : List (Fin 10) := l.map fun n => ⟨n % 10, Nat.mod_lt _ (by decide)⟩
def sess0 : Sess :=
  { st := { text := "one two three four five six".toList, cur := 0, clip := ⟨[], false⟩, regs := [], insert := false } }
def dw : List Key := cmdKeys [] (.delete none) [] (.w false)

-- `2dw` then `dw`: the second one removes ONE word (the seeded change C08-f removes two)
example : (runSession exEnv sess0 (cmdKeys (dig [2]) (.delete none) [] (.w false) ++ dw)).map
    (fun s => (String.ofList s.st.text, String.ofList s.st.clip.text, s.opArg)) =
    some ("four five six", "three ", none) := by decide
-- counts on the operator, on the motion, on both: `2d3w` = six words
example : (runSession exEnv sess0 (cmdKeys (dig [2]) (.delete none) (dig [3]) (.w false))).map
    (fun s => String.ofList s.st.text) = some "" := by decide
-- `3yl` then `g~l` toggles one character; `"a2yw` then `dw`
example : (runSession exEnv sess0 (cmdKeys (dig [3]) (.yank none) [] .l ++
    cmdKeys [] (.transform .swap) [] .l)).map (fun s => String.ofList s.st.text) =
    some "One two three four five six" := by decide
example : (runSession exEnv sess0 (cmdKeys (dig [2]) (.yank (some 'a')) [] (.w false) ++ dw)).map
    (fun s => (String.ofList s.st.text, s.st.regs.map fun p => (p.1, String.ofList p.2.text))) =
    some ("two three four five six", [('a', "one two ")]) := by decide
-- an aborted counted operator (`2d` Escape) leaves nothing behind; an unknown key keeps it
example : (runSession exEnv sess0 ([.digit 2, .op (.delete none), .escape] ++ dw)).map
    (fun s => String.ofList s.st.text) = some "two three four five six" := by decide
example : (runSession exEnv sess0 [.digit 2, .op (.delete none), .digit 3, .unbound, .motion (.w false)]).map
    (fun s => String.ofList s.st.text) = some "three four five six" := by decide
-- a failing motion (`3dfq`) clears operator and counts
example : (runSession exEnv sess0 (cmdKeys (dig [3]) (.delete none) [] (.f 'q') ++ dw)).map
    (fun s => (String.ofList s.st.text, s.pending, s.opArg, s.arg)) =
    some ("two three four five six", none, none, none) := by decide
-- `cw`, text, c-o `2dw` (temporary navigation mode), more text, Escape
example : (runSession exEnv sess0 (cmdKeys [] (.change none) [] (.w false) ++ [.typed "x ".toList, .ctrlO] ++
    cmdKeys (dig [2]) (.delete none) [] (.w false) ++ [.typed "y".toList, .escape])).map
    (fun s => (String.ofList s.st.text, s.st.cur, s.st.insert, s.tempNav)) =
    some ("x yfour five six", 2, false, false) := by decide
example : Quiet sess0 ∧ SInv sess0 := by unfold Quiet SInv; decide
example : wfDigits (dig [2, 0]) ∧ argOf (dig [2, 0]) = some 20 := ⟨by simp [wfDigits, dig], by decide⟩
example : admissible sess0 (.motion (.iw false)) = false ∧ admissible sess0 (.typed ['x']) = false ∧
    admissible sess0 (.op (.delete (some 'a'))) = true := by decide

end examples
end Ptk.C08
