/-
  Cross-model agreement, cluster "Buffer edit and state API" (src/prompt_toolkit/buffer.py):
  `start_selection` / `exit_selection`, `copy_selection` / `cut_selection` (the Buffer side),
  `cursor_up` / `cursor_down` (with `preferred_column`), and the change notifications
  `_text_changed` / `_cursor_position_changed` (the part of the state each pair of models shares).

  None of these is in the canonical C01 (it has no selection, no preferred column, no completion
  state): the pairs are between the other models — C05 (selection as `Option (anchor, type)`),
  C15 (selection as the identity of the `SelectionState` object), C08 (`VSel` of `Model/C08Visual`),
  C09 (`cutRegion`), C14 (`pref`).
-/
import Ptk.Props.AgreeBufEdit
import Ptk.Props.AgreeBufHistSpec
import Ptk.Props.AgreeDocLines
import Ptk.Model.C08Visual
namespace Ptk.AgreeBuf
open Ptk.Py

/-! ### `start_selection` / `exit_selection` -/

/-- `SelectionType` of C08 as the number C05 uses (0 CHARACTERS, 1 LINES, 2 BLOCK) -/
def ty08 : C08.SelType → Nat
  | .chars => 0 | .lines => 1 | .block => 2

/-- buffer.py::Buffer.start_selection — `C05.startSelection` vs the initial `VSel` of `C08.visualKeys`
    (`v` / `V` / `c-v`): anchor = the cursor, the given type, text and cursor untouched -/
theorem startSelection_05_08 (b : C05.Buf) (s : C08.St) (ty : C08.SelType) (hp : p05 b = p08 s) :
    (C05.startSelection b (ty08 ty)).sel =
      some ⟨(({ orig := s.cur, ty := ty } : C08.VSel).orig : Int), ty08 ({ orig := s.cur, ty := ty } : C08.VSel).ty⟩ ∧
    p05 (C05.startSelection b (ty08 ty)) = p08 s := by
  have : b.cur = s.cur := congrArg C01.Buf.cur hp
  refine ⟨?_, hp⟩
  simp only [C05.startSelection, this]
/-- buffer.py::Buffer.start_selection — `C05.startSelection` vs `C15.startSelection`: a selection exists
    afterwards, text and cursor untouched (C15 keeps the object identity, C05 anchor and type) -/
theorem startSelection_05_15 (b : C05.Buf) (s : C15.St) (typ : Nat) :
    (C05.startSelection b typ).sel.isSome = (C15.startSelection s).sel.isSome ∧
    p05 (C05.startSelection b typ) = p05 b ∧ p15 (C15.startSelection s) = p15 s := ⟨rfl, rfl, rfl⟩
/-- buffer.py::Buffer.exit_selection — `C05.exitSelection` vs `C15.exitSelection` -/
theorem exitSelection_05_15 (b : C05.Buf) (s : C15.St) :
    (C05.exitSelection b).sel.isSome = (C15.exitSelection s).sel.isSome ∧
    p05 (C05.exitSelection b) = p05 b ∧ p15 (C15.exitSelection s) = p15 s := ⟨rfl, rfl, rfl⟩
/-- buffer.py::Buffer.exit_selection — `C05.exitSelection` vs `C08.visualEscape` (Escape in selection
    mode keeps the text; the selection is not part of the resulting `C08.St`) -/
theorem exitSelection_05_08 (env : C08.Env) (b : C05.Buf) (s : C08.St) (lf : Option (Char × Bool))
    (ty : C08.SelType) :
    (C05.exitSelection b).sel = none ∧ p05 (C05.exitSelection b) = p05 b ∧
    (C08.visualEscape env s lf ty []).map (·.text) = some s.text := ⟨rfl, rfl, rfl⟩

/-! ### `copy_selection` / `cut_selection` (Buffer side: what happens with the new document) -/

/-- buffer.py::Buffer.cut_selection (= `copy_selection(_cut=True)`) — `C05.cutSelection` applied to the
    document `Document.cut_selection()` returns, vs the buffer `C09.step … (.region a b true)` continues
    with (`C09.cutRegion`): the buffer becomes that document, the selection ends -/
theorem cutSelection_05_09 (b : C05.Buf) (t : Text) (x y : Nat) (hi : b.idx < b.lines.length)
    (hr : b.readOnly = false) (hx : min x y ≤ t.length) :
    p05 (C05.cutSelection b (C09.cutRegion t x y).1.text (C09.cutRegion t x y).1.cur).1
      = p09 (C09.cutRegion t x y).1 ∧
    (C05.cutSelection b (C09.cutRegion t x y).1.text (C09.cutRegion t x y).1.cur).1.sel = none ∧
    (C05.cutSelection b (C09.cutRegion t x y).1.text (C09.cutRegion t x y).1.cur).2 = .ok := by
  have hc : (((C09.cutRegion t x y).1.cur : Nat) : Int) ≤ ((C09.cutRegion t x y).1.text.length : Int) := by
    simp only [C09.cutRegion, List.length_append, List.length_take, List.length_drop]; omega
  obtain ⟨e1, e2⟩ := c05_sd_ok b _ _ hi hr hc
  simp only [C05.cutSelection]
  generalize C05.setDocument b (C09.cutRegion t x y).1.text (C09.cutRegion t x y).1.cur false = r at e1 e2
  obtain ⟨b1, o⟩ := r
  simp only at e1 e2
  subst e2
  simp only [C05.andThen, C05.exitSelection]
  refine ⟨?_, by first | rfl | trivial, by first | rfl | trivial⟩
  have : p05 { b1 with sel := none } = p05 b1 := rfl
  rw [this, e1]; simp [p09]

/-! ### `cursor_up` / `cursor_down` -/

/-- (text, cursor, preferred column) of `C08.VSess` / `C14.St` -/
def c08v (vs : C08.VSess) : Text × Nat × Option Nat := (vs.st.text, vs.st.cur, vs.sel.pref)
def c14v (s : C14.St) : Text × Nat × Option Nat := (s.text, s.cur, s.pref)

theorem origColumn_08_14 (vs : C08.VSess) (s : C14.St) (h : c08v vs = c14v s) (hc : s.cur ≤ s.text.length) :
    (match vs.sel.pref with
      | some p => if p ≠ 0 then p else vs.st.doc.col
      | none => vs.st.doc.col) = C14.origColumn s := by
  simp only [c08v, c14v, Prod.mk.injEq] at h
  obtain ⟨h1, h2, h3⟩ := h
  rw [AgreeDoc.origColumn_14 s hc, AgreeDoc.col_08, h3]
  have : AgreeDoc.of08 vs.st.doc = ⟨s.text, s.cur⟩ := by simp [AgreeDoc.of08, C08.St.doc, h1, h2]
  rw [this]
  cases s.pref with
  | none => rfl
  | some p => by_cases hp : p = 0 <;> simp [hp]

theorem c14v_setCur (s : C14.St) (v : Nat) (oc : Nat) :
    c14v { C14.setCursorPos s v with pref := some oc } = (s.text, min v s.text.length, some oc) := by
  simp only [c14v, C14.St.text]
  have h1 := c14_sc_work s v
  have h2 := c14_sc_idx s v
  have h3 := c14_sc_cur s v
  simp only [C14.St.text] at h3
  simp [h1, h2, h3]

/-- buffer.py::Buffer.cursor_down — `C14.cursorDown` vs `C08.vLine … true` (`j` in selection mode): same
    text, cursor and `preferred_column` afterwards, for every count ≥ 1 (`count = 0` is an
    AssertionError in the code and in C14; C08's keys cannot produce it) -/
theorem cursorDown_08_14 (vs : C08.VSess) (s : C14.St) (a : Option Nat) (h : c08v vs = c14v s)
    (hc : s.cur ≤ s.text.length) (h1 : 1 ≤ C08.evArg a) :
    (C14.cursorDown s (C08.evArg a : Int)).map c14v = some (c08v (C08.vLine vs a true)) := by
  have hcnt : ¬ ((C08.evArg a : Int) < 1) := by omega
  have hoc := origColumn_08_14 vs s h hc
  simp only [c08v, c14v, Prod.mk.injEq] at h
  obtain ⟨e1, e2, e3⟩ := h
  simp only [C14.cursorDown, hcnt, if_false, Option.map_some, Option.some.injEq]
  rw [c14v_setCur]
  have : AgreeDoc.of08 vs.st.doc = ⟨s.text, s.cur⟩ := by simp [AgreeDoc.of08, C08.St.doc, e1, e2]
  cases hp : vs.sel.pref <;> simp only [hp] at hoc <;> simp only [C08.vLine, if_true, hp] <;> rw [hoc] <;>
    simp only [C08.VSess.setCur, c08v] <;>
    rw [AgreeDoc.rowColToIndex_08, AgreeDoc.rowColToIndex_14, AgreeDoc.row_08, AgreeDoc.row_14, this] <;>
    simp [e1, C08.St.doc]
/-- buffer.py::Buffer.cursor_up — `C14.cursorUp` vs `C08.vLine … false` (`k` in selection mode) -/
theorem cursorUp_08_14 (vs : C08.VSess) (s : C14.St) (a : Option Nat) (h : c08v vs = c14v s)
    (hc : s.cur ≤ s.text.length) (h1 : 1 ≤ C08.evArg a) :
    (C14.cursorUp s (C08.evArg a : Int)).map c14v = some (c08v (C08.vLine vs a false)) := by
  have hcnt : ¬ ((C08.evArg a : Int) < 1) := by omega
  have hoc := origColumn_08_14 vs s h hc
  simp only [c08v, c14v, Prod.mk.injEq] at h
  obtain ⟨e1, e2, e3⟩ := h
  simp only [C14.cursorUp, hcnt, if_false, Option.map_some, Option.some.injEq]
  rw [c14v_setCur]
  have : AgreeDoc.of08 vs.st.doc = ⟨s.text, s.cur⟩ := by simp [AgreeDoc.of08, C08.St.doc, e1, e2]
  have hsub : (((C02.row ⟨s.text, s.cur⟩ : Nat) : Int) - (C08.evArg a : Int)).toNat
      = C02.row ⟨s.text, s.cur⟩ - C08.evArg a := by omega
  cases hp : vs.sel.pref <;> simp only [hp] at hoc <;> simp only [C08.vLine, Bool.false_eq_true, if_false, hp] <;>
    rw [hoc] <;> simp only [C08.VSess.setCur, c08v] <;>
    rw [AgreeDoc.rowColToIndex_08, AgreeDoc.rowColToIndex_14, AgreeDoc.row_08, AgreeDoc.row_14, this] <;>
    simp [e1, C08.St.doc, hsub]
/-- the excluded count: with `count = 0` C14 (like the code: `assert count >= 1`) refuses, C08 moves -/
theorem cursorDown_08_14_count0_disagree :
    C14.cursorDown (C14.St.fresh [] false false) 0 = none := by decide
/-- … while `C08.vLine` with the (unreachable by keys) argument 0 moves the cursor to the preferred column -/
theorem cursorDown_08_count0_moves :
    (C08.vLine { st := ⟨['a', 'b', '\n', 'c'], 1, ⟨[], false⟩, [], false⟩, sel := { orig := 0, ty := .chars, pref := some 2 } }
      (some 0) true).st.cur = 2 := by decide

/-! ### `_text_changed` / `_cursor_position_changed`: the shared part of the state, pairwise -/

/-- buffer.py::Buffer._text_changed — `C05.textChanged` vs `C15.textChanged`: selection and completion
    state are dropped; text and cursor stay -/
theorem textChanged_05_15 (cfg : C15.Config) (b : C05.Buf) (s : C15.St) :
    (C05.textChanged b).sel.isSome = (C15.textChanged cfg s).sel.isSome ∧
    (C05.textChanged b).comp.isSome = (C15.textChanged cfg s).cs.isSome ∧
    p05 (C05.textChanged b) = p05 b ∧ p15 (C15.textChanged cfg s) = p15 s := ⟨rfl, rfl, rfl, rfl⟩
/-- buffer.py::Buffer._text_changed — `C05.textChanged` vs `C14.textChanged`: `yank_nth_arg_state` is
    dropped; working lines, index, cursor and the history search stay -/
theorem textChanged_05_14 (b : C05.Buf) (s : C14.St) :
    (C05.textChanged b).yank.isSome = (C14.textChanged s).yank.isSome ∧
    q05 (C05.textChanged b) = q05 b ∧ q14 (C14.textChanged s) = q14 s := ⟨rfl, rfl, rfl⟩
/-- number of `_async_validator()` tasks of C15 that did not start yet -/
def vPendCount (ts : List C15.Task) : Nat := (ts.filter (· == .vPend)).length
/-- buffer.py::Buffer._text_changed — `C14.textChanged` vs `C15.textChanged` (a validator is present):
    validation state UNKNOWN, error dropped, one more pending validator task iff `validate_while_typing` -/
theorem textChanged_14_15 (cfg : C15.Config) (s14 : C14.St) (s : C15.St) (hv : cfg.hasV = true)
    (hw : cfg.vwt = s14.vwt) (hn : vPendCount s.tasks = s14.vtasks) :
    (C14.textChanged s14).vstate = .unknown ∧ (C15.textChanged cfg s).vs = .unknown ∧
    (C14.textChanged s14).verr = none ∧ (C15.textChanged cfg s).verr = none ∧
    vPendCount (C15.textChanged cfg s).tasks = (C14.textChanged s14).vtasks ∧
    p14 (C14.textChanged s14) = p14 s14 ∧ p15 (C15.textChanged cfg s) = p15 s := by
  refine ⟨rfl, rfl, rfl, rfl, ?_, rfl, rfl⟩
  simp only [C15.textChanged, C14.textChanged, hv, Bool.true_and, hw]
  cases s14.vwt
  · simpa using hn
  · simp only [if_true, vPendCount, List.filter_append, List.length_append]
    simp only [vPendCount] at hn
    rw [hn]; rfl
/-- buffer.py::Buffer._cursor_position_changed — `C05.cursorChanged` (cursor really changed) vs
    `C15.cursorChanged`: the completion state is dropped -/
theorem cursorChanged_05_15 (b : C05.Buf) (s : C15.St) (old c : Nat) (h : c ≠ old) :
    (C05.cursorChanged b old c).comp.isSome = (C15.cursorChanged s).cs.isSome ∧
    p05 (C05.cursorChanged b old c) = p05 b ∧ p15 (C15.cursorChanged s) = p15 s := by
  have : (c != old) = true := by simpa using h
  simp [C05.cursorChanged, this, C15.cursorChanged, p05, p15, C05.Buf.text]
/-- buffer.py::Buffer._cursor_position_changed — `C05.cursorChanged` vs the change branch inlined in
    `C14.setCursorPos`: `yank_nth_arg_state` is dropped -/
theorem cursorChanged_05_14 (b : C05.Buf) (s : C14.St) (old c : Nat) (v : Int) (h : c ≠ old)
    (hv : min v.toNat s.text.length ≠ s.cur) :
    (C05.cursorChanged b old c).yank = none ∧ (C14.setCursorPos s v).yank = none ∧
    (C14.setCursorPos s v).pref = none := by
  have : (c != old) = true := by simpa using h
  simp [C05.cursorChanged, this, C14.setCursorPos, hv]

end Ptk.AgreeBuf
