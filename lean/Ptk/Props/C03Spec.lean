/-
  C03 — lemmas about the tokenisation spec (`Ptk.Model.C03Spec`): `lm` really is the longest
  recognised prefix; fuel-free unfolding equations of `tokenize`.
-/
import Ptk.Model.C03Spec
import Ptk.Props.C03Lossless
namespace Ptk.C03
open Ptk.Py

/-! ### `longestMatch` / `lm` -/

theorem longestMatch_le (cfg : Cfg) (p : Text) (n : Nat) : longestMatch cfg p n ≤ n := by
  induction n with
  | zero => simp [longestMatch]
  | succ i ih => rw [longestMatch]; split <;> omega

/-- the prefix found is recognised -/
theorem longestMatch_match (cfg : Cfg) (p : Text) (n : Nat) (h : longestMatch cfg p n ≠ 0) :
    getMatch cfg (p.take (longestMatch cfg p n)) ≠ [] := by
  induction n with
  | zero => simp [longestMatch] at h
  | succ i ih =>
    rw [longestMatch] at h ⊢
    split
    · rename_i hm; simpa [List.isEmpty_iff] using hm
    · rename_i hm; simp only [hm] at h; exact ih (by simpa using h)

/-- nothing longer (up to the bound) is recognised -/
theorem longestMatch_max (cfg : Cfg) (p : Text) (n j : Nat) (h1 : longestMatch cfg p n < j)
    (h2 : j ≤ n) : getMatch cfg (p.take j) = [] := by
  induction n with
  | zero => omega
  | succ i ih =>
    rw [longestMatch] at h1
    split at h1
    · omega
    · rename_i hm
      by_cases hj : j = i + 1
      · subst hj; simpa [List.isEmpty_iff] using hm
      · exact ih h1 (by omega)

/-- characterisation: `longestMatch … n = i` for a recognised `i ≤ n` above which nothing is -/
theorem longestMatch_eq (cfg : Cfg) (p : Text) (n i : Nat) (hi : i ≤ n)
    (hm : i ≠ 0 → getMatch cfg (p.take i) ≠ [])
    (hmax : ∀ j, i < j → j ≤ n → getMatch cfg (p.take j) = []) : longestMatch cfg p n = i := by
  induction n with
  | zero => simp [longestMatch]; omega
  | succ k ih =>
    rw [longestMatch]
    by_cases hik : i = k + 1
    · subst hik
      have := hm (by omega)
      simp [this]
    · have := hmax (k + 1) (by omega) (Nat.le_refl _)
      simp only [this, List.isEmpty_nil, Bool.not_true, Bool.false_eq_true, if_false]
      exact ih (by omega) (fun j h1 h2 => hmax j h1 (by omega))

theorem lm_le (cfg : Cfg) (p : Text) : lm cfg p ≤ p.length := longestMatch_le cfg p _

/-- **`lm` is a recognised prefix …** -/
theorem lm_match (cfg : Cfg) (p : Text) (h : lm cfg p ≠ 0) : getMatch cfg (p.take (lm cfg p)) ≠ [] :=
  longestMatch_match cfg p _ h

/-- **… and the longest one**: no longer prefix of `p` is recognised. -/
theorem lm_max (cfg : Cfg) (p : Text) (j : Nat) (h1 : lm cfg p < j) :
    getMatch cfg (p.take j) = [] ∨ p.length < j := by
  by_cases h2 : j ≤ p.length
  · exact Or.inl (longestMatch_max cfg p _ j h1 h2)
  · exact Or.inr (by omega)

theorem lm_eq (cfg : Cfg) (p : Text) (i : Nat) (hi : i ≤ p.length)
    (hm : i ≠ 0 → getMatch cfg (p.take i) ≠ [])
    (hmax : ∀ j, i < j → j ≤ p.length → getMatch cfg (p.take j) = []) : lm cfg p = i :=
  longestMatch_eq cfg p _ i hi hm hmax

/-- a recognised stream is its own longest recognised prefix -/
theorem lm_self (cfg : Cfg) (p : Text) (h : getMatch cfg p ≠ []) :
    lm cfg p = p.length :=
  lm_eq cfg p _ (Nat.le_refl _) (fun _ => by simpa using h) (fun j h1 h2 => by omega)

/-! ### `tokenize`: the fuel is never exhausted; unfolding equations -/

/-- characters still to be decoded -/
def tmeas (o : Option Text) (s : Text) : Nat := (o.getD []).length + s.length

theorem tokenizeFuel_stable (cfg : Cfg) (n : Nat) :
    ∀ (m : Nat) (o : Option Text) (s : Text), tmeas o s < n → tmeas o s < m →
      tokenizeFuel cfg n o s = tokenizeFuel cfg m o s := by
  induction n with
  | zero => intro m o s h; omega
  | succ n ih =>
    intro m o s hn hm
    cases m with
    | zero => omega
    | succ m =>
      cases o with
      | some b =>
        rw [tokenizeFuel, tokenizeFuel]
        cases hf : findSub? endMark (b ++ s) with
        | none => rfl
        | some j =>
          simp only
          have hb := findSub_bound hf
          rw [ih m none _ (by simp [tmeas, endMark] at *; omega) (by simp [tmeas, endMark] at *; omega)]
      | none =>
        cases s with
        | nil => rfl
        | cons c t =>
          rw [tokenizeFuel, tokenizeFuel]
          simp only
          have hl := lm_le cfg (c :: t)
          split
          · rw [ih m none t (by simp [tmeas] at *; omega) (by simp [tmeas] at *; omega)]
          · rename_i hi
            split
            · rw [ih m (some []) _ (by simp [tmeas] at *; omega) (by simp [tmeas] at *; omega)]
            · rw [ih m none _ (by simp [tmeas] at *; omega) (by simp [tmeas] at *; omega)]

theorem tokenize_fuel (cfg : Cfg) (n : Nat) (o : Option Text) (s : Text) (h : tmeas o s < n) :
    tokenizeFuel cfg n o s = tokenize cfg o s :=
  tokenizeFuel_stable cfg n _ o s h (by simp [tmeas])

theorem tokenize_nil (cfg : Cfg) : tokenize cfg none [] = ⟨[], none⟩ := rfl

/-- inside a paste, end mark found: one paste press with the text before it, go on behind it -/
theorem tokenize_pasteEnd (cfg : Cfg) (b s : Text) (j : Nat)
    (hf : findSub? endMark (b ++ s) = some j) :
    tokenize cfg (some b) s =
      Decoded.cons [⟨cfg.pasteKey, (b ++ s).take j⟩]
        (tokenize cfg none ((b ++ s).drop (j + endMark.length))) := by
  have hb := findSub_bound hf
  unfold tokenize
  rw [tokenizeFuel]
  simp only [hf]
  rw [tokenize_fuel cfg _ none _ (by simp [tmeas, endMark] at *; omega)]
  rfl

/-- inside a paste, no end mark: everything stays buffered -/
theorem tokenize_pasteOpen (cfg : Cfg) (b s : Text) (hf : findSub? endMark (b ++ s) = none) :
    tokenize cfg (some b) s = ⟨[], some (b ++ s)⟩ := by
  unfold tokenize
  rw [tokenizeFuel]
  simp only [hf]

/-- no prefix recognised: one raw key press for the first character -/
theorem tokenize_raw (cfg : Cfg) (c : Char) (t : Text) (h : lm cfg (c :: t) = 0) :
    tokenize cfg none (c :: t) =
      Decoded.cons [⟨String.singleton c, [c]⟩] (tokenize cfg none t) := by
  unfold tokenize
  rw [tokenizeFuel]
  simp only [h, if_true]
  rw [tokenize_fuel cfg _ none t (by simp [tmeas])]
  rfl

/-- the longest recognised prefix is `ESC[200~`: switch to paste mode -/
theorem tokenize_pasteStart (cfg : Cfg) (s : Text) (h0 : lm cfg s ≠ 0)
    (hm : getMatch cfg (s.take (lm cfg s)) = [cfg.pasteKey]) :
    tokenize cfg none s = tokenize cfg (some []) (s.drop (lm cfg s)) := by
  cases s with
  | nil => simp [lm, longestMatch] at h0
  | cons c t =>
    have hl := lm_le cfg (c :: t)
    rw [tokenize, tokenizeFuel]
    simp only [h0, if_false, hm, if_true]
    rw [tokenize_fuel cfg _ (some []) _ (by simp [tmeas] at *; omega)]

/-- the longest recognised prefix is an ordinary sequence: its key presses, then the rest -/
theorem tokenize_token (cfg : Cfg) (s : Text) (h0 : lm cfg s ≠ 0)
    (hm : getMatch cfg (s.take (lm cfg s)) ≠ [cfg.pasteKey]) :
    tokenize cfg none s =
      Decoded.cons (presses (getMatch cfg (s.take (lm cfg s))) (s.take (lm cfg s)))
        (tokenize cfg none (s.drop (lm cfg s))) := by
  cases s with
  | nil => simp [lm, longestMatch] at h0
  | cons c t =>
    have hl := lm_le cfg (c :: t)
    rw [tokenize, tokenizeFuel]
    simp only [h0, if_false, hm]
    rw [tokenize_fuel cfg _ none _ (by simp [tmeas] at *; omega)]

end Ptk.C03
