/-
  C18 — `int()` of a control-sequence parameter: where the ANSI parser, as the code is now, raises
  (CPython's int-string-conversion limit), the partial totality theorem that excludes exactly that
  region, and the proof that the proposed fix (proposed_fixes/C18-ansi-int-limit.diff) computes the
  same parameter values without ever giving `int` more than five digits.
-/
import Ptk.Props.C18Html
import Ptk.Gen.C18
namespace Ptk.C18
open Ptk.Py

/-! ## `int()` of a control-sequence parameter -/

theorem runFails_none (tb : Tables) (s : St) (t : Text) : runFails none tb s t = false := by
  induction t generalizing s with
  | nil => rfl
  | cons c cs ih =>
    simp only [runFails, ih, Bool.or_false]
    unfold stepFails
    split <;> simp [intFails]

/-- length of the digit buffer -/
def curLen (s : St) : Nat :=
  match s.mode with
  | .csi cur _ => cur.length
  | _ => 0

/-- no run of more than `l` consecutive ASCII digits (`k` = length of the run just read) -/
def digitRunsOK (l : Nat) : Nat → Text → Bool
  | _, [] => true
  | k, c :: cs =>
    if isAsciiDigit c then decide (k + 1 ≤ l) && digitRunsOK l (k + 1) cs
    else digitRunsOK l 0 cs

theorem curLen_step_digit (tb : Tables) (s : St) (c : Char) (h : isAsciiDigit c = true) :
    curLen (step tb s c).1 ≤ curLen s + 1 := by
  obtain ⟨m, a, st⟩ := s
  have hSOH : c ≠ SOH := by intro e; subst e; simp [isAsciiDigit, SOH] at h
  have hSTX : c ≠ STX := by intro e; subst e; simp [isAsciiDigit, STX] at h
  have hESC : c ≠ ESC := by intro e; subst e; simp [isAsciiDigit, ESC] at h
  have hCSI : c ≠ CSI8 := by intro e; subst e; simp [isAsciiDigit, CSI8] at h
  have hbr : c ≠ '[' := by intro e; subst e; simp [isAsciiDigit] at h
  cases m with
  | ground => simp [step, dispatch, curLen, hSOH, hESC, hCSI]
  | zw e => simp [step, curLen, hSTX]
  | zwAfter => simp [step, dispatch, curLen, hESC, hCSI]
  | esc => simp [step, curLen, hbr]
  | csi cur ps => simp [step, curLen, h]

theorem curLen_step_nondigit (tb : Tables) (s : St) (c : Char) (h : isAsciiDigit c = false) :
    curLen (step tb s c).1 = 0 := by
  obtain ⟨m, a, st⟩ := s
  cases m with
  | ground =>
    simp only [step, dispatch]
    split
    · rfl
    · split
      · rfl
      · split <;> rfl
  | zw e => simp only [step]; split <;> rfl
  | zwAfter =>
    simp only [step, dispatch]
    split
    · rfl
    · split <;> rfl
  | esc => simp only [step]; split <;> rfl
  | csi cur ps =>
    simp only [step, h]
    simp only [Bool.false_eq_true, if_false]
    split
    · rfl
    · split
      · rfl
      · split <;> rfl

theorem runFails_of_runs (l : Nat) (tb : Tables) (s : St) (k : Nat) (t : Text)
    (hk : curLen s ≤ k) (hkl : k ≤ l) (h : digitRunsOK l k t = true) :
    runFails (some l) tb s t = false := by
  induction t generalizing s k with
  | nil => rfl
  | cons c cs ih =>
    simp only [runFails, Bool.or_eq_false_iff]
    by_cases hd : isAsciiDigit c = true
    · simp only [digitRunsOK, hd, if_true, Bool.and_eq_true, decide_eq_true_eq] at h
      refine ⟨?_, ih _ (k + 1) ?_ h.1 h.2⟩
      · unfold stepFails; split <;> simp [hd]
      · have := curLen_step_digit tb s c hd; omega
    · have hd' : isAsciiDigit c = false := by simpa using hd
      simp only [digitRunsOK, hd', Bool.false_eq_true, if_false] at h
      refine ⟨?_, ih _ 0 ?_ (Nat.zero_le _) h⟩
      · unfold stepFails
        split
        · rename_i cur ps hm
          have : cur.length ≤ l := by
            have : curLen s = cur.length := by simp [curLen, hm]
            omega
          simp [intFails, this]
        · rfl
      · rw [curLen_step_nondigit tb s c hd']; exact Nat.le_refl _

/-- **Totality of `ANSI(...)`, as the code is now (partial).**  Full statement: `ANSI(s)` never
    raises.  That is FALSE of the current code (`int_limit_breaks_totality` below): `int()` refuses
    digit strings longer than the interpreter's limit.  What holds: an input without a run of more
    than `limit` consecutive ASCII digits is parsed, and the result is the total function `ansi`
    that all other theorems are about. -/
theorem ansi_total_partial (limit : Nat) (tb : Tables) (value : Text)
    (h : digitRunsOK limit 0 value = true) : ansiE (some limit) tb value = .ok (ansi tb value) := by
  have := runFails_of_runs limit tb {} 0 value (by simp [curLen]) (Nat.zero_le _) h
  simp [ansiE, this]

theorem ansi_total_nolimit (tb : Tables) (value : Text) : ansiE none tb value = .ok (ansi tb value) := by
  simp [ansiE, runFails_none]

/-- the excluded region is real: with a limit of 3 digits, `ESC [ 1 2 3 4 m` raises (replayed on
    the real code with 4301 digits against the default limit of 4300) -/
theorem int_limit_breaks_totality :
    ansiE (some 3) exTb [ESC, '[', '1', '2', '3', '4', 'm'] = .error .value ∧
    ansiE (some 3) exTb [ESC, '[', '0', '0', '0', '1', ';'] = .error .value ∧
    ansiE (some 3) exTb [ESC, '[', '1', '2', '3', '4'] = .ok [] := ⟨rfl, rfl, rfl⟩

/-! ### the proposed fix computes the same parameter and never gives `int` more than 5 digits -/

def dval (c : Char) : Nat := c.toNat - '0'.toNat

theorem digitsToNat_eq (t : Text) : digitsToNat t = t.foldl (fun n c => 10 * n + dval c) 0 := rfl

theorem foldl_digits_ge (t : Text) (n : Nat) :
    n * 10 ^ t.length ≤ t.foldl (fun n c => 10 * n + dval c) n := by
  induction t generalizing n with
  | nil => simp
  | cons c cs ih =>
    simp only [List.foldl_cons, List.length_cons]
    have := ih (10 * n + dval c)
    calc n * 10 ^ (cs.length + 1) = (10 * n) * 10 ^ cs.length := by rw [Nat.pow_succ]; ac_rfl
      _ ≤ (10 * n + dval c) * 10 ^ cs.length := Nat.mul_le_mul_right _ (Nat.le_add_right _ _)
      _ ≤ _ := this

theorem digitsToNat_zero_cons (t : Text) : digitsToNat ('0' :: t) = digitsToNat t := by
  simp [digitsToNat]

theorem digitsToNat_lstrip (t : Text) : digitsToNat (lstripChar '0' t) = digitsToNat t := by
  induction t with
  | nil => rfl
  | cons c cs ih =>
    unfold lstripChar
    split
    · rename_i h; subst h; rw [ih, digitsToNat_zero_cons]
    · rfl

theorem lstrip_head_ne (t : Text) : ∀ c r, lstripChar '0' t = c :: r → c ≠ '0' := by
  induction t with
  | nil => intro c r h; simp [lstripChar] at h
  | cons x xs ih =>
    intro c r h
    unfold lstripChar at h
    split at h
    · exact ih c r h
    · rename_i hx; simp at h; rw [← h.1]; exact hx

theorem lstrip_digits (t : Text) (h : ∀ c ∈ t, isAsciiDigit c = true) :
    ∀ c ∈ lstripChar '0' t, isAsciiDigit c = true := by
  induction t with
  | nil => simp [lstripChar]
  | cons x xs ih =>
    unfold lstripChar
    split
    · exact ih (fun c hc => h c (by simp [hc]))
    · exact h

theorem dval_pos (c : Char) (hd : isAsciiDigit c = true) (h0 : c ≠ '0') : 1 ≤ dval c := by
  have h1 : '0'.toNat = 48 := by decide
  simp only [isAsciiDigit, Bool.and_eq_true, decide_eq_true_eq] at hd
  have hle : 48 ≤ c.toNat := by
    have := hd.1
    rw [Char.le_def, UInt32.le_iff_toNat_le] at this
    exact this
  have hne : c.toNat ≠ 48 := by
    intro e; apply h0
    rw [← Char.ofNat_toNat c, e]
  simp only [dval, h1]; omega

/-- a digit string without leading zero and at least 5 digits is worth at least 10000 -/
theorem digitsToNat_big (c : Char) (r : Text) (hd : isAsciiDigit c = true) (h0 : c ≠ '0')
    (hlen : 4 ≤ r.length) : 10000 ≤ digitsToNat (c :: r) := by
  have h1 : digitsToNat (c :: r) = r.foldl (fun n c => 10 * n + dval c) (dval c) := by
    simp [digitsToNat, dval]
  rw [h1]
  have := foldl_digits_ge r (dval c)
  have hp : 10 ^ 4 ≤ 10 ^ r.length := Nat.pow_le_pow_right (by decide) hlen
  have hv := dval_pos c hd h0
  calc 10000 = 1 * 10 ^ 4 := by decide
    _ ≤ dval c * 10 ^ r.length := Nat.mul_le_mul hv hp
    _ ≤ _ := this

/-- **The proposed fix does not change any parameter value**: for every buffer of ASCII digits,
    `min(int(current.lstrip("0")[:5] or 0), 9999) = min(int(current or 0), 9999)`, and `int` is
    applied to at most five digits (so it cannot raise). -/
theorem clampParam_eq (cur : Text) (h : ∀ c ∈ cur, isAsciiDigit c = true) :
    clampParam cur = min (digitsToNat cur) 9999 ∧ ((lstripChar '0' cur).take 5).length ≤ 5 := by
  refine ⟨?_, by simp; omega⟩
  unfold clampParam
  rw [← digitsToNat_lstrip cur]
  generalize hs : lstripChar '0' cur = s
  by_cases hl : s.length ≤ 5
  · rw [List.take_of_length_le hl]
  · have hl' : 5 < s.length := by omega
    cases s with
    | nil => simp at hl'
    | cons c r =>
      have hc0 := lstrip_head_ne cur c r hs
      have hdig := lstrip_digits cur h
      rw [hs] at hdig
      have hcd := hdig c (by simp)
      have hr : 5 ≤ r.length := by simp at hl'; omega
      have big1 := digitsToNat_big c r hcd hc0 (by omega)
      have ht : (c :: r).take 5 = c :: r.take 4 := by simp
      have big2 := digitsToNat_big c (r.take 4) hcd hc0 (by simp; omega)
      rw [ht]
      omega

example : clampParam "0000012".toList = 12 ∧ clampParam "99999999".toList = 9999 ∧
    clampParam [] = 0 ∧ clampParam "0000".toList = 0 := by decide

example : digitRunsOK 4300 0 [ESC, '[', '3', '1', 'm', 'a'] = true := by decide

/-! ## size of the output: cursor-forward is the only amplifier, and it is capped -/

/-- every finished parameter of the control sequence being read is at most 9999 -/
def ParamsBounded (s : St) : Prop :=
  match s.mode with
  | .csi _ ps => ∀ p ∈ ps, p ≤ 9999
  | _ => True

theorem step_paramsBounded (tb : Tables) (s : St) (c : Char) (h : ParamsBounded s) :
    ParamsBounded (step tb s c).1 := by
  obtain ⟨m, a, st⟩ := s
  cases m with
  | ground =>
    simp only [step, dispatch]
    split
    · trivial
    · split
      · trivial
      · split
        · simp [ParamsBounded]
        · trivial
  | zw e => simp only [step]; split <;> trivial
  | zwAfter =>
    simp only [step, dispatch]
    split
    · trivial
    · split
      · simp [ParamsBounded]
      · trivial
  | esc =>
    simp only [step]; split
    · simp [ParamsBounded]
    · trivial
  | csi cur ps =>
    simp only [ParamsBounded] at h
    simp only [step]
    split
    · exact h
    · split
      · simp only [ParamsBounded]
        intro p hp
        simp at hp
        rcases hp with hp | rfl
        · exact h p hp
        · exact Nat.min_le_right _ _
      · split
        · trivial
        · split <;> trivial

theorem step_out_le (tb : Tables) (s : St) (c : Char) (h : ParamsBounded s) :
    (step tb s c).2.length ≤ 9999 := by
  obtain ⟨m, a, st⟩ := s
  cases m with
  | ground =>
    simp only [step, dispatch]
    split
    · simp
    · split
      · simp
      · split <;> simp
  | zw e => simp only [step]; split <;> simp
  | zwAfter =>
    simp only [step, dispatch]
    split
    · simp
    · split <;> simp
  | esc => simp only [step]; split <;> simp
  | csi cur ps =>
    simp only [ParamsBounded] at h
    simp only [step]
    split
    · simp
    · split
      · simp
      · split
        · simp
        · split
          · simp only [List.length_replicate]
            cases ps with
            | nil => simp [List.headD]; exact Nat.min_le_right _ _
            | cons p r => simp [List.headD]; exact h p (by simp)
          · simp

/-- **Output size.**  One input character produces at most 9999 fragments (only the final `C` of a
    cursor-forward sequence produces more than one, and its parameter is capped), so `ANSI(s)` has
    at most `9999 * len(s)` fragments: `ESC [ 9 9 9 9 C` is the worst amplification there is. -/
theorem run_out_le (tb : Tables) (s : St) (t : Text) (h : ParamsBounded s) :
    (run tb s t).2.length ≤ 9999 * t.length := by
  induction t generalizing s with
  | nil => simp [run]
  | cons c cs ih =>
    simp only [run, List.length_append, List.length_cons]
    have h1 := step_out_le tb s c h
    have h2 := ih _ (step_paramsBounded tb s c h)
    rw [Nat.mul_succ]; omega

theorem ansi_out_le (tb : Tables) (t : Text) : (ansi tb t).length ≤ 9999 * t.length :=
  run_out_le tb {} t trivial

example : (ansi exTb [ESC, '[', '1', '2', 'C']).length = 12 ∧ 12 ≤ 9999 * 5 := by decide

/-! ## format specs: `.format` pads the value, `%` pads the escaped text -/

/-- `HTML('{:3}').format('<')` formats first and escapes afterwards (the width counts the
    character the reader sees); `HTML('%3s') % '<'` escapes first, so the width is used up by the
    four characters of `&lt;` — the Lean side of the known finding
    "HTML.__mod__ | width or precision counts the escaped characters". -/
theorem format_pads_value_percent_pads_escaped :
    vformat htmlEscape exPr "{:3}".toList [{ s := "<".toList }] [] = some (.ok "&lt;  ".toList) ∧
    pformat htmlEscape exPr "%3s".toList [{ s := "<".toList }] = some (.ok "&lt;".toList) ∧
    pformat htmlEscape exPr "%.2s".toList [{ s := "<".toList }] = some (.ok "&l".toList) := by
  refine ⟨by rfl, by rfl, by rfl⟩


/-! ### which of the two versions of the parameter expression the tree has -/

def paramExprNow : String := "min(int(current or 0), 9999)"
def paramExprFixed : String := "min(int(current.lstrip('0')[:5] or 0), 9999)"

/-- the limit the model of `ANSI(...)` uses against the current tree: the interpreter's limit while
    the code hands the whole digit buffer to `int`, none once the proposed fix is in -/
def limitFor (expr : String) (interp : Option Nat) : Option Nat :=
  if expr = paramExprNow then interp else none

/-- **Pin.**  The expression `_parse_corot` appends to `params` (regenerated from /repo on every run)
    is one of the two versions the model knows; any other rewrite of that line breaks the build here. -/
theorem ansiParamExpr_pinned :
    Gen.C18.ansiParamExpr = paramExprNow ∨ Gen.C18.ansiParamExpr = paramExprFixed := by decide

/-- with the fixed expression the parser is total: `ansiE` is `ansi` -/
theorem ansi_total_fixed (interp : Option Nat) (tb : Tables) (value : Text) :
    ansiE (limitFor paramExprFixed interp) tb value = .ok (ansi tb value) := by
  have hne : ¬ (paramExprFixed = paramExprNow) := by decide
  have : limitFor paramExprFixed interp = none := by simp [limitFor, hne]
  rw [this]; exact ansi_total_nolimit tb value

end Ptk.C18
