/-
  Cross-model agreement, cluster "Document queries and motions" (src/prompt_toolkit/document.py):
  root module.  Canonical model C02 (C09 for `cut_selection` / `selection_ranges`); the other models of
  the same functions (C01, C08, C09, C11, C14, C16) are proved equal to it, function by function.

    AgreeDocBase   translations, text views, current_char, is_cursor_at_the_end_of_line
    AgreeDocLines  coordinates, line tables, character / line motions
    AgreeDocMisc   leading whitespace, last non-blank, column, matching lines, paragraphs
    AgreeDocCache  Document.__init__ / lines / _line_start_indexes through the shared cache (C01)
    AgreeDocWords  word scanners and word motions
    AgreeDocFind   find / find_backwards
    AgreeDocBrk    brackets, find_boundaries_of_current_word, get_word_under_cursor
    AgreeDocGen    side condition on the regenerated `\s` table (`\s` matches no word character)
    AgreeDocCut    selection_ranges / cut_selection (C08 vs C09)
-/
import Ptk.Props.AgreeDocBase
import Ptk.Props.AgreeDocLines
import Ptk.Props.AgreeDocMisc
import Ptk.Props.AgreeDocCache
import Ptk.Props.AgreeDocWords
import Ptk.Props.AgreeDocFind
import Ptk.Props.AgreeDocBrk
import Ptk.Props.AgreeDocCut
import Ptk.Props.AgreeDocGen
