/-
  C18 — the ANSI parser against a grammar of its input: tokenisation theorem and
  preservation of the visible text.
-/
import Ptk.Props.C18
import Ptk.Gen.C18
namespace Ptk.C18
open Ptk.Py

/-! ## 3. The parser against a grammar of the input: what is text, what is a control sequence -/

def isParam (c : Char) : Bool := isAsciiDigit c || c == ';'

/-- parameters of a control sequence: the text between the introducer and the final character,
    split at `;`, each piece read as `min(int(piece or 0), 9999)`
    (`cur` = digits of the piece being read, `acc` = finished pieces) -/
def csiGo (cur : Text) (acc : List Nat) : Text → List Nat
  | [] => acc ++ [min (digitsToNat cur) 9999]
  | c :: cs =>
    if isAsciiDigit c then csiGo (cur ++ [c]) acc cs
    else csiGo [] (acc ++ [min (digitsToNat cur) 9999]) cs

def csiParams (p : Text) : List Nat := csiGo [] [] p

/-- the tokens of an ANSI input -/
inductive Tok
  | chr (c : Char)                                      -- an ordinary character
  | zw (body : Text)                                    -- SOH body STX
  | esc2 (c : Char)                                     -- ESC followed by something else than `[`
  | csi (eightBit : Bool) (params : Text) (final : Char) -- ESC [ params final  /  0x9b params final
deriving Repr, DecidableEq

def intro (eightBit : Bool) : Text := if eightBit then [CSI8] else [ESC, '[']

/-- the characters of the input a token stands for -/
def Tok.src : Tok → Text
  | .chr c => [c]
  | .zw b => SOH :: (b ++ [STX])
  | .esc2 c => [ESC, c]
  | .csi e p f => intro e ++ (p ++ [f])

def Tok.WF : Tok → Prop
  | .chr c => c ≠ ESC ∧ c ≠ CSI8
  | .zw b => STX ∉ b
  | .esc2 c => c ≠ '['
  | .csi _ p f => (∀ c ∈ p, isParam c = true) ∧ isParam f = false

/-- what a token contributes, given the current attributes and style string -/
def tokStep (tb : Tables) (sty : Attrs × Text) : Tok → (Attrs × Text) × Frags
  | .chr c => (sty, [{ style := sty.2, text := [c] }])
  | .zw b => (sty, [{ style := zwMarker, text := b }])
  | .esc2 _ => (sty, [])
  | .csi _ p f =>
    if f = 'm' then
      let a := sgr tb sty.1 (csiParams p)
      ((a, styleString a), [])
    else if f = 'C' then
      (sty, List.replicate ((csiParams p).headD 0) { style := sty.2, text := [' '] })
    else (sty, [])

def interp (tb : Tables) : Attrs × Text → List Tok → Frags
  | _, [] => []
  | sty, t :: ts => (tokStep tb sty t).2 ++ interp tb (tokStep tb sty t).1 ts

/-- a truncated control sequence (possible only at the very end of the input) -/
def Incomplete (r : Text) : Prop :=
  r = [] ∨ (∃ b, r = SOH :: b ∧ STX ∉ b) ∨ r = [ESC] ∨
  (∃ e p, r = intro e ++ p ∧ ∀ c ∈ p, isParam c = true)

/-! ### how the machine runs through each kind of token -/

theorem run_cons (tb : Tables) (s : St) (c : Char) (cs : Text) :
    run tb s (c :: cs) = ((run tb (step tb s c).1 cs).1, (step tb s c).2 ++ (run tb (step tb s c).1 cs).2) := by
  simp [run]

theorem run_zw_body (tb : Tables) (a : Attrs) (st : Text) (e b : Text) (hb : STX ∉ b) :
    run tb ⟨.zw e, a, st⟩ b = (⟨.zw (e ++ b), a, st⟩, []) := by
  induction b generalizing e with
  | nil => simp [run]
  | cons c cs ih =>
    have hc : c ≠ STX := fun h => hb (by simp [h])
    have hcs : STX ∉ cs := fun h => hb (by simp [h])
    rw [run_cons]
    simp [step, hc, ih (e ++ [c]) hcs]

theorem run_zw (tb : Tables) (a : Attrs) (st : Text) (b r : Text) (hb : STX ∉ b) :
    run tb ⟨.ground, a, st⟩ (SOH :: (b ++ STX :: r)) =
      ((run tb ⟨.zwAfter, a, st⟩ r).1,
       { style := zwMarker, text := b } :: (run tb ⟨.zwAfter, a, st⟩ r).2) := by
  rw [run_cons]
  have h1 : step tb ⟨.ground, a, st⟩ SOH = (⟨.zw [], a, st⟩, []) := by simp [step]
  rw [h1, run_append, run_zw_body tb a st [] b hb, run_cons]
  simp [step]

theorem isParam_digit {c : Char} (h : isAsciiDigit c = true) : isParam c = true := by
  simp [isParam, h]

theorem run_csi_params (tb : Tables) (a : Attrs) (st : Text) (cur : Text) (acc : List Nat)
    (p : Text) (hp : ∀ c ∈ p, isParam c = true) :
    (run tb ⟨.csi cur acc, a, st⟩ p).2 = [] := by
  induction p generalizing cur acc with
  | nil => simp [run]
  | cons c cs ih =>
    have hc := hp c (by simp)
    have hcs : ∀ x ∈ cs, isParam x = true := fun x hx => hp x (by simp [hx])
    rw [run_cons]
    by_cases hd : isAsciiDigit c = true
    · simp [step, hd, ih _ _ hcs]
    · have : c = ';' := by simpa [isParam, hd] using hc
      subst this
      simp [step, hd, ih _ _ hcs]

/-- the effect of the final character of a control sequence -/
def finalEffect (tb : Tables) (a : Attrs) (st : Text) (params : List Nat) (f : Char) : St × Frags :=
  if f = 'm' then (⟨.ground, sgr tb a params, styleString (sgr tb a params)⟩, [])
  else if f = 'C' then
    (⟨.ground, a, st⟩, List.replicate (params.headD 0) { style := st, text := [' '] })
  else (⟨.ground, a, st⟩, [])

theorem run_csi (tb : Tables) (a : Attrs) (st : Text) (cur : Text) (acc : List Nat)
    (p : Text) (f : Char) (r : Text) (hp : ∀ c ∈ p, isParam c = true) (hf : isParam f = false) :
    run tb ⟨.csi cur acc, a, st⟩ (p ++ f :: r) =
      ((run tb (finalEffect tb a st (csiGo cur acc p) f).1 r).1,
       (finalEffect tb a st (csiGo cur acc p) f).2 ++
         (run tb (finalEffect tb a st (csiGo cur acc p) f).1 r).2) := by
  induction p generalizing cur acc with
  | nil =>
    have hd : isAsciiDigit f = false := by
      cases h : isAsciiDigit f <;> simp_all [isParam]
    have hs : f ≠ ';' := by
      intro h; subst h; simp [isParam] at hf
    simp only [List.nil_append, run_cons, csiGo]
    by_cases hm : f = 'm'
    · subst hm; simp [step, hd, finalEffect]
    · by_cases hC : f = 'C'
      · subst hC; simp [step, hd, finalEffect]
      · simp [step, hd, hs, hm, hC, finalEffect]
  | cons c cs ih =>
    have hc := hp c (by simp)
    have hcs : ∀ x ∈ cs, isParam x = true := fun x hx => hp x (by simp [hx])
    simp only [List.cons_append, run_cons]
    by_cases hd : isAsciiDigit c = true
    · simp [step, hd, csiGo, ih _ _ hcs]
    · have : c = ';' := by simpa [isParam, hd] using hc
      subst this
      simp [step, hd, csiGo, ih _ _ hcs]


theorem split_first (x : Char) (t : Text) :
    x ∉ t ∨ ∃ b r, t = b ++ x :: r ∧ x ∉ b := by
  induction t with
  | nil => left; simp
  | cons c cs ih =>
    by_cases hc : c = x
    · right; exact ⟨[], cs, by simp [hc], by simp⟩
    · rcases ih with h | ⟨b, r, h1, h2⟩
      · left; simp [h]; exact fun h => hc h.symm
      · right; refine ⟨c :: b, r, by simp [h1], ?_⟩
        simp [h2]; exact fun h => hc h.symm

theorem span_params (t : Text) :
    ∃ p r, t = p ++ r ∧ (∀ c ∈ p, isParam c = true) ∧
      (r = [] ∨ ∃ f r', r = f :: r' ∧ isParam f = false) := by
  induction t with
  | nil => exact ⟨[], [], rfl, by simp, Or.inl rfl⟩
  | cons c cs ih =>
    by_cases hc : isParam c = true
    · obtain ⟨p, r, h1, h2, h3⟩ := ih
      refine ⟨c :: p, r, by simp [h1], ?_, h3⟩
      intro x hx; simp at hx; rcases hx with rfl | hx
      · exact hc
      · exact h2 x hx
    · exact ⟨[], c :: cs, rfl, by simp, Or.inr ⟨c, cs, rfl, by simpa using hc⟩⟩

/-- the statement proved by induction on the length of the input -/
def Decomp (tb : Tables) (m : Mode) (a : Attrs) (st : Text) (s : Text) : Prop :=
  ∃ toks rest, s = toks.flatMap Tok.src ++ rest ∧ (∀ t ∈ toks, t.WF) ∧ Incomplete rest ∧
    (run tb ⟨m, a, st⟩ s).2 = interp tb (a, st) toks

theorem finalEffect_tokStep (tb : Tables) (a : Attrs) (st : Text) (e : Bool) (p : Text)
    (f : Char) :
    finalEffect tb a st (csiGo [] [] p) f =
      (⟨.ground, (tokStep tb (a, st) (.csi e p f)).1.1, (tokStep tb (a, st) (.csi e p f)).1.2⟩,
       (tokStep tb (a, st) (.csi e p f)).2) := by
  unfold finalEffect tokStep csiParams
  by_cases hm : f = 'm'
  · simp [hm]
  · by_cases hC : f = 'C' <;> simp [hm, hC]

theorem decomp_csi (tb : Tables) (n : Nat)
    (ih : ∀ s : Text, s.length ≤ n → ∀ a st, Decomp tb .ground a st s)
    (t : Text) (ht : t.length ≤ n) (e : Bool) (a : Attrs) (st : Text) :
    ∃ toks rest, intro e ++ t = toks.flatMap Tok.src ++ rest ∧ (∀ t ∈ toks, t.WF) ∧
      Incomplete rest ∧ (run tb ⟨.csi [] [], a, st⟩ t).2 = interp tb (a, st) toks := by
  obtain ⟨p, r, h1, h2, h3⟩ := span_params t
  rcases h3 with rfl | ⟨f, r', rfl, hf⟩
  · refine ⟨[], intro e ++ p, by simp [h1], by simp, ?_, ?_⟩
    · exact Or.inr (Or.inr (Or.inr ⟨e, p, rfl, h2⟩))
    · subst h1; simp [run_csi_params tb a st [] [] p h2, interp]
  · subst h1
    have hlen : r'.length ≤ n := by simp at ht; omega
    obtain ⟨toks, rest, g1, g2, g3, g4⟩ :=
      ih r' hlen (tokStep tb (a, st) (.csi e p f)).1.1 (tokStep tb (a, st) (.csi e p f)).1.2
    refine ⟨.csi e p f :: toks, rest, ?_, ?_, g3, ?_⟩
    · simp [Tok.src, g1, List.append_assoc]
    · intro t ht'; simp at ht'; rcases ht' with rfl | ht'
      · exact ⟨h2, hf⟩
      · exact g2 t ht'
    · rw [run_csi tb a st [] [] p f r' h2 hf, finalEffect_tokStep tb a st e p f]
      simp only [interp]
      rw [g4]

theorem decomp_all (tb : Tables) (n : Nat) :
    ∀ s : Text, s.length ≤ n → ∀ a st,
      Decomp tb .ground a st s ∧ Decomp tb .zwAfter a st s := by
  induction n with
  | zero =>
    intro s hs a st
    have : s = [] := by cases s <;> simp_all
    subst this
    exact ⟨⟨[], [], rfl, by simp, Or.inl rfl, by simp [run, interp]⟩,
           ⟨[], [], rfl, by simp, Or.inl rfl, by simp [run, interp]⟩⟩
  | succ n ih =>
    intro s hs a st
    cases s with
    | nil =>
      exact ⟨⟨[], [], rfl, by simp, Or.inl rfl, by simp [run, interp]⟩,
             ⟨[], [], rfl, by simp, Or.inl rfl, by simp [run, interp]⟩⟩
    | cons c r =>
      have hr : r.length ≤ n := by simpa using hs
      have ihg : ∀ s : Text, s.length ≤ n → ∀ a st, Decomp tb .ground a st s :=
        fun s h a st => (ih s h a st).1
      -- the part common to both modes: everything `dispatch` does
      have hdisp : ∀ m : Mode, (m = .ground ∨ m = .zwAfter) → (m = .ground → c ≠ SOH) →
          Decomp tb m a st (c :: r) := by
        intro m hm hsoh
        have hstep : step tb ⟨m, a, st⟩ c = dispatch ⟨m, a, st⟩ c := by
          rcases hm with rfl | rfl
          · simp [step, hsoh rfl]
          · simp [step]
        by_cases hE : c = ESC
        · subst hE
          cases r with
          | nil =>
            refine ⟨[], [ESC], rfl, by simp, Or.inr (Or.inr (Or.inl rfl)), ?_⟩
            simp [run, hstep, dispatch, interp]
          | cons d r2 =>
            have hr2 : r2.length ≤ n := by simp at hr; omega
            by_cases hd : d = '['
            · subst hd
              obtain ⟨toks, rest, g1, g2, g3, g4⟩ := decomp_csi tb n ihg r2 hr2 false a st
              refine ⟨toks, rest, by simpa [intro] using g1, g2, g3, ?_⟩
              rw [run_cons, hstep, run_cons]
              simp [dispatch, step, g4]
            · obtain ⟨toks, rest, g1, g2, g3, g4⟩ := ihg r2 hr2 a st
              refine ⟨.esc2 d :: toks, rest, by simp [Tok.src, g1], ?_, g3, ?_⟩
              · intro t ht; simp at ht; rcases ht with rfl | ht
                · exact hd
                · exact g2 t ht
              · rw [run_cons, hstep, run_cons]
                simp [dispatch, step, hd, interp, tokStep, g4]
        · by_cases h8 : c = CSI8
          · subst h8
            obtain ⟨toks, rest, g1, g2, g3, g4⟩ := decomp_csi tb n ihg r hr true a st
            refine ⟨toks, rest, by simpa [intro] using g1, g2, g3, ?_⟩
            rw [run_cons, hstep]
            have : CSI8 ≠ ESC := by decide
            simp [dispatch, this, g4]
          · obtain ⟨toks, rest, g1, g2, g3, g4⟩ := ihg r hr a st
            refine ⟨.chr c :: toks, rest, by simp [Tok.src, g1], ?_, g3, ?_⟩
            · intro t ht; simp at ht; rcases ht with rfl | ht
              · exact ⟨hE, h8⟩
              · exact g2 t ht
            · rw [run_cons, hstep]
              simp [dispatch, hE, h8, interp, tokStep, g4]
      refine ⟨?_, hdisp .zwAfter (Or.inr rfl) (by intro h; cases h)⟩
      by_cases hS : c = SOH
      · subst hS
        rcases split_first STX r with hno | ⟨b, r', hr', hb⟩
        · refine ⟨[], SOH :: r, rfl, by simp, Or.inr (Or.inl ⟨r, rfl, hno⟩), ?_⟩
          rw [run_cons]
          have h1 : step tb ⟨.ground, a, st⟩ SOH = (⟨.zw [], a, st⟩, []) := by simp [step]
          rw [h1, run_zw_body tb a st [] r hno]
          simp [interp]
        · subst hr'
          have hlen : r'.length ≤ n := by simp at hr; omega
          obtain ⟨toks, rest, g1, g2, g3, g4⟩ := (ih r' hlen a st).2
          refine ⟨.zw b :: toks, rest, by simp [Tok.src, g1], ?_, g3, ?_⟩
          · intro t ht; simp at ht; rcases ht with rfl | ht
            · exact hb
            · exact g2 t ht
          · rw [run_zw tb a st b r' hb]
            simp [interp, tokStep, g4]
      · exact hdisp .ground (Or.inl rfl) (fun _ => hS)

/-- **The parser implements the grammar.**  Every input splits, left to right, into tokens —
    ordinary characters, zero-width blocks `SOH … STX`, two-character escapes `ESC x`, control
    sequences `ESC [ params final` / `0x9b params final` — followed by at most one truncated
    sequence at the very end; and `ANSI(s)` is exactly the interpretation of these tokens: every
    ordinary character once, in order, in the style selected by the preceding `m` sequences; a
    zero-width fragment per block; `n` spaces per cursor-forward sequence; nothing for the rest. -/
theorem ansi_tokens (tb : Tables) (s : Text) :
    ∃ toks rest, s = toks.flatMap Tok.src ++ rest ∧ (∀ t ∈ toks, t.WF) ∧ Incomplete rest ∧
      ansi tb s = interp tb ({}, []) toks :=
  (decomp_all tb s.length s (Nat.le_refl _) {} []).1


/-! ### visible text -/

/-- the visible text a token stands for: an ordinary character is itself, a cursor-forward
    sequence `CSI n C` is `n` spaces, every other control sequence is nothing -/
def Tok.visible : Tok → Text
  | .chr c => [c]
  | .csi _ p f => if f = 'C' then List.replicate ((csiParams p).headD 0) ' ' else []
  | _ => []

/-- side condition on the (generated) colour tables: no colour name contains `[`, so no style the
    parser builds can contain the `[ZeroWidthEscape]` marker -/
def tablesOK (tb : Tables) : Bool :=
  (tb.fg ++ tb.bg ++ tb.c256).all fun p => !p.2.contains '['

def NoBr (t : Text) : Prop := '[' ∉ t

instance (t : Text) : Decidable (NoBr t) := inferInstanceAs (Decidable ('[' ∉ t))

def AttrsOK (a : Attrs) : Prop :=
  (∀ c, a.color = some c → NoBr c) ∧ (∀ c, a.bgcolor = some c → NoBr c)

theorem digitChar_small : ∀ k, k < 16 → Nat.digitChar k ≠ '[' := by decide

theorem digitChar_ne_bracket (k : Nat) : Nat.digitChar k ≠ '[' := by
  by_cases h : k < 16
  · exact digitChar_small k h
  · obtain ⟨m, rfl⟩ : ∃ m, k = m + 16 := ⟨k - 16, by omega⟩
    simp [Nat.digitChar]

theorem toDigitsCore_noBr (fuel n : Nat) (ds : List Char) (h : NoBr ds) :
    NoBr (Nat.toDigitsCore 16 fuel n ds) := by
  induction fuel generalizing n ds with
  | zero => simpa [Nat.toDigitsCore] using h
  | succ k ih =>
    unfold Nat.toDigitsCore
    have hd : NoBr (Nat.digitChar (n % 16) :: ds) := by
      unfold NoBr; rw [List.mem_cons]; rintro (hm | hm)
      · exact digitChar_ne_bracket _ hm.symm
      · exact h hm
    simp only
    split
    · exact hd
    · exact ih _ _ hd

theorem hex2_noBr (n : Nat) : NoBr (hex2 n) := by
  have h : NoBr (Nat.toDigits 16 n) := toDigitsCore_noBr _ _ [] (by simp [NoBr])
  unfold hex2
  simp only
  split
  · unfold NoBr; rw [List.mem_cons]; rintro (hm | hm)
    · exact absurd hm (by decide)
    · exact h hm
  · exact h

theorem lookup_noBr (tbl : List (Nat × Text)) (k : Nat) (c : Text)
    (h : ∀ p ∈ tbl, NoBr p.2) (hl : lookup tbl k = some c) : NoBr c := by
  unfold lookup at hl
  cases hf : tbl.find? (fun p => p.1 == k) with
  | none => simp [hf] at hl
  | some p =>
    simp [hf] at hl; subst hl
    exact h p (List.mem_of_find?_eq_some hf)

theorem tablesOK_mem (tb : Tables) (h : tablesOK tb = true) :
    (∀ p ∈ tb.fg, NoBr p.2) ∧ (∀ p ∈ tb.bg, NoBr p.2) ∧ (∀ p ∈ tb.c256, NoBr p.2) := by
  simp only [tablesOK, List.all_eq_true, List.mem_append] at h
  refine ⟨fun p hp => ?_, fun p hp => ?_, fun p hp => ?_⟩
  · have := h p (Or.inl (Or.inl hp)); simpa [NoBr] using this
  · have := h p (Or.inl (Or.inr hp)); simpa [NoBr] using this
  · have := h p (Or.inr hp); simpa [NoBr] using this


theorem sgrFlag_ok (a a' : Attrs) (attr : Nat) (h : sgrFlag a attr = some a') (ha : AttrsOK a) :
    AttrsOK a' := by
  have hdef : AttrsOK ({} : Attrs) := ⟨by simp, by simp⟩
  unfold sgrFlag at h
  split at h <;> first
    | (simp at h; subst h; exact ha)
    | (simp at h; subst h; exact hdef)
    | simp at h

theorem sgr256_ok (tb : Tables) (h256 : ∀ p ∈ tb.c256, NoBr p.2) (a : Attrs) (attr n : Nat)
    (rest1 : List Nat) (ha : AttrsOK a) : AttrsOK (sgr256 tb a attr n rest1).1 := by
  unfold sgr256
  split
  · split
    · exact ha
    · split
      · exact ⟨fun x hx => lookup_noBr _ _ _ h256 hx, ha.2⟩
      · exact ⟨ha.1, fun x hx => lookup_noBr _ _ _ h256 hx⟩
  · exact ha

theorem sgrTrue_ok (a : Attrs) (attr n : Nat) (rest2 : List Nat) (ha : AttrsOK a) :
    AttrsOK (sgrTrue a attr n rest2).1 := by
  unfold sgrTrue
  split
  · split
    · rename_i r g b r3 _
      have hcs : NoBr ('#' :: (hex2 r ++ hex2 g ++ hex2 b)) := by
        unfold NoBr; rw [List.mem_cons]; rintro (hm | hm)
        · exact absurd hm (by decide)
        · simp only [List.mem_append] at hm
          rcases hm with (hm | hm) | hm
          · exact hex2_noBr _ hm
          · exact hex2_noBr _ hm
          · exact hex2_noBr _ hm
      simp only
      split
      · exact ⟨by intro x hx; simp at hx; subst hx; simpa using hcs, ha.2⟩
      · exact ⟨ha.1, by intro x hx; simp at hx; subst hx; simpa using hcs⟩
    · exact ha
  · exact ha

theorem sgrOne_ok (tb : Tables) (htb : tablesOK tb = true) (a : Attrs) (attr : Nat)
    (rest : List Nat) (ha : AttrsOK a) : AttrsOK (sgrOne tb a attr rest).1 := by
  obtain ⟨hfg, hbg, h256⟩ := tablesOK_mem tb htb
  unfold sgrOne
  split
  · rename_i c hc
    exact ⟨by intro x hx; simp at hx; subst hx; exact lookup_noBr _ _ _ hfg hc, ha.2⟩
  · split
    · rename_i c hc
      exact ⟨ha.1, by intro x hx; simp at hx; subst hx; exact lookup_noBr _ _ _ hbg hc⟩
    · split
      · rename_i a' hf
        exact sgrFlag_ok a a' attr hf ha
      · split
        · unfold sgrExt
          split
          · exact ha
          · exact sgrTrue_ok _ _ _ _ (sgr256_ok tb h256 _ _ _ _ ha)
        · exact ha

theorem sgrLoop_ok (tb : Tables) (htb : tablesOK tb = true) (fuel : Nat) (a : Attrs)
    (l : List Nat) (ha : AttrsOK a) : AttrsOK (sgrLoop tb fuel a l) := by
  induction fuel generalizing a l with
  | zero => simpa [sgrLoop] using ha
  | succ k ih =>
    cases l with
    | nil => simpa [sgrLoop] using ha
    | cons x xs =>
      simp only [sgrLoop]
      exact ih _ _ (sgrOne_ok tb htb a x xs ha)

theorem sgr_ok (tb : Tables) (htb : tablesOK tb = true) (a : Attrs) (l : List Nat)
    (ha : AttrsOK a) : AttrsOK (sgr tb a l) := by
  unfold sgr; exact sgrLoop_ok tb htb _ a _ ha


theorem join_noBr (parts : List Text) (h : ∀ p ∈ parts, NoBr p) : NoBr (join [' '] parts) := by
  induction parts with
  | nil => simp [join, NoBr]
  | cons p ps ih =>
    have hp := h p (by simp)
    have hps := ih (fun q hq => h q (by simp [hq]))
    cases ps with
    | nil => simpa [join] using hp
    | cons q qs =>
      simp only [join, NoBr, List.mem_append, List.mem_singleton] at hps ⊢
      rintro ((hm | hm) | hm)
      · exact hp hm
      · exact absurd hm (by decide)
      · exact hps hm

theorem truthy_noBr (o : Option Text) (c : Text) (h : ∀ x, o = some x → NoBr x)
    (ht : truthy o = some c) : NoBr c := by
  unfold truthy at ht
  split at ht
  · split at ht
    · simp at ht
    · simp at ht; subst ht; exact h _ rfl
  · simp at ht

theorem styleString_noBr (a : Attrs) (ha : AttrsOK a) : NoBr (styleString a) := by
  unfold styleString
  apply join_noBr
  intro p hp
  simp only [List.mem_append] at hp
  have kw : ∀ (b : Bool) (w : Text), NoBr w → p ∈ (if b = true then [w] else []) → NoBr p := by
    intro b w hw hm
    cases b <;> simp at hm
    subst hm; exact hw
  rcases hp with (((((((hp | hp) | hp) | hp) | hp) | hp) | hp) | hp) | hp
  · split at hp
    · rename_i c hc; simp at hp; subst hp; exact truthy_noBr _ _ ha.1 hc
    · simp at hp
  · split at hp
    · rename_i c hc; simp at hp; subst hp
      have := truthy_noBr _ _ ha.2 hc
      unfold NoBr at this ⊢
      simp only [List.mem_cons, not_or]
      exact ⟨by decide, by decide, by decide, this⟩
    · simp at hp
  · exact kw _ _ (by decide) hp
  · exact kw _ _ (by decide) hp
  · exact kw _ _ (by decide) hp
  · exact kw _ _ (by decide) hp
  · exact kw _ _ (by decide) hp
  · exact kw _ _ (by decide) hp
  · exact kw _ _ (by decide) hp

theorem findSub_zw_none (t : Text) (h : NoBr t) : findSub? zwMarker t = none := by
  have hz : zwMarker = '[' :: "ZeroWidthEscape]".toList := by decide
  induction t with
  | nil => rw [hz]; simp [findSub?]
  | cons x xs ih =>
    have hx : x ≠ '[' := fun e => h (by simp [e])
    have hxs : NoBr xs := fun m => h (by simp [m])
    unfold findSub?
    have : isPrefixOf' zwMarker (x :: xs) = false := by
      rw [hz]; simp [isPrefixOf']; intro e; exact absurd e.symm hx
    simp [this, ih hxs]

theorem visible_noBr (t tx : Text) (h : Option Nat) (ht : NoBr t) :
    visibleFrag ⟨t, tx, h⟩ = true := by
  simp [visibleFrag, findSub_zw_none t ht]

theorem not_visible_zw (tx : Text) (h : Option Nat) : visibleFrag ⟨zwMarker, tx, h⟩ = false := by
  have : (findSub? zwMarker zwMarker).isNone = false := by decide
  simpa [visibleFrag] using this

theorem fragText_replicate (st : Text) (n : Nat) (c : Char) (h : NoBr st) :
    fragText (List.replicate n ⟨st, [c], none⟩) = List.replicate n c := by
  induction n with
  | zero => rfl
  | succ k ih =>
    rw [List.replicate_succ, show (⟨st, [c], none⟩ : Frag) :: List.replicate k ⟨st, [c], none⟩ =
      [⟨st, [c], none⟩] ++ List.replicate k ⟨st, [c], none⟩ from rfl, fragText_append, ih]
    simp [fragText, visible_noBr st [c] none h, List.replicate_succ]

theorem interp_visible (tb : Tables) (htb : tablesOK tb = true) (toks : List Tok)
    (sty : Attrs × Text) (ha : AttrsOK sty.1) (hs : NoBr sty.2) :
    fragText (interp tb sty toks) = toks.flatMap Tok.visible := by
  induction toks generalizing sty with
  | nil => rfl
  | cons t ts ih =>
    simp only [interp, fragText_append, List.flatMap_cons]
    cases t with
    | chr c =>
      simp only [tokStep, Tok.visible]
      rw [ih sty ha hs]
      simp [fragText, visible_noBr sty.2 [c] none hs]
    | zw b =>
      simp only [tokStep, Tok.visible]
      rw [ih sty ha hs]
      simp [fragText, not_visible_zw]
    | esc2 c =>
      simp only [tokStep, Tok.visible]
      rw [ih sty ha hs]
      simp [fragText]
    | csi e p f =>
      simp only [tokStep, Tok.visible]
      by_cases hm : f = 'm'
      · have hne : f ≠ 'C' := by rw [hm]; decide
        simp only [hm, if_true]
        rw [ih _ (sgr_ok tb htb _ _ ha) (styleString_noBr _ (sgr_ok tb htb _ _ ha))]
        simp [fragText]
      · by_cases hC : f = 'C'
        · simp only [hC, if_true]
          rw [if_neg (by decide)]
          rw [ih sty ha hs, fragText_replicate _ _ _ hs]
        · simp only [if_neg hm, if_neg hC]
          rw [ih sty ha hs]
          simp [fragText]

/-- **Visible characters are preserved, in order.**  For colour tables whose names contain no
    `[` (re-checked on the generated tables on every run): the plain text of `ANSI(s)` is the input
    with every recognised control sequence removed (cursor-forward `CSI n C` standing for `n`
    spaces) and a truncated sequence at the end dropped. -/
theorem ansi_text_preserved (tb : Tables) (htb : tablesOK tb = true) (s : Text) :
    ∃ (toks : List Tok) (rest : Text),
      s = toks.flatMap Tok.src ++ rest ∧ (∀ t ∈ toks, t.WF) ∧ Incomplete rest ∧
      fragText (ansi tb s) = toks.flatMap Tok.visible := by
  obtain ⟨toks, rest, h1, h2, h3, h4⟩ := ansi_tokens tb s
  refine ⟨toks, rest, h1, h2, h3, ?_⟩
  rw [h4]
  exact interp_visible tb htb toks ({}, []) ⟨by simp, by simp⟩ (by simp [NoBr])


/-- the generated tables (re-extracted from `formatted_text/ansi.py` on every run) -/
def genTables : Tables :=
  { fg := Gen.C18.fgColors, bg := Gen.C18.bgColors, c256 := Gen.C18.colors256 }

/-- side condition of `ansi_text_preserved`, re-decided on the current tables -/
theorem gen_ok : tablesOK genTables = true := by decide +kernel

/-- `ansi_text_preserved` for the tables of the current tree -/
theorem ansi_text_preserved_gen (s : Text) :
    ∃ (toks : List Tok) (rest : Text),
      s = toks.flatMap Tok.src ++ rest ∧ (∀ t ∈ toks, t.WF) ∧ Incomplete rest ∧
      fragText (ansi genTables s) = toks.flatMap Tok.visible :=
  ansi_text_preserved genTables gen_ok s

/-! non-vacuity: a concrete input with every kind of token and a truncated tail -/
def exToks : List Tok :=
  [.chr 'a', .csi false ['3', '1', ';', '1'] 'm', .chr 'b', .zw ['z'], .chr SOH, .esc2 'Z',
   .csi true ['2'] 'C', .csi false [] 'J', .chr 'c']

example : (exToks.flatMap Tok.src ++ [ESC, '[', '4']) =
    ['a', ESC, '[', '3', '1', ';', '1', 'm', 'b', SOH, 'z', STX, SOH, ESC, 'Z', CSI8, '2', 'C',
     ESC, '[', 'J', 'c', ESC, '[', '4'] := by decide

example : ansi genTables (exToks.flatMap Tok.src ++ [ESC, '[', '4']) = interp genTables ({}, []) exToks ∧
    fragText (ansi genTables (exToks.flatMap Tok.src ++ [ESC, '[', '4'])) = ['a', 'b', SOH, ' ', ' ', 'c'] ∧
    exToks.flatMap Tok.visible = ['a', 'b', SOH, ' ', ' ', 'c'] := by decide +kernel

example : Incomplete [ESC, '[', '4'] :=
  Or.inr (Or.inr (Or.inr ⟨false, ['4'], rfl, by decide⟩))

end Ptk.C18
