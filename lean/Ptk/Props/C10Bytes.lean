/-
  C10 part 5 — the byte level.  `str.encode(enc, "replace")` followed by a terminal of the same
  encoding is the identity on encodable characters and turns every other character (lone
  surrogates for UTF-8, characters outside the code page for 8-bit encodings) into `?`:
  no byte reaches the terminal that it would read as anything but the characters of the text.

    * `utf8_roundtrip`, `utf8_lawful`      the written-out UTF-8 encoder / streaming decoder
    * `charmap_lawful`, `gen_codecs_ok`     every regenerated single-byte code page
    * `dec_encodeReplace`, `no_bad_byte`    ANY lawful codec: terminal view = text with `?`
    * `surrogate_replaced`, `utf8_no_c0_byte`
    * `flushStdout_*`, `outRun_wire`        `flush_stdout` and the `_buffer` of the output objects:
                                            flush boundaries never change the byte stream
-/
import Ptk.Props.C10
import Ptk.Model.C10Bytes
import Ptk.Gen.C10Codecs
namespace Ptk.C10
open Ptk.Py

/-! ### UTF-8 -/

theorem utf8Run_cons (st : USt) (b : Nat) (bs : Bytes) :
    utf8Run st (b :: bs) = (utf8Step st b).2 ++ utf8Run (utf8Step st b).1 bs := by
  cases st <;> rfl

theorem isCont_iff (b : Nat) : isCont b = true ↔ 0x80 ≤ b ∧ b ≤ 0xBF := by
  simp [isCont]

theorem ground_lead2 {b : Nat} (h : 0xC2 ≤ b ∧ b ≤ 0xDF) :
    utf8Ground b = (.cont 1 (b - 0xC0) 0x80 [b], []) := by
  have e1 : ¬ b < 0x80 := by omega
  simp [utf8Ground, e1, h.1, h.2]

theorem ground_lead3 {b : Nat} (h : 0xE0 ≤ b ∧ b ≤ 0xEF) :
    utf8Ground b = (.cont 2 (b - 0xE0) 0x800 [b], []) := by
  have e1 : ¬ b < 0x80 := by omega
  have e2 : ¬ (0xC2 ≤ b ∧ b ≤ 0xDF) := by omega
  simp [utf8Ground, e1, e2, h.1, h.2]

theorem ground_lead4 {b : Nat} (h : 0xF0 ≤ b ∧ b ≤ 0xF4) :
    utf8Ground b = (.cont 3 (b - 0xF0) 0x10000 [b], []) := by
  have e1 : ¬ b < 0x80 := by omega
  have e2 : ¬ (0xC2 ≤ b ∧ b ≤ 0xDF) := by omega
  have e3 : ¬ (0xE0 ≤ b ∧ b ≤ 0xEF) := by omega
  simp [utf8Ground, e1, e2, e3, h.1, h.2]

theorem step_mid {need acc lo : Nat} {pend : Bytes} {b : Nat} (hb : isCont b = true) (hn : 1 < need) :
    utf8Step (.cont need acc lo pend) b = (.cont (need - 1) (acc * 64 + (b - 0x80)) lo (pend ++ [b]), []) := by
  have : ¬ need ≤ 1 := by omega
  simp [utf8Step, hb, this]

theorem step_last {acc lo : Nat} {pend : Bytes} {b : Nat} (hb : isCont b = true)
    (hv : scalarOk lo (acc * 64 + (b - 0x80)) = true) :
    utf8Step (.cont 1 acc lo pend) b = (.ground, [.cp (acc * 64 + (b - 0x80))]) := by
  simp [utf8Step, hb, hv]

theorem step_ground (b : Nat) : utf8Step .ground b = utf8Ground b := rfl

/-- **UTF-8 round trip, one character**: whatever follows, a UTF-8 terminal reads the strict
    encoding of the code point `c` back as exactly the character `c` and continues in the ground
    state. -/
theorem utf8_roundtrip (c : Nat) (bs rest : Bytes) (h : utf8Enc c = some bs) :
    utf8Dec (bs ++ rest) = Item.cp c :: utf8Dec rest := by
  unfold utf8Enc at h
  unfold utf8Dec
  split at h
  · cases h
    rename_i h1
    simp [utf8Run_cons, utf8Step, utf8Ground, h1]
  · split at h
    · cases h
      rename_i h1 h2
      have l : 0xC2 ≤ 0xC0 + c / 64 ∧ 0xC0 + c / 64 ≤ 0xDF := by omega
      have c1 : isCont (0x80 + c % 64) = true := (isCont_iff _).mpr (by omega)
      have v : (0xC0 + c / 64 - 0xC0) * 64 + (0x80 + c % 64 - 0x80) = c := by omega
      have ok : scalarOk 0x80 ((0xC0 + c / 64 - 0xC0) * 64 + (0x80 + c % 64 - 0x80)) = true := by
        rw [v]; simp [scalarOk]; omega
      simp only [List.cons_append, List.nil_append, utf8Run_cons]
      rw [step_ground, ground_lead2 l]
      simp only [List.nil_append]
      rw [step_last c1 ok, v]
      rfl
    · split at h
      · split at h
        · cases h
        · cases h
          rename_i h1 h2 h3 h4
          have l : 0xE0 ≤ 0xE0 + c / 4096 ∧ 0xE0 + c / 4096 ≤ 0xEF := by omega
          have c1 : isCont (0x80 + c / 64 % 64) = true := (isCont_iff _).mpr (by omega)
          have c2 : isCont (0x80 + c % 64) = true := (isCont_iff _).mpr (by omega)
          have v : ((0xE0 + c / 4096 - 0xE0) * 64 + (0x80 + c / 64 % 64 - 0x80)) * 64 + (0x80 + c % 64 - 0x80) = c := by omega
          have ok : scalarOk 0x800 (((0xE0 + c / 4096 - 0xE0) * 64 + (0x80 + c / 64 % 64 - 0x80)) * 64 + (0x80 + c % 64 - 0x80)) = true := by
            rw [v]; simp [scalarOk]; omega
          simp only [List.cons_append, List.nil_append, utf8Run_cons]
          rw [step_ground, ground_lead3 l]
          simp only [List.nil_append]
          rw [step_mid c1 (by omega)]
          simp only [List.nil_append]
          rw [step_last c2 ok, v]
          rfl
      · split at h
        · cases h
          rename_i h1 h2 h3 h4
          have l : 0xF0 ≤ 0xF0 + c / 262144 ∧ 0xF0 + c / 262144 ≤ 0xF4 := by omega
          have c1 : isCont (0x80 + c / 4096 % 64) = true := (isCont_iff _).mpr (by omega)
          have c2 : isCont (0x80 + c / 64 % 64) = true := (isCont_iff _).mpr (by omega)
          have c3 : isCont (0x80 + c % 64) = true := (isCont_iff _).mpr (by omega)
          have v : (((0xF0 + c / 262144 - 0xF0) * 64 + (0x80 + c / 4096 % 64 - 0x80)) * 64 + (0x80 + c / 64 % 64 - 0x80)) * 64 + (0x80 + c % 64 - 0x80) = c := by omega
          have ok : scalarOk 0x10000 ((((0xF0 + c / 262144 - 0xF0) * 64 + (0x80 + c / 4096 % 64 - 0x80)) * 64 + (0x80 + c / 64 % 64 - 0x80)) * 64 + (0x80 + c % 64 - 0x80)) = true := by
            rw [v]; simp [scalarOk]; omega
          simp only [List.cons_append, List.nil_append, utf8Run_cons]
          rw [step_ground, ground_lead4 l]
          simp only [List.nil_append]
          rw [step_mid c1 (by omega)]
          simp only [List.nil_append]
          rw [step_mid c2 (by omega)]
          simp only [List.nil_append]
          rw [step_last c3 ok, v]
          rfl
        · cases h

-- "世" U+4E16, an emoji, and what the decoder makes of the raw C1 byte 0x9b / of a truncated sequence
example : utf8Enc 0x4E16 = some [0xE4, 0xB8, 0x96] ∧ utf8Enc 0x1F600 = some [0xF0, 0x9F, 0x98, 0x80] := by decide
example : utf8Dec [0x61, 0x9b, 0x33, 0xE4, 0xB8] = [.cp 0x61, .bad 0x9b, .cp 0x33, .bad 0xE4, .bad 0xB8] := by decide
example : utf8Dec [0xC0, 0x9b, 0xED, 0xB2, 0x9B] = [.bad 0xC0, .bad 0x9b, .bad 0xED, .bad 0xB2, .bad 0x9B] := by decide

/-- exactly the lone surrogates (and numbers that are not code points) are not encodable -/
theorem utf8Enc_none_iff (c : Nat) : utf8Enc c = none ↔ (isSurrogate c = true ∨ 0x110000 ≤ c) := by
  unfold utf8Enc isSurrogate
  simp only [Bool.and_eq_true, decide_eq_true_eq]
  constructor
  · intro h
    split at h
    · cases h
    · split at h
      · cases h
      · split at h
        · split at h
          · rename_i h3; exact Or.inl h3
          · cases h
        · split at h
          · cases h
          · omega
  · intro h
    rcases h with h | h
    · have a1 : ¬ c < 0x80 := by omega
      have a2 : ¬ c < 0x800 := by omega
      have a3 : c < 0x10000 := by omega
      simp [a1, a2, a3, h.1, h.2]
    · have a1 : ¬ c < 0x80 := by omega
      have a2 : ¬ c < 0x800 := by omega
      have a3 : ¬ c < 0x10000 := by omega
      have a4 : ¬ c < 0x110000 := by omega
      simp [a1, a2, a3, a4]

/-- **A lone surrogate never reaches a UTF-8 terminal as raw bytes**: `encode("utf-8", "replace")`
    sends the single byte `?` for it. -/
theorem surrogate_replaced {c : Nat} (h : isSurrogate c = true) : encRepl utf8 c = [QM] := by
  have hn : utf8Enc c = none := (utf8Enc_none_iff c).mpr (Or.inl h)
  simp only [encRepl, utf8, hn]
  decide

-- U+DC9B is what `os.fsdecode` / `surrogateescape` make of the raw byte 0x9b (8-bit CSI)
example : encodeReplace utf8 [0x61, 0xDC9B, 0x33, 0x31, 0x6d] = [0x61, 0x3f, 0x33, 0x31, 0x6d] := by decide

/-- every byte of the UTF-8 encoding of a character that is not a C0 control / DEL is ≥ 0x20 and
    ≠ 0x7F: the encoder never produces a C0 byte out of anything else -/
theorem utf8_no_c0_byte {c : Nat} (hc : isControl c = false) :
    ∀ b ∈ encRepl utf8 c, 0x20 ≤ b ∧ b ≠ 0x7f := by
  intro b hb
  simp only [isControl, Bool.or_eq_false_iff, decide_eq_false_iff_not, Bool.and_eq_false_iff] at hc
  simp only [encRepl, utf8, utf8Enc] at hb
  split at hb
  · rename_i bs h
    split at h
    · cases h; simp at hb; omega
    · split at h
      · cases h; simp at hb; omega
      · split at h
        · split at h
          · cases h
          · cases h; simp at hb; omega
        · split at h
          · cases h; simp at hb; omega
          · cases h
  · rename_i h
    have : b = QM := by simpa [QM] using hb
    subst this; decide

/-! ### any lawful codec -/

/-- a stateless, ASCII-compatible codec whose terminal reads every encodable character back -/
structure Lawful (C : Codec) : Prop where
  dec_nil : C.dec [] = []
  dec_enc : ∀ c bs rest, C.enc c = some bs → C.dec (bs ++ rest) = Item.cp c :: C.dec rest
  ascii : ∀ c, c < 0x80 → C.enc c = some [c]

theorem utf8_lawful : Lawful utf8 where
  dec_nil := rfl
  dec_enc := utf8_roundtrip
  ascii := by intro c hc; simp [utf8, utf8Enc, hc]

theorem encRepl_none {C : Codec} (hC : Lawful C) {c : Nat} (h : C.enc c = none) : encRepl C c = [QM] := by
  simp [encRepl, h, hC.ascii QM (by decide)]

theorem dec_encRepl {C : Codec} (hC : Lawful C) (c : Nat) (rest : Bytes) :
    C.dec (encRepl C c ++ rest) = Item.cp (repl C c) :: C.dec rest := by
  cases h : C.enc c with
  | some bs =>
    have : encRepl C c = bs := by simp [encRepl, h]
    rw [this, hC.dec_enc c bs rest h]
    simp [repl, h]
  | none =>
    rw [encRepl_none hC h, hC.dec_enc QM [QM] rest (hC.ascii QM (by decide))]
    simp [repl, h]

/-- **Terminal view of the encoded stream.**  For ANY text (any code points: controls, lone
    surrogates, characters outside the code page) and any lawful codec, a terminal of that encoding
    reads `text.encode(enc, "replace")` back as the text itself, with exactly the unencodable
    characters replaced by `?`. -/
theorem dec_encodeReplace {C : Codec} (hC : Lawful C) (t : CText) :
    C.dec (encodeReplace C t) = (t.map (repl C)).map Item.cp := by
  induction t with
  | nil => simpa [encodeReplace] using hC.dec_nil
  | cons c cs ih =>
    have : encodeReplace C (c :: cs) = encRepl C c ++ encodeReplace C cs := by simp [encodeReplace]
    rw [this, dec_encRepl hC, ih]
    rfl

/-- **No stray byte**: nothing in the encoded stream is read by the terminal as an ill-formed /
    undefined byte (in particular no raw C1 byte 0x80–0x9F in a UTF-8 stream). -/
theorem no_bad_byte {C : Codec} (hC : Lawful C) (t : CText) :
    ∀ it ∈ C.dec (encodeReplace C t), ∃ c, it = Item.cp c := by
  rw [dec_encodeReplace hC]
  intro it h
  simp only [List.map_map, List.mem_map] at h
  obtain ⟨c, _, rfl⟩ := h
  exact ⟨_, rfl⟩

example : utf8Dec (encodeReplace utf8 [0x61, 0xDC9B, 0x4E16, 0x9b]) = [.cp 0x61, .cp QM, .cp 0x4E16, .cp 0x9b] := by
  decide

theorem repl_cases (C : Codec) (c : Nat) : repl C c = c ∨ repl C c = QM := by
  unfold repl; split <;> simp

/-- replacement never creates a control character -/
theorem repl_clean (C : Codec) {t : CText} (h : Clean t) : Clean (t.map (repl C)) := by
  intro x hx
  simp only [List.mem_map] at hx
  obtain ⟨c, hc, rfl⟩ := hx
  rcases repl_cases C c with e | e
  · rw [e]; exact h c hc
  · rw [e]; decide

/-- replacement never creates an ESC -/
theorem repl_no_esc (C : Codec) {t : CText} (h : ESC ∉ t) : ESC ∉ t.map (repl C) := by
  intro hx
  simp only [List.mem_map] at hx
  obtain ⟨c, hc, he⟩ := hx
  rcases repl_cases C c with e | e
  · rw [e] at he; subst he; exact h hc
  · rw [e] at he; exact absurd he (by decide)

def IsAscii (t : CText) : Prop := ∀ c ∈ t, c < 0x80
def isAsciiB (t : CText) : Bool := t.all fun c => c < 0x80

theorem isAsciiB_iff (t : CText) : isAsciiB t = true ↔ IsAscii t := by simp [isAsciiB, IsAscii]

/-- ASCII text (every renderer-generated sequence) passes every lawful codec unchanged -/
theorem repl_ascii {C : Codec} (hC : Lawful C) {t : CText} (h : IsAscii t) : t.map (repl C) = t := by
  induction t with
  | nil => rfl
  | cons c cs ih =>
    have hc : repl C c = c := by simp [repl, hC.ascii c (h c (by simp))]
    simp only [List.map_cons, hc]
    rw [ih (fun x hx => h x (by simp [hx]))]

/-! ### single-byte code pages -/

theorem cmFind_mem {tbl : List (Nat × Nat)} {c b : Nat} (h : cmFind tbl c = some b) : (c, b) ∈ tbl := by
  induction tbl with
  | nil => simp [cmFind] at h
  | cons kb rest ih =>
    obtain ⟨k, b'⟩ := kb
    simp only [cmFind] at h
    split at h
    · cases h
    · split at h
      · rename_i hk; cases h; simp [hk]
      · simp [ih h]

/-- **Every code page satisfying the decidable side conditions is lawful.** -/
theorem charmap_lawful {tbl : List (Nat × Nat)} {dt : List (Option Nat)} (h : charmapOk tbl dt = true) :
    Lawful (charmap tbl dt) where
  dec_nil := rfl
  dec_enc := by
    intro c bs rest he
    simp only [charmapOk, Bool.and_eq_true] at h
    simp only [charmap, cmEnc, Option.map_eq_some_iff] at he
    obtain ⟨b, hb, rfl⟩ := he
    have := List.all_eq_true.mp h.1 _ (cmFind_mem hb)
    simp only [beq_iff_eq] at this
    simp [charmap, cmDec, this]
  ascii := by
    intro c hc
    simp only [charmapOk, Bool.and_eq_true] at h
    have := List.all_eq_true.mp h.2 c (List.mem_range.mpr hc)
    simp only [beq_iff_eq] at this
    simp [charmap, cmEnc, this]

/-- **Side conditions re-decided by the kernel on the code pages regenerated from the running
    interpreter** (ascii, iso8859-1, iso8859-15, cp1252, cp437, cp850, koi8-r, mac-roman). -/
theorem gen_codecs_ok : (Gen.C10.charmaps.all fun e => charmapOk e.2.1 e.2.2) = true := by
  decide +kernel

theorem gen_codec_lawful {e : String × List (Nat × Nat) × List (Option Nat)} (he : e ∈ Gen.C10.charmaps) :
    Lawful (charmap e.2.1 e.2.2) :=
  charmap_lawful (List.all_eq_true.mp gen_codecs_ok e he)

-- latin-1: the lone surrogate U+DC9B and "世" become `?`; a real U+009B would be the byte 0x9b, which
-- a latin-1 terminal reads as the control character U+009B (so it must never be in cell text)
example : encodeReplace (charmap Gen.C10.enc_iso8859_1 Gen.C10.dec_iso8859_1) [0x61, 0xDC9B, 0x4E16, 0xE9] =
    [0x61, 0x3f, 0x3f, 0xE9] := by decide +kernel
example : (charmap Gen.C10.enc_iso8859_1 Gen.C10.dec_iso8859_1).dec [0x9b] = [.cp 0x9b] := by decide +kernel
-- cp1252: the euro sign is the byte 0x80, which a cp1252 terminal reads as the euro sign
example : encodeReplace (charmap Gen.C10.enc_cp1252 Gen.C10.dec_cp1252) [0x20AC, 0x9b] = [0x80, 0x3f] ∧
    (charmap Gen.C10.enc_cp1252 Gen.C10.dec_cp1252).dec [0x80, 0x81] = [.cp 0x20AC, .bad 0x81] := by decide +kernel

/-! ### `flush_stdout` -/

/-- binary path: the stream's `buffer` receives `data.encode(stdout.encoding or "utf-8", "replace")` —
    whatever error handler the stream itself is configured with -/
theorem flushStdout_binary (enc : Option Codec) (data : CText) :
    flushStdout { hasEncoding := true, hasBuffer := true, encoding := enc } data =
      .bytes (encodeReplace (enc.getD utf8) data) := rfl

/-- text path (no `buffer` or no `encoding`, e.g. `StringIO`, Jupyter's `OutStream`): the stream
    receives the text unchanged -/
theorem flushStdout_text (s : Stream) (data : CText) (h : (s.hasEncoding && s.hasBuffer) = false) :
    flushStdout s data = .text data := by
  simp [flushStdout, h]

/-- **What a terminal reads for one `flush_stdout`** on a binary stream with a lawful codec. -/
theorem flushStdout_view {C : Codec} (hC : Lawful C) (data : CText) :
    ∃ bs, flushStdout { hasEncoding := true, hasBuffer := true, encoding := some C } data = .bytes bs ∧
      C.dec bs = (data.map (repl C)).map Item.cp :=
  ⟨_, rfl, dec_encodeReplace hC data⟩

example : ∃ bs, flushStdout { hasEncoding := true, hasBuffer := true, encoding := none } [0xDC9B, 0x41] = .bytes bs ∧
    bs = [0x3f, 0x41] := ⟨_, rfl, by decide⟩

/-! ### the `_buffer` of the output objects -/

theorem encodeReplace_append (C : Codec) (a b : CText) :
    encodeReplace C (a ++ b) = encodeReplace C a ++ encodeReplace C b := by
  simp [encodeReplace]

theorem outRun_wire_gen (C : Codec) (vt : Bool) (ops : List OutOp) (buf : List CText) :
    wireBytes C (outRun vt buf ops).2 ++ encodeReplace C (outRun vt buf ops).1.flatten =
      encodeReplace C (buf.flatten ++ written vt ops) := by
  induction ops generalizing buf with
  | nil => simp [outRun, wireBytes, written]
  | cons op ops ih =>
    cases op with
    | write d =>
      simp only [outRun, outStep, written, List.nil_append]
      rw [ih]; simp
    | writeRaw d =>
      simp only [outRun, outStep, written, List.nil_append]
      rw [ih]; simp
    | flush =>
      by_cases he : buf.isEmpty = true
      · have hb : buf = [] := List.isEmpty_iff.mp he
        subst hb
        simp only [outRun, outStep, written, List.isEmpty_nil, if_true, List.nil_append]
        exact ih []
      · simp only [outRun, outStep, written, he, if_false, Bool.false_eq_true]
        have := ih []
        simp only [wireBytes, List.flatten_nil, List.nil_append] at this
        simp only [wireBytes, List.flatMap_append, List.flatMap_cons, List.flatMap_nil, List.append_nil,
          List.append_assoc]
        rw [this, encodeReplace_append]

/-- **Flush boundaries never change the byte stream.**  For every sequence of `write` /
    `write_raw` / `flush` calls on a `Vt100_Output` (`vt = true`) or `PlainTextOutput`: the bytes
    sent so far, followed by the encoding of what is still buffered, are the encoding of
    everything written, in call order — no flush can split, reorder, duplicate or drop a piece,
    and (the codec being stateless) cannot cut a character in two. -/
theorem outRun_wire (C : Codec) (vt : Bool) (ops : List OutOp) :
    wireBytes C (outRun vt [] ops).2 ++ encodeReplace C (outRun vt [] ops).1.flatten =
      encodeReplace C (written vt ops) := by
  simpa using outRun_wire_gen C vt ops []

/-- an empty `_buffer` means `flush()` does not touch the stream at all -/
theorem flush_empty (vt : Bool) : outStep vt [] .flush = ([], none) := rfl

example :
    outRun true [] [.write [0x61, ESC], .flush, .flush, .writeRaw [ESC, 0x5b, 0x6d], .write [0xDC9B], .flush, .write [0x62]] =
      ([[0x62]], [[0x61, QM], [ESC, 0x5b, 0x6d, 0xDC9B]]) := by decide

/-- the safe writer of a `Vt100_Output` is the only difference to `PlainTextOutput` -/
theorem written_plain_eq (ops : List OutOp) (h : ∀ d, OutOp.write d ∈ ops → ESC ∉ d) :
    written true ops = written false ops := by
  induction ops with
  | nil => rfl
  | cons op ops ih =>
    have ih' := ih (fun d hd => h d (by simp [hd]))
    cases op with
    | write d =>
      have hd := h d (by simp)
      have : safeWrite d = d := by
        simp only [safeWrite]
        conv => rhs; rw [← List.map_id d]
        apply List.map_congr_left
        intro c hc
        have : c ≠ ESC := fun e => hd (e ▸ hc)
        simp [this]
      simp [written, this, ih']
    | writeRaw d => simp [written, ih']
    | flush => simp [written, ih']

end Ptk.C10
