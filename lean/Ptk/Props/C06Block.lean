/-
  C06 — cell CONTENTS for screens with multi-character cells made of narrow characters — the way `Char` displays
  control characters (`^A`: two columns, `<80>`: four columns) — and with combining (zero-width) characters inside
  a cell: a cell of width `k` holds `k` width-1 characters (plus any number of zero-width ones) and is followed by
  `k - 1` empty cells, as `Window._copy_body` writes them; on the terminal every narrow character has its own
  column (`paintB`), zero-width characters are not in the grid.

    write_glyphs, write_block, outputChar_block, colLoopB_spec, rowStepB_spec, rowLoopB_spec, diff_masterB
    diff_correct_block, diff_done_block, no_scroll_block, diff_confined_block      one call of the differ
    render_seq_block, render_seq_last_block, incremental_eq_scratch_block          any sequence of operations
    rowFit_of_brow, brow_of_check, blockScreen_of_check                            the side conditions, decidably

  (Screens that contain BOTH wide characters and multi-character cells are covered by neither this file nor
  `Ptk.Props.C06WideCells`: for them only the geometry theorems of `Ptk.Props.C06Wide` apply.)
-/
import Ptk.Props.C06WideCells
namespace Ptk.C06
open Ptk.Py

variable (cw : Char → Nat)

/-! ### cells made of several narrow characters (`^A`, `<80>`) and of combining characters -/

/-- a printable character that occupies no column (combining) -/
def ZeroCh (ch : Char) : Prop := 32 ≤ ch.toNat ∧ ch.toNat ≠ 127 ∧ cw ch = 0

/-- the characters of a text that occupy a column -/
def glyphs (t : Text) : Text := t.filter fun ch => cw ch == 1

/-- a cell as `Char` builds it from narrow characters: some width-1 characters (`^A`: two, `<80>`: four, `a`: one),
    possibly with zero-width (combining) characters between them; `Char.width` is the number of columns -/
structure BlockHead (c : Cell) : Prop where
  chars : ∀ ch ∈ c.txt, Plain cw ch ∨ ZeroCh cw ch
  width : c.width = (glyphs cw c.txt).length
  pos : 1 ≤ c.width

theorem glyphs_cons_plain (ch : Char) (t : Text) (h : Plain cw ch) : glyphs cw (ch :: t) = ch :: glyphs cw t := by
  simp [glyphs, h.2.2]

theorem glyphs_cons_zero (ch : Char) (t : Text) (h : ZeroCh cw ch) : glyphs cw (ch :: t) = glyphs cw t := by
  simp [glyphs, h.2.2]

/-- writing a text of narrow and zero-width characters that fits on the line, on a terminal without wide
    characters (autowrap off): column `vc + j` gets the `j`-th narrow character, with the current attributes -/
theorem write_glyphs : ∀ (txt : Text) (t : Term) (vc : Nat), (∀ ch ∈ txt, Plain cw ch ∨ ZeroCh cw ch) →
    t.col = min vc (t.w - 1) → vc + (glyphs cw txt).length ≤ t.w → t.autowrap = false → NoCont t →
    NoCont (txt.foldl (Term.putChar cw) t) ∧
    (∀ y x, (txt.foldl (Term.putChar cw) t).cells y x =
      if y = t.row ∧ vc ≤ x ∧ x < vc + (glyphs cw txt).length then
        ⟨[(glyphs cw txt).getD (x - vc) ' '], t.sgr⟩
      else t.cells y x) := by
  intro txt
  induction txt with
  | nil =>
    intro t vc _ _ _ _ hn
    refine ⟨hn, ?_⟩
    intro y x
    have : ¬ (y = t.row ∧ vc ≤ x ∧ x < vc + (glyphs cw []).length) := by
      simp [glyphs]
    simp [this]
  | cons c cs ih =>
    intro t vc hch hcol hfit haw hn
    have hc := hch c (by simp)
    have hch' : ∀ ch ∈ cs, Plain cw ch ∨ ZeroCh cw ch := fun ch h => hch ch (by simp [h])
    simp only [List.foldl_cons]
    rcases hc with hp | hz
    · -- a narrow character
      rw [glyphs_cons_plain cw c cs hp] at hfit ⊢
      simp only [List.length_cons] at hfit ⊢
      have hcol' : t.col = vc := by rw [hcol]; omega
      rw [putChar_plain cw t c hp]
      have hpg := putGlyph_one t c (by omega) haw hn
      generalize ht1 : t.putGlyph c 1 = t1 at hpg ⊢
      have e_w : t1.w = t.w := by rw [hpg]
      have e_row : t1.row = t.row := by rw [hpg]
      have e_sgr : t1.sgr = t.sgr := by rw [hpg]
      have e_aw : t1.autowrap = false := by rw [hpg]; exact haw
      have e_col : t1.col = min (vc + 1) (t1.w - 1) := by
        rw [hpg]; simp only [hcol']; split <;> omega
      have e_cells : ∀ y' x', t1.cells y' x' = if y' = t.row ∧ x' = vc then ⟨[c], t.sgr⟩ else t.cells y' x' := by
        intro y' x'; rw [hpg]; simp only [hcol']
      have hn1 : NoCont t1 := by
        intro y' x'; rw [e_cells]; split
        · simp
        · exact hn y' x'
      obtain ⟨i1, i2⟩ := ih t1 (vc + 1) hch' e_col (by rw [e_w]; omega) e_aw hn1
      refine ⟨i1, ?_⟩
      intro y x
      rw [i2, e_row, e_sgr, e_cells]
      by_cases hy : y = t.row
      · by_cases hx : x = vc
        · subst hx
          have a1 : ¬ (y = t.row ∧ x + 1 ≤ x ∧ x < x + 1 + (glyphs cw cs).length) := by omega
          have a2 : y = t.row ∧ x ≤ x ∧ x < x + ((glyphs cw cs).length + 1) := ⟨hy, by omega, by omega⟩
          rw [if_neg a1, if_pos a2, if_pos ⟨hy, rfl⟩]
          simp
        · by_cases hin : vc + 1 ≤ x ∧ x < vc + 1 + (glyphs cw cs).length
          · have a2 : y = t.row ∧ vc ≤ x ∧ x < vc + ((glyphs cw cs).length + 1) := ⟨hy, by omega, by omega⟩
            have a1 : y = t.row ∧ vc + 1 ≤ x ∧ x < vc + 1 + (glyphs cw cs).length := ⟨hy, hin.1, hin.2⟩
            rw [if_pos a1, if_pos a2]
            have : x - vc = (x - (vc + 1)) + 1 := by omega
            rw [this, List.getD_cons_succ]
          · have a1 : ¬ (y = t.row ∧ vc + 1 ≤ x ∧ x < vc + 1 + (glyphs cw cs).length) := fun h => hin h.2
            have a2 : ¬ (y = t.row ∧ vc ≤ x ∧ x < vc + ((glyphs cw cs).length + 1)) := by
              intro h; omega
            have a3 : ¬ (y = t.row ∧ x = vc) := fun h => hx h.2
            rw [if_neg a1, if_neg a2, if_neg a3]
      · have a1 : ¬ (y = t.row ∧ vc + 1 ≤ x ∧ x < vc + 1 + (glyphs cw cs).length) := fun h => hy h.1
        have a2 : ¬ (y = t.row ∧ vc ≤ x ∧ x < vc + ((glyphs cw cs).length + 1)) := fun h => hy h.1
        have a3 : ¬ (y = t.row ∧ x = vc) := fun h => hy h.1
        rw [if_neg a1, if_neg a2, if_neg a3]
    · -- a zero-width character: the terminal model does not represent it
      rw [glyphs_cons_zero cw c cs hz] at hfit ⊢
      have : Term.putChar cw t c = t := by
        rw [putChar_printable cw t c hz.1 hz.2.1]; simp [hz.2.2]
      rw [this]
      exact ih t vc hch' hcol hfit haw hn


theorem txtWidth_glyphs : ∀ (t : Text), (∀ ch ∈ t, Plain cw ch ∨ ZeroCh cw ch) →
    txtWidth cw t = (glyphs cw t).length := by
  intro t
  induction t with
  | nil => intro _; rfl
  | cons c cs ih =>
    intro h
    have hc := h c (by simp)
    have := ih (fun ch hh => h ch (by simp [hh]))
    rcases hc with hp | hz
    · rw [glyphs_cons_plain cw c cs hp]
      simp only [txtWidth, List.map_cons, List.sum_cons, List.length_cons] at this ⊢
      rw [hp.2.2, this]; omega
    · rw [glyphs_cons_zero cw c cs hz]
      simp only [txtWidth, List.map_cons, List.sum_cons] at this ⊢
      rw [hz.2.2, this]; omega

theorem cellOk_of_block (c : Cell) (h : BlockHead cw c) : CellOk cw c := by
  refine ⟨?_, ?_, h.pos⟩
  · intro ch hch
    rcases h.chars ch hch with hp | hz
    · exact ⟨hp.1, hp.2.1⟩
    · exact ⟨hz.1, hz.2.1⟩
  · rw [txtWidth_glyphs cw c.txt h.chars, h.width]

/-- what the terminal shows at column `c + j` of a block cell written at column `c` -/
def blockCell (a : Nat → Attrs) (nc : Cell) (j : Nat) : TCell := ⟨[(glyphs cw nc.txt).getD j ' '], a nc.style⟩

theorem write_block (e : Env) (T : Term) (c y : Nat) (nc : Cell)
    (g : Geo e T ⟨c, y⟩) (hfit : c + nc.width ≤ e.w) (hh : BlockHead cw nc) (hn : NoCont T)
    (hs : T.sgr = e.attrsOf nc.style) :
    Good e (execCmd cw T (.write nc.txt)) ⟨c + nc.width, y⟩ (some nc.style) ∧
    Frame T (execCmd cw T (.write nc.txt)) ∧ NoCont (execCmd cw T (.write nc.txt)) ∧
    (∀ y' x', (execCmd cw T (.write nc.txt)).cells y' x' =
        if y' = y ∧ c ≤ x' ∧ x' < c + nc.width then blockCell cw e.attrsOf nc (x' - c) else T.cells y' x') ∧
    (∀ p ∈ (execCmd cw T (.write nc.txt)).log, p ∈ T.log ∨ (p.1 = y ∧ c ≤ p.2 ∧ p.2 < c + nc.width)) := by
  have ok := cellOk_of_block cw nc hh
  obtain ⟨a1, a2, a3, a4⟩ := write_cell_geo cw e T c y nc g ok hfit
  obtain ⟨b1, b2⟩ := write_glyphs cw nc.txt T c hh.chars (by rw [g.col, g.w])
    (by rw [← hh.width, g.w]; exact hfit) g.aw hn
  refine ⟨⟨a1, by simp only [SgrOk]; rw [a3]; exact hs⟩, a2, b1, ?_, a4⟩
  intro y' x'
  simp only [execCmd]
  rw [b2, g.row, ← hh.width, hs]
  rfl

theorem outputChar_block (e : Env) (T : Term) (c y : Nat) (last : Option Nat) (nc : Cell)
    (g : Good e T ⟨c, y⟩ last) (hfit : c + nc.width ≤ e.w) (hh : BlockHead cw nc) (hn : NoCont T) :
    Good e (exec cw T (outputChar e last nc).1) ⟨c + nc.width, y⟩ (outputChar e last nc).2 ∧
    Frame T (exec cw T (outputChar e last nc).1) ∧
    NoCont (exec cw T (outputChar e last nc).1) ∧
    (∀ y' x', (exec cw T (outputChar e last nc).1).cells y' x' =
        if y' = y ∧ c ≤ x' ∧ x' < c + nc.width then blockCell cw e.attrsOf nc (x' - c) else T.cells y' x') ∧
    (∀ p ∈ (exec cw T (outputChar e last nc).1).log,
      p ∈ T.log ∨ (p.1 = y ∧ c ≤ p.2 ∧ p.2 < c + nc.width)) := by
  unfold outputChar
  by_cases h1 : last = some nc.style
  · simp only [h1, if_true, exec_cons, exec_nil]
    have hs : T.sgr = e.attrsOf nc.style := by have := g.sgr; rw [h1] at this; exact this
    exact write_block cw e T c y nc g.geo hfit hh hn hs
  · simp only [h1, if_false]
    by_cases h2 : needAttrs e.rawOf last (e.rawOf nc.style) = true
    · simp only [h2, if_true, List.cons_append, List.nil_append, exec_cons, exec_nil]
      have g' : Geo e (execCmd cw T (.setAttrs (e.rawOf nc.style) e.depth (e.attrsOf nc.style))) ⟨c, y⟩ :=
        ⟨g.geo.w, g.geo.wpos, g.geo.row, g.geo.col, g.geo.rowlt, g.geo.aw⟩
      obtain ⟨a1, a2, a3, a4, a5⟩ :=
        write_block cw e (execCmd cw T (.setAttrs (e.rawOf nc.style) e.depth (e.attrsOf nc.style))) c y nc g' hfit hh
          hn rfl
      exact ⟨a1, ⟨a2.h, a2.top, a2.scrolled, a2.oob, a2.visible⟩, a3, a4, a5⟩
    · simp only [h2, Bool.false_eq_true, if_false, List.nil_append, exec_cons, exec_nil]
      have hs : T.sgr = e.attrsOf nc.style := by
        cases last with
        | none => simp [needAttrs] at h2
        | some s =>
          simp [needAttrs] at h2
          have := g.sgr
          simp only [SgrOk] at this
          rw [this]; simp only [Env.attrsOf, h2.2]
      exact write_block cw e T c y nc g.geo hfit hh hn hs


/-! ### rows of block cells -/

/-- the column at which the cell covering column `x` starts: the nearest cell at or left of `x` whose text is
    not empty -/
def own (row : List Cell) : Nat → Nat
  | 0 => 0
  | x + 1 => if (cellAt row (x + 1)).txt = [] then own row x else x + 1

/-- what the terminal must show at column `x` of a row of block cells -/
def paintB (a : Nat → Attrs) (row : List Cell) (x : Nat) : TCell :=
  blockCell cw a (cellAt row (own row x)) (x - own row x)

/-- structure of a row as `Window._copy_body` writes it: every cell is a block head or the empty cell behind one;
    a head of width `k` is followed by exactly `k - 1` empty cells -/
def BRow (row : List Cell) : Prop :=
  ∀ x, (BlockHead cw (cellAt row x) ∨ ContCell (cellAt row x)) ∧
       (BlockHead cw (cellAt row x) → ∀ j, 1 ≤ j → j < (cellAt row x).width → ContCell (cellAt row (x + j))) ∧
       (BlockHead cw (cellAt row x) → ¬ ContCell (cellAt row (x + (cellAt row x).width))) ∧
       (ContCell (cellAt row x) → 0 < x)

theorem block_txt_ne (c : Cell) (h : BlockHead cw c) : c.txt ≠ [] := by
  intro ht
  have := h.width
  rw [ht] at this
  have hp := h.pos
  simp [glyphs] at this
  omega

theorem block_not_cont (c : Cell) (h : BlockHead cw c) : ¬ ContCell c :=
  fun hc => block_txt_ne cw c h hc.1

theorem own_head (row : List Cell) (x : Nat) (h : (cellAt row x).txt ≠ []) : own row x = x := by
  cases x with
  | zero => rfl
  | succ x => simp [own, h]

theorem own_block (row : List Cell) (hb : BRow cw row) (c : Nat) (hh : BlockHead cw (cellAt row c)) :
    ∀ j, j < (cellAt row c).width → own row (c + j) = c := by
  intro j
  induction j with
  | zero => intro _; exact own_head row c (block_txt_ne cw _ hh)
  | succ j ih =>
    intro hj
    have hc := (hb c).2.1 hh (j + 1) (by omega) hj
    have : c + (j + 1) = (c + j) + 1 := by omega
    rw [this, own]
    have ht : (cellAt row (c + j + 1)).txt = [] := by rw [← this]; exact hc.1
    simp only [ht, if_true]
    exact ih (by omega)

theorem colLoopB_spec (e : Env) (s : Screen) (y : Nat) (newRow prevRow : List Cell) (n : Nat)
    (hn : n ≤ e.w) (hb : BRow cw newRow)
    (hend : ∀ c, c < n → c + (cellAt newRow c).width ≤ n) :
    ∀ (fuel c : Nat) (pos : Point) (last : Option Nat) (T : Term),
      n ≤ c + fuel → ¬ ContCell (cellAt newRow c) → Good e T pos last → NoCont T → y < T.h →
      Good e (exec cw T (colLoop e s y newRow prevRow n fuel c pos last).cmds)
        (colLoop e s y newRow prevRow n fuel c pos last).pos
        (colLoop e s y newRow prevRow n fuel c pos last).last ∧
      Frame T (exec cw T (colLoop e s y newRow prevRow n fuel c pos last).cmds) ∧
      NoCont (exec cw T (colLoop e s y newRow prevRow n fuel c pos last).cmds) ∧
      (∀ y' x', (exec cw T (colLoop e s y newRow prevRow n fuel c pos last).cmds).cells y' x' =
        if y' = y ∧ c ≤ x' ∧ x' < n ∧ differs newRow prevRow (own newRow x') then paintB cw e.attrsOf newRow x'
        else T.cells y' x') ∧
      (∀ p ∈ (exec cw T (colLoop e s y newRow prevRow n fuel c pos last).cmds).log,
        p ∈ T.log ∨ (p.1 = y ∧ p.2 < n)) := by
  intro fuel
  induction fuel with
  | zero =>
    intro c pos last T hf _ g hnc hy
    simp only [colLoop, exec_nil]
    refine ⟨g, Frame.refl T, hnc, ?_, fun p hp => Or.inl hp⟩
    intro y' x'
    have : ¬ (y' = y ∧ c ≤ x' ∧ x' < n ∧ differs newRow prevRow (own newRow x')) := by
      intro h; omega
    simp [this]
  | succ fuel ih =>
    intro c pos last T hf hncont g hnc hy
    rw [colLoop]
    by_cases hc : c < n
    · have hh : BlockHead cw (cellAt newRow c) := by
        rcases (hb c).1 with h | h
        · exact h
        · exact absurd h hncont
      have hk1 : 1 ≤ (cellAt newRow c).width := hh.pos
      have hcw : (if (cellAt newRow c).width = 0 then 1 else (cellAt newRow c).width) = (cellAt newRow c).width := by
        have : ¬ (cellAt newRow c).width = 0 := by omega
        simp [this]
      have hck := hend c hc
      have hnext : ¬ ContCell (cellAt newRow (c + (cellAt newRow c).width)) := (hb c).2.2.1 hh
      have hown := own_block cw newRow hb c hh
      simp only [hc, if_true, hcw]
      generalize hk : (cellAt newRow c).width = k at *
      by_cases hd : (cellAt newRow c).txt ≠ (cellAt prevRow c).txt ∨
          (cellAt newRow c).style ≠ (cellAt prevRow c).style
      · simp only [hd, if_true]
        obtain ⟨m1, m2, m3, m4⟩ := moveCursor_spec cw e T pos last ⟨c, y⟩ g hy
        generalize moveCursor e.w pos last ⟨c, y⟩ = m at *
        rw [exec_append, exec_append, exec_zwe, exec_append]
        have hnc1 : NoCont (exec cw T m.1) := by intro y' x'; rw [m3]; exact hnc y' x'
        obtain ⟨o1, o2, o3, o4, o5⟩ :=
          outputChar_block cw e (exec cw T m.1) c y m.2 (cellAt newRow c) m1 (by rw [hk]; omega) hh hnc1
        rw [hk] at o1 o4 o5
        generalize outputChar e m.2 (cellAt newRow c) = o at *
        have hy3 : y < (exec cw (exec cw T m.1) o.1).h := by rw [o2.h, m2.h]; exact hy
        obtain ⟨r1, r2, r3, r4, r5⟩ :=
          ih (c + k) ⟨c + k, y⟩ o.2 (exec cw (exec cw T m.1) o.1) (by omega) hnext o1 o3 hy3
        refine ⟨r1, Frame.trans (Frame.trans m2 o2) r2, r3, ?_, ?_⟩
        · intro y' x'
          rw [r4, o4, m3]
          by_cases hyy : y' = y
          · by_cases hin : c ≤ x' ∧ x' < c + k
            · -- a column of the block just written
              have hj : x' - c < k := by omega
              have ho : own newRow x' = c := by
                have := hown (x' - c) hj
                have e2 : c + (x' - c) = x' := by omega
                rw [e2] at this; exact this
              have a1 : ¬ (y' = y ∧ c + k ≤ x' ∧ x' < n ∧ differs newRow prevRow (own newRow x')) := by
                intro h; omega
              have a2 : y' = y ∧ c ≤ x' ∧ x' < n ∧ differs newRow prevRow (own newRow x') :=
                ⟨hyy, hin.1, by omega, by rw [ho]; exact hd⟩
              rw [if_neg a1, if_pos a2, if_pos ⟨hyy, hin.1, hin.2⟩]
              simp only [paintB, ho]
            · have a3 : ¬ (y' = y ∧ c ≤ x' ∧ x' < c + k) := fun h => hin h.2
              rw [if_neg a3]
              have : (y' = y ∧ c + k ≤ x' ∧ x' < n ∧ differs newRow prevRow (own newRow x')) ↔
                  (y' = y ∧ c ≤ x' ∧ x' < n ∧ differs newRow prevRow (own newRow x')) := by
                constructor
                · rintro ⟨a, b, d, f⟩; exact ⟨a, by omega, d, f⟩
                · rintro ⟨a, b, d, f⟩; exact ⟨a, by omega, d, f⟩
              simp only [this]
          · have a1 : ¬ (y' = y ∧ c + k ≤ x' ∧ x' < n ∧ differs newRow prevRow (own newRow x')) := fun h => hyy h.1
            have a2 : ¬ (y' = y ∧ c ≤ x' ∧ x' < n ∧ differs newRow prevRow (own newRow x')) := fun h => hyy h.1
            have a3 : ¬ (y' = y ∧ c ≤ x' ∧ x' < c + k) := fun h => hyy h.1
            rw [if_neg a1, if_neg a2, if_neg a3]
        · intro p hp
          rcases r5 p hp with h | h
          · rcases o5 p h with h | h
            · left; rw [m4] at h; exact h
            · right; exact ⟨h.1, by omega⟩
          · right; exact h
      · simp only [hd, if_false]
        obtain ⟨r1, r2, r3, r4, r5⟩ := ih (c + k) pos last T (by omega) hnext g hnc hy
        refine ⟨r1, r2, r3, ?_, r5⟩
        intro y' x'
        rw [r4]
        have : (y' = y ∧ c + k ≤ x' ∧ x' < n ∧ differs newRow prevRow (own newRow x')) ↔
            (y' = y ∧ c ≤ x' ∧ x' < n ∧ differs newRow prevRow (own newRow x')) := by
          constructor
          · rintro ⟨a, b, d, f⟩; exact ⟨a, by omega, d, f⟩
          · rintro ⟨a, b, d, f⟩
            refine ⟨a, ?_, d, f⟩
            by_cases hin : x' < c + k
            · have hj : x' - c < k := by omega
              have ho : own newRow x' = c := by
                have := hown (x' - c) hj
                have e2 : c + (x' - c) = x' := by omega
                rw [e2] at this; exact this
              rw [ho] at f
              exact absurd f hd
            · omega
        simp only [this]
    · simp only [hc, if_false, exec_nil]
      refine ⟨g, Frame.refl T, hnc, ?_, fun p hp => Or.inl hp⟩
      intro y' x'
      have : ¬ (y' = y ∧ c ≤ x' ∧ x' < n ∧ differs newRow prevRow (own newRow x')) := by
        intro h; omega
      simp [this]


/-- contents of row `y` after the differ has processed it, as a function of what the row showed before -/
def rowAfterB (e : Env) (s prev : Screen) (y : Nat) (old : Nat → TCell) (x : Nat) : TCell :=
  if x < lineLen e (s.row y) then
    (if differs (s.row y) (prev.row y) (own (s.row y) x) then paintB cw e.attrsOf (s.row y) x else old x)
  else if lineLen e (s.row y) < lineLen e (prev.row y) then TCell.blank else old x

/-- no block of the part of the row the differ looks at straddles its end -/
def RowFit (e : Env) (row : List Cell) : Prop :=
  ∀ c, c < lineLen e row → c + (cellAt row c).width ≤ lineLen e row

theorem rowStepB_spec (e : Env) (s prev : Screen) (y : Nat) (pos : Point) (last : Option Nat) (T : Term)
    (hb : BRow cw (s.row y)) (hfit : RowFit e (s.row y))
    (g : Good e T pos last) (hnc : NoCont T) (hy : y < T.h) :
    Good e (exec cw T (rowStep e s prev y pos last).cmds) (rowStep e s prev y pos last).pos
      (rowStep e s prev y pos last).last ∧
    Frame T (exec cw T (rowStep e s prev y pos last).cmds) ∧
    NoCont (exec cw T (rowStep e s prev y pos last).cmds) ∧
    (∀ y' x', (exec cw T (rowStep e s prev y pos last).cmds).cells y' x' =
      if y' = y then rowAfterB cw e s prev y (T.cells y) x' else T.cells y' x') ∧
    (∀ p ∈ (exec cw T (rowStep e s prev y pos last).cmds).log, p ∈ T.log ∨ (p.1 = y ∧ p.2 < e.w)) := by
  have hle := lineLen_le e (s.row y)
  have h0 : ¬ ContCell (cellAt (s.row y) 0) := fun h => by have := (hb 0).2.2.2 h; omega
  obtain ⟨c1, c2, c3, c4, c5⟩ :=
    colLoopB_spec cw e s y (s.row y) (prev.row y) (lineLen e (s.row y)) hle hb hfit
      (lineLen e (s.row y)) 0 pos last T (by omega) h0 g hnc hy
  unfold rowStep
  simp only []
  generalize colLoop e s y (s.row y) (prev.row y) (lineLen e (s.row y)) (lineLen e (s.row y)) 0 pos last = r at *
  by_cases ht : lineLen e (s.row y) < lineLen e (prev.row y)
  · simp only [ht, if_true]
    have hy1 : y < (exec cw T r.cmds).h := by rw [c2.h]; exact hy
    obtain ⟨m1, m2, m3, m4⟩ := moveCursor_spec cw e (exec cw T r.cmds) r.pos r.last ⟨lineLen e (s.row y), y⟩ c1 hy1
    generalize moveCursor e.w r.pos r.last ⟨lineLen e (s.row y), y⟩ = m at *
    rw [exec_append, exec_append]
    generalize hT2 : exec cw (exec cw T r.cmds) m.1 = T2 at *
    have hnc2 : NoCont T2 := by intro y' x'; rw [m3]; exact c3 y' x'
    have hpl := lineLen_le e (prev.row y)
    have hcol : T2.col = lineLen e (s.row y) := by rw [m1.geo.col]; simp; omega
    have hrow : T2.row = y := m1.geo.row
    rw [reset_eraseEol cw T2 (Or.inl hnc2)]
    refine ⟨⟨⟨m1.geo.w, m1.geo.wpos, m1.geo.row, m1.geo.col, m1.geo.rowlt, m1.geo.aw⟩, rfl⟩,
      ⟨by simp [m2.h, c2.h], by simp [m2.top, c2.top], by simp [m2.scrolled, c2.scrolled],
       by simp [m2.oob, c2.oob], by simp [m2.visible, c2.visible]⟩, ?_, ?_, ?_⟩
    · intro y' x'
      simp only
      split
      · simp [TCell.blank]
      · exact hnc2 y' x'
    · intro y' x'
      simp only [hrow, hcol, m3, c4, rowAfterB, ht, if_true]
      by_cases hyy : y' = y
      · simp only [hyy, true_and]
        by_cases hx : lineLen e (s.row y) ≤ x'
        · have : ¬ x' < lineLen e (s.row y) := by omega
          simp [hx, this]
        · have h2 : x' < lineLen e (s.row y) := by omega
          simp [hx, h2]
      · simp [hyy]
    · intro p hp
      simp only [m4] at hp
      rcases c5 p hp with h | h
      · exact Or.inl h
      · exact Or.inr ⟨h.1, by omega⟩
  · simp only [ht, if_false]
    refine ⟨c1, c2, c3, ?_, ?_⟩
    · intro y' x'
      rw [c4]
      simp only [rowAfterB, ht, if_false]
      by_cases hyy : y' = y
      · simp only [hyy, true_and]
        by_cases hx : x' < lineLen e (s.row y)
        · simp [hx]
        · simp [hx]
      · simp [hyy]
    · intro p hp
      rcases c5 p hp with h | h
      · exact Or.inl h
      · exact Or.inr ⟨h.1, by omega⟩

theorem rowLoopB_spec (e : Env) (s prev : Screen)
    (hb : ∀ y, BRow cw (s.row y)) (hfit : ∀ y, RowFit e (s.row y)) :
    ∀ (k y0 : Nat) (pos : Point) (last : Option Nat) (T : Term),
      Good e T pos last → NoCont T → y0 + k ≤ T.h →
      Good e (exec cw T (rowLoop e s prev k y0 pos last).cmds) (rowLoop e s prev k y0 pos last).pos
        (rowLoop e s prev k y0 pos last).last ∧
      Frame T (exec cw T (rowLoop e s prev k y0 pos last).cmds) ∧
      NoCont (exec cw T (rowLoop e s prev k y0 pos last).cmds) ∧
      (∀ y' x', (exec cw T (rowLoop e s prev k y0 pos last).cmds).cells y' x' =
        if y0 ≤ y' ∧ y' < y0 + k then rowAfterB cw e s prev y' (T.cells y') x' else T.cells y' x') ∧
      (∀ p ∈ (exec cw T (rowLoop e s prev k y0 pos last).cmds).log,
        p ∈ T.log ∨ (y0 ≤ p.1 ∧ p.1 < y0 + k ∧ p.2 < e.w)) := by
  intro k
  induction k with
  | zero =>
    intro y0 pos last T g hnc _
    simp only [rowLoop, exec_nil]
    refine ⟨g, Frame.refl T, hnc, ?_, fun p hp => Or.inl hp⟩
    intro y' x'
    have : ¬ (y0 ≤ y' ∧ y' < y0 + 0) := by omega
    rw [if_neg this]
  | succ k ih =>
    intro y0 pos last T g hnc hk
    rw [rowLoop]
    simp only []
    obtain ⟨a1, a2, a3, a4, a5⟩ := rowStepB_spec cw e s prev y0 pos last T (hb y0) (hfit y0) g hnc (by omega)
    generalize rowStep e s prev y0 pos last = a at *
    rw [exec_append]
    obtain ⟨b1, b2, b3, b4, b5⟩ := ih (y0 + 1) a.pos a.last (exec cw T a.cmds) a1 a3 (by rw [a2.h]; omega)
    refine ⟨b1, Frame.trans a2 b2, b3, ?_, ?_⟩
    · intro y' x'
      rw [b4, a4]
      by_cases h0 : y' = y0
      · subst h0
        have h1 : ¬ (y' + 1 ≤ y' ∧ y' < y' + 1 + k) := by omega
        have h2 : y' ≤ y' ∧ y' < y' + (k + 1) := by omega
        simp [h1, h2]
      · by_cases h1 : y0 + 1 ≤ y' ∧ y' < y0 + 1 + k
        · have h2 : y0 ≤ y' ∧ y' < y0 + (k + 1) := by omega
          simp only [h1, h2, and_self, if_true, h0, if_false]
          congr 1
          funext x
          rw [a4]; simp [h0]
        · have h2 : ¬ (y0 ≤ y' ∧ y' < y0 + (k + 1)) := by omega
          simp [h1, h2, h0]
    · intro p hp
      rcases b5 p hp with h | h
      · rcases a5 p h with h | h
        · exact Or.inl h
        · exact Or.inr ⟨by omega, by omega, h.2⟩
      · exact Or.inr ⟨by omega, by omega, h.2.2⟩


/-! ### what the terminal shows -/

theorem cont_of_txt_nil (row : List Cell) (hb : BRow cw row) (x : Nat) (h : (cellAt row x).txt = []) :
    ContCell (cellAt row x) := by
  rcases (hb x).1 with hh | hc
  · exact absurd h (block_txt_ne cw _ hh)
  · exact hc

theorem head_of_txt_ne (row : List Cell) (hb : BRow cw row) (x : Nat) (h : (cellAt row x).txt ≠ []) :
    BlockHead cw (cellAt row x) := by
  rcases (hb x).1 with hh | hc
  · exact hh
  · exact absurd hc.1 h

/-- the cell covering column `x` is a block head that reaches `x` -/
theorem own_spec (row : List Cell) (hb : BRow cw row) : ∀ x,
    own row x ≤ x ∧ BlockHead cw (cellAt row (own row x)) ∧ x < own row x + (cellAt row (own row x)).width := by
  intro x
  induction x with
  | zero =>
    have h0 : ¬ ContCell (cellAt row 0) := fun h => by have := (hb 0).2.2.2 h; omega
    have hh : BlockHead cw (cellAt row 0) := by
      rcases (hb 0).1 with h | h
      · exact h
      · exact absurd h h0
    exact ⟨Nat.le_refl _, hh, by have := hh.pos; simp only [own]; omega⟩
  | succ x ih =>
    obtain ⟨i1, i2, i3⟩ := ih
    by_cases ht : (cellAt row (x + 1)).txt = []
    · have hown : own row (x + 1) = own row x := by simp [own, ht]
      rw [hown]
      refine ⟨by omega, i2, ?_⟩
      by_cases hlt : x + 1 < own row x + (cellAt row (own row x)).width
      · exact hlt
      · have heq : x + 1 = own row x + (cellAt row (own row x)).width := by omega
        have hc := cont_of_txt_nil cw row hb (x + 1) ht
        rw [heq] at hc
        exact absurd hc ((hb (own row x)).2.2.1 i2)
    · have hown : own row (x + 1) = x + 1 := by simp [own, ht]
      rw [hown]
      have hh := head_of_txt_ne cw row hb (x + 1) ht
      exact ⟨Nat.le_refl _, hh, by have := hh.pos; omega⟩

/-- where the new and the previous row agree on the cell covering column `x`, they show the same at `x` -/
theorem paintB_same (a : Nat → Attrs) (newRow prevRow : List Cell) (hbn : BRow cw newRow) (hbp : BRow cw prevRow)
    (x : Nat) (hd : ¬ differs newRow prevRow (own newRow x)) : paintB cw a prevRow x = paintB cw a newRow x := by
  obtain ⟨o1, o2, o3⟩ := own_spec cw newRow hbn x
  unfold differs at hd
  simp only [not_or, Decidable.not_not] at hd
  obtain ⟨ht, hs⟩ := hd
  generalize hh : own newRow x = h at *
  -- the previous row has a head with the same text, hence the same width, at `h`
  have hpt : (cellAt prevRow h).txt ≠ [] := by rw [← ht]; exact block_txt_ne cw _ o2
  have hph := head_of_txt_ne cw prevRow hbp h hpt
  have hw : (cellAt prevRow h).width = (cellAt newRow h).width := by rw [hph.width, o2.width, ht]
  have hop : own prevRow x = h := by
    have := own_block cw prevRow hbp h hph (x - h) (by rw [hw]; omega)
    have e2 : h + (x - h) = x := by omega
    rw [e2] at this; exact this
  simp only [paintB, hop, hh, blockCell, ht, hs]

theorem paintB_uncounted (e : Env) (hdef : EnvOk e) (row : List Cell) (x : Nat)
    (h : Cell.counted e.rawOf (cellAt row x) = false) : (paintB cw e.attrsOf row x).norm = TCell.blank := by
  simp only [Cell.counted, Bool.or_eq_false_iff, bne_eq_false_iff_eq] at h
  have hne : (cellAt row x).txt ≠ [] := by rw [h.1]; simp
  have ho : own row x = x := own_head row x hne
  have := hdef.enc _ h.2
  have hg : (glyphs cw [' ']).getD 0 ' ' = ' ' := by
    unfold glyphs
    by_cases hc : cw ' ' = 1 <;> simp [hc]
  simp only [paintB, ho, blockCell, Nat.sub_self, h.1, hg, TCell.norm, Env.attrsOf, this, and_self, if_true]

theorem rowAfterB_shows (e : Env) (s prev : Screen) (y : Nat) (old : Nat → TCell)
    (hdef : EnvOk e) (hbn : BRow cw (s.row y)) (hbp : BRow cw (prev.row y))
    (hold : ∀ x, x < e.w → (old x).norm = (paintB cw e.attrsOf (prev.row y) x).norm) :
    ∀ x, x < e.w →
      (rowAfterB cw e s prev y old x).norm = (paintB cw e.attrsOf (s.row y) x).norm := by
  intro x hx
  unfold rowAfterB
  by_cases h1 : x < lineLen e (s.row y)
  · simp only [h1, if_true]
    by_cases hd : differs (s.row y) (prev.row y) (own (s.row y) x)
    · simp only [hd, if_true]
    · simp only [hd, if_false]
      rw [hold x hx, paintB_same cw e.attrsOf (s.row y) (prev.row y) hbn hbp x hd]
  · simp only [h1, if_false]
    have hnew : (paintB cw e.attrsOf (s.row y) x).norm = TCell.blank := by
      apply paintB_uncounted cw e hdef
      apply not_counted _ hdef.dflt
      unfold lineLen at h1; omega
    rw [hnew]
    by_cases h2 : lineLen e (s.row y) < lineLen e (prev.row y)
    · simp only [h2, if_true, blank_norm]
    · simp only [h2, if_false]
      rw [hold x hx]
      apply paintB_uncounted cw e hdef
      apply not_counted _ hdef.dflt
      unfold lineLen at h1 h2; omega

/-- the owned rows of the terminal visibly show a screen of block cells: every narrow character of a cell on
    its own column -/
def ShowsB (e : Env) (T : Term) (s : Screen) : Prop :=
  ∀ y x, y < T.h → x < e.w → (T.cells y x).norm = (paintB cw e.attrsOf (s.row y) x).norm

/-- every row of the screen is a row of block cells, none of which straddles the end of the part of its row
    that the differ looks at (in particular the right edge of the terminal) -/
structure BlockScreen (e : Env) (s : Screen) : Prop where
  rows : ∀ y, BRow cw (s.row y)
  fit : ∀ y, RowFit e (s.row y)

theorem brow_nil (h1 : cw ' ' = 1) : BRow cw [] := by
  have hd : ∀ x, cellAt ([] : List Cell) x = Cell.dflt := by intro x; simp [cellAt]
  have hh : BlockHead cw Cell.dflt := by
    refine ⟨?_, ?_, by decide⟩
    · intro ch hch
      simp [Cell.dflt] at hch; subst hch
      exact Or.inl ⟨by decide, by decide, h1⟩
    · simp [Cell.dflt, glyphs, h1]
  have hnc : ¬ ContCell Cell.dflt := block_not_cont cw _ hh
  intro x
  rw [hd x]
  refine ⟨Or.inl hh, ?_, ?_, fun h => absurd h hnc⟩
  · intro _ j hj1 hj2; simp [Cell.dflt] at hj2; omega
  · intro _; rw [hd]; exact hnc

theorem showsB_empty_of_blank (e : Env) (T : Term) (hdef : EnvOk e)
    (h : ∀ y x, T.cells y x = TCell.blank) : ShowsB cw e T Screen.empty := by
  intro y x _ _
  rw [h y x, blank_norm]
  have : Screen.empty.row y = [] := by simp [Screen.row, Screen.empty, List.getD]
  rw [this]
  symm
  apply paintB_uncounted cw e hdef
  have := hdef.dflt
  simp [cellAt, List.getD, Cell.counted, Cell.dflt, this]

/-- the row loop and the tail of the differ, started in a state `T1` that shows `pscr` -/
theorem coreB (e : Env) (s pscr : Screen) (isDone : Bool) (T1 : Term) (p1 : Point) (l1 : Option Nat)
    (hdef : EnvOk e)
    (bs : BlockScreen cw e s) (bp : ∀ y, BRow cw (pscr.row y))
    (wfs : WF s) (wfp : WF pscr)
    (g : Good e T1 p1 l1) (hnc : NoCont T1) (hsh : ShowsB cw e T1 pscr)
    (hfit : min (max s.height pscr.height) e.h ≤ T1.h) (hTh : T1.h ≤ e.h)
    (htgt : (if isDone then min s.height e.h else s.cursor.y) < T1.h)
    (hdone : isDone = true → pscr.height = 0 ∧ l1 = none) :
    (∀ y x, y < T1.h → x < e.w → (isDone = true → y < min s.height e.h) →
        ((exec cw T1 ((rowLoop e s pscr (min (max s.height pscr.height) e.h) 0 p1 l1).cmds ++
          (finish e s pscr isDone (rowLoop e s pscr (min (max s.height pscr.height) e.h) 0 p1 l1).pos
            (rowLoop e s pscr (min (max s.height pscr.height) e.h) 0 p1 l1).last).cmds)).cells y x).norm =
          (paintB cw e.attrsOf (s.row y) x).norm) ∧
    (isDone = true → ∀ y x, min s.height e.h ≤ y →
        (exec cw T1 ((rowLoop e s pscr (min (max s.height pscr.height) e.h) 0 p1 l1).cmds ++
          (finish e s pscr isDone (rowLoop e s pscr (min (max s.height pscr.height) e.h) 0 p1 l1).pos
            (rowLoop e s pscr (min (max s.height pscr.height) e.h) 0 p1 l1).last).cmds)).cells y x =
          TCell.blank) ∧
    (exec cw T1 ((rowLoop e s pscr (min (max s.height pscr.height) e.h) 0 p1 l1).cmds ++
          (finish e s pscr isDone (rowLoop e s pscr (min (max s.height pscr.height) e.h) 0 p1 l1).pos
            (rowLoop e s pscr (min (max s.height pscr.height) e.h) 0 p1 l1).last).cmds)).row =
        (if isDone then min s.height e.h else s.cursor.y) ∧
    (exec cw T1 ((rowLoop e s pscr (min (max s.height pscr.height) e.h) 0 p1 l1).cmds ++
          (finish e s pscr isDone (rowLoop e s pscr (min (max s.height pscr.height) e.h) 0 p1 l1).pos
            (rowLoop e s pscr (min (max s.height pscr.height) e.h) 0 p1 l1).last).cmds)).col =
        min (if isDone then 0 else s.cursor.x) (e.w - 1) ∧
    (exec cw T1 ((rowLoop e s pscr (min (max s.height pscr.height) e.h) 0 p1 l1).cmds ++
          (finish e s pscr isDone (rowLoop e s pscr (min (max s.height pscr.height) e.h) 0 p1 l1).pos
            (rowLoop e s pscr (min (max s.height pscr.height) e.h) 0 p1 l1).last).cmds)).w = e.w ∧
    (exec cw T1 ((rowLoop e s pscr (min (max s.height pscr.height) e.h) 0 p1 l1).cmds ++
          (finish e s pscr isDone (rowLoop e s pscr (min (max s.height pscr.height) e.h) 0 p1 l1).pos
            (rowLoop e s pscr (min (max s.height pscr.height) e.h) 0 p1 l1).last).cmds)).sgr = Attrs.dflt ∧
    (exec cw T1 ((rowLoop e s pscr (min (max s.height pscr.height) e.h) 0 p1 l1).cmds ++
          (finish e s pscr isDone (rowLoop e s pscr (min (max s.height pscr.height) e.h) 0 p1 l1).pos
            (rowLoop e s pscr (min (max s.height pscr.height) e.h) 0 p1 l1).last).cmds)).autowrap =
        (isDone || !e.fullScreen) ∧
    (exec cw T1 ((rowLoop e s pscr (min (max s.height pscr.height) e.h) 0 p1 l1).cmds ++
          (finish e s pscr isDone (rowLoop e s pscr (min (max s.height pscr.height) e.h) 0 p1 l1).pos
            (rowLoop e s pscr (min (max s.height pscr.height) e.h) 0 p1 l1).last).cmds)).visible =
        (s.showCursor || T1.visible) ∧
    (∀ p ∈ (exec cw T1 ((rowLoop e s pscr (min (max s.height pscr.height) e.h) 0 p1 l1).cmds ++
          (finish e s pscr isDone (rowLoop e s pscr (min (max s.height pscr.height) e.h) 0 p1 l1).pos
            (rowLoop e s pscr (min (max s.height pscr.height) e.h) 0 p1 l1).last).cmds)).log,
        p ∈ T1.log ∨ (p.1 < min (max s.height pscr.height) e.h ∧ p.2 < e.w)) ∧
    Same T1 (exec cw T1 ((rowLoop e s pscr (min (max s.height pscr.height) e.h) 0 p1 l1).cmds ++
          (finish e s pscr isDone (rowLoop e s pscr (min (max s.height pscr.height) e.h) 0 p1 l1).pos
            (rowLoop e s pscr (min (max s.height pscr.height) e.h) 0 p1 l1).last).cmds)) ∧
    NoCont (exec cw T1 ((rowLoop e s pscr (min (max s.height pscr.height) e.h) 0 p1 l1).cmds ++
          (finish e s pscr isDone (rowLoop e s pscr (min (max s.height pscr.height) e.h) 0 p1 l1).pos
            (rowLoop e s pscr (min (max s.height pscr.height) e.h) 0 p1 l1).last).cmds)) := by
  generalize hK : min (max s.height pscr.height) e.h = K at *
  obtain ⟨r1, r2, r3, r4, r5⟩ := rowLoopB_spec cw e s pscr bs.rows bs.fit K 0 p1 l1 T1 g hnc (by omega)
  have hrl : K = 0 → (rowLoop e s pscr K 0 p1 l1).last = l1 := by
    intro h; subst h; simp [rowLoop]
  generalize rowLoop e s pscr K 0 p1 l1 = r at *
  rw [exec_append]
  generalize hT2 : exec cw T1 r.cmds = T2 at *
  have hcurK : min s.height e.h ≤ K := by omega
  have hd2 : isDone = true → pscr.height = 0 ∧ (min s.height e.h = 0 → r.last = none) := by
    intro hd
    obtain ⟨h0, hl⟩ := hdone hd
    refine ⟨h0, fun hz => ?_⟩
    rw [hrl (by omega), hl]
  obtain ⟨f1, f2, f3, f4, f5, f6, f7, f8, f9⟩ :=
    finish_spec cw e s pscr isDone r.pos r.last T2 r1 (by rw [r2.h]; omega) (by rw [r2.h]; exact htgt) hd2
  generalize exec cw T2 (finish e s pscr isDone r.pos r.last).cmds = T3 at *
  -- the cells of the rows after the row loop show the new screen
  have hrows : ∀ y x, y < T1.h → x < e.w →
      (T2.cells y x).norm = (paintB cw e.attrsOf (s.row y) x).norm := by
    intro y x hy hx
    rw [r4]
    by_cases hyK : 0 ≤ y ∧ y < 0 + K
    · simp only [hyK, and_self, if_true]
      exact rowAfterB_shows cw e s pscr y (T1.cells y) hdef (bs.rows y) (bp y) (fun x' hx' => hsh y x' hy hx') x hx
    · simp only [hyK, if_false]
      have hs : s.row y = [] := row_nil_of_WF s wfs y (by omega)
      have hp : pscr.row y = [] := row_nil_of_WF pscr wfp y (by omega)
      rw [hsh y x hy hx, hs, hp]
  refine ⟨?_, ?_, f1, f2, f3, f4, f5, ?_, ?_, ?_, ?_⟩
  · intro y x hy hx hdy
    rw [f7]
    have : ¬ (isDone = true ∧ min s.height e.h ≤ y) := by
      rintro ⟨hd, hle⟩; have := hdy hd; omega
    simp only [this, if_false]
    exact hrows y x hy hx
  · intro hd y x hy
    rw [f7]; simp [hd, hy]
  · rw [f6, r2.visible]
  · intro p hp
    rw [f8] at hp
    rcases r5 p hp with h | h
    · exact Or.inl h
    · exact Or.inr ⟨by omega, h.2.2⟩
  · exact Same.trans r2.same f9
  · intro y x
    rw [f7]
    split
    · simp [TCell.blank]
    · exact r3 y x


/-- Everything the differ's output does to a terminal, in one statement (the named theorems of
    `Ptk.Props.C06` are projections of this one). -/
theorem diff_masterB (e : Env) (s : Screen) (pos : Point) (prev : Option Screen) (last : Option Nat)
    (isDone : Bool) (pw : Nat) (T : Term)
    (h1 : cw ' ' = 1) (hdef : EnvOk e)
    (bs : BlockScreen cw e s) (wfs : WF s)
    (pre : Pre e T pos last prev)
    (hprev : ∀ ps, prev = some ps → (isDone || pw != e.w) = false →
      ShowsB cw e T ps ∧ NoCont T ∧ WF ps ∧ (∀ y, BRow cw (ps.row y)))
    (hfit : min (max s.height (prevHeight prev)) e.h ≤ T.h) (hTh : T.h ≤ e.h)
    (htgt : (if isDone then min s.height e.h else s.cursor.y) < T.h) :
    ((∀ y x, y < T.h → x < e.w → (isDone = true → y < min s.height e.h) →
        ((exec cw T (diff e s pos prev last isDone pw).cmds).cells y x).norm =
          (paintB cw e.attrsOf (s.row y) x).norm) ∧
    (isDone = true → ∀ y x, min s.height e.h ≤ y →
        (exec cw T (diff e s pos prev last isDone pw).cmds).cells y x = TCell.blank) ∧
    (exec cw T (diff e s pos prev last isDone pw).cmds).row =
        (if isDone then min s.height e.h else s.cursor.y) ∧
    (exec cw T (diff e s pos prev last isDone pw).cmds).col =
        min (if isDone then 0 else s.cursor.x) (e.w - 1) ∧
    (exec cw T (diff e s pos prev last isDone pw).cmds).w = e.w ∧
    (exec cw T (diff e s pos prev last isDone pw).cmds).sgr = Attrs.dflt ∧
    (exec cw T (diff e s pos prev last isDone pw).cmds).autowrap = (isDone || !e.fullScreen) ∧
    (exec cw T (diff e s pos prev last isDone pw).cmds).visible = s.showCursor ∧
    (∀ p ∈ (exec cw T (diff e s pos prev last isDone pw).cmds).log,
        p ∈ T.log ∨ (p.1 < min (max s.height (prevHeight prev)) e.h ∧ p.2 < e.w)) ∧
    Same T (exec cw T (diff e s pos prev last isDone pw).cmds) ∧
    NoCont (exec cw T (diff e s pos prev last isDone pw).cmds)) ∧
    (diff e s pos prev last isDone pw).pos = (if isDone then ⟨0, min s.height e.h⟩ else s.cursor) ∧
    (diff e s pos prev last isDone pw).last = none := by
  unfold diff
  simp only []
  obtain ⟨fp1, fp2⟩ := finish_pos e s (preamble e pos prev last isDone pw).2 isDone
    (rowLoop e s (preamble e pos prev last isDone pw).2
      (min (max s.height (preamble e pos prev last isDone pw).2.height) e.h) 0
      (preamble e pos prev last isDone pw).1.pos (preamble e pos prev last isDone pw).1.last).pos
    (rowLoop e s (preamble e pos prev last isDone pw).2
      (min (max s.height (preamble e pos prev last isDone pw).2.height) e.h) 0
      (preamble e pos prev last isDone pw).1.pos (preamble e pos prev last isDone pw).1.last).last
  refine ⟨?_, fp1, fp2⟩
  rw [exec_append]
  by_cases hfull : (isDone || prev.isNone || pw != e.w) = true
  · obtain ⟨q1, q2, q3, q4, q5, q6, q7, q8⟩ := preamble_full cw e T pos last prev isDone pw pre hfull
    generalize preamble e pos prev last isDone pw = p at *
    obtain ⟨⟨pc, pp, pl⟩, pscr⟩ := p
    simp only at q1 q2 q3 q4 q5 q6 q7 q8 ⊢
    subst q1 q2 q3
    generalize exec cw T pc = T1 at *
    have hnc1 : NoCont T1 := by intro y x; rw [q5]; simp [TCell.blank]
    have hsh1 := showsB_empty_of_blank cw e T1 hdef q5
    have hbe : ∀ y, BRow cw (Screen.empty.row y) := by
      intro y
      have : Screen.empty.row y = [] := by simp [Screen.row, Screen.empty, List.getD]
      rw [this]; exact brow_nil cw h1
    have hE : Screen.empty.height = 0 := rfl
    obtain ⟨c1, c2, c3, c4, c5, c6, c7, c8, c9, c10, c11⟩ :=
      coreB cw e s Screen.empty isDone T1 ⟨0, 0⟩ none hdef bs hbe wfs (by simp [WF, Screen.empty]) q4 hnc1 hsh1
        (by rw [q8.h, hE]; omega) (by rw [q8.h]; exact hTh) (by rw [q8.h]; exact htgt)
        (fun _ => ⟨rfl, rfl⟩)
    refine ⟨?_, c2, c3, c4, c5, c6, c7, ?_, ?_, Same.trans q8 c10, c11⟩
    · intro y x hy hx hd; exact c1 y x (by rw [q8.h]; exact hy) hx hd
    · rw [c8, q6]; simp
    · intro p hp
      rcases c9 p hp with h | h
      · left; rw [← q7]; exact h
      · right; rw [hE] at h; exact ⟨by omega, h.2⟩
  · have hf : (isDone || prev.isNone || pw != e.w) = false := (Bool.not_eq_true _).mp hfull
    cases hp : prev with
    | none => simp [hp] at hf
    | some ps =>
      subst hp
      have hinc : (isDone || pw != e.w) = false := by simpa using hf
      obtain ⟨hsh, hnc, wfp, hbp⟩ := hprev ps rfl hinc
      have pre' : Pre e T pos last (some ps) := pre
      obtain ⟨q1, q2, q3, q4, q5, q6, q7, q8⟩ := preamble_incr cw e T pos last ps isDone pw pre' hinc
      generalize preamble e pos (some ps) last isDone pw = p at *
      obtain ⟨⟨pc, pp, pl⟩, pscr⟩ := p
      simp only at q1 q2 q3 q4 q5 q6 q7 q8 ⊢
      subst q1 q2 q3
      generalize exec cw T pc = T1 at *
      have hnc1 : NoCont T1 := by intro y x; rw [q5]; exact hnc y x
      have hsh1 : ShowsB cw e T1 pscr := by
        intro y x hy hx; rw [q5]; exact hsh y x (by rw [← q8.h]; exact hy) hx
      have hD : isDone = false := by cases isDone <;> simp_all
      obtain ⟨c1, c2, c3, c4, c5, c6, c7, c8, c9, c10, c11⟩ :=
        coreB cw e s pscr isDone T1 pp pl hdef bs hbp wfs wfp q4 hnc1 hsh1
          (by rw [q8.h]; simpa [prevHeight] using hfit) (by rw [q8.h]; exact hTh)
          (by rw [q8.h]; exact htgt) (by intro h; rw [hD] at h; cases h)
      refine ⟨?_, c2, c3, c4, c5, c6, c7, ?_, ?_, Same.trans q8 c10, c11⟩
      · intro y x hy hx hd; exact c1 y x (by rw [q8.h]; exact hy) hx hd
      · rw [c8, q6]; simp
      · intro p hp
        rcases c9 p hp with h | h
        · left; rw [← q7]; exact h
        · right; simpa [prevHeight] using h

/-- hypotheses shared by the theorems about one call of the differ -/
structure DiffOkB (e : Env) (s : Screen) (pos : Point) (prev : Option Screen) (last : Option Nat)
    (isDone : Bool) (pw : Nat) (T : Term) : Prop where
  /-- a space is one column wide (runtime `wcwidth`) -/
  space : cw ' ' = 1
  /-- the default char's style has no colour / underline … (it is never counted as content); displaying
      attributes at a colour depth adds none -/
  hdef : EnvOk e
  block : BlockScreen cw e s
  wf : WF s
  /-- cursor belief, SGR belief, autowrap still off in full-screen mode -/
  pre : Pre e T pos last prev
  /-- on the incremental path the terminal shows the previous screen -/
  shown : ∀ ps, prev = some ps → (isDone || pw != e.w) = false →
    ShowsB cw e T ps ∧ NoCont T ∧ WF ps ∧ (∀ y, BRow cw (ps.row y))
  /-- the rows to draw fit between the origin and the bottom of the terminal -/
  fit : min (max s.height (prevHeight prev)) e.h ≤ T.h
  rows : T.h ≤ e.h
  /-- so does the final cursor row -/
  tgt : (if isDone then min s.height e.h else s.cursor.y) < T.h

/-- **diff_confined_block** — every cell a printable character is written to lies in a row
    `< min(max(new.height, prev.height), rows)` and a column `< columns`. -/
theorem diff_confined_block (e : Env) (s : Screen) (pos : Point) (prev : Option Screen) (last : Option Nat)
    (isDone : Bool) (pw : Nat) (T : Term) (ok : DiffOkB cw e s pos prev last isDone pw T) :
    ∀ p ∈ (exec cw T (diff e s pos prev last isDone pw).cmds).log,
      p ∈ T.log ∨ (p.1 < min (max s.height (prevHeight prev)) e.h ∧ p.2 < e.w) :=
  (diff_masterB cw e s pos prev last isDone pw T ok.space ok.hdef ok.block ok.wf ok.pre ok.shown ok.fit
    ok.rows ok.tgt).1.2.2.2.2.2.2.2.2.1

/-- **no_scroll_block** — executing the differ's output never scrolls the terminal and never asks the
    cursor to go above the origin row or left of column 0; the geometry is unchanged. -/
theorem no_scroll_block (e : Env) (s : Screen) (pos : Point) (prev : Option Screen) (last : Option Nat)
    (isDone : Bool) (pw : Nat) (T : Term) (ok : DiffOkB cw e s pos prev last isDone pw T) :
    (exec cw T (diff e s pos prev last isDone pw).cmds).scrolled = T.scrolled ∧
    (exec cw T (diff e s pos prev last isDone pw).cmds).oob = T.oob ∧
    (exec cw T (diff e s pos prev last isDone pw).cmds).h = T.h ∧
    (exec cw T (diff e s pos prev last isDone pw).cmds).top = T.top := by
  have h := (diff_masterB cw e s pos prev last isDone pw T ok.space ok.hdef ok.block ok.wf ok.pre ok.shown
    ok.fit ok.rows ok.tgt).1.2.2.2.2.2.2.2.2.2.1
  exact ⟨h.scrolled, h.oob, h.h, h.top⟩

/-- what a terminal looks like after screen `s` has been rendered (not `done`) -/
structure RenderedB (e : Env) (T : Term) (s : Screen) : Prop where
  shows : ShowsB cw e T s
  row : T.row = s.cursor.y
  col : T.col = min s.cursor.x (e.w - 1)
  sgr : T.sgr = Attrs.dflt
  autowrap : T.autowrap = !e.fullScreen
  visible : T.visible = s.showCursor
  nocont : NoCont T
  w : T.w = e.w

/-- **diff_correct_block** — if the terminal shows the previous screen (or anything at all, when the
    differ repaints: first render, width change), then after executing the differ's output it shows
    the new screen, the cursor is on the screen's cursor position, attributes are reset, the cursor
    is visible iff `show_cursor`, autowrap is on iff not full-screen. -/
theorem diff_correct_block (e : Env) (s : Screen) (pos : Point) (prev : Option Screen) (last : Option Nat)
    (pw : Nat) (T : Term) (ok : DiffOkB cw e s pos prev last false pw T) :
    RenderedB cw e (exec cw T (diff e s pos prev last false pw).cmds) s ∧
    (diff e s pos prev last false pw).pos = s.cursor ∧ (diff e s pos prev last false pw).last = none := by
  obtain ⟨⟨c1, _, c3, c4, c5, c6, c7, c8, _, c10, c11⟩, hp, hl⟩ :=
    diff_masterB cw e s pos prev last false pw T ok.space ok.hdef ok.block ok.wf ok.pre ok.shown ok.fit
      ok.rows ok.tgt
  refine ⟨⟨?_, by simpa using c3, by simpa using c4, c6, by simpa using c7, c8, c11, c5⟩,
    by simpa using hp, hl⟩
  intro y x hy hx
  rw [c10.h] at hy
  exact c1 y x hy hx (by intro h; cases h)

/-- **diff_done_block** — after the final (`is_done`) render the output rows show the screen, everything
    below is erased, the cursor is on column 0 of the line below the output, attributes are reset
    and autowrap is restored.  (Hypothesis `ok.tgt`: that line exists, i.e. the output does not fill
    the terminal; otherwise the terminal scrolls by one line, which is the documented exception.) -/
theorem diff_done_block (e : Env) (s : Screen) (pos : Point) (prev : Option Screen) (last : Option Nat)
    (pw : Nat) (T : Term) (ok : DiffOkB cw e s pos prev last true pw T) :
    (∀ y x, y < min s.height e.h → x < e.w →
      ((exec cw T (diff e s pos prev last true pw).cmds).cells y x).norm =
        (paintB cw e.attrsOf (s.row y) x).norm) ∧
    (∀ y x, min s.height e.h ≤ y →
      (exec cw T (diff e s pos prev last true pw).cmds).cells y x = TCell.blank) ∧
    (exec cw T (diff e s pos prev last true pw).cmds).row = min s.height e.h ∧
    (exec cw T (diff e s pos prev last true pw).cmds).col = 0 ∧
    (exec cw T (diff e s pos prev last true pw).cmds).sgr = Attrs.dflt ∧
    (exec cw T (diff e s pos prev last true pw).cmds).autowrap = true := by
  obtain ⟨⟨c1, c2, c3, c4, _, c6, c7, _, _, c10, _⟩, _, _⟩ :=
    diff_masterB cw e s pos prev last true pw T ok.space ok.hdef ok.block ok.wf ok.pre ok.shown ok.fit
      ok.rows ok.tgt
  have ht := ok.tgt
  simp only [if_true] at ht c3 c4
  refine ⟨?_, c2 rfl, c3, by simpa using c4, c6, by simpa using c7⟩
  intro y x hy hx
  exact c1 y x (by omega) hx (fun _ => hy)

/-- what the layout must guarantee for an operation in the current state: width-1 cells, no row
    written below `height`, cursor inside the terminal, the drawn rows fit below the origin -/
def OpOkB (e : Env) (R : RState) (T : Term) : ROp → Prop
  | .render s _ k d _ => BlockScreen cw (envFor e k d) s ∧ WF s ∧ s.cursor.x < e.w ∧ s.cursor.y < T.h ∧
      min (max s.height (prevHeight R.lastScreen)) e.h ≤ T.h
  | .finish s _ k d _ => BlockScreen cw (envFor e k d) s ∧ WF s ∧ min s.height e.h < T.h ∧
      min (max s.height (prevHeight R.lastScreen)) e.h ≤ T.h
  | .erase _ => True
  | .clear => True

def RunOkB (e : Env) : RState → Term → List ROp → Prop
  | _, _, [] => True
  | R, T, op :: ops => OpOkB cw e R T op ∧ RunOkB e (stepR cw e R T op).1 (stepR cw e R T op).2 ops

/-- the renderer's state agrees with the terminal: the terminal shows `_last_screen` as displayed under the
    style and at the colour depth of the last render, its cursor is at `_cursor_pos`, attributes are reset -/
structure RInvB (e : Env) (R : RState) (T : Term) : Prop where
  w : T.w = e.w
  wpos : 0 < e.w
  row : T.row = R.pos.y
  col : T.col = R.pos.x
  posx : R.pos.x < e.w
  rowlt : T.row < T.h
  /-- the rows above the origin plus the owned rows are the terminal's rows (at most `size.rows`) -/
  tot : T.top + T.h ≤ e.h
  sgr : T.sgr = Attrs.dflt
  last : R.lastStyle = none
  aw : e.fullScreen = true → R.lastScreen.isSome = true → T.autowrap = false
  shown : ∀ ps, R.lastScreen = some ps → ∃ k d, R.styleKey = some k ∧ R.lastDepth = some d ∧
    ShowsB cw (envFor e k d) T ps ∧ NoCont T ∧ WF ps ∧ (∀ y, BRow cw (ps.row y)) ∧ R.lastSize = some (e.h, e.w)

/-- the renderer invariant provides the differ's preconditions for a render under style `k` at depth `d` -/
theorem diffOkB_of_inv (e : Env) (R : RState) (T : Term) (s : Screen) (isDone : Bool) (k d : Nat)
    (h1 : cw ' ' = 1) (hdef : EnvOk (envFor e k d)) (inv : RInvB cw e R T)
    (hn : BlockScreen cw (envFor e k d) s) (wfs : WF s)
    (hfit : min (max s.height (prevHeight R.lastScreen)) e.h ≤ T.h)
    (htgt : (if isDone then min s.height e.h else s.cursor.y) < T.h) :
    DiffOkB cw (envFor e k d) s R.pos (R.prevFor (envFor e k d) k) R.lastStyle isDone R.prevWidth T := by
  refine ⟨h1, hdef, hn, wfs, ⟨inv.w, inv.wpos, inv.row, ?_, inv.rowlt, ?_, ?_⟩, ?_, ?_,
    (by have := inv.tot; exact Nat.le_trans (Nat.le_add_left _ _) this), htgt⟩
  · show T.col = min R.pos.x (e.w - 1)
    rw [inv.col]; have := inv.posx; omega
  · intro hf hs
    apply inv.aw hf
    rcases prevFor_cases (envFor e k d) R k with h | h
    · rw [h] at hs; cases hs
    · rw [h] at hs; exact hs
  · rw [inv.last]; exact inv.sgr
  · intro ps hps _
    obtain ⟨hl, hk, hd⟩ := prevFor_some (envFor e k d) R k ps hps
    obtain ⟨k', d', hk', hd', a, b, c, c2, _⟩ := inv.shown ps hl
    rw [hk] at hk'; rw [hd] at hd'
    cases hk'; cases hd'
    exact ⟨a, b, c, c2⟩
  · have := prevHeight_prevFor (envFor e k d) R k
    show min (max s.height (prevHeight (R.prevFor (envFor e k d) k))) e.h ≤ T.h
    omega

theorem render_stepB (e : Env) (R : RState) (T : Term) (s : Screen) (m : Bool) (k d sh : Nat)
    (h1 : cw ' ' = 1) (hdef : EnvOk (envFor e k d))
    (inv : RInvB cw e R T) (ok : OpOkB cw e R T (.render s m k d sh)) :
    RInvB cw e (stepR cw e R T (.render s m k d sh)).1 (stepR cw e R T (.render s m k d sh)).2 ∧
    RenderedB cw (envFor e k d) (stepR cw e R T (.render s m k d sh)).2 s := by
  obtain ⟨hn, wfs, hcx, hcy, hfit⟩ := ok
  have dok := diffOkB_of_inv cw e R T s false k d h1 hdef inv hn wfs hfit (by simpa using hcy)
  obtain ⟨rd, hpos, hlast⟩ := diff_correct_block cw (envFor e k d) s R.pos (R.prevFor (envFor e k d) k) R.lastStyle R.prevWidth T dok
  have hsame := no_scroll_block cw (envFor e k d) s R.pos (R.prevFor (envFor e k d) k) R.lastStyle false R.prevWidth T dok
  obtain ⟨a, b, ha, hb, hc⟩ := render_cmds (envFor e k d) R s false m k sh
  have hT : (stepR cw e R T (.render s m k d sh)).2 =
      exec cw T (diff (envFor e k d) s R.pos (R.prevFor (envFor e k d) k) R.lastStyle false R.prevWidth).cmds := by
    simp only [stepR, hc, Bool.false_eq_true, if_false, List.append_nil]
    rw [exec_append, exec_inert cw T a ha, exec_append, exec_inert cw _ b hb]
  have hR : (stepR cw e R T (.render s m k d sh)).1 =
      R.rendered (envFor e k d) s m k sh (diff (envFor e k d) s R.pos (R.prevFor (envFor e k d) k) R.lastStyle false R.prevWidth) := by
    simp [stepR, RState.render]
  rw [hT, hR]
  simp only [RState.rendered]
  refine ⟨⟨rd.w, inv.wpos, ?_, ?_, ?_, ?_, ?_, rd.sgr, hlast, ?_, ?_⟩, rd⟩
  · simp only [hpos]; exact rd.row
  · simp only [hpos]; rw [rd.col, envFor_w]; omega
  · simp only [hpos]; exact hcx
  · rw [rd.row, hsame.2.2.1]; exact hcy
  · rw [hsame.2.2.1, hsame.2.2.2]; exact inv.tot
  · intro hf _; rw [rd.autowrap, envFor_fs, hf]; rfl
  · intro ps hps
    simp only [Option.some.injEq] at hps
    subst hps
    exact ⟨k, d, rfl, rfl, rd.shows, rd.nocont, wfs, hn.rows, rfl⟩

theorem finish_stepB (e : Env) (R : RState) (T : Term) (s : Screen) (m : Bool) (k d sh : Nat)
    (h1 : cw ' ' = 1) (hdef : EnvOk (envFor e k d))
    (inv : RInvB cw e R T) (ok : OpOkB cw e R T (.finish s m k d sh)) :
    RInvB cw e (stepR cw e R T (.finish s m k d sh)).1 (stepR cw e R T (.finish s m k d sh)).2 ∧
    (stepR cw e R T (.finish s m k d sh)).2.visible = true ∧
    (stepR cw e R T (.finish s m k d sh)).2.autowrap = true ∧
    (∀ y x, (stepR cw e R T (.finish s m k d sh)).2.cells y x = TCell.blank) := by
  obtain ⟨hn, wfs, hcy, hfit⟩ := ok
  have dok := diffOkB_of_inv cw e R T s true k d h1 hdef inv hn wfs hfit (by simpa using hcy)
  obtain ⟨_, d2, d3, d4, d5, d6⟩ := diff_done_block cw (envFor e k d) s R.pos (R.prevFor (envFor e k d) k) R.lastStyle R.prevWidth T dok
  simp only [envFor_h] at d2 d3
  have hsame := no_scroll_block cw (envFor e k d) s R.pos (R.prevFor (envFor e k d) k) R.lastStyle true R.prevWidth T dok
  have hw := (diff_masterB cw (envFor e k d) s R.pos (R.prevFor (envFor e k d) k) R.lastStyle true R.prevWidth T dok.space dok.hdef
    dok.block dok.wf dok.pre dok.shown dok.fit dok.rows dok.tgt).1.2.2.2.2.1
  obtain ⟨a, b, ha, hb, hc⟩ := render_cmds (envFor e k d) R s true m k sh
  have hT : (stepR cw e R T (.finish s m k d sh)).2 =
      ({ exec cw T (diff (envFor e k d) s R.pos (R.prevFor (envFor e k d) k) R.lastStyle true R.prevWidth).cmds with
          visible := true } : Term).rebase := by
    simp only [stepR, hc, if_true]
    rw [exec_append, exec_inert cw T a ha, exec_append, exec_append, exec_inert cw _ b hb, exec_reset]
  have hR : (stepR cw e R T (.finish s m k d sh)).1 =
      ((R.rendered (envFor e k d) s m k sh (diff (envFor e k d) s R.pos (R.prevFor (envFor e k d) k) R.lastStyle true R.prevWidth)).reset
        false true).1 := by
    simp [stepR, RState.render]
  rw [hT, hR]
  generalize exec cw T (diff (envFor e k d) s R.pos (R.prevFor (envFor e k d) k) R.lastStyle true R.prevWidth).cmds = Td at *
  generalize R.rendered (envFor e k d) s m k sh (diff (envFor e k d) s R.pos (R.prevFor (envFor e k d) k) R.lastStyle true R.prevWidth) = R1 at *
  obtain ⟨p1, p2, p3⟩ := reset_state R1 false true
  refine ⟨⟨?_, inv.wpos, ?_, ?_, ?_, ?_, ?_, ?_, p3, ?_, ?_⟩, rfl, ?_, ?_⟩
  · simpa [Term.rebase, envFor_w] using hw
  · rw [p1]; rfl
  · rw [p1]; simpa [Term.rebase] using d4
  · rw [p1]; exact inv.wpos
  · simp only [Term.rebase]; rw [d3, hsame.2.2.1]; omega
  · simp only [Term.rebase]; rw [hsame.2.2.1, hsame.2.2.2, d3]; have := inv.tot; omega
  · simpa [Term.rebase] using d5
  · intro _ h; rw [p2] at h; cases h
  · intro ps h; rw [p2] at h; cases h
  · simpa [Term.rebase] using d6
  · intro y x
    simp only [Term.rebase]
    rw [d3]
    exact d2 _ _ (by omega)

/-- what the calls of `Renderer.erase` do to a terminal that agrees with the renderer -/
theorem exec_eraseB (e : Env) (R : RState) (T : Term) (la : Bool) (inv : RInvB cw e R T) :
    exec cw T (R.erase la).2 =
      { T with row := 0, col := 0, sgr := Attrs.dflt, autowrap := true, visible := true,
               cells := fun _ _ => TCell.blank } := by
  simp only [RState.erase]
  rw [exec_append, exec_reset]
  simp only [exec_cons, exec_nil, execCmd]
  rw [eraseFrom_eq _ _ (Or.inr (by simp [inv.col]))]
  have hr : T.row - R.pos.y = 0 := by rw [inv.row]; omega
  have hcl : T.col - R.pos.x = 0 := by rw [inv.col]; omega
  have ho1 : ¬ T.col < R.pos.x := by rw [inv.col]; omega
  have ho2 : ¬ T.row < R.pos.y := by rw [inv.row]; omega
  simp only [hr, hcl, ho1, ho2, decide_false, Bool.or_false, inv.sgr, erased_dflt]
  congr 1
  funext y x
  have : y = 0 ∨ 0 < y := by omega
  simp [this]

theorem erase_stepB (e : Env) (R : RState) (T : Term) (la : Bool) (inv : RInvB cw e R T) :
    RInvB cw e (stepR cw e R T (.erase la)).1 (stepR cw e R T (.erase la)).2 ∧
    (∀ y x, (stepR cw e R T (.erase la)).2.cells y x = TCell.blank) ∧
    (stepR cw e R T (.erase la)).2.autowrap = true ∧
    (stepR cw e R T (.erase la)).2.scrolled = T.scrolled ∧
    (stepR cw e R T (.erase la)).2.oob = T.oob := by
  obtain ⟨p1, p2, p3⟩ := reset_state R false la
  have he : (stepR cw e R T (.erase la)).1 = (R.reset false la).1 := rfl
  have hT : (stepR cw e R T (.erase la)).2 =
      { T with row := 0, col := 0, sgr := Attrs.dflt, autowrap := true, visible := true,
               cells := fun _ _ => TCell.blank } := exec_eraseB cw e R T la inv
  rw [hT]
  refine ⟨⟨inv.w, inv.wpos, ?_, ?_, ?_, ?_, inv.tot, rfl, ?_, ?_, ?_⟩, fun _ _ => rfl, rfl, rfl, rfl⟩
  · rw [he, p1]
  · rw [he, p1]
  · rw [he, p1]; exact inv.wpos
  · have := inv.rowlt; simp only; omega
  · rw [he]; exact p3
  · intro _ h; rw [he, p2] at h; cases h
  · intro ps h; rw [he, p2] at h; cases h

/-- `clear()`: the whole display is blank, the origin is the top of the terminal, the cursor is home -/
theorem clear_stepB (e : Env) (R : RState) (T : Term) (inv : RInvB cw e R T) :
    RInvB cw e (stepR cw e R T .clear).1 (stepR cw e R T .clear).2 ∧
    (∀ y x, (stepR cw e R T .clear).2.cells y x = TCell.blank) ∧
    (stepR cw e R T .clear).2.top = 0 ∧ (stepR cw e R T .clear).2.h = T.top + T.h := by
  obtain ⟨p1, p2, p3⟩ := reset_state R false true
  have he : (stepR cw e R T .clear).1 = (R.reset false true).1 := rfl
  have hT : (stepR cw e R T .clear).2 =
      { T with row := 0, col := 0, sgr := Attrs.dflt, autowrap := true, visible := true,
               h := T.top + T.h, top := 0, cells := fun _ _ => TCell.blank } := by
    simp only [stepR, RState.clear]
    rw [exec_append, exec_eraseB cw e R T true inv]
    simp only [exec_cons, exec_nil, execCmd, erased_dflt]
    congr 1
    · funext y x; split <;> rfl
  rw [hT]
  refine ⟨⟨inv.w, inv.wpos, ?_, ?_, ?_, ?_, ?_, rfl, ?_, ?_, ?_⟩, fun _ _ => rfl, rfl, rfl⟩
  · rw [he, p1]
  · rw [he, p1]
  · rw [he, p1]; exact inv.wpos
  · have := inv.rowlt; simp only; omega
  · simp only; have := inv.tot; omega
  · rw [he]; exact p3
  · intro _ h; rw [he, p2] at h; cases h
  · intro ps h; rw [he, p2] at h; cases h

theorem stepR_invB (e : Env) (h1 : cw ' ' = 1) (hdef : ∀ k d, EnvOk (envFor e k d))
    (R : RState) (T : Term) (op : ROp) (inv : RInvB cw e R T) (ok : OpOkB cw e R T op) :
    RInvB cw e (stepR cw e R T op).1 (stepR cw e R T op).2 := by
  cases op with
  | render s m k d sh => exact (render_stepB cw e R T s m k d sh h1 (hdef k d) inv ok).1
  | finish s m k d sh => exact (finish_stepB cw e R T s m k d sh h1 (hdef k d) inv ok).1
  | erase la => exact (erase_stepB cw e R T la inv).1
  | clear => exact (clear_stepB cw e R T inv).1

/-- **render_seq_block** — the invariant "the terminal shows `_last_screen` (as displayed under the style and at the
    colour depth of the last render), the cursor is at `_cursor_pos`, attributes are reset" is carried over
    every finite sequence of renders, done-renders, erases and clears, where EVERY render may use another
    style / style transformation (`key`) and another colour depth. -/
theorem render_seq_block (e : Env) (h1 : cw ' ' = 1) (hdef : ∀ k d, EnvOk (envFor e k d)) :
    ∀ (ops : List ROp) (R : RState) (T : Term), RInvB cw e R T → RunOkB cw e R T ops →
      RInvB cw e (runR cw e R T ops).1 (runR cw e R T ops).2 := by
  intro ops
  induction ops with
  | nil => intro R T inv _; exact inv
  | cons op ops ih =>
    intro R T inv ok
    exact ih _ _ (stepR_invB cw e h1 hdef R T op inv ok.1) ok.2

theorem runOkB_append (e : Env) : ∀ (a b : List ROp) (R : RState) (T : Term),
    RunOkB cw e R T (a ++ b) → RunOkB cw e R T a ∧ RunOkB cw e (runR cw e R T a).1 (runR cw e R T a).2 b := by
  intro a
  induction a with
  | nil => intro b R T h; exact ⟨trivial, h⟩
  | cons op a ih =>
    intro b R T h
    obtain ⟨h1, h2⟩ := h
    obtain ⟨i1, i2⟩ := ih b _ _ h2
    exact ⟨⟨h1, i1⟩, i2⟩

/-- after any sequence of operations that ends with a render of `s`, the terminal shows `s`, the cursor
    is on `s.cursor`, attributes are reset, the cursor is visible iff `s.showCursor` -/
theorem render_seq_last_block (e : Env) (h1 : cw ' ' = 1) (hdef : ∀ k d, EnvOk (envFor e k d))
    (ops : List ROp) (R : RState) (T : Term) (s : Screen) (m : Bool) (k d sh : Nat)
    (inv : RInvB cw e R T) (ok : RunOkB cw e R T (ops ++ [.render s m k d sh])) :
    RenderedB cw (envFor e k d) (runR cw e R T (ops ++ [.render s m k d sh])).2 s := by
  obtain ⟨o1, o2⟩ := runOkB_append cw e ops _ R T ok
  have inv' := render_seq_block cw e h1 hdef ops R T inv o1
  rw [runR_append]
  exact (render_stepB cw e _ _ s m k d sh h1 (hdef k d) inv' o2.1).2

/-- **incremental_eq_scratch_block** — the terminal after any sequence of operations (styles and colour depths
    changing at will between the renders) ending with a render of `s` under style `k` at depth `d` is visibly
    identical (cells of the owned rows, cursor position, cursor visibility, SGR state,
    autowrap) to a terminal of the same geometry with arbitrary previous contents on which `s` is drawn
    from scratch (first render: `previous_screen = None`, cursor on the origin). -/
theorem incremental_eq_scratch_block (e : Env) (h1 : cw ' ' = 1) (hdef : ∀ k d, EnvOk (envFor e k d))
    (ops : List ROp) (R : RState) (T : Term) (s : Screen) (m : Bool) (k d sh : Nat)
    (inv : RInvB cw e R T) (ok : RunOkB cw e R T (ops ++ [.render s m k d sh]))
    (junk : Nat → Nat → TCell) :
    (∀ y x, y < (runR cw e R T (ops ++ [.render s m k d sh])).2.h → x < e.w →
      ((runR cw e R T (ops ++ [.render s m k d sh])).2.cells y x).norm =
      ((exec cw (Term.fresh e.w (runR cw e R T (ops ++ [.render s m k d sh])).2.h 0 junk)
          (diff (envFor e k d) s ⟨0, 0⟩ none none false 0).cmds).cells y x).norm) ∧
    (runR cw e R T (ops ++ [.render s m k d sh])).2.row =
      (exec cw (Term.fresh e.w (runR cw e R T (ops ++ [.render s m k d sh])).2.h 0 junk)
          (diff (envFor e k d) s ⟨0, 0⟩ none none false 0).cmds).row ∧
    (runR cw e R T (ops ++ [.render s m k d sh])).2.col =
      (exec cw (Term.fresh e.w (runR cw e R T (ops ++ [.render s m k d sh])).2.h 0 junk)
          (diff (envFor e k d) s ⟨0, 0⟩ none none false 0).cmds).col ∧
    (runR cw e R T (ops ++ [.render s m k d sh])).2.visible =
      (exec cw (Term.fresh e.w (runR cw e R T (ops ++ [.render s m k d sh])).2.h 0 junk)
          (diff (envFor e k d) s ⟨0, 0⟩ none none false 0).cmds).visible ∧
    (runR cw e R T (ops ++ [.render s m k d sh])).2.sgr =
      (exec cw (Term.fresh e.w (runR cw e R T (ops ++ [.render s m k d sh])).2.h 0 junk)
          (diff (envFor e k d) s ⟨0, 0⟩ none none false 0).cmds).sgr ∧
    (runR cw e R T (ops ++ [.render s m k d sh])).2.autowrap =
      (exec cw (Term.fresh e.w (runR cw e R T (ops ++ [.render s m k d sh])).2.h 0 junk)
          (diff (envFor e k d) s ⟨0, 0⟩ none none false 0).cmds).autowrap := by
  have rd := render_seq_last_block cw e h1 hdef ops R T s m k d sh inv ok
  obtain ⟨o1, o2⟩ := runOkB_append cw e ops _ R T ok
  have inv' := render_seq_block cw e h1 hdef ops R T inv o1
  have invF := render_seq_block cw e h1 hdef _ R T inv ok
  obtain ⟨hn, wfs, hcx, hcy, hfit⟩ := o2.1
  -- the geometry is not changed by the last render
  have hh : (runR cw e R T (ops ++ [.render s m k d sh])).2.h = (runR cw e R T ops).2.h := by
    rw [runR_append]
    have dok := diffOkB_of_inv cw e _ _ s false k d h1 (hdef k d) inv' hn wfs hfit (by simpa using hcy)
    have hs := no_scroll_block cw (envFor e k d) s _ _ _ false _ _ dok
    obtain ⟨a, b, ha, hb, hc⟩ := render_cmds (envFor e k d) (runR cw e R T ops).1 s false m k sh
    show (exec cw _ ((runR cw e R T ops).1.render (envFor e k d) s false m k sh).2).h = _
    rw [hc]
    simp only [Bool.false_eq_true, if_false, List.append_nil]
    rw [exec_append, exec_inert cw _ a ha, exec_append, exec_inert cw _ b hb]
    exact hs.2.2.1
  generalize (runR cw e R T (ops ++ [.render s m k d sh])).2 = Ti at *
  have dok0 : DiffOkB cw (envFor e k d) s ⟨0, 0⟩ none none false 0 (Term.fresh e.w Ti.h 0 junk) := by
    refine ⟨h1, hdef k d, hn, wfs, ⟨rfl, invF.wpos, rfl, by simp [Term.fresh], ?_, ?_, rfl⟩, ?_, ?_, ?_, ?_⟩
    · have := invF.rowlt; simp only [Term.fresh]; omega
    · intro _ h; cases h
    · intro ps h; cases h
    · simp only [Term.fresh, prevHeight, envFor_h]; rw [hh]
      have : prevHeight (runR cw e R T ops).1.lastScreen ≥ 0 := Nat.zero_le _
      omega
    · simp only [Term.fresh, envFor_h]; have := invF.tot; omega
    · simp only [Term.fresh, Bool.false_eq_true, if_false]; rw [hh]; exact hcy
  obtain ⟨rs, _, _⟩ := diff_correct_block cw (envFor e k d) s ⟨0, 0⟩ none none 0 _ dok0
  have hsame := no_scroll_block cw (envFor e k d) s ⟨0, 0⟩ none none false 0 _ dok0
  refine ⟨?_, ?_, ?_, ?_, ?_, ?_⟩
  · intro y x hy hx
    rw [rd.shows y x hy hx, rs.shows y x (by rw [hsame.2.2.1]; exact hy) hx]
  · rw [rd.row, rs.row]
  · rw [rd.col, rs.col]
  · rw [rd.visible, rs.visible]
  · rw [rd.sgr, rs.sgr]
  · rw [rd.autowrap, rs.autowrap]



/-! ### `RowFit` from the structure of the row; checkers; the full renderer model -/

/-- a row of block cells none of which straddles the right edge satisfies `RowFit`: the part of the row the
    differ looks at ends at a block boundary (the empty cells behind a head are never trailing whitespace) -/
theorem rowFit_of_brow (e : Env) (row : List Cell) (hb : BRow cw row)
    (hns : ∀ c, c < e.w → c + (cellAt row c).width ≤ e.w) : RowFit e row := by
  intro c hc
  have hcw : c < e.w := by have := lineLen_le e row; omega
  rcases (hb c).1 with hh | hcont
  · by_cases hk : (cellAt row c).width = 1
    · rw [hk]; omega
    · have hk2 : 2 ≤ (cellAt row c).width := by have := hh.pos; omega
      -- the last empty cell behind the head is counted
      have hlast := (hb c).2.1 hh ((cellAt row c).width - 1) (by omega) (by omega)
      have hw := hns c hcw
      generalize hkk : (cellAt row c).width = k at *
      generalize hj : c + (k - 1) = j at *
      have hidx : j < row.length := by
        by_cases hl : j < row.length
        · exact hl
        · have : cellAt row j = Cell.dflt := by unfold cellAt; exact getD_ge _ _ _ (by omega)
          rw [this] at hlast
          have := hlast.1
          simp [Cell.dflt] at this
      have hcj : cellAt row j = row[j] := by unfold cellAt; exact getD_lt _ _ _ hidx
      have hcnt : Cell.counted e.rawOf (row[j]) = true := by
        rw [hcj] at hlast
        simp [Cell.counted, hlast.1]
      have := trimLen_ge (Cell.counted e.rawOf) row j hidx hcnt
      unfold lineLen maxCol
      omega
  · rw [hcont.2]; omega

def blockHeadB (c : Cell) : Bool :=
  c.txt.all (fun ch => decide (32 ≤ ch.toNat) && decide (ch.toNat ≠ 127) && (cw ch == 1 || cw ch == 0)) &&
  decide (c.width = (glyphs cw c.txt).length) && decide (1 ≤ c.width)

theorem blockHead_of_check (c : Cell) (h : blockHeadB cw c = true) : BlockHead cw c := by
  simp only [blockHeadB, Bool.and_eq_true, List.all_eq_true, decide_eq_true_eq, Bool.or_eq_true, beq_iff_eq] at h
  refine ⟨?_, h.1.2, h.2⟩
  intro ch hch
  obtain ⟨⟨a, b⟩, c'⟩ := h.1.1 ch hch
  rcases c' with c' | c'
  · exact Or.inl ⟨a, b, c'⟩
  · exact Or.inr ⟨a, b, c'⟩


theorem blockHead_iff_check (c : Cell) : blockHeadB cw c = true ↔ BlockHead cw c := by
  constructor
  · exact blockHead_of_check cw c
  · intro h
    simp only [blockHeadB, Bool.and_eq_true, List.all_eq_true, decide_eq_true_eq, Bool.or_eq_true, beq_iff_eq]
    refine ⟨⟨?_, h.width⟩, h.pos⟩
    intro ch hch
    rcases h.chars ch hch with hp | hz
    · exact ⟨⟨hp.1, hp.2.1⟩, Or.inl hp.2.2⟩
    · exact ⟨⟨hz.1, hz.2.1⟩, Or.inr hz.2.2⟩

/-- the clauses of `BRow` at column `x`, decidably -/
def browAtB (row : List Cell) (x : Nat) : Bool :=
  (blockHeadB cw (cellAt row x) || contB (cellAt row x)) &&
  (!(blockHeadB cw (cellAt row x)) ||
    (((List.range (cellAt row x).width).all fun j => j == 0 || contB (cellAt row (x + j))) &&
     !(contB (cellAt row (x + (cellAt row x).width))))) &&
  (!(contB (cellAt row x)) || decide (0 < x))

theorem brow_of_check (h1 : cw ' ' = 1) (row : List Cell)
    (h : (List.range row.length).all (browAtB cw row) = true) : BRow cw row := by
  intro x
  by_cases hx : x < row.length
  · have hc := List.all_eq_true.mp h x (List.mem_range.mpr hx)
    simp only [browAtB, Bool.and_eq_true, Bool.or_eq_true, Bool.not_eq_true', decide_eq_true_eq] at hc
    obtain ⟨⟨a, b⟩, c⟩ := hc
    refine ⟨?_, ?_, ?_, ?_⟩
    · rcases a with a | a
      · exact Or.inl ((blockHead_iff_check cw _).mp a)
      · exact Or.inr ((cont_iff_check _).mp a)
    · intro hh j hj1 hj2
      rcases b with b | b
      · rw [(blockHead_iff_check cw _).mpr hh] at b; cases b
      · have := List.all_eq_true.mp b.1 j (List.mem_range.mpr hj2)
        simp only [Bool.or_eq_true, beq_iff_eq] at this
        rcases this with h0 | hc
        · omega
        · exact (cont_iff_check _).mp hc
    · intro hh hcn
      rcases b with b | b
      · rw [(blockHead_iff_check cw _).mpr hh] at b; cases b
      · have := (cont_iff_check _).mpr hcn
        rw [this] at b; exact absurd b.2 (by simp)
    · intro hcn
      rcases c with c | c
      · have := (cont_iff_check _).mpr hcn; rw [this] at c; cases c
      · exact c
  · have hd : ∀ z, x ≤ z → cellAt row z = Cell.dflt := by
      intro z hz; unfold cellAt; exact getD_ge _ _ _ (by omega)
    have hb := brow_nil cw h1 0
    have hd0 : cellAt ([] : List Cell) 0 = Cell.dflt := by simp [cellAt]
    rw [hd0] at hb
    have hnc : ¬ ContCell Cell.dflt := fun hcn => by simp [ContCell, Cell.dflt] at hcn
    rw [hd x (Nat.le_refl _)]
    refine ⟨hb.1, ?_, ?_, fun hcn => absurd hcn hnc⟩
    · intro _ j hj1 hj2; simp [Cell.dflt] at hj2; omega
    · intro _; rw [hd _ (by omega)]; exact hnc

theorem blockScreen_of_check (h1 : cw ' ' = 1) (e : Env) (s : Screen)
    (hr : s.rows.all (fun row => (List.range row.length).all (browAtB cw row)) = true)
    (hf : s.rows.all (fun row => (List.range e.w).all
      (fun c => decide (c + (cellAt row c).width ≤ e.w))) = true) (hw : 0 < e.w) : BlockScreen cw e s := by
  have hrow : ∀ y, BRow cw (s.row y) := by
    intro y
    unfold Screen.row
    by_cases hy : y < s.rows.length
    · rw [getD_lt _ _ _ hy]
      exact brow_of_check cw h1 _ (List.all_eq_true.mp hr _ (List.getElem_mem hy))
    · rw [getD_ge _ _ _ (by omega)]
      exact brow_nil cw h1
  refine ⟨hrow, ?_⟩
  intro y
  apply rowFit_of_brow cw e _ (hrow y)
  intro c hc
  unfold Screen.row
  by_cases hy : y < s.rows.length
  · rw [getD_lt _ _ _ hy]
    have := List.all_eq_true.mp (List.all_eq_true.mp hf _ (List.getElem_mem hy)) c (List.mem_range.mpr hc)
    simpa using this
  · rw [getD_ge _ _ _ (by omega)]
    have : cellAt ([] : List Cell) c = Cell.dflt := by simp [cellAt]
    rw [this]; simp [Cell.dflt]; omega


/-! ### non-vacuity -/

section ExamplesBlock

/-- `^A` (a control character as `Char` displays it: two characters, two columns, followed by the empty cell),
    `é` written as `e` + combining acute accent (two characters, one column), `b` -/
def exB1 : Screen :=
  ⟨[[⟨['^', 'A'], 2, 2⟩, ⟨[], 2, 0⟩, ⟨['e', Char.ofNat 0x301], 0, 1⟩, ⟨['b'], 0, 1⟩]], [], 1, ⟨4, 0⟩, true⟩
/-- the block moves one column to the right and becomes `^B`; `<80>` (four columns) appears on a second row -/
def exB2 : Screen :=
  ⟨[[⟨['x'], 0, 1⟩, ⟨['^', 'B'], 2, 2⟩, ⟨[], 2, 0⟩, ⟨['b'], 0, 1⟩],
    [⟨['<', '8', '0', '>'], 2, 4⟩, ⟨[], 2, 0⟩, ⟨[], 2, 0⟩, ⟨[], 2, 0⟩]], [], 2, ⟨4, 1⟩, true⟩

theorem exB1_block : BlockScreen cwx exEnvW exB1 := blockScreen_of_check cwx rfl _ _ (by decide) (by decide) (by decide)
theorem exB2_block : BlockScreen cwx exEnvW exB2 := blockScreen_of_check cwx rfl _ _ (by decide) (by decide) (by decide)

theorem exB1_ok : DiffOkB cwx exEnvW exB1 ⟨0, 0⟩ none none false 0 exTW :=
  ⟨rfl, exEnvWOk, exB1_block, by unfold WF; decide,
   ⟨rfl, by decide, rfl, rfl, by decide, (fun _ h => by cases h), rfl⟩,
   (fun ps h => by cases h), by decide, by decide, by decide⟩

/-- `diff_correct_block` is not vacuous: first render of `exB1`, then the incremental render of `exB2` -/
example : RenderedB cwx exEnvW
    (exec cwx (exec cwx exTW (diff exEnvW exB1 ⟨0, 0⟩ none none false 0).cmds)
      (diff exEnvW exB2 ⟨4, 0⟩ (some exB1) none false 6).cmds) exB2 := by
  have r1 := (diff_correct_block cwx exEnvW exB1 ⟨0, 0⟩ none none 0 exTW exB1_ok).1
  apply fun h => (diff_correct_block cwx exEnvW exB2 ⟨4, 0⟩ (some exB1) none 6 _ h).1
  refine ⟨rfl, exEnvWOk, exB2_block, by unfold WF; decide,
    ⟨r1.w, by decide, r1.row, by rw [r1.col]; decide, by rw [r1.row]; decide, ?_, r1.sgr⟩,
    ?_, by decide, by decide, by decide⟩
  · intro h; cases h
  · intro ps hps _
    cases hps
    exact ⟨r1.shows, r1.nocont, by unfold WF; decide, exB1_block.rows⟩

/-- … and the model computes it: every narrow character of a multi-character cell on its own column, the
    combining accent not in the grid, nothing repainted -/
example :
    (exec cwx exTW (diff exEnvW exB1 ⟨0, 0⟩ none none false 0).cmds).cells 0 0 = ⟨['^'], exAttrs 2⟩ ∧
    (exec cwx exTW (diff exEnvW exB1 ⟨0, 0⟩ none none false 0).cmds).cells 0 1 = ⟨['A'], exAttrs 2⟩ ∧
    (exec cwx exTW (diff exEnvW exB1 ⟨0, 0⟩ none none false 0).cmds).cells 0 2 = ⟨['e'], Attrs.dflt⟩ ∧
    (exec cwx (exec cwx exTW (diff exEnvW exB1 ⟨0, 0⟩ none none false 0).cmds)
      (diff exEnvW exB2 ⟨4, 0⟩ (some exB1) none false 6).cmds).cells 0 2 = ⟨['B'], exAttrs 2⟩ ∧
    (exec cwx (exec cwx exTW (diff exEnvW exB1 ⟨0, 0⟩ none none false 0).cmds)
      (diff exEnvW exB2 ⟨4, 0⟩ (some exB1) none false 6).cmds).cells 1 3 = ⟨['>'], exAttrs 2⟩ ∧
    paintB cwx exEnvW.attrsOf (exB2.row 1) 3 = ⟨['>'], exAttrs 2⟩ ∧
    Cmd.eraseDown ∉ (diff exEnvW exB2 ⟨4, 0⟩ (some exB1) none false 6).cmds := by
  decide

end ExamplesBlock

end Ptk.C06
