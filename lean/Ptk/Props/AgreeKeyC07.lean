/-
  Cross-model agreement, cluster "KeyProcessor and key bindings".

  Part 4 — the command boundary of `KeyProcessor._call_handler`: C07 (`Ptk.C07.callHandler`,
  `callHandlerO`, `kpReset`, `cprResponse`: `is_repeat`, `save_before`, `_previous_handler`) vs
  the canonical C04 (`Ptk.C04.callHandler`, `resetPS`, `cprResponse`).

  C04 does not model `save_before` (it has no undo stack); C07 does not model key sequences.  The
  instantiation `iface07 H …` of C04's interface makes the world C07's undo state `St` and lets
  `handler.call(event)` of the binding with identity `bid` be
  "`if save_before(event): save_to_undo_stack()`; then the body", where
  `H bid = (save_before as a function of is_repeat, body, how the handler ends)`.
  `_previous_handler` is `PS.prevH` in C04 and `KSt.prev` in C07 (both: identity of the `Binding`).
-/
import Ptk.Model.C04
import Ptk.Model.C07
namespace Ptk.AgreeKey.U07

/-- how a handler ends: C04's `Outcome` ↦ C07's -/
def trO : C04.Outcome → C07.Outcome
  | .ok => .ok
  | .readonly => .readOnly
  | .raise => .raised

/-- per `Binding` identity: `save_before ∘ is_repeat`, the Buffer calls of the handler, its ending -/
abbrev HTbl := Nat → (Bool → Bool) × List C07.Act × C04.Outcome

/-- C04's interface over C07's undo state; the binding lookups (`getFor`, `getStart`, the filter
    environment `ρ`) are arbitrary -/
def iface07 (H : HTbl) (bs : List C04.Binding) (ρ : Nat → Bool) : C04.Iface C07.St where
  getFor := fun w ks => (w, C04.matchFor bs ks)
  getStart := fun w ks => (w, C04.matchStarting bs ks)
  evalF := fun _ f => f.eval ρ
  call := fun w q b _ _ ev =>
    ((H b.bid).2.1.foldl C07.act (if (H b.bid).1 ev.rep then C07.saveToUndo true w else w), q,
     (H b.bid).2.2)
  done := fun _ => false

theorem beq_dec (a b : Option Nat) : (a == b) = decide (a = b) := by
  by_cases h : a = b <;> simp [h]

variable (H : HTbl) (bs : List C04.Binding) (ρ : Nat → Bool)

theorem recordMacro_off (w : C07.St) (b : C04.Binding) (seq : List C04.KP) :
    C04.recordMacro (iface07 H bs ρ) false false w b seq = (w, []) := by
  simp only [C04.recordMacro, iface07]
  by_cases hh : C04.F.eval ρ b.rim = true <;> simp [hh]

/-- key_processor.py::KeyProcessor._call_handler — `event.is_repeat`: `Ptk.C04.eventOf` (`rep`) =
    the `isRepeat` of `Ptk.C07.callHandler` / `callHandlerO` (`handler == self._previous_handler`) -/
theorem isRepeat_C04_C07 (ps : C04.PS C07.St) (b : C04.Binding) :
    (C04.eventOf ps b).rep = decide ((⟨ps.w, ps.prevH⟩ : C07.KSt).prev = some b.bid) := by
  simp only [C04.eventOf, beq_dec]

/-- key_processor.py::KeyProcessor._call_handler — `Ptk.C04.callHandler` at `iface07` =
    `Ptk.C07.callHandlerO`: the undo state after the call (snapshot taken iff
    `save_before(is_repeat)`, then the body) and `_previous_handler`; when the handler raises,
    `process_keys` answers with `reset()` (`Ptk.C04.resetPS`, as in `Ptk.C04.pkStep`), which is
    what `callHandlerO .raised` includes -/
theorem callHandler_C04_C07 (ps : C04.PS C07.St) (b : C04.Binding) (seq : List C04.KP) :
    let c := C04.callHandler (iface07 H bs ρ) ps b seq
    c.2.2 = (match (H b.bid).2.2 with | .raise => true | _ => false) ∧
    (⟨c.1.w, if c.2.2 then (C04.resetPS c.1).prevH else c.1.prevH⟩ : C07.KSt)
      = C07.callHandlerO (trO (H b.bid).2.2) b.bid (H b.bid).1 (H b.bid).2.1 ⟨ps.w, ps.prevH⟩ := by
  have hr := recordMacro_off H bs ρ
  have hrep := beq_dec ps.prevH (some b.bid)
  cases ho : (H b.bid).2.2 <;>
    simp [C04.callHandler, C04.eventOf, iface07, ho, C07.callHandlerO, trO, C07.prevAfter,
      C04.resetPS, C04.recordMacro, hrep]
  all_goals (by_cases hh : C04.F.eval ρ b.rim = true <;> simp [hh])

/-- … and `Ptk.C07.callHandler` is the `.ok` case -/
theorem callHandler_ok_C04_C07 (ps : C04.PS C07.St) (b : C04.Binding) (seq : List C04.KP)
    (ho : (H b.bid).2.2 = .ok) :
    (⟨(C04.callHandler (iface07 H bs ρ) ps b seq).1.w,
      (C04.callHandler (iface07 H bs ρ) ps b seq).1.prevH⟩ : C07.KSt)
      = C07.callHandler b.bid (H b.bid).1 (H b.bid).2.1 ⟨ps.w, ps.prevH⟩ := by
  have := callHandler_C04_C07 H bs ρ ps b seq
  simp only [ho, trO] at this
  obtain ⟨h1, h2⟩ := this
  simp only [h1, Bool.false_eq_true, if_false] at h2
  rw [h2]; rfl

/-- key_processor.py::KeyProcessor.reset — `Ptk.C04.resetPS` = `Ptk.C07.kpReset`
    (`_previous_handler = None`; the undo state is not touched) -/
theorem reset_C04_C07 (ps : C04.PS C07.St) :
    (⟨(C04.resetPS ps).w, (C04.resetPS ps).prevH⟩ : C07.KSt) = C07.kpReset ⟨ps.w, ps.prevH⟩ := rfl

/-- key_processor.py::KeyProcessor._process_cpr_response — for EVERY interface, `Ptk.C04.cprResponse`
    leaves `_previous_handler`, `_previous_key_sequence` and the key buffer alone -/
theorem cprResponse_frame {σ : Type} (I : C04.Iface σ) (ps : C04.PS σ) (kp : C04.KP) :
    (C04.cprResponse I ps kp).1.prevH = ps.prevH ∧ (C04.cprResponse I ps kp).1.prev = ps.prev ∧
    (C04.cprResponse I ps kp).1.buffer = ps.buffer := by
  simp only [C04.cprResponse]
  split
  · split <;> simp
  · simp

/-- key_processor.py::KeyProcessor._process_cpr_response — `Ptk.C04.cprResponse` at `iface07` =
    `Ptk.C07.cprResponse` (the identity), when the binding that answers the CPR key never saves
    and does not touch the buffer (key_binding/bindings/cpr.py: `save_before=lambda e: False`, the
    handler only reports to the renderer).  The real `_process_cpr_response` calls `Binding.call`
    directly and never evaluates `save_before`; `iface07` folds `save_before` into the call, hence
    the hypothesis on the rule. -/
theorem cprResponse_C04_C07 (ps : C04.PS C07.St) (kp : C04.KP)
    (hin : ∀ b ∈ (C04.getMatches (iface07 H bs ρ) ps.w [kp]).2,
      (H b.bid).1 false = false ∧ (H b.bid).2.1 = []) :
    (⟨(C04.cprResponse (iface07 H bs ρ) ps kp).1.w,
      (C04.cprResponse (iface07 H bs ρ) ps kp).1.prevH⟩ : C07.KSt)
      = C07.cprResponse ⟨ps.w, ps.prevH⟩ := by
  have hw : (C04.getMatches (iface07 H bs ρ) ps.w [kp]).1 = ps.w := rfl
  simp only [C04.cprResponse, C07.cprResponse]
  cases hm : (C04.getMatches (iface07 H bs ρ) ps.w [kp]).2.getLast? with
  | none => simp [hw]
  | some b =>
    have hb := hin b (List.mem_of_getLast? hm)
    have hcall : ((iface07 H bs ρ).call (C04.getMatches (iface07 H bs ρ) ps.w [kp]).1 ps.queue b [kp]
        ps.prev {}).1 = ps.w := by
      simp [iface07, hb.1, hb.2, C04.getMatches]
    simp only []
    split <;> simp [hcall]

/-- non-vacuity: one always-saving binding (`bid = 7`), called twice: the second call is a repeat -/
example :
    let H : HTbl := fun _ => (fun rep => !rep, [.edit (C07.insertText ['x'])], .ok)
    let b : C04.Binding := { keys := [5], hid := 0, filter := .always, eager := .never, isGlobal := .never, bid := 7 }
    let ps : C04.PS C07.St := { w := C07.reset ⟨[], 0⟩ }
    let c1 := (C04.callHandler (iface07 H [b] fun _ => false) ps b []).1
    (C04.eventOf ps b).rep = false ∧ (C04.eventOf c1 b).rep = true ∧ c1.w.undo = [⟨[], 0⟩] := by
  decide

end Ptk.AgreeKey.U07
