/-
  Cross-model agreement, cluster "Document queries and motions" (src/prompt_toolkit/document.py),
  part "brackets and the word under the cursor":
    `find_enclosing_bracket_right`, `find_enclosing_bracket_left`, `find_matching_bracket_position`,
    `find_boundaries_of_current_word`, `get_word_under_cursor`.

  Canonical model `Ptk.C02`; other models `Ptk.C08` (Vi text objects) and `Ptk.C16` (search: Vi `*`/`#`).
  Translations: `of08 : C08.Doc → C02.Doc` (same fields), `C02.Doc.mk t cur` for C16; Nat results of
  C16 are cast to Int (`wordBounds` returns (chars before, chars after) = (-start, end)).

  Hypotheses carried:
    * bracket theorems, `wordBoundaries_16`, `wordUnderCursor_16`: none (all inputs, also `l = r`,
      cursor beyond the end of the text);
    * `wordBoundaries_08`: none (any `sp`, WORD, trailing flag, cursor).  History: until the C08 model
      was repaired (`C08.cls` tested `\s` before `[a-zA-Z0-9_]`, unlike the regex alternation and
      `C02.clsWord`) this needed the hypothesis "`\s` contains no word character" and the models
      differed for `sp = (· == 'a')`, text "a", cursor 0.
-/
import Ptk.Props.AgreeDocBase
import Ptk.Props.C02WordB
namespace Ptk.AgreeDoc
open Ptk.Py

/-! ### brackets -/

theorem walk_08 (inc dec : Char) (seg : Text) (st i : Nat) (hst : 1 ≤ st) :
    C08.walk inc dec st (i + 1) seg = (C02.walk inc dec (st : Int) i seg).map (· + 1) := by
  induction seg generalizing st i with
  | nil => simp [C08.walk, C02.walk]
  | cons c cs ih =>
    rw [C08.walk, C02.walk]
    by_cases h1 : c = inc
    · simp only [h1, if_true]
      have : ¬ ((st : Int) + 1 = 0) := by omega
      simp only [this, if_false]
      have := ih (st + 1) (i + 1) (by omega)
      simpa using this
    · simp only [h1, if_false]
      by_cases h2 : c = dec
      · simp only [h2, if_true]
        by_cases h3 : st ≤ 1
        · have : (st : Int) - 1 = 0 := by omega
          simp [h3, this]
        · have : ¬ ((st : Int) - 1 = 0) := by omega
          simp only [h3, this, if_false]
          have := ih (st - 1) (i + 1) (by omega)
          rw [this]
          congr 2
          omega
      · simp only [h2, if_false]
        have : ¬ ((st : Int) = 0) := by omega
        simp only [this, if_false]
        exact ih st (i + 1) hst

/-- document.py::Document.find_enclosing_bracket_right — `C02.enclosingRight` (end_pos = None) vs `C08.enclosingRight` -/
theorem enclosingRight_08 (d : C08.Doc) (l r : Char) :
    C08.enclosingRight d l r = C02.enclosingRight (of08 d) l r none := by
  simp only [C08.enclosingRight, C02.enclosingRight, currentChar_08, C02.endLimit, of08_text, of08_cur,
    Int.toNat_natCast, List.take_length]
  split
  · rfl
  · have := walk_08 l r (d.text.drop (d.cur + 1)) 1 0 (by omega)
    simp only [Nat.zero_add] at this
    rw [this]
    simp [Option.map_map, Function.comp_def]

/-- document.py::Document.find_enclosing_bracket_left — `C02.enclosingLeft` (start_pos = None) vs `C08.enclosingLeft` -/
theorem enclosingLeft_08 (d : C08.Doc) (l r : Char) :
    C08.enclosingLeft d l r = C02.enclosingLeft (of08 d) l r none := by
  simp only [C08.enclosingLeft, C02.enclosingLeft, currentChar_08, C02.startLimit, of08_text, of08_cur,
    Int.toNat_zero, List.drop_zero, C08.Doc.before]
  split
  · rfl
  · have := walk_08 r l (d.text.take d.cur).reverse 1 0 (by omega)
    simp only [Nat.zero_add] at this
    rw [this]
    simp [Option.map_map, Function.comp_def]

theorem orZero'_eq (o : Option Int) : C08.matchingBracketGo.orZero' o = o.getD 0 := by
  cases o <;> rfl

theorem matchingGo_08 (d : C08.Doc) (ps : List (Char × Char)) :
    C08.matchingBracketGo d ps = C02.matchingGo (of08 d) none none ps := by
  induction ps with
  | nil => rfl
  | cons p rest ih =>
    obtain ⟨a, b⟩ := p
    simp only [C08.matchingBracketGo, C02.matchingGo, currentChar_08, enclosingRight_08,
      enclosingLeft_08, orZero'_eq, ih]

/-- document.py::Document.find_matching_bracket_position — `C02.matchingBracket` (start_pos = end_pos = None) vs `C08.matchingBracket` -/
theorem matchingBracket_08 (d : C08.Doc) :
    C08.matchingBracket d = C02.matchingBracket (of08 d) none none := by
  simp only [C08.matchingBracket, C02.matchingBracket, matchingGo_08]; rfl

/-! ### the word character class -/

theorem char_eq_iff_toNat_brk (c d : Char) : c = d ↔ c.toNat = d.toNat :=
  ⟨fun h => by rw [h], fun h => Char.ext (UInt32.toNat_inj.mp h)⟩

theorem isWordChar_08_brk (c : Char) : C08.isWordChar c = C02.isWordChar c := by
  have e : (c = '_') ↔ c.toNat = 95 := by rw [char_eq_iff_toNat_brk]; rfl
  have hA : 'A'.val.toNat = 65 := rfl
  have hZ : 'Z'.val.toNat = 90 := rfl
  have ha : 'a'.val.toNat = 97 := rfl
  have hz : 'z'.val.toNat = 122 := rfl
  have h0 : '0'.val.toNat = 48 := rfl
  have h9 : '9'.val.toNat = 57 := rfl
  simp only [C08.isWordChar, C02.isWordChar, Char.isAlphanum, Char.isAlpha, Char.isUpper, Char.isLower,
    Char.isDigit, UInt32.le_iff_toNat_le, Char.toNat, e, hA, hZ, ha, hz, h0, h9]
  rw [Bool.eq_iff_iff]
  simp only [Bool.or_eq_true, Bool.and_eq_true, decide_eq_true_eq, beq_iff_eq]
  omega

theorem isWordCh_16 (c : Char) : C16.isWordCh c = C02.isWordChar c := by
  have e : (c = '_') ↔ c.toNat = 95 := by rw [char_eq_iff_toNat_brk]; rfl
  have hA : 'A'.val.toNat = 65 := rfl
  have hZ : 'Z'.val.toNat = 90 := rfl
  have ha : 'a'.val.toNat = 97 := rfl
  have hz : 'z'.val.toNat = 122 := rfl
  have h0 : '0'.val.toNat = 48 := rfl
  have h9 : '9'.val.toNat = 57 := rfl
  simp only [C16.isWordCh, C02.isWordChar, Char.le_def, UInt32.le_iff_toNat_le, Char.toNat, hA, hZ, ha, hz, h0, h9]
  rw [Bool.eq_iff_iff]
  simp only [Bool.or_eq_true, Bool.and_eq_true, decide_eq_true_eq, beq_iff_eq, e]
  simp only [Char.toNat]


/-! ### character classes -/


theorem cls_08_brk (sp : Char → Bool) (big : Bool) (c : Char) :
    C08.cls sp big c = C02.cls sp big c := by
  cases big
  · simp only [C08.cls, C02.cls, C02.clsWord, isWordChar_08_brk, Bool.false_eq_true, if_false]
  · simp only [C08.cls, C02.cls, C02.clsBig, if_true]

theorem takeWhile_prefixLen (cl : Char → Nat) (k : Nat) (p : Char → Bool)
    (hp : ∀ c, p c = decide (cl c = k)) (t : Text) :
    (t.takeWhile p).length = C02.prefixLen cl k t := by
  induction t with
  | nil => rfl
  | cons c cs ih =>
    simp only [List.takeWhile_cons, C02.prefixLen, hp c]
    by_cases h : cl c = k
    · simp only [h, decide_true, if_true, List.length_cons, ← ih]
    · simp [h]

theorem currentWordEnd_08 (sp : Char → Bool) (big trailing : Bool) (t : Text) :
    C08.currentWordEnd sp big trailing t =
      if trailing then C02.currentWordEndWs (C02.cls sp big) sp t
      else C02.currentWordEnd (C02.cls sp big) t := by
  cases t with
  | nil => cases trailing <;> rfl
  | cons c r =>
    have hl : ∀ k, (r.takeWhile fun x => C08.cls sp big x == k).length = C02.prefixLen (C02.cls sp big) k r := by
      intro k
      apply takeWhile_prefixLen
      intro x
      rw [cls_08_brk sp big]
      by_cases hx : C02.cls sp big x = k <;> simp [hx]
    simp only [C08.currentWordEnd, C02.currentWordEndWs, C02.currentWordEnd, hl]
    simp only [cls_08_brk sp big]
    by_cases hk : C02.cls sp big c = 0
    · cases trailing <;> simp [hk]
    · cases trailing
      · simp [hk]
      · simp only [hk, if_false, if_true, Option.map_some]
        congr 3
        rw [show 1 + C02.prefixLen (C02.cls sp big) (C02.cls sp big c) r = (C02.prefixLen (C02.cls sp big) (C02.cls sp big c) r) + 1 by omega]
        rfl

theorem currentWordEnd_nil (cl : Char → Nat) : C02.currentWordEnd cl [] = none := rfl

/-- document.py::Document.find_boundaries_of_current_word — `C02.wordBoundaries` (include_leading_whitespace = False) vs `C08.wordBoundaries` -/
theorem wordBoundaries_08 (sp : Char → Bool) (d : C08.Doc) (big trailing : Bool) :
    C08.wordBoundaries sp d big trailing = C02.wordBoundaries sp (of08 d) big false trailing := by
  simp only [C08.wordBoundaries, C02.wordBoundaries, lineBefore_08, lineAfter_08,
    currentWordEnd_08 sp big, isWordChar_08_brk, of08_text, of08_cur, Bool.false_eq_true, if_false]
  by_cases hc : d.cur = 0
  · have : (C02.lineBefore (of08 d)).reverse = [] := by
      simp [C02.lineBefore, C02.Doc.before, hc, C02.rpartLast]
    simp only [this, currentWordEnd_nil, Option.isSome_none, Bool.and_false, Bool.false_and, Bool.false_eq_true, if_false]
    rfl
  · have e1 : index? d.text ((d.cur : Int) - 1) = d.text[d.cur - 1]? := by
      simp only [index?]
      rw [if_neg (by omega)]
      congr 1; omega
    have e2 : index? d.text (d.cur : Int) = d.text[d.cur]? := by
      simp only [index?]
      rw [if_neg (by omega)]
      congr 1
    rw [e1, e2]
    rfl

/-! ### C16 -/

theorem clsWord_eq_one (sp : Char → Bool) (c : Char) :
    C16.isWordCh c = decide (C02.clsWord sp c = 1) := by
  simp only [C02.clsWord, isWordCh_16]
  by_cases hw : C02.isWordChar c = true
  · simp [hw]
  · by_cases hs : sp c = true <;> simp [hw, hs]

theorem clsWord_eq_two (sp : Char → Bool) (c : Char) :
    C16.isPunctCh sp c = decide (C02.clsWord sp c = 2) := by
  simp only [C02.clsWord, C16.isPunctCh, isWordCh_16]
  by_cases hw : C02.isWordChar c = true
  · simp [hw]
  · by_cases hs : sp c = true <;> simp [hw, hs]

theorem curWordEnd_16 (sp : Char → Bool) (t : Text) :
    C16.curWordEnd sp t = (C02.currentWordEnd (C02.clsWord sp) t).getD 0 := by
  cases t with
  | nil => rfl
  | cons x cs =>
    simp only [C16.curWordEnd, C02.currentWordEnd]
    by_cases hw : C16.isWordCh x = true
    · have h1 : C02.clsWord sp x = 1 := by simpa [clsWord_eq_one sp x] using hw
      simp only [hw, if_true, h1, List.takeWhile_cons, List.length_cons,
        takeWhile_prefixLen (C02.clsWord sp) 1 C16.isWordCh (clsWord_eq_one sp)]
      simp; omega
    · by_cases hp : C16.isPunctCh sp x = true
      · have h2 : C02.clsWord sp x = 2 := by simpa [clsWord_eq_two sp x] using hp
        simp only [hw, hp, if_true, h2, List.takeWhile_cons, List.length_cons,
          takeWhile_prefixLen (C02.clsWord sp) 2 (C16.isPunctCh sp) (clsWord_eq_two sp)]
        simp; omega
      · have h0 : C02.clsWord sp x = 0 := by
          have a : ¬ C02.clsWord sp x = 1 := by simpa [clsWord_eq_one sp x] using hw
          have b : ¬ C02.clsWord sp x = 2 := by simpa [clsWord_eq_two sp x] using hp
          have : C02.clsWord sp x = 0 ∨ C02.clsWord sp x = 1 ∨ C02.clsWord sp x = 2 := by
            simp only [C02.clsWord]
            by_cases q1 : C02.isWordChar x = true <;> by_cases q2 : sp x = true <;> simp [q1, q2]
          omega
        simp [hw, hp, h0]

theorem curWordEnd_ne_zero (sp : Char → Bool) (t : Text) :
    (C16.curWordEnd sp t != 0) = (C02.currentWordEnd (C02.clsWord sp) t).isSome := by
  rw [curWordEnd_16]
  cases h : C02.currentWordEnd (C02.clsWord sp) t with
  | none => simp
  | some e =>
    have := C02.currentWordEnd_pos _ _ _ h
    simp; omega

theorem lineBefore_cur0 (t : Text) : (C02.lineBefore ⟨t, 0⟩).reverse = [] := by
  simp [C02.lineBefore, C02.Doc.before, C02.rpartLast]

theorem index?_nat {α : Type} (l : List α) (n : Nat) : index? l (n : Int) = l[n]? := by
  simp only [index?]
  rw [if_neg (by omega)]
  congr 1

theorem index?_pred {α : Type} (l : List α) (n : Nat) (h : n ≠ 0) : index? l ((n : Int) - 1) = l[n - 1]? := by
  simp only [index?]
  rw [if_neg (by omega)]
  congr 1; omega

/-- document.py::Document.find_boundaries_of_current_word — `C02.wordBoundaries` (WORD = False, no whitespace) vs `C16.wordBounds` -/
theorem wordBoundaries_16 (sp : Char → Bool) (t : Text) (cur : Nat) :
    (let r := C16.wordBounds sp t cur; (-(r.1 : Int), (r.2 : Int))) =
      C02.wordBoundaries sp ⟨t, cur⟩ false false false := by
  simp only [C16.wordBounds, C02.wordBoundaries, lineBefore_16, lineAfter_16, curWordEnd_ne_zero,
    isWordCh_16, C02.cls, Bool.false_eq_true, if_false, Bool.not_false, Bool.true_and]
  simp only [curWordEnd_16]
  by_cases hc : cur = 0
  · subst hc
    simp only [lineBefore_cur0, currentWordEnd_nil, Option.isSome_none, Bool.false_and,
      Bool.false_eq_true, if_false, Option.getD_none]
    cases C02.currentWordEnd (C02.clsWord sp) (C02.lineAfter ⟨t, 0⟩) <;> simp
  · rw [index?_pred _ _ hc, index?_nat]
    generalize C02.currentWordEnd (C02.clsWord sp) (C02.lineBefore ⟨t, cur⟩).reverse = mb
    generalize C02.currentWordEnd (C02.clsWord sp) (C02.lineAfter ⟨t, cur⟩) = ma
    generalize t[cur - 1]? = c1
    generalize t[cur]? = c2
    cases mb <;> cases ma <;> cases c1 <;> cases c2 <;> simp <;> split <;> simp

theorem length_takeWhile_le' {α : Type} (p : α → Bool) (l : List α) : (l.takeWhile p).length ≤ l.length :=
  (List.takeWhile_sublist p).length_le

theorem curWordEnd_le (sp : Char → Bool) (t : Text) : C16.curWordEnd sp t ≤ t.length := by
  cases t with
  | nil => simp [C16.curWordEnd]
  | cons x cs =>
    simp only [C16.curWordEnd]
    split
    · exact length_takeWhile_le' _ _
    · split
      · exact length_takeWhile_le' _ _
      · omega

theorem wordBounds_fst_le (sp : Char → Bool) (t : Text) (cur : Nat) : (C16.wordBounds sp t cur).1 ≤ cur := by
  have h1 := curWordEnd_le sp ((t.take cur).reverse.takeWhile C16.notNl)
  have h2 : ((t.take cur).reverse.takeWhile C16.notNl).length ≤ cur := by
    refine Nat.le_trans (length_takeWhile_le' _ _) ?_
    simp; omega
  simp only [C16.wordBounds]
  split
  · split
    · split <;> omega
    · omega
  · omega

/-- document.py::Document.get_word_under_cursor — `C02.wordUnderCursor` (WORD = False) vs `C16.wordUnderCursor` -/
theorem wordUnderCursor_16 (sp : Char → Bool) (t : Text) (cur : Nat) :
    C16.wordUnderCursor sp t cur = C02.wordUnderCursor sp ⟨t, cur⟩ false := by
  have hb := wordBoundaries_16 sp t cur
  have hle := wordBounds_fst_le sp t cur
  simp only [C16.wordUnderCursor, C02.wordUnderCursor, ← hb]
  generalize C16.wordBounds sp t cur = r at hle
  obtain ⟨mb, ma⟩ := r
  simp only at hle ⊢
  have e1 : (cur : Int) + -(mb : Int) = ((cur - mb : Nat) : Int) := by omega
  have e2 : (cur : Int) + (ma : Int) = ((cur + ma : Nat) : Int) := by omega
  rw [e1, e2, C02.slice_nonneg, List.take_drop]
  congr 2
  omega

end Ptk.AgreeDoc
