/-
  C12 — explicit bounds for the weighted stream `take_using_weights` (`Ptk.C12.Gen`):

  * `Gen.Inv`: the invariant of a running generator (every counter stays between the previous and
    the current round's target, a pass that has yielded nothing so far has only seen positions
    that are not due);
  * `Gen.next?_some'`: one `next` needs at most `3 n + 3` micro-steps (`n` = number of items);
  * `Gen.next?_pot`: the potential `pot j = n · lag j + #(positions due in this round)` bounds the
    number of `next` calls until position `j` is yielded: it is at most `n · (maxW + 1)`, at least
    1, and drops with every `next` that yields something else.  (Every item is yielded at most
    once per round because no weight exceeds `max_weight`, and `j` is due again after at most
    `max_weight` rounds.)
-/
import Ptk.Props.C12Grow
namespace Ptk.C12

theorem foldl_max_mem (l : List Nat) : ∀ acc, l.foldl Nat.max acc = acc ∨ l.foldl Nat.max acc ∈ l := by
  induction l with
  | nil => intro acc; left; rfl
  | cons a l ih =>
    intro acc
    simp only [List.foldl_cons]
    rcases ih (Nat.max acc a) with h | h
    · rw [h]
      by_cases hc : acc ≤ a
      · right
        have : acc.max a = a := by simp only [Nat.max_def]; split_ifs <;> omega
        rw [this]; exact List.mem_cons_self
      · left; simp only [Nat.max_def]; split_ifs <;> omega
    · right; exact List.mem_cons_of_mem _ h

theorem maxOf_mem {l : List Nat} (hne : l ≠ []) : maxOf l ∈ l := by
  rcases foldl_max_mem l 0 with h | h
  · -- the maximum is 0: every element is 0
    obtain ⟨x, hx⟩ := List.exists_mem_of_ne_nil l hne
    have := le_maxOf hx
    unfold maxOf at this ⊢
    rw [h] at this ⊢
    have : x = 0 := by omega
    subst this; exact hx
  · exact h


/-- invariant of a running `take_using_weights` generator -/
structure Gen.Inv (g : Gen) : Prop where
  wf : g.WF
  le_max : ∀ k, k < g.ws.length → g.ws.getD k 0 ≤ g.maxW
  has_max : ∃ k, k < g.ws.length ∧ g.ws.getD k 0 = g.maxW
  upper : ∀ k, k < g.ws.length → g.taken.getD k 0 * g.maxW < g.i * g.ws.getD k 0 + g.maxW
  lower : ∀ k, k < g.ws.length → (g.i - 1) * g.ws.getD k 0 ≤ g.taken.getD k 0 * g.maxW
  pass : g.adding = false → ∀ k, k < g.pos → ¬ g.Yieldable k

theorem Gen.step_inv {g : Gen} (h : g.Inv) : g.step.1.Inv := by
  obtain ⟨hwf, hle, hmax, hup, hlo, hpass⟩ := h
  have hwf' := Gen.step_wf hwf
  by_cases hp : g.pos < g.ws.length
  · by_cases hy : g.Yieldable g.pos
    · have hs := Gen.step_of_yield hp hy
      rw [hs] at hwf' ⊢
      unfold Gen.Yieldable at hy
      refine ⟨hwf', hle, hmax, ?_, ?_, ?_⟩
      · intro k hk
        simp only at hk ⊢
        rw [getD_set_nat]
        split_ifs with hc
        · obtain ⟨rfl, _⟩ := hc
          have : (g.taken.getD g.pos 0 + 1) * g.maxW = g.taken.getD g.pos 0 * g.maxW + g.maxW := by ring
          omega
        · exact hup k hk
      · intro k hk
        simp only at hk ⊢
        rw [getD_set_nat]
        split_ifs with hc
        · obtain ⟨rfl, _⟩ := hc
          have : (g.taken.getD g.pos 0 + 1) * g.maxW = g.taken.getD g.pos 0 * g.maxW + g.maxW := by ring
          have := hlo g.pos hk
          omega
        · exact hlo k hk
      · intro ha; simp at ha
    · have hs := Gen.step_of_skip hp hy
      rw [hs] at hwf' ⊢
      refine ⟨hwf', hle, hmax, hup, hlo, ?_⟩
      intro ha k hk
      simp only at ha hk
      by_cases hkp : k = g.pos
      · subst hkp; exact hy
      · exact hpass ha k (by omega)
  · cases ha : g.adding with
    | true =>
      have hs := Gen.step_of_wrap hp ha
      rw [hs] at hwf' ⊢
      refine ⟨hwf', hle, hmax, hup, hlo, ?_⟩
      intro _ k hk
      simp at hk
    | false =>
      have hs := Gen.step_of_round hp ha
      rw [hs] at hwf' ⊢
      refine ⟨hwf', hle, hmax, ?_, ?_, ?_⟩
      · intro k hk
        simp only at hk ⊢
        have := hup k hk
        have : (g.i + 1) * g.ws.getD k 0 = g.i * g.ws.getD k 0 + g.ws.getD k 0 := by ring
        omega
      · intro k hk
        simp only at hk ⊢
        have := hpass ha k (by have := hwf.pos_le; omega)
        unfold Gen.Yieldable at this
        simp only [Nat.add_sub_cancel]
        omega
      · intro _ k hk
        simp at hk


theorem Gen.init_inv {items weights : List Nat} (hlen : items.length = weights.length)
    (hpos : ∀ w ∈ weights, 0 < w) (hne : items ≠ []) :
    (Gen.init items weights).Inv ∧ (Gen.init items weights).items = items ∧
    (Gen.init items weights).ws = weights ∧ (Gen.init items weights).maxW = maxOf weights := by
  obtain ⟨hwf, hit⟩ := Gen.init_ok hlen hpos hne
  have hfilter : (items.zip weights).filter (fun p => decide (p.2 > 0)) = items.zip weights := by
    rw [List.filter_eq_self]
    intro p hp
    have := hpos p.2 (List.of_mem_zip hp).2
    simpa using this
  have hws : (Gen.init items weights).ws = weights := by
    unfold Gen.init; simp only [hfilter]; exact List.map_snd_zip (by omega)
  have hmw : (Gen.init items weights).maxW = maxOf weights := by
    unfold Gen.init; simp only [hfilter]; rw [List.map_snd_zip (by omega)]
  have hi : (Gen.init items weights).i = 0 := rfl
  have hpos0 : (Gen.init items weights).pos = 0 := rfl
  have htk : ∀ k, (Gen.init items weights).taken.getD k 0 = 0 := by
    intro k
    unfold Gen.init
    simp only
    rw [List.getD_eq_getElem?_getD, List.getElem?_map]
    generalize (List.map (fun x => x.2) (List.filter (fun p => decide (p.2 > 0)) (items.zip weights)))[k]? = o
    cases o <;> rfl
  have hwne : weights ≠ [] := by
    intro h; rw [h] at hlen; exact hne (List.length_eq_zero_iff.mp hlen)
  refine ⟨⟨hwf, ?_, ?_, ?_, ?_, ?_⟩, hit, hws, hmw⟩
  · intro k hk
    rw [hws] at hk ⊢; rw [hmw]
    apply le_maxOf
    rw [List.getD_eq_getElem?_getD]; simp [hk]
  · rw [hws, hmw]
    obtain ⟨k, hk, he⟩ := List.getElem_of_mem (maxOf_mem hwne)
    exact ⟨k, hk, by rw [List.getD_eq_getElem?_getD]; simp [hk, he]⟩
  · intro k _
    rw [htk, hi]
    have := hwf.maxW_pos
    omega
  · intro k _
    rw [hi]; simp
  · intro _ k hk
    rw [hpos0] at hk; omega


/-! #### the potential -/

/-- number of positions that the current round would still yield -/
def Gen.ycount (g : Gen) : Nat :=
  ((List.range g.ws.length).filter fun k => decide (g.Yieldable k)).length

/-- potential for position `j`: an upper bound on the number of `next` calls up to and including
    the one that yields `j` -/
def Gen.pot (g : Gen) (j : Nat) : Nat := g.ws.length * g.lag j + g.ycount

theorem filter_length_flip (P Q : Nat → Bool) (p : Nat) (hP : P p = true) (hQ : Q p = false)
    (h : ∀ k, k ≠ p → P k = Q k) :
    ∀ n, p < n → ((List.range n).filter Q).length + 1 = ((List.range n).filter P).length := by
  intro n
  induction n with
  | zero => intro hp; omega
  | succ n ih =>
    intro hp
    rw [List.range_succ, List.filter_append, List.filter_append, List.length_append,
      List.length_append]
    by_cases hpn : p = n
    · subst hpn
      have : (List.range p).filter Q = (List.range p).filter P := by
        apply List.filter_congr
        intro k hk
        have := List.mem_range.mp hk
        exact (h k (by omega)).symm
      rw [this]
      simp [hP, hQ]
    · have := ih (by omega)
      have hn : P n = Q n := h n (by omega)
      simp only [List.filter_cons, List.filter_nil, hn]
      split_ifs <;> simp <;> omega

theorem Gen.lag_le {g : Gen} (h : g.Inv) {j : Nat} (hj : j < g.ws.length) : g.lag j ≤ g.maxW := by
  have := h.upper j hj
  unfold Gen.lag; omega

theorem Gen.ycount_le (g : Gen) : g.ycount ≤ g.ws.length := by
  unfold Gen.ycount
  have := List.length_filter_le (fun k => decide (g.Yieldable k)) (List.range g.ws.length)
  simpa using this

theorem Gen.pot_le {g : Gen} (h : g.Inv) {j : Nat} (hj : j < g.ws.length) :
    g.pot j ≤ g.ws.length * (g.maxW + 1) := by
  unfold Gen.pot
  have h1 := Gen.lag_le h hj
  have h2 := g.ycount_le
  have : g.ws.length * g.lag j ≤ g.ws.length * g.maxW := Nat.mul_le_mul_left _ h1
  have : g.ws.length * (g.maxW + 1) = g.ws.length * g.maxW + g.ws.length := by ring
  omega

theorem Gen.pot_pos {g : Gen} {j : Nat} (hj : j < g.ws.length) : 1 ≤ g.pot j := by
  unfold Gen.pot
  by_cases hl : g.lag j = 0
  · have hy := Gen.yieldable_of_lag hl
    have : j ∈ (List.range g.ws.length).filter fun k => decide (g.Yieldable k) := by
      rw [List.mem_filter]; exact ⟨List.mem_range.mpr hj, by simpa using hy⟩
    have := List.length_pos_of_mem this
    unfold Gen.ycount; omega
  · have : 1 ≤ g.ws.length * g.lag j := Nat.mul_pos (by omega) (by omega)
    omega

/-- one micro-step: unless it yields `j`, the potential of `j` does not grow, and it shrinks when
    another position is yielded -/
theorem Gen.step_pot {g : Gen} (h : g.Inv) {j : Nat} (hj : j < g.ws.length)
    (hne : g.step.2 ≠ some j) :
    g.step.1.pot j + (if g.step.2.isSome then 1 else 0) ≤ g.pot j := by
  obtain ⟨hwf, hle, hmax, hup, hlo, hpass⟩ := h
  by_cases hp : g.pos < g.ws.length
  · by_cases hy : g.Yieldable g.pos
    · have hs := Gen.step_of_yield hp hy
      have hpj : g.pos ≠ j := by intro h; apply hne; rw [hs, h]
      have hsome : g.step.2.isSome = true := by rw [hs]; rfl
      rw [hsome]
      simp only [if_true]
      have hlag : g.step.1.lag j = g.lag j := by
        rw [hs]
        unfold Gen.lag
        simp only
        rw [getD_set_nat, if_neg (fun hc => hpj hc.1.symm)]
      have hws : g.step.1.ws = g.ws := Gen.step_ws g
      have hflip := filter_length_flip
        (fun k => decide (g.Yieldable k))
        (fun k => decide (g.step.1.Yieldable k))
        g.pos (by simpa using hy)
        (by
          simp only [decide_eq_false_iff_not]
          rw [hs]
          unfold Gen.Yieldable at hy ⊢
          simp only
          rw [getD_set_nat, if_pos ⟨rfl, by rw [hwf.len_taken]; exact hp⟩]
          have h1 := hlo g.pos hp
          have h2 := hle g.pos hp
          have e1 : (g.taken.getD g.pos 0 + 1) * g.maxW = g.taken.getD g.pos 0 * g.maxW + g.maxW := by ring
          -- i * w ≤ (i - 1) * w + w ≤ taken * maxW + maxW
          have e2 : g.i * g.ws.getD g.pos 0 ≤ (g.i - 1) * g.ws.getD g.pos 0 + g.ws.getD g.pos 0 := by
            rcases Nat.eq_zero_or_pos g.i with h0 | h0
            · rw [h0]; simp
            · obtain ⟨i', hi'⟩ : ∃ i', g.i = i' + 1 := ⟨g.i - 1, by omega⟩
              rw [hi']; simp only [Nat.add_sub_cancel]
              have : (i' + 1) * g.ws.getD g.pos 0 = i' * g.ws.getD g.pos 0 + g.ws.getD g.pos 0 := by ring
              omega
          omega)
        (by
          intro k hk
          apply decide_eq_decide.mpr
          rw [hs]
          unfold Gen.Yieldable
          simp only
          rw [getD_set_nat, if_neg (fun hc => hk hc.1)])
        g.ws.length hp
      unfold Gen.pot Gen.ycount
      rw [hlag, hws]
      omega
    · have hs := Gen.step_of_skip hp hy
      rw [hs]
      simp only [Option.isSome_none, Bool.false_eq_true, if_false, Nat.add_zero]
      exact le_refl _
  · cases ha : g.adding with
    | true =>
      have hs := Gen.step_of_wrap hp ha
      rw [hs]
      simp only [Option.isSome_none, Bool.false_eq_true, if_false, Nat.add_zero]
      exact le_refl _
    | false =>
      have hs := Gen.step_of_round hp ha
      rw [hs]
      simp only [Option.isSome_none, Bool.false_eq_true, if_false, Nat.add_zero]
      have hall : ∀ k, k < g.ws.length → ¬ g.Yieldable k :=
        fun k hk => hpass ha k (by have := hwf.pos_le; omega)
      -- nothing is yieldable at the end of the round
      have hc0 : g.ycount = 0 := by
        unfold Gen.ycount
        rw [List.length_eq_zero_iff, List.filter_eq_nil_iff]
        intro k hk
        simpa using hall k (List.mem_range.mp hk)
      have hnj := hall j hj
      unfold Gen.Yieldable at hnj
      have hw := hwf.ws_pos j hj
      have hlag : Gen.lag { g with i := g.i + 1, pos := 0, adding := false } j + 1 ≤ g.lag j := by
        unfold Gen.lag
        simp only
        have : (g.i + 1) * g.ws.getD j 0 = g.i * g.ws.getD j 0 + g.ws.getD j 0 := by ring
        omega
      have hc' := Gen.ycount_le { g with i := g.i + 1, pos := 0, adding := false }
      unfold Gen.pot
      rw [hc0]
      simp only at hc' ⊢
      obtain ⟨l, hl⟩ : ∃ l, g.lag j = l + 1 := ⟨g.lag j - 1, by omega⟩
      rw [hl] at hlag ⊢
      have : g.ws.length * Gen.lag { g with i := g.i + 1, pos := 0, adding := false } j
          ≤ g.ws.length * l := Nat.mul_le_mul_left _ (by omega)
      have : g.ws.length * (l + 1) = g.ws.length * l + g.ws.length := by ring
      omega


/-! #### micro-steps of one `next` -/

/-- some position at or after the pointer of the inner `for` would be yielded -/
def Gen.Ahead (g : Gen) : Prop := ∃ k, g.pos ≤ k ∧ k < g.ws.length ∧ g.Yieldable k
/-- some position would be yielded -/
def Gen.Some (g : Gen) : Prop := ∃ k, k < g.ws.length ∧ g.Yieldable k

open Classical in
/-- upper bound on the number of micro-steps before the next `yield` -/
noncomputable def Gen.mu (g : Gen) : Nat :=
  (g.ws.length - g.pos) +
    (if g.Ahead then 0 else if g.Some then 1 + g.ws.length
      else if g.adding then 2 + 2 * g.ws.length else 1 + g.ws.length)

theorem Gen.mu_le (g : Gen) : g.mu ≤ 3 * g.ws.length + 2 := by
  unfold Gen.mu
  split_ifs <;> omega

open Classical in
theorem Gen.mu_step_lt {g : Gen} (h : g.Inv) (hs : g.step.2 = none) : g.step.1.mu < g.mu := by
  obtain ⟨hwf, hle, hmax, hup, hlo, hpass⟩ := h
  have hple := hwf.pos_le
  by_cases hp : g.pos < g.ws.length
  · by_cases hy : g.Yieldable g.pos
    · rw [Gen.step_of_yield hp hy] at hs; simp at hs
    · have he := Gen.step_of_skip hp hy
      -- the state only moves its pointer past a position that is not yieldable
      have hA : g.step.1.Ahead ↔ g.Ahead := by
        rw [he]
        unfold Gen.Ahead Gen.Yieldable
        simp only
        constructor
        · rintro ⟨k, h1, h2, h3⟩; exact ⟨k, by omega, h2, h3⟩
        · rintro ⟨k, h1, h2, h3⟩
          refine ⟨k, ?_, h2, h3⟩
          by_contra hc
          have : k = g.pos := by omega
          subst this
          exact hy h3
      have hS : g.step.1.Some ↔ g.Some := by
        rw [he]; unfold Gen.Some Gen.Yieldable; simp only
      have hadd : g.step.1.adding = g.adding := by rw [he]
      have hws : g.step.1.ws = g.ws := Gen.step_ws g
      have hpos : g.step.1.pos = g.pos + 1 := by rw [he]
      unfold Gen.mu
      rw [hws, hpos, hadd]
      simp only [hA, hS]
      split_ifs <;> omega
  · have hpn : g.pos = g.ws.length := by omega
    have hnA : ¬ g.Ahead := by
      rintro ⟨k, h1, h2, _⟩; omega
    cases ha : g.adding with
    | true =>
      have he := Gen.step_of_wrap hp ha
      have hA : g.step.1.Ahead ↔ g.Some := by
        rw [he]; unfold Gen.Ahead Gen.Some Gen.Yieldable; simp only
        constructor
        · rintro ⟨k, _, h2, h3⟩; exact ⟨k, h2, h3⟩
        · rintro ⟨k, h2, h3⟩; exact ⟨k, by omega, h2, h3⟩
      have hS : g.step.1.Some ↔ g.Some := by
        rw [he]; unfold Gen.Some Gen.Yieldable; simp only
      have hadd : g.step.1.adding = false := by rw [he]
      have hws : g.step.1.ws = g.ws := Gen.step_ws g
      have hpos : g.step.1.pos = 0 := by rw [he]
      unfold Gen.mu
      rw [hws, hpos, hadd, ha]
      simp only [hA, hS, if_neg hnA, Bool.false_eq_true, if_false, if_true]
      split_ifs <;> omega
    | false =>
      have he := Gen.step_of_round hp ha
      have hnS : ¬ g.Some := by
        rintro ⟨k, h2, h3⟩
        exact hpass ha k (by omega) h3
      -- after `i += 1` a position of maximal weight is yieldable
      have hA : g.step.1.Ahead := by
        obtain ⟨k, hk, hw⟩ := hmax
        rw [he]
        unfold Gen.Ahead Gen.Yieldable
        simp only
        refine ⟨k, by omega, hk, ?_⟩
        have := hup k hk
        rw [hw] at this ⊢
        have : (g.i + 1) * g.maxW = g.i * g.maxW + g.maxW := by ring
        omega
      have hws : g.step.1.ws = g.ws := Gen.step_ws g
      have hpos : g.step.1.pos = 0 := by rw [he]
      unfold Gen.mu
      rw [hws, hpos, ha]
      simp only [if_pos hA, if_neg hnA, if_neg hnS]
      simp only [Bool.false_eq_true, if_false]
      omega

/-- **One `next` needs at most `3 n + 3` micro-steps** of the generator. -/
theorem Gen.next?_some {g : Gen} (h : g.Inv) :
    ∀ f, g.mu < f → ∃ r, g.next? f = some r := by
  intro f
  induction f generalizing g with
  | zero => intro hf; omega
  | succ f ih =>
    intro hf
    unfold Gen.next?
    rcases hs : g.step with ⟨g1, _ | p⟩
    · simp only
      have h1 : g1 = g.step.1 := by rw [hs]
      have hlt := Gen.mu_step_lt h (by rw [hs])
      rw [← h1] at hlt
      exact ih (by rw [h1]; exact Gen.step_inv h) (by omega)
    · exact ⟨_, rfl⟩

theorem Gen.next?_some' {g : Gen} (h : g.Inv) {f : Nat} (hf : 3 * g.ws.length + 3 ≤ f) :
    ∃ r, g.next? f = some r :=
  Gen.next?_some h f (by have := g.mu_le; omega)


/-- one `next`: the invariant is kept, and unless the item at position `j` was returned, the
    potential of `j` has dropped -/
theorem Gen.next?_pot {g : Gen} (h : g.Inv) {j : Nat} (hj : j < g.ws.length) :
    ∀ {f : Nat} {x : Nat} {g' : Gen}, g.next? f = some (x, g') →
      g'.Inv ∧ (x = g.items.getD j 0 ∨ g'.pot j + 1 ≤ g.pot j) := by
  intro f
  induction f generalizing g with
  | zero => intro x g' hn; simp [Gen.next?] at hn
  | succ f ih =>
    intro x g' hn
    unfold Gen.next? at hn
    rcases hs : g.step with ⟨g1, _ | p⟩
    · rw [hs] at hn
      simp only at hn
      have h1 : g1 = g.step.1 := by rw [hs]
      have hinv1 : g1.Inv := by rw [h1]; exact Gen.step_inv h
      have hws : g1.ws = g.ws := by rw [h1]; exact Gen.step_ws g
      have hit : g1.items = g.items := by rw [h1]; exact Gen.step_items g
      have hp := Gen.step_pot h hj (by rw [hs]; simp)
      rw [hs] at hp
      simp only [Option.isSome_none, Bool.false_eq_true, if_false, Nat.add_zero] at hp
      obtain ⟨a, b⟩ := ih hinv1 (by rw [hws]; exact hj) hn
      refine ⟨a, ?_⟩
      rcases b with b | b
      · left; rw [b, hit]
      · right; omega
    · rw [hs] at hn
      simp only [Option.some.injEq, Prod.mk.injEq] at hn
      obtain ⟨hx, hg⟩ := hn
      have h1 : g1 = g.step.1 := by rw [hs]
      subst hg
      refine ⟨by rw [h1]; exact Gen.step_inv h, ?_⟩
      by_cases hpj : p = j
      · left; rw [← hx, hpj]
      · right
        have hp := Gen.step_pot h hj (by rw [hs]; simpa using hpj)
        rw [hs] at hp
        simpa using hp

end Ptk.C12
