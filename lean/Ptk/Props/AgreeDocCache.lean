/-
  Cross-model agreement, cluster "Document queries and motions" (src/prompt_toolkit/document.py).

  Cache module: `Document.__init__` / `Document.lines` / `Document._line_start_indexes` read through the
  shared `_DocumentCache` — C01 (`CState`: heap of cells + `tmap` + live documents) vs C02 (`Store` /
  `Cache`).  Translations: `cacheOf : C01.Cell → C02.Cache`, `storeOf : C01.CState → C02.Store`.
-/
import Ptk.Props.AgreeDocLines
namespace Ptk.AgreeDoc
open Ptk.Py Ptk.C02

/-- a `_DocumentCache` object of C01 (`Cell`, ghost owner dropped) as the `Cache` of C02 -/
def cacheOf (c : C01.Cell) : C02.Cache := { lines := c.lines, lineIndexes := c.idx }

/-- document.py::Document.lines (through the shared `_DocumentCache`) — `C02.cachedLines` vs
    `C01.CState.getLines`: for a live document `d` whose cache object is `cell`, the list read is the
    same and the cache object afterwards is the same -/
theorem cachedLines_01 (s : C01.CState) (i : Nat) (d : C01.DocRef) (cell : C01.Cell)
    (hd : s.docs[i]? = some d) (hcell : s.heap[d.addr]? = some cell) :
    (s.getLines i).2 = (C02.cachedLines (cacheOf cell) d.text).1 ∧
    ((s.getLines i).1.heap[d.addr]?).map cacheOf = some (C02.cachedLines (cacheOf cell) d.text).2 := by
  simp only [C01.CState.getLines, hd, hcell, C02.cachedLines, cacheOf]
  cases hl : cell.lines with
  | some ls => simp [hcell, cacheOf, hl]
  | none =>
    have hlt : d.addr < s.heap.length := by
      rcases Nat.lt_or_ge d.addr s.heap.length with h | h
      · exact h
      · rw [List.getElem?_eq_none h] at hcell; cases hcell
    simp [hlt, cacheOf]


theorem lineStarts_01_list (ls : List Text) (h : ls ≠ []) :
    C01.lineStarts ls =
      (if (0 :: cumul 0 ls).length > 1 then (0 :: cumul 0 ls).dropLast else 0 :: cumul 0 ls) := by
  have hlen : (0 :: cumul 0 ls).length > 1 := by
    cases ls with
    | nil => exact absurd rfl h
    | cons l ls => simp [cumul]
  rw [if_pos hlen, dropLast_cumul 0 ls h, C01.lineStarts, lineStartsGo_eq]

/-- document.py::Document._line_start_indexes (through the shared `_DocumentCache`) — `C02.cachedStarts`
    vs `C01.CState.getIndexes`: same list read.  (A cached `lines` list is never empty: it is a
    `str.split` result.) -/
theorem cachedStarts_01 (s : C01.CState) (i : Nat) (d : C01.DocRef) (cell : C01.Cell)
    (hd : s.docs[i]? = some d) (hcell : s.heap[d.addr]? = some cell)
    (hne : ∀ ls, cell.lines = some ls → ls ≠ []) :
    (s.getIndexes i).2 = (C02.cachedStarts (cacheOf cell) d.text).1 := by
  have hlt : d.addr < s.heap.length := by
    rcases Nat.lt_or_ge d.addr s.heap.length with h | h
    · exact h
    · rw [List.getElem?_eq_none h] at hcell; cases hcell
  obtain ⟨owner, lines, idx⟩ := cell
  cases lines with
  | some ls =>
    have hls : ls ≠ [] := hne ls rfl
    cases idx with
    | some ix => simp [C01.CState.getIndexes, C01.CState.getLines, hd, hcell, C02.cachedStarts, cacheOf]
    | none =>
      simp only [C01.CState.getIndexes, C01.CState.getLines, hd, hcell, C02.cachedStarts, C02.cachedLines, cacheOf]
      exact lineStarts_01_list ls hls
  | none =>
    cases idx with
    | some ix =>
      simp only [C01.CState.getIndexes, C01.CState.getLines, hd, hcell, C02.cachedStarts, cacheOf,
        List.getElem?_set_self hlt]
    | none =>
      simp only [C01.CState.getIndexes, C01.CState.getLines, hd, hcell, C02.cachedStarts, C02.cachedLines, cacheOf,
        List.getElem?_set_self hlt]
      exact lineStarts_01_list _ (splitOn_ne_nil _ _)


/-- the global `_text_to_document_cache` of C01 (`tmap` : text ↦ address, `heap` : address ↦ cell) as the
    `Store` (text ↦ cache) of C02 -/
def storeOf (s : C01.CState) : C02.Store :=
  s.tmap.map fun p => (p.1, cacheOf ((s.heap[p.2]?).getD { owner := p.1, lines := none, idx := none }))

theorem store_get_map (m : List (Text × Nat)) (f : Text × Nat → C02.Cache) (t : Text) :
    C02.Store.get (m.map fun p => (p.1, f p)) t = ((m.find? (·.1 == t)).map f).getD {} := by
  induction m with
  | nil => rfl
  | cons p m ih =>
    simp only [C02.Store.get, List.map_cons, List.find?_cons] at ih ⊢
    by_cases h : (p.1 == t) = true
    · simp [h]
    · have h' : (p.1 == t) = false := by simpa using h
      simp only [h']
      exact ih

/-- document.py::Document.__init__ (`self._cache = _text_to_document_cache[text]`, a fresh
    `_DocumentCache()` when missing) — `C02.Store.get` vs `C01.CState.newDoc`: the cache object the new
    document holds is the one C02's store has for that text (every address in `tmap` being allocated) -/
theorem init_01 (s : C01.CState) (t : Text) (c : Nat) (hwf : ∀ p ∈ s.tmap, p.2 < s.heap.length) :
    ∃ d, (s.newDoc t c).docs.getLast? = some d ∧ d.text = t ∧ d.cur = c ∧
      ((s.newDoc t c).heap[d.addr]?).map cacheOf = some ((storeOf s).get t) := by
  simp only [storeOf, store_get_map, C01.CState.newDoc, C01.tlookup]
  cases hf : s.tmap.find? (·.1 == t) with
  | none =>
    refine ⟨⟨t, c, s.heap.length⟩, by simp, rfl, rfl, ?_⟩
    simp [cacheOf]
  | some p =>
    have hp : p ∈ s.tmap := List.mem_of_find?_eq_some hf
    have hlt := hwf p hp
    refine ⟨⟨t, c, p.2⟩, by simp, rfl, rfl, ?_⟩
    simp [List.getElem?_eq_getElem hlt]

end Ptk.AgreeDoc
