/-
  C19 — the tie between the hand-written model and the CURRENT source, checked by the kernel:
  `harness/gen_c19.py` extracts the if/elif chains of `_parse_style_str`, `_EscapeCodeCache.__missing__`,
  `ANSI._select_graphic_rendition`, `ANSI._create_style_string`, the keyword list of `_merge_attrs`,
  `Attrs._fields`, `CLASS_NAMES_RE.pattern` and the `Priority` members from the AST / live objects into
  `Ptk/Gen/C19X.lean`.  The `*_follows_ast` theorems state — for ALL inputs — that the model function
  equals the interpretation (`Model/C19Kw.lean`) of the extracted chain; the `pin_*` theorems compare
  what has no interpreter with the shape the model was written for.  A new / renamed / re-targeted
  keyword, a new Attrs field, another SGR code or another regex breaks the build here.
-/
import Ptk.Gen.C19X
import Ptk.Gen.C19
import Ptk.Model.C19Kw
import Ptk.Props.C19Depth
namespace Ptk.C19
open Ptk.Py

theorem parsePart_follows_ast (T : Tables) (a : Attrs) (part : Text) :
    parsePart T a part = interpChain T a part Gen.C19X.parseChain := rfl

/-- `_parse_style_str` with the loop body given by a chain -/
def chainParseParts (T : Tables) (chain : List PBranch) : Attrs → List Text → Option Attrs
  | a, [] => some a
  | a, p :: ps => match interpChain T a p chain with
    | some a' => chainParseParts T chain a' ps
    | none => none

def chainParseStyleStr (T : Tables) (sp : Char → Bool) (word : Text) (chain : List PBranch) (s : Text) : Option Attrs :=
  let init := if (findSub? word s).isSome then T.defaultAttrs else T.emptyAttrs
  chainParseParts T chain init (splitWs sp s)

theorem parseStyleStr_follows_ast (T : Tables) (sp : Char → Bool) (s : Text) :
    parseStyleStr T sp s = chainParseStyleStr T sp Gen.C19X.noinheritWord Gen.C19X.parseChain s := by
  have h : ∀ (ps : List Text) (a : Attrs), parseParts T a ps = chainParseParts T Gen.C19X.parseChain a ps := by
    intro ps
    induction ps with
    | nil => intro a; rfl
    | cons p ps ih =>
      intro a
      simp only [parseParts, chainParseParts, parsePart_follows_ast]
      cases interpChain T a p Gen.C19X.parseChain with
      | none => rfl
      | some a' => exact ih a'
  unfold parseStyleStr chainParseStyleStr
  exact h _ _

theorem pin_parse_init : Gen.C19X.parseInit = ["DEFAULT_ATTRS".toList, "_EMPTY_ATTRS".toList] := by decide

theorem pin_attrs_fields : Gen.C19X.attrsFields =
    ["color".toList, "bgcolor".toList, "bold".toList, "underline".toList, "strike".toList, "italic".toList,
     "blink".toList, "reverse".toList, "hidden".toList] := by decide

theorem flagByName_lits (a : Attrs) :
    flagByName a ['b', 'o', 'l', 'd'] = a.bold ∧ flagByName a ['i', 't', 'a', 'l', 'i', 'c'] = a.italic ∧
    flagByName a ['b', 'l', 'i', 'n', 'k'] = a.blink ∧
    flagByName a ['u', 'n', 'd', 'e', 'r', 'l', 'i', 'n', 'e'] = a.underline ∧
    flagByName a ['r', 'e', 'v', 'e', 'r', 's', 'e'] = a.reverse ∧
    flagByName a ['h', 'i', 'd', 'd', 'e', 'n'] = a.hidden ∧
    flagByName a ['s', 't', 'r', 'i', 'k', 'e'] = a.strike := ⟨rfl, rfl, rfl, rfl, rfl, rfl, rfl⟩

theorem sgrCodes_follows_ast (T : Tables) (sp : Char → Bool) (depth : Depth) (a : Attrs) :
    sgrCodes T sp depth a =
      colorsToCode T sp depth (a.color.getD []) (a.bgcolor.getD []) ++ encFlagCodes Gen.C19X.encFlags a := by
  obtain ⟨f1, f2, f3, f4, f5, f6, f7⟩ := flagByName_lits a
  unfold sgrCodes encFlagCodes truthy
  simp only [List.append_assoc, Gen.C19X.encFlags, List.filterMap_cons, List.filterMap_nil, f1, f2, f3, f4, f5, f6, f7]
  congr 1
  cases a.bold.getD false <;> cases a.italic.getD false <;> cases a.blink.getD false <;>
    cases a.underline.getD false <;> cases a.reverse.getD false <;> cases a.hidden.getD false <;>
    cases a.strike.getD false <;> rfl

theorem pin_unpack : Gen.C19X.unpackOrder = "fgcolor".toList :: "bgcolor".toList :: Gen.C19X.attrsFields.drop 2 ∧
    Gen.C19X.encFlagsOk = true := by decide

theorem sgrLoop_follows_ast (T : Tables) (st : Sgr) (rest : List Nat) :
    ∀ kfv ∈ Gen.C19X.decFlags, lookup kfv.1 T.decFg = none → lookup kfv.1 T.decBg = none →
      sgrLoop T st (kfv.1 :: rest) = sgrLoop T (setSgrFlag st kfv.2.1 kfv.2.2) rest := by
  intro kfv hmem h1 h2
  simp only [Gen.C19X.decFlags, List.mem_cons, List.not_mem_nil, or_false] at hmem
  rcases hmem with rfl | rfl | rfl | rfl | rfl | rfl | rfl | rfl | rfl | rfl | rfl | rfl | rfl | rfl | rfl <;>
    (rw [sgrLoop.eq_def]; simp only [h1, h2]; rfl)


theorem sgrFlagByName_lits (s : Sgr) :
    sgrFlagByName s ['b', 'o', 'l', 'd'] = s.bold ∧ sgrFlagByName s ['u', 'n', 'd', 'e', 'r', 'l', 'i', 'n', 'e'] = s.underline ∧
    sgrFlagByName s ['s', 't', 'r', 'i', 'k', 'e'] = s.strike ∧ sgrFlagByName s ['i', 't', 'a', 'l', 'i', 'c'] = s.italic ∧
    sgrFlagByName s ['b', 'l', 'i', 'n', 'k'] = s.blink ∧ sgrFlagByName s ['r', 'e', 'v', 'e', 'r', 's', 'e'] = s.reverse ∧
    sgrFlagByName s ['h', 'i', 'd', 'd', 'e', 'n'] = s.hidden := ⟨rfl, rfl, rfl, rfl, rfl, rfl, rfl⟩

/-- `_create_style_string`: colour, 'bg:' + bgcolor, then the flag words of the AST in source order -/
theorem styleString_follows_ast (s : Sgr) :
    styleString s = join [' ']
      ((match nonEmpty s.color with | some c => [c] | none => []) ++
       (match nonEmpty s.bgcolor with | some c => ["bg:".toList ++ c] | none => []) ++
       flagWords Gen.C19X.styleFlagWords s) := by
  obtain ⟨f1, f2, f3, f4, f5, f6, f7⟩ := sgrFlagByName_lits s
  unfold styleString flagWords
  simp only [List.append_assoc, Gen.C19X.styleFlagWords, List.filterMap_cons, List.filterMap_nil, f1, f2, f3, f4, f5, f6, f7]
  congr 3
  cases s.bold <;> cases s.underline <;> cases s.strike <;> cases s.italic <;> cases s.blink <;>
    cases s.reverse <;> cases s.hidden <;> rfl

theorem pin_style_colours : Gen.C19X.styleColours = [("color".toList, []), ("bgcolor".toList, "bg:".toList)] ∧
    Gen.C19X.styleStringOk = true := by decide

theorem pin_dec_shape : Gen.C19X.decShape =
    ["in _fg_colors".toList, "in _bg_colors".toList] ++ List.replicate 15 "flag".toList ++
      ["reset".toList, "extended".toList] := by decide

theorem pin_dec_reset : Gen.C19X.decReset =
    [("color".toList, "None".toList), ("bgcolor".toList, "None".toList)] ++
      (Gen.C19X.attrsFields.drop 2).map (fun f => (f, "False".toList)) := by decide

theorem pin_merge_defaults : Gen.C19X.mergeDefaults =
    (Gen.C19X.attrsFields.take 2).map (fun f => (f, "''".toList, f)) ++
      (Gen.C19X.attrsFields.drop 2).map (fun f => (f, "False".toList, f)) := by decide

theorem pin_class_names_re : Gen.C19X.classNamesRe = "^[a-z0-9.\\s_-]*$".toList := by decide

theorem pin_priorities : Gen.C19X.priorities =
    [("DICT_KEY_ORDER".toList, "KEY_ORDER".toList), ("MOST_PRECISE".toList, "MOST_PRECISE".toList)] ∧
    Gen.C19X.defaultPriority = "DICT_KEY_ORDER".toList := by decide

end Ptk.C19
